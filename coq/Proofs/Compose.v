(* Proofs/Compose.v — addressing a node by an absolute path, and composing
   that path with a relative continuation.

   Property (C13): "a relative path evaluated at node n returns the same node
   set as the absolute path that first addresses n and then continues with
   that relative path".

   Main results
     go_int_of_Z_small       int(float64(z)) = z for |z| <= 2^53
     addr_query_sel          /node()[i0+1]/node()[i1+1]/.../node()[ik+1]  selects exactly
                             [n] (counter 1, level 0) -- the item list of "." started at n
     addr_selects_node       ... in the [qden] form of Proofs/PathSem.v
     addr_attr_query_sel     the same for an attribute, addressed by name on its element
     compose_with_context    sel (addr(n)/steps) c  and  sel (./steps) n  have the same node set,
                             the XPath denotation  path_den steps n
     compose_same_sequence   ... indeed the same SEQUENCE of (node, position, level)
     subst_base_correct      general form: any continuation query [q] that looks at its
                             context node only through "." leaves (filters with arbitrary
                             predicates, unions, function calls ...):
                               sel/eval (q with "." := base) c  =  sel/eval q n
     compose_general(_eval/_attr)   ... with base = addr_query n / addr_attr_query D n
     select_compose / evaluate_compose   the same for Api.select / Api.evaluate
     addr_path_built_sel, compose_with_context_built, compose_general_built
                             the same for the shape Api.compile gives the address text
                             (QMerge ... (QFilter (QChild node() .) (QNum k)))
     peq_correct             queries equal up to the (never executed) inputs of
                             position()/last() have the same Select and Evaluate
     compose_compiled        C13 for compiled texts: a ~peq~ (r with "." := address)
     compose_merged_first_step   address/child::t[p]/steps as built (merged first step)
*)
From XP Require Import Base F64 Doc Ast Hash Eval Api.
From XP.Spec Require Import Axes Paths.
From XP.Proofs Require Import Arith HashInj AxesSound PathSem Filter Position.
Open Scope string_scope.
Open Scope nat_scope.
Open Scope list_scope.

(* ------------------------------------------------------------------ *)
(** * 1. int(float64(z)) = z on the exactly representable integers *)

Lemma go_int_round_small : forall s p,
  (Zpos p < 2 ^ 53)%Z ->
  go_int (binary_round prec emax s p 0) = cond_Zopp s (Zpos p).
Proof.
  intros s p Hp.
  destruct (binary_round_small_int s p Hp) as (mz & -> & Hmz).
  pose proof (Z.log2_nonneg (Zpos p)) as Hl0.
  assert (Hl : (Z.log2 (Zpos p) < 53)%Z) by (apply Z.log2_lt_pow2; lia).
  set (l := Z.log2 (Zpos p)) in *.
  assert (Ht : floor_pos (Zpos mz) (l - 52) = Zpos p).
  { unfold floor_pos. destruct (Z.leb_spec 0 (l - 52)) as [L|L].
    - assert (l = 52%Z) by lia. subst l. rewrite H in *. rewrite Z.sub_diag in *.
      rewrite Z.shiftl_0_r. rewrite Hmz. cbn. lia.
    - rewrite Z.shiftr_div_pow2 by lia. rewrite Hmz.
      replace (- (l - 52))%Z with (52 - l)%Z by lia.
      apply Z.div_mul. apply Z.pow_nonzero; lia. }
  unfold go_int, trunc_Z. rewrite Ht.
  assert (Hr : (min_int64 <=? (if s then - Zpos p else Zpos p))%Z &&
               ((if s then - Zpos p else Zpos p) <? 2 ^ 63)%Z = true).
  { unfold min_int64. apply andb_true_iff. split; [apply Z.leb_le|apply Z.ltb_lt]; destruct s; lia. }
  rewrite Hr. destruct s; reflexivity.
Qed.

(* Go: int(float64(z)) == z whenever |z| <= 2^53 *)
Theorem go_int_of_Z_small : forall z, (Z.abs z <= 2 ^ 53)%Z -> go_int (of_Z z) = z.
Proof.
  intros z Hz.
  destruct (Z.eq_dec (Z.abs z) (2 ^ 53)) as [E|N].
  - destruct z as [|p|p]; [discriminate E| |].
    + assert (Zpos p = 2 ^ 53)%Z as -> by lia. vm_compute. reflexivity.
    + assert (Zneg p = - 2 ^ 53)%Z as -> by lia. vm_compute. reflexivity.
  - unfold of_Z. destruct z as [|p|p]; cbn [binary_normalize].
    + reflexivity.
    + rewrite go_int_round_small by lia. reflexivity.
    + rewrite go_int_round_small by lia. reflexivity.
Qed.
Print Assumptions go_int_of_Z_small.

(* the bound is sharp: 2^53 + 1 is not a float64 *)
Example go_int_of_Z_sharp : go_int (of_Z (2 ^ 53 + 1)) = (2 ^ 53)%Z.
Proof. vm_compute. reflexivity. Qed.

Corollary go_int_index : forall i, (Z.of_nat i < 2 ^ 53)%Z ->
  go_int (of_Z (Z.of_nat (S i))) = Z.of_nat (S i).
Proof. intros i H. apply go_int_of_Z_small. lia. Qed.

(* ------------------------------------------------------------------ *)
(** * 2. The addressing query *)

Definition any_node_test : ntest := mkTest NTAll "" "" false "".

(* the float64 literal i+1 *)
Definition idx_num (i : nat) : f64 := of_Z (Z.of_nat (S i)).

(*  q/child::node()[i+1]  *)
Definition addr_step (q : query) (i : nat) : query :=
  QFilter false (QChild any_node_test q) (QNum (idx_num i)).

(*  /child::node()[i0+1]/child::node()[i1+1]/...  *)
Definition addr_path (p : list nat) : query := fold_left addr_step p QAbsolute.

(* the element (root, text, comment) position of a node address *)
Definition addr_query (n : node) : query := addr_path (npath n).

(* an attribute is addressed by name on its element: positional predicates do
   not work on the attribute axis (every item of step_attribute carries
   position 1, see [attribute_index_fails] below) *)
Definition attr_name_test (D : tree) (n : node) : ntest :=
  mkTest NTAttr (node_prefix D n) (local_name D n) false "".
Definition addr_attr_query (D : tree) (n : node) : query :=
  QAttribute (attr_name_test D n) (addr_query n).

(* all child indices of the address are exactly representable *)
Definition indices_exact (p : list nat) : Prop :=
  forall i, In i p -> go_int (idx_num i) = Z.of_nat (S i).

Lemma indices_small_exact : forall p,
  (forall i, In i p -> (Z.of_nat i < 2 ^ 53)%Z) -> indices_exact p.
Proof. intros p H i Hi. apply go_int_index. now apply H. Qed.

Lemma addr_path_snoc : forall p i, addr_path (p ++ [i]) = addr_step (addr_path p) i.
Proof. intros p i. unfold addr_path. rewrite fold_left_app. reflexivity. Qed.

Lemma nth_error_seq : forall k a i, i < k -> nth_error (seq a k) i = Some (a + i).
Proof.
  induction k as [|k IH]; intros a i H; [lia|].
  destruct i as [|i]; cbn [seq nth_error].
  - f_equal. lia.
  - rewrite IH by lia. f_equal. lia.
Qed.

Lemma filter_true_id : forall {A} (f : A -> bool) l, (forall x, In x l -> f x = true) -> filter f l = l.
Proof.
  intros A f. induction l as [|x l IH]; intros H; [reflexivity|].
  cbn [filter]. rewrite (H x) by now left. f_equal. apply IH. intros y Hy. apply H. now right.
Qed.

Lemma match_any_node : forall D has_ns n, match_test D has_ns any_node_test n = true.
Proof.
  intros D has_ns n. unfold match_test, any_node_test. cbn [nt_type nt_loc nt_pre].
  cbn [ntype_eqb]. rewrite orb_true_r. reflexivity.
Qed.

Section Compose.
Variable D : tree.
Variable has_ns : bool.
Variable hcode : node -> N.
Variable rm : string -> string -> option bool.
Variable rn : string -> nat.
Variable rr : string -> string -> string -> string.

Notation SEL := (sel D has_ns hcode rm rn rr).
Notation EVAL := (eval D has_ns hcode rm rn rr).

Lemma cands_any : forall n, cands D has_ns any_node_test n = children D n.
Proof. intros n. unfold cands. apply filter_true_id. intros x _. apply match_any_node. Qed.

Lemma pick_child : forall p i,
  valid D (mkNode (p ++ [i]) None) = true ->
  pick_nth (Z.of_nat (S i)) (children D (mkNode p None)) = [mkNode (p ++ [i]) None].
Proof.
  intros p i Hv. apply pick_nth_spec. split; [lia|].
  replace (Z.to_nat (Z.of_nat (S i) - 1)) with i by lia.
  assert (Hp : subtree D p <> None).
  { apply (valid_elem D p). apply (valid_prefix D p [i] None). exact Hv. }
  apply valid_child_iff in Hv; [|exact Hp].
  unfold children. cbn [nattr npath].
  apply (map_nth_error (fun j => mkNode (p ++ [j]) None) i).
  rewrite nth_error_seq by exact Hv. reflexivity.
Qed.

(* MAIN: the addressing query yields exactly the addressed node, once, with
   position counter 1 and level 0 -- whatever the start node *)
Theorem addr_path_sel : forall p c,
  valid D (mkNode p None) = true -> indices_exact p ->
  SEL (addr_path p) c = Val [mkItem (mkNode p None) 1 0].
Proof.
  induction p as [|i p IH] using rev_ind; intros c Hv Hx.
  - reflexivity.
  - rewrite addr_path_snoc. unfold addr_step.
    assert (Hvp : valid D (mkNode p None) = true) by (apply (valid_prefix D p [i] None); exact Hv).
    assert (Hxp : indices_exact p).
    { intros j Hj. apply Hx. apply in_or_app. now left. }
    rewrite (child_index_filter D has_ns hcode rm rn rr false any_node_test (addr_path p)
               (idx_num i) c _ (IH c Hvp Hxp)).
    cbn [flat_map it_node]. rewrite app_nil_r.
    rewrite (Hx i) by (apply in_or_app; right; now left).
    rewrite cands_any, (pick_child p i Hv). reflexivity.
Qed.

Corollary addr_query_sel : forall n c,
  valid D n = true -> nattr n = None -> indices_exact (npath n) ->
  SEL (addr_query n) c = Val [mkItem n 1 0].
Proof.
  intros [p a] c Hv Ha Hx. cbn [nattr npath] in *. subst a.
  unfold addr_query. cbn [npath]. now apply addr_path_sel.
Qed.

(* ... which is what "." yields when started at n *)
Corollary addr_query_is_context : forall n c,
  valid D n = true -> nattr n = None -> indices_exact (npath n) ->
  SEL (addr_query n) c = SEL QContext n.
Proof. intros n c Hv Ha Hx. rewrite addr_query_sel by assumption. reflexivity. Qed.

(* in the [qden] form of PathSem *)
Theorem addr_selects_node : forall n,
  valid D n = true -> nattr n = None -> indices_exact (npath n) ->
  qden D has_ns hcode rm rn rr (addr_query n) (fun _ m => m = n).
Proof.
  intros n Hv Ha Hx c Hc. exists [mkItem n 1 0]. split; [now apply addr_query_sel|].
  cbn [nodes_of map it_node In]. split.
  - intros m [<-|[]]. exact Hv.
  - intros m. split; [intros [<-|[]]; reflexivity|intros ->; now left].
Qed.

(* with the decidable size bound in place of the float hypothesis *)
Corollary addr_selects_node_small : forall n,
  valid D n = true -> nattr n = None ->
  (forall i, In i (npath n) -> (Z.of_nat i < 2 ^ 53)%Z) ->
  qden D has_ns hcode rm rn rr (addr_query n) (fun _ m => m = n).
Proof. intros n Hv Ha Hs. apply addr_selects_node; auto. now apply indices_small_exact. Qed.


(* ------------------------------------------------------------------ *)
(** * 3. Attributes: addressed by name *)

(* n is the only attribute of its element with its (prefix, local name) *)
Definition attr_unique (n : node) : Prop :=
  (local_name D n <> "" \/ node_prefix D n <> "") /\
  forall m, valid D m = true -> npath m = npath n -> nattr m <> None ->
    local_name D m = local_name D n -> node_prefix D m = node_prefix D n -> m = n.

Lemma match_attr_name : forall n m,
  nattr m <> None -> (local_name D n <> "" \/ node_prefix D n <> "") ->
  match_test D has_ns (attr_name_test D n) m =
  String.eqb (local_name D n) (local_name D m) && String.eqb (node_prefix D n) (node_prefix D m).
Proof.
  intros n m Hm Hne. unfold match_test, attr_name_test. cbn [nt_type nt_loc nt_pre nt_hasns nt_ns].
  assert (Ht : node_type D m = NTAttr) by (apply node_type_attr_iff; exact Hm).
  rewrite Ht. cbn [ntype_eqb orb]. rewrite andb_false_r.
  assert (Hc : negb (String.eqb (local_name D n) "") || negb (String.eqb (node_prefix D n) "") = true).
  { apply orb_true_iff. destruct Hne as [H|H]; [left|right];
      apply negb_true_iff; apply String.eqb_neq; exact H. }
  rewrite Hc. reflexivity.
Qed.

Lemma filter_none : forall {A} (f : A -> bool) l, (forall x, In x l -> f x = false) -> filter f l = [].
Proof.
  intros A f. induction l as [|x l IH]; intros H; [reflexivity|].
  cbn [filter]. rewrite (H x) by now left. apply IH. intros y Hy. apply H. now right.
Qed.

Lemma filter_unique : forall {A} (f : A -> bool) l x,
  NoDup l -> In x l -> f x = true -> (forall y, In y l -> f y = true -> y = x) ->
  filter f l = [x].
Proof.
  intros A f. induction l as [|y l IH]; intros x ND Hin Hx Hu; [destruct Hin|].
  inversion ND as [|y' l' Hny ND']; subst. cbn [filter].
  destruct (f y) eqn:Ey.
  - assert (y = x) by (apply Hu; [now left|exact Ey]). subst y. f_equal.
    apply filter_none. intros z Hz. destruct (f z) eqn:Ez; [|reflexivity].
    assert (z = x) by (apply Hu; [now right|exact Ez]). subst z. contradiction.
  - destruct Hin as [->|Hin]; [congruence|].
    apply IH; auto. intros z Hz. apply Hu. now right.
Qed.

Theorem addr_attr_query_sel : forall n c,
  valid D n = true -> nattr n <> None ->
  node_type D (mkNode (npath n) None) = NTElem ->
  indices_exact (npath n) -> attr_unique n ->
  SEL (addr_attr_query D n) c = Val [mkItem n 1 0].
Proof.
  intros n c Hv Ha Hty Hx [Hne Hu].
  assert (Hvo : valid D (mkNode (npath n) None) = true).
  { apply (valid_prefix D (npath n) [] (nattr n)). rewrite app_nil_r. destruct n; exact Hv. }
  unfold addr_attr_query, addr_query.
  change (SEL (QAttribute (attr_name_test D n) (addr_path (npath n))) c)
    with (do l <- SEL (addr_path (npath n)) c;
          Val (flat_map (fun it => step_attribute D has_ns (attr_name_test D n) (it_node it)) l)).
  rewrite (addr_path_sel (npath n) c Hvo Hx). cbn [obind flat_map it_node]. rewrite app_nil_r.
  unfold step_attribute. rewrite Hty. f_equal.
  rewrite (filter_unique (match_test D has_ns (attr_name_test D n))
             (attributes_after D (mkNode (npath n) None)) n).
  - reflexivity.
  - apply NoDup_attributes_after.
  - apply in_attributes_after_elem; [exact Hvo|reflexivity|].
    split; [exact Hv|]. split; [reflexivity|]. destruct (nattr n) as [i|]; [eauto|congruence].
  - rewrite match_attr_name by assumption. now rewrite !String.eqb_refl.
  - intros m Hm Ht. apply in_attributes_after_elem in Hm; [|exact Hvo|reflexivity].
    destruct Hm as (Hvm & Hpm & i & Hi). cbn [npath] in Hpm.
    assert (Hma : nattr m <> None) by congruence.
    rewrite match_attr_name in Ht by assumption.
    apply andb_true_iff in Ht as [H1 H2]. apply String.eqb_eq in H1, H2.
    apply Hu; auto.
Qed.

(* XML's "unique attribute names" ([wf_attrs], Proofs/HashInj.v) gives the
   uniqueness part of [attr_unique] *)
Lemma wf_attrs_unique : forall n,
  wf_attrs D = true -> valid D n = true ->
  forall m, valid D m = true -> npath m = npath n -> nattr m <> None -> nattr n <> None ->
    local_name D m = local_name D n -> node_prefix D m = node_prefix D n -> m = n.
Proof.
  intros [p a] Hwf Hv [q b] Hvm Hp Hb Ha Hl Hpre. cbn [npath nattr] in *. subst q.
  destruct a as [i|]; [|congruence]. destruct b as [j|]; [|congruence].
  unfold valid in Hv, Hvm. cbn [npath nattr] in Hv, Hvm.
  destruct (subtree D p) as [s|] eqn:Es; [|discriminate].
  apply Nat.ltb_lt in Hv, Hvm.
  destruct (nth_error (t_attrs s) i) as [x|] eqn:Ei; [|apply nth_error_None in Ei; lia].
  destruct (nth_error (t_attrs s) j) as [y|] eqn:Ej; [|apply nth_error_None in Ej; lia].
  unfold local_name, node_prefix, node_attr, node_tree in Hl, Hpre. cbn [npath nattr] in Hl, Hpre.
  rewrite Es, Ei, Ej in Hl, Hpre.
  f_equal. f_equal. symmetry. apply (wf_attrs_spec D p s i j x y Hwf Es Ei Ej); congruence.
Qed.

Corollary addr_attr_query_sel_wf : forall n c,
  wf_attrs D = true -> valid D n = true -> nattr n <> None ->
  node_type D (mkNode (npath n) None) = NTElem ->
  (forall i, In i (npath n) -> (Z.of_nat i < 2 ^ 53)%Z) ->
  (local_name D n <> "" \/ node_prefix D n <> "") ->
  SEL (addr_attr_query D n) c = Val [mkItem n 1 0].
Proof.
  intros n c Hwf Hv Ha Hty Hs Hne. apply addr_attr_query_sel; auto.
  - now apply indices_small_exact.
  - split; [exact Hne|]. intros m Hvm Hp Hm. now apply wf_attrs_unique.
Qed.

Theorem addr_attr_selects_node : forall n,
  valid D n = true -> nattr n <> None ->
  node_type D (mkNode (npath n) None) = NTElem ->
  indices_exact (npath n) -> attr_unique n ->
  qden D has_ns hcode rm rn rr (addr_attr_query D n) (fun _ m => m = n).
Proof.
  intros n Hv Ha Hty Hx Hu c Hc. exists [mkItem n 1 0]. split; [now apply addr_attr_query_sel|].
  cbn [nodes_of map it_node In]. split.
  - intros m [<-|[]]. exact Hv.
  - intros m. split; [intros [<-|[]]; reflexivity|intros ->; now left].
Qed.

(* ------------------------------------------------------------------ *)
(** * 4. Composition with a predicate-free relative path *)

(* any base query that selects exactly {n} *)
Theorem compose_with_base : forall base n,
  hash_ok hcode (all_nodes D) -> valid D n = true ->
  qden D has_ns hcode rm rn rr base (fun _ m => m = n) ->
  forall steps c, valid D c = true ->
  exists l1 l2,
    SEL (chain base steps) c = Val l1 /\
    SEL (chain QContext steps) n = Val l2 /\
    (forall m, In m (nodes_of l1) <-> In m (nodes_of l2)) /\
    (forall m, In m (nodes_of l1) <-> path_den D has_ns steps n m) /\
    (forall m, In m (nodes_of l2) <-> path_den D has_ns steps n m).
Proof.
  intros base n Hh Hv Hb steps c Hc.
  destruct (chain_qden D has_ns hcode rm rn rr Hh base _ steps Hb c Hc) as (l1 & E1 & _ & H1).
  destruct (chain_den D has_ns hcode rm rn rr steps n Hh Hv) as (l2 & E2 & _ & H2).
  assert (H1' : forall m, In m (nodes_of l1) <-> path_den D has_ns steps n m).
  { intros m. rewrite H1. split; [intros (s0 & -> & H); exact H|intros H; eauto]. }
  exists l1, l2. repeat split; auto; try (now apply H1'); try (now apply H2).
  - intros H. apply H2. now apply H1'.
  - intros H. apply H1'. now apply H2.
Qed.

(* MAIN (C13): the absolute path that first addresses n and then continues
   with  steps  selects, from any start node, the node set that  steps
   selects from n -- the XPath 1.0 denotation of the relative path at n *)
Theorem compose_with_context : forall n,
  hash_ok hcode (all_nodes D) -> valid D n = true -> nattr n = None ->
  indices_exact (npath n) ->
  forall steps c, valid D c = true ->
  exists l1 l2,
    SEL (chain (addr_query n) steps) c = Val l1 /\
    SEL (chain QContext steps) n = Val l2 /\
    (forall m, In m (nodes_of l1) <-> In m (nodes_of l2)) /\
    (forall m, In m (nodes_of l1) <-> path_den D has_ns steps n m) /\
    (forall m, In m (nodes_of l2) <-> path_den D has_ns steps n m).
Proof.
  intros n Hh Hv Ha Hx. apply compose_with_base; auto. now apply addr_selects_node.
Qed.

Theorem compose_with_context_attr : forall n,
  hash_ok hcode (all_nodes D) -> valid D n = true -> nattr n <> None ->
  node_type D (mkNode (npath n) None) = NTElem ->
  indices_exact (npath n) -> attr_unique n ->
  forall steps c, valid D c = true ->
  exists l1 l2,
    SEL (chain (addr_attr_query D n) steps) c = Val l1 /\
    SEL (chain QContext steps) n = Val l2 /\
    (forall m, In m (nodes_of l1) <-> In m (nodes_of l2)) /\
    (forall m, In m (nodes_of l1) <-> path_den D has_ns steps n m) /\
    (forall m, In m (nodes_of l2) <-> path_den D has_ns steps n m).
Proof.
  intros n Hh Hv Ha Hty Hx Hu. apply compose_with_base; auto. now apply addr_attr_selects_node.
Qed.

End Compose.
Print Assumptions addr_path_sel.
Print Assumptions addr_selects_node.
Print Assumptions addr_attr_query_sel.
Print Assumptions compose_with_context.
Print Assumptions compose_with_context_attr.

(* ------------------------------------------------------------------ *)
(** * 5. General continuations: replacing the "." leaves by the address *)

From XP.Proofs Require Import Absolute.

(* [subst_base q base]: q with every "." leaf that is evaluated at q's own
   context node replaced by [base].  The predicate of a filter and the child
   query of a merge are left alone: they are started at candidate nodes. *)
Fixpoint subst_base (q base : query) {struct q} : query :=
  match q with
  | QContext => base
  | QAncestor self t i => QAncestor self t (subst_base i base)
  | QAttribute t i => QAttribute t (subst_base i base)
  | QChild t i => QChild t (subst_base i base)
  | QCachedChild t i => QCachedChild t (subst_base i base)
  | QDescendant self t i => QDescendant self t (subst_base i base)
  | QFollowing sib t i => QFollowing sib t (subst_base i base)
  | QPreceding sib t i => QPreceding sib t (subst_base i base)
  | QParent t i => QParent t (subst_base i base)
  | QSelf t i => QSelf t (subst_base i base)
  | QDoD m t i => QDoD m t (subst_base i base)
  | QFilter np i p => QFilter np (subst_base i base) p
  | QGroup i => QGroup (subst_base i base)
  | QReverse i => QReverse (subst_base i base)
  | QUnion l r => QUnion (subst_base l base) (subst_base r base)
  | QMerge i ch => QMerge (subst_base i base) ch
  | QBoolean isor l r => QBoolean isor (subst_base l base) (subst_base r base)
  | QLogical op l r => QLogical op (subst_base l base) (subst_base r base)
  | QNumeric op l r => QNumeric op (subst_base l base) (subst_base r base)
  | QLastFunc i => QLastFunc (subst_base i base)
  | QConcat args => QConcat (subst_base args base)
  | QArg a rest => QArg (subst_base a base) (subst_base rest base)
  | QFn1 f a => QFn1 f (subst_base a base)
  | QFn2 f a b => QFn2 f (subst_base a base) (subst_base b base)
  | QFn3 f a b x => QFn3 f (subst_base a base) (subst_base b base) (subst_base x base)
  | QNil | QNop | QAbsolute | QFn0 _ | QPosition _ | QLast _ | QNum _ | QStr _ => q
  end.

(* a predicate-free chain over "." becomes the chain over the base *)
Lemma subst_base_chain : forall steps base, subst_base (chain QContext steps) base = chain base steps.
Proof.
  intros steps base. induction steps as [|s steps IH] using rev_ind; [reflexivity|].
  rewrite !chain_snoc. destruct s as [a t]. cbn [s_axis s_test].
  destruct a; cbn [axis_query subst_base]; now rewrite IH.
Qed.

(* Queries whose Select and Evaluate look at the context node only through
   their "." leaves ([ctx_free] of Proofs/Absolute.v plus the "." leaf).
   Excluded: position() / last() (they walk the siblings of the context node),
   name() & co. without argument, and a comparison used as a node-set. *)
Inductive via_dot : query -> Prop :=
| VD_context : via_dot QContext
| VD_absolute : via_dot QAbsolute
| VD_nil : via_dot QNil
| VD_nop : via_dot QNop
| VD_num v : via_dot (QNum v)
| VD_str s : via_dot (QStr s)
| VD_fn0 f : via_dot (QFn0 f)
| VD_ancestor self t i : via_dot i -> via_dot (QAncestor self t i)
| VD_attribute t i : via_dot i -> via_dot (QAttribute t i)
| VD_child t i : via_dot i -> via_dot (QChild t i)
| VD_cached_child t i : via_dot i -> via_dot (QCachedChild t i)
| VD_descendant self t i : via_dot i -> via_dot (QDescendant self t i)
| VD_following sib t i : via_dot i -> via_dot (QFollowing sib t i)
| VD_preceding sib t i : via_dot i -> via_dot (QPreceding sib t i)
| VD_parent t i : via_dot i -> via_dot (QParent t i)
| VD_self t i : via_dot i -> via_dot (QSelf t i)
| VD_dod m t i : via_dot i -> via_dot (QDoD m t i)
| VD_group i : via_dot i -> via_dot (QGroup i)
| VD_reverse i : via_dot i -> via_dot (QReverse i)
| VD_filter np i p : via_dot i -> via_dot (QFilter np i p)       (* p arbitrary *)
| VD_union l r : via_dot l -> via_dot r -> via_dot (QUnion l r)
| VD_merge i ch : via_dot i -> via_dot (QMerge i ch)              (* ch arbitrary *)
| VD_boolean isor l r : via_dot l -> via_dot r -> via_dot (QBoolean isor l r)
| VD_lastfunc i : via_dot i -> via_dot (QLastFunc i)
| VD_numeric op l r : via_dot l -> via_dot r -> via_dot (QNumeric op l r)
| VD_concat args : via_dot args -> via_dot (QConcat args)
| VD_arg a rest : via_dot a -> via_dot rest -> via_dot (QArg a rest)
| VD_fn1 f a : via_dot a -> a <> QNil -> via_dot (QFn1 f a)
| VD_fn2 f a b : via_dot a -> via_dot b -> via_dot (QFn2 f a b)
| VD_fn3 f a b x : via_dot a -> via_dot b -> via_dot x -> via_dot (QFn3 f a b x).

(* ... whose Evaluate does (a comparison evaluates its operands at the
   context node; as a node-set query it would return the context node itself) *)
Inductive via_dot_val : query -> Prop :=
| VV_base q : via_dot q -> via_dot_val q
| VV_group i : via_dot_val i -> via_dot_val (QGroup i)
| VV_logical op l r : via_dot_val l -> via_dot_val r -> via_dot_val (QLogical op l r)
| VV_numeric op l r : via_dot_val l -> via_dot_val r -> via_dot_val (QNumeric op l r)
| VV_boolean isor l r : via_dot_val l -> via_dot_val r -> via_dot_val (QBoolean isor l r)
| VV_concat args : via_dot_val args -> via_dot_val (QConcat args)
| VV_arg a rest : via_dot_val a -> via_dot_val rest -> via_dot_val (QArg a rest)
| VV_fn1 f a : via_dot_val a ->
               match f with FName | FLocalName | FNamespaceURI => False | _ => True end ->
               via_dot_val (QFn1 f a)
| VV_fn2 f a b : via_dot_val a -> via_dot_val b -> via_dot_val (QFn2 f a b)
| VV_fn3 f a b x : via_dot_val a -> via_dot_val b -> via_dot_val x -> via_dot_val (QFn3 f a b x).

Lemma chain_via_dot : forall steps, via_dot (chain QContext steps).
Proof.
  intros steps. induction steps as [|s steps IH] using rev_ind; [constructor|].
  rewrite chain_snoc. destruct s as [a t]. cbn [s_axis s_test].
  destruct a; cbn [axis_query]; constructor; exact IH.
Qed.

Lemma subst_base_not_nil : forall q base, q <> QNil -> base <> QNil -> subst_base q base <> QNil.
Proof. intros q base Hq Hb. destruct q; cbn [subst_base]; try discriminate; congruence. Qed.

Lemma subst_base_query_test : forall D has_ns q base,
  q <> QContext -> query_test D has_ns (subst_base q base) = query_test D has_ns q.
Proof. intros D has_ns q base Hq. destruct q; try reflexivity. congruence. Qed.

Lemma query_eq_context_dec : forall q, {q = QContext} + {q <> QContext}.
Proof. intros q. destruct q; try (right; discriminate). left. reflexivity. Qed.

Section Subst.
Variable D : tree.
Variable has_ns : bool.
Variable hcode : node -> N.
Variable rm : string -> string -> option bool.
Variable rn : string -> nat.
Variable rr : string -> string -> string -> string.

Notation SEL := (sel D has_ns hcode rm rn rr).
Notation EVAL := (eval D has_ns hcode rm rn rr).
Notation sel_unf := (Absolute.sel_unf D has_ns hcode rm rn rr).

Variable base : query.
Variable c n : node.
(* the base selects exactly n, as "." does when started at n *)
Hypothesis Hsel : SEL base c = Val [mkItem n 1 0].
Hypothesis Hns : nodeset_query base = true.
Hypothesis Htest : query_test D has_ns base n = true.

Lemma base_eval : EVAL base c = Val (VNodes [mkItem n 1 0]).
Proof. rewrite (eval_nodeset D has_ns hcode rm rn rr base c Hns), Hsel. reflexivity. Qed.

Lemma base_not_nil : base <> QNil.
Proof. intros E. rewrite E in Hns. discriminate Hns. Qed.

Lemma ns_case2 : forall q1 q2 c1 c2,
  nodeset_query q1 = true -> nodeset_query q2 = true -> SEL q1 c1 = SEL q2 c2 ->
  SEL q1 c1 = SEL q2 c2 /\ EVAL q1 c1 = EVAL q2 c2.
Proof.
  intros q1 q2 c1 c2 N1 N2 E. split; [exact E|].
  rewrite !(eval_nodeset D has_ns hcode rm rn rr) by assumption. now rewrite E.
Qed.

Lemma fn1_target_not_nil : forall a x,
  a <> QNil ->
  fn1_target D has_ns hcode rm rn rr a x =
  do l <- SEL a x; Val (match l with [] => None | i :: _ => Some (it_node i) end).
Proof. intros a x H. destruct a; try reflexivity. congruence. Qed.

Lemma fn3_body_subst : forall f x ea eb ex,
  fn3_body D rm rn rr f (subst_base x base) ea eb ex = fn3_body D rm rn rr f x ea eb ex.
Proof.
  intros f x ea eb ex. destruct x; try reflexivity.
  cbn [subst_base]. pose proof base_not_nil as Hb. destruct base; try reflexivity. congruence.
Qed.

Ltac sel_step E := rewrite !sel_unf; cbn [sel_body]; rewrite ?E; reflexivity.

(* MAIN (general form of C13) *)
Theorem subst_base_correct : forall q,
  via_dot q ->
  SEL (subst_base q base) c = SEL q n /\ EVAL (subst_base q base) c = EVAL q n.
Proof.
  induction 1 as
    [ | | | | v | s | f
    | self t i Hi IH | t i Hi IH | t i Hi IH | t i Hi IH | self t i Hi IH
    | sib t i Hi IH | sib t i Hi IH | t i Hi IH | t i Hi IH | m t i Hi IH
    | i Hi IH | i Hi IH | np i p Hi IH | l r Hl IHl Hr IHr | i ch Hi IH
    | isor l r Hl IHl Hr IHr | i Hi IH | op l r Hl IHl Hr IHr
    | args Ha IHa | a rest Ha IHa Hr IHr
    | f a Ha IHa Na | f a b Ha IHa Hb IHb | f a b x Ha IHa Hb IHb Hx IHx ];
    cbn [subst_base].
  - (* "." *) split; [rewrite Hsel; reflexivity|rewrite base_eval; reflexivity].
  - (* QAbsolute *) apply ns_case2; reflexivity.
  - split; reflexivity.
  - split; reflexivity.
  - split; reflexivity.
  - split; reflexivity.
  - split; [reflexivity|]. now rewrite !eval_fn0.
  - (* QAncestor *) destruct IH as [E _]. apply ns_case2; [reflexivity..|]. sel_step E.
  - (* QAttribute *) destruct IH as [E _]. apply ns_case2; [reflexivity..|]. sel_step E.
  - (* QChild *) destruct IH as [E _]. apply ns_case2; [reflexivity..|]. sel_step E.
  - (* QCachedChild *) destruct IH as [E _]. apply ns_case2; [reflexivity..|]. sel_step E.
  - (* QDescendant *) destruct IH as [E _]. apply ns_case2; [reflexivity..|]. sel_step E.
  - (* QFollowing *) destruct IH as [E _]. apply ns_case2; [reflexivity..|]. destruct sib; sel_step E.
  - (* QPreceding *) destruct IH as [E _]. apply ns_case2; [reflexivity..|]. destruct sib; sel_step E.
  - (* QParent *) destruct IH as [E _]. apply ns_case2; [reflexivity..|]. sel_step E.
  - (* QSelf *) destruct IH as [E _]. apply ns_case2; [reflexivity..|]. sel_step E.
  - (* QDoD *) destruct IH as [E _]. apply ns_case2; [reflexivity..|]. sel_step E.
  - (* QGroup *) destruct IH as [E E']. split; [sel_step E|]. rewrite !eval_group. exact E'.
  - (* QReverse *) destruct IH as [E _]. apply ns_case2; [reflexivity..|]. sel_step E.
  - (* QFilter: the predicate is evaluated at the candidates only *)
    destruct IH as [E _]. apply ns_case2; [reflexivity..|]. rewrite !sel_filter. now rewrite E.
  - (* QUnion *) destruct IHl as [El _]. destruct IHr as [Er _].
    apply ns_case2; [reflexivity..|]. rewrite !sel_unf; cbn [sel_body]. now rewrite El, Er.
  - (* QMerge *) destruct IH as [E _]. apply ns_case2; [reflexivity..|]. sel_step E.
  - (* QBoolean *) destruct IHl as [El El']. destruct IHr as [Er Er']. split.
    + rewrite !sel_unf; cbn [sel_body]. now rewrite El, Er.
    + rewrite !eval_boolean_sel. now rewrite El', Er'.
  - (* QLastFunc *) destruct IH as [E _]. split; [reflexivity|]. rewrite !eval_lastfunc. now rewrite E.
  - (* QNumeric *) destruct IHl as [_ El]. destruct IHr as [_ Er].
    split; [reflexivity|]. rewrite !eval_numeric. now rewrite El, Er.
  - (* QConcat *) destruct IHa as [_ E]. split; [reflexivity|]. rewrite !eval_concat. exact E.
  - (* QArg *) destruct IHa as [_ Ea]. destruct IHr as [_ Er].
    split; [reflexivity|]. rewrite !eval_arg. now rewrite Ea, Er.
  - (* QFn1 *) destruct IHa as [Es Ee]. split; [reflexivity|].
    rewrite !eval_fn1. rewrite Ee.
    rewrite (fn1_target_not_nil (subst_base a base) c)
      by (apply subst_base_not_nil; [exact Na|exact base_not_nil]).
    rewrite (fn1_target_not_nil a n) by exact Na. rewrite Es.
    destruct (query_eq_context_dec a) as [->|Nc].
    + (* count(.) : the base's own test accepts n *)
      cbn [subst_base]. change (EVAL QContext n) with (Val (VNodes [mkItem n 1 0])).
      change (SEL QContext n) with (Val [mkItem n 1 0]). cbn [obind it_node].
      destruct f; try reflexivity.
      cbn [fn1_body obind nodes_of map it_node filter]. rewrite Htest. reflexivity.
    + unfold fn1_body. rewrite (subst_base_query_test D has_ns a base Nc). reflexivity.
  - (* QFn2 *) destruct IHa as [_ Ea]. destruct IHb as [_ Eb].
    split; [reflexivity|]. rewrite !eval_fn2. rewrite Ea, Eb.
    destruct (query_eq_context_dec a) as [->|Nc].
    + cbn [subst_base]. change (EVAL QContext n) with (Val (VNodes [mkItem n 1 0])).
      destruct f; try reflexivity.
      cbn [fn2_body obind]. destruct (EVAL b n) as [vb| |]; try reflexivity.
      cbn [obind nodes_of map it_node filter]. rewrite Htest. reflexivity.
    + unfold fn2_body. rewrite (subst_base_query_test D has_ns a base Nc). reflexivity.
  - (* QFn3 *) destruct IHa as [_ Ea]. destruct IHb as [_ Eb]. destruct IHx as [_ Ex].
    split; [reflexivity|]. rewrite !eval_fn3. rewrite Ea, Eb, Ex. apply fn3_body_subst.
Qed.

Corollary subst_base_sel : forall q, via_dot q -> SEL (subst_base q base) c = SEL q n.
Proof. intros q H. now apply subst_base_correct. Qed.

(* value-level: also comparisons of such queries *)
Theorem subst_base_eval : forall q,
  via_dot_val q -> EVAL (subst_base q base) c = EVAL q n.
Proof.
  induction 1 as
    [ q Hq | i Hi IH | op l r Hl IHl Hr IHr | op l r Hl IHl Hr IHr | isor l r Hl IHl Hr IHr
    | args Ha IHa | a rest Ha IHa Hr IHr | f a Ha IHa Hf
    | f a b Ha IHa Hb IHb | f a b x Ha IHa Hb IHb Hx IHx ]; cbn [subst_base].
  - now apply subst_base_correct.
  - rewrite !eval_group. exact IH.
  - rewrite !eval_logical'. now rewrite IHl, IHr.
  - rewrite !eval_numeric. now rewrite IHl, IHr.
  - rewrite !eval_boolean_sel. now rewrite IHl, IHr.
  - rewrite !eval_concat. exact IHa.
  - rewrite !eval_arg. now rewrite IHa, IHr.
  - rewrite !eval_fn1. rewrite IHa.
    rewrite (fn1_body_target_irrelevant D has_ns f (subst_base a base) (EVAL a n)
               (fn1_target D has_ns hcode rm rn rr (subst_base a base) c)
               (fn1_target D has_ns hcode rm rn rr a n) Hf).
    destruct (query_eq_context_dec a) as [->|Nc].
    + cbn [subst_base]. change (EVAL QContext n) with (Val (VNodes [mkItem n 1 0])).
      destruct f; try reflexivity.
      cbn [fn1_body obind nodes_of map it_node filter]. rewrite Htest. reflexivity.
    + unfold fn1_body. rewrite (subst_base_query_test D has_ns a base Nc). reflexivity.
  - rewrite !eval_fn2. rewrite IHa, IHb.
    destruct (query_eq_context_dec a) as [->|Nc].
    + cbn [subst_base]. change (EVAL QContext n) with (Val (VNodes [mkItem n 1 0])).
      destruct f; try reflexivity.
      cbn [fn2_body obind]. destruct (EVAL b n) as [vb| |]; try reflexivity.
      cbn [obind nodes_of map it_node filter]. rewrite Htest. reflexivity.
    + unfold fn2_body. rewrite (subst_base_query_test D has_ns a base Nc). reflexivity.
  - rewrite !eval_fn3. rewrite IHa, IHb, IHx. apply fn3_body_subst.
Qed.

End Subst.

Print Assumptions subst_base_correct.
Print Assumptions subst_base_eval.

(* ------------------------------------------------------------------ *)
(** * 6. The general statement for the addressing queries *)

Lemma addr_path_shape : forall p,
  addr_path p = QAbsolute \/ exists np i pr, addr_path p = QFilter np i pr.
Proof.
  intros p. destruct (snoc_cases p) as [->|(q & i & ->)]; [now left|right].
  rewrite addr_path_snoc. unfold addr_step. eauto.
Qed.

Lemma addr_query_nodeset : forall n, nodeset_query (addr_query n) = true.
Proof.
  intros n. unfold addr_query. destruct (addr_path_shape (npath n)) as [->|(np & i & pr & ->)]; reflexivity.
Qed.

Lemma addr_query_test : forall D has_ns n m, query_test D has_ns (addr_query n) m = true.
Proof.
  intros D has_ns n m. unfold addr_query.
  destruct (addr_path_shape (npath n)) as [->|(np & i & pr & ->)]; reflexivity.
Qed.

Section General.
Variable D : tree.
Variable has_ns : bool.
Variable hcode : node -> N.
Variable rm : string -> string -> option bool.
Variable rn : string -> nat.
Variable rr : string -> string -> string -> string.

Notation SEL := (sel D has_ns hcode rm rn rr).
Notation EVAL := (eval D has_ns hcode rm rn rr).

(* MAIN (C13, general): for every continuation q that reaches its context node
   through "." only -- steps, filters with ARBITRARY predicates, unions,
   groups, function calls -- evaluating q at n is evaluating, from any start
   node c, q with "." replaced by the absolute address of n.  Same sequence
   of nodes, same position counters, same value, same failures. *)
Theorem compose_general : forall n c q,
  valid D n = true -> nattr n = None -> indices_exact (npath n) -> via_dot q ->
  SEL (subst_base q (addr_query n)) c = SEL q n /\
  EVAL (subst_base q (addr_query n)) c = EVAL q n.
Proof.
  intros n c q Hv Ha Hx Hq.
  apply (subst_base_correct D has_ns hcode rm rn rr (addr_query n) c n); auto.
  - now apply addr_query_sel.
  - apply addr_query_nodeset.
  - apply addr_query_test.
Qed.

Theorem compose_general_eval : forall n c q,
  valid D n = true -> nattr n = None -> indices_exact (npath n) -> via_dot_val q ->
  EVAL (subst_base q (addr_query n)) c = EVAL q n.
Proof.
  intros n c q Hv Ha Hx Hq.
  apply (subst_base_eval D has_ns hcode rm rn rr (addr_query n) c n); auto.
  - now apply addr_query_sel.
  - apply addr_query_nodeset.
  - apply addr_query_test.
Qed.

Theorem compose_general_attr : forall n c q,
  valid D n = true -> nattr n <> None ->
  node_type D (mkNode (npath n) None) = NTElem ->
  indices_exact (npath n) -> attr_unique D n -> via_dot q ->
  SEL (subst_base q (addr_attr_query D n)) c = SEL q n /\
  EVAL (subst_base q (addr_attr_query D n)) c = EVAL q n.
Proof.
  intros n c q Hv Ha Hty Hx Hu Hq.
  apply (subst_base_correct D has_ns hcode rm rn rr (addr_attr_query D n) c n); auto.
  - now apply addr_attr_query_sel.
  - unfold addr_attr_query. cbn [query_test].
    rewrite match_attr_name by (auto; apply Hu). now rewrite !String.eqb_refl.
Qed.

(* predicate-free paths: not only the same node set (compose_with_context)
   but the same sequence; no assumption on the hash codes *)
Corollary compose_same_sequence : forall n c steps,
  valid D n = true -> nattr n = None -> indices_exact (npath n) ->
  SEL (chain (addr_query n) steps) c = SEL (chain QContext steps) n.
Proof.
  intros n c steps Hv Ha Hx. rewrite <- subst_base_chain.
  apply compose_general; auto. apply chain_via_dot.
Qed.

End General.

(* Expr.Select / Expr.Evaluate (Api.v) *)
Corollary select_compose : forall rm rn rr (hcode : tree -> node -> N) D has_ns n c q,
  valid D n = true -> nattr n = None -> indices_exact (npath n) -> via_dot q ->
  select rm rn rr hcode D has_ns (subst_base q (addr_query n)) c = select rm rn rr hcode D has_ns q n.
Proof.
  intros rm rn rr hcode D has_ns n c q Hv Ha Hx Hq. unfold select.
  destruct (compose_general D has_ns (hcode D) rm rn rr n c q Hv Ha Hx Hq) as [-> _]. reflexivity.
Qed.

Corollary evaluate_compose : forall rm rn rr (hcode : tree -> node -> N) D has_ns n c q,
  valid D n = true -> nattr n = None -> indices_exact (npath n) -> via_dot q ->
  evaluate rm rn rr hcode D has_ns (subst_base q (addr_query n)) c = evaluate rm rn rr hcode D has_ns q n.
Proof.
  intros rm rn rr hcode D has_ns n c q Hv Ha Hx Hq. unfold evaluate.
  rewrite (select_compose rm rn rr hcode D has_ns n c q Hv Ha Hx Hq).
  destruct (compose_general D has_ns (hcode D) rm rn rr n c q Hv Ha Hx Hq) as [_ ->]. reflexivity.
Qed.

Print Assumptions compose_general.
Print Assumptions compose_general_eval.
Print Assumptions compose_general_attr.
Print Assumptions compose_same_sequence.
Print Assumptions select_compose.
Print Assumptions evaluate_compose.

(* ------------------------------------------------------------------ *)
(** * 6b. The builder's shape of the addressing path

   Compiling the TEXT  /child::node()[i0+1]/child::node()[i1+1]/...  gives
   (Build.v) not [addr_query] but the merged form
       QMerge (... QMerge QAbsolute (QFilter (QChild node() .) (QNum i0+1)) ...)
              (QFilter (QChild node() .) (QNum ik+1))
   (see [ex_compile_addr] below).  Same results for it. *)

Definition addr_step_built (q : query) (i : nat) : query :=
  QMerge q (QFilter false (QChild any_node_test QContext) (QNum (idx_num i))).
Definition addr_path_built (p : list nat) : query := fold_left addr_step_built p QAbsolute.
Definition addr_query_built (n : node) : query := addr_path_built (npath n).

Lemma addr_path_built_snoc : forall p i,
  addr_path_built (p ++ [i]) = addr_step_built (addr_path_built p) i.
Proof. intros p i. unfold addr_path_built. rewrite fold_left_app. reflexivity. Qed.

Lemma addr_query_built_nodeset : forall n, nodeset_query (addr_query_built n) = true.
Proof.
  intros n. unfold addr_query_built. destruct (snoc_cases (npath n)) as [->|(q & i & ->)]; [reflexivity|].
  rewrite addr_path_built_snoc. reflexivity.
Qed.

Lemma addr_query_built_test : forall D has_ns n m, query_test D has_ns (addr_query_built n) m = true.
Proof.
  intros D has_ns n m. unfold addr_query_built.
  destruct (snoc_cases (npath n)) as [->|(q & i & ->)]; [reflexivity|].
  rewrite addr_path_built_snoc. reflexivity.
Qed.

Section Built.
Variable D : tree.
Variable has_ns : bool.
Variable hcode : node -> N.
Variable rm : string -> string -> option bool.
Variable rn : string -> nat.
Variable rr : string -> string -> string -> string.

Notation SEL := (sel D has_ns hcode rm rn rr).
Notation EVAL := (eval D has_ns hcode rm rn rr).

Theorem addr_path_built_sel : forall p c,
  valid D (mkNode p None) = true -> indices_exact p ->
  SEL (addr_path_built p) c = Val [mkItem (mkNode p None) 1 0].
Proof.
  induction p as [|i p IH] using rev_ind; intros c Hv Hx.
  - reflexivity.
  - rewrite addr_path_built_snoc. unfold addr_step_built.
    assert (Hvp : valid D (mkNode p None) = true) by (apply (valid_prefix D p [i] None); exact Hv).
    assert (Hxp : indices_exact p).
    { intros j Hj. apply Hx. apply in_or_app. now left. }
    rewrite (merge_child_index D has_ns hcode rm rn rr false any_node_test (addr_path_built p)
               (idx_num i) c _ (IH c Hvp Hxp)).
    cbn [nodes_of map flat_map it_node]. rewrite app_nil_r.
    rewrite (Hx i) by (apply in_or_app; right; now left).
    rewrite cands_any, (pick_child D p i Hv). reflexivity.
Qed.

Corollary addr_query_built_sel : forall n c,
  valid D n = true -> nattr n = None -> indices_exact (npath n) ->
  SEL (addr_query_built n) c = Val [mkItem n 1 0].
Proof.
  intros [p a] c Hv Ha Hx. cbn [nattr npath] in *. subst a.
  unfold addr_query_built. cbn [npath]. now apply addr_path_built_sel.
Qed.

Theorem addr_built_selects_node : forall n,
  valid D n = true -> nattr n = None -> indices_exact (npath n) ->
  qden D has_ns hcode rm rn rr (addr_query_built n) (fun _ m => m = n).
Proof.
  intros n Hv Ha Hx c Hc. exists [mkItem n 1 0]. split; [now apply addr_query_built_sel|].
  cbn [nodes_of map it_node In]. split.
  - intros m [<-|[]]. exact Hv.
  - intros m. split; [intros [<-|[]]; reflexivity|intros ->; now left].
Qed.

Theorem compose_with_context_built : forall n,
  hash_ok hcode (all_nodes D) -> valid D n = true -> nattr n = None ->
  indices_exact (npath n) ->
  forall steps c, valid D c = true ->
  exists l1 l2,
    SEL (chain (addr_query_built n) steps) c = Val l1 /\
    SEL (chain QContext steps) n = Val l2 /\
    (forall m, In m (nodes_of l1) <-> In m (nodes_of l2)) /\
    (forall m, In m (nodes_of l1) <-> path_den D has_ns steps n m) /\
    (forall m, In m (nodes_of l2) <-> path_den D has_ns steps n m).
Proof.
  intros n Hh Hv Ha Hx. apply compose_with_base; auto. now apply addr_built_selects_node.
Qed.

Theorem compose_general_built : forall n c q,
  valid D n = true -> nattr n = None -> indices_exact (npath n) -> via_dot q ->
  SEL (subst_base q (addr_query_built n)) c = SEL q n /\
  EVAL (subst_base q (addr_query_built n)) c = EVAL q n.
Proof.
  intros n c q Hv Ha Hx Hq.
  apply (subst_base_correct D has_ns hcode rm rn rr (addr_query_built n) c n); auto.
  - now apply addr_query_built_sel.
  - apply addr_query_built_nodeset.
  - apply addr_query_built_test.
Qed.

End Built.
Print Assumptions addr_path_built_sel.
Print Assumptions compose_with_context_built.
Print Assumptions compose_general_built.

(* ------------------------------------------------------------------ *)
(** * 6c. Compiled texts: position() / last() carry a copy of the input path

   For a step with a predicate that uses position() or last() the builder
   stores, inside the predicate, the step's own query (with its input path) as
   the "input" of the position()/last() function query.  So the compiled
   text  address/relative  is the substitution instance of the compiled
   relative text only up to those inputs.  They are never run: position()
   and last() use only the node test of their input ([query_test]).  [peq] is
   syntactic equality up to them, and it preserves Select and Evaluate. *)

Definition test_of (q : query) : option ntest :=
  match q with
  | QAncestor _ t _ | QAttribute t _ | QChild t _ | QCachedChild t _ | QDescendant _ t _
  | QFollowing _ t _ | QPreceding _ t _ | QParent t _ | QSelf t _ => Some t
  | _ => None
  end.

Definition is_nil (q : query) : bool := match q with QNil => true | _ => false end.

Inductive peq : query -> query -> Prop :=
| PE_refl q : peq q q
| PE_position i i' : test_of i = test_of i' -> peq (QPosition i) (QPosition i')
| PE_last i i' : test_of i = test_of i' -> peq (QLast i) (QLast i')
| PE_ancestor self t i i' : peq i i' -> peq (QAncestor self t i) (QAncestor self t i')
| PE_attribute t i i' : peq i i' -> peq (QAttribute t i) (QAttribute t i')
| PE_child t i i' : peq i i' -> peq (QChild t i) (QChild t i')
| PE_cached_child t i i' : peq i i' -> peq (QCachedChild t i) (QCachedChild t i')
| PE_descendant self t i i' : peq i i' -> peq (QDescendant self t i) (QDescendant self t i')
| PE_following sib t i i' : peq i i' -> peq (QFollowing sib t i) (QFollowing sib t i')
| PE_preceding sib t i i' : peq i i' -> peq (QPreceding sib t i) (QPreceding sib t i')
| PE_parent t i i' : peq i i' -> peq (QParent t i) (QParent t i')
| PE_self t i i' : peq i i' -> peq (QSelf t i) (QSelf t i')
| PE_dod m t i i' : peq i i' -> peq (QDoD m t i) (QDoD m t i')
| PE_filter np np' i i' p p' : peq i i' -> peq p p' -> peq (QFilter np i p) (QFilter np' i' p')
| PE_group i i' : peq i i' -> peq (QGroup i) (QGroup i')
| PE_reverse i i' : peq i i' -> peq (QReverse i) (QReverse i')
| PE_union l l' r r' : peq l l' -> peq r r' -> peq (QUnion l r) (QUnion l' r')
| PE_merge i i' ch ch' : peq i i' -> peq ch ch' -> peq (QMerge i ch) (QMerge i' ch')
| PE_boolean isor l l' r r' : peq l l' -> peq r r' -> peq (QBoolean isor l r) (QBoolean isor l' r')
| PE_logical op l l' r r' : peq l l' -> peq r r' -> peq (QLogical op l r) (QLogical op l' r')
| PE_numeric op l l' r r' : peq l l' -> peq r r' -> peq (QNumeric op l r) (QNumeric op l' r')
| PE_lastfunc i i' : peq i i' -> peq (QLastFunc i) (QLastFunc i')
| PE_concat a a' : peq a a' -> peq (QConcat a) (QConcat a')
| PE_arg a a' r r' : peq a a' -> peq r r' -> peq (QArg a r) (QArg a' r')
| PE_fn1 f a a' : peq a a' -> peq (QFn1 f a) (QFn1 f a')
| PE_fn2 f a a' b b' : peq a a' -> peq b b' -> peq (QFn2 f a b) (QFn2 f a' b')
| PE_fn3 f a a' b b' x x' : peq a a' -> peq b b' -> peq x x' -> peq (QFn3 f a b x) (QFn3 f a' b' x').

Lemma peq_test_of : forall q q', peq q q' -> test_of q = test_of q'.
Proof. intros q q' H. destruct H; reflexivity. Qed.

Lemma peq_is_nil : forall q q', peq q q' -> is_nil q = is_nil q'.
Proof. intros q q' H. destruct H; reflexivity. Qed.

Lemma query_test_of : forall D has_ns q,
  query_test D has_ns q =
  match test_of q with Some t => match_test D has_ns t | None => fun _ => true end.
Proof. intros D has_ns q. destruct q; reflexivity. Qed.

Lemma test_of_query_test : forall D has_ns q q',
  test_of q = test_of q' -> query_test D has_ns q = query_test D has_ns q'.
Proof. intros D has_ns q q' H. rewrite !query_test_of, H. reflexivity. Qed.

(* proving [peq] on concrete query terms *)
Ltac peq_tac :=
  first [ apply PE_refl
        | apply PE_position; reflexivity
        | apply PE_last; reflexivity
        | constructor; peq_tac ].

Section Peq.
Variable D : tree.
Variable has_ns : bool.
Variable hcode : node -> N.
Variable rm : string -> string -> option bool.
Variable rn : string -> nat.
Variable rr : string -> string -> string -> string.

Notation SEL := (sel D has_ns hcode rm rn rr).
Notation EVAL := (eval D has_ns hcode rm rn rr).
Notation sel_unf := (Absolute.sel_unf D has_ns hcode rm rn rr).
Notation NS2 := (ns_case2 D has_ns hcode rm rn rr).

Lemma filter_go_ext : forall p p',
  (forall x, EVAL p x = EVAL p' x) ->
  forall l pm, filter_go D has_ns hcode rm rn rr p l pm = filter_go D has_ns hcode rm rn rr p' l pm.
Proof.
  intros p p' E. induction l as [|it l IH]; intros pm; [reflexivity|].
  rewrite !filter_go_cons, E.
  destruct (EVAL p' (it_node it)) as [v| |]; cbn [obind]; try reflexivity.
  destruct (truth_of_filter v (it_pos it)); [rewrite IH; reflexivity|apply IH].
Qed.

Lemma oflat_map_ext : forall {A B} (f g : A -> outcome (list B)) l,
  (forall a, f a = g a) -> oflat_map f l = oflat_map g l.
Proof.
  intros A B f g l E. induction l as [|a l IH]; [reflexivity|].
  cbn [oflat_map]. now rewrite E, IH.
Qed.

Lemma fn1_target_is_nil : forall a x,
  fn1_target D has_ns hcode rm rn rr a x =
  if is_nil a then Val (Some x)
  else do l <- SEL a x; Val (match l with [] => None | i :: _ => Some (it_node i) end).
Proof. intros a x. destruct a; reflexivity. Qed.

Lemma fn3_body_is_nil : forall f x ea eb ex,
  fn3_body D rm rn rr f x ea eb ex =
  fn3_body D rm rn rr f (if is_nil x then QNil else QNop) ea eb ex.
Proof. intros f x ea eb ex. destruct x; reflexivity. Qed.

Ltac sel_step E := rewrite !sel_unf; cbn [sel_body]; rewrite ?E; reflexivity.

Theorem peq_correct : forall q q',
  peq q q' -> forall c, SEL q c = SEL q' c /\ EVAL q c = EVAL q' c.
Proof.
  induction 1 as
    [ q | i i' Ht | i i' Ht
    | self t i i' Hi IH | t i i' Hi IH | t i i' Hi IH | t i i' Hi IH | self t i i' Hi IH
    | sib t i i' Hi IH | sib t i i' Hi IH | t i i' Hi IH | t i i' Hi IH | m t i i' Hi IH
    | np np' i i' p p' Hi IH Hp IHp
    | i i' Hi IH | i i' Hi IH | l l' r r' Hl IHl Hr IHr | i i' ch ch' Hi IH Hch IHch
    | isor l l' r r' Hl IHl Hr IHr | op l l' r r' Hl IHl Hr IHr | op l l' r r' Hl IHl Hr IHr
    | i i' Hi IH | a a' Ha IHa | a a' r r' Ha IHa Hr IHr
    | f a a' Ha IHa | f a a' b b' Ha IHa Hb IHb | f a a' b b' x x' Ha IHa Hb IHb Hx IHx ];
    intros c.
  - split; reflexivity.
  - (* position() *) split; [reflexivity|].
    change (Val (VNum (position_of (query_test D has_ns i) c)) =
            Val (VNum (position_of (query_test D has_ns i') c)) :> outcome value).
    now rewrite (test_of_query_test D has_ns i i' Ht).
  - (* last() *) split; [reflexivity|].
    change (Val (VNum (last_of D (query_test D has_ns i) c)) =
            Val (VNum (last_of D (query_test D has_ns i') c)) :> outcome value).
    now rewrite (test_of_query_test D has_ns i i' Ht).
  - destruct (IH c) as [E _]. apply NS2; [reflexivity..|]. sel_step E.
  - destruct (IH c) as [E _]. apply NS2; [reflexivity..|]. sel_step E.
  - destruct (IH c) as [E _]. apply NS2; [reflexivity..|]. sel_step E.
  - destruct (IH c) as [E _]. apply NS2; [reflexivity..|]. sel_step E.
  - destruct (IH c) as [E _]. apply NS2; [reflexivity..|]. sel_step E.
  - destruct (IH c) as [E _]. apply NS2; [reflexivity..|]. destruct sib; sel_step E.
  - destruct (IH c) as [E _]. apply NS2; [reflexivity..|]. destruct sib; sel_step E.
  - destruct (IH c) as [E _]. apply NS2; [reflexivity..|]. sel_step E.
  - destruct (IH c) as [E _]. apply NS2; [reflexivity..|]. sel_step E.
  - destruct (IH c) as [E _]. apply NS2; [reflexivity..|]. sel_step E.
  - (* QFilter *) destruct (IH c) as [E _]. apply NS2; [reflexivity..|].
    rewrite !sel_filter, E. destruct (SEL i' c) as [l| |]; cbn [obind]; try reflexivity.
    apply filter_go_ext. intros x. apply IHp.
  - (* QGroup *) destruct (IH c) as [E E']. split; [sel_step E|]. rewrite !eval_group. exact E'.
  - (* QReverse *) destruct (IH c) as [E _]. apply NS2; [reflexivity..|]. sel_step E.
  - (* QUnion *) destruct (IHl c) as [El _]. destruct (IHr c) as [Er _].
    apply NS2; [reflexivity..|]. rewrite !sel_unf; cbn [sel_body]. now rewrite El, Er.
  - (* QMerge *) destruct (IH c) as [E _]. apply NS2; [reflexivity..|].
    rewrite !sel_unf; cbn [sel_body]. rewrite E.
    destruct (SEL i' c) as [l| |]; cbn [obind]; try reflexivity.
    rewrite (oflat_map_ext (fun it => SEL ch (it_node it)) (fun it => SEL ch' (it_node it)));
      [reflexivity|]. intros it. apply IHch.
  - (* QBoolean *) destruct (IHl c) as [El El']. destruct (IHr c) as [Er Er']. split.
    + rewrite !sel_unf; cbn [sel_body]. now rewrite El, Er.
    + rewrite !eval_boolean_sel. now rewrite El', Er'.
  - (* QLogical *) destruct (IHl c) as [_ El]. destruct (IHr c) as [_ Er]. split.
    + rewrite !sel_unf; cbn [sel_body]. now rewrite El, Er.
    + rewrite !eval_logical'. now rewrite El, Er.
  - (* QNumeric *) destruct (IHl c) as [_ El]. destruct (IHr c) as [_ Er].
    split; [reflexivity|]. rewrite !eval_numeric. now rewrite El, Er.
  - (* QLastFunc *) destruct (IH c) as [E _]. split; [reflexivity|]. rewrite !eval_lastfunc. now rewrite E.
  - (* QConcat *) destruct (IHa c) as [_ E]. split; [reflexivity|]. rewrite !eval_concat. exact E.
  - (* QArg *) destruct (IHa c) as [_ Ea]. destruct (IHr c) as [_ Er].
    split; [reflexivity|]. rewrite !eval_arg. now rewrite Ea, Er.
  - (* QFn1 *) destruct (IHa c) as [Es Ee]. split; [reflexivity|].
    rewrite !eval_fn1, !fn1_target_is_nil. rewrite Ee, Es, (peq_is_nil a a' Ha).
    unfold fn1_body. rewrite (test_of_query_test D has_ns a a' (peq_test_of a a' Ha)). reflexivity.
  - (* QFn2 *) destruct (IHa c) as [_ Ea]. destruct (IHb c) as [_ Eb].
    split; [reflexivity|]. rewrite !eval_fn2. rewrite Ea, Eb.
    unfold fn2_body. rewrite (test_of_query_test D has_ns a a' (peq_test_of a a' Ha)). reflexivity.
  - (* QFn3 *) destruct (IHa c) as [_ Ea]. destruct (IHb c) as [_ Eb]. destruct (IHx c) as [_ Ex].
    split; [reflexivity|]. rewrite !eval_fn3. rewrite Ea, Eb, Ex.
    rewrite (fn3_body_is_nil f x), (fn3_body_is_nil f x'), (peq_is_nil x x' Hx). reflexivity.
Qed.

(* MAIN (C13 on compiled expressions): if the compiled absolute expression
   [a] is, up to the inputs of position()/last(), the compiled relative
   expression [r] with "." replaced by the compiled address of n, then [a]
   from any start node behaves as [r] at n *)
Theorem compose_compiled : forall n c r a,
  valid D n = true -> nattr n = None -> indices_exact (npath n) ->
  via_dot r -> peq (subst_base r (addr_query_built n)) a ->
  SEL a c = SEL r n /\ EVAL a c = EVAL r n.
Proof.
  intros n c r a Hv Ha Hx Hr Hp.
  destruct (peq_correct _ _ Hp c) as [<- <-].
  now apply compose_general_built.
Qed.

End Peq.
Print Assumptions peq_correct.
Print Assumptions compose_compiled.

(* ------------------------------------------------------------------ *)
(** * 6d. A merged first step

   When the relative text starts with a child step that has a positional
   predicate, the builder turns  address/child::t[p]  into
   QMerge address (QFilter (QChild t .) p): the relative query [ch] is
   restarted at each node of the address, i.e. at n.  Same nodes in the same
   order as [ch] at n (the merge re-labels the position counters with 1),
   and therefore the same sequence after any further predicate-free steps. *)

Section Merged.
Variable D : tree.
Variable has_ns : bool.
Variable hcode : node -> N.
Variable rm : string -> string -> option bool.
Variable rn : string -> nat.
Variable rr : string -> string -> string -> string.

Notation SEL := (sel D has_ns hcode rm rn rr).
Notation sel_unf := (Absolute.sel_unf D has_ns hcode rm rn rr).

Lemma merge_base_sel : forall base ch c n,
  SEL base c = Val [mkItem n 1 0] ->
  SEL (QMerge base ch) c = do l <- SEL ch n; Val (unnumbered (nodes_of l)).
Proof.
  intros base ch c n Hb. rewrite sel_unf. cbn [sel_body]. rewrite Hb. cbn [obind oflat_map it_node].
  destruct (SEL ch n) as [l| |]; cbn [obind]; try reflexivity. now rewrite app_nil_r.
Qed.

Theorem merge_base_nodes : forall base ch c n,
  SEL base c = Val [mkItem n 1 0] ->
  omap nodes_of (SEL (QMerge base ch) c) = omap nodes_of (SEL ch n).
Proof.
  intros base ch c n Hb. rewrite (merge_base_sel base ch c n Hb). unfold omap.
  destruct (SEL ch n) as [l| |]; cbn [obind]; try reflexivity.
  now rewrite AxesSound.nodes_of_unnumbered.
Qed.

Lemma omap_nodes_inv : forall (x y : outcome (list item)),
  omap nodes_of x = omap nodes_of y ->
  match x, y with
  | Val a, Val b => nodes_of a = nodes_of b
  | Complaint m, Complaint m' => m = m'
  | Crash k, Crash k' => k = k'
  | _, _ => False
  end.
Proof.
  intros x y H. unfold omap in H. destruct x, y; cbn [obind] in H; try discriminate H; congruence.
Qed.

Lemma flat_map_nodes : forall (f : node -> list item) l,
  flat_map (fun it => f (it_node it)) l = flat_map f (nodes_of l).
Proof. intros f l. unfold nodes_of. now rewrite flat_map_concat_map, flat_map_concat_map, map_map. Qed.

(* an axis step looks at the nodes of its input only *)
Lemma axis_step_nodes_congr : forall a t i1 i2 c1 c2,
  omap nodes_of (SEL i1 c1) = omap nodes_of (SEL i2 c2) ->
  SEL (axis_query a t i1) c1 = SEL (axis_query a t i2) c2.
Proof.
  intros a t i1 i2 c1 c2 H. apply omap_nodes_inv in H.
  destruct a; cbn [axis_query]; rewrite !sel_unf; cbn [sel_body];
    destruct (SEL i1 c1) as [l1| |], (SEL i2 c2) as [l2| |]; try contradiction;
    cbn [obind]; rewrite ?flat_map_nodes, ?H; try reflexivity; now subst.
Qed.

Theorem chain_nodes_congr : forall steps i1 i2 c1 c2,
  omap nodes_of (SEL i1 c1) = omap nodes_of (SEL i2 c2) ->
  omap nodes_of (SEL (chain i1 steps) c1) = omap nodes_of (SEL (chain i2 steps) c2).
Proof.
  induction steps as [|s steps IH] using rev_ind; intros i1 i2 c1 c2 H; [exact H|].
  rewrite !chain_snoc. f_equal. apply axis_step_nodes_congr. now apply IH.
Qed.

(* address/child::t[p]/steps  as built  vs.  child::t[p]/steps  at n *)
Theorem compose_merged_first_step : forall n c ch steps,
  valid D n = true -> nattr n = None -> indices_exact (npath n) ->
  omap nodes_of (SEL (chain (QMerge (addr_query_built n) ch) steps) c) =
  omap nodes_of (SEL (chain ch steps) n).
Proof.
  intros n c ch steps Hv Ha Hx. apply chain_nodes_congr. apply merge_base_nodes.
  now apply addr_query_built_sel.
Qed.

End Merged.
Print Assumptions compose_merged_first_step.

(* ------------------------------------------------------------------ *)
(** * 7. Examples on HashInj's sample document
     <a x p:x y>t<p:b x>t</p:b>t<!--t--></a><!--t-->                  *)
Module ComposeExamples.

Definition SELs := sel sample_doc false (hash_code sample_doc) (fun _ _ => None) (fun _ => 0) (fun _ s _ => s).
Definition EVALs := eval sample_doc false (hash_code sample_doc) (fun _ _ => None) (fun _ => 0) (fun _ s _ => s).

Definition n_b : node := mkNode [0; 1] None.       (* the element p:b *)
Definition n_a : node := mkNode [0] None.
Definition n_bx : node := mkNode [0; 1] (Some 0).  (* its attribute x *)
Definition n_apx : node := mkNode [0] (Some 1).    (* a/@p:x *)

Example ex_addr_query :
  addr_query n_b =
  QFilter false (QChild any_node_test
     (QFilter false (QChild any_node_test QAbsolute) (QNum (of_Z 1)))) (QNum (of_Z 2)).
Proof. reflexivity. Qed.

(* the hypotheses of the theorems hold for it *)
Example ex_hyps :
  valid sample_doc n_b = true /\ nattr n_b = None /\ indices_exact (npath n_b).
Proof.
  split; [reflexivity|]. split; [reflexivity|].
  apply indices_small_exact. intros i [<-|[<-|[]]]; reflexivity.
Qed.

Example ex_addr_run :
  SELs (addr_query n_b) (mkNode [0; 3] None) = Val [mkItem n_b 1 0] /\
  SELs (addr_query n_b) n_bx = Val [mkItem n_b 1 0].
Proof. split; vm_compute; reflexivity. Qed.

(* attributes: positional predicates are useless on the attribute axis (all
   counters are 1): attribute::node()[2] is empty and attribute::node()[1] is
   every attribute *)
Example attribute_index_fails :
  omap nodes_of (SELs (QFilter false (QAttribute any_node_test (addr_query n_a)) (QNum (of_Z 2))) root_node)
    = Val [] /\
  omap nodes_of (SELs (QFilter false (QAttribute any_node_test (addr_query n_a)) (QNum (of_Z 1))) root_node)
    = Val [mkNode [0] (Some 0); mkNode [0] (Some 1); mkNode [0] (Some 2)].
Proof. split; vm_compute; reflexivity. Qed.

(* ... so they are addressed by name *)
Example ex_attr_hyps :
  wf_attrs sample_doc = true /\ valid sample_doc n_apx = true /\
  node_type sample_doc (mkNode (npath n_apx) None) = NTElem /\
  local_name sample_doc n_apx = "x" /\ node_prefix sample_doc n_apx = "p".
Proof. vm_compute. repeat split. Qed.

Example ex_attr_run :
  SELs (addr_attr_query sample_doc n_apx) n_b = Val [mkItem n_apx 1 0] /\
  SELs (addr_attr_query sample_doc n_bx) root_node = Val [mkItem n_bx 1 0].
Proof. split; vm_compute; reflexivity. Qed.

(*  ancestor-or-self::*/child::node()  at p:b  vs. behind its address  *)
Definition rel_steps : list sstep :=
  [ mkStep AncestorOrSelf elem_test; mkStep Child any_test ].

Example ex_compose_run :
  SELs (chain (addr_query n_b) rel_steps) root_node = SELs (chain QContext rel_steps) n_b /\
  omap nodes_of (SELs (chain QContext rel_steps) n_b) =
  Val [mkNode [0;1;0] None; mkNode [0;0] None; mkNode [0;1] None; mkNode [0;2] None; mkNode [0;3] None].
Proof. split; vm_compute; reflexivity. Qed.

(* the theorem applied: a statement about the XPath denotation *)
Example ex_compose_den :
  exists l, SELs (chain (addr_query n_b) rel_steps) (mkNode [1] None) = Val l /\
            forall m, In m (nodes_of l) <-> path_den sample_doc false rel_steps n_b m.
Proof.
  destruct ex_hyps as (Hv & Ha & Hx).
  destruct (compose_with_context sample_doc false (hash_code sample_doc) (fun _ _ => None) (fun _ => 0)
              (fun _ s _ => s) n_b hash_ok_sample Hv Ha Hx rel_steps (mkNode [1] None) eq_refl)
    as (l1 & l2 & E1 & _ & _ & H1 & _).
  exists l1. split; [exact E1|exact H1].
Qed.

(* a continuation with positional and comparison predicates, a union and a
   function call:   count of  ( node()[position() = last()]  union  attribute::node() )
   filtered by  [. = "t" or true()]  *)
Definition cont_sel : query :=
  QFilter false
    (QUnion (QFilter false (QChild any_test QContext)
                (QLogical CEq (QPosition (QChild any_test QContext)) (QLast (QChild any_test QContext))))
            (QAttribute any_test QContext))
    (QBoolean true (QLogical CEq QContext (QStr "t")) (QFn0 FTrue)).
Definition cont_val : query := QFn1 FCount cont_sel.

Example ex_via_dot : via_dot cont_sel /\ via_dot cont_val.
Proof.
  assert (H : via_dot cont_sel) by (unfold cont_sel; repeat constructor).
  split; [exact H|]. constructor; [exact H|discriminate].
Qed.

Example ex_general_run :
  SELs (subst_base cont_sel (addr_query n_b)) root_node = SELs cont_sel n_b /\
  omap nodes_of (SELs cont_sel n_b) = Val [mkNode [0;1;0] None; n_bx] /\
  EVALs (subst_base cont_val (addr_query n_b)) (mkNode [0;3] None) = Val (VNum (of_Z 2)) /\
  EVALs cont_val n_b = Val (VNum (of_Z 2)).
Proof. repeat split; vm_compute; reflexivity. Qed.

(* why position()/last()/comparison-as-node-set leaves are excluded from
   [via_dot]: they look at the context node directly, and substituting under
   them would be wrong *)
Example ex_position_not_via_dot :
  EVALs (QPosition (QChild any_test QContext)) n_b = Val (VNum (of_Z 2)) /\
  EVALs (QPosition (QChild any_test QContext)) root_node = Val (VNum (of_Z 1)).
Proof. split; vm_compute; reflexivity. Qed.


(* ---- the compiler (Api.compile) on the corresponding expression texts ---- *)
Definition C (s : string) : cres query := compile (fun _ => true) s None.

(* the text of the address of p:b compiles to the merged addressing query *)
Example ex_compile_addr :
  C "/child::node()[1]/child::node()[2]" = Ok (addr_query_built n_b).
Proof. vm_compute. reflexivity. Qed.

Example ex_built_run :
  SELs (addr_query_built n_b) n_bx = Val [mkItem n_b 1 0].
Proof. vm_compute. reflexivity. Qed.

(* a relative expression without position()/last() (the builder copies the
   input path of a step into those, see section 6c): compiling
   address + "/" + relative IS the substitution of the compiled address for
   "." in the compiled relative expression; [compose_general_built] applies *)
Definition rel_text : string :=
  "ancestor-or-self::*/child::node()[count(ancestor::*) > 0][2]/following-sibling::node()[. = 't']".

Example ex_compile_compose :
  exists q, C rel_text = Ok q /\ via_dot q /\
    C ("/child::node()[1]/child::node()[2]/" ++ rel_text) = Ok (subst_base q (addr_query_built n_b)).
Proof.
  eexists. split; [vm_compute; reflexivity|]. split; [repeat constructor|].
  vm_compute. reflexivity.
Qed.

Example ex_compile_compose_run :
  match C rel_text, C ("/child::node()[1]/child::node()[2]/" ++ rel_text) with
  | Ok r, Ok a => SELs a root_node = SELs r n_b /\
                  omap nodes_of (SELs r n_b) = Val [mkNode [0;1] None; mkNode [0;2] None; mkNode [0;3] None]
  | _, _ => False
  end.
Proof. vm_compute. split; reflexivity. Qed.

(* with position()/last(): a substitution instance up to [peq] *)
Definition rel_text2 : string :=
  "ancestor-or-self::*/child::node()[position() = last()][count(ancestor::*) > 0]".

Example ex_compile_compose_peq :
  exists r a, C rel_text2 = Ok r /\ C ("/child::node()[1]/child::node()[2]/" ++ rel_text2) = Ok a /\
    via_dot r /\ peq (subst_base r (addr_query_built n_b)) a /\
    a <> subst_base r (addr_query_built n_b).
Proof.
  eexists. eexists. split; [vm_compute; reflexivity|]. split; [vm_compute; reflexivity|].
  split; [repeat constructor|]. split; [|discriminate].
  cbn [subst_base]. peq_tac.
Qed.

Example ex_compile_compose_peq_run :
  match C rel_text2, C ("/child::node()[1]/child::node()[2]/" ++ rel_text2) with
  | Ok r, Ok a => SELs a (mkNode [1] None) = SELs r n_b /\
                  omap nodes_of (SELs r n_b) = Val [mkNode [0;1;0] None; mkNode [0;3] None]
  | _, _ => False
  end.
Proof. vm_compute. split; reflexivity. Qed.

(* NOT covered by [peq]: when the FIRST step of the relative text is a child
   step with a positional predicate, the builder compiles it, behind an
   address, into the merged form  QMerge address (QFilter (QChild t .) p)
   instead of  QFilter (QChild t address) p : same nodes, but the merged
   form hands them out with position counter 1; see [compose_merged_first_step] *)
Example ex_first_step_positional :
  exists r a base, C "child::node()[last()]" = Ok r /\ C "/child::node()[1]" = Ok base /\
    C "/child::node()[1]/child::node()[last()]" = Ok a /\
    (exists t p p', r = QFilter false (QChild t QContext) p /\
                    a = QMerge base (QFilter false (QChild t QContext) p')) /\
    omap nodes_of (SELs a root_node) = omap nodes_of (SELs r n_a).
Proof.
  do 3 eexists. split; [vm_compute; reflexivity|]. split; [vm_compute; reflexivity|].
  split; [vm_compute; reflexivity|]. split; [do 3 eexists; split; reflexivity|].
  vm_compute. reflexivity.
Qed.

End ComposeExamples.
