(* Generated/CallGraph_ok.v -- the obligation that is re-checked on every run
   against what the Go sources say NOW (Generated/CallGraph.v is rewritten by
   go/cmd/gencallgraph): the compile-time call graph without its guarded functions
   and without its structural edges has no cycle.  If a depth guard is removed from
   the parser or the builder (or a new unguarded recursion is added) this file stops
   compiling.  This file is static; only CallGraph.v is generated. *)
From Coq Require Import List String.
From XP Require Import CallGraph.
From XP.Generated Require Import CallGraph.

Theorem callgraph_ok : unguarded_acyclic cg_nodes cg_edges cg_guards = true.
Proof. vm_compute. reflexivity. Qed.
Print Assumptions callgraph_ok.
