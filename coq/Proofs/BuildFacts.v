(* BuildFacts.v -- facts about the AST-to-query builder (Build.v) and Compile (Api.v):
   rejected inputs (unknown functions / axes, arity, variables, depth), the results
   of compile. *)
From XP Require Import Base F64 Doc Ast Scan Parse Build Api.
Open Scope string_scope.
Open Scope list_scope.

Section AnodeInd.
Variable P : anode -> Prop.
Hypothesis HRoot : forall s, P (ARoot s).
Hypothesis HAxisN : forall axis nty pre loc prop hasns ns, P (AAxis axis nty pre loc prop hasns ns None).
Hypothesis HAxisS : forall axis nty pre loc prop hasns ns i, P i ->
   P (AAxis axis nty pre loc prop hasns ns (Some i)).
Hypothesis HFilter : forall i c, P i -> P c -> P (AFilter i c).
Hypothesis HFunc : forall pre name args, Forall P args -> P (AFunc pre name args).
Hypothesis HOp : forall op l r, P l -> P r -> P (AOp op l r).
Hypothesis HNum : forall v, P (ANum v).
Hypothesis HStr : forall s, P (AStr s).
Hypothesis HVar : forall p n, P (AVar p n).
Hypothesis HGroup : forall i, P i -> P (AGroup i).

Fixpoint anode_ind' (a : anode) : P a :=
  match a with
  | ARoot s => HRoot s
  | AAxis axis nty pre loc prop hasns ns None => HAxisN axis nty pre loc prop hasns ns
  | AAxis axis nty pre loc prop hasns ns (Some i) => HAxisS axis nty pre loc prop hasns ns i (anode_ind' i)
  | AFilter i c => HFilter i c (anode_ind' i) (anode_ind' c)
  | AFunc pre name args =>
      HFunc pre name args
        ((fix go (l : list anode) : Forall P l :=
            match l with
            | [] => Forall_nil P
            | x :: r => Forall_cons x (anode_ind' x) (go r)
            end) args)
  | AOp op l r => HOp op l r (anode_ind' l) (anode_ind' r)
  | ANum v => HNum v
  | AStr s => HStr s
  | AVar p n => HVar p n
  | AGroup i => HGroup i (anode_ind' i)
  end.
End AnodeInd.

(* the grandchild of an axis node (the builder's //x rewrite skips one level) *)
Definition axis_grandchild (P : anode -> Prop) (i : anode) : Prop :=
  match i with
  | AAxis _ _ _ _ _ _ _ (Some g) => P g
  | _ => True
  end.

Section AnodeInd2.
Variable P : anode -> Prop.
Hypothesis HRoot : forall s, P (ARoot s).
Hypothesis HAxisN : forall axis nty pre loc prop hasns ns, P (AAxis axis nty pre loc prop hasns ns None).
Hypothesis HAxisS : forall axis nty pre loc prop hasns ns i, P i -> axis_grandchild P i ->
   P (AAxis axis nty pre loc prop hasns ns (Some i)).
Hypothesis HFilter : forall i c, P i -> P c -> P (AFilter i c).
Hypothesis HFunc : forall pre name args, Forall P args -> P (AFunc pre name args).
Hypothesis HOp : forall op l r, P l -> P r -> P (AOp op l r).
Hypothesis HNum : forall v, P (ANum v).
Hypothesis HStr : forall s, P (AStr s).
Hypothesis HVar : forall p n, P (AVar p n).
Hypothesis HGroup : forall i, P i -> P (AGroup i).

Lemma anode_ind2 : forall a, P a.
Proof.
  assert (H : forall a, P a /\ axis_grandchild P a).
  { induction a as [s|axis nty pre loc prop hasns ns|axis nty pre loc prop hasns ns i [IH1 IH2]
                    |i c [IHi _] [IHc _]|pre name args IH|op l r [IHl _] [IHr _]|v|s|p n|i [IH _]]
      using anode_ind'; cbn [axis_grandchild]; auto.
    split; [|exact I]. apply HFunc. eapply Forall_impl; [|exact IH]. cbn; intros a [H _]; exact H. }
  intro a; apply H.
Qed.
End AnodeInd2.


(* ------------------------------------------------------------------ *)
Definition is_err {A} (x : cres A) : Prop := exists m, x = Err m.

Lemma is_err_Err {A} (m : string) : is_err (@Err A m).
Proof. exists m; reflexivity. Qed.

Lemma cbind_noof {A B} (x : cres A) (f : A -> cres B) :
  x <> OutOfFuel -> (forall a, f a <> OutOfFuel) -> cbind x f <> OutOfFuel.
Proof. intros Hx Hf. destruct x as [a|m|]; cbn; [apply Hf|discriminate|congruence]. Qed.

Lemma cbind_is_err {A B} (x : cres A) (f : A -> cres B) :
  x <> OutOfFuel -> (forall a, is_err (f a)) -> is_err (cbind x f).
Proof. intros Hx Hf. destruct x as [a|m|]; cbn; [apply Hf|apply is_err_Err|congruence]. Qed.

Lemma cbind_is_err_l {A B} (x : cres A) (f : A -> cres B) :
  is_err x -> is_err (cbind x f).
Proof. intros [m ->]. apply is_err_Err. Qed.

Lemma cbind_Ok_inv {A B} (x : cres A) (f : A -> cres B) b :
  cbind x f = Ok b -> exists a, x = Ok a /\ f a = Ok b.
Proof. destruct x as [a|m|]; cbn; intro H; [eauto|discriminate|discriminate]. Qed.

(* ------------------------------------------------------------------ *)
(* 4b. definitions for the structural depth bound: the nesting depth of the part of
   the parse tree that the builder visits *)
Definition nvisit (name : string) (nargs : nat) : nat :=
  if existsb (String.eqb name)
       ["lower-case"; "string-length"; "normalize-space"; "not"; "name"; "local-name";
        "namespace-uri"; "boolean"; "number"; "string"; "count"; "sum"; "ceiling"; "floor";
        "round"; "reverse"] then 1
  else if existsb (String.eqb name)
       ["starts-with"; "ends-with"; "contains"; "matches"; "substring-before";
        "substring-after"; "string-join"] then 2
  else if String.eqb name "substring" then (if Nat.eqb nargs 3 then 3 else 2)
  else if existsb (String.eqb name) ["replace"; "translate"] then 3
  else if String.eqb name "concat" then nargs
  else 0.

Definition vdepth_args (vd : anode -> nat) : list anode -> nat -> nat :=
  fix go (l : list anode) (k : nat) {struct l} : nat :=
    match l, k with
    | a :: r, S k' => Nat.max (vd a) (go r k')
    | _, _ => 0
    end.

(* the //x rewrite of processAxis applies to this shape (when the Filter flag is off) *)
Definition dos_child_shape (axis iax : string) (itt : ntype) (iloc ipre : string) : bool :=
  andb (String.eqb axis "child")
       (andb (andb (String.eqb iax "descendant-or-self") (ntype_eqb itt NTAll))
             (andb (String.eqb iloc "") (String.eqb ipre ""))).

Fixpoint vdepth (a : anode) : nat :=
  match a with
  | ARoot _ | ANum _ | AStr _ | AVar _ _ => 1
  | AAxis _ _ _ _ _ _ _ None => 1
  | AAxis axis _ _ _ _ _ _ (Some inp) =>
    match inp with
    | AAxis iax itt ipre iloc _ _ _ ginput =>
      if dos_child_shape axis iax itt iloc ipre then
        match ginput with Some g => S (vdepth g) | None => 1 end
      else S (vdepth inp)
    | _ => S (vdepth inp)
    end
  | AFilter i c => S (Nat.max (vdepth i) (vdepth c))
  | AFunc _ name args => S (vdepth_args vdepth args (nvisit name (List.length args)))
  | AOp _ l r => S (Nat.max (vdepth l) (vdepth r))
  | AGroup i => S (vdepth i)
  end.


(* plain nesting depth of the parse tree *)
Fixpoint adepth (a : anode) : nat :=
  match a with
  | ARoot _ | ANum _ | AStr _ | AVar _ _ => 1
  | AAxis _ _ _ _ _ _ _ None => 1
  | AAxis _ _ _ _ _ _ _ (Some i) => S (adepth i)
  | AFilter i c => S (Nat.max (adepth i) (adepth c))
  | AFunc _ _ args => S (fold_right Nat.max 0 (map adepth args))
  | AOp _ l r => S (Nat.max (adepth l) (adepth r))
  | AGroup i => S (adepth i)
  end.

Section BF.
Variable re_ok : string -> bool.
Notation process := (Build.process re_ok).

(* the argument loop of concat() *)
Definition concat_go (d : nat) : list anode -> first -> props -> cres (list query * props * first) :=
  fix go (l : list anode) (fi : first) (pr : props) : cres (list query * props * first) :=
    match l with
    | [] => Ok ([], pr, fi)
    | a :: r =>
      let* (q, pr', fi') := process d a fl_none fi in
      let* (qs, pr'', fi'') := go r fi' pr' in
      Ok (q :: qs, pr'', fi'')
    end.

Ltac fold_concat :=
  match goal with
  | |- context [cbind (?f ?args ?fi pr_none) _] =>
    match f with
    | Build.process _ _ => fail 1
    | _ => match type of f with
           | list anode -> first -> props -> _ =>
             match goal with
             | |- context [Build.process _ (S ?d)] => change f with (concat_go (S d))
             end
           end
    end
  end.

(* ------------------------------------------------------------------ *)
(* process returns Ok or Err only *)
Definition noof (a : anode) : Prop := forall d fl fi, process d a fl fi <> OutOfFuel.

Lemma concat_go_noof d l : Forall noof l -> forall fi pr, concat_go d l fi pr <> OutOfFuel.
Proof.
  induction 1 as [|a r Ha Hr IH]; intros fi pr; cbn [concat_go].
  - discriminate.
  - fold (concat_go d). apply cbind_noof; [apply Ha|intros [[q pr'] fi']].
    apply cbind_noof; [apply IH|intros [[qs pr''] fi'']]. discriminate.
Qed.

Ltac noof_step :=
  match goal with
  | |- Ok _ <> OutOfFuel => discriminate
  | |- Err _ <> OutOfFuel => discriminate
  | |- cbind _ _ <> OutOfFuel =>
    apply cbind_noof;
    [|let x := fresh "x" in intro x; repeat match goal with y : (_ * _)%type |- _ => destruct y end]
  | H : noof ?a |- Build.process _ _ ?a _ _ <> OutOfFuel => apply H
  | H : forall d fl fi, Build.process _ d ?a fl fi <> OutOfFuel |- Build.process _ _ ?a _ _ <> OutOfFuel => apply H
  | |- (if ?c then _ else _) <> OutOfFuel => destruct c
  | |- match ?c with _ => _ end <> OutOfFuel => destruct c
  end.

Theorem process_no_outoffuel : forall a d fl fi, process d a fl fi <> OutOfFuel.
Proof.
  induction a as [s|axis nty pre loc prop hasns ns|axis nty pre loc prop hasns ns i IHi IHg
                  |i c IHi IHc|pre name args IH|op l r IHl IHr|v|s|p n|i IHi] using anode_ind2;
    intros d fl fi.
  - cbn [Build.process]. repeat noof_step.
  - cbn [Build.process]. unfold mk_axis. repeat noof_step.
  - cbn [Build.process].
    destruct (Nat.ltb max_build_depth (S d)); [discriminate|].
    assert (Hn : forall fl0 : flags,
      (let* (qi, pr, _) := process (S d) i fl0 fi_nil
       in let* (q, pr0) := mk_axis axis (axis_test nty pre loc hasns ns) fl qi pr
          in Ok (q, pr0, {| fi_q := Some q; fi_self := true |})) <> OutOfFuel).
    { intro fl0. unfold mk_axis. repeat noof_step. }
    destruct i; try apply Hn.
    match goal with |- (if ?c then _ else _) <> _ => destruct c end; [|apply Hn].
    destruct input as [g|]; cbn [axis_grandchild] in IHg; [|discriminate].
    cbn [cbind]. repeat noof_step.
  - cbn [Build.process]. repeat noof_step.
  - cbn [Build.process].
    destruct (Nat.ltb max_build_depth (S d)); [discriminate|].
    repeat match goal with
     |- (if String.eqb name ?s then _ else _) <> _ => destruct (String.eqb name s)
     | |- (if orb (String.eqb name ?s) _ then _ else _) <> _ => destruct (String.eqb name s); cbn [orb]
     end.
    all: try discriminate.
    all: try (destruct args as [|a0 [|a1 [|a2 r]]];
       repeat match goal with H : Forall _ (_ :: _) |- _ => apply Forall_cons_iff in H; destruct H as [? H] end;
       cbn [List.length Nat.eqb Nat.ltb Nat.leb negb]; repeat noof_step; fail).
    destruct (Nat.ltb (List.length args) 2); [discriminate|].
    fold_concat. apply cbind_noof; [apply concat_go_noof; exact IH|intros [[qs pr] fi']]. discriminate.
  - cbn [Build.process]. repeat noof_step.
  - cbn [Build.process]. repeat noof_step.
  - cbn [Build.process]. repeat noof_step.
  - cbn [Build.process]. repeat noof_step.
  - cbn [Build.process]. repeat noof_step.
Qed.
Print Assumptions process_no_outoffuel.


(* ------------------------------------------------------------------ *)
(* 4a. the depth guard (first line of processNode) *)
Lemma depth_ok d : d < max_build_depth -> Nat.ltb max_build_depth (S d) = false.
Proof. intro H. apply Nat.ltb_ge. lia. Qed.

Lemma depth_bad d : max_build_depth <= d -> Nat.ltb max_build_depth (S d) = true.
Proof. intro H. apply Nat.ltb_lt. lia. Qed.

Theorem process_depth_guard d root fl fi :
  max_build_depth <= d ->
  process d root fl fi = Err "the xpath expressions is too complex".
Proof.
  intro H. destruct root; cbn [Build.process]; rewrite (depth_bad d H); reflexivity.
Qed.
Print Assumptions process_depth_guard.

Example process_depth_guard_ex :
  process 1024 (ANum fminus_one) fl_none fi_nil = Err "the xpath expressions is too complex"
  /\ exists r, process 1023 (ANum fminus_one) fl_none fi_nil = Ok r.
Proof. split; [apply process_depth_guard; apply Nat.le_refl|eexists; vm_compute; reflexivity]. Qed.

(* ------------------------------------------------------------------ *)
(* 1. unknown functions *)
Definition fnames : list string :=
  [ "lower-case"; "starts-with"; "ends-with"; "contains"; "matches"; "substring";
    "substring-before"; "substring-after"; "string-length"; "normalize-space";
    "replace"; "translate"; "not"; "name"; "local-name"; "namespace-uri";
    "true"; "false"; "last"; "position"; "boolean"; "number"; "string";
    "count"; "sum"; "ceiling"; "floor"; "round"; "concat"; "reverse"; "string-join" ].

Definition known_function (name : string) : bool := existsb (String.eqb name) fnames.

Example fnames_31 : List.length fnames = 31 /\ NoDup fnames.
Proof.
  split; [reflexivity|].
  unfold fnames.
  repeat (constructor; [cbn [In]; intro H;
     repeat (destruct H as [H|H]; [discriminate H|]); exact H|]).
  constructor.
Qed.

Lemma existsb_eqb_In (x : string) (l : list string) :
  existsb (String.eqb x) l = true <-> In x l.
Proof.
  rewrite existsb_exists. split.
  - intros [y [Hy E]]. apply String.eqb_eq in E. subst y. exact Hy.
  - intro H. exists x. split; [exact H|apply String.eqb_refl].
Qed.

Lemma existsb_eqb_neq (x : string) (l : list string) :
  existsb (String.eqb x) l = false -> forall y, In y l -> String.eqb x y = false.
Proof.
  intros H y Hy. destruct (String.eqb x y) eqn:E; [|reflexivity].
  apply String.eqb_eq in E. subst y. apply existsb_eqb_In in Hy. congruence.
Qed.

Lemma existsb_eqb_neq_b (x : string) (l : list string) :
  existsb (String.eqb x) l = false ->
  forall y, existsb (String.eqb y) l = true -> String.eqb x y = false.
Proof. intros H y Hy. apply (existsb_eqb_neq x l H). apply existsb_eqb_In. exact Hy. Qed.

Lemma known_function_In name : known_function name = true <-> In name fnames.
Proof. apply existsb_eqb_In. Qed.

Lemma in_fnames_b x : known_function x = true -> In x fnames.
Proof. apply existsb_eqb_In. Qed.

Ltac kill_names name Hk :=
  repeat match goal with
  | |- context [String.eqb name ?s] =>
    rewrite (existsb_eqb_neq_b name _ Hk s eq_refl)
  end.

Theorem process_unknown_function d pre name args fl fi :
  known_function name = false -> d < max_build_depth ->
  process d (AFunc pre name args) fl fi = Err "not yet support this function".
Proof.
  intros Hk Hd. cbn [Build.process]. rewrite (depth_ok d Hd).
  unfold known_function in Hk. kill_names name Hk.
  cbn [orb]. reflexivity.
Qed.
Print Assumptions process_unknown_function.

Corollary process_unknown_function_err d pre name args fl fi :
  known_function name = false -> is_err (process d (AFunc pre name args) fl fi).
Proof.
  intro Hk. destruct (Nat.lt_ge_cases d max_build_depth) as [Hd|Hd].
  - rewrite process_unknown_function by assumption. apply is_err_Err.
  - rewrite process_depth_guard by assumption. apply is_err_Err.
Qed.

Example process_unknown_function_ex :
  known_function "zz" = false /\ known_function "Count" = false /\ known_function "" = false
  /\ known_function "string-join" = true.
Proof. vm_compute. auto. Qed.

(* ------------------------------------------------------------------ *)
(* 3. axes and variables *)
Definition axis_names : list string :=
  [ "ancestor"; "ancestor-or-self"; "attribute"; "child"; "descendant"; "descendant-or-self";
    "following"; "following-sibling"; "parent"; "preceding"; "preceding-sibling"; "self" ].

Definition supported_axis (axis : string) : bool := existsb (String.eqb axis) axis_names.

Theorem mk_axis_unsupported axis t fl qi pr :
  supported_axis axis = false ->
  mk_axis axis t fl qi pr =
  Err (if String.eqb axis "namespace" then "xpath: the namespace axis is not supported"
       else "unknown axe type").
Proof.
  intro Hk. unfold supported_axis in Hk. unfold mk_axis. kill_names axis Hk.
  destruct (String.eqb axis "namespace"); reflexivity.
Qed.
Print Assumptions mk_axis_unsupported.

Corollary mk_axis_unsupported_err axis t fl qi pr :
  supported_axis axis = false -> is_err (mk_axis axis t fl qi pr).
Proof. intro H. rewrite mk_axis_unsupported by exact H. apply is_err_Err. Qed.

Corollary mk_axis_namespace t fl qi pr :
  mk_axis "namespace" t fl qi pr = Err "xpath: the namespace axis is not supported".
Proof. reflexivity. Qed.

Definition axis_query (q : query) : bool :=
  match q with
  | QAncestor _ _ _ | QAttribute _ _ | QChild _ _ | QCachedChild _ _ | QDescendant _ _ _
  | QFollowing _ _ _ | QPreceding _ _ _ | QParent _ _ | QSelf _ _ | QDoD _ _ _ => true
  | _ => false
  end.

Theorem mk_axis_supported axis t fl qi pr :
  supported_axis axis = true ->
  exists q pr', mk_axis axis t fl qi pr = Ok (q, pr') /\ axis_query q = true.
Proof.
  intro Hk. apply existsb_eqb_In in Hk. unfold axis_names in Hk. cbn [In] in Hk.
  repeat (destruct Hk as [<-|Hk]; [unfold mk_axis; cbn [String.eqb Ascii.eqb Bool.eqb andb];
    repeat match goal with |- context [if ?c then _ else _] => destruct c end;
    eexists; eexists; split; reflexivity|]).
  contradiction.
Qed.

Theorem mk_axis_ok_iff axis t fl qi pr :
  (exists r, mk_axis axis t fl qi pr = Ok r) <-> supported_axis axis = true.
Proof.
  split.
  - intros [r Hr]. destruct (supported_axis axis) eqn:E; [reflexivity|].
    rewrite mk_axis_unsupported in Hr by exact E. discriminate.
  - intro H. destruct (mk_axis_supported axis t fl qi pr H) as [q [pr' [E _]]]. eauto.
Qed.

Theorem process_unsupported_axis d axis nty pre loc prop hasns ns input fl fi :
  supported_axis axis = false ->
  is_err (process d (AAxis axis nty pre loc prop hasns ns input) fl fi).
Proof.
  intro Hk. cbn [Build.process].
  destruct (Nat.ltb max_build_depth (S d)); [apply is_err_Err|].
  assert (Hc : String.eqb axis "child" = false).
  { apply (existsb_eqb_neq axis _ Hk). cbn; tauto. }
  destruct input as [inp|].
  - rewrite Hc, Bool.andb_false_r. cbn [andb].
    assert (Hn : forall fl0, is_err
      (let* (qi, pr, _) := process (S d) inp fl0 fi_nil
       in let* (q, pr0) := mk_axis axis (axis_test nty pre loc hasns ns) fl qi pr
          in Ok (q, pr0, {| fi_q := Some q; fi_self := true |}))).
    { intro fl0. apply cbind_is_err; [apply process_no_outoffuel|intros [[qi pr] fo]].
      apply cbind_is_err_l. apply mk_axis_unsupported_err; exact Hk. }
    destruct inp; apply Hn.
  - apply cbind_is_err_l. apply mk_axis_unsupported_err; exact Hk.
Qed.
Print Assumptions process_unsupported_axis.

(* with no input and the depth check passed, the message is the one of the axis switch *)
Theorem process_unsupported_axis_noinput d axis nty pre loc prop hasns ns fl fi :
  supported_axis axis = false -> d < max_build_depth ->
  process d (AAxis axis nty pre loc prop hasns ns None) fl fi =
  Err (if String.eqb axis "namespace" then "xpath: the namespace axis is not supported"
       else "unknown axe type").
Proof.
  intros Hk Hd. cbn [Build.process]. rewrite (depth_ok d Hd).
  rewrite mk_axis_unsupported by exact Hk. reflexivity.
Qed.

Example supported_axis_ex :
  supported_axis "namespace" = false /\ supported_axis "foo" = false /\ supported_axis "self" = true.
Proof. vm_compute. auto. Qed.

Theorem process_variable d p n fl fi :
  d < max_build_depth ->
  process d (AVar p n) fl fi = Err "xpath: variable is not supported".
Proof. intro Hd. cbn [Build.process]. rewrite (depth_ok d Hd). reflexivity. Qed.

Corollary process_variable_err d p n fl fi : is_err (process d (AVar p n) fl fi).
Proof.
  cbn [Build.process]. destruct (Nat.ltb max_build_depth (S d)); apply is_err_Err.
Qed.


(* ------------------------------------------------------------------ *)
(* 2. arity *)
Definition min_args (name : string) : option nat :=
  if existsb (String.eqb name)
       ["lower-case"; "string-length"; "not"; "count"; "sum"; "ceiling"; "floor"; "round"; "reverse"]
  then Some 1
  else if existsb (String.eqb name)
       ["starts-with"; "ends-with"; "contains"; "matches"; "substring"; "substring-before";
        "substring-after"; "concat"; "string-join"]
  then Some 2
  else if existsb (String.eqb name) ["replace"; "translate"] then Some 3
  else None.

Definition max_args (name : string) : option nat :=
  if existsb (String.eqb name)
       ["name"; "local-name"; "namespace-uri"; "boolean"; "number"; "string"]
  then Some 1
  else if existsb (String.eqb name)
       ["matches"; "substring-before"; "substring-after"; "string-join"]
  then Some 2
  else if existsb (String.eqb name) ["replace"; "translate"] then Some 3
  else None.

Definition bad_arity (name : string) (n : nat) : bool :=
  orb (match min_args name with Some m => Nat.ltb n m | None => false end)
      (match max_args name with Some m => Nat.ltb m n | None => false end).

Ltac name_cases H :=
  apply known_function_In in H; unfold fnames in H; cbn [In] in H;
  repeat (destruct H as [H|H]; [symmetry in H|]); [..|contradiction].

Ltac is_err_step :=
  match goal with
  | |- is_err (Err _) => apply is_err_Err
  | |- is_err (cbind (Build.process _ _ _ _ _) _) =>
    apply cbind_is_err; [apply process_no_outoffuel|
      let x := fresh "x" in intro x; repeat match goal with y : (_ * _)%type |- _ => destruct y end]
  end.

Theorem process_bad_arity d pre name args fl fi :
  bad_arity name (List.length args) = true ->
  is_err (process d (AFunc pre name args) fl fi).
Proof.
  intro Hb. destruct (known_function name) eqn:Hk;
    [|apply process_unknown_function_err; exact Hk].
  cbn [Build.process]. destruct (Nat.ltb max_build_depth (S d)); [apply is_err_Err|].
  name_cases Hk; subst name.
  all: unfold bad_arity in Hb;
       match type of Hb with context [min_args ?s] =>
         let v := eval vm_compute in (min_args s) in change (min_args s) with v in Hb end;
       match type of Hb with context [max_args ?s] =>
         let v := eval vm_compute in (max_args s) in change (max_args s) with v in Hb end;
       cbv beta iota in Hb.
  all: cbn [String.eqb Ascii.eqb Bool.eqb andb orb negb].
  all: destruct args as [|a0 [|a1 [|a2 [|a3 r]]]];
       cbn [List.length Nat.ltb Nat.leb orb] in Hb; try discriminate Hb; clear Hb.
  all: cbn [List.length Nat.eqb Nat.ltb Nat.leb negb].
  all: repeat is_err_step.
Qed.
Print Assumptions process_bad_arity.

Example bad_arity_ex :
  bad_arity "count" 0 = true /\ bad_arity "count" 1 = false /\ bad_arity "count" 7 = false /\
  bad_arity "contains" 1 = true /\ bad_arity "contains" 3 = false /\
  bad_arity "substring" 1 = true /\ bad_arity "substring" 4 = false /\
  bad_arity "matches" 3 = true /\ bad_arity "translate" 2 = true /\ bad_arity "replace" 4 = true /\
  bad_arity "concat" 1 = true /\ bad_arity "name" 2 = true /\ bad_arity "name" 0 = false /\
  bad_arity "string" 2 = true /\ bad_arity "lower-case" 0 = true /\
  bad_arity "position" 3 = false /\ bad_arity "true" 1 = false /\ bad_arity "normalize-space" 5 = false.
Proof. vm_compute. repeat split. Qed.


(* 2b. the arity table is exact *)
Definition args_build (d : nat) (args : list anode) : Prop :=
  forall a fi, In a args -> exists r, process d a fl_none fi = Ok r.

Lemma concat_go_ok d l :
  args_build d l -> forall fi pr, exists r, concat_go d l fi pr = Ok r.
Proof.
  induction l as [|a r IH]; intros Ha fi pr; cbn [concat_go].
  - eexists; reflexivity.
  - fold (concat_go d).
    destruct (Ha a fi (or_introl eq_refl)) as [[[q p] f] E]. rewrite E. cbn [cbind].
    destruct (IH (fun a0 fi0 H => Ha a0 fi0 (or_intror H)) f p) as [[[qs p'] f'] E'].
    rewrite E'. cbn [cbind]. eexists; reflexivity.
Qed.

(* the arity table is exact: with a known name, an accepted argument count and arguments
   that build, the call builds (matches() can still reject its pattern) *)
Theorem process_good_arity d pre name args fl fi :
  known_function name = true -> bad_arity name (List.length args) = false ->
  name <> "matches" -> d < max_build_depth -> args_build (S d) args ->
  exists r, process d (AFunc pre name args) fl fi = Ok r.
Proof.
  intros Hk Hb Hm Hd Ha.
  cbn [Build.process]; rewrite (depth_ok d Hd).
  apply known_function_In in Hk; unfold fnames in Hk; cbn [In] in Hk;
  repeat (destruct Hk as [Hk|Hk]; [symmetry in Hk|]); [..|contradiction]; subst name;
  try (exfalso; apply Hm; reflexivity); clear Hm.
  all: cbn [String.eqb Ascii.eqb Bool.eqb andb orb negb].
  all: try (match goal with |- context [cbind (?f _ _ pr_none) _] =>
               change f with (concat_go (S d)) end;
            unfold bad_arity in Hb; change (min_args "concat") with (Some 2) in Hb;
            change (max_args "concat") with (@None nat) in Hb;
            rewrite Bool.orb_false_r in Hb; rewrite Hb;
            destruct (concat_go_ok _ _ Ha fi pr_none) as [[[qs p] f] E]; rewrite E; cbn [cbind];
            eexists; reflexivity).
  all: destruct args as [|a0 [|a1 [|a2 [|a3 r]]]]; try discriminate Hb; clear Hb;
       cbn [List.length Nat.eqb Nat.ltb Nat.leb negb].
  all: repeat match goal with
       | |- context [Build.process _ _ ?a fl_none ?fi0] =>
         let E := fresh "E" in
         destruct (Ha a fi0 ltac:(cbn [In]; tauto)) as [[[? ?] ?] E]; rewrite E; cbn [cbind]
       end.
  all: eexists; reflexivity.
Qed.
Print Assumptions process_good_arity.

Example process_good_arity_ex :
  args_build 1 [AStr "a"; AStr "b"] /\
  exists r, process 0 (AFunc "" "contains" [AStr "a"; AStr "b"]) fl_none fi_nil = Ok r.
Proof.
  split.
  - intros a fi [<-|[<-|[]]]; eexists; reflexivity.
  - eexists. vm_compute. reflexivity.
Qed.

(* the four functions that index args[0] / args[1] without a length check: with too few
   arguments the Go code panics with "index out of range", which build() recovers *)
Theorem process_index_panic d pre name fl fi :
  In name ["lower-case"; "starts-with"; "ends-with"; "contains"] -> d < max_build_depth ->
  process d (AFunc pre name []) fl fi = Err index_panic.
Proof.
  intros Hin Hd. cbn [Build.process]. rewrite (depth_ok d Hd). cbn [In] in Hin.
  repeat (destruct Hin as [<-|Hin]; [reflexivity|]). contradiction.
Qed.

Theorem process_index_panic_one d pre name a0 fl fi r :
  In name ["starts-with"; "ends-with"; "contains"] -> d < max_build_depth ->
  process (S d) a0 fl_none fi = Ok r ->
  process d (AFunc pre name [a0]) fl fi = Err index_panic.
Proof.
  intros Hin Hd Ha. cbn [Build.process]. rewrite (depth_ok d Hd). cbn [In] in Hin.
  repeat (destruct Hin as [<-|Hin];
    [cbn [String.eqb Ascii.eqb Bool.eqb andb]; rewrite Ha; reflexivity|]).
  contradiction.
Qed.

(* ------------------------------------------------------------------ *)
(* 4b. structural depth bound *)
Definition dbound (a : anode) : Prop :=
  forall d fl fi r, process d a fl fi = Ok r -> d + vdepth a <= max_build_depth.

Ltac inv_bind H :=
  let x := fresh "x" in let Hx := fresh "Hx" in
  apply cbind_Ok_inv in H; destruct H as [x [Hx H]];
  repeat match goal with y : (_ * _)%type |- _ => destruct y end;
  cbv beta iota in H.

Ltac inv_binds :=
  repeat match goal with
  | H : cbind _ _ = Ok _ |- _ => inv_bind H
  end.

Ltac use_dbound :=
  repeat match goal with
  | IH : dbound ?a, H : Build.process _ ?d ?a _ _ = Ok _ |- _ =>
    apply IH in H
  end.

Lemma ltb_false_le d : Nat.ltb max_build_depth (S d) = false -> S d <= max_build_depth.
Proof. intro H. apply Nat.ltb_ge in H. exact H. Qed.


Lemma concat_go_dbound d l :
  Forall dbound l -> forall fi pr r, concat_go d l fi pr = Ok r ->
  forall k, d <= max_build_depth -> d + vdepth_args vdepth l k <= max_build_depth.
Proof.
  induction 1 as [|a l0 Ha Hl IH]; intros fi pr r H k Hd.
  - cbn. lia.
  - cbn [concat_go] in H. fold (concat_go d) in H. inv_binds.
    destruct k as [|k]; cbn [vdepth_args]; [lia|]. fold (vdepth_args vdepth).
    apply Ha in Hx. specialize (IH _ _ _ Hx0 k Hd). lia.
Qed.

Lemma vdepth_axis_both i :
  (forall axis nty pre loc prop hasns ns,
     vdepth (AAxis axis nty pre loc prop hasns ns (Some i)) <= S (vdepth i)) /\
  (forall axis nty pre loc prop hasns ns,
     vdepth i <= vdepth (AAxis axis nty pre loc prop hasns ns (Some i))).
Proof.
  induction i as [s|iax ity ipre iloc iprop ihasns ins|iax ity ipre iloc iprop ihasns ins g [IHA IHB]
                  |i c _ _|ipre iname args _|op l r _ _|v|s|p n|i _] using anode_ind';
    split; intros axis nty pre loc prop hasns ns; cbn [vdepth]; try lia.
  - destruct (dos_child_shape _ _ _ _ _); lia.
  - destruct (dos_child_shape _ _ _ _ _); lia.
  - destruct (dos_child_shape axis _ _ _ _).
    + specialize (IHB iax ity ipre iloc iprop ihasns ins). cbn [vdepth] in IHB. lia.
    + lia.
  - destruct (dos_child_shape axis _ _ _ _).
    + specialize (IHA iax ity ipre iloc iprop ihasns ins). cbn [vdepth] in IHA. lia.
    + lia.
Qed.

Lemma vdepth_axis_le axis nty pre loc prop hasns ns i :
  vdepth (AAxis axis nty pre loc prop hasns ns (Some i)) <= S (vdepth i).
Proof. apply vdepth_axis_both. Qed.

Ltac forall_inv :=
  repeat match goal with
  | H : Forall _ (_ :: _) |- _ =>
    let H1 := fresh "IHa" in apply Forall_cons_iff in H; destruct H as [H1 H]
  end.

Theorem process_depth_bound : forall a, dbound a.
Proof.
  induction a as [s|axis nty pre loc prop hasns ns|axis nty pre loc prop hasns ns i IHi IHg
                  |i c IHi IHc|pre name args IH|op l r IHl IHr|v|s|p n|i IHi] using anode_ind2;
    intros d fl fi res H; cbn [Build.process] in H;
    (destruct (Nat.ltb max_build_depth (S d)) eqn:Hd; [discriminate H|apply ltb_false_le in Hd]).
  - cbn [vdepth]. lia.
  - cbn [vdepth]. lia.
  - assert (Hn : forall fl0 : flags,
      (let* (qi, pr, _) := process (S d) i fl0 fi_nil
       in let* (q, pr0) := mk_axis axis (axis_test nty pre loc hasns ns) fl qi pr
          in Ok (q, pr0, {| fi_q := Some q; fi_self := true |})) = Ok res ->
      d + vdepth (AAxis axis nty pre loc prop hasns ns (Some i)) <= max_build_depth).
    { intros fl0 H0. inv_binds. use_dbound.
      pose proof (vdepth_axis_le axis nty pre loc prop hasns ns i). lia. }
    destruct i as [| iax itt ipre iloc iprop ihasns ins ginput | | | | | | |]; try (eapply Hn; exact H).
    match type of H with (if ?c then _ else _) = _ => destruct c eqn:E end; [|eapply Hn; exact H].
    apply andb_true_iff in E. destruct E as [E1 E2].
    apply andb_true_iff in E1. destruct E1 as [_ E1].
    cbn [vdepth]. unfold dos_child_shape. rewrite E1, E2. cbn [andb].
    destruct ginput as [g|]; [|lia].
    cbn [axis_grandchild] in IHg. inv_binds. use_dbound. lia.
  - inv_binds. use_dbound. cbn [vdepth]. lia.
  - destruct (known_function name) eqn:Hk.
    2:{ exfalso. revert H. unfold known_function in Hk.
        repeat match goal with
        | |- context [String.eqb name ?s] =>
          rewrite (existsb_eqb_neq_b name _ Hk s eq_refl)
        end. cbn [orb]. discriminate. }
    apply known_function_In in Hk; unfold fnames in Hk; cbn [In] in Hk;
    repeat (destruct Hk as [Hk|Hk]; [symmetry in Hk|]); [..|contradiction]; subst name;
    cbn [String.eqb Ascii.eqb Bool.eqb andb orb negb] in H.
    all: try (match type of H with context [cbind (?f _ _ pr_none) _] =>
               change f with (concat_go (S d)) in H end;
              destruct (Nat.ltb (List.length args) 2); [discriminate H|]; inv_binds;
              apply (concat_go_dbound _ _ IH) with (k := List.length args) in Hx; [|exact Hd];
              cbn [vdepth nvisit existsb String.eqb Ascii.eqb Bool.eqb andb orb negb]; lia).
    all: destruct args as [|a0 [|a1 [|a2 [|a3 r]]]];
         cbn [List.length Nat.eqb Nat.ltb Nat.leb negb] in H; try discriminate H;
         forall_inv; inv_binds; use_dbound;
         cbn [vdepth nvisit existsb String.eqb Ascii.eqb Bool.eqb andb orb negb vdepth_args
              List.length Nat.eqb]; lia.
  - inv_binds. use_dbound. cbn [vdepth]. lia.
  - cbn [vdepth]. lia.
  - cbn [vdepth]. lia.
  - cbn [vdepth]. lia.
  - inv_binds. use_dbound. cbn [vdepth]. lia.
Qed.
Print Assumptions process_depth_bound.

Corollary process_too_deep d root fl fi :
  max_build_depth < d + vdepth root -> is_err (process d root fl fi).
Proof.
  intro H. destruct (process d root fl fi) as [r| m|] eqn:E.
  - apply process_depth_bound in E. lia.
  - apply is_err_Err.
  - exfalso. exact (process_no_outoffuel _ _ _ _ E).
Qed.

Lemma vdepth_args_le_adepth args k :
  Forall (fun a => vdepth a <= adepth a) args ->
  vdepth_args vdepth args k <= fold_right Nat.max 0 (map adepth args).
Proof.
  intro H. revert k. induction H as [|a r Ha Hr IH]; intro k; cbn; [lia|].
  destruct k as [|k]; [lia|]. specialize (IH k). fold (vdepth_args vdepth). lia.
Qed.

Theorem vdepth_le_adepth : forall a, vdepth a <= adepth a.
Proof.
  induction a as [s|axis nty pre loc prop hasns ns|axis nty pre loc prop hasns ns i IHi
                  |i c IHi IHc|pre name args IH|op l r IHl IHr|v|s|p n|i IHi] using anode_ind';
    try (cbn [vdepth adepth]; lia).
  - pose proof (vdepth_axis_le axis nty pre loc prop hasns ns i). cbn [adepth]. lia.
  - cbn [vdepth adepth]. pose proof (vdepth_args_le_adepth args (nvisit name (List.length args)) IH). lia.
Qed.

(* tightness: 1023 nested groups around a number build, 1024 do not *)
Fixpoint nest_groups (n : nat) (a : anode) : anode :=
  match n with 0 => a | S k => AGroup (nest_groups k a) end.

Example depth_bound_tight :
  (exists r, process 0 (nest_groups 1023 (ANum fminus_one)) fl_none fi_nil = Ok r) /\
  vdepth (nest_groups 1023 (ANum fminus_one)) = 1024 /\
  process 0 (nest_groups 1024 (ANum fminus_one)) fl_none fi_nil
    = Err "the xpath expressions is too complex".
Proof. split; [eexists; vm_compute; reflexivity|split; vm_compute; reflexivity]. Qed.

(* the //x rewrite skips one level: vdepth is 2 but adepth is 3 *)
Example depth_dos_shape :
  let a := AAxis "child" NTElem "" "x" "" false "" (Some (dos_node (Some (ARoot "//")))) in
  vdepth a = 2 /\ adepth a = 3 /\ exists r, process 1022 a fl_none fi_nil = Ok r.
Proof. cbn zeta. split; [reflexivity|split; [reflexivity|eexists; vm_compute; reflexivity]]. Qed.

(* trees in which the builder visits every child: vdepth is the plain nesting depth *)
Fixpoint fully_visited (a : anode) : bool :=
  match a with
  | AAxis axis _ _ _ _ _ _ (Some inp) =>
    andb (negb (match inp with
                | AAxis iax itt ipre iloc _ _ _ _ => dos_child_shape axis iax itt iloc ipre
                | _ => false
                end))
         (fully_visited inp)
  | AFilter i c => andb (fully_visited i) (fully_visited c)
  | AFunc _ name args =>
    andb (Nat.leb (List.length args) (nvisit name (List.length args)))
         (forallb fully_visited args)
  | AOp _ l r => andb (fully_visited l) (fully_visited r)
  | AGroup i => fully_visited i
  | _ => true
  end.

Lemma vdepth_args_all args k :
  List.length args <= k ->
  vdepth_args vdepth args k = fold_right Nat.max 0 (map vdepth args).
Proof.
  revert k. induction args as [|a r IH]; intros k Hk; [reflexivity|].
  destruct k as [|k]; [cbn in Hk; lia|]. cbn [vdepth_args map fold_right List.length] in *.
  fold (vdepth_args vdepth). rewrite IH by lia. reflexivity.
Qed.

Theorem vdepth_fully_visited : forall a, fully_visited a = true -> vdepth a = adepth a.
Proof.
  induction a as [s|axis nty pre loc prop hasns ns|axis nty pre loc prop hasns ns i IHi
                  |i c IHi IHc|pre name args IH|op l r IHl IHr|v|s|p n|i IHi] using anode_ind';
    intro H; cbn [fully_visited] in H; try reflexivity.
  - apply andb_true_iff in H. destruct H as [H1 H2]. cbn [adepth]. rewrite <- (IHi H2).
    destruct i; try reflexivity. cbn [vdepth]. apply negb_true_iff in H1. rewrite H1. reflexivity.
  - apply andb_true_iff in H. destruct H as [H1 H2]. cbn [vdepth adepth]. rewrite IHi, IHc by assumption. reflexivity.
  - apply andb_true_iff in H. destruct H as [H1 H2]. apply Nat.leb_le in H1.
    cbn [vdepth adepth]. rewrite vdepth_args_all by exact H1. f_equal. f_equal.
    clear H1. induction IH as [|a r Ha Hr IHr]; [reflexivity|].
    cbn [forallb] in H2. apply andb_true_iff in H2. destruct H2 as [H2 H3].
    cbn [map]. rewrite (Ha H2), (IHr H3). reflexivity.
  - apply andb_true_iff in H. destruct H as [H1 H2]. cbn [vdepth adepth]. rewrite IHl, IHr by assumption. reflexivity.
  - cbn [vdepth adepth]. rewrite IHi by assumption. reflexivity.
Qed.


Corollary process_depth_bound_plain d root fl fi r :
  fully_visited root = true -> process d root fl fi = Ok r ->
  d + adepth root <= max_build_depth.
Proof.
  intros Hv H. rewrite <- (vdepth_fully_visited root Hv). eapply process_depth_bound; exact H.
Qed.

(* ------------------------------------------------------------------ *)
(* 5a. operators *)
Definition op_names : list string :=
  ["or"; "and"; "="; "!="; "<"; ">"; "<="; ">="; "+"; "-"; "*"; "div"; "mod"; "|"].
Definition known_op (op : string) : bool := existsb (String.eqb op) op_names.

Theorem process_known_op_not_nil d op l r fl fi q pr fo :
  known_op op = true ->
  process d (AOp op l r) fl fi = Ok (q, pr, fo) -> q <> QNil.
Proof.
  intros Hk H. cbn [Build.process] in H.
  destruct (Nat.ltb max_build_depth (S d)); [discriminate H|]. inv_binds.
  apply existsb_eqb_In in Hk. unfold op_names in Hk. cbn [In] in Hk.
  repeat (destruct Hk as [Hk|Hk]; [symmetry in Hk; subst op; vm_compute in H;
     injection H as <- _ _; discriminate|]).
  contradiction.
Qed.
Print Assumptions process_known_op_not_nil.

Theorem process_unknown_op_nil d op l r fl fi q pr fo :
  known_op op = false ->
  process d (AOp op l r) fl fi = Ok (q, pr, fo) -> q = QNil.
Proof.
  intros Hk H. cbn [Build.process] in H.
  destruct (Nat.ltb max_build_depth (S d)); [discriminate H|]. inv_binds.
  revert H. unfold arith_of, cmp_of. unfold known_op in Hk. kill_names op Hk.
  intro H. injection H as <- _ _. reflexivity.
Qed.

End BF.

(* ------------------------------------------------------------------ *)
(* 6, 7. Compile / MustCompile *)
Section Compile.
Variable re_ok : string -> bool.

Theorem compile_fuel_not_nil fuel text ns q :
  compile_fuel re_ok fuel text ns = Ok q -> q <> QNil.
Proof.
  unfold compile_fuel. destruct (String.eqb text ""); [discriminate|].
  destruct (build_fuel re_ok fuel text ns) as [q0|m|]; cbn [cbind]; [|discriminate|discriminate].
  destruct q0; intro H; try discriminate H; injection H as <-; discriminate.
Qed.
Print Assumptions compile_fuel_not_nil.

Corollary compile_not_nil text ns q : compile re_ok text ns = Ok q -> q <> QNil.
Proof. apply compile_fuel_not_nil. Qed.

Theorem compile_trichotomy text ns :
  (exists q, compile re_ok text ns = Ok q /\ q <> QNil) \/
  (exists m, compile re_ok text ns = Err m) \/
  compile re_ok text ns = OutOfFuel.
Proof.
  destruct (compile re_ok text ns) as [q|m|] eqn:E.
  - left. exists q. split; [reflexivity|]. eapply compile_not_nil; exact E.
  - right; left. exists m. reflexivity.
  - right; right. reflexivity.
Qed.
Print Assumptions compile_trichotomy.

Theorem must_compile_not_nil text : must_compile re_ok text <> QNil.
Proof.
  unfold must_compile. destruct (compile re_ok text None) as [q|m|] eqn:E;
    [eapply compile_not_nil; exact E|discriminate|discriminate].
Qed.
Print Assumptions must_compile_not_nil.

Theorem must_compile_spec text :
  (exists q, compile re_ok text None = Ok q /\ must_compile re_ok text = q /\ q <> QNil) \/
  ((forall q, compile re_ok text None <> Ok q) /\ must_compile re_ok text = QNop).
Proof.
  unfold must_compile. destruct (compile re_ok text None) as [q|m|] eqn:E.
  - left. exists q. repeat split. eapply compile_not_nil; exact E.
  - right. split; [intros q; discriminate|reflexivity].
  - right. split; [intros q; discriminate|reflexivity].
Qed.

Theorem compile_fuel_empty fuel ns :
  compile_fuel re_ok fuel "" ns = Err "expr expression is nil".
Proof. reflexivity. Qed.

Theorem compile_empty ns : compile re_ok "" ns = Err "expr expression is nil".
Proof. reflexivity. Qed.

Corollary must_compile_empty : must_compile re_ok "" = QNop.
Proof. reflexivity. Qed.
End Compile.

Example ex_unknown_fn : compile lit_ok "zz(1)" None = Err "not yet support this function".
Proof. vm_compute. reflexivity. Qed.
Example ex_count0 : exists m, compile lit_ok "count()" None = Err m.
Proof. eexists. vm_compute. reflexivity. Qed.
Example ex_ns_axis : compile lit_ok "a/namespace::b" None = Err "xpath: the namespace axis is not supported".
Proof. vm_compute. reflexivity. Qed.

(* ------------------------------------------------------------------ *)
(* 5b. where QNil can occur in a built query *)
Fixpoint qok (q : query) : bool :=
  match q with
  | QNil => false
  | QNop | QContext | QAbsolute | QFn0 _ | QNum _ | QStr _ => true
  | QAncestor _ _ i | QAttribute _ i | QChild _ i | QCachedChild _ i | QDescendant _ _ i
  | QFollowing _ _ i | QPreceding _ _ i | QParent _ i | QSelf _ i | QDoD _ _ i => qok i
  | QFilter _ i p => andb (qok i) (qok p)
  | QFn1 f a =>
    match f with
    | FName | FLocalName | FNamespaceURI => match a with QNil => true | _ => qok a end
    | _ => qok a
    end
  | QFn2 _ a b => andb (qok a) (qok b)
  | QFn3 f a b c =>
    andb (andb (qok a) (qok b))
         (match f with
          | FSubstring => match c with QNil => true | _ => qok c end
          | _ => qok c
          end)
  | QConcat args => qargs args
  | QArg _ _ => false
  | QPosition i | QLast i => match i with QNil => true | _ => qok i end
  | QReverse i | QGroup i | QLastFunc i => qok i
  | QLogical _ l r | QNumeric _ l r | QBoolean _ l r | QUnion l r => andb (qok l) (qok r)
  | QMerge i c => andb (qok i) (qok c)
  end
with qargs (q : query) : bool :=
  match q with
  | QNil => true
  | QArg a r => andb (qok a) (qargs r)
  | _ => false
  end.

Fixpoint ops_ok (a : anode) : bool :=
  match a with
  | AOp op l r => andb (known_op op) (andb (ops_ok l) (ops_ok r))
  | AAxis _ _ _ _ _ _ _ (Some i) => ops_ok i
  | AFilter i c => andb (ops_ok i) (ops_ok c)
  | AFunc _ _ args => forallb ops_ok args
  | AGroup i => ops_ok i
  | _ => true
  end.

Definition fi_ok (fi : first) : Prop :=
  match fi_q fi with Some q => qok q = true | None => True end.

Section QOK.
Variable re_ok : string -> bool.
Notation process := (Build.process re_ok).

Definition pq (a : anode) : Prop :=
  ops_ok a = true -> forall d fl fi q pr fo, fi_ok fi ->
  process d a fl fi = Ok (q, pr, fo) -> qok q = true /\ fi_ok fo.

Lemma qok_nil_or q : qok q = true -> match q with QNil => true | _ => qok q end = true.
Proof. destruct q; auto. Qed.

Lemma qok_opt_default fi :
  fi_ok fi ->
  qok (QLast (opt_default QNil (fi_q fi))) = true /\
  qok (QPosition (opt_default QNil (fi_q fi))) = true.
Proof.
  unfold fi_ok. destruct (fi_q fi) as [q|]; cbn [opt_default]; [|split; reflexivity].
  intro H. split; destruct q; auto.
Qed.

Lemma mk_axis_qok axis t fl qi pr q pr' :
  qok qi = true -> mk_axis axis t fl qi pr = Ok (q, pr') -> qok q = true.
Proof.
  intro Hq. unfold mk_axis.
  repeat match goal with |- (if ?c then _ else _) = _ -> _ => destruct c end;
    try discriminate; intro H; injection H as <- _; cbn [qok];
    repeat match goal with |- context [if ?c then _ else _] => destruct c end; exact Hq.
Qed.

Lemma reroot_qok fq parent fq' :
  reroot fq = Some (parent, fq') -> qok fq = true -> qok parent = true /\ qok fq' = true.
Proof.
  destruct fq; cbn [reroot]; try discriminate;
    (destruct (is_context _); [discriminate|]); intro H; injection H as <- <-;
    cbn [qok]; auto.
Qed.

Lemma lastfunc_qok c :
  qok c = true ->
  qok match c with
      | QLast (QFilter np i p) => QLastFunc (QFilter np i p)
      | QPosition (QFilter np i p) => QLastFunc (QFilter np i p)
      | _ => c
      end = true.
Proof. destruct c; auto; match goal with |- context [match ?i with _ => _ end] => destruct i; auto end. Qed.

Ltac inv_bind H :=
  let x := fresh "x" in let Hx := fresh "Hx" in
  apply cbind_Ok_inv in H; destruct H as [x [Hx H]];
  repeat match goal with y : (_ * _)%type |- _ => destruct y end;
  cbv beta iota in H;
  match type of Hx with
  | Ok _ = Ok _ => inversion Hx; subst; clear Hx
  | _ => idtac
  end.

Ltac inv_binds :=
  repeat match goal with
  | H : cbind _ _ = Ok _ |- _ => inv_bind H
  end.

Ltac use_pq :=
  repeat match goal with
  | IH : pq ?a, Ho : ops_ok ?a = true, Hfi : fi_ok ?fi,
    H : Build.process _ _ ?a _ ?fi = Ok (_, _, _) |- _ =>
    let H1 := fresh "Hq" in let H2 := fresh "Hfi" in
    destruct (IH Ho _ _ _ _ _ _ Hfi H) as [H1 H2]; clear H
  end.

Lemma qok_fn3_any f a b c :
  qok a = true -> qok b = true -> qok c = true -> qok (QFn3 f a b c) = true.
Proof. intros Ha Hb Hc. destruct f; destruct c; cbn [qok] in *; rewrite Ha, Hb; auto. Qed.

Lemma qok_fn1_any f a : qok a = true -> qok (QFn1 f a) = true.
Proof. intros Ha. destruct f; destruct a; cbn [qok] in *; auto. Qed.

Ltac finish_pq H :=
  injection H as <- <- <-; split;
  [first [apply qok_fn3_any; assumption | apply qok_fn1_any; assumption | idtac]|];
  unfold fi_ok; cbn [fi_q qok];
  repeat match goal with Hq : qok _ = true |- _ => rewrite Hq; clear Hq end; auto.

Lemma fi_nil_ok : fi_ok fi_nil.
Proof. exact I. Qed.

Lemma list_of_args_qargs qs : qargs (list_of_args qs) = forallb qok qs.
Proof. induction qs as [|q r IH]; cbn [list_of_args qargs forallb]; [reflexivity|rewrite IH; reflexivity]. Qed.

Lemma concat_go_qok d l :
  Forall pq l -> forallb ops_ok l = true ->
  forall fi pr qs pr' fi', fi_ok fi -> concat_go re_ok d l fi pr = Ok (qs, pr', fi') ->
  forallb qok qs = true /\ fi_ok fi'.
Proof.
  induction 1 as [|a l0 Ha Hl IH]; intros Ho fi pr qs pr' fi' Hfi H.
  - cbn in H. injection H as <- _ <-. split; [reflexivity|exact Hfi].
  - cbn [forallb] in Ho. apply andb_true_iff in Ho. destruct Ho as [Hoa Hol].
    cbn [concat_go] in H. fold (concat_go re_ok d) in H. inv_binds.
    destruct (Ha Hoa _ _ _ _ _ _ Hfi Hx) as [Hq Hf].
    destruct (IH Hol _ _ _ _ _ Hf Hx0) as [Hqs Hf'].
    injection H as <- _ <-. cbn [forallb]. rewrite Hq, Hqs. split; [reflexivity|exact Hf'].
Qed.

Ltac forall_inv :=
  repeat match goal with
  | H : Forall _ (_ :: _) |- _ =>
    let H1 := fresh "IHa" in apply Forall_cons_iff in H; destruct H as [H1 H]
  end.

Ltac ops_inv :=
  repeat match goal with
  | H : forallb ops_ok (_ :: _) = true |- _ => cbn [forallb] in H
  | H : andb _ _ = true |- _ =>
    let H1 := fresh "Hoa" in apply andb_true_iff in H; destruct H as [H1 H]
  end.

Theorem process_qok : forall a, pq a.
Proof.
  induction a as [s|axis nty pre loc prop hasns ns|axis nty pre loc prop hasns ns i IHi IHg
                  |i c IHi IHc|pre name args IH|op l r IHl IHr|v|s|p n|i IHi] using anode_ind2;
    intros Ho d fl fi q pr fo Hfi H; cbn [Build.process] in H;
    (destruct (Nat.ltb max_build_depth (S d)) eqn:Hd; [discriminate H|clear Hd]).
  - finish_pq H.
  - inv_binds. apply mk_axis_qok in Hx; [|reflexivity]. finish_pq H.
  - cbn [ops_ok] in Ho.
    assert (Hn : forall fl0 : flags,
      (let* (qi, pr, _) := process (S d) i fl0 fi_nil
       in let* (q, pr0) := mk_axis axis (axis_test nty pre loc hasns ns) fl qi pr
          in Ok (q, pr0, {| fi_q := Some q; fi_self := true |})) = Ok (q, pr, fo) ->
      qok q = true /\ fi_ok fo).
    { intros fl0 H0. inv_binds. pose proof fi_nil_ok as Hnil. use_pq.
      apply mk_axis_qok in Hx0; [|assumption]. finish_pq H0. }
    destruct i as [| iax itt ipre iloc iprop ihasns ins ginput | | | | | | |]; try (eapply Hn; exact H).
    match type of H with (if ?c then _ else _) = _ => destruct c end; [|eapply Hn; exact H].
    destruct ginput as [g|]; [|cbn [cbind] in H; finish_pq H].
    cbn [axis_grandchild] in IHg. cbn [ops_ok] in Ho. fold (pq g) in IHg.
    inv_binds. pose proof fi_nil_ok as Hnil. use_pq. cbn [cbind] in H. finish_pq H.
  - cbn [ops_ok] in Ho. apply andb_true_iff in Ho. destruct Ho as [Hoi Hoc].
    inv_binds. use_pq.
    match type of H with context [QFilter _ _ ?c'] =>
      let cc := fresh "cc" in
      set (cc := c') in H;
      assert (Hc' : qok cc = true);
      [subst cc; match goal with |- context [if ?b then _ else _] => destruct b end;
       [apply lastfunc_qok|]; assumption|];
      clearbody cc
    end.
    destruct (negb (f_filter fl)); [|finish_pq H].
    destruct (fi_q f) as [fq|] eqn:Efq; [|finish_pq H].
    match type of H with (if ?b then _ else _) = _ => destruct b end; [|finish_pq H].
    assert (Hfq : qok fq = true) by (unfold fi_ok in Hfi0; rewrite Efq in Hfi0; exact Hfi0).
    destruct (reroot fq) as [[parent fq']|] eqn:Er; [|finish_pq H].
    destruct (reroot_qok _ _ _ Er Hfq) as [Hp Hfq'].
    destruct (fi_self f); finish_pq H.
  - cbn [ops_ok] in Ho.
    destruct (known_function name) eqn:Hk.
    2:{ exfalso. revert H. unfold known_function in Hk.
        repeat match goal with
        | |- context [String.eqb name ?s] =>
          rewrite (existsb_eqb_neq_b name _ Hk s eq_refl)
        end. cbn [orb]. discriminate. }
    apply known_function_In in Hk; unfold fnames in Hk; cbn [In] in Hk;
    repeat (destruct Hk as [Hk|Hk]; [symmetry in Hk|]); [..|contradiction]; subst name;
    cbn [String.eqb Ascii.eqb Bool.eqb andb orb negb] in H.
    all: try (match type of H with context [cbind (?f _ _ pr_none) _] =>
               change f with (concat_go re_ok (S d)) in H end;
              destruct (Nat.ltb (List.length args) 2); [discriminate H|]; inv_binds;
              destruct (concat_go_qok _ _ IH Ho _ _ _ _ _ Hfi Hx) as [Hqs Hf];
              injection H as <- <- <-; cbn [qok]; rewrite list_of_args_qargs; split; assumption).
    all: destruct args as [|a0 [|a1 [|a2 [|a3 r]]]];
         cbn [List.length Nat.eqb Nat.ltb Nat.leb negb] in H; try discriminate H;
         forall_inv; ops_inv; inv_binds; use_pq.
    all: try discriminate H.
    all: try (destruct (qok_opt_default fi Hfi) as [HL HP]).
    all: try (finish_pq H; fail).
    all: try (match goal with Hm : match ?q1 with _ => _ end = Ok ?x |- _ =>
                match type of H with context [fi_q] =>
                assert (Ex : x = QFn2 FMatches q0 q1) by
                  (destruct q1; try (destruct (re_ok _)); congruence) end end;
              subst x; finish_pq H; fail).
  - cbn [ops_ok] in Ho. apply andb_true_iff in Ho. destruct Ho as [Hop Ho].
    apply andb_true_iff in Ho. destruct Ho as [Hol Hor].
    inv_binds. use_pq.
    apply existsb_eqb_In in Hop. unfold op_names in Hop. cbn [In] in Hop.
    repeat (destruct Hop as [Hop|Hop]; [symmetry in Hop; subst op;
      cbn [arith_of cmp_of String.eqb Ascii.eqb Bool.eqb andb] in H; finish_pq H|]).
    contradiction.
  - finish_pq H.
  - finish_pq H.
  - discriminate H.
  - cbn [ops_ok] in Ho. inv_binds. use_pq. unfold fi_ok in Hfi0. destruct (fi_q f); finish_pq H.
Qed.
Print Assumptions process_qok.
End QOK.

(* ------------------------------------------------------------------ *)
(* 5c. every operator node created by the parser carries a known operator *)
Definition oops (n : option anode) : bool :=
  match n with Some a => ops_ok a | None => true end.

Definition pinv (p : option anode -> pst -> PR anode) : Prop :=
  forall n st a st', oops n = true -> p n st = Ok (a, st') -> ops_ok a = true.

Definition getop_ok (getop : pst -> option string) : Prop :=
  forall st op, getop st = Some op -> known_op op = true.

Ltac inv_bind H :=
  let x := fresh "x" in let Hx := fresh "Hx" in
  apply cbind_Ok_inv in H; destruct H as [x [Hx H]];
  repeat match goal with y : (_ * _)%type |- _ => destruct y end;
  cbv beta iota in H.

Lemma bin_loop_ops fuel getop sub :
  getop_ok getop ->
  (forall st a st', sub st = Ok (a, st') -> ops_ok a = true) ->
  forall acc st a st', ops_ok acc = true ->
  bin_loop fuel getop sub acc st = Ok (a, st') -> ops_ok a = true.
Proof.
  intros Hg Hs. induction fuel as [|f IH]; intros acc st a st' Hacc H; cbn [bin_loop] in H.
  - discriminate H.
  - destruct (getop st) as [op|] eqn:Eg.
    + inv_bind H. inv_bind H. eapply IH; [|exact H].
      cbn [ops_ok]. rewrite (Hg _ _ Eg), Hacc, (Hs _ _ _ Hx0). reflexivity.
    + injection H as <- _. exact Hacc.
Qed.

Lemma bin_level_ops fuel getop sub :
  getop_ok getop ->
  (forall st a st', sub st = Ok (a, st') -> ops_ok a = true) ->
  forall st a st', bin_level fuel getop sub st = Ok (a, st') -> ops_ok a = true.
Proof.
  intros Hg Hs st a st' H. unfold bin_level in H. inv_bind H.
  eapply bin_loop_ops; [exact Hg|exact Hs| |exact H]. eapply Hs; exact Hx.
Qed.

Lemma op_or_ok : getop_ok op_or.
Proof. intros st op. unfold op_or. destruct (test_op st "or"); intro H; inversion H; reflexivity. Qed.
Lemma op_and_ok : getop_ok op_and.
Proof. intros st op. unfold op_and. destruct (test_op st "and"); intro H; inversion H; reflexivity. Qed.
Lemma op_eq_ok : getop_ok op_eq.
Proof. intros st op. unfold op_eq. destruct (typ st); intro H; inversion H; reflexivity. Qed.
Lemma op_rel_ok : getop_ok op_rel.
Proof. intros st op. unfold op_rel. destruct (typ st); intro H; inversion H; reflexivity. Qed.
Lemma op_add_ok : getop_ok op_add.
Proof. intros st op. unfold op_add. destruct (typ st); intro H; inversion H; reflexivity. Qed.
Lemma op_union_ok : getop_ok op_union.
Proof. intros st op. unfold op_union. destruct (is_typ st IUnion); intro H; inversion H; reflexivity. Qed.
Lemma op_mul_ok : getop_ok op_mul.
Proof.
  intros st op. unfold op_mul. destruct (is_typ st IStar); [intro H; inversion H; reflexivity|].
  destruct (orb (test_op st "div") (test_op st "mod")) eqn:E; [|discriminate].
  intro H. injection H as <-. unfold test_op in E.
  apply orb_true_iff in E. destruct E as [E|E];
    apply andb_true_iff in E; destruct E as [_ E];
    apply andb_true_iff in E; destruct E as [_ E];
    apply String.eqb_eq in E; rewrite E; reflexivity.
Qed.

Lemma pred_loop_ops fuel pexpr :
  pinv pexpr ->
  forall acc st a st', ops_ok acc = true ->
  pred_loop fuel pexpr acc st = Ok (a, st') -> ops_ok a = true.
Proof.
  intros Hp. induction fuel as [|f IH]; intros acc st a st' Hacc H; cbn [pred_loop] in H.
  - discriminate H.
  - destruct (is_typ st ILBracket).
    + inv_bind H. inv_bind H. inv_bind H. eapply IH; [|exact H].
      cbn [ops_ok]. rewrite Hacc. cbn [andb]. eapply Hp; [|exact Hx0]. exact Hacc.
    + injection H as <- _. exact Hacc.
Qed.

Lemma relpath_loop_ops fuel pstep :
  pinv pstep ->
  forall n st a st', oops n = true ->
  relpath_loop fuel pstep n st = Ok (a, st') -> ops_ok a = true.
Proof.
  intros Hp. induction fuel as [|f IH]; intros n st a st' Hn H; cbn [relpath_loop] in H.
  - discriminate H.
  - inv_bind H. pose proof (Hp _ _ _ _ Hn Hx) as Ho.
    destruct (typ p); try (injection H as <- _; exact Ho).
    + inv_bind H. eapply IH; [|exact H]. exact Ho.
    + inv_bind H. eapply IH; [|exact H]. exact Ho.
Qed.

Lemma seq_loop_ops fuel pstep :
  pinv pstep ->
  forall n acc st a st', oops n = true -> ops_ok acc = true ->
  seq_loop fuel pstep n acc st = Ok (a, st') -> ops_ok a = true.
Proof.
  intros Hp. induction fuel as [|f IH]; intros n acc st a st' Hn Hacc H; cbn [seq_loop] in H.
  - discriminate H.
  - destruct (is_typ st IComma).
    + inv_bind H. inv_bind H. eapply IH; [exact Hn| |exact H].
      cbn [ops_ok]. rewrite Hacc, (Hp _ _ _ _ Hn Hx0). reflexivity.
    + injection H as <- _. exact Hacc.
Qed.

Lemma args_loop_ops fuel pexpr :
  pinv pexpr ->
  forall acc st l st', forallb ops_ok acc = true ->
  args_loop fuel pexpr acc st = Ok (l, st') -> forallb ops_ok l = true.
Proof.
  intros Hp. induction fuel as [|f IH]; intros acc st l st' Hacc H; cbn [args_loop] in H.
  - discriminate H.
  - inv_bind H. pose proof (Hp None _ _ _ eq_refl Hx) as Ho.
    assert (Hacc' : forallb ops_ok (acc ++ [a]) = true).
    { rewrite forallb_app, Hacc. cbn. rewrite Ho. reflexivity. }
    destruct (is_typ p IRParens).
    + injection H as <- _. exact Hacc'.
    + inv_bind H. eapply IH; [|exact H]. exact Hacc'.
Qed.

Lemma parse_node_test_ops ns n axis mt st a st' :
  oops n = true -> parse_node_test ns n axis mt st = Ok (a, st') -> ops_ok a = true.
Proof.
  intros Hn H. unfold parse_node_test in H.
  destruct (typ st); try discriminate H.
  - inv_bind H. injection H as <- _. destruct n; exact Hn.
  - destruct (andb (s_canfunc (p_s st)) (is_node_type st)).
    + repeat inv_bind H. injection H as <- _. destruct n; exact Hn.
    + inv_bind H.
      repeat match type of H with
      | (if ?c then _ else _) = _ => destruct c
      | match ?c with _ => _ end = _ => destruct c
      end; try discriminate H; injection H as <- _; destruct n; exact Hn.
Qed.

Lemma dos_node_ops o : ops_ok (dos_node o) = oops o.
Proof. destruct o; reflexivity. Qed.

Ltac inv_pair H a s Hx :=
  apply cbind_Ok_inv in H; destruct H as [[a s] [Hx H]]; cbv beta iota in H.
Ltac inv_one H s Hx :=
  apply cbind_Ok_inv in H; destruct H as [s [Hx H]]; cbv beta iota in H.

Ltac dec H :=
  repeat (match type of H with
  | cbind _ _ = Ok _ => inv_bind H
  | (if ?c then _ else _) = Ok _ => destruct c eqn:?
  | Err _ = Ok _ => discriminate H
  | OutOfFuel = Ok _ => discriminate H
  end).

Theorem pgo_ops ns fuel : forall what, pinv (pgo ns fuel what).
Proof.
  induction fuel as [|f IH]; intros what n st a st' Hn H; [discriminate H|].
  pose proof (IH EExpr) as IHe. pose proof (IH EStep) as IHs.
  destruct what; cbn [pgo] in H.
  - (* parseExpression *)
    destruct (Nat.ltb max_depth (S (p_d st))); [discriminate H|].
    inv_bind H. injection H as <- _.
    refine (bin_level_ops _ _ _ op_or_ok _ _ _ _ Hx); clear Hx; intros st1 a1 st1' Hx.
    refine (bin_level_ops _ _ _ op_and_ok _ _ _ _ Hx); clear Hx; intros st2 a2 st2' Hx.
    refine (bin_level_ops _ _ _ op_eq_ok _ _ _ _ Hx); clear Hx; intros st3 a3 st3' Hx.
    refine (bin_level_ops _ _ _ op_rel_ok _ _ _ _ Hx); clear Hx; intros st4 a4 st4' Hx.
    refine (bin_level_ops _ _ _ op_add_ok _ _ _ _ Hx); clear Hx; intros st5 a5 st5' Hx.
    refine (bin_level_ops _ _ _ op_mul_ok _ _ _ _ Hx); clear Hx; intros st6 a6 st6' Hx.
    inv_pair Hx mi sm Hm. inv_pair Hx o so Hu. injection Hx as <- _.
    assert (Ho : ops_ok o = true).
    2:{ destruct mi; [cbn [ops_ok]; rewrite Ho; reflexivity|exact Ho]. }
    refine (bin_level_ops _ _ _ op_union_ok _ _ _ _ Hu); clear Hu; intros st7 a8 st7' Hx.
    destruct (is_primary_expr st7).
    + (* filter expression, then optional path *)
      inv_pair Hx o1 s1 Hf. inv_pair Hf o2 s2 Hp.
      assert (Ho2 : ops_ok o2 = true).
      { destruct (typ st7); dec Hp; injection Hp as <- _; try reflexivity.
        all: try (cbn [ops_ok];
          match goal with
          | Ha : (if ?c then Ok ([], _) else args_loop _ _ _ _) = Ok (_, _) |- _ =>
            destruct c; [injection Ha as <- _; reflexivity|
                         eapply args_loop_ops; [exact IHe| |exact Ha]; reflexivity]
          end).
        match goal with
        | Ha : pgo ns f EExpr n _ = Ok (?a, _) |- _ =>
          destruct (is_operand a); [|cbn [ops_ok]]; eapply IHe; [exact Hn|exact Ha|exact Hn|exact Ha]
        end. }
      assert (Ho1 : ops_ok o1 = true).
      { eapply pred_loop_ops; [exact IHe|exact Ho2|exact Hf]. }
      destruct (typ s1); try (injection Hx as <- _; exact Ho1).
      * inv_one Hx sx Hsx. eapply relpath_loop_ops; [exact IHs| |exact Hx]. exact Ho1.
      * inv_one Hx sx Hsx. eapply relpath_loop_ops; [exact IHs| |exact Hx]. exact Ho1.
    + (* location path *)
      destruct (typ st7);
        try (eapply relpath_loop_ops; [exact IHs| |exact Hx]; reflexivity).
      * inv_one Hx sx Hsx. destruct (is_step (typ sx)).
        -- eapply relpath_loop_ops; [exact IHs| |exact Hx]; reflexivity.
        -- injection Hx as <- _. reflexivity.
      * inv_one Hx sx Hsx. eapply relpath_loop_ops; [exact IHs| |exact Hx]; reflexivity.
  - (* parseStep *)
    destruct (orb (is_typ st IDot) (is_typ st IDotDot)).
    + inv_one H s1 Hs1.
      assert (Ho : ops_ok (if is_typ st IDot
               then AAxis "self" NTAll "" "" "" false "" n
               else AAxis "parent" NTAll "" "" "" false "" n) = true).
      { destruct (is_typ st IDot); destruct n; exact Hn. }
      destruct (is_typ s1 ILBracket).
      * eapply pred_loop_ops; [exact IHe|exact Ho|exact H].
      * injection H as <- _. exact Ho.
    + assert (Hd : (let* (axis, st1)
            := match typ st with
               | IAt => let* st' := pnext st in Ok ("attribute", st')
               | IAxe => let* st' := pnext st in Ok (s_name (p_s st), st')
               | _ => Ok ("child", st)
               end
            in let* (o, st2)
               := parse_node_test ns n axis
                    (if String.eqb axis "attribute" then NTAttr else NTElem) st1
               in pred_loop f (pgo ns f EExpr) o st2) = Ok (a, st') -> ops_ok a = true).
      { clear H. intro H. inv_pair H axis s1 Hax. inv_pair H o s2 Hnt.
        eapply pred_loop_ops; [exact IHe| |exact H].
        eapply parse_node_test_ops; [exact Hn|exact Hnt]. }
      destruct (typ st); try (apply Hd; exact H). clear Hd.
      destruct (Nat.ltb max_depth (S (p_d st))); [discriminate H|].
      inv_one H s1 Hs1. inv_pair H o s2 Ho. inv_pair H o' s3 Hsq. inv_one H s4 Hs4.
      injection H as <- _.
      eapply seq_loop_ops; [exact IHs|exact Hn| |exact Hsq].
      eapply IHs; [exact Hn|exact Ho].
Qed.
Print Assumptions pgo_ops.

Theorem parse_fuel_ops fuel text ns a : parse_fuel fuel text ns = Ok a -> ops_ok a = true.
Proof.
  unfold parse_fuel. intro H. inv_one H s1 Hs1. inv_pair H o st Hp. inv_one H u Hu.
  injection H as <-. eapply (pgo_ops ns fuel EExpr None); [reflexivity|exact Hp].
Qed.
Print Assumptions parse_fuel_ops.

Corollary parse_ops text ns a : parse text ns = Ok a -> ops_ok a = true.
Proof. apply parse_fuel_ops. Qed.

(* ------------------------------------------------------------------ *)
(* 5d. compiled queries are usable *)
Lemma qok_not_nil q : qok q = true -> q <> QNil.
Proof. intros H E. subst q. discriminate H. Qed.

Section Usable.
Variable re_ok : string -> bool.

Theorem build_fuel_qok fuel text ns q :
  build_fuel re_ok fuel text ns = Ok q -> qok q = true.
Proof.
  unfold build_fuel. intro H. inv_one H root Hp. inv_bind H. injection H as <-.
  apply parse_fuel_ops in Hp.
  destruct (process_qok re_ok root Hp _ _ _ _ _ _ fi_nil_ok Hx) as [Hq _]. exact Hq.
Qed.
Print Assumptions build_fuel_qok.

(* the nil check of Compile ("undeclared variable") never fires *)
Corollary build_fuel_not_nil fuel text ns : build_fuel re_ok fuel text ns <> Ok QNil.
Proof. intro H. apply build_fuel_qok in H. discriminate H. Qed.

Theorem compile_fuel_ok_iff fuel text ns q :
  compile_fuel re_ok fuel text ns = Ok q <->
  text <> "" /\ build_fuel re_ok fuel text ns = Ok q.
Proof.
  unfold compile_fuel. destruct (String.eqb text "") eqn:E.
  - apply String.eqb_eq in E. split; [discriminate|intros [H _]; contradiction].
  - apply String.eqb_neq in E.
    destruct (build_fuel re_ok fuel text ns) as [q0|m|] eqn:Eb; cbn [cbind].
    + pose proof (build_fuel_qok _ _ _ _ Eb) as Hq.
      destruct q0; try discriminate Hq; (split; [intro H; split; [exact E|exact H]|intros [_ H]; exact H]).
    + split; [discriminate|intros [_ H]; discriminate H].
    + split; [discriminate|intros [_ H]; discriminate H].
Qed.

Theorem compile_fuel_qok fuel text ns q :
  compile_fuel re_ok fuel text ns = Ok q -> qok q = true.
Proof. intro H. apply compile_fuel_ok_iff in H. destruct H as [_ H]. eapply build_fuel_qok; exact H. Qed.

Theorem compile_qok text ns q : compile re_ok text ns = Ok q -> qok q = true.
Proof. apply compile_fuel_qok. Qed.
Print Assumptions compile_qok.

Theorem must_compile_qok text : qok (must_compile re_ok text) = true.
Proof.
  unfold must_compile. destruct (compile re_ok text None) as [q|m|] eqn:E; [|reflexivity|reflexivity].
  eapply compile_qok; exact E.
Qed.
Print Assumptions must_compile_qok.
End Usable.

Example compile_qok_ex :
  exists q, compile lit_ok "//a[position() = last()]/b[substring(name(), 2) = concat('x', @c, local-name(.))] | c[-(1 + 2) div 3 < 1 or true()]" None = Ok q
            /\ qok q = true.
Proof. eexists. split; [vm_compute; reflexivity|reflexivity]. Qed.

(* the only QNil inputs that survive: position()/last() without a context step *)
Example position_toplevel : compile lit_ok "position()" None = Ok (QPosition QNil).
Proof. vm_compute. reflexivity. Qed.

(* a path of 1024 steps builds, one of 1025 steps hits the depth guard of the builder *)
Fixpoint steps (n : nat) : string :=
  match n with 0 => "a" | S k => "a/" ++ steps k end.

Example compile_depth_ex :
  (exists q, compile lit_ok (steps 1023) None = Ok q) /\
  compile lit_ok (steps 1024) None = Err "the xpath expressions is too complex" /\
  (exists a, parse (steps 1024) None = Ok a /\ vdepth a = 1025 /\ fully_visited a = true).
Proof.
  split; [eexists; vm_compute; reflexivity|].
  split; [vm_compute; reflexivity|].
  eexists. split; [vm_compute; reflexivity|split; vm_compute; reflexivity].
Qed.

Example parse_ops_ex :
  exists a, parse "1 + 2 * -3 div 4 mod 5 = 6 and (a | b) != c or d <= e" None = Ok a /\ ops_ok a = true.
Proof. eexists. split; [vm_compute; reflexivity|reflexivity]. Qed.

(* surplus arguments are silently dropped (bad_arity is false for them): count(a,b,c) is
   count(a), true(1,2) is true(), a 4-argument substring is the 2-argument one *)
Example extra_args_ignored :
  compile lit_ok "count(a, b, c)" None = compile lit_ok "count(a)" None /\
  compile lit_ok "true(1, 2)" None = Ok (QFn0 FTrue) /\
  compile lit_ok "substring('abc', 1, 2, 3)" None = compile lit_ok "substring('abc', 1)" None /\
  compile lit_ok "position(1)" None = Ok (QPosition QNil) /\
  compile lit_ok "matches('a', 1)" None =
    Err "interface conversion: interface {} is float64, not string".
Proof. repeat split; vm_compute; reflexivity. Qed.

(* ------------------------------------------------------------------ *)
(* all main theorems, after the sections are closed *)
Print Assumptions process_no_outoffuel.
Print Assumptions process_depth_guard.
Print Assumptions process_unknown_function.
Print Assumptions process_unknown_function_err.
Print Assumptions mk_axis_unsupported.
Print Assumptions mk_axis_ok_iff.
Print Assumptions process_unsupported_axis.
Print Assumptions process_variable.
Print Assumptions process_bad_arity.
Print Assumptions process_good_arity.
Print Assumptions process_index_panic_one.
Print Assumptions process_depth_bound.
Print Assumptions process_too_deep.
Print Assumptions process_depth_bound_plain.
Print Assumptions process_known_op_not_nil.
Print Assumptions process_unknown_op_nil.
Print Assumptions compile_fuel_not_nil.
Print Assumptions compile_trichotomy.
Print Assumptions must_compile_not_nil.
Print Assumptions compile_empty.
Print Assumptions process_qok.
Print Assumptions pgo_ops.
Print Assumptions build_fuel_qok.
Print Assumptions compile_fuel_ok_iff.
Print Assumptions compile_qok.
Print Assumptions must_compile_qok.
