(* Model1/Iter2.v — M1 continued: the remaining node-set query types of query.go
   at CURSOR level, in the style of Model1/Iter.v (which this file imports and
   whose combinators it reuses unchanged):

     followingQuery   (Sibling = true and Sibling = false)
     precedingQuery   (Sibling = true and Sibling = false)
     ancestorQuery    (Self = false / true; the `table` of identity codes)
     groupQuery
     unionQuery
     mergeQuery

   and the query tree [qconfig2] over ALL modelled query types (those of
   Iter.v included).  getHashCode is the abstract parameter  hcode : node -> N
   (instantiated with Api.hash_code D, as in Eval.v).

   Loops and fuel.
     - loops inside closures that step a private cursor use a fuel computed
       from the cursor position and the size of the document:
         MoveToNext walks                     dfuel D = 1 + number of nodes
         MoveToPrevious walks                 1 + index of the node among its siblings
         MoveToParent walks (ancestor)        2 + depth of the node (3 + for the de-duplication loop)
         following::  (Sibling = false)       (2 + depth) * dfuel D
         preceding::  (Sibling = false)       2 + depth + sum of the child indices on the path
     - the inner descendantQuery over a contextQuery that followingQuery and
       precedingQuery create runs its Select loop at most 3 times;
     - loops that pull from an input query, and the loops of unionQuery and
       mergeQuery that collect all the nodes of an operand, take the fuel
       parameter F.
   Running out is [Stuck]; Proofs/IterRefine2.v shows it does not happen.

   Definitions only. *)
From XP Require Import Base Doc Ast Eval.
From XP.Model1 Require Import Iter.
Open Scope nat_scope.
Open Scope list_scope.

(* ---- state records ---- *)

(* followingQuery{posit; iterator}: the closure captures  node  (Sibling) or
   node and  q *descendantQuery  (not Sibling; q = nil is None; the inner
   query is (Self, its state), its Input a contextQuery whose state is its count) *)
Inductive fol_it :=
| FI_none
| FI_sib (nd : node)
| FI_doc (nd : node) (q : option (bool * desc_st nat)).
Record fol_st (St : Type) := mkFol { fo_posit : nat; fo_it : fol_it; fo_in : St }.
Arguments mkFol {St}. Arguments fo_posit {St}. Arguments fo_it {St}. Arguments fo_in {St}.

(* precedingQuery{iterator; posit}: q is always descendant-or-self *)
Inductive pre_it :=
| PI_none
| PI_sib (nd : node)
| PI_doc (nd : node) (q : option (desc_st nat)).
Record pre_st (St : Type) := mkPre { pr_posit : nat; pr_it : pre_it; pr_in : St }.
Arguments mkPre {St}. Arguments pr_posit {St}. Arguments pr_it {St}. Arguments pr_in {St}.

(* ancestorQuery{iterator; table}: the closure captures node and first;
   table: None = nil map, the keys otherwise *)
Inductive anc_it := NI_none | NI_iter (nd : node) (first : bool).
Record anc_st (St : Type) := mkAnc { n_it : anc_it; n_table : option (list N); n_in : St }.
Arguments mkAnc {St}. Arguments n_it {St}. Arguments n_table {St}. Arguments n_in {St}.

(* groupQuery{posit} *)
Record group_st (St : Type) := mkGroup { g_posit : nat; g_in : St }.
Arguments mkGroup {St}. Arguments g_posit {St}. Arguments g_in {St}.

(* the closure of unionQuery and of mergeQuery captures  list  and  i *)
Inductive list_it := LI_none | LI_iter (lst : list node) (i : nat).
Record union_st (L R : Type) := mkUnion { u_it : list_it; u_l : L; u_r : R }.
Arguments mkUnion {L R}. Arguments u_it {L R}. Arguments u_l {L R}. Arguments u_r {L R}.
Record merge_st (St C : Type) := mkMerge { m_it : list_it; m_in : St; m_ch : C }.
Arguments mkMerge {St C}. Arguments m_it {St C}. Arguments m_in {St C}. Arguments m_ch {St C}.

(*  if i >= len(list) { return nil };  node := list[i]; i++; return node  *)
Definition list_next (lst : list node) (i : nat) : option node * nat :=
  match nth_error lst i with
  | Some x => (Some x, S i)
  | None => (None, i)
  end.

Section M2.
Variable D : tree.
Variable hcode : node -> N.             (* getHashCode *)

(* ------------------------------------------------------------------ *)
(* groupQuery *)

(*  node := g.Input.Select(t); if node == nil { return nil }; g.posit++; return node  *)
Definition group_select {St} (isel : St -> node -> res St) (st : group_st St) (cur : node)
  : res (group_st St) :=
  match isel (g_in st) cur with
  | Stuck => Stuck
  | R None s' cur' => R None (mkGroup (g_posit st) s') cur'
  | R (Some n) s' cur' => R (Some n) (mkGroup (S (g_posit st)) s') cur'
  end.

(* ------------------------------------------------------------------ *)
(* followingQuery *)

(* Sibling:  for { if !node.MoveToNext() { return nil }
                   if f.Predicate(node) { f.posit++; return node } }        *)
Fixpoint sib_next_run (test : node -> bool) (fuel : nat) (nd : node) : option (option node * node) :=
  match fuel with
  | 0 => None
  | S k =>
    match move_next D nd with
    | None => Some (None, nd)
    | Some nd' => if test nd' then Some (Some nd', nd') else sib_next_run test k nd'
    end
  end.

Definition fol_sib_pump {St} (test : node -> bool)
           (again : fol_st St -> node -> res (fol_st St))
           (posit : nat) (nd : node) (s : St) (cur1 : node) : res (fol_st St) :=
  match sib_next_run test (dfuel D) nd with
  | None => Stuck
  | Some (Some n, nd') => R (Some n) (mkFol (S posit) (FI_sib nd') s) cur1
  | Some (None, _) => again (mkFol posit FI_none s) cur1
  end.

(* not Sibling.
     for !node.MoveToNext() { if !node.MoveToParent() { return nil } }       *)
Inductive adv := A_stuck | A_nil (nd : node) | A_ok (nd : node).
Fixpoint fol_advance (fuel : nat) (nd : node) : adv :=
  match fuel with
  | 0 => A_stuck
  | S k =>
    match move_next D nd with
    | Some nd' => A_ok nd'
    | None => match move_parent nd with
              | Some p => fol_advance k p
              | None => A_nil nd
              end
    end
  end.

Definition climb_fuel (nd : node) : nat := 2 + List.length (npath nd).

(* &descendantQuery{Self: .., Input: &contextQuery{}, Predicate: f.Predicate} *)
Definition inner_desc_init : desc_st nat := mkDesc DI_none 0 0 0.
(* q.Select(iteratorFunc(func() NodeNavigator { return node })) *)
Definition inner_desc_select (self : bool) (test : node -> bool) (qs : desc_st nat) (nd : node)
  : res (desc_st nat) :=
  desc_select D ctx_select self test 3 qs nd.

(*  for {
      if q == nil {
        for !node.MoveToNext() { if !node.MoveToParent() { return nil } }
        q = &descendantQuery{Self: true, ...}
      }
      if node := q.Select(...); node != nil { f.posit = q.posit; return node }
      q = nil
    }
   result: None = out of fuel; Some (returned node or nil, node', q', posit') *)
Fixpoint fol_doc_run (test : node -> bool) (fuel : nat) (nd : node)
         (q : option (bool * desc_st nat)) (posit : nat)
  : option (option node * node * option (bool * desc_st nat) * nat) :=
  match fuel with
  | 0 => None
  | S k =>
    let go (nd1 : node) (self : bool) (qs : desc_st nat) :=
        match inner_desc_select self test qs nd1 with
        | Stuck => None
        | R (Some n) qs' _ => Some (Some n, nd1, Some (self, qs'), d_posit qs')
        | R None _ _ => fol_doc_run test k nd1 None posit
        end in
    match q with
    | Some (self, qs) => go nd self qs
    | None =>
      match fol_advance (climb_fuel nd) nd with
      | A_stuck => None
      | A_nil nd' => Some (None, nd', None, posit)
      | A_ok nd' => go nd' true inner_desc_init
      end
    end
  end.

Definition fol_fuel (nd : node) : nat := climb_fuel nd * dfuel D.

Definition fol_doc_pump {St} (test : node -> bool)
           (again : fol_st St -> node -> res (fol_st St))
           (posit : nat) (nd : node) (q : option (bool * desc_st nat)) (s : St) (cur1 : node)
  : res (fol_st St) :=
  match fol_doc_run test (fol_fuel nd) nd q posit with
  | None => Stuck
  | Some (Some n, nd', q', posit') => R (Some n) (mkFol posit' (FI_doc nd' q') s) cur1
  | Some (None, _, _, posit') => again (mkFol posit' FI_none s) cur1
  end.

(*  for {
      if f.iterator == nil {
        f.posit = 0
        node := f.Input.Select(t); if node == nil { return nil }
        node = node.Copy()
        if f.Sibling { f.iterator = func ... }
        else { var q *descendantQuery
               if node.NodeType() == AttributeNode {
                 node.MoveToParent(); q = &descendantQuery{Input: &contextQuery{}, Predicate} }
               f.iterator = func ... }
      }
      if node := f.iterator(); node != nil { return node }
      f.iterator = nil
    }                                                                     *)
Definition fol_body {St} (isel : St -> node -> res St) (sibling : bool) (test : node -> bool)
           (again : fol_st St -> node -> res (fol_st St))
           (st : fol_st St) (cur : node) : res (fol_st St) :=
  match fo_it st with
  | FI_none =>
    match isel (fo_in st) cur with
    | Stuck => Stuck
    | R None s' cur' => R None (mkFol 0 FI_none s') cur'
    | R (Some n) s' cur' =>
      if sibling then fol_sib_pump test again 0 n s' cur'
      else if ntype_eqb (node_type D n) NTAttr
           then fol_doc_pump test again 0
                             (match move_parent n with Some p => p | None => n end)
                             (Some (false, inner_desc_init)) s' cur'
           else fol_doc_pump test again 0 n None s' cur'
    end
  | FI_sib nd => fol_sib_pump test again (fo_posit st) nd (fo_in st) cur
  | FI_doc nd q => fol_doc_pump test again (fo_posit st) nd q (fo_in st) cur
  end.
Definition fol_select {St} isel sibling test (F : nat) : fol_st St -> node -> res (fol_st St) :=
  iter_loop (fol_body isel sibling test) F.

(* ------------------------------------------------------------------ *)
(* precedingQuery *)

(* Sibling:  for { for !node.MoveToPrevious() { return nil }
                   if p.Predicate(node) { p.posit++; return node } }        *)
Fixpoint sib_prev_run (test : node -> bool) (fuel : nat) (nd : node) : option (option node * node) :=
  match fuel with
  | 0 => None
  | S k =>
    match move_prev nd with
    | None => Some (None, nd)
    | Some nd' => if test nd' then Some (Some nd', nd') else sib_prev_run test k nd'
    end
  end.

Definition index_of_node (nd : node) : nat :=
  match last_index (npath nd) with Some i => i | None => 0 end.
Definition prev_fuel (nd : node) : nat := S (index_of_node nd).

Definition pre_sib_pump {St} (test : node -> bool)
           (again : pre_st St -> node -> res (pre_st St))
           (posit : nat) (nd : node) (s : St) (cur1 : node) : res (pre_st St) :=
  match sib_prev_run test (prev_fuel nd) nd with
  | None => Stuck
  | Some (Some n, nd') => R (Some n) (mkPre (S posit) (PI_sib nd') s) cur1
  | Some (None, _) => again (mkPre posit PI_none s) cur1
  end.

(* not Sibling.
     for !node.MoveToPrevious() { if !node.MoveToParent() { return nil }; p.posit = 0 }
   (node', posit') *)
Inductive padv := PA_stuck | PA_nil (nd : node) (posit : nat) | PA_ok (nd : node) (posit : nat).
Fixpoint pre_advance (fuel : nat) (nd : node) (posit : nat) : padv :=
  match fuel with
  | 0 => PA_stuck
  | S k =>
    match move_prev nd with
    | Some nd' => PA_ok nd' posit
    | None => match move_parent nd with
              | Some p => pre_advance k p 0
              | None => PA_nil nd posit
              end
    end
  end.

(*  for {
      if q == nil {
        for !node.MoveToPrevious() { if !node.MoveToParent() { return nil }; p.posit = 0 }
        q = &descendantQuery{Self: true, Input: &contextQuery{}, Predicate: p.Predicate}
      }
      if node := q.Select(...); node != nil { p.posit++; return node }
      q = nil
    }                                                                     *)
Fixpoint pre_doc_run (test : node -> bool) (fuel : nat) (nd : node)
         (q : option (desc_st nat)) (posit : nat)
  : option (option node * node * option (desc_st nat) * nat) :=
  match fuel with
  | 0 => None
  | S k =>
    let go (nd1 : node) (qs : desc_st nat) (posit1 : nat) :=
        match inner_desc_select true test qs nd1 with
        | Stuck => None
        | R (Some n) qs' _ => Some (Some n, nd1, Some qs', S posit1)
        | R None _ _ => pre_doc_run test k nd1 None posit1
        end in
    match q with
    | Some qs => go nd qs posit
    | None =>
      match pre_advance (climb_fuel nd) nd posit with
      | PA_stuck => None
      | PA_nil nd' posit' => Some (None, nd', None, posit')
      | PA_ok nd' posit' => go nd' inner_desc_init posit'
      end
    end
  end.

Definition pre_fuel (nd : node) : nat := climb_fuel nd + list_sum (npath nd).

Definition pre_doc_pump {St} (test : node -> bool)
           (again : pre_st St -> node -> res (pre_st St))
           (posit : nat) (nd : node) (q : option (desc_st nat)) (s : St) (cur1 : node)
  : res (pre_st St) :=
  match pre_doc_run test (pre_fuel nd) nd q posit with
  | None => Stuck
  | Some (Some n, nd', q', posit') => R (Some n) (mkPre posit' (PI_doc nd' q') s) cur1
  | Some (None, _, _, posit') => again (mkPre posit' PI_none s) cur1
  end.

(*  for {
      if p.iterator == nil {
        p.posit = 0
        node := p.Input.Select(t); if node == nil { return nil }
        node = node.Copy()
        if p.Sibling { p.iterator = func ... } else { var q query; p.iterator = func ... }
      }
      if node := p.iterator(); node != nil { return node }
      p.iterator = nil
    }                                                                     *)
Definition pre_body {St} (isel : St -> node -> res St) (sibling : bool) (test : node -> bool)
           (again : pre_st St -> node -> res (pre_st St))
           (st : pre_st St) (cur : node) : res (pre_st St) :=
  match pr_it st with
  | PI_none =>
    match isel (pr_in st) cur with
    | Stuck => Stuck
    | R None s' cur' => R None (mkPre 0 PI_none s') cur'
    | R (Some n) s' cur' =>
      if sibling then pre_sib_pump test again 0 n s' cur'
      else pre_doc_pump test again 0 n None s' cur'
    end
  | PI_sib nd => pre_sib_pump test again (pr_posit st) nd (pr_in st) cur
  | PI_doc nd q => pre_doc_pump test again (pr_posit st) nd q (pr_in st) cur
  end.
Definition pre_select {St} isel sibling test (F : nat) : pre_st St -> node -> res (pre_st St) :=
  iter_loop (pre_body isel sibling test) F.

(* ------------------------------------------------------------------ *)
(* ancestorQuery *)

(*  for node.MoveToParent() { if a.Predicate(node) { return node } }; return nil  *)
Fixpoint anc_climb (test : node -> bool) (fuel : nat) (nd : node) : option (option node * node) :=
  match fuel with
  | 0 => None
  | S k =>
    match move_parent nd with
    | None => Some (None, nd)
    | Some p => if test p then Some (Some p, p) else anc_climb test k p
    end
  end.

(* one call of the closure
     if first { first = false; if a.Self && a.Predicate(node) { return node } }
     for node.MoveToParent() { ... }; return nil                          *)
Definition anc_iter_run (self : bool) (test : node -> bool) (nd : node) (first : bool)
  : option (option node * node) :=
  if andb first (andb self (test nd)) then Some (Some nd, nd)
  else anc_climb test (climb_fuel nd) nd.

(*  for node := a.iterator(); node != nil; node = a.iterator() {
      node_id := getHashCode(node.Copy())
      if _, ok := a.table[node_id]; !ok { a.table[node_id] = true; return node }
    }
   result: None = out of fuel; Some (returned node or nil, node', table') *)
Fixpoint anc_dedup (self : bool) (test : node -> bool) (fuel : nat) (nd : node) (first : bool)
         (table : list N) : option (option node * node * list N) :=
  match fuel with
  | 0 => None
  | S k =>
    match anc_iter_run self test nd first with
    | None => None
    | Some (None, nd') => Some (None, nd', table)
    | Some (Some x, nd') =>
      let id := hcode x in
      if existsb (N.eqb id) table then anc_dedup self test k nd' false table
      else Some (Some x, nd', id :: table)
    end
  end.

Definition anc_pump {St} (self : bool) (test : node -> bool)
           (again : anc_st St -> node -> res (anc_st St))
           (nd : node) (first : bool) (table : list N) (s : St) (cur1 : node) : res (anc_st St) :=
  match anc_dedup self test (S (climb_fuel nd)) nd first table with
  | None => Stuck
  | Some (Some x, nd', table') => R (Some x) (mkAnc (NI_iter nd' false) (Some table') s) cur1
  | Some (None, _, table') => again (mkAnc NI_none (Some table') s) cur1
  end.

(*  if a.table == nil { a.table = make(map[uint64]bool) }
    for {
      if a.iterator == nil {
        node := a.Input.Select(t); if node == nil { return nil }
        first := true; node = node.Copy(); a.iterator = func ...
      }
      for node := a.iterator(); ... { ... return node }
      a.iterator = nil
    }                                                                     *)
Definition anc_body {St} (isel : St -> node -> res St) (self : bool) (test : node -> bool)
           (again : anc_st St -> node -> res (anc_st St))
           (st : anc_st St) (cur : node) : res (anc_st St) :=
  let table := match n_table st with Some m => m | None => [] end in
  match n_it st with
  | NI_none =>
    match isel (n_in st) cur with
    | Stuck => Stuck
    | R None s' cur' => R None (mkAnc NI_none (Some table) s') cur'
    | R (Some n) s' cur' => anc_pump self test again n true table s' cur'
    end
  | NI_iter nd first => anc_pump self test again nd first table (n_in st) cur
  end.
Definition anc_select {St} isel self test (F : nat) : anc_st St -> node -> res (anc_st St) :=
  iter_loop (anc_body isel self test) F.

(* ------------------------------------------------------------------ *)
(* unionQuery *)

(*  for { node := u.Left.Select(t); if node == nil { break }
          code := getHashCode(node.Copy())
          if _, ok := m[code]; !ok { m[code] = true; list = append(list, node.Copy()) } }
   result: None = out of fuel or the operand is Stuck; Some (m', list', state', t.Current()') *)
Fixpoint ucollect {X} (sel : X -> node -> res X) (fuel : nat) (s : X) (cur : node)
         (m : list N) (lst : list node) : option (list N * list node * X * node) :=
  match fuel with
  | 0 => None
  | S k =>
    match sel s cur with
    | Stuck => None
    | R None s' cur' => Some (m, lst, s', cur')
    | R (Some n) s' cur' =>
      let code := hcode n in
      if existsb (N.eqb code) m then ucollect sel k s' cur' m lst
      else ucollect sel k s' cur' (code :: m) (lst ++ [n])
    end
  end.

(*  if u.iterator == nil {
      var list; m := make(map); root := t.Current().Copy()
      for { ... u.Left ... }
      t.Current().MoveTo(root)
      for { ... u.Right ... }
      var i int; u.iterator = func ...
    }
    return u.iterator()                                                   *)
Definition union_select {L R'} (lsel : L -> node -> res L) (rsel : R' -> node -> res R')
           (F : nat) (st : union_st L R') (cur : node) : res (union_st L R') :=
  match u_it st with
  | LI_none =>
    let root := cur in
    match ucollect lsel F (u_l st) cur [] [] with
    | None => Stuck
    | Some (m1, list1, l', _) =>
      let cur2 := root in                          (* t.Current().MoveTo(root) *)
      match ucollect rsel F (u_r st) cur2 m1 list1 with
      | None => Stuck
      | Some (_, list2, r', cur3) =>
        let '(o, i') := list_next list2 0 in
        R o (mkUnion (LI_iter list2 i') l' r') cur3
      end
    end
  | LI_iter lst i =>
    let '(o, i') := list_next lst i in
    R o (mkUnion (LI_iter lst i') (u_l st) (u_r st)) cur
  end.

(* ------------------------------------------------------------------ *)
(* mergeQuery *)

(*  for node := m.Child.Select(t); node != nil; node = m.Child.Select(t) {
      list = append(list, node.Copy()) }                                  *)
Fixpoint mcollect {C} (csel : C -> node -> res C) (fuel : nat) (s : C) (cur : node)
         (lst : list node) : option (list node * C * node) :=
  match fuel with
  | 0 => None
  | S k =>
    match csel s cur with
    | Stuck => None
    | R None s' cur' => Some (lst, s', cur')
    | R (Some n) s' cur' => mcollect csel k s' cur' (lst ++ [n])
    end
  end.

Definition merge_pump {St C} (again : merge_st St C -> node -> res (merge_st St C))
           (lst : list node) (i : nat) (s : St) (ch : C) (cur1 : node) : res (merge_st St C) :=
  match list_next lst i with
  | (Some x, i') => R (Some x) (mkMerge (LI_iter lst i') s ch) cur1
  | (None, _) => again (mkMerge LI_none s ch) cur1
  end.

(*  for {
      if m.iterator == nil {
        root := m.Input.Select(t); if root == nil { return nil }
        m.Child.Evaluate(t)
        root = root.Copy()
        ctx := t.Current().Copy()
        t.Current().MoveTo(root)
        var list; for node := m.Child.Select(t); ... { list = append(list, node.Copy()) }
        t.Current().MoveTo(ctx)
        i := 0; m.iterator = func ...
      }
      if node := m.iterator(); node != nil { return node }
      m.iterator = nil
    }
   [restore] = false is the code before the repair 231c797 (no ctx / MoveTo(ctx)) *)
Definition merge_body_gen {St C} (restore : bool)
           (isel : St -> node -> res St) (csel : C -> node -> res C) (ceval : C -> C) (F : nat)
           (again : merge_st St C -> node -> res (merge_st St C))
           (st : merge_st St C) (cur : node) : res (merge_st St C) :=
  match m_it st with
  | LI_none =>
    match isel (m_in st) cur with
    | Stuck => Stuck
    | R None s' cur' => R None (mkMerge LI_none s' (m_ch st)) cur'
    | R (Some root) s' cur' =>
      let ch1 := ceval (m_ch st) in                (* m.Child.Evaluate(t) *)
      let ctx := cur' in
      let cur1 := root in                          (* t.Current().MoveTo(root) *)
      match mcollect csel F ch1 cur1 [] with
      | None => Stuck
      | Some (lst, ch2, cur2) =>
        let cur3 := if restore then ctx else cur2 in   (* t.Current().MoveTo(ctx) *)
        merge_pump again lst 0 s' ch2 cur3
      end
    end
  | LI_iter lst i => merge_pump again lst i (m_in st) (m_ch st) cur
  end.
Definition merge_body {St C} := @merge_body_gen St C true.
Definition merge_select {St C} isel csel ceval (F : nat)
  : merge_st St C -> node -> res (merge_st St C) :=
  iter_loop (merge_body isel csel ceval F) F.

(* ================================================================== *)
(* the query tree over all modelled query types *)

Variable tst : ntest -> node -> bool.

Inductive qconfig2 :=
| C2Context
| C2Absolute
| C2Child (t : ntest) (i : qconfig2)
| C2Attribute (t : ntest) (i : qconfig2)
| C2Self (t : ntest) (i : qconfig2)
| C2Parent (t : ntest) (i : qconfig2)
| C2Descendant (self : bool) (t : ntest) (i : qconfig2)
| C2Filter (nopos : bool) (pred : node -> nat -> bool) (i : qconfig2)
| C2Following (sibling : bool) (t : ntest) (i : qconfig2)
| C2Preceding (sibling : bool) (t : ntest) (i : qconfig2)
| C2Ancestor (self : bool) (t : ntest) (i : qconfig2)
| C2Group (i : qconfig2)
| C2Union (l r : qconfig2)
| C2Merge (i ch : qconfig2).

Fixpoint embed (q : qconfig) : qconfig2 :=
  match q with
  | CContext => C2Context
  | CAbsolute => C2Absolute
  | CChild t i => C2Child t (embed i)
  | CAttribute t i => C2Attribute t (embed i)
  | CSelf t i => C2Self t (embed i)
  | CParent t i => C2Parent t (embed i)
  | CDescendant self t i => C2Descendant self t (embed i)
  | CFilter np pred i => C2Filter np pred (embed i)
  end.

Fixpoint state_of2 (q : qconfig2) : Type :=
  match q with
  | C2Context | C2Absolute => nat
  | C2Child _ i => child_st (state_of2 i)
  | C2Attribute _ i => attr_st (state_of2 i)
  | C2Self _ i | C2Parent _ i => state_of2 i
  | C2Descendant _ _ i => desc_st (state_of2 i)
  | C2Filter _ _ i => filter_st (state_of2 i)
  | C2Following _ _ i => fol_st (state_of2 i)
  | C2Preceding _ _ i => pre_st (state_of2 i)
  | C2Ancestor _ _ i => anc_st (state_of2 i)
  | C2Group i => group_st (state_of2 i)
  | C2Union l r => union_st (state_of2 l) (state_of2 r)
  | C2Merge i ch => merge_st (state_of2 i) (state_of2 ch)
  end.

(* getNodePosition: childQuery, descendantQuery, filterQuery, followingQuery,
   precedingQuery, groupQuery have position() *)
Definition position_of2 (q : qconfig2) : state_of2 q -> nat :=
  match q return state_of2 q -> nat with
  | C2Child _ _ => fun s => c_posit s
  | C2Descendant _ _ _ => fun s => d_posit s
  | C2Filter _ _ _ => fun s => f_posit s
  | C2Following _ _ _ => fun s => fo_posit s
  | C2Preceding _ _ _ => fun s => pr_posit s
  | C2Group _ => fun s => g_posit s
  | _ => fun _ => 1
  end.

Definition depth_of2 (q : qconfig2) : state_of2 q -> nat :=
  match q return state_of2 q -> nat with
  | C2Descendant _ _ _ => fun s => d_level s
  | _ => fun _ => 0
  end.

(* Evaluate
     followingQuery/precedingQuery:  Input.Evaluate(t); iterator = nil
     ancestorQuery:                  Input.Evaluate(t); iterator = nil; table = nil
     groupQuery:                     posit = 0; Input.Evaluate(t)
     unionQuery:                     iterator = nil; Left.Evaluate(t); Right.Evaluate(t)
     mergeQuery:                     Input.Evaluate(t); iterator = nil   (Child is not touched) *)
Fixpoint eval_q2 (q : qconfig2) : state_of2 q -> state_of2 q :=
  match q return state_of2 q -> state_of2 q with
  | C2Context | C2Absolute => fun _ => 0
  | C2Child _ i => fun s => mkChild (c_posit s) CI_none (eval_q2 i (c_in s))
  | C2Attribute _ i => fun s => mkAttrSt AI_none (eval_q2 i (a_in s))
  | C2Self _ i | C2Parent _ i => eval_q2 i
  | C2Descendant _ _ i => fun s => mkDesc DI_none (d_posit s) (d_level s) (eval_q2 i (d_in s))
  | C2Filter _ _ i => fun s => mkFilter 0 None (eval_q2 i (f_in s))
  | C2Following _ _ i => fun s => mkFol (fo_posit s) FI_none (eval_q2 i (fo_in s))
  | C2Preceding _ _ i => fun s => mkPre (pr_posit s) PI_none (eval_q2 i (pr_in s))
  | C2Ancestor _ _ i => fun s => mkAnc NI_none None (eval_q2 i (n_in s))
  | C2Group i => fun s => mkGroup 0 (eval_q2 i (g_in s))
  | C2Union l r => fun s => mkUnion LI_none (eval_q2 l (u_l s)) (eval_q2 r (u_r s))
  | C2Merge i ch => fun s => mkMerge LI_none (eval_q2 i (m_in s)) (m_ch s)
  end.

(* Select *)
Fixpoint sel_q2 (F : nat) (q : qconfig2) : state_of2 q -> node -> res (state_of2 q) :=
  match q return state_of2 q -> node -> res (state_of2 q) with
  | C2Context => ctx_select
  | C2Absolute => abs_select
  | C2Child t i => child_select D (sel_q2 F i) (tst t) F
  | C2Attribute t i => attr_select D (sel_q2 F i) (tst t) F
  | C2Self t i => self_select (sel_q2 F i) (tst t) F
  | C2Parent t i => parent_select (sel_q2 F i) (tst t) F
  | C2Descendant self t i => desc_select D (sel_q2 F i) self (tst t) F
  | C2Filter _ pred i => filter_select (sel_q2 F i) (position_of2 i) (depth_of2 i) pred F
  | C2Following sibling t i => fol_select (sel_q2 F i) sibling (tst t) F
  | C2Preceding sibling t i => pre_select (sel_q2 F i) sibling (tst t) F
  | C2Ancestor self t i => anc_select (sel_q2 F i) self (tst t) F
  | C2Group i => group_select (sel_q2 F i)
  | C2Union l r => union_select (sel_q2 F l) (sel_q2 F r) F
  | C2Merge i ch => merge_select (sel_q2 F i) (sel_q2 F ch) (eval_q2 ch) F
  end.

Fixpoint init_q2 (q : qconfig2) : state_of2 q :=
  match q return state_of2 q with
  | C2Context | C2Absolute => 0
  | C2Child _ i => mkChild 0 CI_none (init_q2 i)
  | C2Attribute _ i => mkAttrSt AI_none (init_q2 i)
  | C2Self _ i | C2Parent _ i => init_q2 i
  | C2Descendant _ _ i => mkDesc DI_none 0 0 (init_q2 i)
  | C2Filter _ _ i => mkFilter 0 None (init_q2 i)
  | C2Following _ _ i => mkFol 0 FI_none (init_q2 i)
  | C2Preceding _ _ i => mkPre 0 PI_none (init_q2 i)
  | C2Ancestor _ _ i => mkAnc NI_none None (init_q2 i)
  | C2Group i => mkGroup 0 (init_q2 i)
  | C2Union l r => mkUnion LI_none (init_q2 l) (init_q2 r)
  | C2Merge i ch => mkMerge LI_none (init_q2 i) (init_q2 ch)
  end.

Fixpoint clone_cfg2 (q : qconfig2) : qconfig2 :=
  match q with
  | C2Context => C2Context
  | C2Absolute => C2Absolute
  | C2Child t i => C2Child t (clone_cfg2 i)
  | C2Attribute t i => C2Attribute t (clone_cfg2 i)
  | C2Self t i => C2Self t (clone_cfg2 i)
  | C2Parent t i => C2Parent t (clone_cfg2 i)
  | C2Descendant self t i => C2Descendant self t (clone_cfg2 i)
  | C2Filter _ pred i => C2Filter false pred (clone_cfg2 i)
  | C2Following sb t i => C2Following sb t (clone_cfg2 i)
  | C2Preceding sb t i => C2Preceding sb t (clone_cfg2 i)
  | C2Ancestor self t i => C2Ancestor self t (clone_cfg2 i)
  | C2Group i => C2Group (clone_cfg2 i)
  | C2Union l r => C2Union (clone_cfg2 l) (clone_cfg2 r)
  | C2Merge i ch => C2Merge (clone_cfg2 i) (clone_cfg2 ch)
  end.

Definition qstate2 : Type := { q : qconfig2 & state_of2 q }.
Definition config_of2 (st : qstate2) : qconfig2 := projT1 st.
Definition fresh2 (q : qconfig2) : qstate2 := existT _ q (init_q2 q).

(* Clone, field by field:
     &followingQuery{Input: f.Input.Clone(), Sibling, Predicate}    &precedingQuery{...}
     &ancestorQuery{name, Self, Input: a.Input.Clone(), Predicate}
     &groupQuery{Input: g.Input.Clone()}
     &unionQuery{Left: u.Left.Clone(), Right: u.Right.Clone()}
     &mergeQuery{Input: m.Input.Clone(), Child: m.Child.Clone()}  *)
Fixpoint clone_q2 (q : qconfig2) : state_of2 q -> qstate2 :=
  match q return state_of2 q -> qstate2 with
  | C2Context => fun _ => existT state_of2 C2Context 0
  | C2Absolute => fun _ => existT state_of2 C2Absolute 0
  | C2Child t i => fun s =>
      let r := clone_q2 i (c_in s) in
      existT state_of2 (C2Child t (projT1 r)) (mkChild 0 CI_none (projT2 r))
  | C2Attribute t i => fun s =>
      let r := clone_q2 i (a_in s) in
      existT state_of2 (C2Attribute t (projT1 r)) (mkAttrSt AI_none (projT2 r))
  | C2Self t i => fun s =>
      let r := clone_q2 i s in existT state_of2 (C2Self t (projT1 r)) (projT2 r)
  | C2Parent t i => fun s =>
      let r := clone_q2 i s in existT state_of2 (C2Parent t (projT1 r)) (projT2 r)
  | C2Descendant self t i => fun s =>
      let r := clone_q2 i (d_in s) in
      existT state_of2 (C2Descendant self t (projT1 r)) (mkDesc DI_none 0 0 (projT2 r))
  | C2Filter _ pred i => fun s =>
      let r := clone_q2 i (f_in s) in
      existT state_of2 (C2Filter false pred (projT1 r)) (mkFilter 0 None (projT2 r))
  | C2Following sb t i => fun s =>
      let r := clone_q2 i (fo_in s) in
      existT state_of2 (C2Following sb t (projT1 r)) (mkFol 0 FI_none (projT2 r))
  | C2Preceding sb t i => fun s =>
      let r := clone_q2 i (pr_in s) in
      existT state_of2 (C2Preceding sb t (projT1 r)) (mkPre 0 PI_none (projT2 r))
  | C2Ancestor self t i => fun s =>
      let r := clone_q2 i (n_in s) in
      existT state_of2 (C2Ancestor self t (projT1 r)) (mkAnc NI_none None (projT2 r))
  | C2Group i => fun s =>
      let r := clone_q2 i (g_in s) in
      existT state_of2 (C2Group (projT1 r)) (mkGroup 0 (projT2 r))
  | C2Union l r => fun s =>
      let a := clone_q2 l (u_l s) in
      let b := clone_q2 r (u_r s) in
      existT state_of2 (C2Union (projT1 a) (projT1 b)) (mkUnion LI_none (projT2 a) (projT2 b))
  | C2Merge i ch => fun s =>
      let a := clone_q2 i (m_in s) in
      let b := clone_q2 ch (m_ch s) in
      existT state_of2 (C2Merge (projT1 a) (projT1 b)) (mkMerge LI_none (projT2 a) (projT2 b))
  end.

Definition select2 (F : nat) (st : qstate2) (cur : node) : res qstate2 :=
  match sel_q2 F (projT1 st) (projT2 st) cur with
  | Stuck => Stuck
  | R o s' cur' => R o (existT _ (projT1 st) s') cur'
  end.
Definition evaluate2 (st : qstate2) : qstate2 :=
  existT _ (projT1 st) (eval_q2 (projT1 st) (projT2 st)).
Definition clone2 (st : qstate2) : qstate2 := clone_q2 (projT1 st) (projT2 st).
Definition position2 (st : qstate2) : nat := position_of2 (projT1 st) (projT2 st).
Definition depth2 (st : qstate2) : nat := depth_of2 (projT1 st) (projT2 st).

(* Select in a loop, t.Current() being whatever the previous call left *)
Fixpoint run2 (F : nat) (n : nat) (st : qstate2) (cur : node) : list item * ending * qstate2 * node :=
  match n with
  | 0 => ([], E_more, st, cur)
  | S k =>
    match select2 F st cur with
    | Stuck => ([], E_stuck, st, cur)
    | R None st' cur' => ([], E_nil, st', cur')
    | R (Some x) st' cur' =>
      let '(l, e, st'', cur'') := run2 F k st' cur' in
      (mkItem x (position2 st') (depth2 st') :: l, e, st'', cur'')
    end
  end.
Definition drain_items2 (F n : nat) (st : qstate2) (cur : node) : list item :=
  fst (fst (fst (run2 F n st cur))).
Definition drain2 (F n : nat) (st : qstate2) (cur : node) : list node :=
  map it_node (drain_items2 F n st cur).

(* NodeIterator.MoveNext in a loop: t.Current() moves to every node returned *)
Definition move_next_it2 (F : nat) (st : qstate2) (cur : node) : res qstate2 :=
  match select2 F st cur with
  | Stuck => Stuck
  | R None st' cur' => R None st' cur'
  | R (Some x) st' _ => R (Some x) st' x
  end.
Fixpoint run_iter2 (F : nat) (n : nat) (st : qstate2) (cur : node)
  : list item * ending * qstate2 * node :=
  match n with
  | 0 => ([], E_more, st, cur)
  | S k =>
    match move_next_it2 F st cur with
    | Stuck => ([], E_stuck, st, cur)
    | R None st' cur' => ([], E_nil, st', cur')
    | R (Some x) st' cur' =>
      let '(l, e, st'', cur'') := run_iter2 F k st' cur' in
      (mkItem x (position2 st') (depth2 st') :: l, e, st'', cur'')
    end
  end.
Definition iterate_items2 (F n : nat) (st : qstate2) (cur : node) : list item :=
  fst (fst (fst (run_iter2 F n st cur))).
Definition iterate2 (F n : nat) (st : qstate2) (cur : node) : list node :=
  map it_node (iterate_items2 F n st cur).

End M2.
