(* Proofs/EndToEndNumFns.v — property C08, the numeric functions, end to end
   at the level of TEXTS.

   Operand E: a number literal, a string literal, or a predicate-free location
   path; [opval E c m] is what E is worth at c and [as_number D m] its number:
   the literal, [string_to_number] of the string, or [string_to_number] of the
   string-value of the FIRST node (NaN for an empty node-set).
     number(E)     that number
     floor(E)      [ffloor] of it      (IEEE: NaN -> NaN, infinities and zeros kept)
     ceiling(E)    [fceil] of it
     sum(E)        a path: the binary64 sum, from +0 in sequence order, of the
                   numbers of the string-values of the nodes, the NaN ones SKIPPED;
                   a number: itself; a string: its number, a complaint when NaN
     count(E)      a path: the length of the node sequence; a literal: 0 *)
From XP Require Import Base F64 Doc Ast Scan Parse Build Hash Eval Api.
From XP.Spec Require Import Axes Paths Values.
From XP.Proofs Require Import ParseTerm ScanTokens RoundTripOps RoundTripPaths
                              HashInj AxesSound PathSem BuildPath BuildFacts Compare Arith CountReverse
                              BuildOps EndToEndPaths EndToEndPred EndToEndPos EndToEndValues EndToEndBool.
Require Import Lia ZArith.
Open Scope string_scope.
Open Scope nat_scope.
Open Scope list_scope.

Section Num.
Variable D : tree.
Variable has_ns : bool.
Variable hc : tree -> node -> N.
Variable rm : string -> string -> option bool.
Variable rn : string -> nat.
Variable rr : string -> string -> string -> string.
Hypothesis Hhash : hash_ok (hc D) (all_nodes D).
Variable re_ok : string -> bool.
Variable ns : nsmap.

Notation EVALUATE := (evaluate rm rn rr hc D has_ns).
Notation EVAL := (eval D has_ns (hc D) rm rn rr).
Notation OPVAL := (EndToEndValues.opval D has_ns).

(* the number of an operand *)
Definition opnum (o : px) (m : value) : Prop :=
  match o with
  | XNum ds => as_number D m = lit_f ds
  | RoundTripPaths.XStr b => as_number D m = string_to_number b
  | _ => exists l, m = VNodes l /\
         as_number D m = match l with
                         | [] => fnan
                         | i :: _ => string_to_number (node_value D (it_node i))
                         end
  end.

Lemma opval_opnum : forall o c m, OPVAL o c m -> opnum o m.
Proof.
  intros o c m H. destruct o; cbn [EndToEndValues.opval opnum] in *; try (subst m; reflexivity);
    destruct H as (l & -> & _); exists l; (split; [reflexivity|]); destruct l; reflexivity.
Qed.

Definition num1_table : list (string * fn1) :=
  [("number", FNumber); ("floor", FFloor); ("ceiling", FCeiling)].

Definition num1 (F : fn1) (x : f64) : f64 :=
  match F with FFloor => ffloor x | FCeiling => fceil x | _ => x end.

(** number(E), floor(E), ceiling(E) *)
Theorem C08_text_number_floor_ceiling : forall fn F l,
  In (fn, F) num1_table -> is_operand_px l ->
  xok (XCall fn (AOne l)) -> 1 + osize l <= max_build_depth ->
  exists q,
    compile re_ok (print_min (XCall fn (AOne l))) ns = Ok q /\
    compile re_ok (print_sp (XCall fn (AOne l))) ns = Ok q /\
    forall c, valid D c = true ->
    exists m, OPVAL l c m /\ opnum l m /\
      EVALUATE q c = Val (VNum (num1 F (as_number D m))).
Proof.
  intros fn F l Hin Hl Hok Hsl.
  assert (Hin2 : In (fn, F) fn1_table2).
  { cbn [num1_table In] in Hin. cbn [fn1_table2 In].
    destruct Hin as [H|[H|[H|[]]]]; inversion H; subst; tauto. }
  destruct (call1_text2 D has_ns hc rm rn rr Hhash re_ok ns fn F l Hin2 Hl Hok Hsl) as (q1 & C1 & C2 & HV).
  exists (QFn1 F q1). split; [exact C1|]. split; [exact C2|].
  intros c Hc. destruct (HV c Hc) as (m & Em & Hm).
  exists m. split; [exact Hm|]. split; [exact (opval_opnum l c m Hm)|].
  apply (evaluate_scalar D has_ns hc rm rn rr); [|discriminate].
  cbn [num1_table In] in Hin.
  destruct Hin as [H|[H|[H|[]]]]; inversion H; subst fn F; cbn [num1].
  - apply (eval_number D has_ns (hc D) rm rn rr q1 c m Em).
  - apply (eval_floor D has_ns (hc D) rm rn rr q1 c m Em).
  - apply (eval_ceiling D has_ns (hc D) rm rn rr q1 c m Em).
Qed.

(* the sum of a node sequence: the NaN string-values are skipped *)
Definition sum_values (vs : list string) : f64 :=
  fold_left (fun acc s => let x := string_to_number s in if is_nan x then acc else fadd acc x) vs fzero.

Definition sum_outcome (m : value) : outcome value :=
  match m with
  | VNodes l => Val (VNum (sum_values (values_of D l)))
  | VNum f => Val (VNum f)
  | VStr s => let x := string_to_number s in
              if is_nan x then Complaint "sum() function argument type must be a node-set or number"
              else Val (VNum x)
  | _ => Val (VNum fzero)
  end.

(** sum(E) *)
Theorem C08_text_sum : forall l,
  is_operand_px l -> xok (XCall "sum" (AOne l)) -> 1 + osize l <= max_build_depth ->
  exists q,
    compile re_ok (print_min (XCall "sum" (AOne l))) ns = Ok q /\
    compile re_ok (print_sp (XCall "sum" (AOne l))) ns = Ok q /\
    forall c, valid D c = true ->
    exists m, OPVAL l c m /\ EVALUATE q c = sum_outcome m.
Proof.
  intros l Hl Hok Hsl.
  destruct (call1_text2 D has_ns hc rm rn rr Hhash re_ok ns "sum" FSum l ltac:(cbn; tauto) Hl Hok Hsl)
    as (q1 & C1 & C2 & HV).
  exists (QFn1 FSum q1). split; [exact C1|]. split; [exact C2|].
  intros c Hc. destruct (HV c Hc) as (m & Em & Hm).
  exists m. split; [exact Hm|].
  assert (HE : EVAL (QFn1 FSum q1) c = sum_outcome m).
  { rewrite (eval_fn1_arith_eq D has_ns (hc D) rm rn rr FSum q1 c I), Em. cbn [obind].
    destruct m; reflexivity. }
  rewrite <- HE. apply (evaluate_other D has_ns hc rm rn rr).
  intros l0 Hl0. rewrite HE in Hl0. destruct m; cbn [sum_outcome] in Hl0; try discriminate Hl0.
  cbv zeta in Hl0. destruct (is_nan (string_to_number s)); discriminate Hl0.
Qed.

(* for a path: the sum over the string-values of the selected nodes *)
Corollary C08_text_sum_path : forall p,
  path_syntax p -> is_operand_px p -> xok (XCall "sum" (AOne p)) -> 1 + osize p <= max_build_depth ->
  exists q,
    compile re_ok (print_min (XCall "sum" (AOne p))) ns = Ok q /\
    forall c, valid D c = true ->
    exists l, (forall n, In n (nodes_of l) <->
                 path_den D has_ns (snd (steps_of p)) (if fst (steps_of p) then root_node else c) n) /\
      EVALUATE q c = Val (VNum (sum_values (values_of D l))).
Proof.
  intros p Hp Ho Hok Hs.
  destruct (C08_text_sum p Ho Hok Hs) as (q & C & _ & HV).
  exists q. split; [exact C|]. intros c Hc. destruct (HV c Hc) as (m & Hm & HE).
  destruct p; try (destruct Hp as [r0 Hr0]; discriminate Hr0).
  cbn [EndToEndValues.opval] in Hm. destruct Hm as (l & -> & Hin).
  exists l. split; [exact Hin|exact HE].
Qed.

(** count(E): the length of the node sequence of a path; 0 for a literal *)
Theorem C08_text_count : forall l,
  is_operand_px l -> xok (XCall "count" (AOne l)) -> 1 + osize l <= max_build_depth ->
  exists q,
    compile re_ok (print_min (XCall "count" (AOne l))) ns = Ok q /\
    compile re_ok (print_sp (XCall "count" (AOne l))) ns = Ok q /\
    forall c, valid D c = true ->
    exists m, OPVAL l c m /\
      EVALUATE q c = Val (VNum (match m with
                                | VNodes l0 => of_Z (Z.of_nat (List.length l0))
                                | _ => fzero
                                end)).
Proof.
  intros l Hl Hok Hsl.
  destruct (call1_text2 D has_ns hc rm rn rr Hhash re_ok ns "count" FCount l ltac:(cbn; tauto) Hl Hok Hsl)
    as (q1 & C1 & C2 & HV).
  exists (QFn1 FCount q1). split; [exact C1|]. split; [exact C2|].
  intros c Hc. destruct (HV c Hc) as (m & Em & Hm).
  exists m. split; [exact Hm|].
  apply (evaluate_scalar D has_ns hc rm rn rr); [|discriminate].
  destruct m as [b|f|s|l0|z|];
    try (apply (eval_count_other D has_ns (hc D) rm rn rr q1 c _ Em); discriminate).
  apply (count_is_length D has_ns (hc D) rm rn rr q1 c l0 Em).
Qed.

End Num.

Print Assumptions C08_text_number_floor_ceiling.
Print Assumptions C08_text_sum.
Print Assumptions C08_text_sum_path.
Print Assumptions C08_text_count.

(* ------------------------------------------------------------------ *)
(** * Examples                                                          *)
(* ------------------------------------------------------------------ *)
Module Examples.
Import AxesSound.Examples EndToEndPaths.Examples EndToEndValues.Examples.

(*   <a x="1" y="2"> <b>t</b> <c z="3"><d/><!--k--></c> <e/> </a>   *)
Definition p_aat : px := XPath PRel (RCons (st_child "a") false (ROne (SAxis AxAt NStar PNil))).
Definition p_astar : px := XPath PRel (RCons (st_child "a") false (ROne (SAxis AxChild NStar PNil))).

(* number('abc') is NaN: by the theorem and the characterisation of string_to_number *)
Example number_abc :
  print_min (XCall "number" (AOne (RoundTripPaths.XStr "abc"))) = "number('abc')" /\
  exists q, compile Api.lit_ok "number('abc')" None = Ok q /\ EVx q root_node = Val (VNum fnan).
Proof.
  split; [vm_compute; reflexivity|].
  destruct (C08_text_number_floor_ceiling exD true hash_code lit_match lit_numsubexp lit_replace_all hx
              Api.lit_ok None "number" FNumber (RoundTripPaths.XStr "abc") ltac:(cbn; tauto) I
              ltac:(vm_compute; reflexivity) ltac:(vm_compute; lia)) as (q & C & _ & HV).
  replace (print_min (XCall "number" (AOne (RoundTripPaths.XStr "abc")))) with "number('abc')" in C
    by (vm_compute; reflexivity).
  exists q. split; [exact C|].
  destruct (HV root_node eq_refl) as (m & Hm & Hn & HE). cbn [opnum num1] in *.
  rewrite HE, Hn. vm_compute. reflexivity.
Qed.

Example floor_path :
  print_min (XCall "floor" (AOne p_ay)) = "floor(a/@y)" /\
  exists q, compile Api.lit_ok "floor(a/@y)" None = Ok q /\ EVx q root_node = Val (VNum (of_Z 2)).
Proof.
  split; [vm_compute; reflexivity|].
  destruct (C08_text_number_floor_ceiling exD true hash_code lit_match lit_numsubexp lit_replace_all hx
              Api.lit_ok None "floor" FFloor p_ay ltac:(cbn; tauto) (op_path p_ay eq_refl)
              ltac:(vm_compute; reflexivity) ltac:(vm_compute; lia)) as (q & C & _ & HV).
  replace (print_min (XCall "floor" (AOne p_ay))) with "floor(a/@y)" in C by (vm_compute; reflexivity).
  exists q. split; [exact C|]. vm_compute in C. inversion C; subst q. vm_compute. reflexivity.
Qed.

(* the sum of the attributes of a is 1 + 2; the sum of the children of a is 0 (no
   child has a numeric string-value); a has 3 element children; count of a
   string is 0; sum of a non-numeric string complains *)
Example sum_count_examples :
  print_min (XCall "sum" (AOne p_aat)) = "sum(a/@*)" /\
  (exists q, compile Api.lit_ok "sum(a/@*)" None = Ok q /\ EVx q root_node = Val (VNum (of_Z 3))) /\
  (exists q, compile Api.lit_ok "sum(a/*)" None = Ok q /\ EVx q root_node = Val (VNum fzero)) /\
  (exists q, compile Api.lit_ok "count(a/*)" None = Ok q /\ EVx q root_node = Val (VNum (of_Z 3))) /\
  (exists q, compile Api.lit_ok "count('x')" None = Ok q /\ EVx q root_node = Val (VNum fzero)) /\
  (exists q msg, compile Api.lit_ok "sum('x')" None = Ok q /\ EVx q root_node = Complaint msg) /\
  (exists q, compile Api.lit_ok "ceiling('1.5')" None = Ok q /\ EVx q root_node = Val (VNum (of_Z 2))) /\
  (exists q, compile Api.lit_ok "floor(a/zz)" None = Ok q /\ EVx q root_node = Val (VNum fnan)).
Proof.
  split; [vm_compute; reflexivity|]. split; [|split; [|split]].
  - destruct (C08_text_sum_path exD true hash_code lit_match lit_numsubexp lit_replace_all hx Api.lit_ok None
                p_aat (path_syntax_b_ok p_aat eq_refl) (op_path p_aat eq_refl)
                ltac:(vm_compute; reflexivity) ltac:(vm_compute; lia)) as (q & C & HV).
    replace (print_min (XCall "sum" (AOne p_aat))) with "sum(a/@*)" in C by (vm_compute; reflexivity).
    exists q. split; [exact C|]. vm_compute in C. inversion C; subst q. vm_compute. reflexivity.
  - eexists. split; [vm_compute; reflexivity|]. vm_compute. reflexivity.
  - destruct (C08_text_count exD true hash_code lit_match lit_numsubexp lit_replace_all hx Api.lit_ok None
                p_astar (op_path p_astar eq_refl) ltac:(vm_compute; reflexivity) ltac:(vm_compute; lia))
      as (q & C & _ & HV).
    replace (print_min (XCall "count" (AOne p_astar))) with "count(a/*)" in C by (vm_compute; reflexivity).
    exists q. split; [exact C|]. vm_compute in C. inversion C; subst q. vm_compute. reflexivity.
  - split; [|split; [|split]].
    + eexists. split; [vm_compute; reflexivity|]. vm_compute. reflexivity.
    + eexists. eexists. split; [vm_compute; reflexivity|]. vm_compute. reflexivity.
    + eexists. split; [vm_compute; reflexivity|]. vm_compute. reflexivity.
    + eexists. split; [vm_compute; reflexivity|]. vm_compute. reflexivity.
Qed.

End Examples.
