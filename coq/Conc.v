(* Conc.v — definitions for property C05 (concurrent use of the engine).

   Part 1: the checker [effects_ok] over the table of effect facts that
           go/cmd/geneffects extracts from the Go sources (Generated/Effects.v).
   Part 2: a small abstract model of threads running under an arbitrary
           interleaving, the ownership DISCIPLINE the engine's design follows,
           and the definitions of "race" and of a thread's observations.
   Proofs are in Proofs/ConcProofs.v, the property statements in Props/C05.v. *)
From Coq Require Import List String Bool Arith.
Import ListNotations.

(* ------------------------------------------------------------------ *)
(* Part 1: the effect facts and their checker                          *)
(* ------------------------------------------------------------------ *)

Record effects := mkEffects {
  (* (function, package-level variable) written after initialisation *)
  e_pkgvar_writes : list (string * string);
  (* (build-time function, variable of it) written by a closure that outlives the build *)
  e_buildtime_capture_writes : list (string * string);
  (* (build-time function, captured query) evaluated in place, without Clone *)
  e_buildtime_capture_direct_evals : list (string * string);
  (* allowed: writes of closures created during one evaluation *)
  e_calltime_capture_writes : list (string * string);
  (* (method of Expr, this use of .q is exactly .q.Clone()) *)
  e_expr_q_uses : list (string * bool);
  (* (receiver type of a Clone method, field, classification) *)
  e_clone_fields : list (string * string * string);
  (* (receiver type, method writing a field of its receiver) *)
  e_recv_field_writes : list (string * string);
  (* (access to the cache map, it is inside a sufficient lock bracket) *)
  e_cache_accesses : list (string * bool)
}.

Definition is_nil {A} (l : list A) : bool := match l with [] => true | _ => false end.

Definition mem_str (s : string) (l : list string) : bool := existsb (String.eqb s) l.

(* One row of clone_fields.  Sub-queries must be "cloned"; plain data is "value";
   "fresh" marks the new literal itself; "nil-guarded" is a query field omitted under
   `if recv.F == nil`; a Clone that returns its receiver is accepted only for a type
   none of whose methods writes a receiver field (and the translator adds a "shared"
   row for every sub-query of such a type).  Everything else ("shared", "absent",
   "ref", "opaque", unknown words) is rejected. *)
Definition clone_row_ok (writers : list string) (r : string * string * string) : bool :=
  let '(ty, _, cls) := r in
  if mem_str cls ["cloned"; "value"; "fresh"; "nil-guarded"]%string then true
  else if String.eqb cls "returns-self" then negb (mem_str ty writers)
  else false.

Definition effects_ok (e : effects) : bool :=
  is_nil (e_pkgvar_writes e)
  && is_nil (e_buildtime_capture_writes e)
  && is_nil (e_buildtime_capture_direct_evals e)
  (* every use of Expr.q is q.Clone(), and Select and Evaluate were actually seen *)
  && forallb snd (e_expr_q_uses e)
  && mem_str "Select" (map fst (e_expr_q_uses e))
  && mem_str "Evaluate" (map fst (e_expr_q_uses e))
  (* every Clone is a deep copy *)
  && negb (is_nil (e_clone_fields e))
  && forallb (clone_row_ok (map fst (e_recv_field_writes e))) (e_clone_fields e)
  (* every access to the regexp cache map is under its lock *)
  && negb (is_nil (e_cache_accesses e))
  && forallb snd (e_cache_accesses e).

(* ------------------------------------------------------------------ *)
(* Part 2: the concurrency model                                       *)
(* ------------------------------------------------------------------ *)

Definition tid := nat.
Definition loc := nat.
Definition value := nat.

(* Who may touch a memory location.
   Shared      : built by Compile, immutable afterwards (the query tree expr.q, the
                 closures of func.go and what they captured, package-level tables);
   Owned t     : belongs to evaluation t alone (its Clone of the tree, its navigator,
                 the variables of the closures its Select methods create);
   Locked      : only touched inside the cache's mutex (the regexp cache map). *)
Inductive owner := Shared | Owned (t : tid) | Locked.

(* A thread is a deterministic straight-line program.  The value stored by a write is
   a function of everything the thread has observed so far. *)
Inductive action :=
| Read (l : loc)
| Write (l : loc) (f : list value -> value)
| LockedAccess (l : loc).

Definition prog := list action.

Definition acc_loc (a : action) : loc :=
  match a with Read l => l | Write l _ => l | LockedAccess l => l end.
Definition is_write (a : action) : bool :=
  match a with Read _ => false | _ => true end.   (* a locked access may update *)
Definition is_locked (a : action) : bool :=
  match a with LockedAccess _ => true | _ => false end.

Section Model.
  Variable own : loc -> owner.
  (* what a locked access returns to its caller: for the regexp cache this is `load k`,
     the same under every interleaving (Props/C16: C16_get_returns_load). *)
  Variable lockres : loc -> value.

  (* the DISCIPLINE *)
  Definition ok_action (t : tid) (a : action) : Prop :=
    match a with
    | Read l => own l = Shared \/ own l = Owned t
    | Write l _ => own l = Owned t
    | LockedAccess l => own l = Locked
    end.
  Definition respects (t : tid) (p : prog) : Prop := Forall (ok_action t) p.

  (* interleaving semantics *)
  Record state := mkState {
    store : loc -> value;
    thr : tid -> prog * list value;   (* what is left to run, observations (newest first) *)
    trace : list (tid * action)       (* accesses performed (newest first) *)
  }.

  Definition upd {A} (f : nat -> A) (k : nat) (v : A) : nat -> A :=
    fun x => if Nat.eqb x k then v else f x.

  Definition init (progs : tid -> prog) (st0 : loc -> value) : state :=
    mkState st0 (fun t => (progs t, [])) [].

  (* thread t performs its next action atomically (no-op when it has finished) *)
  Definition step (s : state) (t : tid) : state :=
    match thr s t with
    | ([], _) => s
    | (a :: p, h) =>
      match a with
      | Read l => mkState (store s) (upd (thr s) t (p, store s l :: h)) ((t, a) :: trace s)
      | Write l f => mkState (upd (store s) l (f h)) (upd (thr s) t (p, h)) ((t, a) :: trace s)
      | LockedAccess l =>
        (* the protected object changes in a schedule-dependent way (here: it counts its
           accesses) but the caller observes lockres l *)
        mkState (upd (store s) l (S (store s l))) (upd (thr s) t (p, lockres l :: h)) ((t, a) :: trace s)
      end
    end.

  Definition run (progs : tid -> prog) (st0 : loc -> value) (sched : list tid) : state :=
    fold_left step sched (init progs st0).

  Definition observed (s : state) (t : tid) : list value := snd (thr s t).
  Definition finished (s : state) (t : tid) : Prop := fst (thr s t) = [].

  (* the schedule in which only t runs, taking as many steps as it takes in sched *)
  Definition alone (t : tid) (sched : list tid) : list tid := filter (Nat.eqb t) sched.
End Model.

(* Two accesses conflict: different threads, same location, one of them writes, and they
   are not both protected by the lock.  (No happens-before edges are credited to the lock,
   so this is stronger than race freedom in the Go memory model.) *)
Definition conflict (e1 e2 : tid * action) : Prop :=
  fst e1 <> fst e2 /\
  acc_loc (snd e1) = acc_loc (snd e2) /\
  (is_write (snd e1) = true \/ is_write (snd e2) = true) /\
  (is_locked (snd e1) = false \/ is_locked (snd e2) = false).

Definition race (tr : list (tid * action)) : Prop :=
  exists e1 e2, In e1 tr /\ In e2 tr /\ conflict e1 e2.
