// xh is the Go side of the correspondence check: it generates cases and runs
// them on the implementation built from /repo's working tree (-tags verif).
package main

import (
	"bufio"
	"fmt"
	"os"
)

func usage() {
	fmt.Fprintln(os.Stderr, "usage: xh run <cases> | xh gen <property> <seed> <tier> <out> | xh race ... | xh cache ... | xh deep ...")
	os.Exit(2)
}

func main() {
	if len(os.Args) < 2 {
		usage()
	}
	switch os.Args[1] {
	case "run":
		w := bufio.NewWriterSize(os.Stdout, 1<<16)
		err := runCases(os.Args[2], w)
		w.Flush()
		if err != nil {
			fmt.Fprintln(os.Stderr, "xh run:", err)
			os.Exit(3)
		}
	case "gen":
		if len(os.Args) != 6 {
			usage()
		}
		if err := genCases(os.Args[2], os.Args[3], os.Args[4], os.Args[5]); err != nil {
			fmt.Fprintln(os.Stderr, "xh gen:", err)
			os.Exit(3)
		}
	default:
		if !extraCommand(os.Args[1], os.Args[2:]) {
			usage()
		}
	}
}
