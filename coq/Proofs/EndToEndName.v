(* Proofs/EndToEndName.v — property C14, end to end, at the level of TEXTS.

   One-step texts
       child::NAME      child::*      attribute::NAME      (inside the
                                       round-trip grammar: EndToEndPaths)
       child::PFX:NAME  child::PFX:*                        (scanned and
                                       parsed here, sections 1-2)
   compile, and Select from a context node c returns exactly the children
   (attributes) of c that pass the documented test (NameTest.match_test_table):
   node type, local name, and namespace URI (with a namespace map binding the
   prefix and a navigator that reports URIs) or prefix (otherwise).

   name(.)  local-name(.)  namespace-uri(.)  compile and evaluate to the
   model's documented strings (NameTest.name_fn) of the context node. *)
From XP Require Import Base F64 Doc Ast Scan Parse Build Hash Eval Api.
From XP.Spec Require Import Axes Paths.
From XP.Proofs Require Import ParseTerm ScanTokens RoundTripOps RoundTripPaths
                              DocOrder HashInj AxesSound PathSem BuildPath BuildFacts NameTest
                              BuildOps EndToEndPaths EndToEndPred.
Require Import Lia NArith.
Open Scope string_scope.
Open Scope nat_scope.
Open Scope list_scope.

(* ------------------------------------------------------------------ *)
(** * 1. Scanner: an axis name, a qualified name, a prefixed star       *)
(* ------------------------------------------------------------------ *)

Lemma list_of_string_app : forall a b,
  list_of_string (a ++ b) = list_of_string a ++ list_of_string b.
Proof. induction a as [|c a IH]; intros b; cbn; [reflexivity|]. f_equal. apply IH. Qed.

Definition colon : ascii := ":"%char.
Definition star_c : ascii := "*"%char.

Lemma name_ok_head : forall nm, name_ok nm = true ->
  exists c r, list_of_string nm = c :: r /\ (97 <= bN c <= 122)%N /\ name_char c = true.
Proof.
  intros nm H. destruct (name_ok_inv nm H) as [c [r [E [Hc Hr]]]].
  exists c, r. split; [exact E|]. split; [nb; lia|]. unfold name_char. rewrite Hc. reflexivity.
Qed.

Lemma lower_nonsp : forall c, (97 <= bN c <= 122)%N -> nonsp c = true.
Proof.
  intros c H. unfold nonsp, asc, space_rune_ascii.
  replace (N.ltb (bN c) 128) with true by (symmetry; apply N.ltb_lt; lia).
  replace (N.leb (bN c) 13) with false by (symmetry; apply N.leb_gt; lia).
  replace (N.eqb (bN c) 32) with false by (symmetry; apply N.eqb_neq; lia).
  rewrite Bool.andb_false_r. reflexivity.
Qed.

(* the common prefix of the three cases: a name has been read *)
Lemma next_item_name_prefix : forall s nm rest,
  name_ok nm = true -> hd_ok not_name_hd rest ->
  s_rest s = list_of_string nm ++ rest ->
  next_item s =
  (let finish (t : itype) (nm0 pre : string) (r' : list ascii) :=
       let r'' := skipsp r' in
       Ok (mkS r'' t nm0 pre (s_strval s) (s_numval s) (N.eqb (cur r'') 40)) in
   if N.eqb (cur rest) 58 then
     let r1 := advance rest in
     if N.eqb (cur r1) 58 then finish IAxe nm "" (advance r1)
     else if N.eqb (cur r1) 42 then finish IName "*" nm (advance r1)
     else if is_name_rune (cur r1) then
       let '(name2, r2) := scan_name r1 in finish IName name2 nm r2
     else Err "has an invalid qualified name."
   else
     let r1 := skipsp rest in
     if N.eqb (cur r1) 58 then
       let r2 := advance r1 in
       if N.eqb (cur r2) 58 then finish IAxe nm "" (advance r2)
       else Err "has an invalid qualified name."
     else finish IName nm "" r1).
Proof.
  intros s nm rest Hn Hr Hs.
  destruct (name_ok_head nm Hn) as (c & r & E & Hc & Hnc).
  assert (Hsk : skipsp (s_rest s) = list_of_string nm ++ rest).
  { rewrite Hs. apply skipsp_nonsp. rewrite E. cbn [app hd_ok]. apply lower_nonsp. exact Hc. }
  assert (Hcur : cur (list_of_string nm ++ rest) = bN c)
    by (rewrite E; cbn [app]; apply cur_cons; lia).
  unfold next_item. cbv zeta. rewrite Hsk, Hcur.
  repeat match goal with
  | |- context [N.eqb (bN c) ?k] => rewrite (proj2 (N.eqb_neq (bN c) k)) by lia
  end.
  cbv iota. cbn [orb].
  rewrite is_digit_rune_ascii by lia.
  replace (digit_rune_ascii (bN c)) with false
    by (symmetry; unfold digit_rune_ascii; apply Bool.andb_false_iff; right; apply N.leb_gt; lia).
  rewrite (name_char_rune c Hnc).
  rewrite scan_name_spec by assumption. cbv iota beta. reflexivity.
Qed.

Lemma colon_facts : forall l,
  cur (colon :: l) = 58%N /\ advance (colon :: l) = l /\ hd_ok not_name_hd (colon :: l).
Proof.
  intros l. split; [apply cur_cons; vm_compute; reflexivity|].
  split; [apply advance_cons; vm_compute; reflexivity|]. vm_compute. reflexivity.
Qed.

(* AXIS ::  *)
Theorem next_item_axis : forall s ax rest,
  name_ok ax = true -> hd_ok nonsp rest ->
  s_rest s = list_of_string ax ++ colon :: colon :: rest ->
  next_item s = Ok (mkS rest IAxe ax "" (s_strval s) (s_numval s) (N.eqb (cur rest) 40)).
Proof.
  intros s ax rest Ha Hr Hs.
  rewrite (next_item_name_prefix s ax (colon :: colon :: rest) Ha (proj2 (proj2 (colon_facts _))) Hs).
  cbv zeta.
  destruct (colon_facts (colon :: rest)) as (C1 & A1 & _). destruct (colon_facts rest) as (C2 & A2 & _).
  rewrite C1, A1, C2, A2. cbn [N.eqb Pos.eqb]. rewrite (skipsp_nonsp rest Hr). reflexivity.
Qed.

(* PFX:NAME at the end of the text *)
Theorem next_item_qname : forall s pfx nm,
  name_ok pfx = true -> name_ok nm = true ->
  s_rest s = list_of_string pfx ++ colon :: list_of_string nm ->
  next_item s = Ok (mkS [] IName nm pfx (s_strval s) (s_numval s) false).
Proof.
  intros s pfx nm Hp Hn Hs.
  rewrite (next_item_name_prefix s pfx (colon :: list_of_string nm) Hp (proj2 (proj2 (colon_facts _))) Hs).
  cbv zeta.
  destruct (colon_facts (list_of_string nm)) as (C1 & A1 & _). rewrite C1, A1. cbn [N.eqb Pos.eqb].
  destruct (name_ok_head nm Hn) as (c & r & E & Hc & Hnc).
  assert (Hcur : cur (list_of_string nm) = bN c) by (rewrite E; apply cur_cons; lia).
  rewrite Hcur.
  rewrite (proj2 (N.eqb_neq (bN c) 58)) by lia. rewrite (proj2 (N.eqb_neq (bN c) 42)) by lia.
  rewrite (name_char_rune c Hnc).
  rewrite <- (app_nil_r (list_of_string nm)) at 1.
  rewrite (scan_name_spec nm [] Hn I). reflexivity.
Qed.

(* PFX:* at the end of the text *)
Theorem next_item_qstar : forall s pfx,
  name_ok pfx = true ->
  s_rest s = list_of_string pfx ++ [colon; star_c] ->
  next_item s = Ok (mkS [] IName "*" pfx (s_strval s) (s_numval s) false).
Proof.
  intros s pfx Hp Hs.
  rewrite (next_item_name_prefix s pfx [colon; star_c] Hp (proj2 (proj2 (colon_facts _))) Hs).
  reflexivity.
Qed.

(* the end of the text *)
Lemma next_item_end : forall t nm pre sv nv cf,
  next_item (mkS [] t nm pre sv nv cf) = Ok (mkS [] IEOF nm pre sv nv cf).
Proof. reflexivity. Qed.

(* ------------------------------------------------------------------ *)
(** * 2. Parser: AXIS :: nodetest  up to the end of the text            *)
(* ------------------------------------------------------------------ *)

Lemma eof_ops : forall st, typ st = IEOF ->
  op_or st = None /\ op_and st = None /\ op_eq st = None /\ op_rel st = None /\
  op_add st = None /\ op_mul st = None /\ op_union st = None.
Proof.
  intros st H. unfold op_or, op_and, op_eq, op_rel, op_add, op_mul, op_union, test_op, is_typ.
  rewrite H. repeat split; reflexivity.
Qed.

Lemma bin_level_done : forall f getop sub st a st',
  sub st = Ok (a, st') -> getop st' = None -> bin_level (S f) getop sub st = Ok (a, st').
Proof. intros f getop sub st a st' Hs Hg. unfold bin_level. rewrite Hs. cbn [cbind bin_loop]. rewrite Hg. reflexivity. Qed.

Theorem pgo_axis_step_eof : forall ns f st0 st1 st2 o,
  typ st0 = IAxe -> p_d st0 = 0 ->
  pnext (mkP (p_s st0) 1) = Ok st1 ->
  parse_node_test ns None (s_name (p_s st0))
    (if String.eqb (s_name (p_s st0)) "attribute" then NTAttr else NTElem) st1 = Ok (o, st2) ->
  typ st2 = IEOF ->
  pgo ns (S (S (S f))) EExpr None st0 = Ok (o, mkP (p_s st2) (p_d st2 - 1)).
Proof.
  intros ns f st0 st1 st2 o Ht Hd Hn Hp He.
  rewrite pgo_S_expr. unfold expr_b. rewrite Hd.
  change (Nat.ltb max_depth 1) with false. cbv zeta.
  set (st0' := mkP (p_s st0) 1) in *.
  assert (Ht' : typ st0' = IAxe) by exact Ht.
  set (pe := pgo ns (S (S f)) EExpr). set (ps := pgo ns (S (S f)) EStep).
  destruct (eof_ops st2 He) as (O1 & O2 & O3 & O4 & O5 & O6 & O7).
  (* the step *)
  assert (Hstep : ps None st0' = Ok (o, st2)).
  { unfold ps. rewrite pgo_S_step. unfold step_b, is_typ. rewrite Ht'. cbn [itype_eqb orb].
    rewrite Hn. cbn [cbind]. cbv zeta. change (s_name (p_s st0')) with (s_name (p_s st0)).
    rewrite Hp. cbn [cbind pred_loop]. unfold is_typ. rewrite He. reflexivity. }
  (* the path expression *)
  assert (Hpath : path_expr_b (S (S f)) pe ps None st0' = Ok (o, st2)).
  { unfold path_expr_b, is_primary_expr. rewrite Ht'. unfold location_path_b. rewrite Ht'.
    cbn [relpath_loop]. rewrite Hstep. cbn [cbind]. rewrite He. reflexivity. }
  assert (H7 : union_expr_b (S (S f)) pe ps None st0' = Ok (o, st2))
    by (apply bin_level_done; assumption).
  assert (H6 : unary_expr_b (S (S f)) pe ps None st0' = Ok (o, st2)).
  { unfold unary_expr_b. cbn [minus_loop]. unfold is_typ at 1. rewrite Ht'. cbn [itype_eqb cbind].
    rewrite H7. reflexivity. }
  assert (H5 : mul_expr_b (S (S f)) pe ps None st0' = Ok (o, st2)) by (apply bin_level_done; assumption).
  assert (H4 : add_expr_b (S (S f)) pe ps None st0' = Ok (o, st2)) by (apply bin_level_done; assumption).
  assert (H3 : rel_expr_b (S (S f)) pe ps None st0' = Ok (o, st2)) by (apply bin_level_done; assumption).
  assert (H2 : eq_expr_b (S (S f)) pe ps None st0' = Ok (o, st2)) by (apply bin_level_done; assumption).
  assert (H1 : and_expr_b (S (S f)) pe ps None st0' = Ok (o, st2)) by (apply bin_level_done; assumption).
  assert (H0 : or_expr_b (S (S f)) pe ps None st0' = Ok (o, st2)) by (apply bin_level_done; assumption).
  rewrite H0. reflexivity.
Qed.

(* the whole of parse() for such a text *)
Theorem parse_axis_step : forall text ns ax sA sB sC o,
  next_item (init_scanner text) = Ok sA -> s_typ sA = IAxe -> s_name sA = ax ->
  next_item sA = Ok sB ->
  parse_node_test ns None ax (if String.eqb ax "attribute" then NTAttr else NTElem) (mkP sB 1)
    = Ok (o, mkP sC 1) ->
  s_typ sC = IEOF ->
  parse text ns = Ok o.
Proof.
  intros text ns ax sA sB sC o H0 HtA Hax HB Hp HtC.
  unfold parse, parse_fuel. rewrite H0. cbn [cbind].
  replace (default_fuel text) with (S (S (S (2 * String.length text + 5)))) by (unfold default_fuel; lia).
  rewrite (pgo_axis_step_eof ns _ (mkP sA 0) (mkP sB 1) (mkP sC 1) o).
  - cbn [cbind]. unfold check_item, is_typ, typ. cbn [p_s]. rewrite HtC. reflexivity.
  - exact HtA.
  - reflexivity.
  - unfold pnext. cbn [p_s p_d]. rewrite HB. reflexivity.
  - cbn [p_s]. rewrite Hax. exact Hp.
  - exact HtC.
Qed.

(* an error of the node test is the error of parse() *)
Lemma bin_level_err : forall f getop sub st e,
  sub st = Err e -> bin_level f getop sub st = Err e.
Proof. intros f getop sub st e Hs. unfold bin_level. rewrite Hs. reflexivity. Qed.

Theorem pgo_axis_step_err : forall ns f st0 st1 e,
  typ st0 = IAxe -> p_d st0 = 0 ->
  pnext (mkP (p_s st0) 1) = Ok st1 ->
  parse_node_test ns None (s_name (p_s st0))
    (if String.eqb (s_name (p_s st0)) "attribute" then NTAttr else NTElem) st1 = Err e ->
  pgo ns (S (S (S f))) EExpr None st0 = Err e.
Proof.
  intros ns f st0 st1 e Ht Hd Hn Hp.
  rewrite pgo_S_expr. unfold expr_b. rewrite Hd.
  change (Nat.ltb max_depth 1) with false. cbv zeta.
  set (st0' := mkP (p_s st0) 1) in *.
  assert (Ht' : typ st0' = IAxe) by exact Ht.
  set (pe := pgo ns (S (S f)) EExpr). set (ps := pgo ns (S (S f)) EStep).
  assert (Hstep : ps None st0' = Err e).
  { unfold ps. rewrite pgo_S_step. unfold step_b, is_typ. rewrite Ht'. cbn [itype_eqb orb].
    rewrite Hn. cbn [cbind]. cbv zeta. change (s_name (p_s st0')) with (s_name (p_s st0)).
    rewrite Hp. reflexivity. }
  assert (Hpath : path_expr_b (S (S f)) pe ps None st0' = Err e).
  { unfold path_expr_b, is_primary_expr. rewrite Ht'. unfold location_path_b. rewrite Ht'.
    cbn [relpath_loop]. rewrite Hstep. reflexivity. }
  assert (H7 : union_expr_b (S (S f)) pe ps None st0' = Err e) by (apply bin_level_err; assumption).
  assert (H6 : unary_expr_b (S (S f)) pe ps None st0' = Err e).
  { unfold unary_expr_b. cbn [minus_loop]. unfold is_typ at 1. rewrite Ht'. cbn [itype_eqb cbind].
    rewrite H7. reflexivity. }
  assert (H5 : mul_expr_b (S (S f)) pe ps None st0' = Err e) by (apply bin_level_err; assumption).
  assert (H4 : add_expr_b (S (S f)) pe ps None st0' = Err e) by (apply bin_level_err; assumption).
  assert (H3 : rel_expr_b (S (S f)) pe ps None st0' = Err e) by (apply bin_level_err; assumption).
  assert (H2 : eq_expr_b (S (S f)) pe ps None st0' = Err e) by (apply bin_level_err; assumption).
  assert (H1 : and_expr_b (S (S f)) pe ps None st0' = Err e) by (apply bin_level_err; assumption).
  assert (H0 : or_expr_b (S (S f)) pe ps None st0' = Err e) by (apply bin_level_err; assumption).
  rewrite H0. reflexivity.
Qed.

(* ------------------------------------------------------------------ *)
(** * 3. The texts  AXIS::BODY                                           *)
(* ------------------------------------------------------------------ *)

Definition axis_mt (ax : string) : ntype := if String.eqb ax "attribute" then NTAttr else NTElem.

(* the scanner state after the axis *)
Definition after_axis (ax body : string) : sstate :=
  mkS (list_of_string body) IAxe ax "" "" fzero (N.eqb (cur (list_of_string body)) 40).

Lemma scan_axis : forall ax body,
  name_ok ax = true -> hd_ok nonsp (list_of_string body) ->
  next_item (init_scanner (ax ++ "::" ++ body)) = Ok (after_axis ax body).
Proof.
  intros ax body Ha Hb.
  apply (next_item_axis (init_scanner (ax ++ "::" ++ body)) ax (list_of_string body) Ha Hb).
  cbn [init_scanner s_rest]. rewrite list_of_string_app. reflexivity.
Qed.

Theorem parse_axis_body : forall ax body ns sB sC o,
  name_ok ax = true -> hd_ok nonsp (list_of_string body) ->
  next_item (after_axis ax body) = Ok sB ->
  parse_node_test ns None ax (axis_mt ax) (mkP sB 1) = Ok (o, mkP sC 1) ->
  s_typ sC = IEOF ->
  parse (ax ++ "::" ++ body) ns = Ok o.
Proof.
  intros ax body ns sB sC o Ha Hb HB Hp HC.
  apply (parse_axis_step _ ns ax (after_axis ax body) sB sC o (scan_axis ax body Ha Hb)
           eq_refl eq_refl HB Hp HC).
Qed.

Theorem parse_axis_body_err : forall ax body ns sB e,
  name_ok ax = true -> hd_ok nonsp (list_of_string body) ->
  next_item (after_axis ax body) = Ok sB ->
  parse_node_test ns None ax (axis_mt ax) (mkP sB 1) = Err e ->
  parse (ax ++ "::" ++ body) ns = Err e.
Proof.
  intros ax body ns sB e Ha Hb HB Hp.
  unfold parse, parse_fuel. rewrite (scan_axis ax body Ha Hb). cbn [cbind].
  replace (default_fuel (ax ++ "::" ++ body))
    with (S (S (S (2 * String.length (ax ++ "::" ++ body) + 5)))) by (unfold default_fuel; lia).
  rewrite (pgo_axis_step_err ns _ (mkP (after_axis ax body) 0) (mkP sB 1) e); try reflexivity.
  - unfold pnext. cbn [p_s p_d]. rewrite HB. reflexivity.
  - exact Hp.
Qed.

Lemma name_body_nonsp : forall nm rest, name_ok nm = true -> hd_ok nonsp (list_of_string (nm ++ rest)).
Proof.
  intros nm rest H. rewrite list_of_string_app. destruct (name_ok_head nm H) as (c & r & E & Hc & _).
  rewrite E. cbn [app hd_ok]. apply lower_nonsp. exact Hc.
Qed.

(* the states after the node test *)
Definition st_name (pfx nm : string) : sstate := mkS [] IName nm pfx "" fzero false.
Definition st_eof (pfx nm : string) : sstate := mkS [] IEOF nm pfx "" fzero false.

Lemma pnext_name_eof : forall pfx nm, pnext (mkP (st_name pfx nm) 1) = Ok (mkP (st_eof pfx nm) 1).
Proof. reflexivity. Qed.

Lemma scan_qname : forall ax pfx nm, name_ok pfx = true -> name_ok nm = true ->
  next_item (after_axis ax (pfx ++ ":" ++ nm)) = Ok (st_name pfx nm).
Proof.
  intros ax pfx nm Hp Hn.
  apply (next_item_qname (after_axis ax (pfx ++ ":" ++ nm)) pfx nm Hp Hn).
  cbn [after_axis s_rest]. rewrite list_of_string_app. reflexivity.
Qed.

Lemma scan_qstar : forall ax pfx, name_ok pfx = true ->
  next_item (after_axis ax (pfx ++ ":*")) = Ok (st_name pfx "*").
Proof.
  intros ax pfx Hp. apply (next_item_qstar (after_axis ax (pfx ++ ":*")) pfx Hp).
  cbn [after_axis s_rest]. rewrite list_of_string_app. reflexivity.
Qed.

Lemma scan_name_end : forall ax nm, name_ok nm = true ->
  next_item (after_axis ax nm) = Ok (st_name "" nm).
Proof.
  intros ax nm Hn.
  rewrite (next_item_name (after_axis ax nm) [] nm [] eq_refl Hn I).
  - reflexivity.
  - vm_compute. discriminate.
  - vm_compute. discriminate.
  - cbn [after_axis s_rest app]. rewrite app_nil_r. reflexivity.
Qed.

(* the name the parser stores: not "*" for a real name *)
Lemma name_not_star_eqb : forall nm, name_ok nm = true -> String.eqb nm "*" = false.
Proof. intros nm H. apply String.eqb_neq. apply name_not_star. exact H. Qed.

Lemma name_ok_nonempty : forall nm, name_ok nm = true -> nm <> "".
Proof. intros nm H E. subst nm. discriminate H. Qed.

(** AXIS::PFX:NAME *)
Theorem parse_qname : forall ax pfx nm ns,
  name_ok ax = true -> name_ok pfx = true -> name_ok nm = true ->
  parse (ax ++ "::" ++ pfx ++ ":" ++ nm) ns =
  match ns with
  | None => Ok (AAxis ax (axis_mt ax) pfx nm "" false "" None)
  | Some m => match ns_lookup m pfx with
              | Some uri => Ok (AAxis ax (axis_mt ax) pfx nm "" true uri None)
              | None => Err "prefix not defined."
              end
  end.
Proof.
  intros ax pfx nm ns Ha Hp Hn.
  pose proof (name_body_nonsp pfx (":" ++ nm) Hp) as Hb.
  pose proof (scan_qname ax pfx nm Hp Hn) as HB.
  pose proof (name_ok_nonempty pfx Hp) as Hpe.
  destruct ns as [m|]; [destruct (ns_lookup m pfx) as [uri|] eqn:El|].
  - apply (parse_axis_body ax _ (Some m) (st_name pfx nm) (st_eof pfx nm) _ Ha Hb HB); [|reflexivity].
    rewrite (parse_node_test_bound None ax (axis_mt ax) (mkP (st_name pfx nm) 1) (mkP (st_eof pfx nm) 1)
               eq_refl eq_refl (pnext_name_eof pfx nm) m uri Hpe El).
    cbn [st_eof st_name p_s s_name s_prefix]. rewrite (name_not_star_eqb nm Hn). reflexivity.
  - apply (parse_axis_body_err ax _ (Some m) (st_name pfx nm) _ Ha Hb HB).
    apply (parse_node_test_unbound None ax (axis_mt ax) (mkP (st_name pfx nm) 1) (mkP (st_eof pfx nm) 1)
             eq_refl eq_refl (pnext_name_eof pfx nm) m Hpe El).
  - apply (parse_axis_body ax _ None (st_name pfx nm) (st_eof pfx nm) _ Ha Hb HB); [|reflexivity].
    rewrite (parse_node_test_no_map None ax (axis_mt ax) (mkP (st_name pfx nm) 1) (mkP (st_eof pfx nm) 1)
               eq_refl eq_refl (pnext_name_eof pfx nm)).
    cbn [st_eof st_name p_s s_name s_prefix]. rewrite (name_not_star_eqb nm Hn). reflexivity.
Qed.

(** AXIS::PFX:*  : the local name is EMPTY, not a wildcard *)
Theorem parse_qstar : forall ax pfx ns,
  name_ok ax = true -> name_ok pfx = true ->
  parse (ax ++ "::" ++ pfx ++ ":*") ns =
  match ns with
  | None => Ok (AAxis ax (axis_mt ax) pfx "" "" false "" None)
  | Some m => match ns_lookup m pfx with
              | Some uri => Ok (AAxis ax (axis_mt ax) pfx "" "" true uri None)
              | None => Err "prefix not defined."
              end
  end.
Proof.
  intros ax pfx ns Ha Hp.
  pose proof (name_body_nonsp pfx ":*" Hp) as Hb.
  pose proof (scan_qstar ax pfx Hp) as HB.
  pose proof (name_ok_nonempty pfx Hp) as Hpe.
  destruct ns as [m|]; [destruct (ns_lookup m pfx) as [uri|] eqn:El|].
  - apply (parse_axis_body ax _ (Some m) (st_name pfx "*") (st_eof pfx "*") _ Ha Hb HB); [|reflexivity].
    rewrite (parse_node_test_bound None ax (axis_mt ax) (mkP (st_name pfx "*") 1) (mkP (st_eof pfx "*") 1)
               eq_refl eq_refl (pnext_name_eof pfx "*") m uri Hpe El). reflexivity.
  - apply (parse_axis_body_err ax _ (Some m) (st_name pfx "*") _ Ha Hb HB).
    apply (parse_node_test_unbound None ax (axis_mt ax) (mkP (st_name pfx "*") 1) (mkP (st_eof pfx "*") 1)
             eq_refl eq_refl (pnext_name_eof pfx "*") m Hpe El).
  - apply (parse_axis_body ax _ None (st_name pfx "*") (st_eof pfx "*") _ Ha Hb HB); [|reflexivity].
    rewrite (parse_node_test_no_map None ax (axis_mt ax) (mkP (st_name pfx "*") 1) (mkP (st_eof pfx "*") 1)
               eq_refl eq_refl (pnext_name_eof pfx "*")). reflexivity.
Qed.

(** AXIS::NAME : never bound, whatever the map (no default namespace) *)
Theorem parse_name : forall ax nm ns,
  name_ok ax = true -> name_ok nm = true ->
  parse (ax ++ "::" ++ nm) ns = Ok (AAxis ax (axis_mt ax) "" nm "" false "" None).
Proof.
  intros ax nm ns Ha Hn.
  assert (Hb : hd_ok nonsp (list_of_string nm)).
  { destruct (name_ok_head nm Hn) as (c & r & E & Hc & _). rewrite E. cbn [hd_ok]. apply lower_nonsp. exact Hc. }
  apply (parse_axis_body ax nm ns (st_name "" nm) (st_eof "" nm) _ Ha Hb (scan_name_end ax nm Hn)); [|reflexivity].
  rewrite (parse_node_test_unprefixed None ax (axis_mt ax) (mkP (st_name "" nm) 1) (mkP (st_eof "" nm) 1)
             eq_refl eq_refl (pnext_name_eof "" nm) ns eq_refl).
  cbn [st_eof st_name p_s s_name]. rewrite (name_not_star_eqb nm Hn). reflexivity.
Qed.

(** AXIS::*  *)
Theorem parse_star : forall ax ns,
  name_ok ax = true ->
  parse (ax ++ "::*") ns = Ok (AAxis ax (axis_mt ax) "" "" "" false "" None).
Proof.
  intros ax ns Ha.
  apply (parse_axis_body ax "*" ns (mkS [] IStar ax "" "" fzero false) (mkS [] IEOF ax "" "" fzero false) _ Ha);
    reflexivity.
Qed.

(* ------------------------------------------------------------------ *)
(** * 4. Compile and Select                                             *)
(* ------------------------------------------------------------------ *)

Lemma compile_child_step : forall re_ok text ns ty pre loc prop hasns uri,
  parse text ns = Ok (AAxis "child" ty pre loc prop hasns uri None) ->
  compile re_ok text ns = Ok (QChild (mkTest ty pre loc hasns uri) QContext).
Proof.
  intros re_ok text ns ty pre loc prop hasns uri H.
  apply (compile_of_parse re_ok text ns _ _ pr_none
           (mkFi (Some (QChild (mkTest ty pre loc hasns uri) QContext)) true) H);
    [reflexivity|discriminate].
Qed.

Lemma compile_attribute_step : forall re_ok text ns ty pre loc prop hasns uri,
  parse text ns = Ok (AAxis "attribute" ty pre loc prop hasns uri None) ->
  compile re_ok text ns = Ok (QAttribute (mkTest ty pre loc hasns uri) QContext).
Proof.
  intros re_ok text ns ty pre loc prop hasns uri H.
  apply (compile_of_parse re_ok text ns _ _ pr_none
           (mkFi (Some (QAttribute (mkTest ty pre loc hasns uri) QContext)) true) H);
    [reflexivity|discriminate].
Qed.

Lemma parse_err_compile : forall re_ok text ns e,
  text <> "" -> parse text ns = Err e -> compile re_ok text ns = Err e.
Proof.
  intros re_ok text ns e Hne H. unfold compile, compile_fuel, build_fuel.
  apply String.eqb_neq in Hne. rewrite Hne. unfold parse in H. rewrite H. reflexivity.
Qed.

Section Select.
Variable D : tree.
Variable has_ns : bool.
Variable hc : tree -> node -> N.
Variable rm : string -> string -> option bool.
Variable rn : string -> nat.
Variable rr : string -> string -> string -> string.

Notation SELECT := (select rm rn rr hc D has_ns).
Notation EVALUATE := (evaluate rm rn rr hc D has_ns).
Notation MT := (match_test D has_ns).

Lemma select_child_context : forall t c,
  SELECT (QChild t QContext) c = Val (filter (MT t) (children D c)).
Proof.
  intros t c. unfold select. rewrite sel_child, sel_context. cbn [obind flat_map it_node].
  rewrite app_nil_r. rewrite (nodes_of_step_child D has_ns t c). reflexivity.
Qed.

Lemma select_attribute_context : forall t c,
  SELECT (QAttribute t QContext) c =
  Val (match node_type D c with NTElem => filter (MT t) (attributes_after D c) | _ => [] end).
Proof.
  intros t c. unfold select. rewrite sel_attribute, sel_context. cbn [obind flat_map it_node].
  rewrite app_nil_r. unfold step_attribute. destruct (node_type D c); try reflexivity.
  rewrite DocOrder.nodes_of_unnumbered. reflexivity.
Qed.

(* the documented test of a NAMED node test (NameTest.match_test_table) *)
Lemma match_named : forall ty pfx nm hasns uri n,
  ty <> NTAll -> (nm <> "" \/ pfx <> "") ->
  (MT (mkTest ty pfx nm hasns uri) n = true <->
   node_type D n = ty /\ local_name D n = nm /\
   (if andb has_ns hasns then node_ns D n = uri else node_prefix D n = pfx)).
Proof.
  intros ty pfx nm hasns uri n Hty Hnm.
  rewrite (match_test_table D has_ns). unfold type_ok, no_name, by_uri.
  cbn [nt_type nt_loc nt_pre nt_hasns nt_ns]. split.
  - intros [[Ht|Ht] [[H1 H2]|(_ & Hl & Hc)]]; try congruence; try (destruct Hnm; congruence).
    split; [congruence|]. split; [congruence|]. destruct (andb has_ns hasns); congruence.
  - intros (Ht & Hl & Hc). split; [left; congruence|]. right.
    split; [intros [H1 H2]; destruct Hnm; congruence|]. split; [congruence|].
    destruct (andb has_ns hasns); congruence.
Qed.

Lemma match_star : forall ty n, ty <> NTAll ->
  (MT (mkTest ty "" "" false "") n = true <-> node_type D n = ty).
Proof.
  intros ty n Hty. rewrite (match_test_no_name D has_ns _ n) by (split; reflexivity).
  unfold type_ok. cbn [nt_type]. split; [intros [H|H]; congruence|intros H; left; congruence].
Qed.

Variable re_ok : string -> bool.

(** child::PFX:NAME compiled WITHOUT a namespace map: by prefix *)
Theorem C14_child_qname_nomap : forall pfx nm c,
  name_ok pfx = true -> name_ok nm = true ->
  exists q l, compile re_ok ("child::" ++ pfx ++ ":" ++ nm) None = Ok q /\ SELECT q c = Val l /\
    forall n, In n l <-> In n (children D c) /\
      node_type D n = NTElem /\ local_name D n = nm /\ node_prefix D n = pfx.
Proof.
  intros pfx nm c Hp Hn.
  pose proof (parse_qname "child" pfx nm None eq_refl Hp Hn) as P. cbn [axis_mt String.eqb] in P.
  eexists. eexists. split; [apply (compile_child_step re_ok _ None _ _ _ _ _ _ P)|].
  split; [apply select_child_context|].
  intros n. rewrite filter_In, match_named; [|discriminate|left; apply name_ok_nonempty; exact Hn].
  rewrite Bool.andb_false_r. reflexivity.
Qed.

(** child::PFX:NAME compiled with a map binding PFX to uri: by namespace URI
    when the navigator reports URIs, by prefix otherwise *)
Theorem C14_child_qname_bound : forall m pfx nm uri c,
  name_ok pfx = true -> name_ok nm = true -> ns_lookup m pfx = Some uri ->
  exists q l, compile re_ok ("child::" ++ pfx ++ ":" ++ nm) (Some m) = Ok q /\ SELECT q c = Val l /\
    forall n, In n l <-> In n (children D c) /\
      node_type D n = NTElem /\ local_name D n = nm /\
      (if has_ns then node_ns D n = uri else node_prefix D n = pfx).
Proof.
  intros m pfx nm uri c Hp Hn Hl.
  pose proof (parse_qname "child" pfx nm (Some m) eq_refl Hp Hn) as P. cbv beta iota in P. rewrite Hl in P.
  cbn [axis_mt String.eqb] in P.
  eexists. eexists. split; [apply (compile_child_step re_ok _ (Some m) _ _ _ _ _ _ P)|].
  split; [apply select_child_context|].
  intros n. rewrite filter_In, match_named; [|discriminate|left; apply name_ok_nonempty; exact Hn].
  rewrite Bool.andb_true_r. reflexivity.
Qed.

(** an unbound prefix does not compile *)
Theorem C14_child_qname_unbound : forall m pfx nm,
  name_ok pfx = true -> name_ok nm = true -> ns_lookup m pfx = None ->
  compile re_ok ("child::" ++ pfx ++ ":" ++ nm) (Some m) = Err "prefix not defined.".
Proof.
  intros m pfx nm Hp Hn Hl.
  pose proof (parse_qname "child" pfx nm (Some m) eq_refl Hp Hn) as P. cbv beta iota in P. rewrite Hl in P.
  apply parse_err_compile; [discriminate|exact P].
Qed.

(** child::PFX:*  asks for an EMPTY local name: it selects no named node *)
Theorem C14_child_qstar : forall ns pfx c,
  name_ok pfx = true ->
  (forall m, ns = Some m -> ns_lookup m pfx <> None) ->
  exists q l, compile re_ok ("child::" ++ pfx ++ ":*") ns = Ok q /\ SELECT q c = Val l /\
    forall n, In n l -> In n (children D c) /\ node_type D n = NTElem /\ local_name D n = "".
Proof.
  intros ns pfx c Hp Hb.
  pose proof (parse_qstar "child" pfx ns eq_refl Hp) as P. cbn [axis_mt String.eqb] in P.
  destruct ns as [m|]; [destruct (ns_lookup m pfx) as [uri|] eqn:El; [|exfalso; apply (Hb m eq_refl El)]|];
    (eexists; eexists; split; [apply (compile_child_step re_ok _ _ _ _ _ _ _ _ P)|];
     split; [apply select_child_context|];
     intros n Hin; apply filter_In in Hin; destruct Hin as [Hc Hm];
     apply match_named in Hm; [|discriminate|right; apply name_ok_nonempty; exact Hp];
     tauto).
Qed.

(** child::NAME : an unprefixed name is never bound (no default namespace):
    local name NAME and NO prefix, whatever the map *)
Theorem C14_child_name : forall ns nm c,
  name_ok nm = true ->
  exists q l, compile re_ok ("child::" ++ nm) ns = Ok q /\ SELECT q c = Val l /\
    forall n, In n l <-> In n (children D c) /\
      node_type D n = NTElem /\ local_name D n = nm /\ node_prefix D n = "".
Proof.
  intros ns nm c Hn.
  pose proof (parse_name "child" nm ns eq_refl Hn) as P. cbn [axis_mt String.eqb] in P.
  eexists. eexists. split; [apply (compile_child_step re_ok _ ns _ _ _ _ _ _ P)|].
  split; [apply select_child_context|].
  intros n. rewrite filter_In, match_named; [|discriminate|left; apply name_ok_nonempty; exact Hn].
  rewrite Bool.andb_false_r. reflexivity.
Qed.

(** child::*  : the element children *)
Theorem C14_child_star : forall ns c,
  exists q l, compile re_ok "child::*" ns = Ok q /\ SELECT q c = Val l /\
    forall n, In n l <-> In n (children D c) /\ node_type D n = NTElem.
Proof.
  intros ns c.
  pose proof (parse_star "child" ns eq_refl) as P. cbn [axis_mt String.eqb] in P.
  eexists. eexists. split; [apply (compile_child_step re_ok _ ns _ _ _ _ _ _ P)|].
  split; [apply select_child_context|].
  intros n. rewrite filter_In, match_star by discriminate. reflexivity.
Qed.

(** attribute::NAME : the attributes of an element context node *)
Theorem C14_attribute_name : forall ns nm c,
  name_ok nm = true ->
  exists q l, compile re_ok ("attribute::" ++ nm) ns = Ok q /\ SELECT q c = Val l /\
    forall n, In n l <-> node_type D c = NTElem /\ In n (attributes_after D c) /\
      node_type D n = NTAttr /\ local_name D n = nm /\ node_prefix D n = "".
Proof.
  intros ns nm c Hn.
  pose proof (parse_name "attribute" nm ns eq_refl Hn) as P. cbn [axis_mt String.eqb] in P.
  eexists. eexists. split; [apply (compile_attribute_step re_ok _ ns _ _ _ _ _ _ P)|].
  split; [apply select_attribute_context|].
  intros n. destruct (node_type D c) eqn:Ec;
    try (split; [intros []|intros [H _]; discriminate]).
  rewrite filter_In, match_named; [|discriminate|left; apply name_ok_nonempty; exact Hn].
  rewrite Bool.andb_false_r. tauto.
Qed.

(** name(.)  local-name(.)  namespace-uri(.) *)
Definition fn_text (f : fn1) : string :=
  match f with FName => "name(.)" | FLocalName => "local-name(.)" | _ => "namespace-uri(.)" end.

Theorem C14_name_functions : forall ns f c,
  is_name_fn f ->
  exists q, compile re_ok (fn_text f) ns = Ok q /\
            EVALUATE q c = Val (VStr (name_fn D has_ns f c)).
Proof.
  intros ns f c Hf.
  exists (QFn1 f (QSelf (mkTest NTAll "" "" false "") QContext)). split.
  - destruct f; try contradiction; vm_compute; reflexivity.
  - assert (Hs : sel D has_ns (hc D) rm rn rr (QSelf (mkTest NTAll "" "" false "") QContext) c
                 = Val [mkItem c 1 0]).
    { rewrite sel_self, sel_context. cbn [obind flat_map it_node]. unfold step_self.
      rewrite (match_test_node D has_ns (mkTest NTAll "" "" false "") c eq_refl eq_refl eq_refl). reflexivity. }
    assert (Hne : QSelf (mkTest NTAll "" "" false "") QContext <> QNil) by discriminate.
    unfold evaluate.
    rewrite (eval_name_fn_arg D has_ns (hc D) rm rn rr f _ c _ Hf Hne Hs).
    reflexivity.
Qed.

End Select.

Print Assumptions C14_child_qname_nomap.
Print Assumptions C14_child_qname_bound.
Print Assumptions C14_child_qname_unbound.
Print Assumptions C14_child_qstar.
Print Assumptions C14_child_name.
Print Assumptions C14_child_star.
Print Assumptions C14_attribute_name.
Print Assumptions C14_name_functions.

(* ------------------------------------------------------------------ *)
(** * 5. Examples                                                       *)
(* ------------------------------------------------------------------ *)
Module Examples.

(*  <p:a xmlns:p="urn:x" id="1" q:k="v">  <a/>  <z:a xmlns:z="urn:x"/>  hello </p:a>  *)
Notation SELn hn := (select lit_match lit_numsubexp lit_replace_all hash_code Dn hn).
Notation EVn hn := (evaluate lit_match lit_numsubexp lit_replace_all hash_code Dn hn).

Example names_ok : name_ok "x" = true /\ name_ok "a" = true /\ name_ok "id" = true /\ name_ok "p" = true.
Proof. repeat split. Qed.

(* child::x:a  with {x -> urn:x}, from <p:a>: by URI it is <z:a> (another prefix,
   same URI); on a navigator without URIs it is nothing (no child has prefix x) *)
Example qname_bound_uri :
  exists q, compile Api.lit_ok "child::x:a" (Some [("x", "urn:x")]) = Ok q /\
            SELn true q n_pa = Val [n_za] /\ SELn false q n_pa = Val [].
Proof.
  destruct (C14_child_qname_bound Dn true hash_code lit_match lit_numsubexp lit_replace_all Api.lit_ok
              [("x", "urn:x")] "x" "a" "urn:x" n_pa eq_refl eq_refl eq_refl) as (q & l & Ec & _ & _).
  exists q. split; [exact Ec|]. vm_compute in Ec. inversion Ec; subst q. split; vm_compute; reflexivity.
Qed.

(* the membership statement of the theorem, instantiated: z:a is selected
   BECAUSE its local name is a and its namespace URI is urn:x *)
Example qname_bound_member :
  forall l, SELn true (QChild (mkTest NTElem "x" "a" true "urn:x") QContext) n_pa = Val l ->
  (In n_za l <-> In n_za (children Dn n_pa) /\ node_type Dn n_za = NTElem /\
                 local_name Dn n_za = "a" /\ node_ns Dn n_za = "urn:x").
Proof.
  intros l Hl.
  destruct (C14_child_qname_bound Dn true hash_code lit_match lit_numsubexp lit_replace_all Api.lit_ok
              [("x", "urn:x")] "x" "a" "urn:x" n_pa eq_refl eq_refl eq_refl) as (q & l' & Ec & El & Hin).
  vm_compute in Ec. inversion Ec; subst q. rewrite Hl in El. inversion El; subst l'. apply Hin.
Qed.

(* without a map: lexical; from the root  child::p:a  finds <p:a>, child::z:a nothing *)
Example qname_nomap :
  exists q1 q2, compile Api.lit_ok "child::p:a" None = Ok q1 /\ compile Api.lit_ok "child::z:a" None = Ok q2 /\
    SELn true q1 root_node = Val [n_pa] /\ SELn true q2 root_node = Val [] /\ SELn true q2 n_pa = Val [n_za].
Proof.
  destruct (C14_child_qname_nomap Dn true hash_code lit_match lit_numsubexp lit_replace_all Api.lit_ok
              "p" "a" root_node eq_refl eq_refl) as (q1 & _ & E1 & _).
  destruct (C14_child_qname_nomap Dn true hash_code lit_match lit_numsubexp lit_replace_all Api.lit_ok
              "z" "a" root_node eq_refl eq_refl) as (q2 & _ & E2 & _).
  exists q1, q2. split; [exact E1|]. split; [exact E2|].
  vm_compute in E1. inversion E1; subst q1. vm_compute in E2. inversion E2; subst q2.
  repeat split; vm_compute; reflexivity.
Qed.

Example qname_unbound :
  compile Api.lit_ok "child::q:a" (Some [("x", "urn:x")]) = Err "prefix not defined.".
Proof. apply (C14_child_qname_unbound Api.lit_ok [("x", "urn:x")] "q" "a"); reflexivity. Qed.

(* child::a  ignores the map: only the unprefixed <a/>;  child::*  all three elements *)
Example plain_and_star :
  exists q1 q2, compile Api.lit_ok "child::a" (Some [("", "urn:x")]) = Ok q1 /\
                compile Api.lit_ok "child::*" None = Ok q2 /\
                SELn true q1 n_pa = Val [n_a] /\ SELn true q2 n_pa = Val [n_a; n_za].
Proof.
  destruct (C14_child_name Dn true hash_code lit_match lit_numsubexp lit_replace_all Api.lit_ok
              (Some [("", "urn:x")]) "a" n_pa eq_refl) as (q1 & _ & E1 & _).
  destruct (C14_child_star Dn true hash_code lit_match lit_numsubexp lit_replace_all Api.lit_ok
              None n_pa) as (q2 & _ & E2 & _).
  exists q1, q2. split; [exact E1|]. split; [exact E2|].
  vm_compute in E1. inversion E1; subst q1. vm_compute in E2. inversion E2; subst q2.
  split; vm_compute; reflexivity.
Qed.

(* QUIRK: child::p:*  selects nothing, although <p:a> is there *)
Example qstar_selects_nothing :
  exists q, compile Api.lit_ok "child::p:*" (Some [("p", "urn:x")]) = Ok q /\
            SELn true q root_node = Val [] /\ SELn false q root_node = Val [].
Proof.
  destruct (C14_child_qstar Dn true hash_code lit_match lit_numsubexp lit_replace_all Api.lit_ok
              (Some [("p", "urn:x")]) "p" root_node eq_refl) as (q & _ & E & _).
  { intros m Hm. inversion Hm; subst m. discriminate. }
  exists q. split; [exact E|]. vm_compute in E. inversion E; subst q. split; vm_compute; reflexivity.
Qed.

(* attribute::id  from <p:a>: the attribute id (q:k has a prefix) *)
Example attribute_name :
  exists q, compile Api.lit_ok "attribute::id" None = Ok q /\ SELn true q n_pa = Val [n_id] /\
            SELn true q n_txt = Val [].
Proof.
  destruct (C14_attribute_name Dn true hash_code lit_match lit_numsubexp lit_replace_all Api.lit_ok
              None "id" n_pa eq_refl) as (q & _ & E & _).
  exists q. split; [exact E|]. vm_compute in E. inversion E; subst q. split; vm_compute; reflexivity.
Qed.

(* the name functions at <z:a> and at the attribute q:k *)
Example name_functions :
  (exists q, compile Api.lit_ok "name(.)" None = Ok q /\
             EVn true q n_za = Val (VStr "z:a") /\ EVn true q n_qk = Val (VStr "q:k") /\
             EVn true q n_txt = Val (VStr "")) /\
  (exists q, compile Api.lit_ok "local-name(.)" None = Ok q /\ EVn true q n_za = Val (VStr "a")) /\
  (exists q, compile Api.lit_ok "namespace-uri(.)" None = Ok q /\
             EVn true q n_za = Val (VStr "urn:x") /\ EVn false q n_za = Val (VStr "z")).
Proof.
  split; [|split].
  - destruct (C14_name_functions Dn true hash_code lit_match lit_numsubexp lit_replace_all Api.lit_ok
                None FName n_za I) as (q & E & H).
    exists q. split; [exact E|]. split; [rewrite H; reflexivity|].
    vm_compute in E. inversion E; subst q. split; vm_compute; reflexivity.
  - destruct (C14_name_functions Dn true hash_code lit_match lit_numsubexp lit_replace_all Api.lit_ok
                None FLocalName n_za I) as (q & E & H).
    exists q. split; [exact E|]. rewrite H. reflexivity.
  - destruct (C14_name_functions Dn true hash_code lit_match lit_numsubexp lit_replace_all Api.lit_ok
                None FNamespaceURI n_za I) as (q & E & H).
    exists q. split; [exact E|]. split; [rewrite H; reflexivity|].
    vm_compute in E. inversion E; subst q. vm_compute. reflexivity.
Qed.

End Examples.
