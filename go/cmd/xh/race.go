package main

import (
	"fmt"
	"os"
	"strconv"
	"sync"

	"github.com/antchfx/xpath"
	"verif/internal/doc"
	"verif/internal/gen"
)

func init() {
	extras["race"] = raceMain
	extras["cacherace"] = cacheRaceMain
	extras["regexrace"] = func(args []string) { raceOnlyRegex = true; raceMain(args) }
}

// regexrace: the regular-expression functions over node-set and computed arguments, shared by all
// goroutines (C16: the functions answer for THEIR context node whatever other goroutines do)
var raceOnlyRegex bool
var regexRaceCorpus = []string{
	`matches(b, '^1')`, `matches(b/@x, '^1')`, `//b[matches(@x, '1')]`, `//b[matches(@x, '^[0-9]$')]/@x`, `replace(b/@x, '1', 'z')`,
	`replace(//b[2]/@x, '(2)', '[$1]')`, `matches(//b[3]/@x, '^1[0-9]')`, `//*[matches(name(), '^[bc]$')]`, `replace(name(*[1]), 'b', 'q')`,
	`matches(c, '')`, `count(//b[matches(@x, '2')])`, `//b[replace(@x, '1', '') = '2']`, `matches(., 't')`, `replace(string(@x), '0', 'o')`,
	`matches(b[2]/@x, concat('^', b[2]/@x, '$'))`, `replace(b[last()]/@x, b[1]/@x, '-')`, `//b[matches(c/b/@x, '3')]`, `matches(*[2]/@x, '^2$') and matches(*[1]/@x, '^1$')`,
}

// raceCorpus: every query type and every function occurs at least once
var raceCorpus = []string{
	`//b[ancestor::a]`, `count(//b) + count(//c[following::b])`, `string-join(//b/@x, ",")`, `//a/b[2]`, `(//b)[last()]`,
	`//b | //c`, `concat(name(//b), "-", local-name(//c), namespace-uri(//b))`, `matches(string(//b/@x), "^[0-9]+$")`, `replace("abc", "(b)", "[$1]")`,
	`normalize-space(" a  b ")`, `//b[position() = last()]`, `reverse(//b)`, `sum(//@x)`, `boolean(//c) and not(//zz)`, `translate("abc","ab","x")`,
	`//c[following::b]`, `//b[preceding::c]/@x`, `lower-case(name(/*))`, `substring("12345", 2, 3)`, `//b[contains(@x, "1")]`,
	`//b[starts-with(@x,"1") or ends-with(@x,"2")]`, `//c/ancestor-or-self::*`, `//c/preceding-sibling::*`, `//b/following-sibling::b[1]`, `//b/parent::a/child::node()`,
	`//a//b//c`, `/descendant::b[c]/descendant::node()`, `//b/self::b/..`, `a/(b, c)`, `string-length(//b) + floor(1.5) - ceiling(0.2) * 2 div 3 mod 2`,
	`round(1.5)`, `number(//b/@x) < 2`, `//b[@x = //b/@x]`, `//*[last() - 1]`, `substring-before("a-b","-") = substring-after("b-a","-")`,
	`//b[not(c)][1]`, `//text()`, `//comment() | //@*`, `string(//b[2]/@x)`, `matches("aab", "a+b")`, `replace("aab", "a(a)", "$1$1")`,
	`true() != false()`, `//b[c][@x > 1]`, `descendant-or-self::b/descendant::b`, `//b[last()]`, `count(//b[position() < 3])`,
	`floor(//b/@x + 1)`, `string(//b/@x + 0)`, `concat('p=', //b/@x + 1, '|', -//b/@x)`, `ceiling(count(//c) div 2)`, `number(//b/@x * 2) > 1`,
	`string((//b)[2]/@x)`, `count((//c)[1])`, `name((//*)[3])`, `concat(concat(//b/@x, '-'), normalize-space(' a '))`, `concat(normalize-space(//b), concat('x', 'y'))`,
	`matches(string(//b[2]/@x), concat('^', //b[2]/@x, '$'))`, `replace(string(//b/@x), string(//b/@x), 'q')`, `substring-after(string(//b[3]/@x), '1')`,
	`//éa/αβ`, `//*[@ü]`, `//中文[@属='值']`, `count(//καλημέρα | //привет)`, `//ひらがな/한글`, `//éa[αβ or ü]`,
	`//b[count((c)[1]) = 1]`, `//*[string((*)[1]) = '']`, `//b[@x = 2 or c/b[1]]`, `sum((//b/@x)[position() < 3])`, `//b/@x[. > 1] | //c[1]`,
}

func obsAll(e *xpath.Expr, root *doc.Node, all []doc.Ref) []string {
	var out []string
	for _, r := range all {
		d := &docEntry{root, false}
		out = append(out, doEvaluate(e, d, r)+"|"+doSelect(e, d, r))
	}
	return out
}

// raceMain: k goroutines share every compiled expression; each uses its own navigators.
// Prints one line per mismatch; the race detector reports on stderr (exit code 66).
func raceMain(args []string) {
	seed, _ := strconv.ParseUint(args[0], 10, 64)
	rounds, _ := strconv.Atoi(args[1])
	k := 8
	r := gen.NewRand(seed)
	root := doc.Parse(`a(@x=0,b(@x=1,c),b(@x=2,c(b(@x=3))),"t",#k,b(@x=12,c,c))`)
	all := doc.All(root)
	corpus := append([]string{}, raceCorpus...)
	if raceOnlyRegex {
		corpus = append([]string{}, regexRaceCorpus...)
	}
	// plus generated expressions of the other properties' fragments
	g := &G{r: r, predAxes: allAxes}
	for i := 0; i < 40 && !raceOnlyRegex; i++ {
		corpus = append(corpus, gen.Str(g.validExpr(), both[i%2]))
	}
	// scalar expressions of the other properties' generators and the targeted families
	gf := &G{r: r, predAxes: flatAxes}
	for i := 0; i < 60 && !raceOnlyRegex; i++ {
		var e gen.Ex
		switch i % 6 {
		case 0:
			e = gf.aexp(3)
		case 1:
			e = gf.sExpr(3)
		case 2:
			e = gf.ctxRestore([]string{"bool", "cmp", "arith", "union", "string"}[(i/6)%5])
		case 3:
			fs := gf.funcsOverArg(gf.statefulArg(), []string{"numeric", "string", "name", "bool", "seq"}[(i/6)%5])
			e = fs[r.Intn(len(fs))]
		case 4:
			e = gen.Bin{Op: cmpOps[r.Intn(6)], L: gf.anyOperand(), R: gf.anyOperand()}
		default:
			e = gf.boolPred(2)
		}
		corpus = append(corpus, gen.Str(e, both[i%2]))
	}
	// distinct regular expressions: cache misses overlapping in time
	for i := 0; i < 24; i++ {
		corpus = append(corpus, fmt.Sprintf(`matches(string(//b[2]/@x), concat('^[%d-9]', '*$'))`, i%9), fmt.Sprintf(`replace('a%db', concat('%d', ''), 'x')`, i, i))
	}
	var compiled []*xpath.Expr
	var want [][]string
	var texts []string
	for _, s := range corpus {
		e, err := xpath.Compile(s)
		if err != nil {
			continue
		}
		fresh, _ := xpath.Compile(s)
		compiled = append(compiled, e)
		texts = append(texts, s)
		want = append(want, obsAll(fresh, root, all))
	}
	bad := 0
	var mu sync.Mutex
	// phase 1: every expression in turn is hammered by all goroutines at once (races on the
	// state of ONE compiled expression need simultaneous use of that expression)
	for j := range compiled {
		var wg sync.WaitGroup
		for gi := 0; gi < k; gi++ {
			wg.Add(1)
			go func(gi int) {
				defer wg.Done()
				for rep := 0; rep < rounds; rep++ {
					got := obsAll(compiled[j], root, all)
					for ci := range got {
						if got[ci] != want[j][ci] {
							mu.Lock()
							bad++
							if bad < 20 {
								fmt.Printf("MISMATCH\t%s\tctx=%s\tgot=%s\twant=%s\n", doc.Esc(texts[j]), all[ci].Addr(), got[ci], want[j][ci])
							}
							mu.Unlock()
						}
					}
				}
			}(gi)
		}
		wg.Wait()
	}
	// phase 2: different expressions at the same time, with concurrent Compile calls
	var wg sync.WaitGroup
	for gi := 0; gi < k; gi++ {
		wg.Add(1)
		go func(gi int) {
			defer wg.Done()
			for rep := 0; rep < rounds; rep++ {
				for i := range compiled {
					j := (i + gi*7 + rep) % len(compiled)
					got := obsAll(compiled[j], root, all)
					for ci := range got {
						if got[ci] != want[j][ci] {
							mu.Lock()
							bad++
							if bad < 20 {
								fmt.Printf("MISMATCH\t%s\tctx=%s\tgot=%s\twant=%s\n", doc.Esc(texts[j]), all[ci].Addr(), got[ci], want[j][ci])
							}
							mu.Unlock()
						}
					}
					if i%5 == gi%5 {
						if _, err := xpath.Compile(texts[(j+gi)%len(texts)]); err != nil {
							mu.Lock()
							bad++
							fmt.Printf("MISMATCH\tconcurrent Compile failed: %v\n", err)
							mu.Unlock()
						}
					}
				}
			}
		}(gi)
	}
	wg.Wait()
	// phase 3: all goroutines COMPILE at the same time: texts with non-ASCII names, digits and spaces,
	// valid and invalid (Compile is a function of the text whatever other goroutines compile)
	ctexts := []string{"//éa/αβ", "//*[@ü]", "//中文[@属='值']", "count(//καλημέρα | //привет)", "//ひらがな/한글", "//éa[αβ or ü]", "//a\u00a0b", "\u0661\u0662", "a\u2003=\u20031", "//α:β", "α:β", "//*[@ж > 1]",
		"//ñ/following-sibling::ö", "//\u4e2d/\u6587/\u5b57", "\u0663 + 1", "a\u0085", "//x[contains(., 'é')]", "//a", "//b[1]", "concat('é', name(//ü))"}
	// names whose runes agree in their low byte across blocks (Latin-1, Cyrillic, Katakana, CJK, Hangul):
	// whatever small table a scanner keeps per rune, these keep evicting each other
	for _, lo := range []rune{0xE9, 0xF1, 0xE0, 0xC9, 0xD1} {
		for _, hi := range []rune{0x0000, 0x0400, 0x3000, 0x4E00, 0xAC00} {
			ctexts = append(ctexts, "//"+string(hi+lo)+"/"+string(hi+lo)+string(0x4E00+lo), "//*[@"+string(hi+lo)+" = 1]")
		}
	}
	var cwant []string
	for _, t := range ctexts {
		_, err := xpath.Compile(t)
		cwant = append(cwant, fmt.Sprint(err == nil))
	}
	for gi := 0; gi < k; gi++ {
		wg.Add(1)
		go func(gi int) {
			defer wg.Done()
			for rep := 0; rep < 40*rounds; rep++ {
				for i := range ctexts {
					j := (i + gi*3 + rep) % len(ctexts)
					_, err := xpath.Compile(ctexts[j])
					if fmt.Sprint(err == nil) != cwant[j] {
						mu.Lock()
						bad++
						if bad < 20 {
							fmt.Printf("MISMATCH\tconcurrent Compile(%s) ok=%v, alone ok=%s\n", doc.Esc(ctexts[j]), err == nil, cwant[j])
						}
						mu.Unlock()
					}
				}
			}
		}(gi)
	}
	wg.Wait()
	fmt.Printf("RACE-RUN\texprs=%d\tgoroutines=%d\trounds=%d\tevaluations=%d\tmismatches=%d\n", len(compiled), k, rounds, 2*len(compiled)*k*rounds*len(all)*2, bad)
	if bad > 0 {
		os.Exit(1)
	}
}

// cacheRaceMain: concurrent gets on one cache with invariant probes.
func cacheRaceMain(args []string) {
	seed, _ := strconv.ParseUint(args[0], 10, 64)
	rounds, _ := strconv.Atoi(args[1])
	bad := 0
	var mu sync.Mutex
	total := 0
	for capacity := 0; capacity <= 4; capacity++ {
		c := xpath.VerifNewCache(demoLoad, capacity)
		var wg sync.WaitGroup
		for gi := 0; gi < 8; gi++ {
			wg.Add(1)
			go func(gi int) {
				defer wg.Done()
				r := gen.NewRand(seed*131 + uint64(gi))
				for i := 0; i < rounds*50; i++ {
					k := r.Intn(9)
					v, err := c.Get(k)
					wv, werr := demoLoad(k)
					okv := (err == nil) == (werr == nil) && (err != nil || v.(int) == wv.(int))
					n, cp, _ := c.Stats()
					okn := cp == 0 || n <= cp
					if !okv || !okn {
						mu.Lock()
						bad++
						if bad < 10 {
							fmt.Printf("MISMATCH\tcache cap=%d key=%d value=%v err=%v len=%d\n", capacity, k, v, err, n)
						}
						mu.Unlock()
					}
				}
			}(gi)
		}
		wg.Wait()
		total += 8 * rounds * 50
		// every remaining entry is exact
		for _, key := range c.Keys() {
			v, _ := c.Peek(key)
			wv, werr := demoLoad(key)
			if werr != nil || v.(int) != wv.(int) {
				bad++
				fmt.Printf("MISMATCH\tcache entry key=%v value=%v\n", key, v)
			}
		}
	}
	// the package-level regexp cache, used through matches()/replace() from many goroutines
	var wg sync.WaitGroup
	pats := []string{"a+", "b*c", "[0-9]+", "(a)(b)", "x|y", "^a", "c$", "(?i)q"}
	for gi := 0; gi < 8; gi++ {
		wg.Add(1)
		go func(gi int) {
			defer wg.Done()
			for i := 0; i < rounds*5; i++ {
				p := pats[(i+gi)%len(pats)]
				e, err := xpath.Compile(`matches("aabc1", "` + p + `")`)
				if err != nil {
					mu.Lock()
					bad++
					mu.Unlock()
					continue
				}
				d := &docEntry{root: doc.Parse("a")}
				doEvaluate(e, d, doc.Ref{N: d.root, Attr: -1})
			}
		}(gi)
	}
	wg.Wait()
	fmt.Printf("CACHE-RACE-RUN\tgets=%d\tmismatches=%d\n", total, bad)
	if bad > 0 {
		os.Exit(1)
	}
}
