(* Proofs/CursorSummary.v — the headline theorems of the cursor-level development in one place.
   Nothing is proved here: every statement is closed by [exact] of the theorem that proves it.

   The cursor-level model (Model1/Iter.v, Iter2.v, Iter3.v, Clone3.v) transliterates the Go code
   method by method: every query struct is a state record, Select / Evaluate / Clone are functions
   on those records, t.Current() is a cursor threaded through the calls, Go's `for {}` loops carry a
   fuel parameter F (all results hold for every F above a bound F0).  The list-level model (Eval.v,
   Api.v) computes whole result lists.  Given everywhere: the document D, has_ns, the
   identity hash hc, and the regexp package (rm, rn, rr).

     1  cursor_refines_list        Select loop of the code  =  list-level result          (IterRefine4)
     2  nil_is_final               iterator protocol: after nil, nil for ever              (IterProtocol3)
     3  clone_is_fresh             Clone of an object in ANY state behaves as a new one    (CloneRefine3)
     3' clone_leaves_original      ... and running it leaves the original as it was        (FrameRefine3)
     4  api_history_independent    C04: Expr.Select / Evaluate after any history           (ApiRefine3)
     5  interleaving_independent   C05: any number of threads, any schedule                (ConcRefineN)
     5' goroutines_get_list_level_answers   C05 against Api.select / Api.evaluate          (ApiConc3)

   Coverage: m1_supported4 = every query type except lastFuncQuery (whose Evaluate caches its count
   for the life of the object: LastFuncModel.v, CloneLastFunc3.v), node-set operators applied to
   node-set queries; frame_wf = the same typing, lastFuncQuery included, concat's arguments a list. *)
From XP Require Import Base F64 Doc Ast Hash Eval Api.
From XP.Model1 Require Import Iter Iter2 Iter3 Clone3.
From XP.Proofs Require Import IterRefine3 IterRefine4 IterProtocol3 CloneRefine3 ApiRefine3 FrameRefine3
     ConcRefine3 ConcRefineN ApiConc3.
Open Scope nat_scope.
Open Scope list_scope.

Section Summary.
Variable D : tree.
Variable has_ns : bool.
Variable hc : node -> N.
Variable rm : string -> string -> option bool.
Variable rn : string -> nat.
Variable rr : string -> string -> string -> string.

(** 1. REFINEMENT.  Take a freshly built query q and a context node c.  If the list-level model gives
    the items l (node, position, depth), then the loop  for { n := q.Select(t); if n == nil {break} }
    of the code, run for more than |l| rounds, delivers exactly l in that order, with position()
    and depth as the code computes them, then nil; and t.Current() is back on c. *)
Theorem cursor_refines_list : forall q, m1_supported4 q = true ->
  forall c l, sel D has_ns hc rm rn rr q c = Val l ->
  exists F0, forall F n, F0 <= F -> List.length l < n ->
    drain_items3 D has_ns hc rm rn rr F n (fresh3 q) c = l /\
    drain3 D has_ns hc rm rn rr F n (fresh3 q) c = nodes_of l /\
    exists st', run3 D has_ns hc rm rn rr F n (fresh3 q) c = (l, E_nil, st', c).
Proof. exact (m1_refines_m2_all4 D has_ns hc rm rn rr). Qed.

(** 2. PROTOCOL.  From ANY state s of a well-typed query (Inv3: only that the index of a reverse iterator
    lies within its list), once Select has returned nil, every later Select -- whatever t.Current()
    is then -- returns nil again and leaves t.Current() alone (all_nil, for any number k of calls). *)
Theorem nil_is_final : forall F q, wt3 q = true ->
  forall s cur st' cur', 1 <= F -> Inv3 q s ->
    select3 D has_ns hc rm rn rr F (existT _ q s) cur = R None st' cur' ->
    forall k, all_nil D has_ns hc rm rn rr F k st'.
Proof. exact (nil_is_final3 D has_ns hc rm rn rr). Qed.

(** 3. CLONE.  q.Clone() of an object in ANY state s (half consumed, exhausted, junk) delivers, like a
    new object, the list-level result of q. *)
Theorem clone_is_fresh : forall q, m1_supported4 q = true ->
  forall c l, sel D has_ns hc rm rn rr q c = Val l ->
  exists F0, forall F n, F0 <= F -> List.length l < n -> forall s : state3 q,
    exists st', run3 D has_ns hc rm rn rr F n (clone3 (existT _ q s)) c = (l, E_nil, st', c).
Proof. exact (clone_forgets3 D has_ns hc rm rn rr). Qed.

(** 3'. A clone shares with its original only the argument queries captured by functionQuery closures.
    Whatever is done with the clone (any list l of Select / Evaluate calls from any context nodes,
    ending in state k), the original -- with the shared objects as the clone left them, absorb3 --
    is exactly the (q, s) it was. *)
Theorem clone_leaves_original : forall F q, frame_wf q = true ->
  forall (s : state3 q) l k,
    calls3 D has_ns hc rm rn rr F (clone_cfg3 q) l (clone_state3 q s) = Some k -> absorb3 q k s = s.
Proof. exact (clone_independent3_all D has_ns hc rm rn rr). Qed.

(** 5. CONCURRENCY.  A pool of threads works on ONE compiled expression; each thread clones it and then
    makes its Select / Evaluate calls on the clone, reading the aliased closure objects from shared
    memory at every step (ConcRefine3.tstep).  A schedule is any list of thread indices.  Then the
    shared tree ends as it started, and thread i is in exactly the state -- observations included --
    it reaches running alone for as many steps as the schedule gave it. *)
Theorem interleaving_independent : forall F q, frame_wf q = true ->
  forall (sched : list nat) (s0 : state3 q) (pool : list (thread q)),
    Forall (TInv q s0) pool ->
    fst (run_schedN D has_ns hc rm rn rr F q sched s0 pool) = s0 /\
    List.length (snd (run_schedN D has_ns hc rm rn rr F q sched s0 pool)) = List.length pool /\
    forall i t, nth_error pool i = Some t ->
      nth_error (snd (run_schedN D has_ns hc rm rn rr F q sched s0 pool)) i =
      Some (solo D has_ns hc rm rn rr F q s0 (turnsN i sched) t).
Proof. exact (interleaving_independentN D has_ns hc rm rn rr). Qed.

End Summary.

Section SummaryApi.
Variable rm : string -> string -> option bool.
Variable rn : string -> nat.
Variable rr : string -> string -> string -> string.
Variable hcode : tree -> node -> N.

(** 4. API (C04).  expr := Compile(...) holds the tree q in some state e0.  A history h is any list of
    Expr.Select / Expr.Evaluate calls (any documents and context nodes, their iterators advanced any
    number of times) and of steps that put the shared tree into an arbitrary state.  After it, a new
    call o observes [expected o]: the first n nodes of Api.select / the value of Api.evaluate. *)
Theorem api_history_independent : forall q, m1_supported4 q = true ->
  forall (o : op3 q) ob, expected rm rn rr hcode q o = Some ob ->
  exists F0, forall F, F0 <= F -> forall (h : list (op3 q)) (e0 : state3 q),
    snd (step3 rm rn rr hcode q F (run_api3 rm rn rr hcode q F h e0) o) = ob.
Proof. exact (api_history_independent3 rm rn rr hcode). Qed.

(** 5'. API AND CONCURRENCY (C05).  Any number of goroutines each make one API call ops[i] on the same
    compiled expression (tree in any state s0), their atomic steps -- Clone, Evaluate, MoveNext --
    interleaved by any schedule.  Every goroutine that was given the turns its call needs has
    observed the list-level answer [expected], and the shared tree is unchanged. *)
Theorem goroutines_get_list_level_answers : forall D has_ns q,
  m1_supported4 q = true -> frame_wf q = true ->
  forall (ops : list aop),
  exists F0, forall F, F0 <= F -> forall (sched : list nat) (s0 : state3 q),
    let res := grun (astep rm rn rr hcode D has_ns F q) sched s0 (map (APending q) ops) in
    fst res = s0 /\
    forall i o ob, nth_error ops i = Some o ->
      expected rm rn rr hcode q (op_of D has_ns q o) = Some ob ->
      steps_needed o <= turnsN i sched ->
      nth_error (snd res) i = Some (ADone q ob).
Proof. exact (api_calls_any_schedule3 rm rn rr hcode). Qed.

End SummaryApi.

Print Assumptions cursor_refines_list.
Print Assumptions nil_is_final.
Print Assumptions clone_is_fresh.
Print Assumptions clone_leaves_original.
Print Assumptions api_history_independent.
Print Assumptions interleaving_independent.
Print Assumptions goroutines_get_list_level_answers.
