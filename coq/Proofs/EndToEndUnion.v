(* Proofs/EndToEndUnion.v — property C11, end to end: the union of two
   predicate-free location paths, at the level of TEXTS.

   For path syntaxes P1 P2 (EndToEndPaths.path_syntax) the text  P1 | P2
   (minimal print, one space per token, or ANY white-space layout) compiles
   to  QUnion q1 q2  and Select from every valid context node c returns a
   list l such that
     (a) NoDup l                                   -- unconditionally
     (b) n in l  <->  n in [[P1]](c) or n in [[P2]](c)
                                                   -- collision-free identity codes
     (c) l = the nodes of P1 followed by the nodes of P2, later occurrences
         removed ([dedup_first]).
   The requested "(c) document order" is FALSE of the model (and of the
   engine's unionQuery, which never sorts): see [union_not_doc_order] below.
   What does hold: for operands that only use child / attribute / self steps
   each operand list is in document order, and the result is in document
   order exactly when their concatenation is (clauses (d) (e) of [union_result]).

   Hypotheses: exactly those of BuildPath / HashInj: [hash_ok hcode (all_nodes D)];
   for the engine's code [hash_code D] it follows from [wf_attrs],
   [no_inner_root] and [fnv_ok D (all_nodes D)] ([hash_ok_engine]). *)
From XP Require Import Base F64 Doc Ast Scan Parse Build Hash Eval Api.
From XP.Spec Require Import Axes Paths.
From XP.Proofs Require Import ParseTerm ScanTokens RoundTripOps RoundTripPaths RoundTripWs
                              DocOrder HashInj AxesSound PathSem BuildPath BuildFacts
                              BuildOps EndToEndPaths EndToEndPred EndToEndPos.
Require Import Lia.
Open Scope string_scope.
Open Scope nat_scope.
Open Scope list_scope.

(* ------------------------------------------------------------------ *)
(** * 1. The engine's identity code on a whole document                 *)
(* ------------------------------------------------------------------ *)

Lemma all_nodes_valid : forall D x, In x (all_nodes D) -> valid D x = true.
Proof.
  intros D x H. unfold all_nodes in H. apply in_flat_map in H. destruct H as (n & Hn & Hx).
  apply (in_desc_or_self D root_node n (valid_root D)) in Hn.
  assert (Hv : valid D n = true /\ nattr n = None).
  { destruct Hn as [->|(Hv & _ & Ha & _)]; [split; reflexivity|split; assumption]. }
  destruct Hv as [Hv Ha]. destruct Hx as [<-|Hx]; [exact Hv|].
  apply (in_attributes_after_elem D n x Hv Ha) in Hx. tauto.
Qed.

Theorem hash_ok_engine : forall D,
  wf_attrs D = true -> no_inner_root D = true -> fnv_ok D (all_nodes D) ->
  hash_ok (hash_code D) (all_nodes D).
Proof. intros D WF NR F. apply hash_ok_hash_code; try assumption. apply all_nodes_valid. Qed.

(* ------------------------------------------------------------------ *)
(** * 2. Syntax                                                         *)
(* ------------------------------------------------------------------ *)

Definition union_px (p1 p2 : px) : px := XBin BUnion p1 p2.

Lemma path_syntax_lvl : forall p, path_syntax p -> xlvl p = 8.
Proof. intros p [r H]. destruct p; try discriminate. reflexivity. Qed.

Lemma union_wf : forall p1 p2, path_syntax p1 -> path_syntax p2 ->
  xwf (union_px p1 p2) /\ xdepth (union_px p1 p2) = 0 /\
  xast (union_px p1 p2) = AOp "|" (xast p1) (xast p2).
Proof.
  intros p1 p2 H1 H2. destruct (path_syntax_wf p1 H1) as [W1 D1]. destruct (path_syntax_wf p2 H2) as [W2 D2].
  unfold union_px. cbn [xwf xdepth xast level opname]. rewrite D1, D2.
  rewrite (path_syntax_lvl p1 H1), (path_syntax_lvl p2 H2). repeat split; try assumption; lia.
Qed.

(* white space never matters for Compile (any expression of the round-trip grammar) *)
Lemma compile_layout_independent : forall re_ok ns w e,
  ws_fun w -> xwf e -> xok e -> xdepth e < max_depth ->
  compile re_ok (print_ws w e) ns = compile re_ok (print_min e) ns /\
  compile re_ok (print_sp e) ns = compile re_ok (print_min e) ns.
Proof.
  intros re_ok ns w e Hw Hwf Hok Hd.
  pose proof (roundtrip_print_min ns e Hwf Hok Hd) as E2.
  pose proof (roundtrip_print_sp ns e Hwf Hok Hd) as E3.
  pose proof (C10_white_space ns w e Hw Hwf Hok Hd) as E1. rewrite E2 in E1.
  assert (N1 : print_ws w e <> "") by (intros E; rewrite E in E1; exact (EndToEndPaths.parse_empty _ _ E1)).
  assert (N2 : print_min e <> "") by (intros E; rewrite E in E2; exact (EndToEndPaths.parse_empty _ _ E2)).
  assert (N3 : print_sp e <> "") by (intros E; rewrite E in E3; exact (EndToEndPaths.parse_empty _ _ E3)).
  unfold compile, compile_fuel, build_fuel.
  apply String.eqb_neq in N1, N2, N3. rewrite N1, N2, N3.
  unfold parse in E1, E2, E3. rewrite E1, E2, E3. split; reflexivity.
Qed.

(* ------------------------------------------------------------------ *)
(** * 3. End to end                                                     *)
(* ------------------------------------------------------------------ *)

Section E2E.
Variable D : tree.
Variable has_ns : bool.
Variable hcode : node -> N.
Variable rm : string -> string -> option bool.
Variable rn : string -> nat.
Variable rr : string -> string -> string -> string.
Variable re_ok : string -> bool.
Variable ns : nsmap.

Notation SEL := (sel D has_ns hcode rm rn rr).

(* what the union query returns from c *)
Definition union_result (q : query) (abs1 : bool) (steps1 : list sstep)
                        (abs2 : bool) (steps2 : list sstep) : Prop :=
  forall c, valid D c = true ->
  exists a b u,
    (* the operands: the denotations of the two paths *)
    (forall n, In n (nodes_of a) <-> path_den D has_ns steps1 (if abs1 then root_node else c) n) /\
    (forall n, In n (nodes_of b) <-> path_den D has_ns steps2 (if abs2 then root_node else c) n) /\
    SEL q c = Val u /\
    (* (a) no node twice *)
    NoDup (nodes_of u) /\
    (* (b) the set union *)
    (forall n, In n (nodes_of u) <->
       path_den D has_ns steps1 (if abs1 then root_node else c) n \/
       path_den D has_ns steps2 (if abs2 then root_node else c) n) /\
    (forall n, In n (nodes_of u) -> valid D n = true) /\
    (* (c) the order: left operand, then the new nodes of the right operand *)
    nodes_of u = dedup_first (nodes_of a ++ nodes_of b) /\
    (* (d) flat operands are in document order *)
    (Forall flat_step steps1 -> sorted_doc (nodes_of a)) /\
    (Forall flat_step steps2 -> sorted_doc (nodes_of b)) /\
    (* (e) the result is in document order when the concatenation is *)
    (sorted_doc (nodes_of a ++ nodes_of b) ->
       nodes_of u = nodes_of a ++ nodes_of b /\ sorted_doc (nodes_of u)).

Lemma path_tree_flat : forall abs rs a d fi q pr fo,
  rpath_ast abs rs (Some a) -> rs <> [] ->
  process re_ok d a fl_none fi = Ok (q, pr, fo) -> Forall flat_step rs -> flat_query q.
Proof.
  intros abs rs a d fi q pr fo HA Hne E HF.
  destruct (rpath_ast_some_inv abs rs a HA Hne) as (s & r & prop & inp & -> & -> & _).
  apply (flat_out re_ok abs _ _ HA HF d fl_none q pr). cbn [proc_opt].
  rewrite <- (process_step_fi re_ok d s prop inp fl_none fi), E. reflexivity.
Qed.

Theorem build_union : forall abs1 steps1 a1 abs2 steps2 a2,
  hash_ok hcode (all_nodes D) ->
  rpath_ast abs1 (rev steps1) (Some a1) -> steps1 <> [] ->
  rpath_ast abs2 (rev steps2) (Some a2) -> steps2 <> [] ->
  List.length steps1 + 1 < max_build_depth -> List.length steps2 + 1 < max_build_depth ->
  exists q1 q2, operands_build re_ok a1 a2 q1 q2 /\ union_result (QUnion q1 q2) abs1 steps1 abs2 steps2.
Proof.
  intros abs1 steps1 a1 abs2 steps2 a2 Hh HA1 Hn1 HA2 Hn2 Hl1 Hl2.
  assert (Hr1 : rev steps1 <> []) by (intros E; apply Hn1; rewrite <- (rev_involutive steps1), E; reflexivity).
  assert (Hr2 : rev steps2 <> []) by (intros E; apply Hn2; rewrite <- (rev_involutive steps2), E; reflexivity).
  destruct (path_tree_builds D has_ns hcode rm rn rr Hh re_ok abs1 (rev steps1) a1 1 fi_nil HA1 Hr1)
    as (q1 & pr1 & fi1 & E1 & _ & Hq1).
  { rewrite rev_length. destruct abs1; lia. }
  destruct (path_tree_builds D has_ns hcode rm rn rr Hh re_ok abs2 (rev steps2) a2 1 fi1 HA2 Hr2)
    as (q2 & pr2 & fi2 & E2 & _ & Hq2).
  { rewrite rev_length. destruct abs2; lia. }
  exists q1, q2. split; [exists pr1, fi1, pr2, fi2; split; assumption|].
  intros c Hc.
  destruct (Hq1 c Hc) as (a & Ea & Hva & Hina). destruct (Hq2 c Hc) as (b & Eb & Hvb & Hinb).
  destruct (sel_union D has_ns hcode rm rn rr q1 q2 c a b Ea Eb) as (u & Eu & Hnd & _ & Hok).
  assert (OK : hash_ok hcode (nodes_of a ++ nodes_of b)).
  { apply (hash_ok_incl hcode (all_nodes D)); [|exact Hh].
    intros x Hx. apply valid_in_all_nodes. apply in_app_or in Hx. destruct Hx; auto. }
  destruct (Hok OK) as [Hmem Hord].
  assert (P1 : forall n, In n (nodes_of a) <-> path_den D has_ns steps1 (if abs1 then root_node else c) n)
    by (intros n; rewrite (Hina n); apply (P_of_rev D has_ns)).
  assert (P2 : forall n, In n (nodes_of b) <-> path_den D has_ns steps2 (if abs2 then root_node else c) n)
    by (intros n; rewrite (Hinb n); apply (P_of_rev D has_ns)).
  exists a, b, u. split; [exact P1|]. split; [exact P2|]. split; [exact Eu|]. split; [exact Hnd|].
  split; [intros n; rewrite (Hmem n), (P1 n), (P2 n); reflexivity|].
  split; [intros n Hn; apply Hmem in Hn; destruct Hn; auto|].
  split; [exact Hord|].
  split; [|split].
  - intros HF. apply (flat_sorted_any D has_ns hcode rm rn rr q1 c a); [|exact Ea].
    apply (path_tree_flat abs1 (rev steps1) a1 1 fi_nil q1 pr1 fi1 HA1 Hr1 E1). apply Forall_rev. exact HF.
  - intros HF. apply (flat_sorted_any D has_ns hcode rm rn rr q2 c b); [|exact Eb].
    apply (path_tree_flat abs2 (rev steps2) a2 1 fi1 q2 pr2 fi2 HA2 Hr2 E2). apply Forall_rev. exact HF.
  - intros Hs. rewrite Hord. rewrite (dedup_first_id _ (sorted_doc_NoDup _ Hs)). split; [reflexivity|exact Hs].
Qed.

(** P1 | P2, any white-space layout *)
Theorem C11_union_end_to_end : forall p1 p2 abs1 steps1 abs2 steps2,
  path_syntax p1 -> steps_of p1 = (abs1, steps1) ->
  path_syntax p2 -> steps_of p2 = (abs2, steps2) ->
  xok (union_px p1 p2) ->
  List.length steps1 + 1 < max_build_depth -> List.length steps2 + 1 < max_build_depth ->
  hash_ok hcode (all_nodes D) ->
  exists q,
    compile re_ok (print_min (union_px p1 p2)) ns = Ok q /\
    compile re_ok (print_sp (union_px p1 p2)) ns = Ok q /\
    (forall w, ws_fun w -> compile re_ok (print_ws w (union_px p1 p2)) ns = Ok q) /\
    union_result q abs1 steps1 abs2 steps2.
Proof.
  intros p1 p2 abs1 steps1 abs2 steps2 Hp1 Hs1 Hp2 Hs2 Hok Hl1 Hl2 Hh.
  destruct (union_wf p1 p2 Hp1 Hp2) as (Hwf & Hd & Hast).
  assert (Hdd : xdepth (union_px p1 p2) < max_depth) by (rewrite Hd; unfold max_depth; lia).
  destruct (build_union abs1 steps1 (xast p1) abs2 steps2 (xast p2) Hh
              (xast_path_shape p1 abs1 steps1 Hp1 Hs1) (steps_of_ne p1 abs1 steps1 Hp1 Hs1)
              (xast_path_shape p2 abs2 steps2 Hp2 Hs2) (steps_of_ne p2 abs2 steps2 Hp2 Hs2) Hl1 Hl2)
    as (q1 & q2 & Hb & Hres).
  assert (Hparse : parse (print_min (union_px p1 p2)) ns = Ok (AOp "|" (xast p1) (xast p2))).
  { rewrite <- Hast. apply roundtrip_print_min; assumption. }
  pose proof (compile_operator re_ok _ ns "|" QUnion _ _ q1 q2 Hparse OC_union Hb) as Ec.
  exists (QUnion q1 q2). split; [exact Ec|]. split; [|split; [|exact Hres]].
  - rewrite (proj2 (compile_layout_independent re_ok ns (fun _ => []) _ ltac:(intros i; reflexivity) Hwf Hok Hdd)).
    exact Ec.
  - intros w Hw. rewrite (proj1 (compile_layout_independent re_ok ns w _ Hw Hwf Hok Hdd)). exact Ec.
Qed.

(** Select (Api.v) *)
Corollary C11_union_select : forall (hc : tree -> node -> N) p1 p2 abs1 steps1 abs2 steps2,
  hcode = hc D ->
  path_syntax p1 -> steps_of p1 = (abs1, steps1) ->
  path_syntax p2 -> steps_of p2 = (abs2, steps2) ->
  xok (union_px p1 p2) ->
  List.length steps1 + 1 < max_build_depth -> List.length steps2 + 1 < max_build_depth ->
  hash_ok hcode (all_nodes D) ->
  exists q, compile re_ok (print_min (union_px p1 p2)) ns = Ok q /\
    forall c, valid D c = true ->
    exists l, select rm rn rr hc D has_ns q c = Val l /\ NoDup l /\
      (forall n, In n l <->
         path_den D has_ns steps1 (if abs1 then root_node else c) n \/
         path_den D has_ns steps2 (if abs2 then root_node else c) n).
Proof.
  intros hc p1 p2 abs1 steps1 abs2 steps2 Ehc Hp1 Hs1 Hp2 Hs2 Hok Hl1 Hl2 Hh.
  destruct (C11_union_end_to_end p1 p2 abs1 steps1 abs2 steps2 Hp1 Hs1 Hp2 Hs2 Hok Hl1 Hl2 Hh)
    as (q & Ec & _ & _ & Hres).
  exists q. split; [exact Ec|]. intros c Hc.
  destruct (Hres c Hc) as (a & b & u & _ & _ & Eu & Hnd & Hmem & _).
  exists (nodes_of u). split; [|split; assumption].
  unfold select. rewrite <- Ehc, Eu. reflexivity.
Qed.

End E2E.

Print Assumptions C11_union_end_to_end.
Print Assumptions C11_union_select.

(** the engine's identity code: the hypotheses of Props/C11.v *)
Corollary C11_union_engine_end_to_end : forall D has_ns rm rn rr re_ok ns p1 p2 abs1 steps1 abs2 steps2,
  wf_attrs D = true -> no_inner_root D = true -> fnv_ok D (all_nodes D) ->
  path_syntax p1 -> steps_of p1 = (abs1, steps1) ->
  path_syntax p2 -> steps_of p2 = (abs2, steps2) ->
  xok (union_px p1 p2) ->
  List.length steps1 + 1 < max_build_depth -> List.length steps2 + 1 < max_build_depth ->
  exists q, compile re_ok (print_min (union_px p1 p2)) ns = Ok q /\
    forall c, valid D c = true ->
    exists l, select rm rn rr hash_code D has_ns q c = Val l /\ NoDup l /\
      (forall n, In n l <->
         path_den D has_ns steps1 (if abs1 then root_node else c) n \/
         path_den D has_ns steps2 (if abs2 then root_node else c) n).
Proof.
  intros D has_ns rm rn rr re_ok ns p1 p2 abs1 steps1 abs2 steps2 WF NR F Hp1 Hs1 Hp2 Hs2 Hok Hl1 Hl2.
  apply (C11_union_select D has_ns (hash_code D) rm rn rr re_ok ns hash_code p1 p2 abs1 steps1 abs2 steps2
           eq_refl Hp1 Hs1 Hp2 Hs2 Hok Hl1 Hl2 (hash_ok_engine D WF NR F)).
Qed.
Print Assumptions C11_union_engine_end_to_end.

(* ------------------------------------------------------------------ *)
(** * 4. Examples                                                       *)
(* ------------------------------------------------------------------ *)

Lemma NoDup_map_inj : forall {A B} (f : A -> B) l a b,
  NoDup (map f l) -> In a l -> In b l -> f a = f b -> a = b.
Proof.
  intros A B f l. induction l as [|x l IH]; intros a b N Ha Hb E; [destruct Ha|].
  cbn [map] in N. inversion N as [|? ? Hx N']; subst.
  destruct Ha as [->|Ha], Hb as [->|Hb]; try reflexivity.
  - exfalso. apply Hx. rewrite E. apply in_map. exact Hb.
  - exfalso. apply Hx. rewrite <- E. apply in_map. exact Ha.
  - apply IH; assumption.
Qed.

(* [fnv_ok] by computation on a concrete document *)
Lemma NoDup_codes_fnv_ok : forall D l,
  NoDup (map (fun n => fnv64a (hash_key D n) fnv_offset) l) -> fnv_ok D l.
Proof.
  intros D l N a b Ha Hb E.
  rewrite (NoDup_map_inj (fun n => fnv64a (hash_key D n) fnv_offset) l a b N Ha Hb E). reflexivity.
Qed.

Module Examples.
Import AxesSound.Examples EndToEndPaths.Examples.

(*   <a x="1" y="2"> <b>t</b> <c z="3"><d/><!--k--></c> <e/> </a>   *)
Example exD_engine_hyps : wf_attrs exD = true /\ no_inner_root exD = true /\ fnv_ok exD (all_nodes exD).
Proof.
  split; [reflexivity|]. split; [reflexivity|].
  apply NoDup_codes_fnv_ok. vm_compute.
  repeat (constructor; [cbn [In]; intuition discriminate|]). constructor.
Qed.

(*  a/c | a/*  : c is selected by both operands, and once in the result  *)
Definition u1 : px := XPath PRel (RCons (st_child "a") false (ROne (st_child "c"))).
Definition u2 : px := XPath PRel (RCons (st_child "a") false (ROne (SAxis AxChild NStar PNil))).
Example union_text :
  print_min (union_px u1 u2) = "a/c|a/*" /\ print_sp (union_px u1 u2) = "a / c | a / *".
Proof. split; vm_compute; reflexivity. Qed.

Example union_hyps :
  path_syntax u1 /\ path_syntax u2 /\ xok (union_px u1 u2) /\
  Forall flat_step (snd (steps_of u1)) /\ Forall flat_step (snd (steps_of u2)).
Proof.
  split; [apply path_syntax_b_ok; vm_compute; reflexivity|].
  split; [apply path_syntax_b_ok; vm_compute; reflexivity|].
  split; [vm_compute; reflexivity|]. split; vm_compute; repeat constructor.
Qed.

Example union_result_ex :
  exists q, compile Api.lit_ok "a/c|a/*" None = Ok q /\
    select lit_match lit_numsubexp lit_replace_all hash_code exD true q root_node = Val [n_c; n_b; n_e] /\
    (* through the theorem: the members are those of the two denotations *)
    forall n, In n [n_c; n_b; n_e] <->
      path_den exD true (snd (steps_of u1)) root_node n \/ path_den exD true (snd (steps_of u2)) root_node n.
Proof.
  destruct exD_engine_hyps as (WF & NR & F). destruct union_hyps as (H1 & H2 & Hok & _ & _).
  destruct (C11_union_engine_end_to_end exD true lit_match lit_numsubexp lit_replace_all Api.lit_ok None
              u1 u2 false (snd (steps_of u1)) false (snd (steps_of u2)) WF NR F H1 eq_refl H2 eq_refl Hok
              ltac:(vm_compute; lia) ltac:(vm_compute; lia)) as (q & Eq & Hsel).
  destruct union_text as [T _]. rewrite T in Eq. exists q. split; [exact Eq|].
  destruct (Hsel root_node eq_refl) as (l & El & _ & Hin).
  vm_compute in Eq. inversion Eq; subst q. vm_compute in El. inversion El; subst l.
  split; [vm_compute; reflexivity|exact Hin].
Qed.

(* NOT in document order: the left operand comes first.  c follows b in the
   document; the result of  a/c | a/*  is  c, b, e *)
Example union_not_doc_order :
  exists q l, compile Api.lit_ok "a/c|a/*" None = Ok q /\
    select lit_match lit_numsubexp lit_replace_all hash_code exD true q root_node = Val l /\
    ~ sorted_doc l /\ doc_compare n_b n_c = Lt.
Proof.
  eexists. eexists. split; [vm_compute; reflexivity|]. split; [vm_compute; reflexivity|].
  split; [|reflexivity]. intros H. inversion H as [|? ? _ HF]; subst. inversion HF as [|? ? Hb _]; subst.
  vm_compute in Hb. discriminate.
Qed.

(* the same two operands the other way round: document order, by clause (e) *)
Example union_sorted_when_concat_sorted :
  exists q, compile Api.lit_ok "a/b|a/c" None = Ok q /\
    select lit_match lit_numsubexp lit_replace_all hash_code exD true q root_node = Val [n_b; n_c].
Proof. eexists. split; [vm_compute; reflexivity|]. vm_compute. reflexivity. Qed.

End Examples.
