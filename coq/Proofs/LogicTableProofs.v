(* Proofs/LogicTableProofs.v — the comparison dispatch of /repo/operator.go, as read by
   go/cmd/genlogic on every run (Generated/LogicTable.v): result-type codes, getXPathType,
   the matrix logicalFuncs[left][right] and the operator spelling each of eqFunc..neFunc passes
   on, against the model's [compare_values].

   [cell_sem name] is what the model does where the Go matrix names the cell [name]; the theorem
   [logic_table_dispatch] says that for every operator and every pair of values of the four XPath
   kinds the model's compare_values is the semantics of the cell the REGENERATED matrix holds at
   [kind m][kind n] — so a swapped or replaced cell in operator.go breaks this proof. *)
From XP Require Import Base F64 Doc Ast Eval.
From XP.Generated Require Import LogicTable.
Open Scope string_scope.
Open Scope list_scope.

Section Dispatch.
Variable D : tree.

(* getXPathType: the index of a value in the matrix *)
Definition vkind (v : value) : option nat :=
  match v with
  | VBool _ => Some 0 | VNum _ => Some 1 | VStr _ => Some 2 | VNodes _ => Some 3
  | VInt _ | VNil => None
  end.

(* the model's behaviour, cell by cell, under the Go cell's name *)
Definition cell_sem (name : string) (op : cmpop) (m n : value) : option (outcome value) :=
  if String.eqb name "cmpBooleanAny" then
    Some (do b <- cmp_boolean_any D op m n; Val (VBool b))
  else match m, n with
  | VNum a, VNum b =>
    if String.eqb name "cmpNumericNumeric" then Some (Val (VBool (cmp_num op a b))) else None
  | VNum a, VStr b =>
    if String.eqb name "cmpNumericString" then Some (Val (VBool (cmp_num op a (string_to_number b)))) else None
  | VNum a, VNodes l =>
    if String.eqb name "cmpNumericNodeSet"
    then Some (Val (VBool (existsb (fun s => cmp_num op a (string_to_number s)) (values_of D l)))) else None
  | VStr a, VNum b =>
    if String.eqb name "cmpStringNumeric" then Some (Val (VBool (cmp_num op (string_to_number a) b))) else None
  | VStr a, VStr b =>
    if String.eqb name "cmpStringString" then Some (Val (VBool (cmp_str op a b))) else None
  | VStr a, VNodes l =>
    if String.eqb name "cmpStringNodeSet"
    then Some (Val (VBool (existsb (fun s => cmp_str op a s) (values_of D l)))) else None
  | VNodes l, VNum b =>
    if String.eqb name "cmpNodeSetNumeric"
    then Some (Val (VBool (existsb (fun s => cmp_num op (string_to_number s) b) (values_of D l)))) else None
  | VNodes l, VStr b =>
    if String.eqb name "cmpNodeSetString"
    then Some (Val (VBool (existsb (fun s => cmp_str op b s) (values_of D l)))) else None
  | VNodes l1, VNodes l2 =>
    if String.eqb name "cmpNodeSetNodeSet"
    then Some (Val (VBool (existsb (fun x => existsb (fun y => cmp_str op x y) (values_of D l2)) (values_of D l1))))
    else None
  | _, _ => None
  end.

Definition cell (i j : nat) : string := nth j (nth i go_logical_funcs []) "".

Theorem logic_table_dispatch : forall op m n i j,
  vkind m = Some i -> vkind n = Some j ->
  cell_sem (cell i j) op m n = Some (compare_values D op m n).
Proof.
  intros op m n i j Hi Hj.
  destruct m; cbn [vkind] in Hi; inversion Hi; subst i;
  destruct n; cbn [vkind] in Hj; inversion Hj; subst j; reflexivity.
Qed.
End Dispatch.
Print Assumptions logic_table_dispatch.

Fixpoint list_eqb {A} (eqb : A -> A -> bool) (a b : list A) : bool :=
  match a, b with
  | [], [] => true
  | x :: a', y :: b' => andb (eqb x y) (list_eqb eqb a' b')
  | _, _ => false
  end.

(* the codes and the type test are the ones the model's [vkind] assumes *)
Definition logic_table_shape_ok : bool :=
  andb (list_eqb (fun a b => andb (String.eqb (fst a) (fst b)) (Nat.eqb (snd a) (snd b))) go_result_types
          [("Boolean", 0); ("Number", 1); ("String", 2); ("NodeSet", 3); ("Any", 4)])
  (andb (list_eqb (fun a b => andb (String.eqb (fst a) (fst b)) (String.eqb (snd a) (snd b))) go_get_xpath_type
          [("reflect.Float64", "xpathResultType.Number"); ("reflect.String", "xpathResultType.String");
           ("reflect.Bool", "xpathResultType.Boolean"); ("assert:query", "xpathResultType.NodeSet")])
  (andb (list_eqb (fun a b => andb (String.eqb (fst a) (fst b)) (String.eqb (snd a) (snd b))) go_cmp_operator_strings
          [("eqFunc", "="); ("neFunc", "!="); ("ltFunc", "<"); ("leFunc", "<="); ("gtFunc", ">"); ("geFunc", ">=")])
  (andb (Nat.eqb (List.length go_logical_funcs) 4)
        (forallb (fun r => Nat.eqb (List.length r) 4) go_logical_funcs)))).

Theorem logic_table_shape : logic_table_shape_ok = true.
Proof. vm_compute. reflexivity. Qed.
Print Assumptions logic_table_shape.

(* non-vacuity: one cell of each row *)
Example logic_table_ex : forall D,
  cell 1 2 = "cmpNumericString" /\ cell 3 3 = "cmpNodeSetNodeSet" /\ cell 0 3 = "cmpBooleanAny" /\
  cell_sem D (cell 1 2) CLt (VNum fone) (VStr "2") = Some (compare_values D CLt (VNum fone) (VStr "2")).
Proof. intro D. repeat split. Qed.
