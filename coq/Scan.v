(* Scan.v — the scanner of parse.go: nextChar / nextItem / skipSpace /
   scanName / scanString / scanNumber / scanFraction, on the remaining input
   (the head of [s_rest] is the byte sequence of s.curr).  Definitions only. *)
From XP Require Import Base F64 Doc Ast.
From XP.Generated Require Import Tables.
Open Scope nat_scope.
Open Scope list_scope.

(* ---- runes ---- *)

Definition in_range (r : N) (x : N * N * N) : bool :=
  let '(lo, hi, st) := x in
  andb (andb (N.leb lo r) (N.leb r hi)) (N.eqb ((r - lo) mod st) 0).

Definition in_table (t : list (N * N * N)) (r : N) : bool := existsb (in_range r) t.

Definition bN (c : ascii) : N := N_of_ascii c.

Definition cont (c : ascii) : bool := andb (N.leb 128 (bN c)) (N.leb (bN c) 191).
Definition btw (lo hi : N) (c : ascii) : bool := andb (N.leb lo (bN c)) (N.leb (bN c) hi).

(* utf8.DecodeRuneInString: (rune, size); invalid encodings give (U+FFFD, 1).
   The empty input gives (0, 0) here; nextChar treats it separately. *)
Definition rune_error : N := 65533%N.

Definition decode (l : list ascii) : N * nat :=
  match l with
  | [] => (0%N, 0)
  | b0 :: t =>
    let n0 := bN b0 in
    if N.ltb n0 128 then (n0, 1)
    else if btw 194 223 b0 then
      match t with
      | b1 :: _ => if cont b1 then (((n0 - 192) * 64 + (bN b1 - 128))%N, 2) else (rune_error, 1)
      | _ => (rune_error, 1)
      end
    else if btw 224 239 b0 then
      match t with
      | b1 :: b2 :: _ =>
        let ok1 := if N.eqb n0 224 then btw 160 191 b1
                   else if N.eqb n0 237 then btw 128 159 b1 else cont b1 in
        if andb ok1 (cont b2)
        then ((((n0 - 224) * 4096) + (bN b1 - 128) * 64 + (bN b2 - 128))%N, 3)
        else (rune_error, 1)
      | _ => (rune_error, 1)
      end
    else if btw 240 244 b0 then
      match t with
      | b1 :: b2 :: b3 :: _ =>
        let ok1 := if N.eqb n0 240 then btw 144 191 b1
                   else if N.eqb n0 244 then btw 128 143 b1 else cont b1 in
        if andb ok1 (andb (cont b2) (cont b3))
        then ((((n0 - 240) * 262144) + (bN b1 - 128) * 4096 + (bN b2 - 128) * 64 + (bN b3 - 128))%N, 4)
        else (rune_error, 1)
      | _ => (rune_error, 1)
      end
    else (rune_error, 1)
  end.

(* s.curr for the remaining input (0 at the end of the input) *)
Definition cur (l : list ascii) : N := fst (decode l).
Definition cur_size (l : list ascii) : nat := snd (decode l).
(* nextChar *)
Definition advance (l : list ascii) : list ascii := skipn (cur_size l) l.

Definition is_name_rune (r : N) : bool :=
  andb (andb (negb (N.eqb r 58)) (negb (N.eqb r 47)))
       (orb (in_table tbl_first r) (in_table tbl_second r)).

Definition is_digit_rune (r : N) : bool :=
  if N.ltb r 256 then andb (N.leb 48 r) (N.leb r 57) else in_table tbl_digit r.

Definition is_space_rune (r : N) : bool :=
  if N.ltb r 256 then
    orb (orb (andb (N.leb 9 r) (N.leb r 13)) (N.eqb r 32)) (orb (N.eqb r 133) (N.eqb r 160))
  else in_table tbl_space r.

(* ---- scanner state ---- *)
Record sstate := mkS {
  s_rest : list ascii;
  s_typ : itype;
  s_name : string;
  s_prefix : string;
  s_strval : string;
  s_numval : f64;
  s_canfunc : bool }.

Definition set_rest (s : sstate) (l : list ascii) : sstate :=
  mkS l (s_typ s) (s_name s) (s_prefix s) (s_strval s) (s_numval s) (s_canfunc s).
Definition set_typ (s : sstate) (t : itype) : sstate :=
  mkS (s_rest s) t (s_name s) (s_prefix s) (s_strval s) (s_numval s) (s_canfunc s).

Fixpoint skip_space (fuel : nat) (l : list ascii) : list ascii :=
  match fuel with
  | 0 => l
  | S f => match l with
           | [] => l
           | _ => if is_space_rune (cur l) then skip_space f (advance l) else l
           end
  end.
Definition skipsp (l : list ascii) : list ascii := skip_space (List.length l) l.

(* scanName: the bytes of the name runes, plus (size - 1) bytes of the rune
   that ended the name (the slice arithmetic of scanName counts them in). *)
Fixpoint scan_name_loop (fuel : nat) (l : list ascii) (acc : list ascii) : list ascii * list ascii :=
  match fuel with
  | 0 => (acc, l)
  | S f =>
    match l with
    | [] => (acc, l)
    | _ =>
      if is_name_rune (cur l)
      then scan_name_loop f (advance l) (acc ++ firstn (cur_size l) l)
      else (acc ++ firstn (cur_size l - 1) l, l)
    end
  end.
Definition scan_name (l : list ascii) : string * list ascii :=
  let '(bs, r) := scan_name_loop (S (List.length l)) l [] in (string_of_list bs, r).

(* scanString: l starts at the opening quote *)
Fixpoint scan_string_loop (fuel : nat) (q : N) (l : list ascii) (acc : list ascii) : option (list ascii * list ascii) :=
  match fuel with
  | 0 => None
  | S f =>
    match l with
    | [] => None     (* unclosed string *)
    | _ =>
      if N.eqb (cur l) q then Some (acc, advance l)
      else scan_string_loop f q (advance l) (acc ++ firstn (cur_size l) l)
    end
  end.
Definition scan_string (l : list ascii) : option (string * list ascii) :=
  match scan_string_loop (S (List.length l)) (cur l) (advance l) [] with
  | Some (bs, r) => Some (string_of_list bs, r)
  | None => None
  end.

(* digit runes; the flag tells whether all of them were ASCII *)
Fixpoint scan_digits (fuel : nat) (l : list ascii) (acc : list ascii) (ascii_only : bool)
  : list ascii * bool * list ascii :=
  match fuel with
  | 0 => (acc, ascii_only, l)
  | S f =>
    match l with
    | [] => (acc, ascii_only, l)
    | c :: _ =>
      if is_digit_rune (cur l)
      then scan_digits f (advance l) (acc ++ [c]) (andb ascii_only (N.ltb (cur l) 128))
      else (acc, ascii_only, l)
    end
  end.

Definition finish_number (ip fp : list ascii) (ok : bool) : cres f64 :=
  if ok then
    let v := of_decimal false ip fp in
    match v with
    | S754_infinity _ => Err "scanNumber parse float got error: value out of range"
    | _ => Ok v
    end
  else Err "scanNumber parse float got error: invalid syntax".

(* scanNumber: l starts at the first digit *)
Definition scan_number (l : list ascii) : cres (f64 * list ascii) :=
  let n := S (List.length l) in
  let '(ip, ok1, r1) := scan_digits n l [] true in
  if N.eqb (cur r1) 46 then
    let '(fp, ok2, r2) := scan_digits n (advance r1) [] true in
    let* v := finish_number ip fp (andb ok1 ok2) in Ok (v, r2)
  else
    let* v := finish_number ip [] ok1 in Ok (v, r1).

(* scanFraction: l starts at the first digit after the dot *)
Definition scan_fraction (l : list ascii) : cres (f64 * list ascii) :=
  let '(fp, ok, r) := scan_digits (S (List.length l)) l [] true in
  let* v := finish_number [] fp ok in Ok (v, r).

Definition chr (n : N) : N := n.

(* nextItem.  The result is the new scanner state; Err is a panic. *)
Definition next_item (s : sstate) : cres sstate :=
  let l := skipsp (s_rest s) in
  let c := cur l in
  let a := advance l in
  let one t := Ok (mkS a t (s_name s) (s_prefix s) (s_strval s) (s_numval s) (s_canfunc s)) in
  let two (second : N) t1 t2 :=
      if N.eqb (cur a) second
      then Ok (mkS (advance a) t2 (s_name s) (s_prefix s) (s_strval s) (s_numval s) (s_canfunc s))
      else Ok (mkS a t1 (s_name s) (s_prefix s) (s_strval s) (s_numval s) (s_canfunc s)) in
  if N.eqb c 0 then Ok (mkS l IEOF (s_name s) (s_prefix s) (s_strval s) (s_numval s) (s_canfunc s))
  else if N.eqb c 44 then one IComma
  else if N.eqb c 64 then one IAt
  else if N.eqb c 40 then one ILParens
  else if N.eqb c 41 then one IRParens
  else if N.eqb c 124 then one IUnion
  else if N.eqb c 42 then one IStar
  else if N.eqb c 91 then one ILBracket
  else if N.eqb c 93 then one IRBracket
  else if N.eqb c 43 then one IPlus
  else if N.eqb c 45 then one IMinus
  else if N.eqb c 61 then one IEq
  else if N.eqb c 35 then Err "unknown item: 35"
  else if N.eqb c 36 then one IDollar
  else if N.eqb c 60 then two 61%N ILt ILe
  else if N.eqb c 62 then two 61%N IGt IGe
  else if N.eqb c 33 then two 61%N IBang INe
  else if N.eqb c 46 then
    if N.eqb (cur a) 46
    then Ok (mkS (advance a) IDotDot (s_name s) (s_prefix s) (s_strval s) (s_numval s) (s_canfunc s))
    else if is_digit_rune (cur a) then
      let* (v, r) := scan_fraction a in
      Ok (mkS r INumber (s_name s) (s_prefix s) (s_strval s) v (s_canfunc s))
    else one IDot
  else if N.eqb c 47 then two 47%N ISlash ISlashSlash
  else if orb (N.eqb c 34) (N.eqb c 39) then
    match scan_string l with
    | Some (str, r) => Ok (mkS r IString (s_name s) (s_prefix s) str (s_numval s) (s_canfunc s))
    | None => Err "xpath: scanString got unclosed string"
    end
  else if is_digit_rune c then
    let* (v, r) := scan_number l in
    Ok (mkS r INumber (s_name s) (s_prefix s) (s_strval s) v (s_canfunc s))
  else if is_name_rune c then
    let '(name, r) := scan_name l in
    let finish (t : itype) (nm pre : string) (r' : list ascii) :=
        let r'' := skipsp r' in
        Ok (mkS r'' t nm pre (s_strval s) (s_numval s) (N.eqb (cur r'') 40)) in
    if N.eqb (cur r) 58 then
      let r1 := advance r in
      if N.eqb (cur r1) 58 then finish IAxe name "" (advance r1)
      else if N.eqb (cur r1) 42 then finish IName "*" name (advance r1)
      else if is_name_rune (cur r1) then
        let '(name2, r2) := scan_name r1 in finish IName name2 name r2
      else Err "has an invalid qualified name."
    else
      let r1 := skipsp r in
      if N.eqb (cur r1) 58 then
        let r2 := advance r1 in
        if N.eqb (cur r2) 58 then finish IAxe name "" (advance r2)
        else Err "has an invalid qualified name."
      else finish IName name "" r1
  else Err "has an invalid token.".

Definition init_scanner (text : string) : sstate :=
  mkS (list_of_string text) IEOF "" "" "" fzero false.
