// Package doc is the harness-owned document model and NodeNavigator.
// It follows the contract real navigators implement (and that coq/Doc.v
// states): attributes are reached with MoveToNextAttribute only, sibling moves
// fail on attributes, MoveToParent from an attribute goes to its element,
// MoveToFirst reports false when already on the first sibling.
package doc

import (
	"fmt"
	"strconv"
	"strings"

	"github.com/antchfx/xpath"
)

type Attr struct {
	Prefix, Name, NS, Value string
}

type Node struct {
	Type     xpath.NodeType
	Prefix   string
	Name     string // local name of an element
	NS       string
	Data     string // character data of text and comment nodes
	Attrs    []*Attr
	Children []*Node
	Parent   *Node
	Idx      int // index among siblings
}

func (n *Node) Add(c *Node) *Node {
	c.Parent = n
	c.Idx = len(n.Children)
	n.Children = append(n.Children, c)
	return c
}

// Ref designates a node: an element/text/comment/root node, or (Attr >= 0) one of its attributes.
type Ref struct {
	N    *Node
	Attr int
}

// All returns every node in document order (element, its attributes, its children).
func All(root *Node) []Ref {
	var out []Ref
	var walk func(n *Node)
	walk = func(n *Node) {
		out = append(out, Ref{n, -1})
		for i := range n.Attrs {
			out = append(out, Ref{n, i})
		}
		for _, c := range n.Children {
			walk(c)
		}
	}
	walk(root)
	return out
}

func (r Ref) Addr() string {
	var idx []string
	for m := r.N; m.Parent != nil; m = m.Parent {
		idx = append([]string{strconv.Itoa(m.Idx)}, idx...)
	}
	s := "/" + strings.Join(idx, ".")
	if r.Attr >= 0 {
		s += "@" + strconv.Itoa(r.Attr)
	}
	return s
}

func ParseAddr(root *Node, s string) (Ref, error) {
	attr := -1
	if i := strings.IndexByte(s, '@'); i >= 0 {
		a, err := strconv.Atoi(s[i+1:])
		if err != nil {
			return Ref{}, err
		}
		attr = a
		s = s[:i]
	}
	n := root
	s = strings.TrimPrefix(s, "/")
	if s != "" {
		for _, p := range strings.Split(s, ".") {
			i, err := strconv.Atoi(p)
			if err != nil || i >= len(n.Children) {
				return Ref{}, fmt.Errorf("bad address")
			}
			n = n.Children[i]
		}
	}
	if attr >= len(n.Attrs) {
		return Ref{}, fmt.Errorf("bad attribute address")
	}
	return Ref{n, attr}, nil
}

func StringValue(n *Node) string {
	if n.Type == xpath.TextNode || n.Type == xpath.CommentNode {
		return n.Data
	}
	var sb strings.Builder
	var w func(*Node)
	w = func(m *Node) {
		if m.Type == xpath.TextNode {
			sb.WriteString(m.Data)
		}
		for _, c := range m.Children {
			w(c)
		}
	}
	w(n)
	return sb.String()
}

// Budget is a per-evaluation operation counter; exhausting it panics with
// BudgetExceeded (how non-termination is observed).  nil = unlimited.
type Budget struct{ Left int64 }

type budgetExceeded struct{}

var BudgetExceeded = budgetExceeded{}

// Nav implements xpath.NodeNavigator without NamespaceURL().
type Nav struct {
	Root *Node
	Cur  *Node
	At   int
	B    *Budget
}

func (n *Nav) tick() {
	if n.B != nil {
		n.B.Left--
		if n.B.Left < 0 {
			panic(BudgetExceeded)
		}
	}
}

func NewNav(root *Node, at Ref, b *Budget) *Nav { return &Nav{Root: root, Cur: at.N, At: at.Attr, B: b} }

func (n *Nav) Ref() Ref { return Ref{n.Cur, n.At} }
func (n *Nav) NodeType() xpath.NodeType {
	if n.At >= 0 {
		return xpath.AttributeNode
	}
	return n.Cur.Type
}
func (n *Nav) LocalName() string {
	if n.At >= 0 {
		return n.Cur.Attrs[n.At].Name
	}
	if n.Cur.Type == xpath.ElementNode {
		return n.Cur.Name
	}
	return ""
}
func (n *Nav) Prefix() string {
	if n.At >= 0 {
		return n.Cur.Attrs[n.At].Prefix
	}
	return n.Cur.Prefix
}
func (n *Nav) nsURL() string {
	if n.At >= 0 {
		return n.Cur.Attrs[n.At].NS
	}
	return n.Cur.NS
}
func (n *Nav) Value() string {
	n.tick()
	if n.At >= 0 {
		return n.Cur.Attrs[n.At].Value
	}
	return StringValue(n.Cur)
}
func (n *Nav) Copy() xpath.NodeNavigator { n.tick(); c := *n; return &c }
func (n *Nav) MoveToRoot()               { n.Cur, n.At = n.Root, -1 }
func (n *Nav) MoveToParent() bool {
	n.tick()
	if n.At >= 0 {
		n.At = -1
		return true
	}
	if n.Cur.Parent == nil {
		return false
	}
	n.Cur = n.Cur.Parent
	return true
}
func (n *Nav) MoveToNextAttribute() bool {
	n.tick()
	if n.At+1 >= len(n.Cur.Attrs) {
		return false
	}
	n.At++
	return true
}
func (n *Nav) MoveToChild() bool {
	n.tick()
	if n.At >= 0 || len(n.Cur.Children) == 0 {
		return false
	}
	n.Cur = n.Cur.Children[0]
	return true
}
func (n *Nav) MoveToFirst() bool {
	n.tick()
	if n.At >= 0 || n.Cur.Parent == nil || n.Cur.Idx == 0 {
		return false
	}
	n.Cur = n.Cur.Parent.Children[0]
	return true
}
func (n *Nav) MoveToNext() bool {
	n.tick()
	if n.At >= 0 || n.Cur.Parent == nil || n.Cur.Idx+1 >= len(n.Cur.Parent.Children) {
		return false
	}
	n.Cur = n.Cur.Parent.Children[n.Cur.Idx+1]
	return true
}
func (n *Nav) MoveToPrevious() bool {
	n.tick()
	if n.At >= 0 || n.Cur.Parent == nil || n.Cur.Idx == 0 {
		return false
	}
	n.Cur = n.Cur.Parent.Children[n.Cur.Idx-1]
	return true
}
func (n *Nav) MoveTo(o xpath.NodeNavigator) bool {
	var m *Nav
	switch x := o.(type) {
	case *Nav:
		m = x
	case *NavNS:
		m = &x.Nav
	default:
		return false
	}
	if m.Root != n.Root {
		return false
	}
	n.Cur, n.At = m.Cur, m.At
	return true
}

// NavNS additionally implements NamespaceURL().
type NavNS struct{ Nav }

func (n *NavNS) NamespaceURL() string      { return n.nsURL() }
func (n *NavNS) Copy() xpath.NodeNavigator { n.tick(); c := *n; return &c }

func NewNavigator(root *Node, at Ref, withNS bool, b *Budget) xpath.NodeNavigator {
	if withNS {
		return &NavNS{Nav{Root: root, Cur: at.N, At: at.Attr, B: b}}
	}
	return NewNav(root, at, b)
}

func RefOf(n xpath.NodeNavigator) Ref {
	switch x := n.(type) {
	case *Nav:
		return x.Ref()
	case *NavNS:
		return x.Ref()
	}
	panic("foreign navigator")
}

// ---- serialisation for the model ----

func Esc(s string) string {
	if s == "" {
		return "~"
	}
	var b strings.Builder
	for i := 0; i < len(s); i++ {
		c := s[i]
		if (c >= 'a' && c <= 'z') || (c >= 'A' && c <= 'Z') || (c >= '0' && c <= '9') || c == '_' || c == '.' || c == '-' {
			b.WriteByte(c)
		} else {
			fmt.Fprintf(&b, "%%%02X", c)
		}
	}
	return b.String()
}

func Unesc(s string) string {
	if s == "~" {
		return ""
	}
	var b strings.Builder
	for i := 0; i < len(s); i++ {
		if s[i] == '%' && i+2 < len(s)+0 {
			v, _ := strconv.ParseUint(s[i+1:i+3], 16, 8)
			b.WriteByte(byte(v))
			i += 2
		} else {
			b.WriteByte(s[i])
		}
	}
	return b.String()
}

// Tokens renders the tree as: kind pre loc ns data nattrs {apre aloc ans aval}* nkids node*
func Tokens(n *Node) string {
	var b strings.Builder
	var w func(*Node)
	w = func(m *Node) {
		k := "E"
		switch m.Type {
		case xpath.RootNode:
			k = "R"
		case xpath.TextNode:
			k = "T"
		case xpath.CommentNode:
			k = "C"
		}
		fmt.Fprintf(&b, "%s %s %s %s %s %d", k, Esc(m.Prefix), Esc(m.Name), Esc(m.NS), Esc(m.Data), len(m.Attrs))
		for _, a := range m.Attrs {
			fmt.Fprintf(&b, " %s %s %s %s", Esc(a.Prefix), Esc(a.Name), Esc(a.NS), Esc(a.Value))
		}
		fmt.Fprintf(&b, " %d ", len(m.Children))
		for _, c := range m.Children {
			w(c)
		}
	}
	w(n)
	return strings.TrimSpace(b.String())
}

// FromTokens is the inverse of Tokens.
func FromTokens(s string) (*Node, error) {
	toks := strings.Fields(s)
	pos := 0
	next := func() string { t := toks[pos]; pos++; return t }
	var rd func() *Node
	rd = func() *Node {
		n := &Node{}
		switch next() {
		case "R":
			n.Type = xpath.RootNode
		case "E":
			n.Type = xpath.ElementNode
		case "T":
			n.Type = xpath.TextNode
		case "C":
			n.Type = xpath.CommentNode
		}
		n.Prefix, n.Name, n.NS, n.Data = Unesc(next()), Unesc(next()), Unesc(next()), Unesc(next())
		na, _ := strconv.Atoi(next())
		for i := 0; i < na; i++ {
			n.Attrs = append(n.Attrs, &Attr{Unesc(next()), Unesc(next()), Unesc(next()), Unesc(next())})
		}
		nk, _ := strconv.Atoi(next())
		for i := 0; i < nk; i++ {
			n.Add(rd())
		}
		return n
	}
	var root *Node
	var err error
	func() {
		defer func() {
			if r := recover(); r != nil {
				err = fmt.Errorf("bad tree tokens: %v", r)
			}
		}()
		root = rd()
	}()
	return root, err
}

// Parse reads the compact notation used in notes and corpora:
//   a(@x=1,b("t"),p:c(#cm))   children of an implicit root node, comma separated.
func Parse(s string) *Node {
	p := &tp{s: s}
	root := &Node{Type: xpath.RootNode}
	for p.i < len(p.s) {
		root.Add(p.node())
		if p.i < len(p.s) && p.s[p.i] == ',' {
			p.i++
		}
	}
	return root
}

type tp struct {
	s string
	i int
}

func (p *tp) ident() string {
	st := p.i
	for p.i < len(p.s) && !strings.ContainsRune("(),=@\"#", rune(p.s[p.i])) {
		p.i++
	}
	return p.s[st:p.i]
}

func (p *tp) node() *Node {
	if p.s[p.i] == '"' {
		p.i++
		st := p.i
		for p.s[p.i] != '"' {
			p.i++
		}
		v := p.s[st:p.i]
		p.i++
		return &Node{Type: xpath.TextNode, Data: v}
	}
	if p.s[p.i] == '#' {
		p.i++
		return &Node{Type: xpath.CommentNode, Data: p.ident()}
	}
	name := p.ident()
	n := &Node{Type: xpath.ElementNode, Name: name}
	if k := strings.Index(name, ":"); k >= 0 {
		n.Prefix, n.Name = name[:k], name[k+1:]
	}
	if p.i < len(p.s) && p.s[p.i] == '(' {
		p.i++
		for p.s[p.i] != ')' {
			if p.s[p.i] == '@' {
				p.i++
				an := p.ident()
				p.i++ // =
				av := p.ident()
				a := &Attr{Name: an, Value: av}
				if k := strings.Index(an, ":"); k >= 0 {
					a.Prefix, a.Name = an[:k], an[k+1:]
				}
				n.Attrs = append(n.Attrs, a)
			} else {
				n.Add(p.node())
			}
			if p.s[p.i] == ',' {
				p.i++
			}
		}
		p.i++
	}
	return n
}
