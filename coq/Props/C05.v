(* C05 — concurrent Select/Evaluate calls on the same compiled expression (each with its
   own navigator), concurrent Compile calls and concurrent use of the regular-expression
   functions are free of data races, and every call returns what it would return if run
   alone.  Property theorems only; definitions in Conc.v, proofs in Proofs/ConcProofs.v.

   How the three statements fit together, and what is ASSUMED.

   1. C05_effects_table_ok is about the CODE.  go/cmd/geneffects reads the Go sources and
      writes Generated/Effects.v; Generated/Effects_ok.v proves, by computation, that this
      table passes Conc.effects_ok:
        - no package-level variable is written after initialisation;
        - no closure created at build time (func.go, build.go; shared by all evaluations)
          writes a variable it captured from the build-time function, nor evaluates a
          captured query in place (only through Clone() / functionArgs());
        - the methods Select and Evaluate of Expr use expr.q only as expr.q.Clone();
        - every Clone method returns a fresh literal whose sub-query fields are themselves
          cloned (none shared by reference, none omitted), or returns its receiver only for
          a type without sub-queries none of whose methods writes a receiver field;
        - every access to the map of the regexp cache is inside its Lock/RLock bracket.
      It is re-proved against the code as it is now on every run; a change of the engine
      that breaks one of these makes Generated/Effects_ok.v fail to compile.

   2. C05_race_free and C05_sequential_results are about the MODEL of Conc.v: memory is
      partitioned into Shared (immutable after Compile), Owned t (one evaluation) and
      Locked (inside the cache mutex) locations, threads are deterministic programs run
      under an arbitrary schedule, and a thread "respects the discipline" when it writes
      only what it owns, reads only Shared and its own locations, and touches Locked
      locations only through the lock.

   3. MODELLING ASSUMPTION (not proved, the link between 1 and 2): if effects_ok holds
      of the table then every Go evaluation thread respects the discipline, with
        Shared  = the compiled tree expr.q, the build-time closures and their captured
                  variables, the package-level tables;
        Owned t = the tree returned by expr.q.Clone() in call t, the NodeIterator and the
                  caller's navigator, locals, and the variables of closures created by the
                  Select methods of that clone;
        Locked  = RegexpCache.m / .reset.
      The translator is trusted, name based and over-approximating (no type information,
      no alias analysis; see the LIMITATIONS comment at the end of geneffects/main.go).
      The value a locked access returns is a function of the location alone (lockres):
      for the regexp cache this is Props/C16.v, C16_get_returns_load (get(k) returns
      load k under every interleaving); sync.Pool and regexp.Regexp are assumed safe for
      concurrent use as the Go standard library documents.  The NodeNavigator passed by
      the caller is the caller's: "each with its own navigator" is a hypothesis of C05. *)
From Coq Require Import List.
Import ListNotations.
From XP Require Import Conc.
From XP.Generated Require Import Effects Effects_ok.
From XP.Proofs Require Import ConcProofs.

(* the facts extracted from the Go sources satisfy the checker *)
Theorem C05_effects_table_ok : effects_ok effects_table = true.
Proof. exact effects_table_ok. Qed.
Print Assumptions C05_effects_table_ok.

(* no schedule of threads that respect the discipline contains a data race: two accesses of
   different threads to one location, one of them a write, not both under the lock *)
Theorem C05_race_free :
  forall (own : loc -> owner) (lockres : loc -> value) (progs : tid -> prog) (st0 : loc -> value),
    (forall t, respects own t (progs t)) ->
    forall sched : list tid, ~ race (trace (run lockres progs st0 sched)).
Proof. exact race_free. Qed.
Print Assumptions C05_race_free.

(* non-interference: what thread t has observed (every value it read, in order) after any
   interleaved schedule is what it observes when it takes the same steps with nobody else
   running *)
Theorem C05_sequential_results :
  forall (own : loc -> owner) (lockres : loc -> value) (progs : tid -> prog) (st0 : loc -> value),
    (forall t, respects own t (progs t)) ->
    forall (sched : list tid) (t : tid),
      observed (run lockres progs st0 sched) t = observed (run lockres progs st0 (alone t sched)) t.
Proof. exact sequential_results. Qed.
Print Assumptions C05_sequential_results.

(* ... together with the rest of its local state and every location it may read *)
Theorem C05_noninterference :
  forall (own : loc -> owner) (lockres : loc -> value) (progs : tid -> prog) (st0 : loc -> value),
    (forall t, respects own t (progs t)) ->
    forall (sched : list tid) (t : tid),
      thr (run lockres progs st0 sched) t = thr (run lockres progs st0 (alone t sched)) t /\
      forall l, own l = Shared \/ own l = Owned t ->
        store (run lockres progs st0 sched) l = store (run lockres progs st0 (alone t sched)) l.
Proof. exact noninterference. Qed.
Print Assumptions C05_noninterference.

(* a call that has finished in the interleaved run returned what the complete run of that
   call alone returns *)
Theorem C05_finished_results :
  forall (own : loc -> owner) (lockres : loc -> value) (progs : tid -> prog) (st0 : loc -> value),
    (forall t, respects own t (progs t)) ->
    forall (sched : list tid) (t : tid),
      finished (run lockres progs st0 sched) t ->
      finished (run lockres progs st0 (solo progs t)) t /\
      observed (run lockres progs st0 sched) t = observed (run lockres progs st0 (solo progs t)) t.
Proof. exact finished_results. Qed.
Print Assumptions C05_finished_results.

(* non-vacuity: two threads that share a tree cell, each own a cell and use the locked
   cache; the interleaved and the solo run of thread 0 observe the same values although
   the content of the locked cell differs (2 accesses against 1) *)
Example C05_example :
  (forall t, respects ex_own t (ex_progs t)) /\
  observed (run ex_lockres ex_progs ex_st0 [0; 1; 1; 0; 1; 0; 0; 1]) 0 = [50; 43; 7] /\
  observed (run ex_lockres ex_progs ex_st0 (solo ex_progs 0)) 0 = [50; 43; 7] /\
  store (run ex_lockres ex_progs ex_st0 [0; 1; 1; 0; 1; 0; 0; 1]) 3 = 2 /\
  store (run ex_lockres ex_progs ex_st0 (solo ex_progs 0)) 3 = 1.
Proof. exact (conj ex_respects ex_interleaved). Qed.

(* ------------------------------------------------------------------ *)
(* FROM THE TEXT.  (A) API-call granularity: one Compile, any number of threads, ANY global order of
   their Select / Evaluate / Dirty calls on the shared compiled expression: every call observes
   what it observes on a fresh compilation, and a thread's view is the view of its solo run.
   (B) memory granularity: for any discipline-respecting modelling of the evaluation threads of the
   compiled query (the hypothesis [eval_model q], as in the theorems above) there is no race, every
   thread observes its solo result, and the shared locations never change. *)
From XP Require Import Base F64 Doc Ast Scan Parse Build Eval Api.
From XP.Spec Require Import Paths.
From XP.Proofs Require Import HashInj Purity RoundTripPaths EndToEndPaths EndToEndConc.

Theorem C05_text_one_compile_many_threads : forall re_ok rm rn rr hcode text ns q,
  compile re_ok text ns = Ok q ->
  forall (h : schedule) t,
    run_obs rm rn rr hcode (mkExpr q []) h = map (fun x => (fst x, fresh_obs rm rn rr hcode q (snd x))) h /\
    thread_view t (run_obs rm rn rr hcode (mkExpr q []) h) =
    map snd (run_obs rm rn rr hcode (mkExpr q []) (map (fun o => (t, o)) (thread_view t h))).
Proof. exact C05_text_threads_observe_solo. Qed.
Print Assumptions C05_text_one_compile_many_threads.

Theorem C05_text_path_under_any_schedule : forall re_ok rm rn rr hcode ns p abs steps,
  path_syntax p -> steps_of p = (abs, steps) -> xok p -> List.length steps < max_build_depth ->
  exists q, compile re_ok (print_min p) ns = Ok q /\
    forall (h1 h2 : schedule) t D has_ns c n,
      hash_ok (hcode D) (all_nodes D) -> valid D c = true ->
      exists l,
        nth_error (run_obs rm rn rr hcode (mkExpr q []) (h1 ++ (t, OpSelect D has_ns c n) :: h2)) (List.length h1)
          = Some (t, ObsNodes (Val (firstn n l))) /\
        forall x, In x l <-> path_den D has_ns steps (if abs then root_node else c) x.
Proof. exact C05_text_path_threads. Qed.
Print Assumptions C05_text_path_under_any_schedule.

Theorem C05_text_memory : forall re_ok text ns q (M : eval_model q),
  compile re_ok text ns = Ok q ->
  forall sched : list tid,
    ~ race (trace (Conc.run (em_lockres q M) (em_progs q M) (em_st0 q M) sched)) /\
    (forall t,
       observed (Conc.run (em_lockres q M) (em_progs q M) (em_st0 q M) sched) t =
       observed (Conc.run (em_lockres q M) (em_progs q M) (em_st0 q M) (alone t sched)) t) /\
    (forall t,
       finished (Conc.run (em_lockres q M) (em_progs q M) (em_st0 q M) sched) t ->
       observed (Conc.run (em_lockres q M) (em_progs q M) (em_st0 q M) sched) t =
       observed (Conc.run (em_lockres q M) (em_progs q M) (em_st0 q M) (solo (em_progs q M) t)) t) /\
    (forall t l, em_shared q M l ->
       store (Conc.run (em_lockres q M) (em_progs q M) (em_st0 q M) sched) l =
       store (Conc.run (em_lockres q M) (em_progs q M) (em_st0 q M) (alone t sched)) l).
Proof. exact C05_text_memory_model. Qed.
Print Assumptions C05_text_memory.

(* ------------------------------------------------------------------ *)
(* CURSOR LEVEL (Model1/Iter3.v + Clone3.v): two API calls on the SAME shared expression tree,
   interleaved at the granularity of the individual Select / Evaluate steps of their own clones:
   under every schedule the shared tree is unchanged and each call makes exactly its solo
   observations.  It rests on the frame theorem (Proofs/FrameRefine3.v): no Select / Evaluate of any
   query changes the state of a closure-captured object nested anywhere inside it — the only objects
   a clone shares with the original. *)
From XP.Model1 Require Import Iter3 Clone3.
From XP.Proofs Require Import FrameRefine3 ConcRefine3.

Theorem C05_cursor_level_clone_shares_nothing_mutable : forall D has_ns hc rm rn rr F q,
  frame_wf q = true ->
  forall (s : state3 q) (l : list call3) (k : state3 (clone_cfg3 q)),
  calls3 D has_ns hc rm rn rr F (clone_cfg3 q) l (clone_state3 q s) = Some k -> absorb3 q k s = s.
Proof. exact clone_independent3_all. Qed.
Print Assumptions C05_cursor_level_clone_shares_nothing_mutable.

Theorem C05_cursor_level_any_interleaving : forall D has_ns hc rm rn rr F q,
  frame_wf q = true ->
  forall (sched : list bool) (s0 : state3 q) (t1 t2 : thread q),
  TInv q s0 t1 -> TInv q s0 t2 ->
  run_sched D has_ns hc rm rn rr F q sched s0 t1 t2 =
  (s0, solo D has_ns hc rm rn rr F q s0 (turns false sched) t1, solo D has_ns hc rm rn rr F q s0 (turns true sched) t2).
Proof. exact interleaving_independent3. Qed.
Print Assumptions C05_cursor_level_any_interleaving.

(* ... for ANY number of threads (Proofs/ConcRefineN.v), against Api.select / Api.evaluate
   (Proofs/ApiConc3.v: every goroutine that gets enough turns observes the list-level answer, with
   partial consumption), and FROM THE TEXT (Proofs/BuildWellFormed.v: the well-formedness
   hypothesis holds for every typed text that compiles; `text_typed` is a boolean computed from the
   parse tree — the builder itself does no type checking: `count(a)/b`, `1|2` compile) *)
From XP.Proofs Require Import IterRefine4 ApiRefine3 ConcRefineN ApiConc3 BuildWellFormed.

Theorem C05_cursor_level_any_number_of_threads : forall D has_ns hc rm rn rr F q,
  frame_wf q = true ->
  forall (sched : list nat) (s0 : state3 q) (pool : list (thread q)),
  Forall (TInv q s0) pool ->
  fst (run_schedN D has_ns hc rm rn rr F q sched s0 pool) = s0 /\
  List.length (snd (run_schedN D has_ns hc rm rn rr F q sched s0 pool)) = List.length pool /\
  forall i t, nth_error pool i = Some t ->
    nth_error (snd (run_schedN D has_ns hc rm rn rr F q sched s0 pool)) i =
    Some (solo D has_ns hc rm rn rr F q s0 (turnsN i sched) t).
Proof. exact interleaving_independentN. Qed.
Print Assumptions C05_cursor_level_any_number_of_threads.

Theorem C05_cursor_level_goroutines_get_list_level_answers : forall rm rn rr hcode D has_ns q,
  m1_supported4 q = true -> frame_wf q = true ->
  forall ops : list aop,
  exists F0, forall F, F0 <= F -> forall (sched : list nat) (s0 : state3 q),
    let res := grun (astep rm rn rr hcode D has_ns F q) sched s0 (map (APending q) ops) in
    fst res = s0 /\
    forall i o ob, nth_error ops i = Some o ->
      expected rm rn rr hcode q (op_of D has_ns q o) = Some ob ->
      steps_needed o <= turnsN i sched -> nth_error (snd res) i = Some (ADone q ob).
Proof. exact api_calls_any_schedule3. Qed.
Print Assumptions C05_cursor_level_goroutines_get_list_level_answers.

Theorem C05_text_compiled_tree_is_well_formed : forall re_ok (strict : bool) text ns q,
  compile re_ok text ns = Ok q -> text_typed strict text ns = true -> frame_wf q = true.
Proof. exact compile_frame_wf. Qed.
Print Assumptions C05_text_compiled_tree_is_well_formed.

Theorem C05_text_interleaving : forall re_ok D has_ns hc rm rn rr F text ns q,
  compile re_ok text ns = Ok q -> forall strict : bool, text_typed strict text ns = true ->
  forall (sched : list bool) (s0 : state3 q) (t1 t2 : thread q),
  TInv q s0 t1 -> TInv q s0 t2 ->
  run_sched D has_ns hc rm rn rr F q sched s0 t1 t2 =
  (s0, solo D has_ns hc rm rn rr F q s0 (turns false sched) t1, solo D has_ns hc rm rn rr F q s0 (turns true sched) t2).
Proof. exact C05_text_cursor_interleaving. Qed.
Print Assumptions C05_text_interleaving.
