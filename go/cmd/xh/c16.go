package main

import (
	"errors"
	"fmt"
	"regexp"
	"strconv"
	"strings"

	"github.com/antchfx/xpath"
	"verif/internal/doc"
	"verif/internal/gen"
)

func init() {
	generators["C16"] = genC16
}

var errLoad = errors.New("load failed")

// demoLoad is Cache.demo_load of the model
func demoLoad(key interface{}) (interface{}, error) {
	k := key.(int)
	if k%5 == 4 {
		return nil, errLoad
	}
	return 7*k + 1, nil
}

// doCache runs a sequential history "cap:k1,k2,..." on a private loading cache
// and reports (value, len, reset) after every get.
func doCache(spec string) (out string) {
	defer func() {
		if r := recover(); r != nil {
			out = classify(r)
		}
	}()
	i := strings.IndexByte(spec, ':')
	capacity, _ := strconv.Atoi(spec[:i])
	// the loader counts its runs: a failed load is never remembered (every failing get runs the
	// loader), and a get that does not run the loader returns a value loaded successfully before
	loads := 0
	loaded := map[int]bool{}
	c := xpath.VerifNewCache(func(key interface{}) (interface{}, error) {
		loads++
		return demoLoad(key)
	}, capacity)
	var parts []string
	if spec[i+1:] != "" {
		for _, ks := range strings.Split(spec[i+1:], ",") {
			k, _ := strconv.Atoi(ks)
			before := loads
			v, err := c.Get(k)
			switch {
			case err != nil && loads != before+1:
				return "E:mismatch:failed-load-answered-without-running-the-loader"
			case err == nil && loads == before && !loaded[k]:
				return "E:mismatch:value-returned-without-any-successful-load"
			case loads > before+1:
				return "E:mismatch:loader-ran-more-than-once-in-one-get"
			}
			if err == nil {
				loaded[k] = true
			}
			n, _, reset := c.Stats()
			val := "E"
			if err == nil {
				val = strconv.Itoa(v.(int))
			} else if v != nil {
				val = "E-with-value"
			}
			parts = append(parts, fmt.Sprintf("%s/%d/%d", val, n, reset))
		}
	}
	return strings.Join(parts, ";")
}

// doCustomCache: a client-installed RegexpCache (the variable is exported for that) must be the one
// and only source of compiled patterns, whatever their length: its loader prepends (?i)
func doCustomCache(n int) (out string) {
	defer func() {
		if r := recover(); r != nil {
			out = classify(r)
		}
	}()
	saved := xpath.RegexpCache
	defer func() { xpath.RegexpCache = saved }()
	loads := 0
	xpath.RegexpCache = xpath.NewLoadingCache(func(key interface{}) (interface{}, error) {
		loads++
		return regexp.Compile("(?i)" + key.(string))
	}, 4)
	pat := "hello|" + strings.Repeat("x", n)
	d := &docEntry{root: doc.Parse(`a("HELLO")`)}
	ctx := doc.Ref{N: d.root, Attr: -1}
	e, err := xpath.Compile("matches(a, '" + pat + "')")
	if err != nil {
		return "E:mismatch:customcache-compile:" + doc.Esc(err.Error())
	}
	if got := doEvaluate(e, d, ctx); got != "B:true" {
		return fmt.Sprintf("E:mismatch:customcache-matches:len=%d:%s|B:true", len(pat), got)
	}
	e2, _ := xpath.Compile("replace(a, string('" + pat + "'), '-')")
	if got := doEvaluate(e2, d, ctx); got != "S:-" {
		return fmt.Sprintf("E:mismatch:customcache-replace:len=%d:%s|S:-", len(pat), got)
	}
	if loads == 0 {
		return "E:mismatch:customcache-loader-never-ran"
	}
	return "ok:customcache"
}

// doRegex evaluates matches()/replace() through the engine and directly with
// Go's regexp: "kind\x00s\x00p[\x00r]"
func doRegex(spec string) (out string) {
	defer func() {
		if r := recover(); r != nil {
			out = classify(r)
		}
	}()
	if strings.HasPrefix(spec, "customcache\x00") {
		n, _ := strconv.Atoi(spec[len("customcache\x00"):])
		return doCustomCache(n)
	}
	f := strings.Split(spec, "\x00")
	quote := func(s string) string {
		if strings.Contains(s, "'") {
			return `"` + s + `"`
		}
		return "'" + s + "'"
	}
	d := &docEntry{root: doc.Parse("a")}
	d.root.Children[0].Add(&doc.Node{Type: xpath.TextNode, Data: f[1]})
	ctx := doc.Ref{N: d.root, Attr: -1}
	re, reErr := regexp.Compile(f[2])
	switch f[0] {
	case "matches":
		// constant pattern: Compile must reject an invalid one
		e, err := xpath.Compile("matches(a, " + quote(f[2]) + ")")
		if reErr != nil {
			if err == nil {
				return "E:mismatch:invalid-constant-pattern-accepted"
			}
		} else {
			if err != nil {
				return "E:mismatch:valid-pattern-rejected:" + doc.Esc(err.Error())
			}
			got := doEvaluate(e, d, ctx)
			want := "B:false"
			if re.MatchString(f[1]) {
				want = "B:true"
			}
			if got != want {
				return "E:mismatch:matches:" + got + "|" + want
			}
		}
		// non-constant pattern (through a function call): evaluated at run time
		e2, err := xpath.Compile("matches(a, concat(" + quote(f[2]) + ", ''))")
		if err != nil {
			return "E:mismatch:dynamic-pattern-rejected-at-compile"
		}
		got := doEvaluate(e2, d, ctx)
		if reErr != nil {
			if !strings.HasPrefix(got, "E:complaint") {
				return "E:mismatch:invalid-dynamic-pattern:" + got
			}
			return "ok-invalid"
		}
		want := "B:false"
		if re.MatchString(f[1]) {
			want = "B:true"
		}
		if got != want {
			return "E:mismatch:matches-dynamic:" + got + "|" + want
		}
		return "ok:" + want
	case "replace":
		if reErr != nil {
			return "ok-invalid"
		}
		e, err := xpath.Compile("replace(a, " + quote(f[2]) + ", " + quote(f[3]) + ")")
		if err != nil {
			return "E:mismatch:replace-rejected:" + doc.Esc(err.Error())
		}
		got := doEvaluate(e, d, ctx)
		want := "S:" + escNoTilde(xpathReplace(re, f[1], f[3]))
		if got != want {
			return "E:mismatch:replace:" + got + "|" + want
		}
		return "ok:" + want
	}
	return "?"
}

var reAtoms = []string{"a", "b", "ab", ".", "[ab]", "[^a]", "\\d", "\\w+", "(a)", "(b|c)", "(a+)(b*)", "a*", "b?", "^", "$", "x{2}", "(?i)A", "[0-9]+", "(", ")", "[", "*", "a**", "\\", "(?P<n>a)", "a|", "\\s"}
var reSubjects = []string{"", "a", "ab", "abc", "aab", "bbb", "xx", "a1b22", "A", "hello world", "aaa", "cab", "b a"}
var reTemplates = []string{"", "x", "$1", "[$1]", "$2$1", "$0", "$3", "$1x", "a$1b$2c", "$10", "$11", "$0x", "[$0y]", "$5x", "$1y", "$2_", "$12", "$21", "$35", "$9z", "$1$1", "$2x$1", "$01", "$00", "$007", "$05", "$050", "$09x", "$10", "$100", "$100000000000000000000", "[$18446744073709551616]", "$9223372036854775808", "$00000000000000000001", "$12345678901234567890123", "\\", "x\\", "$1\\"}

func genC16(o *cw) {
	// sequential cache histories: capacities 0..5, key alphabets, lengths
	for capacity := 0; capacity <= 5; capacity++ {
		for i := 0; i < 60*o.tier; i++ {
			n := o.r.Intn(12)
			alpha := 1 + o.r.Intn(9)
			var ks []string
			for j := 0; j < n; j++ {
				ks = append(ks, strconv.Itoa(o.r.Intn(alpha)+5*o.r.Intn(2)))
			}
			o.feat[fmt.Sprintf("cap-%d", capacity)]++
			o.c("cache", nil, "/", "-", fmt.Sprintf("%d:%s", capacity, strings.Join(ks, ",")), "", "cache-history")
		}
	}
	// exhaustive small histories: capacities 0..3, keys {0,1,2,4(fails)}, length <= 4 (5 thorough)
	keys := []string{"0", "1", "2", "4"}
	maxL := 4
	if o.tier > 1 {
		maxL = 6
	}
	var rec func(prefix []string)
	rec = func(prefix []string) {
		for capacity := 0; capacity <= 3; capacity++ {
			o.c("cache", nil, "/", "-", fmt.Sprintf("%d:%s", capacity, strings.Join(prefix, ",")), "", "cache-exhaustive")
		}
		if len(prefix) == maxL {
			return
		}
		for _, k := range keys {
			rec(append(append([]string{}, prefix...), k))
		}
	}
	rec(nil)
	// regular expressions against Go's regexp
	mkre := func() string {
		n := 1 + o.r.Intn(3)
		var sb strings.Builder
		for i := 0; i < n; i++ {
			sb.WriteString(reAtoms[o.r.Intn(len(reAtoms))])
		}
		return sb.String()
	}
	for i := 0; i < 500*o.tier; i++ {
		p := mkre()
		s := reSubjects[o.r.Intn(len(reSubjects))]
		if strings.ContainsAny(p+s, "'\"") {
			continue
		}
		o.c("regex", nil, "/", "-", "matches\x00"+s+"\x00"+p, "", "matches")
		t := reTemplates[o.r.Intn(len(reTemplates))]
		o.c("regex", nil, "/", "-", "replace\x00"+s+"\x00"+p+"\x00"+t, "", "replace")
	}
	emitRegexDocs(o, 150*o.tier)
	for _, n := range []int{1, 100, 1000, 1018, 1019, 1020, 1024, 2000, 5000, 70000} {
		o.c("regex", nil, "/", "-", fmt.Sprintf("customcache\x00%d", n), "", "custom-cache-long-pattern")
	}
	// matches() first, then replace() with the same pattern: the cached regexp must not be altered
	for _, p := range []string{"a|ab", "xa*?", "(fo|foo)(b?)", "a*?b", "(a|ab)(c|bcd)"} {
		for _, s := range []string{"abcd", "xaab", "foob", "aab", "abcd"} {
			o.c("regex", nil, "/", "-", "matches\x00"+s+"\x00"+p, "", "matches-then-replace")
			o.c("regex", nil, "/", "-", "replace\x00"+s+"\x00"+p+"\x00X", "", "matches-then-replace")
		}
	}
	_ = gen.Join
}

// xpathReplace is the oracle for replace(): every match is replaced by the
// template in which "$" followed by decimal digits refers to a capture group:
// the longest prefix of the digits that is the number of an existing group
// (0 = the whole match) is the reference, the remaining digits are literal; if
// no prefix qualifies the first digit alone is an (empty) reference.  Templates
// with "$" not followed by a digit are not generated.  It uses only
// regexp.FindAllStringSubmatchIndex, not regexp's template syntax.
func xpathReplace(re *regexp.Regexp, s, tmpl string) string {
	var b strings.Builder
	last := 0
	for _, m := range re.FindAllStringSubmatchIndex(s, -1) {
		b.WriteString(s[last:m[0]])
		for i := 0; i < len(tmpl); i++ {
			c := tmpl[i]
			if c != '$' || i+1 >= len(tmpl) || tmpl[i+1] < '0' || tmpl[i+1] > '9' {
				b.WriteByte(c)
				continue
			}
			j := i + 1
			// XPath F&O 7.6.3: N = the digits; while N exceeds the number of groups and has
			// more than one digit, the last digit is literal text; a remaining N above the
			// number of groups is an empty reference
			limit := re.NumSubexp()
			if limit < 9 {
				limit = 9
			}
			best, bestVal, val := 0, 0, 0
			for k := j; k < len(tmpl) && tmpl[k] >= '0' && tmpl[k] <= '9' && val <= limit; k++ {
				val = val*10 + int(tmpl[k]-'0')
				if val <= limit {
					best, bestVal = k-j+1, val
				}
			}
			if bestVal <= re.NumSubexp() && m[2*bestVal] >= 0 {
				b.WriteString(s[m[2*bestVal]:m[2*bestVal+1]])
			}
			i = j + best - 1
		}
		last = m[1]
	}
	b.WriteString(s[last:])
	return b.String()
}

// doRegexDoc: one compiled expression with a NON-constant pattern is evaluated for
// many nodes, each with its own subject and pattern: "v\x01p\x00v\x01p..."
func doRegexDoc(spec string) (out string) {
	defer func() {
		if r := recover(); r != nil {
			out = classify(r)
		}
	}()
	root := &doc.Node{Type: xpath.RootNode}
	top := root.Add(&doc.Node{Type: xpath.ElementNode, Name: "r"})
	type vp struct{ v, p string }
	var items []vp
	for _, it := range strings.Split(spec, "\x00") {
		f := strings.SplitN(it, "\x01", 2)
		if len(f) != 2 {
			continue
		}
		if _, err := regexp.Compile(f[1]); err != nil {
			continue
		}
		items = append(items, vp{f[0], f[1]})
		top.Add(&doc.Node{Type: xpath.ElementNode, Name: "e", Attrs: []*doc.Attr{{Name: "v", Value: f[0]}, {Name: "p", Value: f[1]}}})
	}
	d := &docEntry{root: root}
	rootRef := doc.Ref{N: root, Attr: -1}
	// (a) as a predicate over all candidates
	e, err := xpath.Compile("//e[matches(@v, string(@p))]")
	if err != nil {
		return "E:mismatch:compile:" + doc.Esc(err.Error())
	}
	var want []string
	for i, it := range items {
		if regexp.MustCompile(it.p).MatchString(it.v) {
			want = append(want, fmt.Sprintf("/0.%d", i))
		}
	}
	for round := 0; round < 2; round++ {
		got := doSelect(e, d, rootRef)
		if got != "N:"+strings.Join(want, ",") {
			return fmt.Sprintf("E:mismatch:regexdoc-select-round%d:%s|N:%s", round, got, strings.Join(want, ","))
		}
	}
	// (b) the same compiled expression from every node as context node, twice
	m, _ := xpath.Compile("matches(@v, string(@p))")
	rp, _ := xpath.Compile("replace(@v, string(@p), 'X')")
	var rpt []*xpath.Expr
	for _, tm := range []string{"<$10|$11>", "[$1$2]", "$12-$0", "$9$10x"} {
		e2, err := xpath.Compile("replace(@v, string(@p), '" + tm + "')")
		if err != nil {
			return "E:mismatch:compile:" + doc.Esc(err.Error())
		}
		rpt = append(rpt, e2)
	}
	for round := 0; round < 2; round++ {
		for i, it := range items {
			ctx := doc.Ref{N: top.Children[i], Attr: -1}
			w := "B:false"
			if regexp.MustCompile(it.p).MatchString(it.v) {
				w = "B:true"
			}
			if got := doEvaluate(m, d, ctx); got != w {
				return fmt.Sprintf("E:mismatch:regexdoc-matches:%d:%s|%s", i, got, w)
			}
			wr := "S:" + escNoTilde(xpathReplace(regexp.MustCompile(it.p), it.v, "X"))
			if got := doEvaluate(rp, d, ctx); got != wr {
				return fmt.Sprintf("E:mismatch:regexdoc-replace:%d:%s|%s", i, got, wr)
			}
			// a LITERAL template with one- and two-digit references, the pattern known only at run time
			for ti, tm := range []string{"<$10|$11>", "[$1$2]", "$12-$0", "$9$10x"} {
				wt := "S:" + escNoTilde(xpathReplace(regexp.MustCompile(it.p), it.v, tm))
				if got := doEvaluate(rpt[ti], d, ctx); got != wt {
					return fmt.Sprintf("E:mismatch:regexdoc-replace-template:%d:%s:%s|%s", i, doc.Esc(tm), got, wt)
				}
			}
		}
	}
	return fmt.Sprintf("ok:%d", len(want))
}

// emitRegexDocs adds regexdoc cases to a generator
func emitRegexDocs(o *cw, n int) {
	pats := []string{"a", "b+", "^a", "c$", "[0-9]+", "a|ab", "xa*?", "(fo|foo)(b?)", "^$", ".", "\\d\\d", "a.c", "(?i)abc", "b*",
		"(a)(b)(c)(d)(e)(f)(g)(h)(i)(j)(k)", "(a)(b)(c)(d)(e)(f)(g)(h)(i)(j)(k)(l)(m)", "(.)(.)(.)(.)(.)(.)(.)(.)(.)(.)", "(x)?(a)(b)"}
	subj := []string{"", "a", "ab", "abc", "aab", "bbb", "xx", "a1b22", "ABC", "foob", "xaa", "cab", "abcdefghijklm", "xabcdefghijkz", "0123456789ab"}
	for i := 0; i < n; i++ {
		k := 3 + o.r.Intn(6)
		var parts []string
		for j := 0; j < k; j++ {
			parts = append(parts, subj[o.r.Intn(len(subj))]+"\x01"+pats[o.r.Intn(len(pats))])
		}
		o.c("regexdoc", nil, "/", "-", strings.Join(parts, "\x00"), "", "regex-per-node")
	}
}
