(* Proofs/Filter.v — the filter query  i[p]  (query.go: filterQuery).

   Property: "a candidate node is returned iff the predicate is true for it;
   the verdict for one candidate never depends on which candidates were
   tested before it".

   Main results
     sel_filter                 unfolding equation of  sel (QFilter np i p)
     filter_go_spec             the kept nodes are  filter keep  of the input, in input order
     filter_members             membership characterisation (any predicate)
     filter_positions           the position counters handed out by the filter (same-level input)
     truth_of_filter_nonnum     a non-numeric value is judged independently of the position
     filter_is_filter           result = List.filter (node verdict) (input nodes)
     filter_order_independent   the verdict for a node does not depend on the input list
     filter_complaint / filter_crash / filter_input_fails   error propagation
     filter_succeeds            total when every evaluation of the predicate succeeds
     filter_filter_members / filter_filter_is_filter        i[p1][p2]
*)
From XP Require Import Base F64 Doc Ast Hash Eval.
From XP.Proofs Require Import DocOrder HashInj.
Open Scope nat_scope.
Open Scope list_scope.

(* ------------------------------------------------------------------ *)
(** * Boolean value of a non-numeric XPath value *)

Definition xboolean_value (v : value) : bool :=
  match v with
  | VBool b => b
  | VStr s => negb (String.eqb s "")
  | VNodes l => match l with [] => false | _ => true end
  | _ => false
  end.

Definition non_numeric (v : value) : Prop := forall f, v <> VNum f.

Lemma truth_of_filter_nonnum : forall v pos,
  non_numeric v -> truth_of_filter v pos = xboolean_value v.
Proof.
  intros v pos H. destruct v; try reflexivity. exfalso. eapply H. reflexivity.
Qed.

Corollary truth_of_filter_pos_irrelevant : forall v pos1 pos2,
  non_numeric v -> truth_of_filter v pos1 = truth_of_filter v pos2.
Proof. intros v p1 p2 H. now rewrite !truth_of_filter_nonnum. Qed.

(* and for a number the verdict is "truncated value = position counter" *)
Lemma truth_of_filter_num : forall f pos,
  truth_of_filter (VNum f) pos = Z.eqb (go_int f) (Z.of_nat pos).
Proof. reflexivity. Qed.

Lemma obind_val_inv' {A B} (x : outcome A) (f : A -> outcome B) (b : B) :
  obind x f = Val b -> exists a, x = Val a /\ f a = Val b.
Proof. destruct x; cbn; intros H; try discriminate. eauto. Qed.

Section Filter.
Variable D : tree.
Variable has_ns : bool.
Variable hc : node -> N.
Variable rm : string -> string -> option bool.
Variable rn : string -> nat.
Variable rr : string -> string -> string -> string.

Notation SEL := (sel D has_ns hc rm rn rr).
Notation EVAL := (eval D has_ns hc rm rn rr).

(* ------------------------------------------------------------------ *)
(** * The loop of filterQuery.Select, named *)

Definition filter_go (p : query) : list item -> list (nat * nat) -> outcome (list item) :=
  fix go (l : list item) (pm : list (nat * nat)) {struct l} : outcome (list item) :=
  match l with
  | [] => Val []
  | it :: r =>
    do v <- EVAL p (it_node it);
    if truth_of_filter v (it_pos it) then
      let k := S (pm_get pm (it_lvl it)) in
      do rest <- go r (pm_set pm (it_lvl it) k);
      Val (mkItem (it_node it) k 0 :: rest)
    else go r pm
  end.

Lemma filter_go_nil : forall p pm, filter_go p [] pm = Val [].
Proof. reflexivity. Qed.

Lemma filter_go_cons : forall p it r pm,
  filter_go p (it :: r) pm =
  do v <- EVAL p (it_node it);
  if truth_of_filter v (it_pos it) then
    do rest <- filter_go p r (pm_set pm (it_lvl it) (S (pm_get pm (it_lvl it))));
    Val (mkItem (it_node it) (S (pm_get pm (it_lvl it))) 0 :: rest)
  else filter_go p r pm.
Proof. reflexivity. Qed.

Lemma sel_filter : forall np i p c,
  SEL (QFilter np i p) c = do l <- SEL i c; filter_go p l [].
Proof. intros np i p c. reflexivity. Qed.

(* the nopos flag plays no role in the model *)
Lemma sel_filter_nopos_irrelevant : forall np1 np2 i p c,
  SEL (QFilter np1 i p) c = SEL (QFilter np2 i p) c.
Proof. intros. rewrite !sel_filter. reflexivity. Qed.

(* evaluating a filter as a value gives the node-set it selects *)
Lemma eval_filter : forall np i p c,
  EVAL (QFilter np i p) c = do l <- SEL (QFilter np i p) c; Val (VNodes l).
Proof. intros. reflexivity. Qed.

(* ------------------------------------------------------------------ *)
(** * Verdicts *)

(* the verdict for one candidate item: depends on the item alone *)
Definition verdict (p : query) (it : item) : outcome bool :=
  do v <- EVAL p (it_node it); Val (truth_of_filter v (it_pos it)).

Definition keep (p : query) (it : item) : bool :=
  match verdict p it with Val b => b | _ => false end.

(* the verdict of a boolean-valued predicate for a node *)
Definition node_verdict (p : query) (n : node) : bool :=
  match EVAL p n with Val v => xboolean_value v | _ => false end.

Definition evaluates (p : query) (n : node) : Prop := exists v, EVAL p n = Val v.

(* p never yields a number on these nodes (it may fail) *)
Definition boolean_valued_on (p : query) (ns : list node) : Prop :=
  forall n, In n ns -> forall f, EVAL p n <> Val (VNum f).

Lemma keep_true_iff : forall p it,
  keep p it = true <->
  exists v, EVAL p (it_node it) = Val v /\ truth_of_filter v (it_pos it) = true.
Proof.
  intros p it. unfold keep, verdict. split.
  - destruct (EVAL p (it_node it)) as [v|m|k] eqn:E; cbn; intros H; try discriminate.
    exists v. auto.
  - intros (v & E & T). rewrite E. cbn. exact T.
Qed.

Lemma keep_node_verdict : forall p it,
  (forall f, EVAL p (it_node it) <> Val (VNum f)) ->
  keep p it = node_verdict p (it_node it).
Proof.
  intros p it H. unfold keep, verdict, node_verdict.
  destruct (EVAL p (it_node it)) as [v|m|k] eqn:E; cbn; try reflexivity.
  apply truth_of_filter_nonnum. intros f Hf. subst v. now apply (H f).
Qed.

(* ------------------------------------------------------------------ *)
(** * What the loop computes *)

(* The central lemma.  The position map [pm] only influences the counters
   handed out, never which candidates are kept. *)
Lemma filter_go_spec : forall p l pm r,
  filter_go p l pm = Val r ->
  nodes_of r = nodes_of (filter (keep p) l) /\
  Forall (fun it => evaluates p (it_node it)) l.
Proof.
  intros p l. induction l as [|it l IH]; intros pm r H.
  - cbn in H. inversion H. subst r. split; [reflexivity|constructor].
  - rewrite filter_go_cons in H. apply obind_val_inv' in H. destruct H as (v & Ev & H).
    assert (K : keep p it = truth_of_filter v (it_pos it)).
    { unfold keep, verdict. rewrite Ev. reflexivity. }
    cbn [filter]. rewrite K.
    destruct (truth_of_filter v (it_pos it)) eqn:T.
    + apply obind_val_inv' in H. destruct H as (rest & Hr & H).
      inversion H. subst r. destruct (IH _ _ Hr) as [IH1 IH2].
      split.
      * cbn [nodes_of map it_node]. f_equal. exact IH1.
      * constructor; [exists v; exact Ev|exact IH2].
    + destruct (IH _ _ H) as [IH1 IH2]. split; [exact IH1|].
      constructor; [exists v; exact Ev|exact IH2].
Qed.

(* totality: the loop fails only if some evaluation of the predicate fails *)
Lemma filter_go_total : forall p l pm,
  Forall (fun it => evaluates p (it_node it)) l ->
  exists r, filter_go p l pm = Val r.
Proof.
  intros p l. induction l as [|it l IH]; intros pm F.
  - exists []. reflexivity.
  - inversion F as [|x y [v Ev] F']. subst x y. rewrite filter_go_cons. rewrite Ev. cbn [obind].
    destruct (truth_of_filter v (it_pos it)).
    + destruct (IH (pm_set pm (it_lvl it) (S (pm_get pm (it_lvl it)))) F') as [r Hr].
      rewrite Hr. cbn [obind]. eexists. reflexivity.
    + apply IH. exact F'.
Qed.

(* first failing candidate: its failure is the failure of the loop *)
Lemma filter_go_fails : forall p l1 it l2 pm (e : outcome value),
  Forall (fun it => evaluates p (it_node it)) l1 ->
  EVAL p (it_node it) = e ->
  (forall v, e <> Val v) ->
  filter_go p (l1 ++ it :: l2) pm =
  match e with Val _ => Val [] | Complaint m => Complaint m | Crash k => Crash k end.
Proof.
  intros p l1. induction l1 as [|x l1 IH]; intros it l2 pm e F Ee NV.
  - cbn [app]. rewrite filter_go_cons. rewrite Ee. destruct e as [v|m|k]; try reflexivity.
    exfalso. now apply (NV v).
  - inversion F as [|x' y' [v Ev] F']. subst x' y'.
    cbn [app]. rewrite filter_go_cons. rewrite Ev. cbn [obind].
    destruct (truth_of_filter v (it_pos x)).
    + rewrite (IH it l2 _ e F' Ee NV).
      destruct e as [v'|m|k]; try reflexivity. exfalso. now apply (NV v').
    + apply IH; assumption.
Qed.

(* the counters handed out: per level of the input item.  For an input whose
   items all have the same level (every axis step of the model except
   descendant), the kept nodes are numbered 1, 2, 3, ... *)
Lemma filter_go_positions : forall p lvl l pm r,
  Forall (fun it => it_lvl it = lvl) l ->
  filter_go p l pm = Val r ->
  r = number_from (S (pm_get pm lvl)) 0 (nodes_of (filter (keep p) l)).
Proof.
  intros p lvl l. induction l as [|it l IH]; intros pm r F H.
  - cbn in H. inversion H. reflexivity.
  - inversion F as [|x y Hl F']. subst x y.
    rewrite filter_go_cons in H. apply obind_val_inv' in H. destruct H as (v & Ev & H).
    assert (K : keep p it = truth_of_filter v (it_pos it)).
    { unfold keep, verdict. rewrite Ev. reflexivity. }
    cbn [filter]. rewrite K.
    destruct (truth_of_filter v (it_pos it)) eqn:T.
    + apply obind_val_inv' in H. destruct H as (rest & Hr & H).
      inversion H. subst r. rewrite Hl in *.
      cbn [nodes_of map number_from]. f_equal.
      rewrite (IH _ _ F' Hr). f_equal.
      clear. generalize (S (pm_get pm lvl)) as k. intros k.
      induction pm as [|[a b] pm IHp]; cbn [pm_set pm_get].
      * now rewrite Nat.eqb_refl.
      * destruct (Nat.eqb a lvl) eqn:E; cbn [pm_get]; rewrite E; [reflexivity|exact IHp].
    + apply IH; assumption.
Qed.

Lemma pm_get_set_same : forall pm k v, pm_get (pm_set pm k v) k = v.
Proof.
  induction pm as [|[a b] pm IH]; intros k v; cbn [pm_set pm_get].
  - now rewrite Nat.eqb_refl.
  - destruct (Nat.eqb a k) eqn:E; cbn [pm_get]; rewrite E; [reflexivity|apply IH].
Qed.

Lemma pm_get_set_other : forall pm k k' v, k <> k' -> pm_get (pm_set pm k v) k' = pm_get pm k'.
Proof.
  induction pm as [|[a b] pm IH]; intros k k' v Hk; cbn [pm_set pm_get].
  - apply Nat.eqb_neq in Hk. now rewrite Hk.
  - destruct (Nat.eqb a k) eqn:E; cbn [pm_get].
    + apply Nat.eqb_eq in E. subst a. apply Nat.eqb_neq in Hk. now rewrite Hk.
    + destruct (Nat.eqb a k'); [reflexivity|now apply IH].
Qed.

(* ------------------------------------------------------------------ *)
(** * Query-level statements *)

Lemma sel_filter_inv : forall np i p c r,
  SEL (QFilter np i p) c = Val r ->
  exists l, SEL i c = Val l /\ filter_go p l [] = Val r.
Proof. intros np i p c r H. rewrite sel_filter in H. now apply obind_val_inv' in H. Qed.

(* the kept nodes, in the order of the input, for ANY predicate *)
Theorem filter_nodes : forall np i p c r l,
  SEL (QFilter np i p) c = Val r -> SEL i c = Val l ->
  nodes_of r = nodes_of (filter (keep p) l).
Proof.
  intros np i p c r l H Hl. rewrite sel_filter, Hl in H. cbn [obind] in H.
  now apply filter_go_spec in H.
Qed.

(* MAIN: membership *)
Theorem filter_members : forall np i p c r l,
  SEL (QFilter np i p) c = Val r -> SEL i c = Val l ->
  forall n, In n (nodes_of r) <->
            exists it v, In it l /\ it_node it = n /\ EVAL p n = Val v /\
                         truth_of_filter v (it_pos it) = true.
Proof.
  intros np i p c r l H Hl n. rewrite (filter_nodes _ _ _ _ _ _ H Hl).
  unfold nodes_of. rewrite in_map_iff. split.
  - intros (it & En & Hin). apply filter_In in Hin. destruct Hin as [Hin K].
    apply keep_true_iff in K. destruct K as (v & Ev & T).
    exists it, v. subst n. auto.
  - intros (it & v & Hin & En & Ev & T). exists it. split; [exact En|].
    apply filter_In. split; [exact Hin|]. apply keep_true_iff. exists v. subst n. auto.
Qed.

(* every candidate was evaluated successfully when the filter succeeds *)
Theorem filter_all_evaluated : forall np i p c r l,
  SEL (QFilter np i p) c = Val r -> SEL i c = Val l ->
  forall n, In n (nodes_of l) -> evaluates p n.
Proof.
  intros np i p c r l H Hl n Hn. rewrite sel_filter, Hl in H. cbn [obind] in H.
  apply filter_go_spec in H. destruct H as [_ F].
  unfold nodes_of in Hn. apply in_map_iff in Hn. destruct Hn as (it & En & Hin).
  rewrite Forall_forall in F. subst n. now apply F.
Qed.

(* the filter's own position counters (what an outer predicate sees) *)
Theorem filter_positions : forall np i p c r l lvl,
  SEL (QFilter np i p) c = Val r -> SEL i c = Val l ->
  Forall (fun it => it_lvl it = lvl) l ->
  r = numbered (nodes_of (filter (keep p) l)).
Proof.
  intros np i p c r l lvl H Hl F. rewrite sel_filter, Hl in H. cbn [obind] in H.
  apply (filter_go_positions p lvl l [] r F H).
Qed.

(* totality *)
Theorem filter_succeeds : forall np i p c l,
  SEL i c = Val l ->
  (forall n, In n (nodes_of l) -> evaluates p n) ->
  exists r, SEL (QFilter np i p) c = Val r.
Proof.
  intros np i p c l Hl E. rewrite sel_filter, Hl. cbn [obind]. apply filter_go_total.
  rewrite Forall_forall. intros it Hin. apply E. unfold nodes_of. now apply in_map.
Qed.

(* ------------------------------------------------------------------ *)
(** * Error propagation *)

Theorem filter_input_fails : forall np i p c m,
  SEL i c = Complaint m -> SEL (QFilter np i p) c = Complaint m.
Proof. intros np i p c m H. rewrite sel_filter, H. reflexivity. Qed.

Theorem filter_input_crashes : forall np i p c k,
  SEL i c = Crash k -> SEL (QFilter np i p) c = Crash k.
Proof. intros np i p c k H. rewrite sel_filter, H. reflexivity. Qed.

(* the first candidate on which the predicate fails decides *)
Theorem filter_complaint : forall np i p c l1 it l2 m,
  SEL i c = Val (l1 ++ it :: l2) ->
  (forall x, In x l1 -> evaluates p (it_node x)) ->
  EVAL p (it_node it) = Complaint m ->
  SEL (QFilter np i p) c = Complaint m.
Proof.
  intros np i p c l1 it l2 m Hl F E. rewrite sel_filter, Hl. cbn [obind].
  rewrite (filter_go_fails p l1 it l2 [] (Complaint m)); auto.
  - now apply Forall_forall.
  - intros v; discriminate.
Qed.

Theorem filter_crash : forall np i p c l1 it l2 k,
  SEL i c = Val (l1 ++ it :: l2) ->
  (forall x, In x l1 -> evaluates p (it_node x)) ->
  EVAL p (it_node it) = Crash k ->
  SEL (QFilter np i p) c = Crash k.
Proof.
  intros np i p c l1 it l2 k Hl F E. rewrite sel_filter, Hl. cbn [obind].
  rewrite (filter_go_fails p l1 it l2 [] (Crash k)); auto.
  - now apply Forall_forall.
  - intros v; discriminate.
Qed.

(* ------------------------------------------------------------------ *)
(** * Boolean-valued predicates: the verdict is a function of the node *)

Lemma filter_keep_node_verdict : forall p l,
  boolean_valued_on p (nodes_of l) ->
  nodes_of (filter (keep p) l) = filter (node_verdict p) (nodes_of l).
Proof.
  intros p l. induction l as [|it l IH]; intros B; [reflexivity|].
  cbn [filter nodes_of map].
  rewrite (keep_node_verdict p it).
  2:{ apply B. cbn. now left. }
  assert (B' : boolean_valued_on p (nodes_of l)).
  { intros n Hn. apply B. cbn. now right. }
  destruct (node_verdict p (it_node it)); cbn [nodes_of map]; [f_equal|]; now apply IH.
Qed.

(* MAIN: result = List.filter of the input nodes, in input order, duplicates
   and all, independently of the position counters of the input *)
Theorem filter_is_filter : forall np i p c r l,
  SEL (QFilter np i p) c = Val r -> SEL i c = Val l ->
  boolean_valued_on p (nodes_of l) ->
  nodes_of r = filter (node_verdict p) (nodes_of l).
Proof.
  intros np i p c r l H Hl B. rewrite (filter_nodes _ _ _ _ _ _ H Hl).
  now apply filter_keep_node_verdict.
Qed.

(* the same at the level of the loop, for arbitrary input lists and
   arbitrary initial position maps *)
Theorem filter_go_is_filter : forall p l pm r,
  filter_go p l pm = Val r ->
  boolean_valued_on p (nodes_of l) ->
  nodes_of r = filter (node_verdict p) (nodes_of l).
Proof.
  intros p l pm r H B. apply filter_go_spec in H. destruct H as [H _]. rewrite H.
  now apply filter_keep_node_verdict.
Qed.

(* MAIN: order independence.  Two runs of the loop on any two input lists
   (any order, any duplicates, any position counters and levels, any initial
   position maps) agree on every common candidate n. *)
Theorem filter_go_order_independent : forall p l1 l2 pm1 pm2 r1 r2 n,
  filter_go p l1 pm1 = Val r1 ->
  filter_go p l2 pm2 = Val r2 ->
  In n (nodes_of l1) -> In n (nodes_of l2) ->
  (forall f, EVAL p n <> Val (VNum f)) ->
  (In n (nodes_of r1) <-> In n (nodes_of r2)).
Proof.
  intros p l1 l2 pm1 pm2 r1 r2 n H1 H2 I1 I2 B.
  assert (G : forall l pm r, filter_go p l pm = Val r -> In n (nodes_of l) ->
                             (In n (nodes_of r) <-> node_verdict p n = true)).
  { clear - B. intros l pm r H Hin. apply filter_go_spec in H. destruct H as [H _]. rewrite H.
    unfold nodes_of. rewrite in_map_iff. split.
    - intros (it & En & Hf). apply filter_In in Hf. destruct Hf as [_ K].
      subst n. now rewrite <- keep_node_verdict.
    - intros V. unfold nodes_of in Hin. apply in_map_iff in Hin. destruct Hin as (it & En & Hi).
      exists it. split; [exact En|]. apply filter_In. split; [exact Hi|].
      subst n. now rewrite keep_node_verdict. }
  rewrite (G _ _ _ H1 I1), (G _ _ _ H2 I2). reflexivity.
Qed.

Theorem filter_order_independent : forall np1 np2 i1 i2 p c1 c2 l1 l2 r1 r2 n,
  SEL i1 c1 = Val l1 -> SEL i2 c2 = Val l2 ->
  SEL (QFilter np1 i1 p) c1 = Val r1 ->
  SEL (QFilter np2 i2 p) c2 = Val r2 ->
  In n (nodes_of l1) -> In n (nodes_of l2) ->
  (forall f, EVAL p n <> Val (VNum f)) ->
  (In n (nodes_of r1) <-> In n (nodes_of r2)).
Proof.
  intros np1 np2 i1 i2 p c1 c2 l1 l2 r1 r2 n Hl1 Hl2 H1 H2 I1 I2 B.
  rewrite sel_filter, Hl1 in H1. rewrite sel_filter, Hl2 in H2. cbn [obind] in H1, H2.
  eapply filter_go_order_independent; eassumption.
Qed.

(* membership for a boolean-valued predicate: a function of the node only *)
Theorem filter_members_boolean : forall np i p c r l,
  SEL (QFilter np i p) c = Val r -> SEL i c = Val l ->
  boolean_valued_on p (nodes_of l) ->
  forall n, In n (nodes_of r) <-> In n (nodes_of l) /\ node_verdict p n = true.
Proof.
  intros np i p c r l H Hl B n. rewrite (filter_is_filter _ _ _ _ _ _ H Hl B).
  apply filter_In.
Qed.

(* permuting the input permutes the output *)
Theorem filter_go_permutation : forall p l1 l2 pm1 pm2 r1 r2,
  filter_go p l1 pm1 = Val r1 ->
  filter_go p l2 pm2 = Val r2 ->
  boolean_valued_on p (nodes_of l1) ->
  (forall n, In n (nodes_of l1) <-> In n (nodes_of l2)) ->
  (forall n, In n (nodes_of r1) <-> In n (nodes_of r2)).
Proof.
  intros p l1 l2 pm1 pm2 r1 r2 H1 H2 B S n.
  assert (B2 : boolean_valued_on p (nodes_of l2)).
  { intros x Hx. apply B. now apply S. }
  rewrite (filter_go_is_filter _ _ _ _ H1 B), (filter_go_is_filter _ _ _ _ H2 B2).
  rewrite !filter_In, S. reflexivity.
Qed.

(* ------------------------------------------------------------------ *)
(** * Several predicates in a row *)

Theorem filter_filter_is_filter : forall np1 np2 i p1 p2 c r l,
  SEL (QFilter np2 (QFilter np1 i p1) p2) c = Val r -> SEL i c = Val l ->
  boolean_valued_on p1 (nodes_of l) ->
  boolean_valued_on p2 (nodes_of l) ->
  nodes_of r = filter (fun n => andb (node_verdict p1 n) (node_verdict p2 n)) (nodes_of l).
Proof.
  intros np1 np2 i p1 p2 c r l H Hl B1 B2.
  destruct (sel_filter_inv _ _ _ _ _ H) as (m & Hm & _).
  pose proof (filter_is_filter _ _ _ _ _ _ Hm Hl B1) as E1.
  assert (B2' : boolean_valued_on p2 (nodes_of m)).
  { intros n Hn. apply B2. rewrite E1 in Hn. now apply filter_In in Hn. }
  rewrite (filter_is_filter _ _ _ _ _ _ H Hm B2'), E1.
  clear. induction (nodes_of l) as [|n ns IH]; [reflexivity|].
  cbn [filter]. destruct (node_verdict p1 n); cbn [filter andb].
  - destruct (node_verdict p2 n); [f_equal|]; exact IH.
  - exact IH.
Qed.

Theorem filter_filter_members : forall np1 np2 i p1 p2 c r l,
  SEL (QFilter np2 (QFilter np1 i p1) p2) c = Val r -> SEL i c = Val l ->
  boolean_valued_on p1 (nodes_of l) ->
  boolean_valued_on p2 (nodes_of l) ->
  forall n, In n (nodes_of r) <->
            In n (nodes_of l) /\ node_verdict p1 n = true /\ node_verdict p2 n = true.
Proof.
  intros np1 np2 i p1 p2 c r l H Hl B1 B2 n.
  rewrite (filter_filter_is_filter _ _ _ _ _ _ _ _ H Hl B1 B2), filter_In, andb_true_iff.
  reflexivity.
Qed.

(* the two predicates commute (as node lists, order included) *)
Corollary filter_filter_comm : forall np1 np2 np3 np4 i p1 p2 c r r' l,
  SEL (QFilter np2 (QFilter np1 i p1) p2) c = Val r ->
  SEL (QFilter np4 (QFilter np3 i p2) p1) c = Val r' ->
  SEL i c = Val l ->
  boolean_valued_on p1 (nodes_of l) ->
  boolean_valued_on p2 (nodes_of l) ->
  nodes_of r = nodes_of r'.
Proof.
  intros np1 np2 np3 np4 i p1 p2 c r r' l H H' Hl B1 B2.
  rewrite (filter_filter_is_filter _ _ _ _ _ _ _ _ H Hl B1 B2).
  rewrite (filter_filter_is_filter _ _ _ _ _ _ _ _ H' Hl B2 B1).
  apply filter_ext. intros n. apply andb_comm.
Qed.

(* ------------------------------------------------------------------ *)
(** * Syntactic sufficient conditions for "boolean-valued" *)

(* comparison, and/or, true()/false(), not(), boolean(), string tests and
   path expressions never evaluate to a number *)
Lemma compare_values_non_numeric : forall op m n v,
  compare_values D op m n = Val v -> non_numeric v.
Proof.
  intros op m n v H f Hf. subst v.
  destruct m, n; cbn in H; try discriminate;
    repeat match type of H with
           | obind ?x _ = _ => destruct x; cbn in H; try discriminate
           end; try discriminate.
Qed.

(* unfolding equations of eval (by conversion) *)
Lemma eval_logical : forall op a b n,
  EVAL (QLogical op a b) n = do x <- EVAL a n; do y <- EVAL b n; compare_values D op x y.
Proof. reflexivity. Qed.
Lemma eval_fn0_true : forall n, EVAL (QFn0 FTrue) n = Val (VBool true).
Proof. reflexivity. Qed.
Lemma eval_fn0_false : forall n, EVAL (QFn0 FFalse) n = Val (VBool false).
Proof. reflexivity. Qed.
Lemma eval_not : forall a n,
  EVAL (QFn1 FNot a) n =
  do v <- EVAL a n;
  Val (VBool (match v with
              | VBool b => negb b
              | VNodes l => match l with [] => true | _ => false end
              | _ => false end)).
Proof. reflexivity. Qed.
Lemma eval_boolean_fn : forall a n,
  EVAL (QFn1 FBoolean a) n = do v <- EVAL a n; do b <- as_bool v; Val (VBool b).
Proof. reflexivity. Qed.
Lemma eval_andor : forall isor a b n,
  EVAL (QBoolean isor a b) n =
  do m <- EVAL a n; do x <- as_bool m;
  if isor then (if x then Val (VBool true) else do k <- EVAL b n; do y <- as_bool k; Val (VBool y))
  else (if x then do k <- EVAL b n; do y <- as_bool k; Val (VBool y) else Val (VBool false)).
Proof. reflexivity. Qed.
Lemma eval_child : forall t i n,
  EVAL (QChild t i) n = do l <- SEL (QChild t i) n; Val (VNodes l).
Proof. reflexivity. Qed.
Lemma eval_attribute : forall t i n,
  EVAL (QAttribute t i) n = do l <- SEL (QAttribute t i) n; Val (VNodes l).
Proof. reflexivity. Qed.

Lemma eval_logical_non_numeric : forall op a b n f,
  EVAL (QLogical op a b) n <> Val (VNum f).
Proof.
  intros op a b n f H. rewrite eval_logical in H.
  destruct (EVAL a n) as [va| |]; cbn [obind] in H; try discriminate.
  destruct (EVAL b n) as [vb| |]; cbn [obind] in H; try discriminate.
  eapply compare_values_non_numeric; [exact H|reflexivity].
Qed.

Lemma eval_fn0_non_numeric : forall g n f, EVAL (QFn0 g) n <> Val (VNum f).
Proof.
  intros g n f. destruct g; [rewrite eval_fn0_true|rewrite eval_fn0_false]; discriminate.
Qed.

Lemma eval_not_non_numeric : forall a n f, EVAL (QFn1 FNot a) n <> Val (VNum f).
Proof.
  intros a n f H. rewrite eval_not in H.
  destruct (EVAL a n); cbn [obind] in H; discriminate.
Qed.

Lemma eval_boolean_fn_non_numeric : forall a n f, EVAL (QFn1 FBoolean a) n <> Val (VNum f).
Proof.
  intros a n f H. rewrite eval_boolean_fn in H.
  destruct (EVAL a n) as [v| |]; cbn [obind] in H; try discriminate.
  destruct (as_bool v); cbn [obind] in H; discriminate.
Qed.

Lemma eval_andor_non_numeric : forall isor a b n f, EVAL (QBoolean isor a b) n <> Val (VNum f).
Proof.
  intros isor a b n f H. rewrite eval_andor in H.
  destruct (EVAL a n) as [va| |]; cbn [obind] in H; try discriminate.
  destruct (as_bool va) as [x| |]; cbn [obind] in H; try discriminate.
  destruct isor, x; try discriminate;
    (destruct (EVAL b n) as [vb| |]; cbn [obind] in H; try discriminate;
     destruct (as_bool vb); cbn [obind] in H; discriminate).
Qed.

(* a path expression used as a predicate: [child::x], [@a] ... *)
Lemma eval_child_non_numeric : forall t i n f, EVAL (QChild t i) n <> Val (VNum f).
Proof.
  intros t i n f H. rewrite eval_child in H.
  destruct (SEL (QChild t i) n); cbn [obind] in H; discriminate.
Qed.

Lemma eval_attribute_non_numeric : forall t i n f, EVAL (QAttribute t i) n <> Val (VNum f).
Proof.
  intros t i n f H. rewrite eval_attribute in H.
  destruct (SEL (QAttribute t i) n); cbn [obind] in H; discriminate.
Qed.

(* existence test: [child::t] keeps the nodes having a matching child *)
Lemma node_verdict_child_context : forall t n,
  node_verdict (QChild t QContext) n =
  existsb (match_test D has_ns t) (children D n).
Proof.
  intros t n. unfold node_verdict. rewrite eval_child, sel_child, sel_context.
  cbn [obind flat_map it_node].
  rewrite app_nil_r. cbn [xboolean_value].
  unfold step_child, numbered.
  induction (children D n) as [|m ms IH]; [reflexivity|].
  cbn [filter existsb]. destruct (match_test D has_ns t m); [reflexivity|exact IH].
Qed.

End Filter.

Print Assumptions filter_members.
Print Assumptions filter_is_filter.
Print Assumptions filter_order_independent.
Print Assumptions filter_go_order_independent.
Print Assumptions filter_complaint.
Print Assumptions filter_filter_members.
Print Assumptions filter_positions.

(* ================================================================== *)
(** * Examples *)

Module FilterExamples.
Import DocOrder.Examples.

(* doc = <a x="1" y="2"><b z="3"><d/></b>text<c><e/></c></a> *)

Notation SELx := (sel doc false (fun _ => 0%N) (fun _ _ => None) (fun _ => 0) (fun _ s _ => s)).
Notation EVALx := (eval doc false (fun _ => 0%N) (fun _ _ => None) (fun _ => 0) (fun _ s _ => s)).

Definition attr_named (s : string) : ntest := mkTest NTAttr "" s false "".

(* /a/*  *)
Definition kids : query := QChild (mkTest NTElem "" "" false "") (QChild (named "a") QAbsolute).
(* [@z]      : has an attribute z *)
Definition has_z : query := QAttribute (attr_named "z") QContext.
(* [child::d] *)
Definition has_d : query := QChild (named "d") QContext.
(* [not(@z)] *)
Definition no_z : query := QFn1 FNot has_z.

(* /a/*[@z] = { b } *)
Example ex_filter_attr : run (QFilter true kids has_z) root_node = Val [e [0;0]].
Proof. vm_compute. reflexivity. Qed.

(* /a/*[not(@z)] = { c } *)
Example ex_filter_not : run (QFilter true kids no_z) root_node = Val [e [0;2]].
Proof. vm_compute. reflexivity. Qed.

(* the hypotheses of filter_is_filter hold here *)
Example ex_boolean_valued :
  boolean_valued_on doc false (fun _ => 0%N) (fun _ _ => None) (fun _ => 0) (fun _ s _ => s)
                    has_z [e [0;0]; e [0;2]].
Proof. intros n _ f. apply eval_attribute_non_numeric. Qed.

Example ex_input : omap nodes_of (SELx kids root_node) = Val [e [0;0]; e [0;2]].
Proof. vm_compute. reflexivity. Qed.

Example ex_verdicts :
  map (node_verdict doc false (fun _ => 0%N) (fun _ _ => None) (fun _ => 0) (fun _ s _ => s) has_z)
      [e [0;0]; e [0;2]] = [true; false].
Proof. vm_compute. reflexivity. Qed.

(* order independence on a concrete instance: candidates in reverse order *)
Example ex_reverse :
  run (QFilter true (QReverse kids) has_z) root_node = Val [e [0;0]] /\
  run (QFilter true (QReverse kids) no_z) root_node = Val [e [0;2]].
Proof. split; vm_compute; reflexivity. Qed.

(* /a/*[@z][child::d] = { b };  /a/*[child::d][@z] = { b } *)
Example ex_two_predicates :
  run (QFilter true (QFilter true kids has_z) has_d) root_node = Val [e [0;0]] /\
  run (QFilter true (QFilter true kids has_d) has_z) root_node = Val [e [0;0]].
Proof. split; vm_compute; reflexivity. Qed.

(* error propagation: sum('x') complains, and so does the whole filter *)
Definition bad : query := QFn1 FSum (QStr "x").
Example ex_complaint :
  SELx (QFilter true kids bad) root_node
  = Complaint "sum() function argument type must be a node-set or number".
Proof. vm_compute. reflexivity. Qed.

(* a numeric predicate is NOT order independent: kids[2] vs (reverse kids)[2] *)
Example ex_numeric_depends_on_order :
  run (QFilter false kids (QNum (of_Z 2))) root_node = Val [e [0;2]] /\
  run (QFilter false (QGroup (QReverse kids)) (QNum (of_Z 2))) root_node = Val [e [0;0]].
Proof. split; vm_compute; reflexivity. Qed.

End FilterExamples.
