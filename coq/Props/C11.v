(* C11 — union yields the set union, each node exactly once; two different
   nodes are never treated as the same node.  Property theorems only; proofs in
   Proofs/HashInj.v.  The engine identifies a node by the FNV-64a code of a key
   string (Hash.v models getHashCode exactly).  Key injectivity is proved for
   every document that is well-formed in the XML sense ([wf_attrs]: no element
   carries two attributes with the same prefix and local name; [no_inner_root]:
   the root kind occurs at the top only).  Collision-freedom of the 64-bit hash
   itself cannot be a theorem (pigeonhole); it is the explicit hypothesis
   [fnv_ok] on the nodes involved, decidable for any concrete document. *)
From Coq Require Import List NArith.
From XP Require Import Base Doc Ast Hash Eval.
From XP.Proofs Require Import HashInj.

(* two different nodes never have the same identity key *)
Theorem C11_key_injective : forall D n1 n2,
  wf_attrs D = true -> no_inner_root D = true ->
  valid D n1 = true -> valid D n2 = true ->
  hash_key D n1 = hash_key D n2 -> n1 = n2.
Proof. exact hash_key_injective_all. Qed.
Print Assumptions C11_key_injective.

(* the hypothesis is needed: the key of an attribute does not record its index *)
Theorem C11_key_injective_needs_wf_attrs :
  exists D n1 n2, valid D n1 = true /\ valid D n2 = true /\ n1 <> n2 /\ hash_key D n1 = hash_key D n2.
Proof.
  exists (T KRoot "" "" "" "" [] [T KElem "" "a" "" "" [mkAttr "" "x" "" "1"; mkAttr "" "x" "" "1"] []]).
  exists (mkNode [0] (Some 0)), (mkNode [0] (Some 1)).
  repeat split; try reflexivity. discriminate.
Qed.
Print Assumptions C11_key_injective_needs_wf_attrs.

(* A | B, arbitrary node-set operands: no node twice (unconditionally), nothing
   that neither operand returned; with collision-free codes exactly the union *)
Theorem C11_union : forall D has_ns hc rm rn rr l r c a b,
  sel D has_ns hc rm rn rr l c = Val a -> sel D has_ns hc rm rn rr r c = Val b ->
  exists u,
    sel D has_ns hc rm rn rr (QUnion l r) c = Val u /\
    NoDup (nodes_of u) /\
    (forall x, In x (nodes_of u) -> In x (nodes_of a) \/ In x (nodes_of b)) /\
    (hash_ok hc (nodes_of a ++ nodes_of b) ->
       (forall x, In x (nodes_of u) <-> In x (nodes_of a) \/ In x (nodes_of b)) /\
       nodes_of u = dedup_first (nodes_of a ++ nodes_of b)).
Proof. exact sel_union. Qed.
Print Assumptions C11_union.

(* the engine's instance of the identity code *)
Theorem C11_union_engine : forall D has_ns rm rn rr l r c a b,
  wf_attrs D = true -> no_inner_root D = true ->
  sel D has_ns (hash_code D) rm rn rr l c = Val a ->
  sel D has_ns (hash_code D) rm rn rr r c = Val b ->
  (forall x, In x (nodes_of a ++ nodes_of b) -> valid D x = true) ->
  fnv_ok D (nodes_of a ++ nodes_of b) ->
  exists u,
    sel D has_ns (hash_code D) rm rn rr (QUnion l r) c = Val u /\
    NoDup (nodes_of u) /\
    (forall x, In x (nodes_of u) <-> In x (nodes_of a) \/ In x (nodes_of b)) /\
    nodes_of u = dedup_first (nodes_of a ++ nodes_of b).
Proof. exact sel_union_hash_code. Qed.
Print Assumptions C11_union_engine.

(* de-duplication by identity code, any seen-table: result has no duplicates *)
Theorem C11_dedup_nodup : forall hc seen l, NoDup (fst (dedup_hash hc seen l)).
Proof. exact dedup_hash_NoDup. Qed.
Print Assumptions C11_dedup_nodup.

(* ------------------------------------------------------------------ *)
(* END TO END, from the TEXT  P1 | P2  (predicate-free paths, any white-space layout): Compile
   succeeds and Select returns every node of P1 or of P2, each exactly once.  Hypotheses are the
   ones of the identity-key theorems above. *)
From XP Require Import Scan Parse Build Api.
From XP.Spec Require Import Axes Paths.
From XP.Proofs Require Import RoundTripPaths RoundTripWs EndToEndPaths EndToEndUnion.

Theorem C11_end_to_end_union : forall D has_ns rm rn rr re_ok ns p1 p2 abs1 steps1 abs2 steps2,
  wf_attrs D = true -> no_inner_root D = true -> fnv_ok D (all_nodes D) ->
  path_syntax p1 -> steps_of p1 = (abs1, steps1) ->
  path_syntax p2 -> steps_of p2 = (abs2, steps2) ->
  xok (union_px p1 p2) ->
  List.length steps1 + 1 < max_build_depth -> List.length steps2 + 1 < max_build_depth ->
  exists q, compile re_ok (print_min (union_px p1 p2)) ns = Ok q /\
    forall c, valid D c = true ->
    exists l, select rm rn rr hash_code D has_ns q c = Val l /\ NoDup l /\
      forall n, In n l <-> path_den D has_ns steps1 (if abs1 then root_node else c) n
                        \/ path_den D has_ns steps2 (if abs2 then root_node else c) n.
Proof. exact C11_union_engine_end_to_end. Qed.
Print Assumptions C11_end_to_end_union.

Theorem C11_end_to_end_union_any_layout : forall D has_ns hcode rm rn rr re_ok ns p1 p2 abs1 steps1 abs2 steps2,
  path_syntax p1 -> steps_of p1 = (abs1, steps1) ->
  path_syntax p2 -> steps_of p2 = (abs2, steps2) ->
  xok (union_px p1 p2) ->
  List.length steps1 + 1 < max_build_depth -> List.length steps2 + 1 < max_build_depth ->
  hash_ok hcode (all_nodes D) ->
  exists q, compile re_ok (print_min (union_px p1 p2)) ns = Ok q /\
            compile re_ok (print_sp (union_px p1 p2)) ns = Ok q /\
            (forall w, ws_fun w -> compile re_ok (print_ws w (union_px p1 p2)) ns = Ok q) /\
            union_result D has_ns hcode rm rn rr q abs1 steps1 abs2 steps2.
Proof. exact C11_union_end_to_end. Qed.
Print Assumptions C11_end_to_end_union_any_layout.

(* ------------------------------------------------------------------ *)
(* END TO END, the SEQUENCE form  P/(A, B)  (A, B predicate-free steps of any axis, P a predicate-free
   path): every admissible white-space layout compiles to the same union query, and Select returns,
   each once, exactly the nodes that step A or step B reaches from a node of P. *)
From XP.Proofs Require Import ScanTokens EndToEndPred EndToEndReject EndToEndSeq.

Theorem C11_end_to_end_sequence_form : forall D has_ns hcode rm rn rr,
  hash_ok hcode (all_nodes D) ->
  forall re_ok ns p abs steps sa sb xa xb,
  path_syntax p -> steps_of p = (abs, steps) -> step_of sa = Some xa -> step_of sb = Some xb ->
  toks_ok (seq_text_toks p sa sb) -> List.length steps + 2 < max_build_depth ->
  exists q,
    (forall L, lay_ok L = true -> map snd L = seq_text_toks p sa sb ++ [TEOF] ->
       compile re_ok (string_of_list (render L)) ns = Ok q) /\
    compile re_ok (print_toks (seq_text_toks p sa sb)) ns = Ok q /\
    forall c, valid D c = true ->
    exists l, sel D has_ns hcode rm rn rr q c = Val l /\ NoDup (nodes_of l) /\
              (forall n, In n (nodes_of l) -> valid D n = true) /\
              forall n, In n (nodes_of l) <-> seq_den D has_ns abs steps xa xb c n.
Proof. exact C11_seq_end_to_end. Qed.
Print Assumptions C11_end_to_end_sequence_form.
