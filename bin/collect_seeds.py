#!/usr/bin/env python3
"""usage: bin/collect_seeds.py <Cnn> <outdir> <roundtag> <roundno>
Confirms each <outdir>/<k>/ (patch.diff + *_test.go + README.md) with bin/confirm_seed.sh and,
when confirmed, copies it to seeded/<Cnn>-<roundtag>-<k>/ with NOTES.md and meta.json."""
import sys, os, subprocess, json, shutil, glob
prop, out, tag, rnd = sys.argv[1], sys.argv[2], sys.argv[3], int(sys.argv[4])
root = os.path.dirname(os.path.dirname(os.path.abspath(__file__)))
for k in sorted(os.listdir(out)):
    d = os.path.join(out, k)
    if not os.path.isfile(os.path.join(d, 'patch.diff')): continue
    r = subprocess.run([os.path.join(root, 'bin/confirm_seed.sh'), d], capture_output=True, text=True)
    line = [l for l in r.stdout.splitlines() if l.startswith('CONFIRM')]
    line = line[-1] if line else 'CONFIRM none: ' + r.stdout[-300:] + r.stderr[-300:]
    ok = ('demo-without-patch=PASS' in line and 'build=ok' in line and 'suite-with-patch=PASS' in line
          and 'demo-with-patch=FAIL' in line)
    print(('OK   ' if ok else 'REJECT ') + line)
    if not ok: continue
    dst = os.path.join(root, 'seeded', f'{prop}-{tag}-{k}')
    os.makedirs(dst, exist_ok=True)
    shutil.copy(os.path.join(d, 'patch.diff'), dst)
    for f in glob.glob(os.path.join(d, '*_test.go')):
        shutil.copy(f, dst)
    notes = ''
    for nm in ('README.md', 'NOTES.md'):
        p = os.path.join(d, nm)
        if os.path.isfile(p): notes = open(p).read(); break
    open(os.path.join(dst, 'NOTES.md'), 'w').write(notes)
    meta = {
        'property': prop, 'round': rnd,
        'source': 'independent sub-agent given only the property text and the list of sites used in earlier rounds',
        'confirmed': 'bin/confirm_seed.sh: demo passes without the patch; with the patch the package builds, the unedited suite passes and the demo fails',
        'breaks': prop,
        'needs_to_manifest': notes[:1500],
        'checks_run_first': {}, 'checks_run_after_strengthening': {},
        'ran': f'bin/confirm_seed.sh ; bin/seedtest seeded/{prop}-{tag}-{k} (quick tier)',
    }
    json.dump(meta, open(os.path.join(dst, 'meta.json'), 'w'), indent=1)
