(* C07 — comparison and boolean operators follow XPath 1.0.
   Property theorems only; proofs in Proofs/Compare.v; the specification is
   Spec/Values.v (XPath 1.0 section 3.4 written on abstract values, independent
   of the model: a node-set is the list of the string-values of its nodes).
   [abs D] abstracts a run-time value of the model; [follows_spec op x y] is the
   set of type/operator combinations the property lists (any combination with a
   boolean or a number operand, all six operators; string / node-set against
   string / node-set for = and != only). *)
From Coq Require Import List String.
From XP Require Import Base F64 Doc Ast Eval.
From XP.Spec Require Import Values.
From XP.Proofs Require Import Compare.

(* for all operand values of the listed combinations the engine's comparison is the XPath one *)
Theorem C07_compare : forall D op m n x y,
  abs D m = Some x -> abs D n = Some y -> follows_spec op x y = true ->
  compare_values D op m n = Val (VBool (xcompare string_to_number op x y)).
Proof. exact compare_values_spec. Qed.
Print Assumptions C07_compare.

(* a comparison never aborts because of the data found in the document *)
Theorem C07_compare_never_aborts : forall D op m n,
  xpath_typed m -> xpath_typed n -> exists b, compare_values D op m n = Val (VBool b).
Proof. exact compare_never_aborts. Qed.
Print Assumptions C07_compare_never_aborts.

(* non-numeric strings compare as NaN: every comparison with NaN is false except != *)
Theorem C07_nan_left : forall op x, cmp_num op fnan x = match op with CNe => true | _ => false end.
Proof. exact cmp_num_nan_l. Qed.
Print Assumptions C07_nan_left.
Theorem C07_nan_right : forall op x, cmp_num op x fnan = match op with CNe => true | _ => false end.
Proof. exact cmp_num_nan_r. Qed.
Print Assumptions C07_nan_right.

(* or / and: left to right with short-circuit, operands of any XPath type;
   when the left operand decides, the right one is not looked at (no hypothesis on r) *)
Theorem C07_or_short_circuit : forall D has_ns hcode rm rn rr l r c m,
  eval D has_ns hcode rm rn rr l c = Val m -> not_int m -> truth m = true ->
  eval D has_ns hcode rm rn rr (QBoolean true l r) c = Val (VBool true).
Proof. exact eval_or_left_true. Qed.
Print Assumptions C07_or_short_circuit.
Theorem C07_and_short_circuit : forall D has_ns hcode rm rn rr l r c m,
  eval D has_ns hcode rm rn rr l c = Val m -> not_int m -> truth m = false ->
  eval D has_ns hcode rm rn rr (QBoolean false l r) c = Val (VBool false).
Proof. exact eval_and_left_false. Qed.
Print Assumptions C07_and_short_circuit.
Theorem C07_or_right : forall D has_ns hcode rm rn rr l r c m n,
  eval D has_ns hcode rm rn rr l c = Val m -> not_int m -> truth m = false ->
  eval D has_ns hcode rm rn rr r c = Val n -> not_int n ->
  eval D has_ns hcode rm rn rr (QBoolean true l r) c = Val (VBool (truth n)).
Proof. exact eval_or_left_false. Qed.
Print Assumptions C07_or_right.
Theorem C07_and_right : forall D has_ns hcode rm rn rr l r c m n,
  eval D has_ns hcode rm rn rr l c = Val m -> not_int m -> truth m = true ->
  eval D has_ns hcode rm rn rr r c = Val n -> not_int n ->
  eval D has_ns hcode rm rn rr (QBoolean false l r) c = Val (VBool (truth n)).
Proof. exact eval_and_left_true. Qed.
Print Assumptions C07_and_right.

(* boolean() of any XPath value; not() of a boolean or a node-set *)
Theorem C07_boolean : forall D has_ns hcode rm rn rr a c v x,
  eval D has_ns hcode rm rn rr a c = Val v -> abs D v = Some x ->
  eval D has_ns hcode rm rn rr (QFn1 FBoolean a) c = Val (VBool (xboolean x)).
Proof. exact eval_boolean_spec. Qed.
Print Assumptions C07_boolean.
Theorem C07_not : forall D has_ns hcode rm rn rr a c v x,
  eval D has_ns hcode rm rn rr a c = Val v -> abs D v = Some x ->
  match x with XNum _ | XStr _ => False | _ => True end ->
  eval D has_ns hcode rm rn rr (QFn1 FNot a) c = Val (VBool (negb (xboolean x))).
Proof. exact eval_not_spec. Qed.
Print Assumptions C07_not.

(* the restriction to the listed combinations is exact: outside it (relational
   operators between strings / node-sets) the engine compares lexicographically
   and disagrees with XPath — outside the property, recorded in DESIGN.md 9.3 *)
Theorem C07_outside_fragment_refuted : forall op, is_equality op = false ->
  (exists a b, compare_values D0 op (VStr a) (VStr b) <> Val (VBool (xcompare string_to_number op (XStr a) (XStr b)))).
Proof. intros op H. exact (proj1 (follows_spec_is_exact op H)). Qed.
Print Assumptions C07_outside_fragment_refuted.

(* ---- builder link (Proofs/BuildOps.v): the text [E1 op E2] with a comparison
   operator compiles to the comparison of the compiled operands, whose value is the
   XPath comparison of their values ---- *)
From XP Require Import Parse Build Api.
From XP.Proofs Require Import BuildOps.

Theorem C07_compiled_comparison : forall re_ok D has_ns hcode rm rn rr text ns op o a1 a2 q1 q2,
  parse text ns = Ok (AOp op a1 a2) -> cmp_of op = Some o -> operands_build re_ok a1 a2 q1 q2 ->
  compile re_ok text ns = Ok (QLogical o q1 q2) /\
  (forall c m n x y, eval D has_ns hcode rm rn rr q1 c = Val m -> eval D has_ns hcode rm rn rr q2 c = Val n ->
     abs D m = Some x -> abs D n = Some y -> follows_spec o x y = true ->
     eval D has_ns hcode rm rn rr (QLogical o q1 q2) c = Val (VBool (xcompare string_to_number o x y))).
Proof.
  intros re_ok D has_ns hcode rm rn rr text ns op o a1 a2 q1 q2 Hp Ho Hb.
  destruct (compiled_comparison re_ok D has_ns hcode rm rn rr text ns op o a1 a2 q1 q2 Hp Ho Hb) as (K1 & _ & K3 & _).
  split; [exact K1|exact K3].
Qed.
Print Assumptions C07_compiled_comparison.

(* ------------------------------------------------------------------ *)
(* END TO END, from the TEXT  E1 op E2  (operands: number literal, string literal or predicate-free
   path; minimal and one-space layouts): Compile succeeds and the value is the comparison of the
   operand values — a boolean, never an error — which is the XPath 1.0 comparison wherever the
   decision table above says the engine follows the recommendation. *)
From XP.Spec Require Import Values.
From XP.Proofs Require Import HashInj RoundTripOps RoundTripPaths EndToEndValues.

Theorem C07_end_to_end_comparison : forall D has_ns hc rm rn rr,
  hash_ok (hc D) (all_nodes D) ->
  forall re_ok ns b o l r,
  is_operand_px l -> is_operand_px r -> cmp_of (opname b) = Some o ->
  xok (XBin b l r) -> 1 + osize l <= max_build_depth -> 1 + osize r <= max_build_depth ->
  exists q,
    compile re_ok (print_min (XBin b l r)) ns = Ok q /\
    compile re_ok (print_sp (XBin b l r)) ns = Ok q /\
    forall c, valid D c = true ->
    exists m n, opval D has_ns l c m /\ opval D has_ns r c n /\
      evaluate rm rn rr hc D has_ns q c = compare_values D o m n /\
      (exists bb, evaluate rm rn rr hc D has_ns q c = Val (VBool bb)) /\
      (forall x y, abs D m = Some x -> abs D n = Some y -> follows_spec o x y = true ->
         evaluate rm rn rr hc D has_ns q c = Val (VBool (xcompare string_to_number o x y))).
Proof. exact C07_text_comparison. Qed.
Print Assumptions C07_end_to_end_comparison.

(* and / or from the TEXT: the combination of the XPath truth values of the operands; when the left
   operand decides, NOTHING is assumed about the right one (any expression the builder accepts,
   even one whose evaluation is a complaint) *)
From XP.Proofs Require Import EndToEndBool.

Theorem C07_end_to_end_and_or : forall D has_ns hc rm rn rr,
  hash_ok (hc D) (all_nodes D) ->
  forall re_ok ns (isor : bool) l r,
  is_operand_px l -> is_operand_px r -> xok (XBin (bop isor) l r) ->
  1 + osize l <= max_build_depth -> 1 + osize r <= max_build_depth ->
  exists q,
    compile re_ok (print_min (XBin (bop isor) l r)) ns = Ok q /\
    compile re_ok (print_sp (XBin (bop isor) l r)) ns = Ok q /\
    forall c, valid D c = true ->
    exists m n x y, opval D has_ns l c m /\ opval D has_ns r c n /\ abs D m = Some x /\ abs D n = Some y /\
      evaluate rm rn rr hc D has_ns q c = Val (VBool (bcomb isor (truth m) (truth n))) /\
      evaluate rm rn rr hc D has_ns q c = Val (VBool (bcomb isor (xboolean x) (xboolean y))).
Proof. exact C07_text_and_or. Qed.
Print Assumptions C07_end_to_end_and_or.

Theorem C07_end_to_end_short_circuit : forall D has_ns hc rm rn rr,
  hash_ok (hc D) (all_nodes D) ->
  forall re_ok ns (isor : bool) l r,
  is_operand_px l -> 1 + osize l <= max_build_depth ->
  xwf (XBin (bop isor) l r) -> xok (XBin (bop isor) l r) -> xdepth (XBin (bop isor) l r) < max_depth ->
  (forall fi, exists q2 pr2 fi2, process re_ok 1 (xast r) fl_none fi = Ok (q2, pr2, fi2)) ->
  exists q1 q2,
    compile re_ok (print_min (XBin (bop isor) l r)) ns = Ok (QBoolean isor q1 q2) /\
    compile re_ok (print_sp (XBin (bop isor) l r)) ns = Ok (QBoolean isor q1 q2) /\
    (exists fi pr2 fi2, process re_ok 1 (xast r) fl_none fi = Ok (q2, pr2, fi2)) /\
    forall c, valid D c = true ->
    exists m, opval D has_ns l c m /\
      (truth m = isor -> evaluate rm rn rr hc D has_ns (QBoolean isor q1 q2) c = Val (VBool isor)) /\
      (truth m = negb isor -> forall n, eval D has_ns (hc D) rm rn rr q2 c = Val n -> not_int n ->
         evaluate rm rn rr hc D has_ns (QBoolean isor q1 q2) c = Val (VBool (truth n))) /\
      (truth m = negb isor -> (forall v, eval D has_ns (hc D) rm rn rr q2 c <> Val v) ->
         evaluate rm rn rr hc D has_ns (QBoolean isor q1 q2) c = eval D has_ns (hc D) rm rn rr q2 c).
Proof. exact C07_text_short_circuit. Qed.
Print Assumptions C07_end_to_end_short_circuit.
