(* C13 — absolute paths ignore the start node; wrappers preserve the node set /
   truth value.  Property theorems only; proofs in Proofs/Absolute.v.
   [ctx_free q]: every leaf of q that is not inside a predicate is the root
   (QAbsolute) or a constant — what the builder produces for an absolute expression. *)
From Coq Require Import List.
From XP Require Import Base F64 Doc Ast Eval Api.
From XP.Proofs Require Import HashInj Absolute.

Theorem C13_absolute_ignores_start_node : forall D has_ns hcode rm rn rr q, ctx_free q ->
  forall c1 c2,
    sel D has_ns hcode rm rn rr q c1 = sel D has_ns hcode rm rn rr q c2 /\
    eval D has_ns hcode rm rn rr q c1 = eval D has_ns hcode rm rn rr q c2.
Proof. exact absolute_ignores_context. Qed.
Print Assumptions C13_absolute_ignores_start_node.

Theorem C13_select_ignores_start_node : forall rm rn rr hcode D has_ns q c1 c2, ctx_free q ->
  select rm rn rr hcode D has_ns q c1 = select rm rn rr hcode D has_ns q c2.
Proof. exact select_ignores_context. Qed.
Print Assumptions C13_select_ignores_start_node.

(* (P) has the nodes of P *)
Theorem C13_group_same_nodes : forall D has_ns hcode rm rn rr i c,
  omap nodes_of (sel D has_ns hcode rm rn rr (QGroup i) c) = omap nodes_of (sel D has_ns hcode rm rn rr i c).
Proof. exact group_same_nodes. Qed.
Print Assumptions C13_group_same_nodes.

(* P[true()] has the nodes of P *)
Theorem C13_true_predicate_same_nodes : forall D has_ns hcode rm rn rr np i c,
  omap nodes_of (sel D has_ns hcode rm rn rr (QFilter np i (QFn0 FTrue)) c) =
  omap nodes_of (sel D has_ns hcode rm rn rr i c).
Proof. exact filter_true_same_nodes. Qed.
Print Assumptions C13_true_predicate_same_nodes.

(* P | P: no duplicates, and (collision-free codes) exactly the node set of P *)
Theorem C13_union_self : forall D has_ns hcode rm rn rr i c l,
  sel D has_ns hcode rm rn rr i c = Val l ->
  exists u, sel D has_ns hcode rm rn rr (QUnion i i) c = Val u /\ NoDup (nodes_of u) /\
    (forall x, In x (nodes_of u) -> In x (nodes_of l)) /\
    (hash_ok hcode (nodes_of l) ->
       (forall x, In x (nodes_of u) <-> In x (nodes_of l)) /\
       nodes_of u = dedup_first (nodes_of l) /\ (NoDup (nodes_of l) -> nodes_of u = nodes_of l)).
Proof. exact union_self. Qed.
Print Assumptions C13_union_self.

(* not(not(P)) = boolean(P) for node-set and boolean P *)
Theorem C13_not_not : forall D has_ns hcode rm rn rr i c,
  (exists l, eval D has_ns hcode rm rn rr i c = Val (VNodes l)) \/
  (exists b, eval D has_ns hcode rm rn rr i c = Val (VBool b)) ->
  eval D has_ns hcode rm rn rr (QFn1 FNot (QFn1 FNot i)) c = eval D has_ns hcode rm rn rr (QFn1 FBoolean i) c.
Proof. exact not_not_boolean. Qed.
Print Assumptions C13_not_not.
