(* Proofs/ConcRefineN.v — ConcRefine3 for ANY number of threads.  The memory model and the step of a
   thread are those of ConcRefine3 (tstep: clone, or one Select / Evaluate on the clone seen with the
   aliased objects as they are in shared memory, which are then left there as the step left them).
   A pool is a list of threads, a schedule a list of thread indices (an index outside the pool is
   a no-op).

   interleaving_independentN   under every schedule the shared tree is unchanged, the pool keeps its
                               size, and thread i is exactly solo s0 (turnsN i sched) t_i
   k_calls_any_scheduleN       k fresh calls on a tree in any state: each observes what it observes alone *)
From XP Require Import Base F64 Doc Ast Hash Eval.
From XP.Model1 Require Import Iter Iter2 Iter3 Clone3.
From XP.Proofs Require Import AxesSound IterRefine IterRefine2 Filter IterRefine3 IterRefine4 IterProtocol3
     Absolute CloneRefine3 FrameRefine3 ConcRefine3.
Open Scope nat_scope.
Open Scope list_scope.

(* replace the i-th element *)
Fixpoint upd {A} (i : nat) (x : A) (l : list A) : list A :=
  match l, i with
  | [], _ => []
  | _ :: r, 0 => x :: r
  | y :: r, S k => y :: upd k x r
  end.

Lemma upd_length : forall {A} i (x : A) l, List.length (upd i x l) = List.length l.
Proof. intros A i x l. revert i. induction l as [|y r IH]; intros [|k]; cbn; auto. Qed.

Lemma nth_error_upd_same : forall {A} i (x y : A) l, nth_error l i = Some y -> nth_error (upd i x l) i = Some x.
Proof.
  intros A i x y l. revert i. induction l as [|z r IH]; intros [|k] H; cbn in *; try discriminate; auto.
Qed.

Lemma nth_error_upd_other : forall {A} i j (x : A) l, i <> j -> nth_error (upd j x l) i = nth_error l i.
Proof.
  intros A i j x l. revert i j. induction l as [|z r IH]; intros [|i] [|j] H; cbn; auto; try congruence.
Qed.

Lemma Forall_upd : forall {A} (P : A -> Prop) i x l, Forall P l -> P x -> Forall P (upd i x l).
Proof.
  intros A P i x l. revert i. induction l as [|z r IH]; intros [|k] Hl Hx; cbn; auto;
    inversion Hl; subst; constructor; auto.
Qed.

Lemma nth_error_eq_ext : forall {A} (l l' : list A), (forall i, nth_error l i = nth_error l' i) -> l = l'.
Proof.
  intros A. induction l as [|x r IH]; intros [|y r'] H; auto.
  - specialize (H 0). discriminate.
  - specialize (H 0). discriminate.
  - pose proof (H 0) as H0. cbn in H0. inversion H0; subst. f_equal. apply IH. intros i. apply (H (S i)).
Qed.

Definition turnsN (i : nat) (sched : list nat) : nat := List.length (filter (Nat.eqb i) sched).

Lemma turnsN_same : forall i r, turnsN i (i :: r) = S (turnsN i r).
Proof. intros i r. unfold turnsN. cbn [filter]. rewrite Nat.eqb_refl. reflexivity. Qed.
Lemma turnsN_other : forall i j r, i <> j -> turnsN i (j :: r) = turnsN i r.
Proof. intros i j r H. unfold turnsN. cbn [filter]. destruct (Nat.eqb_spec i j); [contradiction|reflexivity]. Qed.

Section ConcN.
Variable D : tree.
Variable has_ns : bool.
Variable hc : node -> N.
Variable rm : string -> string -> option bool.
Variable rn : string -> nat.
Variable rr : string -> string -> string -> string.
Variable F : nat.
Variable q : query.
Hypothesis wf : frame_wf q = true.
Notation TSTEP := (tstep D has_ns hc rm rn rr F q).
Notation SOLO := (solo D has_ns hc rm rn rr F q).

Fixpoint run_schedN (sched : list nat) (shared : state3 q) (pool : list (thread q)) : state3 q * list (thread q) :=
  match sched with
  | [] => (shared, pool)
  | i :: r =>
    match nth_error pool i with
    | None => run_schedN r shared pool
    | Some t => let '(sh', t') := TSTEP shared t in run_schedN r sh' (upd i t' pool)
    end
  end.

(** ** every interleaving of n threads = the n solo runs side by side *)
Theorem interleaving_independentN : forall (sched : list nat) (s0 : state3 q) (pool : list (thread q)),
  Forall (TInv q s0) pool ->
  fst (run_schedN sched s0 pool) = s0 /\
  List.length (snd (run_schedN sched s0 pool)) = List.length pool /\
  forall i t, nth_error pool i = Some t ->
    nth_error (snd (run_schedN sched s0 pool)) i = Some (SOLO s0 (turnsN i sched) t).
Proof.
  induction sched as [|j r IH]; intros s0 pool Hp.
  - cbn [run_schedN fst snd]. repeat split; auto.
  - cbn [run_schedN]. destruct (nth_error pool j) as [tj|] eqn:Ej.
    + assert (Hj : TInv q s0 tj) by (rewrite Forall_forall in Hp; apply Hp; eapply nth_error_In; eauto).
      destruct (TSTEP s0 tj) as [sh' tj'] eqn:Et.
      destruct (tstep_frame D has_ns hc rm rn rr F q wf s0 tj Hj) as [Hs Hi]. rewrite Et in Hs, Hi.
      cbn [fst snd] in Hs, Hi. subst sh'.
      destruct (IH s0 (upd j tj' pool) (Forall_upd _ _ _ _ Hp Hi)) as (A & B & C).
      split; [exact A|]. split; [rewrite B; apply upd_length|].
      intros i t Hit. destruct (Nat.eq_dec i j) as [->|Hne].
      * rewrite Ej in Hit. inversion Hit; subst t.
        rewrite (C j tj' (nth_error_upd_same _ _ _ _ Ej)), turnsN_same, solo_S, Et. reflexivity.
      * rewrite (C i t ltac:(rewrite nth_error_upd_other by exact Hne; exact Hit)), (turnsN_other i j r Hne).
        reflexivity.
    + destruct (IH s0 pool Hp) as (A & B & C). split; [exact A|]. split; [exact B|].
      intros i t Hit. assert (Hne : i <> j) by (intros ->; rewrite Ej in Hit; discriminate).
      rewrite (C i t Hit), (turnsN_other i j r Hne). reflexivity.
Qed.

(* k fresh calls (nothing cloned yet) on a tree in ANY state *)
Corollary k_calls_any_scheduleN : forall sched s0 (todos : list (list call3)),
  let res := run_schedN sched s0 (map (new_call q) todos) in
  fst res = s0 /\
  forall i todo, nth_error todos i = Some todo ->
    exists t, nth_error (snd res) i = Some t /\
              t_obs q t = t_obs q (SOLO s0 (turnsN i sched) (new_call q todo)).
Proof.
  intros sched s0 todos res.
  assert (Hp : Forall (TInv q s0) (map (new_call q) todos)).
  { rewrite Forall_forall. intros t Hin. apply in_map_iff in Hin. destruct Hin as (todo & <- & _). exact I. }
  destruct (interleaving_independentN sched s0 _ Hp) as (A & _ & C). split; [exact A|].
  intros i todo Hi. eexists. split; [|reflexivity].
  apply C. rewrite nth_error_map, Hi. reflexivity.
Qed.

(* two schedules giving every thread the same number of turns end in the same pool *)
Corollary schedules_agreeN : forall sched sched' s0 pool, Forall (TInv q s0) pool ->
  (forall i, i < List.length pool -> turnsN i sched = turnsN i sched') ->
  run_schedN sched s0 pool = run_schedN sched' s0 pool.
Proof.
  intros sched sched' s0 pool Hp Ht.
  destruct (interleaving_independentN sched s0 pool Hp) as (A & B & C).
  destruct (interleaving_independentN sched' s0 pool Hp) as (A' & B' & C').
  destruct (run_schedN sched s0 pool) as [sh l]. destruct (run_schedN sched' s0 pool) as [sh' l'].
  cbn [fst snd] in *. subst. f_equal. apply nth_error_eq_ext. intros i.
  destruct (nth_error pool i) as [t|] eqn:Ei.
  - rewrite (C i t Ei), (C' i t Ei), (Ht i). reflexivity. apply nth_error_Some. congruence.
  - apply nth_error_None in Ei. rewrite (proj2 (nth_error_None l i)), (proj2 (nth_error_None l' i)); auto; lia.
Qed.

End ConcN.

Print Assumptions interleaving_independentN.
Print Assumptions k_calls_any_scheduleN.
Print Assumptions schedules_agreeN.

(* ================================================================== *)
(** * Example: three calls *)
From XP Require Import Api.
Module ConcNExamples.
Import AxesSound.Examples IterRefine3.M3Examples.
Open Scope string_scope.
Open Scope list_scope.

Definition obsN (q : query) (used : nat) (sched : list nat) (todos : list (list call3)) : list (list cobs) :=
  let s0 := Nat.iter used (fun s => match sel3 exD false hc lit_match lit_numsubexp lit_replace_all 60 q s root_node with
                                    | R _ s' _ => s' | Stuck => s end) (init3 q) in
  map (t_obs q) (snd (run_schedN exD false hc lit_match lit_numsubexp lit_replace_all 60 q sched s0
                                 (map (new_call q) todos))).

Definition qc := comp "//*[count(*) > 1 or contains(name(), 'b')]".
Definition todos3 := [[CSelect root_node; CSelect root_node; CSelect root_node];
                      [CEvaluate n_a; CSelect n_a; CSelect n_a];
                      [CSelect n_c; CSelect n_c]].

Example ex_three_threads :
  obsN qc 1 [0; 0; 0; 0; 1; 1; 1; 1; 2; 2; 2] todos3 =
    [[COSelect (Some n_a); COSelect (Some n_b); COSelect None];
     [COValue None; COSelect (Some n_a); COSelect (Some n_b)];
     [COSelect (Some n_a); COSelect (Some n_b)]] /\
  obsN qc 1 [2; 1; 0; 7; 1; 0; 2; 0; 1; 2; 1; 0] todos3 = obsN qc 1 [0; 0; 0; 0; 1; 1; 1; 1; 2; 2; 2] todos3 /\
  obsN qc 3 [1; 1; 2; 0; 0; 2; 1; 0; 2; 0; 1] todos3 = obsN qc 1 [0; 0; 0; 0; 1; 1; 1; 1; 2; 2; 2] todos3.
Proof. vm_compute. repeat split; reflexivity. Qed.
End ConcNExamples.
