(* C12 — flat paths yield their nodes in document order with no node repeated.
   Property theorems only; proofs in Proofs/DocOrder.v.
   [sel] is the list-level model of Select (Eval.v): the sequence of nodes the
   iterator hands out.  [flat_query] (Proofs/DocOrder.v) = a chain of child,
   attribute and self steps from the context node or the root. *)
From Coq Require Import List Sorted.
From XP Require Import Base Doc Ast Eval.
From XP.Proofs Require Import DocOrder.

(* document order is a strict total order on node addresses *)
Theorem C12_doc_order_total : forall a b, doc_compare a b = Lt \/ a = b \/ doc_compare b a = Lt.
Proof. exact doc_compare_total. Qed.
Print Assumptions C12_doc_order_total.

Theorem C12_doc_order_trans : forall a b c,
  doc_compare a b = Lt -> doc_compare b c = Lt -> doc_compare a c = Lt.
Proof. exact doc_compare_trans. Qed.
Print Assumptions C12_doc_order_trans.

Theorem C12_doc_order_irrefl : forall a, doc_compare a a <> Lt.
Proof. exact doc_compare_irrefl. Qed.
Print Assumptions C12_doc_order_irrefl.

(* a flat path (child / attribute / self steps from one context node) of any
   length, on any document, from any context node: strictly increasing in
   document order *)
Theorem C12_flat_sorted : forall D has_ns hcode rm rn rr q c l,
  flat_query q -> valid D c = true ->
  sel D has_ns hcode rm rn rr q c = Val l -> sorted_doc (nodes_of l).
Proof. exact flat_sorted. Qed.
Print Assumptions C12_flat_sorted.

(* ... hence no node is repeated *)
Theorem C12_flat_nodup : forall D has_ns hcode rm rn rr q c l,
  flat_query q -> valid D c = true ->
  sel D has_ns hcode rm rn rr q c = Val l -> NoDup (nodes_of l).
Proof. exact flat_nodup. Qed.
Print Assumptions C12_flat_nodup.

(* a flat path never aborts *)
Theorem C12_flat_never_fails : forall D has_ns hcode rm rn rr q c,
  flat_query q -> exists l, sel D has_ns hcode rm rn rr q c = Val l.
Proof. exact flat_never_fails. Qed.
Print Assumptions C12_flat_never_fails.

(* a single descendant step (//name, descendant::x, descendant-or-self::x), also
   after a flat path: document order, no duplicates *)
Theorem C12_descendant_step_sorted : forall D has_ns hcode rm rn rr q self t c l,
  flat_query q ->
  sel D has_ns hcode rm rn rr (QDescendant self t q) c = Val l -> sorted_doc (nodes_of l).
Proof. exact flat_descendant_sorted. Qed.
Print Assumptions C12_descendant_step_sorted.

Theorem C12_descendant_step_nodup : forall D has_ns hcode rm rn rr q self t c l,
  flat_query q ->
  sel D has_ns hcode rm rn rr (QDescendant self t q) c = Val l -> NoDup (nodes_of l).
Proof. exact flat_descendant_nodup. Qed.
Print Assumptions C12_descendant_step_nodup.

(* two sorted sequences with the same members are the same sequence: the flat
   path's sequence is THE document-order listing of its node set *)
Theorem C12_sorted_unique : forall l1 l2,
  sorted_doc l1 -> sorted_doc l2 -> (forall x, In x l1 <-> In x l2) -> l1 = l2.
Proof. exact sorted_doc_unique. Qed.
Print Assumptions C12_sorted_unique.
