(* Model1/Driver3.v — the CURSOR-LEVEL model (Model1/Iter3.v: the transliteration of the Go
   Select / Evaluate methods over a navigator) made runnable on the case files of the
   correspondence check, beside the list-level model of Driver.v.  The refinement theorems
   (Proofs/IterRefine3.v, IterRefine4.v) tie it to the list level; running it against the Go code
   ties the transliteration itself to the code, including lastFuncQuery, where it is the more
   faithful of the two models.  Definitions only. *)
From XP Require Import Base F64 Doc Ast Scan Parse Build Hash Eval Api Render Driver.
From XP.Model1 Require Import Iter Iter2 Iter3.
Open Scope string_scope.
Open Scope list_scope.

(* fuel of the inner loops (document walks) and bound on the number of MoveNext calls *)
Definition fuel3 (D : tree) : nat := 4 * List.length (all_nodes D) + 64.
Definition calls3 (D : tree) : nat := 40 * List.length (all_nodes D) + 400.

Definition render_run3 (r : list item * ending * qstate3 * node) : string :=
  match r with
  | (l, E_nil, _, _) => "N:" ++ addrs (nodes_of l)
  | (_, E_more, _, _) => "U:m1-more"
  | (_, E_stuck, _, _) => "U:m1-stuck"
  end.

Definition render_sval (v : sval) : string :=
  match v with
  | SBool true => "B:true"
  | SBool false => "B:false"
  | SNum f => "F:" ++ f64_str f
  | SStr s => "S:" ++ esc s
  | SInt z => "I:" ++ Z_str z
  | SNil => "Z:nil"
  end.

Definition render_eval3 (o : eval_out) : string :=
  match o with
  | EO_val v => render_sval v
  | EO_nodes l => "N:" ++ addrs l
  | EO_stuck => "U:m1-stuck"
  | EO_panic m => "E:complaint:" ++ esc m
  end.

Definition run_sel3_all (D : tree) (has_ns : bool) (text : string) (ns : nsmap) : string :=
  with_query text ns (fun q => let t := table_for q D in
    let hc := fun n => table_lookup D t n in
    join ";" (map (fun c => render_run3
                 (run3 D has_ns hc lit_match lit_numsubexp lit_replace_all (fuel3 D) (calls3 D) (fresh3 q) c))
              (all_nodes D))).

Definition run_eval3_all (D : tree) (has_ns : bool) (text : string) (ns : nsmap) : string :=
  with_query text ns (fun q => let t := table_for q D in
    let hc := fun n => table_lookup D t n in
    join ";" (map (fun c => render_eval3
                 (evaluate3 D has_ns hc lit_match lit_numsubexp lit_replace_all (fuel3 D) (calls3 D) q c))
              (all_nodes D))).
