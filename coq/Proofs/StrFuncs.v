(* Proofs/StrFuncs.v — the string functions of the model (Base.v, Eval.v)
   meet the specifications of Spec/StrSpec.v (XPath 1.0 section 4.2 on byte
   strings), for ALL strings.

   0.  basic facts on ++, length, firstn_s, skipn_s
   1.  prefix / contains / has_suffix   <->  is_prefix / is_substring / is_suffix
   2.  index_of w s = Some i            <->  first_occurrence w s i
   3.  substring-before / -after: decomposition at the first occurrence,
       relational specification and its uniqueness, "" cases
   6.  translate = concat_map translate_char   (index_of_char = first position)
   8.  to_lower: per byte, length, idempotent
   9.  join: equations, = concat_all (intersperse ..), = String.concat
   10. the slice m[a-1 : e-1] = substring_pos m a e (all a, e);
       substring_go: always a substring of m (all floats), empty when the
       clamped bounds are not ordered, NaN / +Inf arguments, computed checks
   7.  normalize_space s = join " " (words s); words <-> splits; the result
       is [normalized], has the same words, idempotence
   11. (and 4, 5) the eval cases: contains, starts-with, ends-with,
       substring-before/-after, substring, translate, normalize-space,
       string-length, lower-case, string, string-join, concat

   Compile Spec/StrSpec.v first:
     coqc -Q . XP Spec/StrSpec.v && coqc -Q . XP Proofs/StrFuncs.v *)
From XP Require Import Base F64 Doc Ast Hash Eval Build.
From XP.Spec Require Import StrSpec.
Open Scope string_scope.
Open Scope nat_scope.

(* ================================================================== *)
(** * 0. Basic facts on [++], [length], [firstn_s], [skipn_s], [get] *)

Lemma app_nil_r_s (s : string) : s ++ "" = s.
Proof. induction s as [|c s IH]; cbn; [reflexivity|now rewrite IH]. Qed.

Lemma app_assoc_s (a b c : string) : (a ++ b) ++ c = a ++ (b ++ c).
Proof. induction a as [|x a IH]; cbn; [reflexivity|now rewrite IH]. Qed.

Lemma length_app_s (a b : string) : length (a ++ b) = length a + length b.
Proof. induction a as [|x a IH]; cbn; [reflexivity|now rewrite IH]. Qed.

Lemma length_zero_s (s : string) : length s = 0 -> s = "".
Proof. destruct s; cbn; [reflexivity|discriminate]. Qed.

Lemma app_inv_head_s (a b c : string) : a ++ b = a ++ c -> b = c.
Proof. induction a as [|x a IH]; cbn; intros H; [exact H|]. injection H as H. auto. Qed.

Lemma app_eq_length_s (a b a' b' : string) :
  a ++ b = a' ++ b' -> length a = length a' -> a = a' /\ b = b'.
Proof.
  revert a'. induction a as [|x a IH]; intros [|y a'] H L; cbn in *; try discriminate.
  - auto.
  - injection H as -> H. injection L as L. destruct (IH _ H L) as [-> ->]. auto.
Qed.

Lemma firstn_skipn_s (n : nat) (s : string) : firstn_s n s ++ skipn_s n s = s.
Proof.
  revert s. induction n as [|n IH]; intros [|c s]; cbn; try reflexivity. now rewrite IH.
Qed.

Lemma firstn_app_length (a b : string) : firstn_s (length a) (a ++ b) = a.
Proof. induction a as [|x a IH]; cbn; [now destruct b|now rewrite IH]. Qed.

Lemma skipn_app_length (a b : string) : skipn_s (length a) (a ++ b) = b.
Proof. induction a as [|x a IH]; cbn; [reflexivity|exact IH]. Qed.

Lemma skipn_add (n k : nat) (s : string) : skipn_s (n + k) s = skipn_s k (skipn_s n s).
Proof.
  revert s. induction n as [|n IH]; intros s; cbn; [reflexivity|].
  destruct s as [|c s]; [now destruct k|apply IH].
Qed.

Lemma length_firstn_s (n : nat) (s : string) : length (firstn_s n s) = Nat.min n (length s).
Proof. revert s. induction n as [|n IH]; intros [|c s]; cbn; auto. Qed.

Lemma length_skipn_s (n : nat) (s : string) : length (skipn_s n s) = length s - n.
Proof. revert s. induction n as [|n IH]; intros [|c s]; cbn; auto. Qed.

Lemma skipn_all_s (n : nat) (s : string) : length s <= n -> skipn_s n s = "".
Proof. intros H. apply length_zero_s. rewrite length_skipn_s. lia. Qed.

(* every slice of a string is a substring of it *)
Lemma skipn_is_substring (n : nat) (s : string) : is_substring (skipn_s n s) s.
Proof. exists (firstn_s n s), "". now rewrite app_nil_r_s, firstn_skipn_s. Qed.

Lemma firstn_is_substring (n : nat) (s : string) : is_substring (firstn_s n s) s.
Proof. exists "", (skipn_s n s). cbn. now rewrite firstn_skipn_s. Qed.

Lemma slice_is_substring (k n : nat) (s : string) : is_substring (firstn_s k (skipn_s n s)) s.
Proof.
  exists (firstn_s n s), (skipn_s k (skipn_s n s)).
  now rewrite firstn_skipn_s, firstn_skipn_s.
Qed.

Lemma self_is_substring (s : string) : is_substring s s.
Proof. exists "", "". cbn. now rewrite app_nil_r_s. Qed.

Lemma empty_is_substring (s : string) : is_substring "" s.
Proof. exists "", s. reflexivity. Qed.

(* ================================================================== *)
(** * 1. starts-with, contains, ends-with;  2. index_of *)

Theorem prefix_spec (w s : string) : prefix w s = true <-> is_prefix w s.
Proof.
  unfold is_prefix. revert s. induction w as [|x w IH]; intros s.
  - destruct s; cbn; split; eauto.
  - destruct s as [|y s]; cbn.
    + split; [discriminate|intros [b H]; discriminate].
    + destruct (ascii_dec x y) as [->|N].
      * rewrite IH. split; intros [b H]; exists b; [now rewrite H|now injection H].
      * split; [discriminate|]. intros [b H]. injection H as H _. congruence.
Qed.

Lemma prefix_false (w s : string) : prefix w s = false <-> ~ is_prefix w s.
Proof.
  rewrite <- prefix_spec. destruct (prefix w s); split; intros H; easy.
Qed.

Lemma index_of_None (w s : string) :
  index_of w s = None -> forall a b, s <> a ++ w ++ b.
Proof.
  induction s as [|c s IH]; cbn [index_of].
  - destruct (prefix w "") eqn:P; [discriminate|]. intros _ a b H.
    apply prefix_false in P. apply P.
    destruct a; [now exists b|discriminate].
  - destruct (prefix w (String c s)) eqn:P; [discriminate|].
    destruct (index_of w s) as [j|] eqn:E; [discriminate|]. intros _ a b H.
    apply prefix_false in P.
    destruct a as [|x a]; [apply P; now exists b|].
    cbn in H. injection H as _ H. exact (IH eq_refl a b H).
Qed.

Lemma index_of_Some (w s : string) (i : nat) :
  index_of w s = Some i -> first_occurrence w s i.
Proof.
  revert i. induction s as [|c s IH]; intros i; cbn [index_of].
  - destruct (prefix w "") eqn:P; [|discriminate]. intros [= <-].
    apply prefix_spec in P. destruct P as [b H]. split.
    + exists "", b. auto.
    + intros; lia.
  - destruct (prefix w (String c s)) eqn:P.
    + intros [= <-]. apply prefix_spec in P. destruct P as [b H]. split.
      * exists "", b. auto.
      * intros; lia.
    + destruct (index_of w s) as [j|] eqn:E; [|discriminate]. cbn. intros [= <-].
      destruct (IH j eq_refl) as [[a [b [H L]]] M]. split.
      * exists (String c a), b. cbn. rewrite <- H, L. auto.
      * intros a' b' H'. apply prefix_false in P.
        destruct a' as [|x a']; [exfalso; apply P; now exists b'|].
        cbn in H'. injection H' as _ H'. specialize (M a' b' H'). cbn. lia.
Qed.

(* the main characterisation of [index_of]: the position of the first occurrence *)
Theorem index_of_spec (w s : string) (i : nat) :
  index_of w s = Some i <-> first_occurrence w s i.
Proof.
  split; [apply index_of_Some|].
  intros [[a [b [H L]]] M].
  destruct (index_of w s) as [j|] eqn:E.
  - apply index_of_Some in E. destruct E as [[a2 [b2 [H2 L2]]] M2].
    specialize (M a2 b2 H2). specialize (M2 a b H). f_equal. lia.
  - exfalso. exact (index_of_None _ _ E a b H).
Qed.
Print Assumptions index_of_spec.

(* the statement of the task, unfolded *)
Corollary index_of_spec' (w s : string) (i : nat) :
  index_of w s = Some i <->
  (exists a b, s = a ++ w ++ b /\ length a = i) /\
  (forall a' b', s = a' ++ w ++ b' -> i <= length a').
Proof. apply index_of_spec. Qed.

Theorem index_of_None_spec (w s : string) :
  index_of w s = None <-> ~ is_substring w s.
Proof.
  split.
  - intros H [a [b E]]. exact (index_of_None _ _ H a b E).
  - intros H. destruct (index_of w s) as [j|] eqn:E; [|reflexivity].
    exfalso. apply H. apply index_of_Some in E. destruct E as [[a [b [E _]]] _]. now exists a, b.
Qed.

Theorem contains_spec (s w : string) : contains s w = true <-> is_substring w s.
Proof.
  unfold contains. destruct (index_of w s) as [j|] eqn:E.
  - split; [intros _|reflexivity].
    apply index_of_Some in E. destruct E as [[a [b [E _]]] _]. now exists a, b.
  - split; [discriminate|]. intros H. now apply index_of_None_spec in E.
Qed.
Print Assumptions contains_spec.

Corollary contains_spec' (s w : string) : contains s w = true <-> exists a b, s = a ++ w ++ b.
Proof. apply contains_spec. Qed.

Theorem starts_with_spec (w s : string) : prefix w s = true <-> exists b, s = w ++ b.
Proof. apply prefix_spec. Qed.
Print Assumptions starts_with_spec.

Lemma string_eqb_eq (a b : string) : String.eqb a b = true <-> a = b.
Proof. apply String.eqb_eq. Qed.

Theorem has_suffix_spec (s w : string) : has_suffix s w = true <-> is_suffix w s.
Proof.
  unfold has_suffix, is_suffix.
  destruct (Nat.leb (length w) (length s)) eqn:L.
  - apply Nat.leb_le in L. rewrite string_eqb_eq. split.
    + intros H. exists (firstn_s (length s - length w) s).
      rewrite <- H at 2. now rewrite firstn_skipn_s.
    + intros [a H]. subst s. rewrite length_app_s.
      replace (length a + length w - length w) with (length a) by lia.
      apply skipn_app_length.
  - apply Nat.leb_gt in L. split; [discriminate|].
    intros [a H]. subst s. rewrite length_app_s in L. lia.
Qed.
Print Assumptions has_suffix_spec.

Corollary ends_with_spec (s w : string) : has_suffix s w = true <-> exists a, s = a ++ w.
Proof. apply has_suffix_spec. Qed.

Example contains_ex : contains "hello world" "o w" = true /\ contains "hello" "lo!" = false
                      /\ contains "" "" = true /\ contains "abc" "" = true.
Proof. vm_compute. auto. Qed.
Example index_of_ex : index_of "ab" "xxabyyab" = Some 2 /\ index_of "" "abc" = Some 0
                      /\ index_of "abcd" "abc" = None.
Proof. vm_compute. auto. Qed.
Example suffix_ex : has_suffix "hello" "llo" = true /\ has_suffix "lo" "hello" = false
                    /\ has_suffix "x" "" = true /\ prefix "he" "hello" = true.
Proof. vm_compute. auto. Qed.

(* ================================================================== *)
(** * 3. substring-before / substring-after *)

(* what the FSubstringBefore / FSubstringAfter cases of [eval] compute *)
Definition substring_before_m (s w : string) : string :=
  match index_of w s with Some i => firstn_s i s | None => "" end.
Definition substring_after_m (s w : string) : string :=
  match index_of w s with Some i => skipn_s (i + length w) s | None => "" end.

Theorem index_of_decompose (w s : string) (i : nat) :
  index_of w s = Some i -> firstn_s i s ++ w ++ skipn_s (i + length w) s = s.
Proof.
  intros H. apply index_of_Some in H. destruct H as [[a [b [H L]]] _]. subst s i.
  rewrite firstn_app_length, skipn_add, skipn_app_length, skipn_app_length. reflexivity.
Qed.
Print Assumptions index_of_decompose.

Lemma index_of_parts (w s : string) (i : nat) (a b : string) :
  s = a ++ w ++ b -> length a = i -> firstn_s i s = a /\ skipn_s (i + length w) s = b.
Proof.
  intros -> <-. now rewrite firstn_app_length, skipn_add, skipn_app_length, skipn_app_length.
Qed.

Theorem substring_before_spec (s w : string) : is_substring_before s w (substring_before_m s w).
Proof.
  unfold substring_before_m, is_substring_before. destruct (index_of w s) as [i|] eqn:E.
  - left. pose proof (index_of_Some _ _ _ E) as F.
    destruct F as [[a [b [H L]]] M].
    destruct (index_of_parts w s i a b H L) as [Ha Hb]. rewrite Ha.
    exists b. split; [exact H|]. rewrite L. split; [now exists a, b|exact M].
  - right. split; [now apply index_of_None_spec|reflexivity].
Qed.

Theorem substring_after_spec (s w : string) : is_substring_after s w (substring_after_m s w).
Proof.
  unfold substring_after_m, is_substring_after. destruct (index_of w s) as [i|] eqn:E.
  - left. pose proof (index_of_Some _ _ _ E) as F.
    destruct F as [[a [b [H L]]] M].
    destruct (index_of_parts w s i a b H L) as [Ha Hb]. rewrite Hb.
    exists a. split; [exact H|]. rewrite L. split; [now exists a, b|exact M].
  - right. split; [now apply index_of_None_spec|reflexivity].
Qed.
Print Assumptions substring_before_spec.
Print Assumptions substring_after_spec.

(* the specifications determine the result *)
Theorem is_substring_before_unique (s w r r' : string) :
  is_substring_before s w r -> is_substring_before s w r' -> r = r'.
Proof.
  intros [[b [H [_ M]]]|[N ->]] [[b' [H' [_ M']]]|[N' ->]]; try reflexivity.
  - pose proof (M _ _ H'). pose proof (M' _ _ H).
    rewrite H' in H. apply app_eq_length_s in H; [|lia]. now destruct H.
  - exfalso. apply N'. now exists r, b.
  - exfalso. apply N. now exists r', b'.
Qed.

Theorem is_substring_after_unique (s w r r' : string) :
  is_substring_after s w r -> is_substring_after s w r' -> r = r'.
Proof.
  intros [[a [H [_ M]]]|[N ->]] [[a' [H' [_ M']]]|[N' ->]]; try reflexivity.
  - pose proof (M _ _ H'). pose proof (M' _ _ H).
    rewrite H' in H. apply app_eq_length_s in H; [|lia]. destruct H as [_ H].
    apply app_inv_head_s in H. auto.
  - exfalso. apply N'. now exists a, r.
  - exfalso. apply N. now exists a', r'.
Qed.

Lemma index_of_empty (s : string) : index_of "" s = Some 0.
Proof. destruct s; reflexivity. Qed.

Theorem substring_after_empty (s : string) : substring_after_m s "" = s.
Proof. unfold substring_after_m. rewrite index_of_empty. reflexivity. Qed.

Theorem substring_before_empty (s : string) : substring_before_m s "" = "".
Proof. unfold substring_before_m. rewrite index_of_empty. now destruct s. Qed.

Theorem substring_before_after_none (s w : string) :
  ~ is_substring w s -> substring_before_m s w = "" /\ substring_after_m s w = "".
Proof.
  intros H. apply index_of_None_spec in H. unfold substring_before_m, substring_after_m.
  now rewrite H.
Qed.

Theorem substring_before_after_join (s w : string) :
  is_substring w s -> substring_before_m s w ++ w ++ substring_after_m s w = s.
Proof.
  intros H. unfold substring_before_m, substring_after_m.
  destruct (index_of w s) as [i|] eqn:E; [now apply index_of_decompose|].
  now apply index_of_None_spec in E.
Qed.

Example substring_before_ex :
  substring_before_m "1999/04/01" "/" = "1999" /\ substring_after_m "1999/04/01" "/" = "04/01"
  /\ substring_after_m "1999/04/01" "19" = "99/04/01" /\ substring_before_m "abc" "x" = "".
Proof. vm_compute. auto. Qed.

(* ================================================================== *)
(** * 6. translate *)

Lemma ascii_eqb_eq (a b : ascii) : Ascii.eqb a b = true <-> a = b.
Proof. apply Ascii.eqb_eq. Qed.

(* [index_of_char c s] is the first position of [c] in [s] *)
Theorem index_of_char_Some (c : ascii) (s : string) (i : nat) :
  index_of_char c s = Some i <->
  get i s = Some c /\ (forall j, j < i -> get j s <> Some c).
Proof.
  revert i. induction s as [|a s IH]; intros i; cbn [index_of_char get].
  - split; [discriminate|intros [H _]; discriminate].
  - destruct (Ascii.eqb a c) eqn:E.
    + apply ascii_eqb_eq in E. subst a. split.
      * intros [= <-]. split; [reflexivity|intros j Hj; lia].
      * intros [H M]. destruct i as [|i]; [reflexivity|].
        exfalso. apply (M 0); [lia|reflexivity].
    + assert (N : a <> c) by (intros ->; rewrite Ascii.eqb_refl in E; discriminate).
      destruct (index_of_char c s) as [k|] eqn:K; cbn [option_map].
      * split.
        -- intros [= <-]. destruct (proj1 (IH k) eq_refl) as [G M]. split; [exact G|].
           intros [|j] Hj; [congruence|]. apply M. lia.
        -- intros [H M]. destruct i as [|i]; [congruence|].
           f_equal. f_equal. symmetry.
           assert (HI : Some k = Some i); [|now injection HI].
           apply IH. split; [exact H|]. intros j Hj. apply (M (S j)). lia.
      * split; [discriminate|]. intros [H M]. destruct i as [|i]; [congruence|].
        assert (HI : None = Some i); [|discriminate].
        apply IH. split; [exact H|]. intros j Hj. apply (M (S j)). lia.
Qed.

Theorem index_of_char_None (c : ascii) (s : string) :
  index_of_char c s = None <-> (forall j, get j s <> Some c).
Proof.
  induction s as [|a s IH]; cbn [index_of_char get].
  - split; [intros _ j; discriminate|reflexivity].
  - destruct (Ascii.eqb a c) eqn:E.
    + apply ascii_eqb_eq in E. subst a. split; [discriminate|].
      intros H. exfalso. now apply (H 0).
    + assert (N : a <> c) by (intros ->; rewrite Ascii.eqb_refl in E; discriminate).
      destruct (index_of_char c s) as [k|] eqn:K; cbn [option_map].
      * split; [discriminate|]. intros H. exfalso.
        assert (HK : Some k = None); [|discriminate].
        apply IH. intros j. apply (H (S j)).
      * split; [|reflexivity]. intros _ [|j]; [congruence|]. now apply (proj1 IH).
Qed.

(* it is [index_of] on the one-byte string *)
Lemma index_of_char_index_of (c : ascii) (s : string) :
  index_of_char c s = index_of (String c "") s.
Proof.
  induction s as [|a s IH]; [reflexivity|].
  cbn [index_of_char index_of prefix].
  destruct (ascii_dec c a) as [->|N].
  - rewrite Ascii.eqb_refl. now destruct s.
  - destruct (Ascii.eqb a c) eqn:E; [apply ascii_eqb_eq in E; congruence|].
    now rewrite IH.
Qed.

Lemma translate_lookup_spec (c : ascii) (src : string) (k : nat) (dst : string) :
  translate_lookup c src k dst = option_map (fun j => get (k + j) dst) (index_of_char c src).
Proof.
  revert k. induction src as [|a src IH]; intros k; cbn [translate_lookup index_of_char].
  - reflexivity.
  - destruct (Ascii.eqb a c); cbn [option_map].
    + now rewrite Nat.add_0_r.
    + rewrite IH. destruct (index_of_char c src) as [j|]; cbn [option_map]; [|reflexivity].
      do 2 f_equal. lia.
Qed.

Theorem translate_spec_correct (s src dst : string) :
  translate s src dst = translate_spec s src dst.
Proof.
  unfold translate_spec. induction s as [|c s IH]; [reflexivity|].
  cbn [translate concat_map]. rewrite translate_lookup_spec. unfold translate_char.
  destruct (index_of_char c src) as [i|]; cbn [option_map plus].
  - destruct (get i dst) as [d|]; cbn; now rewrite IH.
  - cbn. now rewrite IH.
Qed.
Print Assumptions translate_spec_correct.

(* per-byte reading of the specification *)
Theorem translate_char_cases (src dst : string) (c : ascii) :
  ((forall j, get j src <> Some c) /\ translate_char src dst c = String c "")
  \/ (exists i, get i src = Some c /\ (forall j, j < i -> get j src <> Some c) /\
        ((exists d, get i dst = Some d /\ translate_char src dst c = String d "")
         \/ (length dst <= i /\ translate_char src dst c = ""))).
Proof.
  unfold translate_char. destruct (index_of_char c src) as [i|] eqn:E.
  - right. exists i. apply index_of_char_Some in E. destruct E as [G M].
    split; [exact G|]. split; [exact M|].
    destruct (get i dst) as [d|] eqn:Gd.
    + left. now exists d.
    + right. split; [|reflexivity].
      clear -Gd. revert i Gd. induction dst as [|x dst IH]; intros i Gd; cbn in *; [lia|].
      destruct i as [|i]; [discriminate|]. specialize (IH i Gd). lia.
  - left. split; [now apply index_of_char_None|reflexivity].
Qed.

Corollary translate_app (a b src dst : string) :
  translate (a ++ b) src dst = translate a src dst ++ translate b src dst.
Proof.
  rewrite !translate_spec_correct. unfold translate_spec.
  induction a as [|c a IH]; cbn; [reflexivity|]. now rewrite IH, app_assoc_s.
Qed.

Example translate_ex :
  translate "bar" "abc" "ABC" = "BAr" /\ translate "--aaa--" "abc-" "ABC" = "AAA"
  /\ translate "abca" "aa" "xy" = "xbcx" /\ translate "abc" "" "xyz" = "abc".
Proof. vm_compute. auto. Qed.

(* ================================================================== *)
(** * 8. lower-case *)

Theorem lower_ascii_spec (c : ascii) :
  nat_of_ascii (lower_ascii c) = lower_byte (nat_of_ascii c).
Proof.
  unfold lower_ascii, lower_byte, is_upper, byte_of.
  destruct (andb (Nat.leb 65 (nat_of_ascii c)) (Nat.leb (nat_of_ascii c) 90)) eqn:E; [|reflexivity].
  apply andb_prop in E. destruct E as [E1 E2]. apply Nat.leb_le in E1, E2.
  apply nat_ascii_embedding. lia.
Qed.

Lemma lower_ascii_other (c : ascii) : is_upper c = false -> lower_ascii c = c.
Proof. unfold lower_ascii. now intros ->. Qed.

Lemma lower_ascii_idem (c : ascii) : lower_ascii (lower_ascii c) = lower_ascii c.
Proof. destruct c as [[] [] [] [] [] [] [] []]; vm_compute; reflexivity. Qed.

Lemma lower_ascii_not_upper (c : ascii) : is_upper (lower_ascii c) = false.
Proof. destruct c as [[] [] [] [] [] [] [] []]; vm_compute; reflexivity. Qed.

Theorem to_lower_get (s : string) (i : nat) :
  get i (to_lower s) = option_map lower_ascii (get i s).
Proof.
  revert i. induction s as [|c s IH]; intros i; cbn; [reflexivity|].
  destruct i; [reflexivity|apply IH].
Qed.

Theorem to_lower_length (s : string) : length (to_lower s) = length s.
Proof. induction s as [|c s IH]; cbn; [reflexivity|now rewrite IH]. Qed.

Theorem to_lower_idem (s : string) : to_lower (to_lower s) = to_lower s.
Proof. induction s as [|c s IH]; cbn; [reflexivity|now rewrite IH, lower_ascii_idem]. Qed.

Theorem to_lower_app (a b : string) : to_lower (a ++ b) = to_lower a ++ to_lower b.
Proof. induction a as [|c a IH]; cbn; [reflexivity|now rewrite IH]. Qed.
Print Assumptions to_lower_get.
Print Assumptions to_lower_idem.

Example to_lower_ex : to_lower "Hello, WORLD [@`{" = "hello, world [@`{".
Proof. vm_compute. reflexivity. Qed.

(* ================================================================== *)
(** * 9. string-join *)

Lemma join_nil (sep : string) : join sep [] = "".
Proof. reflexivity. Qed.
Lemma join_one (sep x : string) : join sep [x] = x.
Proof. reflexivity. Qed.
Lemma join_cons2 (sep x y : string) (r : list string) :
  join sep (x :: y :: r) = x ++ sep ++ join sep (y :: r).
Proof. reflexivity. Qed.

Lemma concat_all_app (l1 l2 : list string) :
  concat_all (l1 ++ l2) = concat_all l1 ++ concat_all l2.
Proof.
  induction l1 as [|x l1 IH]; cbn; [reflexivity|].
  unfold concat_all in *. cbn. now rewrite IH, app_assoc_s.
Qed.

Theorem join_intersperse (sep : string) (l : list string) :
  join sep l = concat_all (intersperse sep l).
Proof.
  induction l as [|x [|y r] IH]; [reflexivity|cbn; now rewrite app_nil_r_s|].
  rewrite join_cons2, IH. reflexivity.
Qed.
Print Assumptions join_intersperse.

Theorem join_stdlib (sep : string) (l : list string) : join sep l = String.concat sep l.
Proof. induction l as [|x l IH]; [reflexivity|]. destruct l as [|y r]; [reflexivity|]. rewrite join_cons2, IH. reflexivity. Qed.

Theorem join_length (sep : string) (l : list string) :
  length (join sep l) =
  fold_right (fun x n => length x + n) 0 l + length sep * (List.length l - 1).
Proof.
  induction l as [|x [|y r] IH]; [cbn; lia|cbn; lia|].
  rewrite join_cons2, !length_app_s, IH. cbn [fold_right List.length]. lia.
Qed.

Theorem join_empty_sep (l : list string) : join "" l = concat_all l.
Proof.
  induction l as [|x [|y r] IH]; [reflexivity|cbn; now rewrite app_nil_r_s|].
  rewrite join_cons2, IH. reflexivity.
Qed.

Example join_ex : join ", " ["a"; "bc"; ""; "d"] = "a, bc, , d" /\ join "-" ["x"] = "x".
Proof. vm_compute. auto. Qed.

(* ================================================================== *)
(** * 10. substring: the integer core *)

Definition in_range (a e : Z) (p : Z) : bool := andb (Z.leb a p) (Z.ltb p e).

Lemma filter_pos_none (keep : Z -> bool) (i : Z) (s : string) :
  (forall p, (i <= p)%Z -> keep p = false) -> filter_pos keep i s = "".
Proof.
  revert i. induction s as [|c s IH]; intros i H; cbn; [reflexivity|].
  rewrite (H i) by lia. apply IH. intros p Hp. apply H. lia.
Qed.

Lemma slice_filter_pos (s : string) (i a e : Z) :
  firstn_s (Z.to_nat (e - i) - Z.to_nat (a - i)) (skipn_s (Z.to_nat (a - i)) s)
  = filter_pos (in_range a e) i s.
Proof.
  revert i. induction s as [|c s IH]; intros i.
  - cbn. destruct (Z.to_nat (a - i)); now destruct (Z.to_nat (e - i) - _).
  - cbn [filter_pos]. rewrite <- IH. unfold in_range.
    destruct (Z.leb a i) eqn:A; [apply Z.leb_le in A|apply Z.leb_gt in A].
    + replace (Z.to_nat (a - i)) with 0 by lia.
      replace (Z.to_nat (a - (i + 1))) with 0 by lia. cbn [skipn_s andb].
      destruct (Z.ltb i e) eqn:E; [apply Z.ltb_lt in E|apply Z.ltb_ge in E].
      * replace (Z.to_nat (e - i) - 0) with (S (Z.to_nat (e - (i + 1)) - 0)) by lia.
        reflexivity.
      * replace (Z.to_nat (e - i) - 0) with 0 by lia.
        replace (Z.to_nat (e - (i + 1)) - 0) with 0 by lia. now destruct s.
    + cbn [andb].
      replace (Z.to_nat (a - i)) with (S (Z.to_nat (a - (i + 1)))) by lia.
      cbn [skipn_s]. f_equal. lia.
Qed.

(* the slice m[a-1 : e-1] is the set of positions a <= p < e (1-based);
   no side condition on a and e is needed *)
Theorem slice_substring_pos (m : string) (a e : Z) :
  firstn_s (Z.to_nat (e - 1) - Z.to_nat (a - 1)) (skipn_s (Z.to_nat (a - 1)) m)
  = substring_pos m a e.
Proof. apply slice_filter_pos. Qed.
Print Assumptions slice_substring_pos.

(* the statement of the task (with its side conditions, which are not needed) *)
Corollary slice_substring_pos' (m : string) (a e : Z) :
  (1 <= a)%Z -> (e <= Z.of_nat (length m) + 1)%Z ->
  firstn_s (Z.to_nat (e - 1) - Z.to_nat (a - 1)) (skipn_s (Z.to_nat (a - 1)) m)
  = substring_pos m a e.
Proof. intros _ _. apply slice_substring_pos. Qed.

(* reading of [substring_pos] byte by byte *)
Theorem substring_pos_get (m : string) (a e : Z) (k : nat) :
  (1 <= a)%Z ->
  get k (substring_pos m a e) =
  if Z.ltb (a + Z.of_nat k) e then get (Z.to_nat (a - 1) + k) m else None.
Proof.
  intros Ha. rewrite <- slice_substring_pos.
  assert (G1 : forall n s j, get j (firstn_s n s) = if Nat.ltb j n then get j s else None).
  { induction n as [|n IH]; intros s j.
    - replace (firstn_s 0 s) with "" by now destruct s. reflexivity.
    - destruct s as [|c s]; cbn [firstn_s get]; [now destruct (Nat.ltb j (S n))|].
      destruct j as [|j]; [reflexivity|]. rewrite IH. reflexivity. }
  assert (G2 : forall n s j, get j (skipn_s n s) = get (n + j) s).
  { induction n as [|n IH]; intros s j; destruct s as [|c s]; cbn [skipn_s get plus]; try reflexivity.
    apply IH. }
  rewrite G1, G2.
  destruct (Z.ltb (a + Z.of_nat k) e) eqn:E; [apply Z.ltb_lt in E|apply Z.ltb_ge in E].
  - replace (Nat.ltb k (Z.to_nat (e - 1) - Z.to_nat (a - 1))) with true; [reflexivity|].
    symmetry. apply Nat.ltb_lt. lia.
  - replace (Nat.ltb k (Z.to_nat (e - 1) - Z.to_nat (a - 1))) with false; [reflexivity|].
    symmetry. apply Nat.ltb_ge. lia.
Qed.

Example substring_pos_ex :
  substring_pos "12345" 2 5 = "234" /\ substring_pos "12345" (-3) 3 = "12"
  /\ substring_pos "12345" 4 100 = "45" /\ substring_pos "12345" 4 2 = "".
Proof. vm_compute. auto. Qed.

(* ================================================================== *)
(** * 7. normalize-space *)

(** ** 7.1 [string_rev], [trim_space] *)

Lemma string_rev_acc_app (s acc : string) : string_rev_acc s acc = string_rev s ++ acc.
Proof.
  unfold string_rev. revert acc. induction s as [|c s IH]; intros acc; cbn; [reflexivity|].
  rewrite (IH (String c acc)), (IH (String c "")), app_assoc_s. reflexivity.
Qed.

Lemma string_rev_cons (c : ascii) (s : string) : string_rev (String c s) = string_rev s ++ String c "".
Proof. unfold string_rev at 1. cbn. apply string_rev_acc_app. Qed.

Lemma string_rev_app (a b : string) : string_rev (a ++ b) = string_rev b ++ string_rev a.
Proof.
  induction a as [|c a IH]; cbn [append].
  - now rewrite app_nil_r_s.
  - now rewrite !string_rev_cons, IH, app_assoc_s.
Qed.

Lemma string_rev_involutive (s : string) : string_rev (string_rev s) = s.
Proof.
  induction s as [|c s IH]; [reflexivity|]. rewrite string_rev_cons, string_rev_app, IH. reflexivity.
Qed.

(* removal of trailing white space, by structural recursion *)
Fixpoint trim_right (s : string) : string :=
  match s with
  | EmptyString => ""
  | String c s' =>
    match trim_right s' with
    | EmptyString => if is_space_ascii c then "" else String c ""
    | r => String c r
    end
  end.

Lemma trim_left_app (t u : string) :
  trim_left (t ++ u) = match trim_left t with EmptyString => trim_left u | r => r ++ u end.
Proof.
  induction t as [|c t IH]; cbn [append trim_left]; [reflexivity|].
  destruct (is_space_ascii c); [exact IH|reflexivity].
Qed.

Lemma rev_trim_left_rev (s : string) : string_rev (trim_left (string_rev s)) = trim_right s.
Proof.
  induction s as [|c s IH]; [reflexivity|].
  rewrite string_rev_cons, trim_left_app. cbn [trim_right]. rewrite <- IH.
  destruct (trim_left (string_rev s)) as [|a t].
  - cbn [trim_left]. change (string_rev "") with "".
    destruct (is_space_ascii c); reflexivity.
  - rewrite string_rev_app. change (string_rev (String c "")) with (String c ""). cbn [append].
    rewrite string_rev_cons. now destruct (string_rev t).
Qed.

Theorem trim_space_spec (s : string) : trim_space s = trim_right (trim_left s).
Proof. unfold trim_space. apply rev_trim_left_rev. Qed.

(** ** 7.2 [words] *)

Lemma cons_word_nonempty (c : ascii) (g : bool) (l : list string) : cons_word c g l <> [].
Proof. destruct g, l; discriminate. Qed.

Lemma words_trim_left (s : string) : words (trim_left s) = words s.
Proof.
  induction s as [|c s IH]; [reflexivity|]. cbn [trim_left words].
  destruct (is_space_ascii c) eqn:E; [exact IH|]. cbn [words]. now rewrite E.
Qed.

Lemma trim_left_head (s : string) : trim_left s = "" \/ starts_nonspace (trim_left s) = true.
Proof.
  induction s as [|c s IH]; [now left|]. cbn [trim_left].
  destruct (is_space_ascii c) eqn:E; [exact IH|]. right. cbn. now rewrite E.
Qed.

Lemma trim_right_nonspace (c : ascii) (s : string) :
  is_space_ascii c = false -> trim_right (String c s) = String c (trim_right s).
Proof. intros E. cbn [trim_right]. rewrite E. now destruct (trim_right s). Qed.

Lemma trim_right_empty_iff (u : string) : trim_right u = "" <-> words u = [].
Proof.
  induction u as [|c u IH]; [easy|].
  destruct (is_space_ascii c) eqn:E.
  - cbn [trim_right words]. rewrite E, <- IH. now destruct (trim_right u).
  - rewrite trim_right_nonspace by exact E. cbn [words]. rewrite E.
    split; [discriminate|]. intros H. now apply cons_word_nonempty in H.
Qed.

Lemma trim_right_head (u : string) (c : ascii) (r : string) :
  trim_right u = String c r -> exists u', u = String c u'.
Proof.
  destruct u as [|x u]; [discriminate|]. cbn [trim_right].
  destruct (trim_right u); [destruct (is_space_ascii x)|]; intros [= -> _]; eauto.
Qed.

Lemma join_cons_char (sep : string) (c : ascii) (w : string) (r : list string) :
  join sep (String c w :: r) = String c (join sep (w :: r)).
Proof. now destruct r. Qed.

Lemma collapse_cons (c : ascii) (s : string) :
  collapse_spaces (String c s) =
  if is_space_ascii c then
    match s with
    | String c' _ => if is_space_ascii c' then collapse_spaces s else String " "%char (collapse_spaces s)
    | EmptyString => String " "%char EmptyString
    end
  else String c (collapse_spaces s).
Proof. reflexivity. Qed.

Lemma collapse_trim_right (u : string) :
  collapse_spaces (trim_right u) =
  match words u with
  | [] => ""
  | l => (if starts_nonspace u then "" else " ") ++ join " " l
  end.
Proof.
  induction u as [|c u IH]; [reflexivity|].
  destruct (is_space_ascii c) eqn:E.
  - cbn [words starts_nonspace]. rewrite E. cbn [negb].
    cbn [trim_right]. rewrite E.
    destruct (trim_right u) as [|c' r] eqn:T.
    + apply trim_right_empty_iff in T. now rewrite T.
    + assert (W : words u <> []).
      { intros W. apply trim_right_empty_iff in W. congruence. }
      destruct (trim_right_head _ _ _ T) as [u' ->].
      rewrite (collapse_cons c (String c' r)), E. cbn [starts_nonspace] in IH.
      destruct (is_space_ascii c') eqn:E'; cbn [negb] in IH.
      * exact IH.
      * rewrite IH. destruct (words (String c' u')); [congruence|reflexivity].
  - rewrite trim_right_nonspace by exact E.
    rewrite collapse_cons, E, IH.
    cbn [words starts_nonspace]. rewrite E. cbn [negb].
    destruct (words u) as [|w r]; [now destruct (starts_nonspace u)|].
    destruct (starts_nonspace u); cbn [cons_word].
    + rewrite join_cons_char. reflexivity.
    + reflexivity.
Qed.

(** ** 7.3 the main equation *)

Theorem normalize_space_correct (s : string) : normalize_space s = normalize_space_spec s.
Proof.
  unfold normalize_space, normalize_space_spec.
  rewrite trim_space_spec, collapse_trim_right, words_trim_left.
  destruct (words s) as [|w r] eqn:W; [reflexivity|].
  destruct (trim_left_head s) as [H|H].
  - rewrite <- words_trim_left, H in W. discriminate.
  - now rewrite H.
Qed.
Print Assumptions normalize_space_correct.

Corollary normalize_space_join_words (s : string) : normalize_space s = join " " (words s).
Proof. apply normalize_space_correct. Qed.

Example normalize_space_ex :
  normalize_space "  a   b  " = "a b" /\ words "  a   b  " = ["a"; "b"]
  /\ normalize_space "   " = "" /\ normalize_space "" = ""
  /\ normalize_space (String (ascii_of_nat 9) "x" ++ String (ascii_of_nat 10) (String (ascii_of_nat 13) "yz ")) = "x yz".
Proof. vm_compute. repeat split. Qed.

(** ** 7.4 [words] against the relational description [splits] *)

Lemma all_chars_app (p : ascii -> bool) (a b : string) :
  all_chars p (a ++ b) = andb (all_chars p a) (all_chars p b).
Proof. induction a as [|c a IH]; cbn; [reflexivity|]. now rewrite IH, andb_assoc. Qed.

Lemma words_blank (b : string) : is_blank b -> words b = [].
Proof.
  unfold is_blank. induction b as [|c b IH]; cbn; [reflexivity|].
  intros H. apply andb_prop in H. destruct H as [H1 H2]. rewrite H1. auto.
Qed.

Lemma words_blank_app (b x : string) : is_blank b -> words (b ++ x) = words x.
Proof.
  unfold is_blank. induction b as [|c b IH]; cbn; [reflexivity|].
  intros H. apply andb_prop in H. destruct H as [H1 H2]. rewrite H1. auto.
Qed.

Lemma starts_nonspace_word_app (w x : string) : is_word w -> starts_nonspace (w ++ x) = true.
Proof.
  intros [N A]. destruct w as [|c w]; [congruence|]. cbn in *.
  apply andb_prop in A. now destruct A.
Qed.

Lemma starts_nonspace_blank_app (b x : string) : is_blank b -> b <> "" -> starts_nonspace (b ++ x) = false.
Proof.
  unfold is_blank. intros A N. destruct b as [|c b]; [congruence|]. cbn in *.
  apply andb_prop in A. destruct A as [A _]. now rewrite A.
Qed.

Lemma starts_nonspace_blank (b : string) : is_blank b -> starts_nonspace b = false.
Proof.
  unfold is_blank. destruct b as [|c b]; [reflexivity|]. cbn. intros A.
  apply andb_prop in A. destruct A as [A _]. now rewrite A.
Qed.

Lemma words_word_app (w x : string) :
  is_word w -> starts_nonspace x = false -> words (w ++ x) = w :: words x.
Proof.
  intros [N A] X. induction w as [|c w IH]; [congruence|]. cbn in A.
  apply andb_prop in A. destruct A as [A1 A2]. apply negb_true_iff in A1.
  cbn [append words]. rewrite A1.
  destruct w as [|c' w].
  - cbn [append]. rewrite X. reflexivity.
  - rewrite IH by (discriminate || exact A2).
    replace (starts_nonspace (String c' w ++ x)) with true; [reflexivity|].
    symmetry. apply starts_nonspace_word_app. split; [discriminate|exact A2].
Qed.

Lemma words_word (w : string) : is_word w -> words w = [w].
Proof. intros H. rewrite <- (app_nil_r_s w) at 1. now rewrite words_word_app. Qed.

(* soundness: any splitting of [s] into words and blanks is [words s] *)
Theorem splits_words (s : string) (l : list string) : splits s l -> words s = l.
Proof.
  induction 1 as [b B|b w b' B W B'|b w sp rest l B W SP N R _ IH].
  - now apply words_blank.
  - rewrite words_blank_app by exact B.
    rewrite words_word_app by (exact W || now apply starts_nonspace_blank).
    now rewrite words_blank.
  - rewrite words_blank_app by exact B.
    rewrite words_word_app by (exact W || now apply starts_nonspace_blank_app).
    rewrite words_blank_app by exact SP. now rewrite IH.
Qed.

Lemma is_blank_cons (c : ascii) (b : string) : is_space_ascii c = true -> is_blank b -> is_blank (String c b).
Proof. unfold is_blank. cbn. now intros -> ->. Qed.

Lemma is_word_cons (c : ascii) (w : string) : is_space_ascii c = false -> is_word w -> is_word (String c w).
Proof. intros E [_ A]. split; [discriminate|]. cbn. now rewrite E, A. Qed.

Lemma is_word_one (c : ascii) : is_space_ascii c = false -> is_word (String c "").
Proof. intros E. split; [discriminate|]. cbn. now rewrite E. Qed.

Lemma is_blank_nil : is_blank "".
Proof. reflexivity. Qed.

Lemma splits_cons_space (c : ascii) (s : string) (l : list string) :
  is_space_ascii c = true -> splits s l -> splits (String c s) l.
Proof.
  intros E H. destruct H as [b B|b w b' B W B'|b w sp rest l B W SP N R H].
  - apply splits_nil. now apply is_blank_cons.
  - apply (splits_last (String c b)); auto using is_blank_cons.
  - apply (splits_cons (String c b)); auto using is_blank_cons.
Qed.

Lemma splits_cons_nonspace (c : ascii) (s : string) (l : list string) :
  is_space_ascii c = false -> splits s l -> splits (String c s) (cons_word c (starts_nonspace s) l).
Proof.
  intros E H. destruct H as [b B|b w b' B W B'|b w sp rest l B W SP N R H].
  - replace (cons_word c (starts_nonspace b) []) with [String c ""] by now destruct (starts_nonspace b).
    apply (splits_last "" (String c "") b); auto using is_blank_nil, is_word_one.
  - destruct b as [|x b].
    + cbn [append]. rewrite starts_nonspace_word_app by exact W. cbn [cons_word].
      apply (splits_last "" (String c w) b'); auto using is_blank_nil, is_word_cons.
    + rewrite starts_nonspace_blank_app by (exact B || discriminate). cbn [cons_word].
      apply (splits_cons "" (String c "") (String x b) (w ++ b') [w]);
        auto using is_blank_nil, is_word_one, starts_nonspace_word_app; try discriminate.
      apply (splits_last "" w b'); auto using is_blank_nil.
  - destruct b as [|x b].
    + cbn [append]. rewrite starts_nonspace_word_app by exact W. cbn [cons_word].
      apply (splits_cons "" (String c w) sp rest l); auto using is_blank_nil, is_word_cons.
    + rewrite starts_nonspace_blank_app by (exact B || discriminate). cbn [cons_word].
      apply (splits_cons "" (String c "") (String x b) (w ++ sp ++ rest) (w :: l));
        auto using is_blank_nil, is_word_one, starts_nonspace_word_app; try discriminate.
      apply (splits_cons "" w sp rest l); auto using is_blank_nil.
Qed.

(* completeness: [words s] is such a splitting *)
Theorem words_splits (s : string) : splits s (words s).
Proof.
  induction s as [|c s IH].
  - apply splits_nil. reflexivity.
  - cbn [words]. destruct (is_space_ascii c) eqn:E.
    + now apply splits_cons_space.
    + now apply splits_cons_nonspace.
Qed.

Theorem words_spec (s : string) (l : list string) : words s = l <-> splits s l.
Proof. split; [intros <-; apply words_splits|apply splits_words]. Qed.
Print Assumptions words_spec.

Lemma splits_all_words (s : string) (l : list string) : splits s l -> Forall is_word l.
Proof. induction 1; auto. Qed.

Theorem words_are_words (s : string) : Forall is_word (words s).
Proof. apply (splits_all_words s). apply words_splits. Qed.

(** ** 7.5 shape of the result: no leading / trailing / double white space,
   only ' ' as white space, same words *)

(* boolean checker used as an intermediate: [prev] tells whether the previous
   byte was white space (or the string starts here) *)
Fixpoint norm_b (prev : bool) (s : string) : bool :=
  match s with
  | EmptyString => true
  | String c s' =>
    if is_space_ascii c then
      andb (andb (negb prev) (Ascii.eqb c " "))
           (andb (match s' with EmptyString => false | _ => true end) (norm_b true s'))
    else norm_b false s'
  end.

Lemma norm_b_tail (p : bool) (c : ascii) (s : string) :
  norm_b p (String c s) = true -> exists p', norm_b p' s = true.
Proof.
  cbn [norm_b]. destruct (is_space_ascii c).
  - intros H. apply andb_prop in H. destruct H as [_ H]. apply andb_prop in H. destruct H as [_ H]. eauto.
  - eauto.
Qed.

Lemma norm_b_leading (s : string) (c : ascii) :
  norm_b true s = true -> get 0 s = Some c -> is_space_ascii c = false.
Proof.
  destruct s as [|x s]; [discriminate|]. cbn [norm_b get]. intros H [= ->].
  destruct (is_space_ascii c); [discriminate|reflexivity].
Qed.

Lemma norm_b_trailing (s : string) (p : bool) (c : ascii) :
  norm_b p s = true -> get (length s - 1) s = Some c -> is_space_ascii c = false.
Proof.
  revert p. induction s as [|x s IH]; intros p H G; [discriminate|].
  destruct s as [|y s].
  - cbn in G. injection G as ->. cbn [norm_b] in H.
    destruct (is_space_ascii c); [|reflexivity].
    rewrite andb_false_r in H. discriminate.
  - destruct (norm_b_tail _ _ _ H) as [p' H'].
    apply (IH p' H').
    replace (length (String x (String y s)) - 1) with (S (length (String y s) - 1)) in G
      by (cbn [length]; lia).
    cbn [get] in G. exact G.
Qed.

Lemma norm_b_double (s : string) (p : bool) (i : nat) (c1 c2 : ascii) :
  norm_b p s = true -> get i s = Some c1 -> get (S i) s = Some c2 ->
  is_space_ascii c1 = true -> is_space_ascii c2 = false.
Proof.
  revert p i. induction s as [|x s IH]; intros p i H G1 G2 S1; [discriminate|].
  destruct i as [|i].
  - cbn [get] in G1. injection G1 as ->.
    destruct s as [|y s]; [discriminate|]. cbn [get] in G2. injection G2 as ->.
    cbn [norm_b] in H. rewrite S1 in H.
    destruct (is_space_ascii c2); [|reflexivity].
    cbn in H. rewrite !andb_false_r in H. discriminate.
  - destruct (norm_b_tail _ _ _ H) as [p' H'].
    exact (IH p' i H' G1 G2 S1).
Qed.

Lemma norm_b_only_sp (s : string) (p : bool) (i : nat) (c : ascii) :
  norm_b p s = true -> get i s = Some c -> is_space_ascii c = true -> c = " "%char.
Proof.
  revert p i. induction s as [|x s IH]; intros p i H G S1; [discriminate|].
  destruct i as [|i].
  - cbn [get] in G. injection G as ->. cbn [norm_b] in H. rewrite S1 in H.
    apply andb_prop in H. destruct H as [H _]. apply andb_prop in H. destruct H as [_ H].
    now apply Ascii.eqb_eq in H.
  - destruct (norm_b_tail _ _ _ H) as [p' H'].
    exact (IH p' i H' G S1).
Qed.

Lemma norm_b_normalized (s : string) : norm_b true s = true -> normalized s.
Proof.
  intros H. constructor.
  - intros c. now apply norm_b_leading.
  - intros c. now apply (norm_b_trailing s true).
  - intros i c1 c2. now apply (norm_b_double s true).
  - intros i c. now apply (norm_b_only_sp s true).
Qed.

Lemma norm_b_word_app (p : bool) (w x : string) :
  is_word w -> norm_b p (w ++ x) = norm_b false x.
Proof.
  intros [N A]. revert p. induction w as [|c w IH]; intros p; [congruence|]. cbn in A.
  apply andb_prop in A. destruct A as [A1 A2]. apply negb_true_iff in A1.
  cbn [append norm_b]. rewrite A1.
  destruct w as [|c' w]; [reflexivity|]. apply IH; [discriminate|exact A2].
Qed.

Lemma norm_b_join (l : list string) : Forall is_word l -> norm_b true (join " " l) = true.
Proof.
  induction l as [|w l IH]; intros F; [reflexivity|].
  apply Forall_cons_iff in F. destruct F as [W F].
  destruct l as [|w2 r].
  - cbn [join]. rewrite <- (app_nil_r_s w). now rewrite norm_b_word_app.
  - rewrite join_cons2, norm_b_word_app by exact W.
    specialize (IH F). cbn [append norm_b].
    change (is_space_ascii " ") with true. cbn [negb andb]. rewrite IH.
    apply Forall_cons_iff in F. destruct F as [[N2 _] _].
    destruct w2 as [|c2 w2]; [congruence|]. rewrite join_cons_char. reflexivity.
Qed.

Lemma words_join (l : list string) : Forall is_word l -> words (join " " l) = l.
Proof.
  induction l as [|w l IH]; intros F; [reflexivity|].
  apply Forall_cons_iff in F. destruct F as [W F].
  destruct l as [|w2 r].
  - now apply words_word.
  - rewrite join_cons2, words_word_app by (exact W || reflexivity).
    change (" " ++ join " " (w2 :: r)) with (String " " (join " " (w2 :: r))).
    cbn [words]. change (is_space_ascii " ") with true. cbn iota. now rewrite IH.
Qed.

Theorem normalize_space_normalized (s : string) : normalized (normalize_space s).
Proof.
  rewrite normalize_space_correct. apply norm_b_normalized, norm_b_join, words_are_words.
Qed.
Print Assumptions normalize_space_normalized.

Theorem normalize_space_words (s : string) : words (normalize_space s) = words s.
Proof. rewrite normalize_space_correct. apply words_join, words_are_words. Qed.
Print Assumptions normalize_space_words.

Theorem normalize_space_idem (s : string) : normalize_space (normalize_space s) = normalize_space s.
Proof.
  rewrite (normalize_space_correct (normalize_space s)). unfold normalize_space_spec.
  rewrite normalize_space_words. symmetry. apply normalize_space_correct.
Qed.

(* a string of white space only is mapped to "" *)
Theorem normalize_space_blank (s : string) : is_blank s -> normalize_space s = "".
Proof. intros H. rewrite normalize_space_correct. unfold normalize_space_spec. now rewrite words_blank. Qed.

Example normalized_ex : normalized "a b" /\ ~ normalized " a" /\ ~ normalized "a  b".
Proof.
  split; [apply norm_b_normalized; reflexivity|]. split; intros [H1 H2 H3 H4].
  - specialize (H1 " "%char eq_refl). discriminate.
  - specialize (H3 1 " "%char " "%char eq_refl eq_refl eq_refl). discriminate.
Qed.

(* ================================================================== *)
(** * 10 (continued). [substring_go]: the float front-end *)

Lemma firstn_all_s (n : nat) (s : string) : length s <= n -> firstn_s n s = s.
Proof.
  revert s. induction n as [|n IH]; intros [|c s] H; cbn in *; try reflexivity; [lia|].
  rewrite IH; [reflexivity|lia].
Qed.

(* (a) substring() never fails: for ALL float arguments, NaN and infinities
   included, the result is a substring of the first argument *)
Theorem substring_go_is_substring (m : string) (start : f64) (len : option f64) :
  is_substring (substring_go m start len) m.
Proof.
  unfold substring_go. destruct len as [len|]; cbv zeta;
  repeat match goal with |- context [if ?b then _ else _] => destruct b end;
  auto using slice_is_substring, skipn_is_substring, empty_is_substring, self_is_substring.
Qed.
Print Assumptions substring_go_is_substring.

Corollary substring_go_total (m : string) (start : f64) (len : option f64) :
  exists a b, m = a ++ substring_go m start len ++ b.
Proof. apply substring_go_is_substring. Qed.

Corollary substring_go_length (m : string) (start : f64) (len : option f64) :
  length (substring_go m start len) <= length m.
Proof.
  destruct (substring_go_is_substring m start len) as [a [b H]].
  rewrite H at 2. rewrite !length_app_s. lia.
Qed.

(* the clamped bounds of the three-argument form *)
Definition sub_start (start : f64) : f64 :=
  let s := xround start in if fgt s fone then s else fone.
Definition sub_end (m : string) (start len : f64) : f64 :=
  let n1 := of_Z (Z.of_nat (length m) + 1) in
  let e := fadd (xround start) (xround len) in
  if fgt e n1 then n1 else e.

(* three arguments: the positions  int(start') <= p < int(end')  when
   end' > start' as floats, nothing otherwise *)
Theorem substring_go_3 (m : string) (start len : f64) :
  substring_go m start (Some len) =
  if fgt (sub_end m start len) (sub_start start)
  then substring_pos m (go_int (sub_start start)) (go_int (sub_end m start len))
  else "".
Proof. rewrite <- slice_substring_pos. reflexivity. Qed.
Print Assumptions substring_go_3.

(* (b) *)
Corollary substring_go_3_empty (m : string) (start len : f64) :
  fgt (sub_end m start len) (sub_start start) = false -> substring_go m start (Some len) = "".
Proof. intros H. now rewrite substring_go_3, H. Qed.

(* two arguments: the positions  p >= int(round(start)) *)
Theorem substring_go_2 (m : string) (start : f64) :
  substring_go m start None =
  let s := xround start in
  if orb (is_nan s) (fgt s (of_Z (Z.of_nat (length m)))) then ""
  else if flt s fone then m
  else substring_pos m (go_int s) (Z.of_nat (length m) + 1).
Proof.
  unfold substring_go. cbv zeta.
  destruct (orb _ _); [reflexivity|]. destruct (flt _ _); [reflexivity|].
  rewrite <- slice_substring_pos. symmetry. apply firstn_all_s.
  rewrite length_skipn_s. lia.
Qed.

(* special values, by computation on SpecFloat *)
Lemma SFltb_nan_r (x : f64) : SFltb x S754_nan = false.
Proof. now destruct x as [| | |[] ? ?]. Qed.
Lemma SFltb_nan_l (x : f64) : SFltb S754_nan x = false.
Proof. reflexivity. Qed.
Lemma SFltb_pinf_l (x : f64) : SFltb (S754_infinity false) x = false.
Proof. now destruct x as [|[]| |[] ? ?]. Qed.
Lemma fadd_nan_l (x : f64) : fadd S754_nan x = S754_nan.
Proof. reflexivity. Qed.
Lemma fadd_nan_r (x : f64) : fadd x S754_nan = S754_nan.
Proof. now destruct x as [[]|[]| |[] ? ?]. Qed.
Lemma xround_nan : xround fnan = fnan.
Proof. reflexivity. Qed.
Lemma xround_pinf : xround (S754_infinity false) = S754_infinity false.
Proof. reflexivity. Qed.

Theorem substring_go_nan_start (m : string) (len : option f64) :
  substring_go m fnan len = "".
Proof.
  destruct len as [len|]; [|reflexivity].
  apply substring_go_3_empty. unfold sub_end, sub_start, fgt. cbv zeta.
  rewrite xround_nan. unfold fnan. rewrite fadd_nan_l, !SFltb_nan_r. reflexivity.
Qed.

Theorem substring_go_nan_len (m : string) (start : f64) :
  substring_go m start (Some fnan) = "".
Proof.
  apply substring_go_3_empty. unfold sub_end, sub_start, fgt. cbv zeta.
  rewrite xround_nan. unfold fnan. rewrite fadd_nan_r, !SFltb_nan_r. reflexivity.
Qed.

Theorem substring_go_pinf_start (m : string) (len : f64) :
  substring_go m (S754_infinity false) (Some len) = "".
Proof.
  apply substring_go_3_empty. unfold sub_start, fgt. cbv zeta. rewrite xround_pinf.
  change (SFltb fone (S754_infinity false)) with true. cbv iota. apply SFltb_pinf_l.
Qed.

(* examples: XPath 1.0 section 4.2 *)
Definition f_1_5 : f64 := of_decimal false (list_of_string "1") (list_of_string "5").
Definition f_2_6 : f64 := of_decimal false (list_of_string "2") (list_of_string "6").
Example substring_go_ex :
  substring_go "12345" f_1_5 (Some f_2_6) = "234"
  /\ substring_go "12345" (of_Z 0) (Some (of_Z 3)) = "12"
  /\ substring_go "12345" fnan (Some (of_Z 3)) = ""
  /\ substring_go "12345" (of_Z 1) (Some fnan) = ""
  /\ substring_go "12345" (of_Z (-42)) (Some (S754_infinity false)) = "12345"
  /\ substring_go "12345" (of_Z 2) None = "2345"
  /\ substring_go "12345" (S754_infinity true) None = "12345".
Proof. vm_compute. repeat split. Qed.

(* NOTE (deviation of the engine from XPath 1.0, faithfully modelled):
   substring("12345", -1 div 0, 1 div 0) is "12345" in the recommendation,
   here -Inf + +Inf = NaN and the result is "" *)
Example substring_go_minf_pinf :
  substring_go "12345" (S754_infinity true) (Some (S754_infinity false)) = "".
Proof. vm_compute. reflexivity. Qed.

(* sanity check of the float front-end on small integral arguments: the result
   is the set of positions  start <= p < start + len  *)
Definition zrange (lo : Z) (k : nat) : list Z := map (fun i => (lo + Z.of_nat i)%Z) (seq 0 k).
Example substring_go_small_ints :
  forallb (fun a => forallb (fun l =>
     String.eqb (substring_go "12345" (of_Z a) (Some (of_Z l))) (substring_pos "12345" a (a + l)))
     (zrange (-4) 14)) (zrange (-4) 14) = true
  /\ forallb (fun a => String.eqb (substring_go "12345" (of_Z a) None) (substring_pos "12345" a 6))
     (zrange (-4) 14) = true.
Proof. vm_compute. auto. Qed.

(* ================================================================== *)
(** * 11. The [eval] cases of the string functions *)

Section EvalStrings.
Variable D : tree.
Variable has_ns : bool.
Variable hcode : node -> N.
Variable re_match : string -> string -> option bool.
Variable re_numsubexp : string -> nat.
Variable re_replace_all : string -> string -> string -> string.

Notation ev := (eval D has_ns hcode re_match re_numsubexp re_replace_all).
Notation sof := (str_or_first D).

(* string or node-set *)
Definition strlike (v : value) : bool :=
  match v with VStr _ | VNodes _ => true | _ => false end.

(** ** the argument conversion [str_or_first] *)
Lemma sof_str (s : string) : sof (VStr s) = s.
Proof. reflexivity. Qed.
Lemma sof_nodes_nil : sof (VNodes []) = "".
Proof. reflexivity. Qed.
(* a node-set stands for the string-value of its FIRST node *)
Lemma sof_nodes_cons (i : item) (l : list item) : sof (VNodes (i :: l)) = node_value D (it_node i).
Proof. reflexivity. Qed.
Lemma sof_other (v : value) : strlike v = false -> sof v = "".
Proof. now destruct v. Qed.
Lemma as_string_strlike (v : value) : strlike v = true -> as_string D v = Val (sof v).
Proof. now destruct v. Qed.

(** ** unfolding equations (by computation) *)

Lemma eval_QFn2_test (f : fn2) (a b : query) (c : node) :
  (f = FStartsWith \/ f = FEndsWith \/ f = FContains) ->
  ev (QFn2 f a b) c =
  do va <- ev a c;
  let nm := match f with FStartsWith => "starts-with" | FEndsWith => "ends-with" | _ => "contains" end in
  match va with
  | VStr _ | VNodes _ =>
    do vb <- ev b c;
    match vb with
    | VStr n => Val (VBool (match f with
                            | FStartsWith => prefix n (sof va)
                            | FEndsWith => has_suffix (sof va) n
                            | _ => contains (sof va) n end))
    | _ => Complaint (nm ++ "() function argument type must be string")
    end
  | _ => Complaint (nm ++ "() function argument type must be string")
  end.
Proof. intros [-> | [-> | ->]]; reflexivity. Qed.

Lemma eval_QFn2_before_after (f : fn2) (a b : query) (c : node) :
  (f = FSubstringBefore \/ f = FSubstringAfter) ->
  ev (QFn2 f a b) c =
  do va <- ev a c;
  match va with
  | VNodes [] => Val (VStr "")
  | _ =>
    do vb <- ev b c;
    Val (VStr (match f with
               | FSubstringAfter => substring_after_m (sof va) (sof vb)
               | _ => substring_before_m (sof va) (sof vb) end))
  end.
Proof.
  intros [-> | ->]; cbn [eval]; unfold substring_before_m, substring_after_m;
  (destruct (ev a c) as [va| |]; [|reflexivity|reflexivity]); cbn [obind];
  (destruct va as [| | |[|i l]| |]; try reflexivity);
  (destruct (ev b c) as [vb| |]; [|reflexivity|reflexivity]); cbn [obind];
  now destruct (index_of _ _).
Qed.

Lemma eval_QFn3_substring (a b x : query) (c : node) :
  ev (QFn3 FSubstring a b x) c =
  do va <- ev a c;
  match va with
  | VNodes [] => Val (VStr "")
  | _ =>
    do vb <- ev b c;
    match vb with
    | VNum start =>
      match x with
      | QNil => Val (VStr (substring_go (sof va) start None))
      | _ =>
        do vx <- ev x c;
        match vx with
        | VNum len => Val (VStr (substring_go (sof va) start (Some len)))
        | _ => Complaint "substring() function second argument type must be number"
        end
      end
    | _ => Complaint "substring() function first argument type must be number"
    end
  end.
Proof. reflexivity. Qed.

Lemma eval_QFn3_translate (a b x : query) (c : node) :
  ev (QFn3 FTranslate a b x) c =
  do va <- ev a c; do s <- as_string D va;
  do vb <- ev b c; do src <- as_string D vb;
  do vx <- ev x c; do dst <- as_string D vx;
  Val (VStr (translate s src dst)).
Proof. reflexivity. Qed.

Lemma eval_QFn1_normalize_space (a : query) (c : node) :
  ev (QFn1 FNormalizeSpace a) c = do v <- ev a c; Val (VStr (normalize_space (sof v))).
Proof. reflexivity. Qed.

Lemma eval_QFn1_string_length (a : query) (c : node) :
  ev (QFn1 FStringLength a) c = do v <- ev a c; Val (VNum (of_Z (Z.of_nat (length (sof v))))).
Proof. reflexivity. Qed.

Lemma eval_QFn1_lower_case (a : query) (c : node) :
  ev (QFn1 FLowerCase a) c = do v <- ev a c; do s <- as_string D v; Val (VStr (to_lower s)).
Proof. reflexivity. Qed.

Lemma eval_QFn1_string (a : query) (c : node) :
  ev (QFn1 FString a) c = do v <- ev a c; do s <- as_string D v; Val (VStr s).
Proof. reflexivity. Qed.

Lemma eval_QFn2_string_join (a b : query) (c : node) :
  ev (QFn2 FStringJoin a b) c =
  do va <- ev a c;
  do vb <- ev b c;
  match va with
  | VStr s => Val (VStr s)
  | VNodes l => Val (VStr (join (sof vb) (map (node_value D) (filter (query_test D has_ns a) (nodes_of l)))))
  | _ => Val (VStr "")
  end.
Proof. reflexivity. Qed.

Lemma eval_QConcat (args : query) (c : node) : ev (QConcat args) c = ev args c.
Proof. reflexivity. Qed.

Lemma eval_QArg (a rest : query) (c : node) :
  ev (QArg a rest) c =
  do v <- ev a c; do r <- ev rest c;
  Val (VStr (sof v ++ match r with VStr s => s | _ => "" end)).
Proof. reflexivity. Qed.

Lemma eval_QNil (c : node) : ev QNil c = Val (VStr "").
Proof. reflexivity. Qed.

(** ** starts-with / ends-with / contains *)

Theorem eval_contains (a b : query) (c : node) (va : value) (w : string) :
  ev a c = Val va -> strlike va = true -> ev b c = Val (VStr w) ->
  ev (QFn2 FContains a b) c = Val (VBool (contains (sof va) w)).
Proof.
  intros Ha S Hb. rewrite eval_QFn2_test by auto. rewrite Ha. cbn [obind]. cbv zeta.
  destruct va; try discriminate; now rewrite Hb.
Qed.

Theorem eval_starts_with (a b : query) (c : node) (va : value) (w : string) :
  ev a c = Val va -> strlike va = true -> ev b c = Val (VStr w) ->
  ev (QFn2 FStartsWith a b) c = Val (VBool (prefix w (sof va))).
Proof.
  intros Ha S Hb. rewrite eval_QFn2_test by auto. rewrite Ha. cbn [obind]. cbv zeta.
  destruct va; try discriminate; now rewrite Hb.
Qed.

Theorem eval_ends_with (a b : query) (c : node) (va : value) (w : string) :
  ev a c = Val va -> strlike va = true -> ev b c = Val (VStr w) ->
  ev (QFn2 FEndsWith a b) c = Val (VBool (has_suffix (sof va) w)).
Proof.
  intros Ha S Hb. rewrite eval_QFn2_test by auto. rewrite Ha. cbn [obind]. cbv zeta.
  destruct va; try discriminate; now rewrite Hb.
Qed.

(* the other argument types are rejected (a node-set as SECOND argument too) *)
Theorem eval_test_bad_first (f : fn2) (a b : query) (c : node) (va : value) :
  (f = FStartsWith \/ f = FEndsWith \/ f = FContains) ->
  ev a c = Val va -> strlike va = false ->
  exists msg, ev (QFn2 f a b) c = Complaint msg.
Proof.
  intros F Ha S. rewrite eval_QFn2_test by exact F. rewrite Ha. cbn [obind]. cbv zeta.
  destruct va; try discriminate; eauto.
Qed.

Theorem eval_test_bad_second (f : fn2) (a b : query) (c : node) (va vb : value) :
  (f = FStartsWith \/ f = FEndsWith \/ f = FContains) ->
  ev a c = Val va -> strlike va = true -> ev b c = Val vb -> (forall w, vb <> VStr w) ->
  exists msg, ev (QFn2 f a b) c = Complaint msg.
Proof.
  intros F Ha S Hb N. rewrite eval_QFn2_test by exact F. rewrite Ha. cbn [obind]. cbv zeta.
  destruct va; try discriminate; rewrite Hb; cbn [obind];
    destruct vb; eauto; exfalso; eapply N; reflexivity.
Qed.

(* end to end, for two string arguments *)
Corollary eval_contains_iff (a b : query) (c : node) (s w : string) :
  ev a c = Val (VStr s) -> ev b c = Val (VStr w) ->
  exists r, ev (QFn2 FContains a b) c = Val (VBool r) /\ (r = true <-> exists x y, s = x ++ w ++ y).
Proof.
  intros Ha Hb. exists (contains s w). split; [|apply contains_spec].
  now rewrite (eval_contains a b c _ w Ha eq_refl Hb).
Qed.

Corollary eval_starts_with_iff (a b : query) (c : node) (s w : string) :
  ev a c = Val (VStr s) -> ev b c = Val (VStr w) ->
  exists r, ev (QFn2 FStartsWith a b) c = Val (VBool r) /\ (r = true <-> exists y, s = w ++ y).
Proof.
  intros Ha Hb. exists (prefix w s). split; [|apply prefix_spec].
  now rewrite (eval_starts_with a b c _ w Ha eq_refl Hb).
Qed.

Corollary eval_ends_with_iff (a b : query) (c : node) (s w : string) :
  ev a c = Val (VStr s) -> ev b c = Val (VStr w) ->
  exists r, ev (QFn2 FEndsWith a b) c = Val (VBool r) /\ (r = true <-> exists x, s = x ++ w).
Proof.
  intros Ha Hb. exists (has_suffix s w). split; [|apply has_suffix_spec].
  now rewrite (eval_ends_with a b c _ w Ha eq_refl Hb).
Qed.

(** ** substring-before / substring-after *)

Theorem eval_substring_before (a b : query) (c : node) (va vb : value) :
  ev a c = Val va -> va <> VNodes [] -> ev b c = Val vb ->
  ev (QFn2 FSubstringBefore a b) c = Val (VStr (substring_before_m (sof va) (sof vb))).
Proof.
  intros Ha N Hb. rewrite eval_QFn2_before_after by auto. rewrite Ha. cbn [obind].
  destruct va as [| | |[|i l]| |]; try congruence; now rewrite Hb.
Qed.

Theorem eval_substring_after (a b : query) (c : node) (va vb : value) :
  ev a c = Val va -> va <> VNodes [] -> ev b c = Val vb ->
  ev (QFn2 FSubstringAfter a b) c = Val (VStr (substring_after_m (sof va) (sof vb))).
Proof.
  intros Ha N Hb. rewrite eval_QFn2_before_after by auto. rewrite Ha. cbn [obind].
  destruct va as [| | |[|i l]| |]; try congruence; now rewrite Hb.
Qed.

(* early return on an empty node-set: the second argument is not evaluated,
   so its failure is not seen *)
Theorem eval_substring_before_after_empty_nodes (f : fn2) (a b : query) (c : node) :
  (f = FSubstringBefore \/ f = FSubstringAfter) ->
  ev a c = Val (VNodes []) -> ev (QFn2 f a b) c = Val (VStr "").
Proof. intros F Ha. rewrite eval_QFn2_before_after by exact F. now rewrite Ha. Qed.

Corollary eval_substring_before_spec (a b : query) (c : node) (s w : string) :
  ev a c = Val (VStr s) -> ev b c = Val (VStr w) ->
  exists r, ev (QFn2 FSubstringBefore a b) c = Val (VStr r) /\ is_substring_before s w r.
Proof.
  intros Ha Hb. exists (substring_before_m s w). split; [|apply substring_before_spec].
  rewrite (eval_substring_before a b c _ _ Ha ltac:(discriminate) Hb). reflexivity.
Qed.

Corollary eval_substring_after_spec (a b : query) (c : node) (s w : string) :
  ev a c = Val (VStr s) -> ev b c = Val (VStr w) ->
  exists r, ev (QFn2 FSubstringAfter a b) c = Val (VStr r) /\ is_substring_after s w r.
Proof.
  intros Ha Hb. exists (substring_after_m s w). split; [|apply substring_after_spec].
  rewrite (eval_substring_after a b c _ _ Ha ltac:(discriminate) Hb). reflexivity.
Qed.

(** ** substring *)

Theorem eval_substring2 (a b : query) (c : node) (va : value) (start : f64) :
  ev a c = Val va -> va <> VNodes [] -> ev b c = Val (VNum start) ->
  ev (QFn3 FSubstring a b QNil) c = Val (VStr (substring_go (sof va) start None)).
Proof.
  intros Ha N Hb. rewrite eval_QFn3_substring, Ha. cbn [obind].
  destruct va as [| | |[|i l]| |]; try congruence; now rewrite Hb.
Qed.

Theorem eval_substring3 (a b x : query) (c : node) (va : value) (start len : f64) :
  ev a c = Val va -> va <> VNodes [] -> ev b c = Val (VNum start) ->
  x <> QNil -> ev x c = Val (VNum len) ->
  ev (QFn3 FSubstring a b x) c = Val (VStr (substring_go (sof va) start (Some len))).
Proof.
  intros Ha N Hb NX Hx. rewrite eval_QFn3_substring, Ha. cbn [obind].
  destruct va as [| | |[|i l]| |]; try congruence; rewrite Hb; cbn [obind];
    destruct x; try congruence; now rewrite Hx.
Qed.

Theorem eval_substring_empty_nodes (a b x : query) (c : node) :
  ev a c = Val (VNodes []) -> ev (QFn3 FSubstring a b x) c = Val (VStr "").
Proof. intros Ha. now rewrite eval_QFn3_substring, Ha. Qed.

Theorem eval_substring_bad_start (a b x : query) (c : node) (va vb : value) :
  ev a c = Val va -> va <> VNodes [] -> ev b c = Val vb -> (forall f, vb <> VNum f) ->
  ev (QFn3 FSubstring a b x) c = Complaint "substring() function first argument type must be number".
Proof.
  intros Ha N Hb NB. rewrite eval_QFn3_substring, Ha. cbn [obind].
  destruct va as [| | |[|i l]| |]; try congruence; rewrite Hb; cbn [obind];
    destruct vb; try reflexivity; exfalso; eapply NB; reflexivity.
Qed.

(* whenever the arguments have the expected types, substring() succeeds with a
   substring of its first argument *)
Corollary eval_substring_never_fails (a b x : query) (c : node) (va : value) (start len : f64) :
  ev a c = Val va -> ev b c = Val (VNum start) -> (x = QNil \/ ev x c = Val (VNum len)) ->
  exists r, ev (QFn3 FSubstring a b x) c = Val (VStr r) /\ is_substring r (sof va).
Proof.
  intros Ha Hb Hx.
  assert (E : va = VNodes [] \/ va <> VNodes []).
  { destruct va as [| | |[|i l]| |]; (now left) || (right; discriminate). }
  destruct E as [->|N].
  - exists "". split; [now apply eval_substring_empty_nodes|apply empty_is_substring].
  - assert (X : x = QNil \/ x <> QNil) by (destruct x; (now left) || (right; discriminate)).
    destruct X as [->|NX].
    + eexists. split; [apply (eval_substring2 a b c va start Ha N Hb)|apply substring_go_is_substring].
    + destruct Hx as [Hx|Hx]; [contradiction|].
      eexists. split; [apply (eval_substring3 a b x c va start len Ha N Hb NX Hx)|apply substring_go_is_substring].
Qed.

(** ** translate, normalize-space, string-length, lower-case, string *)

Theorem eval_translate (a b x : query) (c : node) (va vb vx : value) (s src dst : string) :
  ev a c = Val va -> as_string D va = Val s ->
  ev b c = Val vb -> as_string D vb = Val src ->
  ev x c = Val vx -> as_string D vx = Val dst ->
  ev (QFn3 FTranslate a b x) c = Val (VStr (translate_spec s src dst)).
Proof.
  intros Ha Sa Hb Sb Hx Sx. rewrite eval_QFn3_translate, Ha. cbn [obind]. rewrite Sa. cbn [obind].
  rewrite Hb. cbn [obind]. rewrite Sb. cbn [obind]. rewrite Hx. cbn [obind]. rewrite Sx. cbn [obind].
  now rewrite translate_spec_correct.
Qed.

Theorem eval_normalize_space (a : query) (c : node) (v : value) :
  ev a c = Val v ->
  ev (QFn1 FNormalizeSpace a) c = Val (VStr (join " " (words (sof v)))).
Proof.
  intros Ha. rewrite eval_QFn1_normalize_space, Ha. cbn [obind].
  now rewrite normalize_space_join_words.
Qed.

Theorem eval_string_length (a : query) (c : node) (v : value) :
  ev a c = Val v ->
  ev (QFn1 FStringLength a) c = Val (VNum (of_Z (Z.of_nat (length (sof v))))).
Proof. intros Ha. now rewrite eval_QFn1_string_length, Ha. Qed.

Theorem eval_lower_case (a : query) (c : node) (v : value) (s : string) :
  ev a c = Val v -> as_string D v = Val s ->
  ev (QFn1 FLowerCase a) c = Val (VStr (to_lower s)).
Proof. intros Ha S. rewrite eval_QFn1_lower_case, Ha. cbn [obind]. now rewrite S. Qed.

Theorem eval_string (a : query) (c : node) (v : value) (s : string) :
  ev a c = Val v -> as_string D v = Val s ->
  ev (QFn1 FString a) c = Val (VStr s).
Proof. intros Ha S. rewrite eval_QFn1_string, Ha. cbn [obind]. now rewrite S. Qed.

(* string() of a string is the string, of a node-set the string-value of its first node *)
Corollary eval_string_strlike (a : query) (c : node) (v : value) :
  ev a c = Val v -> strlike v = true -> ev (QFn1 FString a) c = Val (VStr (sof v)).
Proof. intros Ha S. apply (eval_string a c v); [exact Ha|now apply as_string_strlike]. Qed.

(** ** string-join *)

Theorem eval_string_join_nodes (a b : query) (c : node) (l : list item) (vb : value) :
  ev a c = Val (VNodes l) -> ev b c = Val vb ->
  ev (QFn2 FStringJoin a b) c =
  Val (VStr (concat_all (intersperse (sof vb)
               (map (node_value D) (filter (query_test D has_ns a) (nodes_of l)))))).
Proof.
  intros Ha Hb. rewrite eval_QFn2_string_join, Ha. cbn [obind]. rewrite Hb. cbn [obind].
  now rewrite join_intersperse.
Qed.

Theorem eval_string_join_str (a b : query) (c : node) (s : string) (vb : value) :
  ev a c = Val (VStr s) -> ev b c = Val vb ->
  ev (QFn2 FStringJoin a b) c = Val (VStr s).
Proof. intros Ha Hb. rewrite eval_QFn2_string_join, Ha. cbn [obind]. now rewrite Hb. Qed.

(** ** 4. concat *)

Theorem eval_args (qs : list query) (c : node) (vs : list value) :
  Forall2 (fun q v => ev q c = Val v) qs vs ->
  ev (list_of_args qs) c = Val (VStr (concat_all (map sof vs))).
Proof.
  induction 1 as [|q v qs vs Hq _ IH]; [reflexivity|].
  cbn [list_of_args]. rewrite eval_QArg, Hq. cbn [obind]. rewrite IH. reflexivity.
Qed.

Theorem eval_concat (qs : list query) (c : node) (vs : list value) :
  Forall2 (fun q v => ev q c = Val v) qs vs ->
  ev (QConcat (list_of_args qs)) c = Val (VStr (concat_all (map sof vs))).
Proof. intros H. rewrite eval_QConcat. now apply eval_args. Qed.

(* string-valued arguments: plain concatenation *)
Corollary eval_concat_strings (qs : list query) (c : node) (ss : list string) :
  Forall2 (fun q s => ev q c = Val (VStr s)) qs ss ->
  ev (QConcat (list_of_args qs)) c = Val (VStr (concat_all ss)).
Proof.
  intros H. rewrite (eval_concat qs c (map VStr ss)).
  - rewrite map_map. cbn [sof]. now rewrite map_id.
  - induction H; constructor; auto.
Qed.

(* the first failing argument decides *)
Theorem eval_args_fail (qs1 : list query) (q : query) (qs2 : list query) (c : node) (vs : list value) :
  Forall2 (fun q v => ev q c = Val v) qs1 vs ->
  (forall v, ev q c <> Val v) ->
  ev (QConcat (list_of_args (qs1 ++ q :: qs2))) c = ev q c.
Proof.
  intros H F. rewrite eval_QConcat.
  induction H as [|q1 v qs1 vs Hq _ IH].
  - cbn [List.app list_of_args]. rewrite eval_QArg.
    destruct (ev q c) as [v| |]; [now destruct (F v)|reflexivity|reflexivity].
  - cbn [List.app list_of_args]. rewrite eval_QArg, Hq. cbn [obind]. rewrite IH.
    destruct (ev q c) as [v'| |]; [now destruct (F v')|reflexivity|reflexivity].
Qed.

(** ** node-set first argument: the string-value of the FIRST node, "" for
   the empty node-set *)
Corollary eval_contains_nodes (a b : query) (c : node) (i : item) (l : list item) (w : string) :
  ev a c = Val (VNodes (i :: l)) -> ev b c = Val (VStr w) ->
  ev (QFn2 FContains a b) c = Val (VBool (contains (node_value D (it_node i)) w)).
Proof. intros Ha Hb. now rewrite (eval_contains a b c _ w Ha eq_refl Hb). Qed.

Corollary eval_contains_empty_nodes (a b : query) (c : node) (w : string) :
  ev a c = Val (VNodes []) -> ev b c = Val (VStr w) ->
  ev (QFn2 FContains a b) c = Val (VBool (contains "" w)).
Proof. intros Ha Hb. now rewrite (eval_contains a b c _ w Ha eq_refl Hb). Qed.

Corollary eval_substring_before_nodes (a b : query) (c : node) (i : item) (l : list item) (vb : value) :
  ev a c = Val (VNodes (i :: l)) -> ev b c = Val vb ->
  ev (QFn2 FSubstringBefore a b) c =
  Val (VStr (substring_before_m (node_value D (it_node i)) (sof vb))).
Proof. intros Ha Hb. now rewrite (eval_substring_before a b c _ _ Ha ltac:(discriminate) Hb). Qed.

Corollary eval_substring3_nodes (a b x : query) (c : node) (i : item) (l : list item) (start len : f64) :
  ev a c = Val (VNodes (i :: l)) -> ev b c = Val (VNum start) ->
  x <> QNil -> ev x c = Val (VNum len) ->
  ev (QFn3 FSubstring a b x) c = Val (VStr (substring_go (node_value D (it_node i)) start (Some len))).
Proof.
  intros Ha Hb NX Hx.
  now rewrite (eval_substring3 a b x c _ start len Ha ltac:(discriminate) Hb NX Hx).
Qed.

Corollary eval_normalize_space_nodes (a : query) (c : node) (i : item) (l : list item) :
  ev a c = Val (VNodes (i :: l)) ->
  ev (QFn1 FNormalizeSpace a) c = Val (VStr (join " " (words (node_value D (it_node i))))).
Proof. intros Ha. now rewrite (eval_normalize_space a c _ Ha). Qed.

Corollary eval_string_length_str (a : query) (c : node) (s : string) :
  ev a c = Val (VStr s) ->
  ev (QFn1 FStringLength a) c = Val (VNum (of_Z (Z.of_nat (length s)))).
Proof. intros Ha. now rewrite (eval_string_length a c _ Ha). Qed.

(** ** examples (literal arguments; any document, any context node) *)
Example eval_ex (c : node) :
  ev (QFn2 FContains (QStr "hello") (QStr "ell")) c = Val (VBool true)
  /\ ev (QFn2 FSubstringAfter (QStr "1999/04/01") (QStr "/")) c = Val (VStr "04/01")
  /\ ev (QFn3 FTranslate (QStr "--aaa--") (QStr "abc-") (QStr "ABC")) c = Val (VStr "AAA")
  /\ ev (QFn1 FNormalizeSpace (QStr "  a   b  ")) c = Val (VStr "a b")
  /\ ev (QConcat (list_of_args [QStr "a"; QStr "b"; QStr "c"])) c = Val (VStr "abc")
  /\ ev (QFn3 FSubstring (QStr "12345") (QNum (of_Z 2)) (QNum (of_Z 3))) c = Val (VStr "234")
  /\ ev (QFn1 FLowerCase (QStr "ABc")) c = Val (VStr "abc").
Proof. vm_compute. repeat split. Qed.

End EvalStrings.

Print Assumptions eval_contains.
Print Assumptions eval_substring_before.
Print Assumptions eval_substring_never_fails.
Print Assumptions eval_translate.
Print Assumptions eval_normalize_space.
Print Assumptions eval_concat.
Print Assumptions eval_string_join_nodes.
