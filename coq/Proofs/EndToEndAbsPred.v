(* Proofs/EndToEndAbsPred.v — property C13 with predicates, at the level of TEXTS.

   An ABSOLUTE location path  /s1[..]/s2[..]...  or  //s1[..]...  whose steps
   carry ARBITRARY predicates (any number per step, any expressions of the
   round-trip grammar: existence tests, comparisons, and / or / not(),
   positional predicates, nested paths ...): whenever its text compiles, the
   compiled query is context free (Absolute.ctx_free) -- whatever the builder
   decided for each predicate: plain filter or the merge rewrite -- and
   therefore Select and Evaluate return the same result from any two start
   nodes, valid or not, on every document.

   For the predicate forms of EndToEndPred / EndToEndPred2 on the last step
   (existence, literal comparison, and / or / not, two predicates) Compile is
   known to succeed, and the result is also characterised. *)
From XP Require Import Base F64 Doc Ast Scan Parse Build Hash Eval Api.
From XP.Spec Require Import Axes Paths.
From XP.Proofs Require Import ParseTerm ScanTokens RoundTripOps RoundTripPaths
                              HashInj AxesSound PathSem BuildPath BuildFacts Filter BuildFilter Absolute
                              BuildOps EndToEndPaths EndToEndPred EndToEndPos EndToEndAbs EndToEndPred2.
Require Import Lia.
Open Scope string_scope.
Open Scope nat_scope.
Open Scope list_scope.

(* ------------------------------------------------------------------ *)
(** * 1. Parse trees of absolute paths with predicates                  *)
(* ------------------------------------------------------------------ *)

Inductive abs_pred_tree : anode -> Prop :=
| APT_step_root : forall ax ty pre loc prop hasns uri sl,
    abs_pred_tree (AAxis ax ty pre loc prop hasns uri (Some (ARoot sl)))
| APT_step : forall ax ty pre loc prop hasns uri inp,
    abs_pred_tree inp -> abs_pred_tree (AAxis ax ty pre loc prop hasns uri (Some inp))
| APT_filter : forall a cond, abs_pred_tree a -> abs_pred_tree (AFilter a cond).

Lemma mk_axis_ctx_free : forall axis t fl qi pr q pr',
  mk_axis axis t fl qi pr = Ok (q, pr') -> ctx_free qi -> ctx_free q.
Proof.
  intros axis t fl qi pr q pr' H Hq. unfold mk_axis in H.
  repeat match type of H with
  | (if String.eqb ?x ?y then _ else _) = _ =>
      destruct (String.eqb x y);
      [inversion H; subst; try match goal with |- context [if ?c then _ else _] => destruct c end;
       constructor; exact Hq|]
  end.
  discriminate.
Qed.

Lemma reroot_ctx_free : forall fq parent fq',
  reroot fq = Some (parent, fq') -> ctx_free fq -> ctx_free parent.
Proof.
  intros fq parent fq' H Hc.
  destruct fq; cbn [reroot] in H; try discriminate H;
    (destruct (is_context _); [discriminate H|]); inversion H; subst; inversion Hc; assumption.
Qed.

Section Build.
Variable re_ok : string -> bool.

Definition Pc (a : anode) : Prop :=
  forall d fl fi q pr fo, process re_ok d a fl fi = Ok (q, pr, fo) -> ctx_free q.
Definition Pfo (a : anode) : Prop :=
  forall d fl fi q pr fo, process re_ok d a fl fi = Ok (q, pr, fo) -> fo = mkFi (Some q) true.
Definition Pg (a : anode) : Prop :=
  match a with AAxis _ _ _ _ _ _ _ (Some g) => Pc g | _ => True end.

Lemma Pc_root : forall sl, Pc (ARoot sl).
Proof.
  intros sl d fl fi q pr fo H. cbn [process] in H.
  destruct (Nat.ltb max_build_depth (S d)); [discriminate|]. inversion H. constructor.
Qed.

Definition has_input (a : anode) : Prop :=
  match a with AAxis _ _ _ _ _ _ _ None => False | _ => True end.

(* a step over an input whose queries are context free *)
Lemma step_ctx_free : forall ax ty pre loc prop hasns uri inp,
  Pc inp -> Pg inp -> has_input inp -> Pc (AAxis ax ty pre loc prop hasns uri (Some inp)).
Proof.
  intros ax ty pre loc prop hasns uri inp Hc Hg Hi d fl fi q pr fo H.
  rewrite process_axis_eq in H. destruct (Nat.ltb max_build_depth (S d)); [discriminate|].
  cbv zeta in H. destruct (fused_cond fl ax (Some inp)) eqn:Ef.
  - destruct inp as [|iax itt ipre iloc iprop ihasns ins ginput| | | | | | |]; try discriminate Ef.
    cbn [ginput_of] in H. destruct ginput as [g|]; [|contradiction].
    cbn [proc_opt] in H.
    destruct (process re_ok (S d) g fl_smart fi_nil) as [[[qg prg] fg]| |] eqn:Eg; cbn [cbind] in H; try discriminate.
    unfold finish in H. cbn [cbind] in H. inversion H; subst. constructor.
    cbn [Pg] in Hg. apply (Hg _ _ _ _ _ _ Eg).
  - cbn [proc_opt] in H.
    match type of H with context [process re_ok (S d) inp ?f fi_nil] =>
      destruct (process re_ok (S d) inp f fi_nil) as [[[qi pri] fii]| |] eqn:Ei end;
      cbn [cbind] in H; try discriminate.
    unfold finish in H.
    match type of H with context [mk_axis ?a ?t ?f ?i ?p] =>
      destruct (mk_axis a t f i p) as [[q' pr']| |] eqn:Em end; cbn [cbind] in H; try discriminate.
    inversion H; subst. apply (mk_axis_ctx_free _ _ _ _ _ _ _ Em). apply (Hc _ _ _ _ _ _ Ei).
Qed.

Lemma Pfo_axis : forall ax ty pre loc prop hasns uri inp, Pfo (AAxis ax ty pre loc prop hasns uri inp).
Proof. intros ax ty pre loc prop hasns uri inp d fl fi q pr fo H. eapply process_axis_fo. exact H. Qed.

Lemma Pfo_filter : forall a cond, Pfo (AFilter a cond).
Proof.
  intros a cond d fl fi q pr fo H.
  destruct (process_any_filter_shape re_ok d a cond fl fi q pr fo H) as (? & ? & ? & ? & ? & ? & _ & _ & E & _).
  exact E.
Qed.

(* a filter node over an input whose queries are context free and which sets firstInput to itself *)
Lemma filter_ctx_free : forall a cond, Pc a -> Pfo a -> Pc (AFilter a cond).
Proof.
  intros a cond Hc Hf d fl fi q pr fo H.
  destruct (process_any_filter_shape re_ok d a cond fl fi q pr fo H)
    as (qi & pri & fi1 & c & prc & fi2 & Hi & _ & _ & _ & HO).
  pose proof (Hc _ _ _ _ _ _ Hi) as Hqi. pose proof (Hf _ _ _ _ _ _ Hi) as Hfi1.
  destruct HO as [|fq _ _ _ _ _|parent qi' _ _ _ _ _ Hr|fq parent fq' _ _ _ _ Hs _].
  - constructor. exact Hqi.
  - constructor. exact Hqi.
  - constructor. apply (reroot_ctx_free qi parent qi' Hr Hqi).
  - rewrite Hfi1 in Hs. discriminate Hs.
Qed.

(** every query built from the tree of an absolute path with predicates is context free *)
Theorem abs_pred_ctx_free : forall a, abs_pred_tree a -> Pc a /\ Pfo a /\ Pg a /\ has_input a.
Proof.
  intros a H. induction H as [ax ty pre loc prop hasns uri sl
                             |ax ty pre loc prop hasns uri inp Hinp (IHc & IHf & IHg & IHi)
                             |a cond Ha (IHc & IHf & IHg & IHi)].
  - split; [|split; [apply Pfo_axis|split; [cbn [Pg]; apply Pc_root|exact I]]].
    apply step_ctx_free; [apply Pc_root|exact I|exact I].
  - split; [|split; [apply Pfo_axis|split; [cbn [Pg]; exact IHc|exact I]]].
    apply step_ctx_free; assumption.
  - split; [apply filter_ctx_free; assumption|]. split; [apply Pfo_filter|]. split; exact I.
Qed.

End Build.

(* ------------------------------------------------------------------ *)
(** * 2. The syntax: absolute paths, any predicates                     *)
(* ------------------------------------------------------------------ *)

Lemma past_abs : forall ps acc, abs_pred_tree acc -> abs_pred_tree (past ps acc).
Proof.
  induction ps as [|e ps IH]; intros acc H; cbn [past]; [exact H|]. apply IH. constructor. exact H.
Qed.

Definition rootish (n : anode) : Prop := (exists sl, n = ARoot sl) \/ abs_pred_tree n.

Lemma head_abs : forall ax ty loc prop n, rootish n ->
  abs_pred_tree (axis_node ax ty loc prop (Some n)).
Proof.
  intros ax ty loc prop n [[sl ->]|H]; unfold axis_node; [apply APT_step_root|apply APT_step; exact H].
Qed.

Lemma sast_abs : forall s n, rootish n -> abs_pred_tree (sast s (Some n)).
Proof.
  intros [dd ps|a t ps] n Hn; cbn [sast]; apply past_abs.
  - unfold head_node_abbr. destruct dd; apply head_abs; exact Hn.
  - unfold nt_node. destruct t; apply head_abs; exact Hn.
Qed.

Lemma rast_abs : forall r n, rootish n -> abs_pred_tree (rast r (Some n)).
Proof.
  induction r as [s|s dbl r IH]; intros n Hn; cbn [rast].
  - apply sast_abs. exact Hn.
  - apply IH. right. destruct dbl.
    + unfold dos_node. apply APT_step. apply sast_abs. exact Hn.
    + apply sast_abs. exact Hn.
Qed.

Definition is_abs_start (s : pstart) : Prop := match s with PRel => False | _ => True end.

Theorem abs_path_tree : forall s r, is_abs_start s -> abs_pred_tree (xast (XPath s r)).
Proof.
  intros s r Hs. cbn [xast]. destruct s; [contradiction| |]; cbn [start_node].
  - apply rast_abs. left. eauto.
  - apply rast_abs. right. unfold dos_node. apply APT_step_root.
Qed.

(* ------------------------------------------------------------------ *)
(** * 3. End to end                                                     *)
(* ------------------------------------------------------------------ *)

(** an absolute path with arbitrary predicates: if its text compiles, the result
    does not depend on the start node *)
Theorem C13_abs_pred_end_to_end : forall re_ok ns s r q,
  is_abs_start s -> xwf (XPath s r) -> xok (XPath s r) -> xdepth (XPath s r) < max_depth ->
  compile re_ok (print_min (XPath s r)) ns = Ok q ->
  ctx_free q /\
  forall rm rn rr (hc : tree -> node -> N) D has_ns c1 c2,
    select rm rn rr hc D has_ns q c1 = select rm rn rr hc D has_ns q c2 /\
    evaluate rm rn rr hc D has_ns q c1 = evaluate rm rn rr hc D has_ns q c2.
Proof.
  intros re_ok ns s r q Hs Hwf Hok Hd Hc.
  pose proof (roundtrip_print_min ns (XPath s r) Hwf Hok Hd) as P.
  destruct (compile_inv_parse re_ok _ ns _ q P Hc) as (pr & fo & E).
  assert (Hcf : ctx_free q).
  { destruct (abs_pred_ctx_free re_ok _ (abs_path_tree s r Hs)) as (Hpc & _). apply (Hpc _ _ _ _ _ _ E). }
  split; [exact Hcf|].
  intros rm rn rr hc D has_ns c1 c2. split.
  - apply select_ignores_context. exact Hcf.
  - apply evaluate_ignores_context. exact Hcf.
Qed.
Print Assumptions C13_abs_pred_end_to_end.

(* the layout does not matter either *)
Corollary C13_abs_pred_any_layout : forall re_ok ns s r q w,
  RoundTripWs.ws_fun w ->
  is_abs_start s -> xwf (XPath s r) -> xok (XPath s r) -> xdepth (XPath s r) < max_depth ->
  compile re_ok (RoundTripWs.print_ws w (XPath s r)) ns = Ok q -> ctx_free q.
Proof.
  intros re_ok ns s r q w Hw Hs Hwf Hok Hd Hc.
  rewrite (proj1 (EndToEndUnion.compile_layout_independent re_ok ns w _ Hw Hwf Hok Hd)) in Hc.
  apply (C13_abs_pred_end_to_end re_ok ns s r q Hs Hwf Hok Hd Hc).
Qed.

(* with the predicate forms of EndToEndPred / EndToEndPred2 on the last step of an
   absolute predicate-free path: P[E] as built by [with_pred] *)
Corollary C13_abs_with_pred : forall re_ok ns p e steps q,
  path_syntax p -> steps_of p = (true, steps) -> xwf e -> xok (with_pred p e) ->
  S (xdepth e) < max_depth ->
  compile re_ok (print_min (with_pred p e)) ns = Ok q ->
  ctx_free q /\
  forall rm rn rr (hc : tree -> node -> N) D has_ns c1 c2,
    select rm rn rr hc D has_ns q c1 = select rm rn rr hc D has_ns q c2.
Proof.
  intros re_ok ns p e steps q Hp Hs Hwe Hok Hd Hc.
  destruct (with_pred_ast p e Hp Hwe) as (_ & Hwf & Hdep).
  pose proof (steps_of_spec p true steps Hp Hs) as Hopt.
  destruct p as [| | | | |s r| | | | |]; try discriminate Hopt.
  cbn [steps_of_opt] in Hopt. destruct (rsteps_of r); [|discriminate]. inversion Hopt as [[Ha _]].
  assert (Habs : is_abs_start s) by (destruct s; [discriminate Ha|exact I|exact I]).
  cbn [with_pred] in *.
  assert (Hd' : xdepth (XPath s (r_add_pred r e)) < max_depth) by lia.
  destruct (C13_abs_pred_end_to_end re_ok ns s (r_add_pred r e) q Habs Hwf Hok Hd' Hc) as [Hcf Hind].
  split; [exact Hcf|]. intros rm rn rr hc D has_ns c1 c2. apply (Hind rm rn rr hc D has_ns c1 c2).
Qed.

(* ------------------------------------------------------------------ *)
(** * 4. Examples                                                       *)
(* ------------------------------------------------------------------ *)
Module Examples.
Import AxesSound.Examples EndToEndPaths.Examples.

(*   <a x="1" y="2"> <b>t</b> <c z="3"><d/><!--k--></c> <e/> </a>   *)
Notation SELECTx := (select lit_match lit_numsubexp lit_replace_all hash_code exD true).

Definition p_d : px := XPath PRel (ROne (st_child "d")).
Definition p_z : px := XPath PRel (ROne (st_attr "z")).
(*  //*[@z='3' or d][not(e)]/..   : predicates in the middle of the path, two on one step *)
Definition r1 : rpath :=
    (RCons (SAxis AxChild NStar
              (PCons (XBin BOr (XBin BEq p_z (XStr "3")) p_d)
              (PCons (XCall "not" (AOne (XPath PRel (ROne (st_child "e"))))) PNil)))
           false (ROne (SAbbr true PNil))).
Definition e1 : px := XPath PAbs2 r1.
(*  /a/*[2]   : a positional predicate (the merge rewrite) *)
Definition r2 : rpath :=
  RCons (st_child "a") false (ROne (SAxis AxChild NStar (PCons (XNum (list_of_string "2")) PNil))).
Definition e2 : px := XPath PAbs r2.

Example texts : print_min e1 = "//*[@z='3'or d][not(e)]/.." /\ print_min e2 = "/a/*[2]".
Proof. split; vm_compute; reflexivity. Qed.

Example abs_with_predicates :
  exists q1 q2,
    compile Api.lit_ok "//*[@z='3'or d][not(e)]/.." None = Ok q1 /\
    compile Api.lit_ok "/a/*[2]" None = Ok q2 /\
    (* from the comment node, from an attribute, from a node that does not exist: as from the root *)
    SELECTx q1 n_k = SELECTx q1 root_node /\ SELECTx q1 (elem_at [9;9]) = SELECTx q1 root_node /\
    SELECTx q1 root_node = Val [n_a] /\
    SELECTx q2 n_cz = SELECTx q2 root_node /\ SELECTx q2 root_node = Val [n_c].
Proof.
  destruct texts as [T1 T2].
  assert (C1 : exists q, compile Api.lit_ok (print_min e1) None = Ok q) by (eexists; vm_compute; reflexivity).
  assert (C2 : exists q, compile Api.lit_ok (print_min e2) None = Ok q) by (eexists; vm_compute; reflexivity).
  destruct C1 as [q1 C1]. destruct C2 as [q2 C2].
  assert (W1 : xwf (XPath PAbs2 r1)) by (cbn; repeat split; (lia || reflexivity)).
  assert (W2 : xwf (XPath PAbs r2)) by (cbn; repeat split; (lia || reflexivity)).
  assert (D1 : xdepth (XPath PAbs2 r1) < max_depth) by (cbn; unfold max_depth; lia).
  assert (D2 : xdepth (XPath PAbs r2) < max_depth) by (cbn; unfold max_depth; lia).
  destruct (C13_abs_pred_end_to_end Api.lit_ok None PAbs2 r1 q1 I W1 ltac:(vm_compute; reflexivity) D1 C1) as [_ H1].
  destruct (C13_abs_pred_end_to_end Api.lit_ok None PAbs r2 q2 I W2 ltac:(vm_compute; reflexivity) D2 C2) as [_ H2].
  rewrite T1 in C1. rewrite T2 in C2.
  exists q1, q2. split; [exact C1|]. split; [exact C2|].
  split; [apply H1|]. split; [apply H1|].
  split; [vm_compute in C1; inversion C1; subst q1; vm_compute; reflexivity|].
  split; [apply H2|]. vm_compute in C2. inversion C2; subst q2. vm_compute. reflexivity.
Qed.

(* a RELATIVE path with the same predicates does depend on the start node *)
Example relative_depends :
  exists q, compile Api.lit_ok "*[not(e)]" None = Ok q /\ SELECTx q n_c <> SELECTx q root_node.
Proof. eexists. split; [vm_compute; reflexivity|]. vm_compute. discriminate. Qed.

End Examples.
