(* Proofs/EndToEndValues.v — properties C07 / C08 / C09, end to end at the
   level of TEXTS: the VALUE that Evaluate returns for a compiled operator or
   string-function text is the specification value.

   Operands E: a number literal, a string literal, or a predicate-free
   location path (EndToEndPaths.path_syntax).  [opval E c v] says what the
   operand is worth at the context node c: the number, the string, or a
   node list whose members are exactly the XPath denotation of the path.

     E1 = E2, E1 != E2, E1 < E2 ...   Compare.compare_values, i.e. the XPath 1.0
                                      comparison [xcompare] wherever model and
                                      spec agree (Compare.follows_spec)
     E1 + E2, - * div mod             IEEE binary64 operation on number(E1), number(E2)
     contains(E1,'w') starts-with(E1,'w')      StrSpec.is_substring / is_prefix
     substring-before(E1,E2) substring-after   StrSpec.is_substring_before / _after
     concat(E1,E2)                    concatenation of the string values
     string-length(E) normalize-space(E)       length / StrSpec.normalize_space_spec
     translate(E1,E2,E3)              StrSpec.translate_spec
   The string value of an operand is the model's [str_or_first]: the string,
   or the string-value of the FIRST node of the node list ("" when empty). *)
From XP Require Import Base F64 Doc Ast Scan Parse Build Hash Eval Api.
From XP.Spec Require Import Axes Paths Values StrSpec.
From XP.Proofs Require Import ParseTerm ScanTokens RoundTripOps RoundTripPaths
                              HashInj AxesSound PathSem BuildPath BuildFacts Compare Arith StrFuncs
                              BuildOps EndToEndPaths EndToEndPred EndToEndPos.
Require Import Lia ZArith.
Open Scope string_scope.
Open Scope nat_scope.
Open Scope list_scope.

(* ------------------------------------------------------------------ *)
(** * 1. Operands                                                       *)
(* ------------------------------------------------------------------ *)

Definition is_operand_px (o : px) : Prop :=
  match o with XNum _ | XStr _ => True | _ => path_syntax o end.

(* the builder depth an operand needs *)
Definition osize (o : px) : nat :=
  match o with XNum _ | XStr _ => 1 | _ => S (List.length (snd (steps_of o))) end.

Lemma operand_wf : forall o, is_operand_px o -> xwf o /\ xdepth o = 0 /\ xlvl o = 8.
Proof.
  intros o H. destruct o; cbn [is_operand_px] in H; try (repeat split; reflexivity);
    try (destruct (path_syntax_wf _ H) as [Hw Hd]; destruct H as [res H]; discriminate H).
  destruct (path_syntax_wf _ H) as [Hw Hd]. repeat split; assumption.
Qed.

Section Sem.
Variable D : tree.
Variable has_ns : bool.
Variable hcode : node -> N.
Variable rm : string -> string -> option bool.
Variable rn : string -> nat.
Variable rr : string -> string -> string -> string.
Hypothesis Hhash : hash_ok hcode (all_nodes D).
Variable re_ok : string -> bool.

Notation EVAL := (eval D has_ns hcode rm rn rr).
Notation SEL := (sel D has_ns hcode rm rn rr).

(* what the operand is worth at c *)
Definition opval (o : px) (c : node) (v : value) : Prop :=
  match o with
  | XNum ds => v = VNum (lit_f ds)
  | XStr b => v = VStr b
  | _ => exists l, v = VNodes l /\
         forall n, In n (nodes_of l) <->
                   path_den D has_ns (snd (steps_of o)) (if fst (steps_of o) then root_node else c) n
  end.

Lemma opval_typed : forall o c v, is_operand_px o -> opval o c v -> xpath_typed v.
Proof.
  intros o c v Ho Hv. destruct o; cbn [opval] in Hv; try (subst v; exact I);
    destruct Hv as (l & -> & _); exact I.
Qed.

(* every operand builds, at any admissible depth, whatever firstInput is,
   and the built query evaluates to the operand's value *)
Lemma operand_builds : forall o d fi,
  is_operand_px o -> d + osize o <= max_build_depth ->
  exists q pr fi',
    process re_ok d (xast o) fl_none fi = Ok (q, pr, fi') /\
    forall c, valid D c = true -> exists v, EVAL q c = Val v /\ opval o c v.
Proof.
  intros o d fi Ho Hd.
  assert (Hlt : Nat.ltb max_build_depth (S d) = false).
  { apply Nat.ltb_ge. destruct o; cbn [osize] in Hd; lia. }
  destruct o as [ds|b| | | |s r| | | | |]; cbn [is_operand_px] in Ho;
    try (exfalso; destruct Ho as (res0 & Ho0); discriminate Ho0).
  - exists (QNum (lit_f ds)), pr_none, (mkFi (fi_q fi) false). split.
    + cbn [xast process]. rewrite Hlt. reflexivity.
    + intros c _. exists (VNum (lit_f ds)). split; reflexivity.
  - exists (QStr b), pr_none, (mkFi (fi_q fi) false). split.
    + cbn [xast process]. rewrite Hlt. reflexivity.
    + intros c _. exists (VStr b). split; reflexivity.
  - remember (XPath s r) as p eqn:Ep.
    destruct (steps_of p) as [abs steps] eqn:Es.
    assert (Hsz : osize p = S (List.length steps)) by (subst p; cbn [osize]; rewrite Es; reflexivity).
    pose proof (xast_path_shape p abs steps Ho Es) as HA.
    pose proof (steps_of_ne p abs steps Ho Es) as Hne.
    assert (Hr : rev steps <> []) by (intros E; apply Hne; rewrite <- (rev_involutive steps), E; reflexivity).
    destruct (path_tree_builds D has_ns hcode rm rn rr Hhash re_ok abs (rev steps) (xast p) d fi HA Hr)
      as (q & pr & fo & E & [Hns _] & Hq).
    { rewrite rev_length. destruct abs; lia. }
    exists q, pr, fo. split; [exact E|].
    intros c Hc. destruct (Hq c Hc) as (l & El & _ & Hin).
    exists (VNodes l). split; [rewrite (eval_nodeset_q D has_ns hcode rm rn rr q c Hns), El; reflexivity|].
    subst p. cbn [opval]. rewrite Es. cbn [fst snd]. exists l. split; [reflexivity|].
    intros n. rewrite (Hin n). apply (P_of_rev D has_ns).
Qed.

End Sem.

(* ------------------------------------------------------------------ *)
(** * 2. Binary operators                                               *)
(* ------------------------------------------------------------------ *)

Section Ops.
Variable D : tree.
Variable has_ns : bool.
Variable hc : tree -> node -> N.
Variable rm : string -> string -> option bool.
Variable rn : string -> nat.
Variable rr : string -> string -> string -> string.
Hypothesis Hhash : hash_ok (hc D) (all_nodes D).
Variable re_ok : string -> bool.
Variable ns : nsmap.

Notation EVALUATE := (evaluate rm rn rr hc D has_ns).
Notation EVAL := (eval D has_ns (hc D) rm rn rr).
Notation OPVAL := (opval D has_ns).

Lemma evaluate_scalar : forall q c v,
  EVAL q c = Val v -> (forall l, v <> VNodes l) -> EVALUATE q c = Val v.
Proof.
  intros q c v H Hn. unfold evaluate. rewrite H. destruct v; try reflexivity.
  exfalso. apply (Hn l). reflexivity.
Qed.

(* the text  E1 op E2 : what Compile returns and how its operands evaluate *)
Lemma binop_text : forall b Q l r,
  is_operand_px l -> is_operand_px r -> level b < 8 -> op_class (opname b) Q ->
  xok (XBin b l r) -> 1 + osize l <= max_build_depth -> 1 + osize r <= max_build_depth ->
  exists q1 q2,
    compile re_ok (print_min (XBin b l r)) ns = Ok (Q q1 q2) /\
    compile re_ok (print_sp (XBin b l r)) ns = Ok (Q q1 q2) /\
    forall c, valid D c = true ->
    exists m n, EVAL q1 c = Val m /\ EVAL q2 c = Val n /\ OPVAL l c m /\ OPVAL r c n.
Proof.
  intros b Q l r Hl Hr Hlev HQ Hok Hsl Hsr.
  destruct (operand_wf l Hl) as (Wl & Dl & Ll). destruct (operand_wf r Hr) as (Wr & Dr & Lr).
  destruct (operand_builds D has_ns (hc D) rm rn rr Hhash re_ok l 1 fi_nil Hl Hsl)
    as (q1 & pr1 & fi1 & E1 & V1).
  destruct (operand_builds D has_ns (hc D) rm rn rr Hhash re_ok r 1 fi1 Hr Hsr)
    as (q2 & pr2 & fi2 & E2 & V2).
  exists q1, q2.
  assert (Hwf : xwf (XBin b l r)) by (cbn [xwf]; rewrite Ll, Lr; repeat split; try assumption; lia).
  assert (Hd : xdepth (XBin b l r) < max_depth) by (cbn [xdepth]; rewrite Dl, Dr; unfold max_depth; cbn; lia).
  destruct (compiled_binop_text re_ok ns b Q l r q1 q2 Hwf Hok Hd HQ) as [C1 C2].
  { exists pr1, fi1, pr2, fi2. split; assumption. }
  split; [exact C1|]. split; [exact C2|].
  intros c Hc. destruct (V1 c Hc) as (m & Em & Hm). destruct (V2 c Hc) as (n & En & Hn).
  exists m, n. auto.
Qed.

(** C07: comparisons *)
Theorem C07_text_comparison : forall b o l r,
  is_operand_px l -> is_operand_px r -> cmp_of (opname b) = Some o ->
  xok (XBin b l r) -> 1 + osize l <= max_build_depth -> 1 + osize r <= max_build_depth ->
  exists q,
    compile re_ok (print_min (XBin b l r)) ns = Ok q /\
    compile re_ok (print_sp (XBin b l r)) ns = Ok q /\
    forall c, valid D c = true ->
    exists m n, OPVAL l c m /\ OPVAL r c n /\
      (* the model's comparison of the two operand values; never an error *)
      EVALUATE q c = compare_values D o m n /\
      (exists bb, EVALUATE q c = Val (VBool bb)) /\
      (* and the XPath 1.0 comparison wherever the two agree *)
      (forall x y, abs D m = Some x -> abs D n = Some y -> follows_spec o x y = true ->
         EVALUATE q c = Val (VBool (xcompare string_to_number o x y))).
Proof.
  intros b o l r Hl Hr Ho Hok Hsl Hsr.
  assert (Hlev : level b < 8) by (destruct b; try discriminate Ho; cbn; lia).
  destruct (binop_text b (QLogical o) l r Hl Hr Hlev (OC_cmp _ o Ho) Hok Hsl Hsr)
    as (q1 & q2 & C1 & C2 & HV).
  exists (QLogical o q1 q2). split; [exact C1|]. split; [exact C2|].
  intros c Hc. destruct (HV c Hc) as (m & n & Em & En & Hm & Hn).
  exists m, n. split; [exact Hm|]. split; [exact Hn|].
  assert (Hev : EVAL (QLogical o q1 q2) c = compare_values D o m n)
    by (rewrite (eval_QLogical_eq D has_ns (hc D) rm rn rr), Em, En; reflexivity).
  destruct (compare_never_aborts D o m n (opval_typed D has_ns l c m Hl Hm) (opval_typed D has_ns r c n Hr Hn))
    as [bb Hb].
  assert (Hevl : EVALUATE (QLogical o q1 q2) c = Val (VBool bb))
    by (apply evaluate_scalar; [rewrite Hev; exact Hb|discriminate]).
  split; [rewrite Hevl, Hb; reflexivity|]. split; [exists bb; exact Hevl|].
  intros x y Hx Hy Hf. rewrite Hevl, <- Hb. apply compare_values_spec; assumption.
Qed.

(** C08: arithmetic *)
Theorem C08_text_arithmetic : forall b o l r,
  is_operand_px l -> is_operand_px r -> arith_of (opname b) = Some o ->
  xok (XBin b l r) -> 1 + osize l <= max_build_depth -> 1 + osize r <= max_build_depth ->
  exists q,
    compile re_ok (print_min (XBin b l r)) ns = Ok q /\
    compile re_ok (print_sp (XBin b l r)) ns = Ok q /\
    forall c, valid D c = true ->
    exists m n, OPVAL l c m /\ OPVAL r c n /\
      EVALUATE q c = Val (VNum (arith_op o (as_number D m) (as_number D n))).
Proof.
  intros b o l r Hl Hr Ho Hok Hsl Hsr.
  assert (Hlev : level b < 8) by (destruct b; try discriminate Ho; cbn; lia).
  destruct (binop_text b (QNumeric o) l r Hl Hr Hlev (OC_arith _ o Ho) Hok Hsl Hsr)
    as (q1 & q2 & C1 & C2 & HV).
  exists (QNumeric o q1 q2). split; [exact C1|]. split; [exact C2|].
  intros c Hc. destruct (HV c Hc) as (m & n & Em & En & Hm & Hn).
  exists m, n. split; [exact Hm|]. split; [exact Hn|].
  apply evaluate_scalar; [|discriminate].
  apply (eval_numeric D has_ns (hc D) rm rn rr o q1 q2 c m n Em En).
Qed.

(* number() of the three kinds of operand *)
Lemma as_number_operand : forall o c v, OPVAL o c v ->
  match o with
  | XNum ds => as_number D v = lit_f ds
  | XStr b => as_number D v = string_to_number b
  | _ => True
  end.
Proof. intros o c v H. destruct o; cbn [opval] in H; try exact I; subst v; reflexivity. Qed.

End Ops.

Print Assumptions C07_text_comparison.
Print Assumptions C08_text_arithmetic.

(* ------------------------------------------------------------------ *)
(** * 3. The builder on the string-function calls                       *)
(* ------------------------------------------------------------------ *)

Definition fn2_table : list (string * fn2) :=
  [("contains", FContains); ("starts-with", FStartsWith); ("ends-with", FEndsWith);
   ("substring-before", FSubstringBefore); ("substring-after", FSubstringAfter)].
Definition fn1_table : list (string * fn1) :=
  [("string-length", FStringLength); ("normalize-space", FNormalizeSpace)].

Section BuildCalls.
Variable re_ok : string -> bool.

Lemma process_fn2_shape : forall fn F d pre a0 a1 fl fi q0 pr0 fi0 q1 pr1 fi1,
  In (fn, F) fn2_table -> d < max_build_depth ->
  process re_ok (S d) a0 fl_none fi = Ok (q0, pr0, fi0) ->
  process re_ok (S d) a1 fl_none fi0 = Ok (q1, pr1, fi1) ->
  process re_ok d (AFunc pre fn [a0; a1]) fl fi = Ok (QFn2 F q0 q1, pr1, mkFi (fi_q fi1) false).
Proof.
  intros fn F d pre a0 a1 fl fi q0 pr0 fi0 q1 pr1 fi1 Hin Hd H0 H1.
  cbn [fn2_table In] in Hin.
  repeat (destruct Hin as [Hin|Hin];
    [inversion Hin; subst fn F; cbn [process]; rewrite (depth_ok d Hd);
     cbn [String.eqb Ascii.eqb Bool.eqb andb orb negb List.length Nat.eqb];
     rewrite H0; cbn [cbind]; rewrite H1; reflexivity|]).
  contradiction.
Qed.

Lemma process_fn1_shape : forall fn F d pre a0 fl fi q0 pr0 fi0,
  In (fn, F) fn1_table -> d < max_build_depth ->
  process re_ok (S d) a0 fl_none fi = Ok (q0, pr0, fi0) ->
  process re_ok d (AFunc pre fn [a0]) fl fi = Ok (QFn1 F q0, pr0, mkFi (fi_q fi0) false).
Proof.
  intros fn F d pre a0 fl fi q0 pr0 fi0 Hin Hd H0.
  cbn [fn1_table In] in Hin.
  repeat (destruct Hin as [Hin|Hin];
    [inversion Hin; subst fn F; cbn [process]; rewrite (depth_ok d Hd);
     cbn [String.eqb Ascii.eqb Bool.eqb andb orb negb List.length Nat.eqb Nat.ltb Nat.leb];
     rewrite H0; reflexivity|]).
  contradiction.
Qed.

Lemma process_translate_shape : forall d pre a0 a1 a2 fl fi q0 pr0 fi0 q1 pr1 fi1 q2 pr2 fi2,
  d < max_build_depth ->
  process re_ok (S d) a0 fl_none fi = Ok (q0, pr0, fi0) ->
  process re_ok (S d) a1 fl_none fi0 = Ok (q1, pr1, fi1) ->
  process re_ok (S d) a2 fl_none fi1 = Ok (q2, pr2, fi2) ->
  process re_ok d (AFunc pre "translate" [a0; a1; a2]) fl fi
    = Ok (QFn3 FTranslate q0 q1 q2, pr2, mkFi (fi_q fi2) false).
Proof.
  intros d pre a0 a1 a2 fl fi q0 pr0 fi0 q1 pr1 fi1 q2 pr2 fi2 Hd H0 H1 H2.
  cbn [process]. rewrite (depth_ok d Hd).
  cbn [String.eqb Ascii.eqb Bool.eqb andb orb negb List.length Nat.eqb].
  rewrite H0. cbn [cbind]. rewrite H1. cbn [cbind]. rewrite H2. reflexivity.
Qed.

Lemma process_concat2_shape : forall d pre a0 a1 fl fi q0 pr0 fi0 q1 pr1 fi1,
  d < max_build_depth ->
  process re_ok (S d) a0 fl_none fi = Ok (q0, pr0, fi0) ->
  process re_ok (S d) a1 fl_none fi0 = Ok (q1, pr1, fi1) ->
  process re_ok d (AFunc pre "concat" [a0; a1]) fl fi
    = Ok (QConcat (list_of_args [q0; q1]), pr1, mkFi (fi_q fi1) false).
Proof.
  intros d pre a0 a1 fl fi q0 pr0 fi0 q1 pr1 fi1 Hd H0 H1.
  cbn [process]. rewrite (depth_ok d Hd).
  cbn [String.eqb Ascii.eqb Bool.eqb andb orb negb List.length Nat.eqb Nat.ltb Nat.leb].
  rewrite H0. cbn [cbind]. rewrite H1. reflexivity.
Qed.

End BuildCalls.

(* ------------------------------------------------------------------ *)
(** * 4. The string functions on texts                                  *)
(* ------------------------------------------------------------------ *)

Section Strings.
Variable D : tree.
Variable has_ns : bool.
Variable hc : tree -> node -> N.
Variable rm : string -> string -> option bool.
Variable rn : string -> nat.
Variable rr : string -> string -> string -> string.
Hypothesis Hhash : hash_ok (hc D) (all_nodes D).
Variable re_ok : string -> bool.
Variable ns : nsmap.

Notation EVALUATE := (evaluate rm rn rr hc D has_ns).
Notation EVAL := (eval D has_ns (hc D) rm rn rr).
Notation OPVAL := (opval D has_ns).
Notation sof := (str_or_first D).

(* a call text compiles to what the builder makes of its tree *)
Lemma call_compiles : forall fn a q pr fo,
  node_type_name fn = false -> awf a -> xok (XCall fn a) -> S (RoundTripPaths.adepth a) < max_depth ->
  process re_ok 0 (AFunc "" fn (aast a)) fl_none fi_nil = Ok (q, pr, fo) -> q <> QNil ->
  compile re_ok (print_min (XCall fn a)) ns = Ok q /\ compile re_ok (print_sp (XCall fn a)) ns = Ok q.
Proof.
  intros fn a q pr fo Hnt Hw Hok Hd E Hn.
  assert (Hwf : xwf (XCall fn a)) by (cbn [xwf]; auto).
  split.
  - apply (compile_of_parse re_ok _ ns (AFunc "" fn (aast a)) q pr fo); [|exact E|exact Hn].
    apply (roundtrip_print_min ns (XCall fn a) Hwf Hok Hd).
  - apply (compile_of_parse re_ok _ ns (AFunc "" fn (aast a)) q pr fo); [|exact E|exact Hn].
    apply (roundtrip_print_sp ns (XCall fn a) Hwf Hok Hd).
Qed.

Definition args2 (l r : px) : xargs := ACons l (AOne r).
Definition args3 (l m r : px) : xargs := ACons l (ACons m (AOne r)).

Lemma operand_depth : forall o, is_operand_px o -> xwf o /\ xdepth o = 0.
Proof. intros o H. destruct (operand_wf o H) as (A & B & _). auto. Qed.

(* two-argument functions *)
Lemma call2_text : forall fn F l r,
  In (fn, F) fn2_table -> is_operand_px l -> is_operand_px r ->
  xok (XCall fn (args2 l r)) -> 1 + osize l <= max_build_depth -> 1 + osize r <= max_build_depth ->
  exists q1 q2,
    compile re_ok (print_min (XCall fn (args2 l r))) ns = Ok (QFn2 F q1 q2) /\
    compile re_ok (print_sp (XCall fn (args2 l r))) ns = Ok (QFn2 F q1 q2) /\
    forall c, valid D c = true ->
    exists m n, EVAL q1 c = Val m /\ EVAL q2 c = Val n /\ OPVAL l c m /\ OPVAL r c n.
Proof.
  intros fn F l r Hin Hl Hr Hok Hsl Hsr.
  destruct (operand_depth l Hl) as (Wl & Dl). destruct (operand_depth r Hr) as (Wr & Dr).
  destruct (operand_builds D has_ns (hc D) rm rn rr Hhash re_ok l 1 fi_nil Hl Hsl)
    as (q1 & pr1 & fi1 & E1 & V1).
  destruct (operand_builds D has_ns (hc D) rm rn rr Hhash re_ok r 1 fi1 Hr Hsr)
    as (q2 & pr2 & fi2 & E2 & V2).
  exists q1, q2.
  assert (Hd0 : 0 < max_build_depth) by (unfold max_build_depth; lia).
  pose proof (process_fn2_shape re_ok fn F 0 "" (xast l) (xast r) fl_none fi_nil _ _ _ _ _ _ Hin Hd0 E1 E2) as E.
  assert (Hnt : node_type_name fn = false).
  { cbn [fn2_table In] in Hin. repeat (destruct Hin as [Hin|Hin]; [inversion Hin; reflexivity|]). contradiction. }
  destruct (call_compiles fn (args2 l r) _ _ _ Hnt ltac:(cbn; auto) Hok
              ltac:(cbn [args2 RoundTripPaths.adepth]; rewrite Dl, Dr; unfold max_depth; cbn; lia) E ltac:(discriminate))
    as [C1 C2].
  split; [exact C1|]. split; [exact C2|].
  intros c Hc. destruct (V1 c Hc) as (m & Em & Hm). destruct (V2 c Hc) as (n & En & Hn).
  exists m, n. auto.
Qed.

Lemma opval_strlike : forall o c v, OPVAL o c v ->
  match o with XNum _ => True | _ => strlike v = true end.
Proof.
  intros o c v H. destruct o; cbn [opval] in H; try exact I; try (subst v; reflexivity);
    destruct H as (l & -> & _); reflexivity.
Qed.

Definition not_number (o : px) : Prop := match o with XNum _ => False | _ => True end.

Lemma opval_strlike' : forall o c v, not_number o -> OPVAL o c v -> strlike v = true.
Proof. intros o c v Hn H. pose proof (opval_strlike o c v H) as S. destruct o; try exact S. contradiction. Qed.

(** C09: contains / starts-with / ends-with.  First argument a string or a
    path, second argument a string literal. *)
Theorem C09_text_contains_family : forall fn F l w,
  In (fn, F) [("contains", FContains); ("starts-with", FStartsWith); ("ends-with", FEndsWith)] ->
  is_operand_px l -> not_number l ->
  xok (XCall fn (args2 l (XStr w))) -> 1 + osize l <= max_build_depth ->
  exists q,
    compile re_ok (print_min (XCall fn (args2 l (XStr w)))) ns = Ok q /\
    compile re_ok (print_sp (XCall fn (args2 l (XStr w)))) ns = Ok q /\
    forall c, valid D c = true ->
    exists m b, OPVAL l c m /\ EVALUATE q c = Val (VBool b) /\
      match F with
      | FContains => b = true <-> is_substring w (sof m)
      | FStartsWith => b = true <-> is_prefix w (sof m)
      | _ => b = true <-> is_suffix w (sof m)
      end.
Proof.
  intros fn F l w Hin Hl Hnn Hok Hsl.
  assert (Hin2 : In (fn, F) fn2_table).
  { cbn [In] in Hin. cbn [fn2_table In]. tauto. }
  destruct (call2_text fn F l (XStr w) Hin2 Hl I Hok Hsl ltac:(cbn; unfold max_build_depth; lia))
    as (q1 & q2 & C1 & C2 & HV).
  exists (QFn2 F q1 q2). split; [exact C1|]. split; [exact C2|].
  intros c Hc. destruct (HV c Hc) as (m & n & Em & En & Hm & Hn). cbn [opval] in Hn. subst n.
  pose proof (opval_strlike' l c m Hnn Hm) as Sm.
  exists m. cbn [In] in Hin. destruct Hin as [Hin|[Hin|[Hin|[]]]]; inversion Hin; subst fn F.
  - exists (contains (sof m) w). split; [exact Hm|]. split; [|apply contains_spec].
    apply evaluate_scalar; [|discriminate].
    apply (eval_contains D has_ns (hc D) rm rn rr q1 q2 c m w Em Sm En).
  - exists (prefix w (sof m)). split; [exact Hm|]. split; [|apply prefix_spec].
    apply evaluate_scalar; [|discriminate].
    apply (eval_starts_with D has_ns (hc D) rm rn rr q1 q2 c m w Em Sm En).
  - exists (has_suffix (sof m) w). split; [exact Hm|]. split; [|apply has_suffix_spec].
    apply evaluate_scalar; [|discriminate].
    apply (eval_ends_with D has_ns (hc D) rm rn rr q1 q2 c m w Em Sm En).
Qed.

Lemma substring_before_m_empty : forall w, substring_before_m "" w = "".
Proof. intros w. unfold substring_before_m. destruct (index_of w ""); [destruct n|]; reflexivity. Qed.
Lemma substring_after_m_empty : forall w, substring_after_m "" w = "".
Proof.
  intros w. unfold substring_after_m. destruct (index_of w "") as [i|]; [|reflexivity].
  destruct (i + length w); reflexivity.
Qed.

Lemma value_eq_nil : forall m : value, m = VNodes [] \/ m <> VNodes [].
Proof. intros m. destruct m as [| | |[|i l]| |]; try (right; discriminate). left. reflexivity. Qed.

(** C09: substring-before / substring-after, any two operands *)
Theorem C09_text_substring_before_after : forall (after : bool) l r,
  is_operand_px l -> is_operand_px r ->
  let fn := if after then "substring-after" else "substring-before" in
  xok (XCall fn (args2 l r)) -> 1 + osize l <= max_build_depth -> 1 + osize r <= max_build_depth ->
  exists q,
    compile re_ok (print_min (XCall fn (args2 l r))) ns = Ok q /\
    compile re_ok (print_sp (XCall fn (args2 l r))) ns = Ok q /\
    forall c, valid D c = true ->
    exists m n res, OPVAL l c m /\ OPVAL r c n /\ EVALUATE q c = Val (VStr res) /\
      if after then is_substring_after (sof m) (sof n) res
      else is_substring_before (sof m) (sof n) res.
Proof.
  intros after l r Hl Hr fn Hok Hsl Hsr.
  set (F := if after then FSubstringAfter else FSubstringBefore).
  assert (Hin : In (fn, F) fn2_table) by (unfold fn, F; destruct after; cbn; tauto).
  destruct (call2_text fn F l r Hin Hl Hr Hok Hsl Hsr) as (q1 & q2 & C1 & C2 & HV).
  exists (QFn2 F q1 q2). split; [exact C1|]. split; [exact C2|].
  intros c Hc. destruct (HV c Hc) as (m & n & Em & En & Hm & Hn).
  exists m, n.
  destruct (value_eq_nil m) as [Enil|Hne].
  - (* an empty node-set: "" without looking at the second argument *)
    subst m. exists "". split; [exact Hm|]. split; [exact Hn|]. split.
    + apply evaluate_scalar; [|discriminate].
      apply (eval_substring_before_after_empty_nodes D has_ns (hc D) rm rn rr F q1 q2 c);
        [unfold F; destruct after; auto|exact Em].
    + destruct after.
      * rewrite <- (substring_after_m_empty (sof n)). apply substring_after_spec.
      * rewrite <- (substring_before_m_empty (sof n)). apply substring_before_spec.
  - unfold F. destruct after.
    + exists (substring_after_m (sof m) (sof n)). split; [exact Hm|]. split; [exact Hn|].
      split; [|apply substring_after_spec]. apply evaluate_scalar; [|discriminate].
      apply (eval_substring_after D has_ns (hc D) rm rn rr q1 q2 c m n Em Hne En).
    + exists (substring_before_m (sof m) (sof n)). split; [exact Hm|]. split; [exact Hn|].
      split; [|apply substring_before_spec]. apply evaluate_scalar; [|discriminate].
      apply (eval_substring_before D has_ns (hc D) rm rn rr q1 q2 c m n Em Hne En).
Qed.

End Strings.

Section Strings2.
Variable D : tree.
Variable has_ns : bool.
Variable hc : tree -> node -> N.
Variable rm : string -> string -> option bool.
Variable rn : string -> nat.
Variable rr : string -> string -> string -> string.
Hypothesis Hhash : hash_ok (hc D) (all_nodes D).
Variable re_ok : string -> bool.
Variable ns : nsmap.

Notation EVALUATE := (evaluate rm rn rr hc D has_ns).
Notation EVAL := (eval D has_ns (hc D) rm rn rr).
Notation OPVAL := (opval D has_ns).
Notation sof := (str_or_first D).

Lemma append_empty_r : forall s : string, (s ++ "")%string = s.
Proof. induction s as [|c s IH]; cbn; [reflexivity|]. rewrite IH. reflexivity. Qed.

(** C09: concat(E1,E2) *)
Theorem C09_text_concat : forall l r,
  is_operand_px l -> is_operand_px r ->
  xok (XCall "concat" (args2 l r)) -> 1 + osize l <= max_build_depth -> 1 + osize r <= max_build_depth ->
  exists q,
    compile re_ok (print_min (XCall "concat" (args2 l r))) ns = Ok q /\
    compile re_ok (print_sp (XCall "concat" (args2 l r))) ns = Ok q /\
    forall c, valid D c = true ->
    exists m n, OPVAL l c m /\ OPVAL r c n /\ EVALUATE q c = Val (VStr (sof m ++ sof n)).
Proof.
  intros l r Hl Hr Hok Hsl Hsr.
  destruct (operand_depth l Hl) as (Wl & Dl). destruct (operand_depth r Hr) as (Wr & Dr).
  destruct (operand_builds D has_ns (hc D) rm rn rr Hhash re_ok l 1 fi_nil Hl Hsl)
    as (q1 & pr1 & fi1 & E1 & V1).
  destruct (operand_builds D has_ns (hc D) rm rn rr Hhash re_ok r 1 fi1 Hr Hsr)
    as (q2 & pr2 & fi2 & E2 & V2).
  assert (Hd0 : 0 < max_build_depth) by (unfold max_build_depth; lia).
  pose proof (process_concat2_shape re_ok 0 "" (xast l) (xast r) fl_none fi_nil _ _ _ _ _ _ Hd0 E1 E2) as E.
  destruct (call_compiles re_ok ns "concat" (args2 l r) _ _ _ eq_refl ltac:(cbn; auto) Hok
              ltac:(cbn [args2 RoundTripPaths.adepth]; rewrite Dl, Dr; unfold max_depth; cbn; lia) E ltac:(discriminate))
    as [C1 C2].
  eexists. split; [exact C1|]. split; [exact C2|].
  intros c Hc. destruct (V1 c Hc) as (m & Em & Hm). destruct (V2 c Hc) as (n & En & Hn).
  exists m, n. split; [exact Hm|]. split; [exact Hn|].
  apply (evaluate_scalar D has_ns hc rm rn rr); [|discriminate].
  rewrite (eval_concat D has_ns (hc D) rm rn rr [q1; q2] c [m; n]) by (repeat constructor; assumption).
  cbn [map concat_all fold_right]. rewrite append_empty_r. reflexivity.
Qed.

(* one-argument functions *)
Lemma call1_text : forall fn F l,
  In (fn, F) fn1_table -> is_operand_px l ->
  xok (XCall fn (AOne l)) -> 1 + osize l <= max_build_depth ->
  exists q1,
    compile re_ok (print_min (XCall fn (AOne l))) ns = Ok (QFn1 F q1) /\
    compile re_ok (print_sp (XCall fn (AOne l))) ns = Ok (QFn1 F q1) /\
    forall c, valid D c = true -> exists m, EVAL q1 c = Val m /\ OPVAL l c m.
Proof.
  intros fn F l Hin Hl Hok Hsl.
  destruct (operand_depth l Hl) as (Wl & Dl).
  destruct (operand_builds D has_ns (hc D) rm rn rr Hhash re_ok l 1 fi_nil Hl Hsl)
    as (q1 & pr1 & fi1 & E1 & V1).
  assert (Hd0 : 0 < max_build_depth) by (unfold max_build_depth; lia).
  pose proof (process_fn1_shape re_ok fn F 0 "" (xast l) fl_none fi_nil _ _ _ Hin Hd0 E1) as E.
  assert (Hnt : node_type_name fn = false).
  { cbn [fn1_table In] in Hin. repeat (destruct Hin as [Hin|Hin]; [inversion Hin; reflexivity|]). contradiction. }
  destruct (call_compiles re_ok ns fn (AOne l) _ _ _ Hnt Wl Hok
              ltac:(cbn [RoundTripPaths.adepth]; rewrite Dl; unfold max_depth; lia) E ltac:(discriminate))
    as [C1 C2].
  exists q1. split; [exact C1|]. split; [exact C2|]. exact V1.
Qed.

(** C09: string-length(E) *)
Theorem C09_text_string_length : forall l,
  is_operand_px l -> xok (XCall "string-length" (AOne l)) -> 1 + osize l <= max_build_depth ->
  exists q,
    compile re_ok (print_min (XCall "string-length" (AOne l))) ns = Ok q /\
    compile re_ok (print_sp (XCall "string-length" (AOne l))) ns = Ok q /\
    forall c, valid D c = true ->
    exists m, OPVAL l c m /\ EVALUATE q c = Val (VNum (of_Z (Z.of_nat (String.length (sof m))))).
Proof.
  intros l Hl Hok Hsl.
  destruct (call1_text "string-length" FStringLength l ltac:(cbn; tauto) Hl Hok Hsl) as (q1 & C1 & C2 & HV).
  eexists. split; [exact C1|]. split; [exact C2|].
  intros c Hc. destruct (HV c Hc) as (m & Em & Hm). exists m. split; [exact Hm|].
  apply (evaluate_scalar D has_ns hc rm rn rr); [|discriminate].
  apply (eval_string_length D has_ns (hc D) rm rn rr q1 c m Em).
Qed.

(** C09: normalize-space(E) *)
Theorem C09_text_normalize_space : forall l,
  is_operand_px l -> xok (XCall "normalize-space" (AOne l)) -> 1 + osize l <= max_build_depth ->
  exists q,
    compile re_ok (print_min (XCall "normalize-space" (AOne l))) ns = Ok q /\
    compile re_ok (print_sp (XCall "normalize-space" (AOne l))) ns = Ok q /\
    forall c, valid D c = true ->
    exists m, OPVAL l c m /\ EVALUATE q c = Val (VStr (normalize_space_spec (sof m))).
Proof.
  intros l Hl Hok Hsl.
  destruct (call1_text "normalize-space" FNormalizeSpace l ltac:(cbn; tauto) Hl Hok Hsl) as (q1 & C1 & C2 & HV).
  eexists. split; [exact C1|]. split; [exact C2|].
  intros c Hc. destruct (HV c Hc) as (m & Em & Hm). exists m. split; [exact Hm|].
  apply (evaluate_scalar D has_ns hc rm rn rr); [|discriminate].
  apply (eval_normalize_space D has_ns (hc D) rm rn rr q1 c m Em).
Qed.

(** C09: translate(E1,E2,E3), strings or paths *)
Theorem C09_text_translate : forall a b x,
  is_operand_px a -> is_operand_px b -> is_operand_px x ->
  not_number a -> not_number b -> not_number x ->
  xok (XCall "translate" (args3 a b x)) ->
  1 + osize a <= max_build_depth -> 1 + osize b <= max_build_depth -> 1 + osize x <= max_build_depth ->
  exists q,
    compile re_ok (print_min (XCall "translate" (args3 a b x))) ns = Ok q /\
    compile re_ok (print_sp (XCall "translate" (args3 a b x))) ns = Ok q /\
    forall c, valid D c = true ->
    exists va vb vx, OPVAL a c va /\ OPVAL b c vb /\ OPVAL x c vx /\
      EVALUATE q c = Val (VStr (translate_spec (sof va) (sof vb) (sof vx))).
Proof.
  intros a b x Ha Hb Hx Na Nb Nx Hok Sa Sb Sx.
  destruct (operand_depth a Ha) as (Wa & Da). destruct (operand_depth b Hb) as (Wb & Db).
  destruct (operand_depth x Hx) as (Wx & Dx).
  destruct (operand_builds D has_ns (hc D) rm rn rr Hhash re_ok a 1 fi_nil Ha Sa)
    as (q1 & pr1 & fi1 & E1 & V1).
  destruct (operand_builds D has_ns (hc D) rm rn rr Hhash re_ok b 1 fi1 Hb Sb)
    as (q2 & pr2 & fi2 & E2 & V2).
  destruct (operand_builds D has_ns (hc D) rm rn rr Hhash re_ok x 1 fi2 Hx Sx)
    as (q3 & pr3 & fi3 & E3 & V3).
  assert (Hd0 : 0 < max_build_depth) by (unfold max_build_depth; lia).
  pose proof (process_translate_shape re_ok 0 "" (xast a) (xast b) (xast x) fl_none fi_nil
                _ _ _ _ _ _ _ _ _ Hd0 E1 E2 E3) as E.
  destruct (call_compiles re_ok ns "translate" (args3 a b x) _ _ _ eq_refl ltac:(cbn; auto) Hok
              ltac:(cbn [args3 RoundTripPaths.adepth]; rewrite Da, Db, Dx; unfold max_depth; cbn; lia)
              E ltac:(discriminate)) as [C1 C2].
  eexists. split; [exact C1|]. split; [exact C2|].
  intros c Hc. destruct (V1 c Hc) as (va & Ea & Hva). destruct (V2 c Hc) as (vb & Eb & Hvb).
  destruct (V3 c Hc) as (vx & Ex & Hvx).
  exists va, vb, vx. split; [exact Hva|]. split; [exact Hvb|]. split; [exact Hvx|].
  apply (evaluate_scalar D has_ns hc rm rn rr); [|discriminate].
  apply (eval_translate D has_ns (hc D) rm rn rr q1 q2 q3 c va vb vx _ _ _ Ea
           (as_string_strlike D va (opval_strlike' D has_ns a c va Na Hva)) Eb
           (as_string_strlike D vb (opval_strlike' D has_ns b c vb Nb Hvb)) Ex
           (as_string_strlike D vx (opval_strlike' D has_ns x c vx Nx Hvx))).
Qed.

End Strings2.

Print Assumptions C09_text_contains_family.
Print Assumptions C09_text_substring_before_after.
Print Assumptions C09_text_concat.
Print Assumptions C09_text_string_length.
Print Assumptions C09_text_normalize_space.
Print Assumptions C09_text_translate.

(* ------------------------------------------------------------------ *)
(** * 5. Examples                                                       *)
(* ------------------------------------------------------------------ *)
Module Examples.
Import AxesSound.Examples EndToEndPaths.Examples.

(*   <a x="1" y="2"> <b>t</b> <c z="3"><d/><!--k--></c> <e/> </a>   *)
Notation EVx := (evaluate lit_match lit_numsubexp lit_replace_all hash_code exD true).
Definition hx := EndToEndPred.Examples.hash_ok_exD.

Definition p_ax : px := XPath PRel (RCons (st_child "a") false (ROne (st_attr "x"))).
Definition p_ay : px := XPath PRel (RCons (st_child "a") false (ROne (st_attr "y"))).
Definition p_ab : px := XPath PRel (RCons (st_child "a") false (ROne (st_child "b"))).
Definition n1 : px := XNum (list_of_string "1").
Definition n3 : px := XNum (list_of_string "3").

Lemma op_path : forall p, path_syntax_b p = true -> is_operand_px p.
Proof.
  intros p H. pose proof (path_syntax_b_ok p H) as Hp.
  destruct p; try exact Hp; destruct Hp as [r Hr]; discriminate Hr.
Qed.

(*  a/@x=1  : a node-set against a number *)
Example cmp_example :
  print_min (XBin BEq p_ax n1) = "a/@x=1" /\
  exists q, compile Api.lit_ok "a/@x=1" None = Ok q /\ EVx q root_node = Val (VBool true).
Proof.
  split; [vm_compute; reflexivity|].
  destruct (C07_text_comparison exD true hash_code lit_match lit_numsubexp lit_replace_all hx Api.lit_ok None
              BEq CEq p_ax n1 (op_path p_ax eq_refl) I eq_refl ltac:(vm_compute; reflexivity)
              ltac:(vm_compute; lia) ltac:(vm_compute; lia)) as (q & C & _ & HV).
  replace (print_min (XBin BEq p_ax n1)) with "a/@x=1" in C by (vm_compute; reflexivity).
  exists q. split; [exact C|].
  vm_compute in C. inversion C; subst q. vm_compute. reflexivity.
Qed.

(*  a/@y+3  = 5 *)
Example arith_example :
  print_min (XBin BAdd p_ay n3) = "a/@y+3" /\
  exists q, compile Api.lit_ok "a/@y+3" None = Ok q /\ EVx q root_node = Val (VNum (of_Z 5)).
Proof.
  split; [vm_compute; reflexivity|].
  destruct (C08_text_arithmetic exD true hash_code lit_match lit_numsubexp lit_replace_all hx Api.lit_ok None
              BAdd OAdd p_ay n3 (op_path p_ay eq_refl) I eq_refl ltac:(vm_compute; reflexivity)
              ltac:(vm_compute; lia) ltac:(vm_compute; lia)) as (q & C & _ & HV).
  replace (print_min (XBin BAdd p_ay n3)) with "a/@y+3" in C by (vm_compute; reflexivity).
  exists q. split; [exact C|]. vm_compute in C. inversion C; subst q. vm_compute. reflexivity.
Qed.

(*  contains(a/b,'t')  : the string-value of the first node of a/b is "t" *)
Example contains_example :
  print_min (XCall "contains" (args2 p_ab (XStr "t"))) = "contains(a/b,'t')" /\
  exists q, compile Api.lit_ok "contains(a/b,'t')" None = Ok q /\ EVx q root_node = Val (VBool true).
Proof.
  split; [vm_compute; reflexivity|].
  destruct (C09_text_contains_family exD true hash_code lit_match lit_numsubexp lit_replace_all hx Api.lit_ok None
              "contains" FContains p_ab "t" ltac:(cbn; tauto) (op_path p_ab eq_refl) I
              ltac:(vm_compute; reflexivity) ltac:(vm_compute; lia)) as (q & C & _ & HV).
  replace (print_min (XCall "contains" (args2 p_ab (XStr "t")))) with "contains(a/b,'t')" in C
    by (vm_compute; reflexivity).
  exists q. split; [exact C|]. vm_compute in C. inversion C; subst q. vm_compute. reflexivity.
Qed.

(* the other functions, on literal and path operands *)
Example string_function_values :
  (exists q, compile Api.lit_ok "substring-before('abc','b')" None = Ok q /\ EVx q root_node = Val (VStr "a")) /\
  (exists q, compile Api.lit_ok "substring-after('abc',a/b)" None = Ok q /\ EVx q root_node = Val (VStr "")) /\
  (exists q, compile Api.lit_ok "concat(a/b,'x')" None = Ok q /\ EVx q root_node = Val (VStr "tx")) /\
  (exists q, compile Api.lit_ok "string-length(a/b)" None = Ok q /\ EVx q root_node = Val (VNum (of_Z 1))) /\
  (exists q, compile Api.lit_ok "normalize-space('  a   b ')" None = Ok q /\ EVx q root_node = Val (VStr "a b")) /\
  (exists q, compile Api.lit_ok "translate(a/b,'t','u')" None = Ok q /\ EVx q root_node = Val (VStr "u")).
Proof.
  repeat split; eexists; (split; [vm_compute; reflexivity|]); vm_compute; reflexivity.
Qed.

(* the hypotheses of the theorems hold on those texts *)
Example string_function_hyps :
  print_min (XCall "substring-before" (args2 (XStr "abc") (XStr "b"))) = "substring-before('abc','b')" /\
  print_min (XCall "concat" (args2 p_ab (XStr "x"))) = "concat(a/b,'x')" /\
  print_min (XCall "string-length" (AOne p_ab)) = "string-length(a/b)" /\
  print_min (XCall "translate" (args3 p_ab (XStr "t") (XStr "u"))) = "translate(a/b,'t','u')" /\
  xok (XCall "translate" (args3 p_ab (XStr "t") (XStr "u"))) /\ is_operand_px p_ab.
Proof. repeat split; try (vm_compute; reflexivity). apply (op_path p_ab eq_refl). Qed.

(* OUTSIDE the theorems (why the restrictions are there):
   a node-set as the SECOND argument of contains(), or a number as its first,
   is a complaint; a number operand of string-length / substring-before counts
   as the empty string (XPath 1.0 would convert it with string()) *)
Example outside_the_fragment :
  (exists q, compile Api.lit_ok "contains('abt',a/b)" None = Ok q /\
             EVx q root_node = Complaint "contains() function argument type must be string") /\
  (exists q, compile Api.lit_ok "contains(12,'1')" None = Ok q /\
             EVx q root_node = Complaint "contains() function argument type must be string") /\
  (exists q, compile Api.lit_ok "string-length(12)" None = Ok q /\ EVx q root_node = Val (VNum fzero)) /\
  (exists q, compile Api.lit_ok "substring-before(12,1)" None = Ok q /\ EVx q root_node = Val (VStr "")).
Proof.
  repeat split; eexists; (split; [vm_compute; reflexivity|]); vm_compute; reflexivity.
Qed.

End Examples.
