// Package gen holds the case generators of the correspondence check: one
// PRNG state, expression trees with printers (explicit and abbreviated
// syntax), document generators, and one generator per property domain.
package gen

import (
	"strings"
)

// Rand is splitmix64: every random choice of a run derives from one seed.
type Rand struct{ s uint64 }

func NewRand(seed uint64) *Rand { return &Rand{seed*0x9E3779B97F4A7C15 + 0x1234567} }
func (r *Rand) next() uint64 {
	r.s += 0x9E3779B97F4A7C15
	z := r.s
	z = (z ^ (z >> 30)) * 0xBF58476D1CE4E5B9
	z = (z ^ (z >> 27)) * 0x94D049BB133111EB
	return z ^ (z >> 31)
}
func (r *Rand) Intn(n int) int {
	if n <= 0 {
		return 0
	}
	return int(r.next() % uint64(n))
}
func (r *Rand) Pick(xs []string) string { return xs[r.Intn(len(xs))] }
func (r *Rand) Chance(pct int) bool     { return r.Intn(100) < pct }
func (r *Rand) U64() uint64              { return r.next() }

// Mode selects the concrete syntax.
type Mode struct {
	Abbrev bool // a for child::a, @a, ., .., //
	Spaces int  // 0 none, 1 around binary operators
}

type Ex interface {
	Str(m Mode) string
}

type Step struct {
	Axis, Test string
	Preds      []Ex
	DSlash     bool // reached by '//' instead of '/'
}

type Path struct {
	Abs   bool
	Base  Ex // optional filter-expression base:  Base/steps
	Steps []Step
}

func stepStr(s Step, m Mode) string {
	var b strings.Builder
	switch {
	case m.Abbrev && s.Axis == "self" && s.Test == "node()":
		b.WriteString(".")
	case m.Abbrev && s.Axis == "parent" && s.Test == "node()":
		b.WriteString("..")
	case m.Abbrev && s.Axis == "child":
		b.WriteString(s.Test)
	case m.Abbrev && s.Axis == "attribute":
		b.WriteString("@" + s.Test)
	default:
		b.WriteString(s.Axis + "::" + s.Test)
	}
	for _, p := range s.Preds {
		b.WriteString("[" + p.Str(m) + "]")
	}
	return b.String()
}

func (p Path) Str(m Mode) string {
	var b strings.Builder
	sep := func(ds bool) string {
		if !ds {
			return "/"
		}
		if m.Abbrev {
			return "//"
		}
		return "/descendant-or-self::node()/"
	}
	if p.Base != nil {
		b.WriteString(p.Base.Str(m))
	}
	for i, s := range p.Steps {
		if i > 0 || p.Abs || p.Base != nil {
			b.WriteString(sep(s.DSlash))
		} else if s.DSlash {
			// a relative path cannot start with '//': spell the step out
			b.WriteString("descendant-or-self::node()/")
		}
		b.WriteString(stepStr(s, m))
	}
	if p.Abs && len(p.Steps) == 0 {
		b.WriteString("/")
	}
	return b.String()
}

type Bin struct {
	Op   string
	L, R Ex
}

func (x Bin) Str(m Mode) string {
	alpha := x.Op[0] >= 'a' && x.Op[0] <= 'z'
	if alpha || m.Spaces > 0 || x.Op == "-" || x.Op == "*" {
		return x.L.Str(m) + " " + x.Op + " " + x.R.Str(m)
	}
	return x.L.Str(m) + x.Op + x.R.Str(m)
}

type Neg struct{ E Ex }

func (x Neg) Str(m Mode) string { return "-" + x.E.Str(m) }

type Call struct {
	Name string
	Args []Ex
}

func (x Call) Str(m Mode) string {
	var a []string
	for _, e := range x.Args {
		a = append(a, e.Str(m))
	}
	return x.Name + "(" + strings.Join(a, ",") + ")"
}

type Num struct{ Text string }

func (x Num) Str(Mode) string { return x.Text }

type Str struct{ S string }

func (x Str) Str(Mode) string {
	if strings.Contains(x.S, "'") {
		return `"` + x.S + `"`
	}
	return "'" + x.S + "'"
}

type Paren struct{ E Ex }

func (x Paren) Str(m Mode) string { return "(" + x.E.Str(m) + ")" }

// Raw is spliced in verbatim.
type Raw struct{ S string }

func (x Raw) Str(Mode) string { return x.S }

// Features collects what an expression exercises (input distribution).
func Features(e Ex, out map[string]int) {
	switch x := e.(type) {
	case Path:
		if x.Abs {
			out["abs"]++
		}
		if x.Base != nil {
			Features(x.Base, out)
		}
		for _, s := range x.Steps {
			out["axis:"+s.Axis]++
			if s.DSlash {
				out["//"]++
			}
			t := s.Test
			if !strings.HasSuffix(t, "()") && t != "*" {
				t = "name"
			}
			out["test:"+t]++
			for _, p := range s.Preds {
				out["pred"]++
				Features(p, out)
			}
		}
	case Bin:
		out["op:"+x.Op]++
		Features(x.L, out)
		Features(x.R, out)
	case Neg:
		out["op:neg"]++
		Features(x.E, out)
	case Call:
		out["fn:"+x.Name]++
		for _, a := range x.Args {
			Features(a, out)
		}
	case Num:
		out["num"]++
	case Str:
		out["str"]++
	case Paren:
		out["paren"]++
		Features(x.E, out)
	}
}
