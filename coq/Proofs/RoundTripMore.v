(* Proofs/RoundTripMore.v — C10, syntax outside the round-trip datatype of
   RoundTripPaths.v (whose tokens are integers, single-quoted strings,
   unprefixed names and punctuation):

       decimal numbers      12.5   5.   .5
       double-quoted string literals   "it's"
       qualified names in a step       p:a      (and  p:*  alone)
       the bare  /                      as an operand

   The token type of ScanTokens.v cannot be extended from outside, so each new
   form X is treated as the LEFTMOST LEAF of a text:

       X                           parse = Ok (leaf tree)
       X op E                      parse = Ok (AOp op (leaf tree) (xast E))

   for every one of the 14 binary operators op (all tiers) and every
   expression E of the round-trip grammar that may stand to the right of op,
   in every admissible white-space layout of  op E .  After the scanner has
   read X the rest of the text is a token layout again and the judgements of
   RoundTripOps / RoundTripPaths take over ([leaf_binop]).

   Not covered (would need the extended token type inside ScanTokens.v): a
   new-form leaf to the RIGHT of an operator or inside brackets, e.g.
   a = 12.5 ,  f("x") ,  a/p:b . *)
From XP Require Import Base F64 Doc Ast Scan Parse.
From XP.Proofs Require Import ParseTerm ParseAssoc ParseReject ScanTokens RoundTripOps RoundTripPaths
                              NameTest EndToEndName.
Require Import Lia NArith.
Open Scope nat_scope.
Open Scope string_scope.
Open Scope list_scope.

(* ------------------------------------------------------------------ *)
(** * 1. A leaf in front of a token layout                              *)
(* ------------------------------------------------------------------ *)

Section Generic.
Variable ns : nsmap.

(* climbing down the levels when the operand is followed by a token that no
   level in between takes as its operator *)
Lemma lev_climb : forall f n st0 a st1 hi,
  lev ns hi f n st0 = Ok (a, st1) -> hi <= 8 -> 1 <= f ->
  forall lo, lo <= hi ->
  (forall j, lo <= j -> j < hi -> bin_lvl j = true -> gop j st1 = None) ->
  (lo <= 6 -> 6 < hi -> typ st0 <> IMinus) ->
  lev ns lo f n st0 = Ok (a, st1).
Proof.
  intros f n st0 a st1 hi H Hhi Hf lo Hlo.
  remember (hi - lo) as x eqn:Ex. revert lo Hlo Ex.
  induction x as [|x IH]; intros lo Hlo Ex Hg Hm.
  - assert (lo = hi) by lia. subst lo. exact H.
  - assert (HS : lev ns (S lo) f n st0 = Ok (a, st1)).
    { apply IH; [lia|lia| |].
      - intros j H1 H2 H3. apply Hg; [lia|exact H2|exact H3].
      - intros H1 H2. apply Hm; [lia|exact H2]. }
    destruct (Nat.eq_dec lo 6) as [->|Hne].
    + rewrite lev_6. destruct f as [|g]; [lia|].
      rewrite (minus_loop_stop g false st0 (Hm (le_n _) ltac:(lia))). cbn [cbind].
      rewrite HS. reflexivity.
    + assert (Hb : bin_lvl lo = true)
        by (destruct lo as [|[|[|[|[|[|[|[|lo]]]]]]]]; try reflexivity; lia).
      rewrite lev_bin by exact Hb. unfold bin_level. rewrite HS. cbn [cbind].
      destruct f as [|g]; [lia|]. cbn [bin_loop]. rewrite (Hg lo (le_n _) ltac:(lia) Hb). reflexivity.
Qed.

Lemma gop_eof : forall k st, typ st = IEOF -> gop k st = None.
Proof.
  intros k st H. destruct (eof_ops st H) as (O1 & O2 & O3 & O4 & O5 & O6 & O7).
  destruct k as [|[|[|[|[|[|k]]]]]]; cbn [gop]; assumption.
Qed.

(* what the leaf X has to provide: the scanner state [s1] on it, the state
   [s2] after it, and the tree the path level returns for it *)
Definition leaf_parses (s1 : sstate) (a : anode) (s2 : sstate) : Prop :=
  s_typ s1 <> IMinus /\
  forall f n d, 3 <= f ->
    path_expr_b f (pgo ns f EExpr) (pgo ns f EStep) n (mkP s1 d) = Ok (a, mkP s2 d).

(** X alone *)
Theorem leaf_alone : forall text s1 a s2,
  next_item (init_scanner text) = Ok s1 -> leaf_parses s1 a s2 -> s_typ s2 = IEOF ->
  parse text ns = Ok a.
Proof.
  intros text s1 a s2 H1 [Hm Hp] He.
  unfold parse, parse_fuel. rewrite H1. cbn [cbind].
  replace (default_fuel text) with (S (S (S (S (2 * String.length text + 4))))) by (unfold default_fuel; lia).
  set (f := S (S (S (2 * String.length text + 4)))).
  rewrite pgo_expr_lev. cbv zeta. cbn [p_d p_s]. change (Nat.ltb max_depth 1) with false. cbv iota.
  assert (H8 : lev ns 8 f None (mkP s1 1) = Ok (a, mkP s2 1)) by (apply Hp; unfold f; lia).
  rewrite (lev_climb f None (mkP s1 1) a (mkP s2 1) 8 H8 (le_n _) ltac:(unfold f; lia) 0 ltac:(lia)).
  - cbn [cbind p_s p_d Nat.sub]. unfold check_item, is_typ, typ. cbn [p_s]. rewrite He. reflexivity.
  - intros j _ _ _. apply gop_eof. exact He.
  - intros _ _. exact Hm.
Qed.

(** X op E *)
Theorem leaf_binop : forall text s1 a s2 w top lts we E k,
  next_item (init_scanner text) = Ok s1 -> leaf_parses s1 a s2 ->
  St s2 top (lts ++ [(we, TEOF)]) -> lay_ok ((w, top) :: lts ++ [(we, TEOF)]) = true ->
  map snd lts = xtoks E -> xwf E -> xdepth E < max_depth ->
  oplevel top = Some k -> bin_lvl k = true -> k < xlvl E ->
  List.length (xtoks E) + 2 <= String.length text ->
  parse text ns = Ok (AOp (opstr top) a (xast E)).
Proof.
  intros text s1 a s2 w top lts we E k H1 [Hm Hp] HS Hlay Hmap Hwf Hd Hop Hk Hlev Hlen.
  pose proof (lay_ok_cons _ _ _ Hlay) as [_ [Htop [_ [_ Hlr]]]].
  unfold parse, parse_fuel. rewrite H1. cbn [cbind].
  replace (default_fuel text) with (S (2 * String.length text + 7)) by (unfold default_fuel; lia).
  set (f := 2 * String.length text + 7).
  assert (Hf : List.length (xtoks E) + 4 <= f) by (unfold f; lia).
  rewrite pgo_expr_lev. cbv zeta. cbn [p_d p_s]. change (Nat.ltb max_depth 1) with false. cbv iota.
  set (st0 := mkP s1 1). set (st2 := mkP s2 1).
  assert (HA2 : AtL st2 1 ((w, top) :: lts ++ [(we, TEOF)])).
  { cbn [AtL]. unfold At, st2. cbn [p_s p_d]. auto. }
  (* the leaf, down to the operand level of op *)
  assert (H8 : lev ns 8 f None st0 = Ok (a, st2)) by (apply Hp; lia).
  assert (HSk : lev ns (S k) f None st0 = Ok (a, st2)).
  { apply (lev_climb f None st0 a st2 8 H8 (le_n _) ltac:(lia) (S k));
      [destruct k as [|[|[|[|[|[|[|[|k]]]]]]]]; try discriminate Hk; lia| |intros _ _; exact Hm].
    intros j Hj1 Hj2 Hjb. rewrite (gop_At j _ _ _ _ _ Hjb HA2). rewrite Hop. cbn [opt_nat_eqb].
    replace (Nat.eqb k j) with false by (symmetry; apply Nat.eqb_neq; lia). reflexivity. }
  (* the operator and its right operand *)
  assert (Hne : lts ++ [(we, TEOF)] <> []) by (destruct lts; discriminate).
  destruct (pnext_At _ _ _ _ _ HA2 Hne) as [st3 [Hn3 HA3]].
  destruct (proj1 (px_parses_all ns) E Hwf) as [HPE _].
  assert (HPS : Parses ns (S k) (xdepth E) (xtoks E) (xast E)).
  { eapply Parses_down; [apply xtoks_ne| |apply xlvl_le_8|exact HPE|lia].
    intros H7. apply xtoks_hd; assumption. }
  destruct (HPS f None 1 st3 lts [(we, TEOF)]) as [st4 [Hp4 HA4]];
    [lia|unfold max_depth in *; lia|exact Hmap|exact HA3|reflexivity|].
  assert (He4 : typ st4 = IEOF) by (apply (typ_At _ _ _ _ _ HA4)).
  assert (Hk0 : lev ns k f None st0 = Ok (AOp (opstr top) a (xast E), st4)).
  { rewrite lev_bin by exact Hk. unfold bin_level. rewrite HSk. cbn [cbind].
    destruct f as [|[|g]] eqn:Ef; try lia. cbn [bin_loop].
    assert (Hg : gop k st2 = Some (opstr top)).
    { rewrite (gop_At k _ _ _ _ _ Hk HA2). rewrite Hop. cbn [opt_nat_eqb]. rewrite Nat.eqb_refl. reflexivity. }
    rewrite Hg, Hn3. cbn [cbind]. rewrite Hp4. cbn [cbind]. rewrite (gop_eof k st4 He4). reflexivity. }
  rewrite (lev_climb f None st0 _ st4 k Hk0 ltac:(destruct k as [|[|[|[|[|[|[|[|k]]]]]]]]; try discriminate Hk; lia)
             ltac:(lia) 0 ltac:(lia)).
  - cbn [cbind]. unfold check_item, is_typ, typ. cbn [p_s]. unfold typ in He4. rewrite He4. reflexivity.
  - intros j _ _ _. apply gop_eof. exact He4.
  - intros _ _. exact Hm.
Qed.

(* ---- the four kinds of leaf at the path level ---- *)

Definition tail_ok (t : itype) : Prop := t <> ILBracket /\ t <> ISlash /\ t <> ISlashSlash.

Lemma tail_after : forall f o st2, 1 <= f -> tail_ok (typ st2) ->
  pred_loop f (pgo ns f EExpr) o st2 = Ok (o, st2) /\
  match typ st2 with
  | ISlash => let* st3 := pnext st2 in relpath_loop f (pgo ns f EStep) (Some o) st3
  | ISlashSlash => let* st3 := pnext st2 in relpath_loop f (pgo ns f EStep) (Some (dos_node (Some o))) st3
  | _ => Ok (o, st2)
  end = Ok (o, st2).
Proof.
  intros f o st2 Hf (H1 & H2 & H3). split.
  - destruct f as [|g]; [lia|]. cbn [pred_loop]. rewrite (is_typ_false st2 ILBracket H1). reflexivity.
  - destruct (typ st2); try reflexivity; congruence.
Qed.

(* a number or a string literal: a primary expression *)
Lemma leaf_literal : forall s1 s2 a,
  (s_typ s1 = INumber /\ a = ANum (s_numval s1)) \/ (s_typ s1 = IString /\ a = AStr (s_strval s1)) ->
  next_item s1 = Ok s2 -> tail_ok (s_typ s2) -> leaf_parses s1 a s2.
Proof.
  intros s1 s2 a Hk Hn Ht. split; [destruct Hk as [[E _]|[E _]]; rewrite E; discriminate|].
  intros f n d Hf.
  assert (Hpn : pnext (mkP s1 d) = Ok (mkP s2 d)) by (unfold pnext; cbn [p_s p_d]; rewrite Hn; reflexivity).
  destruct (tail_after f a (mkP s2 d) ltac:(lia) Ht) as [T1 T2].
  unfold path_expr_b, is_primary_expr, filter_expr_b, primary_b.
  destruct Hk as [[E ->]|[E ->]]; unfold typ; cbn [p_s]; rewrite E; cbv zeta; rewrite Hpn; cbn [cbind];
    rewrite T1; cbn [cbind]; exact T2.
Qed.

(* a name test (possibly prefixed) as a one-step relative path *)
Lemma leaf_name_step : forall s1 s2 o,
  s_typ s1 = IName -> s_canfunc s1 = false ->
  (forall n d, parse_node_test ns n "child" NTElem (mkP s1 d) = Ok (o n, mkP s2 d)) ->
  tail_ok (s_typ s2) -> leaf_parses s1 (o None) s2.
Proof.
  intros s1 s2 o Ht Hc Hp Htl. split; [rewrite Ht; discriminate|].
  intros f n d Hf.
  destruct f as [|[|g]]; try lia.
  destruct (tail_after (S g) (o None) (mkP s2 d) ltac:(lia) Htl) as [T1 _].
  unfold path_expr_b, is_primary_expr, typ. cbn [p_s]. rewrite Ht, Hc. cbn [andb].
  unfold location_path_b, typ. cbn [p_s]. rewrite Ht. cbn [relpath_loop].
  rewrite pgo_S_step. unfold step_b, is_typ, typ. cbn [p_s]. rewrite Ht. cbn [itype_eqb orb cbind].
  cbv zeta. cbn [String.eqb Ascii.eqb Bool.eqb]. rewrite Hp. cbn [cbind].
  rewrite T1. cbn [cbind]. destruct Htl as (H1 & H2 & H3).
  unfold typ in *. cbn [p_s] in *. destruct (s_typ s2); try reflexivity; congruence.
Qed.

(* the bare  /  : the next token does not start a step *)
Lemma leaf_root : forall s1 s2,
  s_typ s1 = ISlash -> next_item s1 = Ok s2 -> is_step (s_typ s2) = false ->
  leaf_parses s1 (ARoot "/") s2.
Proof.
  intros s1 s2 Ht Hn Hs. split; [rewrite Ht; discriminate|].
  intros f n d Hf.
  assert (Hpn : pnext (mkP s1 d) = Ok (mkP s2 d)) by (unfold pnext; cbn [p_s p_d]; rewrite Hn; reflexivity).
  unfold path_expr_b, is_primary_expr, typ. cbn [p_s]. rewrite Ht.
  unfold location_path_b, typ. cbn [p_s]. rewrite Ht. rewrite Hpn. cbn [cbind p_s]. rewrite Hs. reflexivity.
Qed.

End Generic.

(* ------------------------------------------------------------------ *)
(** * 2. From a scanner fact about X to the two round-trip statements   *)
(* ------------------------------------------------------------------ *)

(* the scanner, started on the text  X ++ R , stops on X in the state [mk R]
   with R still to be read -- for every rest R that [sepR] allows *)
Definition scans (X : list ascii) (sepR : list ascii -> bool) (mk : list ascii -> sstate) : Prop :=
  forall R, sepR R = true ->
    next_item (init_scanner (string_of_list (X ++ R))) = Ok (mk R) /\
    skipsp (s_rest (mk R)) = skipsp R /\ s_name (mk R) <> "*".

Lemma op_token_typ : forall top k, oplevel top = Some k -> tok_ok top = true ->
  tail_ok (ttyp top) /\ is_step (ttyp top) = match top with TName _ => true | TP IStar => true | _ => false end.
Proof.
  intros top k H Hok. destruct top as [| |nm| |p|]; try discriminate H.
  - split; [repeat split; discriminate|reflexivity].
  - destruct p; try discriminate H; split; try reflexivity; repeat split; discriminate.
Qed.

Section Wrap.
Variable ns : nsmap.

Theorem more_alone : forall X sepR mk a (okt : itype -> Prop),
  scans X sepR mk ->
  (forall R s2, sepR R = true -> next_item (mk R) = Ok s2 -> s_name s2 <> "*" -> okt (s_typ s2) ->
     leaf_parses ns (mk R) a s2) ->
  okt IEOF ->
  forall we, forallb ws_char we = true -> sepR we = true ->
  parse (string_of_list (X ++ we)) ns = Ok a.
Proof.
  intros X sepR mk a okt Hsc Hleaf Hok we Hwe Hsep.
  destruct (Hsc we Hsep) as (H1 & Hrest & Hstar).
  assert (Hlay : lay_ok [(we, TEOF)] = true) by (cbn; rewrite Hwe; reflexivity).
  destruct (next_item_tok (mk we) we TEOF [] ) as [s2 [Hn HS]]; [|exact Hlay|exact Hstar|].
  { rewrite Hrest. unfold norm. cbn [render]. rewrite app_nil_r. reflexivity. }
  pose proof (st_typ _ _ _ HS) as Ht. cbn [ttyp] in Ht.
  apply (leaf_alone ns _ (mk we) a s2 H1); [|exact Ht].
  apply (Hleaf we s2 Hsep Hn (st_star _ _ _ HS)). rewrite Ht. exact Hok.
Qed.

Theorem more_binop : forall X sepR mk a (okt : itype -> Prop),
  X <> [] -> scans X sepR mk ->
  (forall R s2, sepR R = true -> next_item (mk R) = Ok s2 -> s_name s2 <> "*" -> okt (s_typ s2) ->
     leaf_parses ns (mk R) a s2) ->
  forall w top lts we E k,
  lay_ok ((w, top) :: lts ++ [(we, TEOF)]) = true ->
  sepR (render ((w, top) :: lts ++ [(we, TEOF)])) = true -> okt (ttyp top) ->
  map snd lts = xtoks E -> xwf E -> xdepth E < max_depth ->
  oplevel top = Some k -> bin_lvl k = true -> k < xlvl E ->
  parse (string_of_list (X ++ render ((w, top) :: lts ++ [(we, TEOF)]))) ns
    = Ok (AOp (opstr top) a (xast E)).
Proof.
  intros X sepR mk a okt HX Hsc Hleaf w top lts we E k Hlay Hsep Hokt Hmap Hwf Hd Hop Hk Hlev.
  set (L := (w, top) :: lts ++ [(we, TEOF)]) in *.
  destruct (Hsc (render L) Hsep) as (H1 & Hrest & Hstar).
  destruct (next_item_tok (mk (render L)) w top (lts ++ [(we, TEOF)])) as [s2 [Hn HS]];
    [rewrite Hrest; reflexivity|exact Hlay|exact Hstar|].
  pose proof (st_typ _ _ _ HS) as Ht.
  apply (leaf_binop ns _ (mk (render L)) a s2 w top lts we E k H1); try assumption.
  - apply (Hleaf _ s2 Hsep Hn (st_star _ _ _ HS)). rewrite Ht. exact Hokt.
  - rewrite length_string_of_list, app_length.
    pose proof (lay_len L Hlay) as Hl. unfold L in Hl at 1. cbn [List.length] in Hl.
    rewrite app_length in Hl. cbn [List.length] in Hl. rewrite <- Hmap, map_length.
    destruct X; [congruence|cbn [List.length]; lia].
Qed.

End Wrap.

(* ------------------------------------------------------------------ *)
(** * 3. The scanner on the new forms                                   *)
(* ------------------------------------------------------------------ *)

Definition dot_c : ascii := "."%char.
Definition dq_c : ascii := """"%char.
Definition slash_c : ascii := "/"%char.

Definition next_not_digit (R : list ascii) : bool :=
  match R with [] => true | c :: _ => not_digit_hd c end.

Lemma hd_ok_of_bool : forall (P : ascii -> bool) R,
  match R with [] => true | c :: _ => P c end = true -> hd_ok P R.
Proof. intros P [|c R] H; [exact I|exact H]. Qed.

Lemma digit_head : forall c ds, forallb digit_char_b (c :: ds) = true -> (48 <= bN c <= 57)%N.
Proof. intros c ds H. cbn [forallb] in H. apply andb_prop in H. destruct H as [H _]. nb. lia. Qed.

(* ---- decimal numbers  ip . fp  (ip not empty; fp may be empty:  "5." ) ---- *)
Definition st_number (v : f64) (R : list ascii) : sstate := mkS R INumber "" "" "" v false.

Theorem scans_decimal : forall ip fp,
  ip <> [] -> forallb digit_char_b ip = true -> forallb digit_char_b fp = true ->
  not_inf (of_decimal false ip fp) = true ->
  scans (ip ++ dot_c :: fp) next_not_digit (st_number (of_decimal false ip fp)).
Proof.
  intros ip fp Hne Hip Hfp Hinf R HR.
  split; [|split; [reflexivity|discriminate]].
  destruct ip as [|c ip']; [congruence|].
  pose proof (digit_head c ip' Hip) as Hr.
  assert (Hc : digit_char_b c = true) by (cbn [forallb] in Hip; apply andb_prop in Hip; tauto).
  assert (El : ((c :: ip') ++ dot_c :: fp) ++ R = (c :: ip') ++ dot_c :: (fp ++ R))
    by (rewrite <- app_assoc; reflexivity).
  assert (Hsk : skipsp ((c :: ip') ++ dot_c :: (fp ++ R)) = (c :: ip') ++ dot_c :: (fp ++ R)).
  { apply skipsp_nonsp. cbn [app hd_ok]. unfold nonsp, asc, space_rune_ascii.
    replace (N.ltb (bN c) 128) with true by (symmetry; apply N.ltb_lt; lia).
    replace (N.leb (bN c) 13) with false by (symmetry; apply N.leb_gt; lia).
    replace (N.eqb (bN c) 32) with false by (symmetry; apply N.eqb_neq; lia).
    rewrite Bool.andb_false_r. reflexivity. }
  assert (Hcur : cur ((c :: ip') ++ dot_c :: (fp ++ R)) = bN c) by (cbn [app]; apply cur_cons; lia).
  unfold next_item, init_scanner. cbn [s_rest s_name s_prefix s_strval s_numval s_canfunc].
  rewrite list_of_string_of_list, El. cbv zeta. rewrite Hsk, Hcur.
  repeat match goal with
  | |- context [N.eqb (bN c) ?k] => rewrite (proj2 (N.eqb_neq (bN c) k)) by lia
  end.
  cbv iota. cbn [orb]. rewrite (digit_char_rune c Hc).
  unfold scan_number. cbv zeta.
  rewrite scan_digits_spec; [|exact Hip|vm_compute; reflexivity|rewrite app_length; lia].
  cbn [app].
  replace (cur (dot_c :: fp ++ R)) with 46%N by (symmetry; apply cur_cons; vm_compute; reflexivity).
  cbn [N.eqb Pos.eqb].
  replace (advance (dot_c :: fp ++ R)) with (fp ++ R) by (symmetry; apply advance_cons; vm_compute; reflexivity).
  rewrite scan_digits_spec; [|exact Hfp|apply hd_ok_of_bool; exact HR|
    cbn [List.length]; rewrite !app_length; cbn [List.length]; rewrite app_length; lia].
  cbn [app andb]. unfold finish_number.
  destruct (of_decimal false (c :: ip') fp) eqn:Ev; try reflexivity. discriminate Hinf.
Qed.

(* ---- .fp ---- *)
Theorem scans_fraction : forall fp,
  fp <> [] -> forallb digit_char_b fp = true -> not_inf (of_decimal false [] fp) = true ->
  scans (dot_c :: fp) next_not_digit (st_number (of_decimal false [] fp)).
Proof.
  intros fp Hne Hfp Hinf R HR.
  split; [|split; [reflexivity|discriminate]].
  destruct fp as [|c fp']; [congruence|].
  pose proof (digit_head c fp' Hfp) as Hr.
  assert (Hc : digit_char_b c = true) by (cbn [forallb] in Hfp; apply andb_prop in Hfp; tauto).
  set (l := (dot_c :: c :: fp') ++ R).
  assert (Hsk : skipsp l = l) by (apply skipsp_nonsp; vm_compute; reflexivity).
  unfold next_item, init_scanner. cbn [s_rest s_name s_prefix s_strval s_numval s_canfunc].
  rewrite list_of_string_of_list. fold l. cbv zeta. rewrite Hsk.
  replace (cur l) with 46%N by (symmetry; unfold l; apply cur_cons; vm_compute; reflexivity).
  cbn [N.eqb Pos.eqb].
  replace (advance l) with ((c :: fp') ++ R) by (symmetry; unfold l; apply advance_cons; vm_compute; reflexivity).
  replace (cur ((c :: fp') ++ R)) with (bN c) by (symmetry; cbn [app]; apply cur_cons; lia).
  rewrite (proj2 (N.eqb_neq (bN c) 46)) by lia. rewrite (digit_char_rune c Hc).
  unfold scan_fraction.
  rewrite scan_digits_spec; [|exact Hfp|apply hd_ok_of_bool; exact HR|rewrite app_length; lia].
  cbn [app]. unfold finish_number.
  destruct (of_decimal false [] (c :: fp')) eqn:Ev; try reflexivity. discriminate Hinf.
Qed.

(* ---- "body" ---- *)
Definition dq_char (c : ascii) : bool := andb (asc c) (negb (N.eqb (bN c) 34)).
Definition st_string (b : string) (R : list ascii) : sstate := mkS R IString "" "" b fzero false.

Lemma scan_dq_loop : forall body f acc rest,
  forallb dq_char body = true -> List.length body < f ->
  scan_string_loop f 34 (body ++ dq_c :: rest) acc = Some (acc ++ body, rest).
Proof.
  induction body as [|c body IH]; intros f acc rest Hb Hf.
  - destruct f as [|f]; [cbn in Hf; lia|]. cbn [app scan_string_loop].
    rewrite cur_cons by (vm_compute; reflexivity).
    rewrite advance_cons by (vm_compute; reflexivity).
    rewrite app_nil_r. reflexivity.
  - cbn [forallb] in Hb. apply andb_prop in Hb. destruct Hb as [Hc Hb].
    destruct f as [|f]; [cbn in Hf; lia|]. cbn [app scan_string_loop].
    unfold dq_char in Hc. apply andb_prop in Hc. destruct Hc as [Ha Hq].
    apply asc_lt in Ha. rewrite cur_cons by exact Ha.
    apply Bool.negb_true_iff in Hq. rewrite Hq.
    rewrite advance_cons, cur_size_cons by exact Ha. cbn [firstn].
    rewrite IH; [|exact Hb|cbn in Hf; lia].
    rewrite <- app_assoc. reflexivity.
Qed.

Theorem scans_dq_string : forall b,
  forallb dq_char (list_of_string b) = true ->
  scans (dq_c :: list_of_string b ++ [dq_c]) (fun _ => true) (st_string b).
Proof.
  intros b Hb R _. split; [|split; [reflexivity|discriminate]].
  set (l := (dq_c :: list_of_string b ++ [dq_c]) ++ R).
  assert (Hsk : skipsp l = l) by (apply skipsp_nonsp; vm_compute; reflexivity).
  assert (El : l = dq_c :: list_of_string b ++ dq_c :: R).
  { unfold l. cbn [app]. rewrite <- app_assoc. reflexivity. }
  unfold next_item, init_scanner. cbn [s_rest s_name s_prefix s_strval s_numval s_canfunc].
  rewrite list_of_string_of_list. fold l. cbv zeta. rewrite Hsk.
  replace (cur l) with 34%N by (symmetry; rewrite El; apply cur_cons; vm_compute; reflexivity).
  cbn [N.eqb Pos.eqb orb].
  unfold scan_string.
  replace (cur l) with 34%N by (symmetry; rewrite El; apply cur_cons; vm_compute; reflexivity).
  replace (advance l) with (list_of_string b ++ dq_c :: R)
    by (symmetry; rewrite El; apply advance_cons; vm_compute; reflexivity).
  rewrite scan_dq_loop; [|exact Hb|rewrite El; cbn [List.length]; rewrite app_length; lia].
  cbn [app]. rewrite string_of_list_of_string. reflexivity.
Qed.

(* ---- pfx:name ---- *)
Definition st_qname (pfx nm : string) (R : list ascii) : sstate :=
  mkS (skipsp R) IName nm pfx "" fzero (N.eqb (cur (skipsp R)) 40).
Definition sep_qname (R : list ascii) : bool :=
  andb (match R with [] => true | c :: _ => not_name_hd c end)
       (negb (N.eqb (cur (skipsp R)) 40)).

Theorem scans_qname : forall pfx nm,
  name_ok pfx = true -> name_ok nm = true ->
  scans (list_of_string pfx ++ colon :: list_of_string nm) sep_qname (st_qname pfx nm).
Proof.
  intros pfx nm Hp Hn R HR. unfold sep_qname in HR. apply andb_prop in HR. destruct HR as [HR1 HR2].
  split; [|split; [cbn [st_qname s_rest]; apply skipsp_idem|cbn [st_qname s_name]; apply name_not_star; exact Hn]].
  set (s := init_scanner (string_of_list ((list_of_string pfx ++ colon :: list_of_string nm) ++ R))).
  assert (Hs : s_rest s = list_of_string pfx ++ colon :: (list_of_string nm ++ R)).
  { unfold s, init_scanner. cbn [s_rest]. rewrite list_of_string_of_list, <- app_assoc. reflexivity. }
  rewrite (next_item_name_prefix s pfx (colon :: list_of_string nm ++ R) Hp (proj2 (proj2 (colon_facts _))) Hs).
  cbv zeta.
  destruct (colon_facts (list_of_string nm ++ R)) as (C1 & A1 & _). rewrite C1, A1. cbn [N.eqb Pos.eqb].
  destruct (name_ok_head nm Hn) as (c & r & E & Hc & Hnc).
  assert (Hcur : cur (list_of_string nm ++ R) = bN c) by (rewrite E; cbn [app]; apply cur_cons; lia).
  rewrite Hcur.
  rewrite (proj2 (N.eqb_neq (bN c) 58)) by lia. rewrite (proj2 (N.eqb_neq (bN c) 42)) by lia.
  rewrite (name_char_rune c Hnc).
  rewrite (scan_name_spec nm R Hn (hd_ok_of_bool _ R HR1)). reflexivity.
Qed.

(* ---- the bare / ---- *)
Definition st_slash (R : list ascii) : sstate := mkS R ISlash "" "" "" fzero false.
Definition sep_slash (R : list ascii) : bool := negb (N.eqb (cur R) 47).

Theorem scans_slash : scans [slash_c] sep_slash st_slash.
Proof.
  intros R HR. split; [|split; [reflexivity|discriminate]].
  unfold sep_slash in HR. apply Bool.negb_true_iff in HR.
  set (l := [slash_c] ++ R).
  assert (Hsk : skipsp l = l) by (apply skipsp_nonsp; vm_compute; reflexivity).
  unfold next_item, init_scanner. cbn [s_rest s_name s_prefix s_strval s_numval s_canfunc].
  rewrite list_of_string_of_list. fold l. cbv zeta. rewrite Hsk.
  replace (cur l) with 47%N by (symmetry; unfold l; apply cur_cons; vm_compute; reflexivity).
  cbn [N.eqb Pos.eqb].
  replace (advance l) with R by (symmetry; unfold l; apply advance_cons; vm_compute; reflexivity).
  rewrite HR. reflexivity.
Qed.

(* ------------------------------------------------------------------ *)
(** * 4. The round-trip statements for the new forms                    *)
(* ------------------------------------------------------------------ *)

(* what may stand to the right of the leaf:  op E  in the layout L *)
Record rhs (w : list ascii) (top : token) (lts : layout) (we : list ascii) (E : px) (k : nat) : Prop := {
  rhs_lay : lay_ok ((w, top) :: lts ++ [(we, TEOF)]) = true;
  rhs_map : map snd lts = xtoks E;
  rhs_wf : xwf E;
  rhs_depth : xdepth E < max_depth;
  rhs_op : oplevel top = Some k;
  rhs_bin : bin_lvl k = true;
  rhs_lvl : k < xlvl E }.

Definition rhs_text (w : list ascii) (top : token) (lts : layout) (we : list ascii) : list ascii :=
  render ((w, top) :: lts ++ [(we, TEOF)]).

Lemma ws_not_digit_rest : forall we, forallb ws_char we = true -> next_not_digit we = true.
Proof.
  intros [|c we] H; [reflexivity|]. cbn [forallb] in H. apply andb_prop in H. destruct H as [H _].
  cbn [next_not_digit]. unfold ws_char, not_digit_hd, asc, space_rune_ascii, digit_rune_ascii in *.
  apply andb_prop in H. destruct H as [Ha Hs]. rewrite Ha. cbn [andb].
  apply Bool.negb_true_iff. apply Bool.andb_false_iff. left. apply N.leb_gt.
  apply Bool.orb_prop in Hs. destruct Hs as [Hs|Hs].
  - apply andb_prop in Hs. destruct Hs as [_ Hs]. apply N.leb_le in Hs. lia.
  - apply N.eqb_eq in Hs. rewrite Hs. lia.
Qed.

Section Final.
Variable ns : nsmap.

Lemma rhs_tail : forall w top lts we E k, rhs w top lts we E k -> tail_ok (ttyp top).
Proof.
  intros w top lts we E k H. pose proof (lay_ok_cons _ _ _ (rhs_lay _ _ _ _ _ _ H)) as [_ [Ht _]].
  apply (proj1 (op_token_typ top k (rhs_op _ _ _ _ _ _ H) Ht)).
Qed.

(* ---- numbers ---- *)
Lemma number_leaf : forall v R s2, next_item (st_number v R) = Ok s2 -> tail_ok (s_typ s2) ->
  leaf_parses ns (st_number v R) (ANum v) s2.
Proof. intros v R s2 Hn Ht. apply leaf_literal; [left; split; reflexivity|exact Hn|exact Ht]. Qed.

Theorem RT_decimal_alone : forall ip fp we,
  ip <> [] -> forallb digit_char_b ip = true -> forallb digit_char_b fp = true ->
  not_inf (of_decimal false ip fp) = true -> forallb ws_char we = true ->
  parse (string_of_list ((ip ++ dot_c :: fp) ++ we)) ns = Ok (ANum (of_decimal false ip fp)).
Proof.
  intros ip fp we Hne Hip Hfp Hinf Hwe.
  apply (more_alone ns _ _ _ _ tail_ok (scans_decimal ip fp Hne Hip Hfp Hinf)).
  - intros R s2 _ Hn _ Ht. apply number_leaf; assumption.
  - repeat split; discriminate.
  - exact Hwe.
  - apply ws_not_digit_rest. exact Hwe.
Qed.

Theorem RT_decimal_binop : forall ip fp w top lts we E k,
  ip <> [] -> forallb digit_char_b ip = true -> forallb digit_char_b fp = true ->
  not_inf (of_decimal false ip fp) = true ->
  rhs w top lts we E k -> next_not_digit (rhs_text w top lts we) = true ->
  parse (string_of_list ((ip ++ dot_c :: fp) ++ rhs_text w top lts we)) ns
    = Ok (AOp (opstr top) (ANum (of_decimal false ip fp)) (xast E)).
Proof.
  intros ip fp w top lts we E k Hne Hip Hfp Hinf HR Hsep.
  assert (HX : ip ++ dot_c :: fp <> []) by (destruct ip; [congruence|cbn; discriminate]).
  apply (more_binop ns _ _ _ _ tail_ok HX
           (scans_decimal ip fp Hne Hip Hfp Hinf)) with (k := k); try apply HR; try exact Hsep.
  - intros R s2 _ Hn _ Ht. apply number_leaf; assumption.
  - apply (rhs_tail _ _ _ _ _ _ HR).
Qed.

Theorem RT_fraction_alone : forall fp we,
  fp <> [] -> forallb digit_char_b fp = true -> not_inf (of_decimal false [] fp) = true ->
  forallb ws_char we = true ->
  parse (string_of_list ((dot_c :: fp) ++ we)) ns = Ok (ANum (of_decimal false [] fp)).
Proof.
  intros fp we Hne Hfp Hinf Hwe.
  apply (more_alone ns _ _ _ _ tail_ok (scans_fraction fp Hne Hfp Hinf)).
  - intros R s2 _ Hn _ Ht. apply number_leaf; assumption.
  - repeat split; discriminate.
  - exact Hwe.
  - apply ws_not_digit_rest. exact Hwe.
Qed.

Theorem RT_fraction_binop : forall fp w top lts we E k,
  fp <> [] -> forallb digit_char_b fp = true -> not_inf (of_decimal false [] fp) = true ->
  rhs w top lts we E k -> next_not_digit (rhs_text w top lts we) = true ->
  parse (string_of_list ((dot_c :: fp) ++ rhs_text w top lts we)) ns
    = Ok (AOp (opstr top) (ANum (of_decimal false [] fp)) (xast E)).
Proof.
  intros fp w top lts we E k Hne Hfp Hinf HR Hsep.
  assert (HX : dot_c :: fp <> []) by discriminate.
  apply (more_binop ns _ _ _ _ tail_ok HX
           (scans_fraction fp Hne Hfp Hinf)) with (k := k); try apply HR; try exact Hsep.
  - intros R s2 _ Hn _ Ht. apply number_leaf; assumption.
  - apply (rhs_tail _ _ _ _ _ _ HR).
Qed.

(* ---- double-quoted strings ---- *)
Lemma string_leaf : forall b R s2, next_item (st_string b R) = Ok s2 -> tail_ok (s_typ s2) ->
  leaf_parses ns (st_string b R) (AStr b) s2.
Proof. intros b R s2 Hn Ht. apply leaf_literal; [right; split; reflexivity|exact Hn|exact Ht]. Qed.

Theorem RT_dq_string_alone : forall b we,
  forallb dq_char (list_of_string b) = true -> forallb ws_char we = true ->
  parse (string_of_list ((dq_c :: list_of_string b ++ [dq_c]) ++ we)) ns = Ok (AStr b).
Proof.
  intros b we Hb Hwe.
  apply (more_alone ns _ _ _ _ tail_ok (scans_dq_string b Hb)).
  - intros R s2 _ Hn _ Ht. apply string_leaf; assumption.
  - repeat split; discriminate.
  - exact Hwe.
  - reflexivity.
Qed.

Theorem RT_dq_string_binop : forall b w top lts we E k,
  forallb dq_char (list_of_string b) = true -> rhs w top lts we E k ->
  parse (string_of_list ((dq_c :: list_of_string b ++ [dq_c]) ++ rhs_text w top lts we)) ns
    = Ok (AOp (opstr top) (AStr b) (xast E)).
Proof.
  intros b w top lts we E k Hb HR.
  assert (HX : dq_c :: list_of_string b ++ [dq_c] <> []) by discriminate.
  apply (more_binop ns _ _ _ _ tail_ok HX (scans_dq_string b Hb)) with (k := k);
    try apply HR; try reflexivity.
  - intros R s2 _ Hn _ Ht. apply string_leaf; assumption.
  - apply (rhs_tail _ _ _ _ _ _ HR).
Qed.

(* ---- qualified names ---- *)

(* the tree of the step  pfx:nm : by prefix without a map, by URI with one *)
Definition qname_ast (pfx nm : string) : option anode :=
  match ns with
  | None => Some (AAxis "child" NTElem pfx nm "" false "" None)
  | Some m => match ns_lookup m pfx with
              | Some uri => Some (AAxis "child" NTElem pfx nm "" true uri None)
              | None => None
              end
  end.

Lemma qname_leaf : forall pfx nm a R s2,
  name_ok pfx = true -> name_ok nm = true -> qname_ast pfx nm = Some a ->
  sep_qname R = true -> next_item (st_qname pfx nm R) = Ok s2 -> s_name s2 <> "*" ->
  tail_ok (s_typ s2) -> leaf_parses ns (st_qname pfx nm R) a s2.
Proof.
  intros pfx nm a R s2 Hp Hn Ha Hsep Hnx Hstar Ht.
  unfold sep_qname in Hsep. apply andb_prop in Hsep. destruct Hsep as [_ Hc].
  apply Bool.negb_true_iff in Hc.
  assert (Hpe : pfx <> "") by (apply name_ok_nonempty; exact Hp).
  assert (Hstar' : String.eqb (s_name s2) "*" = false) by (apply String.eqb_neq; exact Hstar).
  assert (Hpn : forall d, pnext (mkP (st_qname pfx nm R) d) = Ok (mkP s2 d))
    by (intros d; unfold pnext; cbn [p_s p_d]; rewrite Hnx; reflexivity).
  assert (Hcf : forall d, andb (s_canfunc (p_s (mkP (st_qname pfx nm R) d))) (is_node_type (mkP (st_qname pfx nm R) d)) = false)
    by (intros d; cbn [p_s st_qname s_canfunc]; rewrite Hc; reflexivity).
  unfold qname_ast in Ha.
  destruct ns as [m|]; [destruct (ns_lookup m pfx) as [uri|] eqn:El; [|discriminate]|]; inversion Ha; subst a.
  - apply (leaf_name_step (Some m) (st_qname pfx nm R) s2 (fun n => AAxis "child" NTElem pfx nm "" true uri n));
      [reflexivity|cbn [st_qname s_canfunc]; exact Hc| |exact Ht].
    intros n d.
    rewrite (parse_node_test_bound n "child" NTElem (mkP (st_qname pfx nm R) d) (mkP s2 d)
               eq_refl (Hcf d) (Hpn d) m uri Hpe El).
    cbn [p_s st_qname s_name s_prefix]. rewrite Hstar'. reflexivity.
  - apply (leaf_name_step None (st_qname pfx nm R) s2 (fun n => AAxis "child" NTElem pfx nm "" false "" n));
      [reflexivity|cbn [st_qname s_canfunc]; exact Hc| |exact Ht].
    intros n d.
    rewrite (parse_node_test_no_map n "child" NTElem (mkP (st_qname pfx nm R) d) (mkP s2 d)
               eq_refl (Hcf d) (Hpn d)).
    cbn [p_s st_qname s_name s_prefix]. rewrite Hstar'. reflexivity.
Qed.

Theorem RT_qname_alone : forall pfx nm a,
  name_ok pfx = true -> name_ok nm = true -> qname_ast pfx nm = Some a ->
  parse (string_of_list ((list_of_string pfx ++ colon :: list_of_string nm) ++ [])) ns = Ok a.
Proof.
  intros pfx nm a Hp Hn Ha.
  apply (more_alone ns _ _ _ _ tail_ok (scans_qname pfx nm Hp Hn)).
  - intros R s2 Hsep Hnx Hstar Ht. apply qname_leaf; assumption.
  - repeat split; discriminate.
  - reflexivity.
  - reflexivity.
Qed.

Theorem RT_qname_binop : forall pfx nm a w top lts we E k,
  name_ok pfx = true -> name_ok nm = true -> qname_ast pfx nm = Some a ->
  rhs w top lts we E k -> sep_qname (rhs_text w top lts we) = true ->
  parse (string_of_list ((list_of_string pfx ++ colon :: list_of_string nm) ++ rhs_text w top lts we)) ns
    = Ok (AOp (opstr top) a (xast E)).
Proof.
  intros pfx nm a w top lts we E k Hp Hn Ha HR Hsep.
  assert (HX : list_of_string pfx ++ colon :: list_of_string nm <> [])
    by (destruct (list_of_string pfx); cbn; discriminate).
  apply (more_binop ns _ _ _ _ tail_ok HX
           (scans_qname pfx nm Hp Hn)) with (k := k); try apply HR; try exact Hsep.
  - intros R s2 Hs Hnx Hstar Ht. apply qname_leaf; assumption.
  - apply (rhs_tail _ _ _ _ _ _ HR).
Qed.

(* ---- the bare / ---- *)
Theorem RT_root_alone : forall we, forallb ws_char we = true ->
  parse (string_of_list ([slash_c] ++ we)) ns = Ok (ARoot "/").
Proof.
  intros we Hwe.
  apply (more_alone ns _ _ _ _ (fun t => is_step t = false) scans_slash).
  - intros R s2 _ Hn _ Ht. apply leaf_root; [reflexivity|exact Hn|exact Ht].
  - reflexivity.
  - exact Hwe.
  - destruct we as [|c we']; [reflexivity|]. cbn [forallb] in Hwe. apply andb_prop in Hwe.
    destruct Hwe as [Hc _]. unfold sep_slash. rewrite cur_cons by (apply asc_lt; apply ws_char_asc; exact Hc).
    apply Bool.negb_true_iff. apply N.eqb_neq. intros E.
    unfold ws_char, asc, space_rune_ascii in Hc. rewrite E in Hc. vm_compute in Hc. discriminate Hc.
Qed.

(* as the left operand of an operator that is not  *  and not a name (and or div mod):
   after "/" those would be read as a step *)
Theorem RT_root_binop : forall w top lts we E k,
  rhs w top lts we E k -> is_step (ttyp top) = false -> sep_slash (rhs_text w top lts we) = true ->
  parse (string_of_list ([slash_c] ++ rhs_text w top lts we)) ns = Ok (AOp (opstr top) (ARoot "/") (xast E)).
Proof.
  intros w top lts we E k HR Hst Hsep.
  assert (HX : [slash_c] <> []) by discriminate.
  apply (more_binop ns _ _ _ _ (fun t => is_step t = false) HX scans_slash) with (k := k);
    try apply HR; try exact Hsep; try exact Hst.
  intros R s2 _ Hn _ Ht. apply leaf_root; [reflexivity|exact Hn|exact Ht].
Qed.

(* ---- p:*  alone (its scanner state carries the name "*", so nothing can follow here);
        the local name of the test is EMPTY ---- *)
Theorem RT_qstar_alone : forall pfx a,
  name_ok pfx = true -> qname_ast pfx "" = Some a ->
  parse (string_of_list (list_of_string pfx ++ [colon; star_c])) ns = Ok a.
Proof.
  intros pfx a Hp Ha.
  set (text := string_of_list (list_of_string pfx ++ [colon; star_c])).
  assert (H1 : next_item (init_scanner text) = Ok (st_name pfx "*")).
  { apply (next_item_qstar (init_scanner text) pfx Hp). unfold text, init_scanner. cbn [s_rest].
    apply list_of_string_of_list. }
  assert (Hpe : pfx <> "") by (apply name_ok_nonempty; exact Hp).
  assert (Hpn : forall d, pnext (mkP (st_name pfx "*") d) = Ok (mkP (st_eof pfx "*") d)) by (intros d; reflexivity).
  assert (Ht : tail_ok (s_typ (st_eof pfx "*"))) by (repeat split; discriminate).
  apply (leaf_alone ns text (st_name pfx "*") a (st_eof pfx "*") H1); [|reflexivity].
  unfold qname_ast in Ha.
  destruct ns as [m|]; [destruct (ns_lookup m pfx) as [uri|] eqn:El; [|discriminate]|]; inversion Ha; subst a.
  - apply (leaf_name_step (Some m) (st_name pfx "*") (st_eof pfx "*")
             (fun n => AAxis "child" NTElem pfx "" "" true uri n) eq_refl eq_refl); [|exact Ht].
    intros n d. rewrite (parse_node_test_bound n "child" NTElem (mkP (st_name pfx "*") d) (mkP (st_eof pfx "*") d)
                           eq_refl eq_refl (Hpn d) m uri Hpe El). reflexivity.
  - apply (leaf_name_step None (st_name pfx "*") (st_eof pfx "*")
             (fun n => AAxis "child" NTElem pfx "" "" false "" n) eq_refl eq_refl); [|exact Ht].
    intros n d. rewrite (parse_node_test_no_map n "child" NTElem (mkP (st_name pfx "*") d) (mkP (st_eof pfx "*") d)
                           eq_refl eq_refl (Hpn d)). reflexivity.
Qed.

End Final.

Print Assumptions RT_decimal_alone.
Print Assumptions RT_decimal_binop.
Print Assumptions RT_fraction_binop.
Print Assumptions RT_dq_string_binop.
Print Assumptions RT_qname_binop.
Print Assumptions RT_root_binop.
Print Assumptions RT_qstar_alone.

(* ------------------------------------------------------------------ *)
(** * 5. Examples                                                       *)
(* ------------------------------------------------------------------ *)
Module Examples.

Definition e_a : px := XPath PRel (ROne (SAxis AxChild (NName "a") PNil)).
Definition e_2 : px := XNum (list_of_string "2").
Definition e_b3 : px := XBin BMul (XPath PRel (ROne (SAxis AxChild (NName "b") PNil))) (XNum (list_of_string "3")).

(* the right-hand side  op E  with minimal white space *)
Definition rhs0 (top : token) (E : px) : layout := lay0 (xtoks E).

Lemma rhs_intro : forall top E k,
  lay_ok (([], top) :: rhs0 top E ++ [([], TEOF)]) = true -> xwf E -> xdepth E < max_depth ->
  oplevel top = Some k -> bin_lvl k = true -> k < xlvl E ->
  rhs [] top (rhs0 top E) [] E k.
Proof.
  intros top E k H1 H2 H3 H4 H5 H6. constructor; try assumption. apply map_snd_lay0.
Qed.


Ltac side :=
  first [ vm_compute; reflexivity
        | discriminate
        | cbn; unfold max_depth; repeat split; first [lia | reflexivity | exact I] ].
Ltac fin :=
  match goal with
  | |- rhs _ _ (rhs0 _ _) _ _ _ => apply rhs_intro; side
  | |- rhs _ _ _ _ _ _ => constructor; side
  | |- _ => side
  end.

(*  12.5+a  ,  5.=a  ,  .5*2  ,  12.5 or b*3  *)
Example decimals :
  parse "12.5+a" None = Ok (AOp "+" (ANum (of_decimal false (list_of_string "12") (list_of_string "5"))) (xast e_a)) /\
  parse "5.=a" None = Ok (AOp "=" (ANum (of_decimal false (list_of_string "5") [])) (xast e_a)) /\
  parse ".5*2" None = Ok (AOp "*" (ANum (of_decimal false [] (list_of_string "5"))) (xast e_2)) /\
  parse "12.5 or b*3" None
    = Ok (AOp "or" (ANum (of_decimal false (list_of_string "12") (list_of_string "5"))) (xast e_b3)) /\
  parse "12.5" None = Ok (ANum (of_decimal false (list_of_string "12") (list_of_string "5"))).
Proof.
  split; [|split; [|split; [|split]]].
  - replace "12.5+a" with (string_of_list ((list_of_string "12" ++ dot_c :: list_of_string "5")
                              ++ rhs_text [] (TP IPlus) (rhs0 (TP IPlus) e_a) [])) by (vm_compute; reflexivity).
    eapply (RT_decimal_binop None) with (k := 4); fin.
  - replace "5.=a" with (string_of_list ((list_of_string "5" ++ dot_c :: [])
                              ++ rhs_text [] (TP IEq) (rhs0 (TP IEq) e_a) [])) by (vm_compute; reflexivity).
    eapply (RT_decimal_binop None) with (k := 2); fin.
  - replace ".5*2" with (string_of_list ((dot_c :: list_of_string "5")
                              ++ rhs_text [] (TP IStar) (rhs0 (TP IStar) e_2) [])) by (vm_compute; reflexivity).
    eapply (RT_fraction_binop None) with (k := 5); fin.
  - replace "12.5 or b*3" with (string_of_list ((list_of_string "12" ++ dot_c :: list_of_string "5")
                              ++ rhs_text [" "%char] (TName "or") ((([" "%char], TName "b") :: lay0 [TP IStar; TNum (list_of_string "3")])) []))
      by (vm_compute; reflexivity).
    eapply (RT_decimal_binop None) with (k := 0) (E := e_b3); fin.
  - replace "12.5" with (string_of_list ((list_of_string "12" ++ dot_c :: list_of_string "5") ++ []))
      by (vm_compute; reflexivity).
    apply (RT_decimal_alone None); try (vm_compute; reflexivity). discriminate.
Qed.

(*  "it's"=a  *)
Example dq_string :
  parse """it's""=a" None = Ok (AOp "=" (AStr "it's") (xast e_a)) /\
  parse """it's""" None = Ok (AStr "it's").
Proof.
  split.
  - replace """it's""=a" with (string_of_list ((dq_c :: list_of_string "it's" ++ [dq_c])
                              ++ rhs_text [] (TP IEq) (rhs0 (TP IEq) e_a) [])) by (vm_compute; reflexivity).
    eapply (RT_dq_string_binop None) with (k := 2); fin.
  - replace """it's""" with (string_of_list ((dq_c :: list_of_string "it's" ++ [dq_c]) ++ []))
      by (vm_compute; reflexivity).
    apply (RT_dq_string_alone None); vm_compute; reflexivity.
Qed.

(*  p:a|a  without a map and with p bound;  p:*  *)
Example qnames :
  parse "p:a|a" None = Ok (AOp "|" (AAxis "child" NTElem "p" "a" "" false "" None) (xast e_a)) /\
  parse "p:a|a" (Some [("p", "urn:x")])
    = Ok (AOp "|" (AAxis "child" NTElem "p" "a" "" true "urn:x" None) (xast e_a)) /\
  parse "p:*" (Some [("p", "urn:x")]) = Ok (AAxis "child" NTElem "p" "" "" true "urn:x" None).
Proof.
  assert (T : "p:a|a" = string_of_list ((list_of_string "p" ++ colon :: list_of_string "a")
                              ++ rhs_text [] (TP IUnion) (rhs0 (TP IUnion) e_a) [])) by (vm_compute; reflexivity).
  split; [|split].
  - rewrite T. eapply (RT_qname_binop None) with (k := 7); fin.
  - rewrite T. eapply (RT_qname_binop (Some [("p", "urn:x")])) with (k := 7); fin.
  - replace "p:*" with (string_of_list (list_of_string "p" ++ [colon; star_c])) by (vm_compute; reflexivity).
    apply (RT_qstar_alone (Some [("p", "urn:x")])); vm_compute; reflexivity.
Qed.

(*  /|a  and  /  *)
Example roots :
  parse "/|a" None = Ok (AOp "|" (ARoot "/") (xast e_a)) /\ parse "/" None = Ok (ARoot "/").
Proof.
  split.
  - replace "/|a" with (string_of_list ([slash_c] ++ rhs_text [] (TP IUnion) (rhs0 (TP IUnion) e_a) []))
      by (vm_compute; reflexivity).
    eapply (RT_root_binop None) with (k := 7); fin.
  - replace "/" with (string_of_list ([slash_c] ++ [])) by (vm_compute; reflexivity).
    apply (RT_root_alone None). reflexivity.
Qed.

(* why  *  and the operator NAMES are excluded after the bare / : they are read as a step *)
Example root_then_star_or_name :
  (exists m, parse "/ * 2" None = Err m) /\ (exists m, parse "/ and a" None = Err m) /\
  parse "/ *" None = Ok (AAxis "child" NTElem "" "" "" false "" (Some (ARoot "/"))).
Proof.
  split; [eexists; vm_compute; reflexivity|]. split; [eexists; vm_compute; reflexivity|].
  vm_compute. reflexivity.
Qed.

End Examples.
