#!/bin/bash
# Builds everything the checks need from files on disk (offline):
#   coq/  -> .vo (full build), ocaml/model (extracted model + driver), build/xh (Go harness, -tags verif)
set -e
cd "$(dirname "$0")/.."
export GOFLAGS=-mod=mod GOPROXY=off GOSUMDB=off GOTOOLCHAIN=local
mkdir -p build evidence work
( cd coq && coq_makefile -f _CoqProject -o Makefile >/dev/null && timeout 3000 make -j16 2>&1 | grep -v '^COQDEP\|^COQC\|make\[' || true )
( cd coq && make -j16 >/dev/null 2>&1 ) || { echo "setup: coq build failed"; ( cd coq && make 2>&1 | tail -20 ); exit 1; }
./bin/build_model.sh
./bin/build_go.sh
echo "setup ok"
