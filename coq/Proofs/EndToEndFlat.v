(* Proofs/EndToEndFlat.v — property C12, end to end, at the level of TEXTS.

   An ORDERED path P is a predicate-free location path (EndToEndPaths.path_syntax)
   whose steps are
     - child / attribute / self steps only (relative or absolute), or
     - such steps followed by ONE final  descendant::t ,  descendant-or-self::t
       or  //t   (e.g.  //name ,  //* ,  /a/b//c ,  descendant::t ).
   From the text of P:
     (a) Compile succeeds; Select returns a list l that is in document order
         ([sorted_doc], hence [NoDup]) and whose members are exactly the XPath
         denotation of P -- by DocOrder.sorted_doc_unique l is THE document-
         ordered duplicate-free list of those nodes;
     (b) Evaluate of the same compiled query returns the node-set with the same
         node sequence;
     (c) the text  count(P)  evaluates to the length of l;
     (d) the text  reverse(P)  selects  rev l. *)
From XP Require Import Base F64 Doc Ast Scan Parse Build Hash Eval Api.
From XP.Spec Require Import Axes Paths.
From XP.Proofs Require Import ParseTerm ScanTokens RoundTripOps RoundTripPaths
                              DocOrder HashInj AxesSound PathSem BuildPath BuildFacts Absolute CountReverse
                              BuildOps EndToEndPaths EndToEndPred EndToEndPos EndToEndUnion EndToEndAbs.
Require Import Lia ZArith.
Open Scope string_scope.
Open Scope nat_scope.
Open Scope list_scope.

(* ------------------------------------------------------------------ *)
(** * 1. Ordered paths and the queries they compile to                  *)
(* ------------------------------------------------------------------ *)

Inductive ordered_steps : list sstep -> Prop :=
| OS_flat : forall l, Forall flat_step l -> ordered_steps l
| OS_desc : forall pre a t, Forall flat_step pre -> (a = Descendant \/ a = DescendantOrSelf) ->
    ordered_steps (pre ++ [mkStep a t])
| OS_slashslash : forall pre t, Forall flat_step pre ->
    ordered_steps (pre ++ [dos_sstep; mkStep Child t]).

(* a flat query, or one descendant step over a flat query *)
Definition ordered_query (q : query) : Prop :=
  flat_query q \/ exists self t qi, q = QDescendant self t qi /\ flat_query qi.

Lemma flat_nodeset : forall q, flat_query q -> nodeset_query q = true.
Proof. intros q H. destruct H; reflexivity. Qed.

Lemma ordered_nodeset : forall q, ordered_query q -> nodeset_query q = true.
Proof. intros q [H|(self & t & qi & -> & _)]; [apply flat_nodeset; exact H|reflexivity]. Qed.

Lemma ordered_sorted : forall D has_ns hcode rm rn rr q c l,
  ordered_query q -> sel D has_ns hcode rm rn rr q c = Val l -> sorted_doc (nodes_of l).
Proof.
  intros D has_ns hcode rm rn rr q c l [H|(self & t & qi & -> & H)] E.
  - eapply flat_sorted_any; eassumption.
  - eapply flat_descendant_sorted; eassumption.
Qed.

Lemma ordered_never_fails : forall D has_ns hcode rm rn rr q c,
  ordered_query q -> exists l, sel D has_ns hcode rm rn rr q c = Val l.
Proof.
  intros D has_ns hcode rm rn rr q c [H|(self & t & qi & -> & H)].
  - apply flat_never_fails. exact H.
  - apply flat_descendant_never_fails. exact H.
Qed.

Section Build.
Variable re_ok : string -> bool.

(* a final descendant / descendant-or-self step over a flat prefix *)
Lemma desc_step_shape : forall abs rs inp a t prop d fi q pr fo,
  rpath_ast abs rs inp -> Forall flat_step rs -> (a = Descendant \/ a = DescendantOrSelf) ->
  process re_ok d (step_ast (mkStep a t) prop inp) fl_none fi = Ok (q, pr, fo) ->
  exists self qi, q = QDescendant self t qi /\ flat_query qi.
Proof.
  intros abs rs inp a t prop d fi q pr fo HA HF Ha E.
  unfold step_ast in E. cbn [s_axis s_test] in E. rewrite process_axis_eq in E.
  destruct (Nat.ltb max_build_depth (S d)); [discriminate|]. cbv zeta in E.
  assert (Ef : fused_cond fl_none (axis_name a) inp = false).
  { destruct inp as [[]|]; try reflexivity. destruct Ha as [-> | ->]; reflexivity. }
  rewrite Ef in E.
  match type of E with context [proc_opt re_ok (S d) inp ?f] =>
    destruct (proc_opt re_ok (S d) inp f) as [[qi pri]| |] eqn:Ei end;
    cbn [cbind] in E; try discriminate.
  pose proof (flat_out re_ok abs rs inp HA HF _ _ _ _ Ei) as Hq.
  replace (axis_test (nt_type t) (nt_pre t) (nt_loc t) (nt_hasns t) (nt_ns t)) with t in E
    by (destruct t; reflexivity).
  destruct Ha as [-> | ->]; cbn in E; inversion E; subst; eauto.
Qed.

(* //t  over a flat prefix: the fused form *)
Lemma slashslash_shape : forall abs rs inp t prop prop2 d fi q pr fo,
  rpath_ast abs rs inp -> Forall flat_step rs ->
  process re_ok d (step_ast (mkStep Child t) prop (Some (step_ast dos_sstep prop2 inp))) fl_none fi
    = Ok (q, pr, fo) ->
  exists qi, q = QDescendant false t qi /\ flat_query qi.
Proof.
  intros abs rs inp t prop prop2 d fi q pr fo HA HF E.
  unfold step_ast in E. cbn [s_axis s_test axis_name dos_sstep node_t nt_type nt_pre nt_loc nt_hasns nt_ns] in E.
  rewrite process_axis_eq in E.
  destruct (Nat.ltb max_build_depth (S d)); [discriminate|]. cbv zeta in E.
  change (fused_cond fl_none "child" (Some (AAxis "descendant-or-self" NTAll "" "" prop2 false "" inp)))
    with true in E. cbv iota in E. cbn [ginput_of] in E.
  destruct (proc_opt re_ok (S d) inp fl_smart) as [[qg prg]| |] eqn:Eg; cbn [cbind] in E; try discriminate.
  pose proof (flat_out re_ok abs rs inp HA HF _ _ _ _ Eg) as Hq.
  unfold finish in E. cbn [cbind] in E. inversion E; subst.
  replace (axis_test (nt_type t) (nt_pre t) (nt_loc t) (nt_hasns t) (nt_ns t)) with t
    by (destruct t; reflexivity).
  eauto.
Qed.

(* the tree of an ordered path builds to an ordered query, at any depth *)
Theorem ordered_path_query : forall p abs steps d fi q pr fo,
  path_syntax p -> steps_of p = (abs, steps) -> ordered_steps steps ->
  process re_ok d (xast p) fl_none fi = Ok (q, pr, fo) -> ordered_query q.
Proof.
  intros p abs steps d fi q pr fo Hp Hs Ho E.
  pose proof (xast_path_shape p abs steps Hp Hs) as HA.
  pose proof (steps_of_ne p abs steps Hp Hs) as Hne.
  assert (Hr : rev steps <> []) by (intros Er; apply Hne; rewrite <- (rev_involutive steps), Er; reflexivity).
  destruct Ho as [l HF|pre a t HF Ha|pre t HF].
  - left. apply (path_tree_flat re_ok abs (rev l) (xast p) d fi q pr fo HA Hr E). apply Forall_rev. exact HF.
  - rewrite rev_app_distr in HA. cbn [rev app] in HA.
    destruct (rpath_ast_some_inv abs _ _ HA ltac:(discriminate)) as (s & r & prop & inp & Es & Ea & HA').
    inversion Es; subst s r. rewrite Ea in E.
    destruct (desc_step_shape abs (rev pre) inp a t prop d fi q pr fo HA' (Forall_rev HF) Ha E)
      as (self & qi & -> & Hq).
    right. eauto.
  - rewrite rev_app_distr in HA. cbn [rev app] in HA.
    destruct (rpath_ast_some_inv abs _ _ HA ltac:(discriminate)) as (s & r & prop & inp & Es & Ea & HA').
    inversion Es; subst s r.
    inversion HA' as [|?|s2 r2 inp2 prop2 HA2]; subst.
    rewrite Ea in E.
    destruct (slashslash_shape abs (rev pre) inp2 t prop prop2 d fi q pr fo HA2 (Forall_rev HF) E)
      as (qi & -> & Hq).
    right. eauto.
Qed.

Lemma process_count_shape : forall d pre a0 fl fi q0 pr0 fi0,
  d < max_build_depth ->
  process re_ok (S d) a0 fl_none fi = Ok (q0, pr0, fi0) ->
  process re_ok d (AFunc pre "count" [a0]) fl fi = Ok (QFn1 FCount q0, pr0, mkFi (fi_q fi0) false).
Proof.
  intros d pre a0 fl fi q0 pr0 fi0 Hd H0. cbn [process]. rewrite (depth_ok d Hd).
  cbn [String.eqb Ascii.eqb Bool.eqb andb orb negb List.length Nat.eqb Nat.ltb Nat.leb].
  rewrite H0. reflexivity.
Qed.

Lemma process_reverse_shape : forall d pre a0 fl fi q0 pr0 fi0,
  d < max_build_depth ->
  process re_ok (S d) a0 fl_none fi = Ok (q0, pr0, fi0) ->
  process re_ok d (AFunc pre "reverse" [a0]) fl fi = Ok (QReverse q0, pr0, mkFi (fi_q fi0) false).
Proof.
  intros d pre a0 fl fi q0 pr0 fi0 Hd H0. cbn [process]. rewrite (depth_ok d Hd).
  cbn [String.eqb Ascii.eqb Bool.eqb andb orb negb List.length Nat.eqb Nat.ltb Nat.leb].
  rewrite H0. reflexivity.
Qed.

End Build.

(* ------------------------------------------------------------------ *)
(** * 2. End to end                                                     *)
(* ------------------------------------------------------------------ *)

Section E2E.
Variable D : tree.
Variable has_ns : bool.
Variable hc : tree -> node -> N.
Variable rm : string -> string -> option bool.
Variable rn : string -> nat.
Variable rr : string -> string -> string -> string.
Hypothesis Hhash : hash_ok (hc D) (all_nodes D).
Variable re_ok : string -> bool.
Variable ns : nsmap.

Notation SELECT := (select rm rn rr hc D has_ns).
Notation EVALUATE := (evaluate rm rn rr hc D has_ns).
Notation SEL := (sel D has_ns (hc D) rm rn rr).

(* any query built from the tree of P selects THE ordered list of the denotation *)
Lemma built_query_selects : forall p abs steps d fi q pr fo c,
  path_syntax p -> steps_of p = (abs, steps) -> ordered_steps steps ->
  d + List.length steps + 1 <= max_build_depth ->
  process re_ok d (xast p) fl_none fi = Ok (q, pr, fo) -> valid D c = true ->
  nodeset_query q = true /\
  exists l, SELECT q c = Val l /\ sorted_doc l /\
            forall n, In n l <-> path_den D has_ns steps (if abs then root_node else c) n.
Proof.
  intros p abs steps d fi q pr fo c Hp Hs Ho Hd E Hc.
  pose proof (ordered_path_query re_ok p abs steps d fi q pr fo Hp Hs Ho E) as Hoq.
  split; [apply ordered_nodeset; exact Hoq|].
  pose proof (xast_path_shape p abs steps Hp Hs) as HA.
  pose proof (steps_of_ne p abs steps Hp Hs) as Hne.
  assert (Hr : rev steps <> []) by (intros Er; apply Hne; rewrite <- (rev_involutive steps), Er; reflexivity).
  destruct (path_tree_builds D has_ns (hc D) rm rn rr Hhash re_ok abs (rev steps) (xast p) d fi HA Hr)
    as (q' & pr' & fo' & E' & _ & Hq).
  { rewrite rev_length. destruct abs; lia. }
  rewrite E in E'. inversion E'; subst q' pr' fo'.
  destruct (Hq c Hc) as (l & El & _ & Hin).
  exists (nodes_of l). split; [unfold select; rewrite El; reflexivity|].
  split; [apply (ordered_sorted D has_ns (hc D) rm rn rr q c l Hoq El)|].
  intros n. rewrite (Hin n). apply (P_of_rev D has_ns).
Qed.

(** C12: the four statements, from the text of P *)
Theorem C12_ordered_end_to_end : forall p abs steps,
  path_syntax p -> steps_of p = (abs, steps) -> ordered_steps steps ->
  xok p -> xok (XCall "count" (AOne p)) -> xok (XCall "reverse" (AOne p)) ->
  List.length steps + 2 <= max_build_depth ->
  exists q qc qr,
    compile re_ok (print_min p) ns = Ok q /\
    compile re_ok (print_min (XCall "count" (AOne p))) ns = Ok qc /\
    compile re_ok (print_min (XCall "reverse" (AOne p))) ns = Ok qr /\
    forall c, valid D c = true ->
    exists l,
      (* (a) Select: document order, no duplicates, the denotation *)
      SELECT q c = Val l /\ sorted_doc l /\ NoDup l /\
      (forall n, In n l <-> path_den D has_ns steps (if abs then root_node else c) n) /\
      (* (b) Evaluate: the same sequence *)
      EVALUATE q c = Val (VNodes (unnumbered l)) /\
      (* (c) count(P) *)
      EVALUATE qc c = Val (VNum (of_Z (Z.of_nat (List.length l)))) /\
      (* (d) reverse(P) *)
      SELECT qr c = Val (rev l).
Proof.
  intros p abs steps Hp Hs Ho Hok Hokc Hokr Hl.
  destruct (path_syntax_wf p Hp) as [Hwf Hd0].
  destruct (path_text_compiles re_ok ns p abs steps Hp Hs Hok ltac:(unfold max_build_depth in *; lia))
    as (q & pr & fo & Ec & _ & E).
  (* the operand of count() / reverse(): built at depth 1 *)
  pose proof (xast_path_shape p abs steps Hp Hs) as HA.
  pose proof (steps_of_ne p abs steps Hp Hs) as Hne.
  assert (Hr : rev steps <> []) by (intros Er; apply Hne; rewrite <- (rev_involutive steps), Er; reflexivity).
  destruct (path_tree_builds D has_ns (hc D) rm rn rr Hhash re_ok abs (rev steps) (xast p) 1 fi_nil HA Hr)
    as (q1 & pr1 & fo1 & E1 & _ & _).
  { rewrite rev_length. destruct abs; lia. }
  assert (Hd00 : 0 < max_build_depth) by (unfold max_build_depth; lia).
  assert (Hdc : S (RoundTripPaths.adepth (AOne p)) < max_depth)
    by (cbn [RoundTripPaths.adepth]; rewrite Hd0; unfold max_depth; lia).
  assert (Cc : compile re_ok (print_min (XCall "count" (AOne p))) ns = Ok (QFn1 FCount q1)).
  { apply (compile_of_parse re_ok _ ns (AFunc "" "count" [xast p]) _ pr1 (mkFi (fi_q fo1) false));
      [|apply (process_count_shape re_ok 0 "" (xast p) fl_none fi_nil q1 pr1 fo1 Hd00 E1)|discriminate].
    apply (roundtrip_print_min ns (XCall "count" (AOne p))); [cbn [xwf awf]; auto|exact Hokc|exact Hdc]. }
  assert (Cr : compile re_ok (print_min (XCall "reverse" (AOne p))) ns = Ok (QReverse q1)).
  { apply (compile_of_parse re_ok _ ns (AFunc "" "reverse" [xast p]) _ pr1 (mkFi (fi_q fo1) false));
      [|apply (process_reverse_shape re_ok 0 "" (xast p) fl_none fi_nil q1 pr1 fo1 Hd00 E1)|discriminate].
    apply (roundtrip_print_min ns (XCall "reverse" (AOne p))); [cbn [xwf awf]; auto|exact Hokr|exact Hdc]. }
  exists q, (QFn1 FCount q1), (QReverse q1). split; [exact Ec|]. split; [exact Cc|]. split; [exact Cr|].
  intros c Hc.
  destruct (built_query_selects p abs steps 0 fi_nil q pr fo c Hp Hs Ho ltac:(lia) E Hc)
    as (Hns & l & El & Hsort & Hin).
  destruct (built_query_selects p abs steps 1 fi_nil q1 pr1 fo1 c Hp Hs Ho ltac:(lia) E1 Hc)
    as (Hns1 & l1 & El1 & Hsort1 & Hin1).
  (* the two lists are the same: sorted, same members *)
  assert (El1l : l1 = l).
  { apply sorted_doc_unique; try assumption. intros n. rewrite (Hin n), (Hin1 n). reflexivity. }
  subst l1.
  exists l. split; [exact El|]. split; [exact Hsort|]. split; [apply sorted_doc_NoDup; exact Hsort|].
  split; [exact Hin|]. split; [|split].
  - apply (evaluate_same_sequence rm rn rr hc D has_ns q c l Hns El).
  - apply (evaluate_count_select rm rn rr hc D has_ns q1 c l Hns1 El1).
  - apply (select_reverse rm rn rr hc D has_ns q1 c l El1).
Qed.

End E2E.
Print Assumptions C12_ordered_end_to_end.

(* ------------------------------------------------------------------ *)
(** * 3. Examples                                                       *)
(* ------------------------------------------------------------------ *)
Module Examples.
Import AxesSound.Examples EndToEndPaths.Examples.

(*   <a x="1" y="2"> <b>t</b> <c z="3"><d/><!--k--></c> <e/> </a>   *)
Notation SELECTx := (select lit_match lit_numsubexp lit_replace_all hash_code exD true).
Notation EVALUATEx := (evaluate lit_match lit_numsubexp lit_replace_all hash_code exD true).
Definition hx := EndToEndPred.Examples.hash_ok_exD.

(*  //*  *)
Definition p_all : px := XPath PAbs2 (ROne (SAxis AxChild NStar PNil)).
(*  a/*/@*  *)
Definition p_att : px :=
  XPath PRel (RCons (st_child "a") false (RCons (SAxis AxChild NStar PNil) false (ROne (SAxis AxAt NStar PNil)))).

Example ordered_hyps :
  ordered_steps (snd (steps_of p_all)) /\ ordered_steps (snd (steps_of p_att)) /\
  print_min p_all = "//*" /\ print_min (XCall "count" (AOne p_all)) = "count(//*)" /\
  print_min (XCall "reverse" (AOne p_all)) = "reverse(//*)".
Proof.
  split; [|split; [|repeat split; vm_compute; reflexivity]].
  - change (snd (steps_of p_all)) with (([] ++ [dos_sstep; mkStep Child (mkTest NTElem "" "" false "")])%list).
    apply OS_slashslash. constructor.
  - apply OS_flat. vm_compute. repeat constructor.
Qed.

Example all_elements :
  exists q qc qr,
    compile Api.lit_ok "//*" None = Ok q /\ compile Api.lit_ok "count(//*)" None = Ok qc /\
    compile Api.lit_ok "reverse(//*)" None = Ok qr /\
    SELECTx q n_c = Val [n_a; n_b; n_c; n_d; n_e] /\ sorted_doc [n_a; n_b; n_c; n_d; n_e] /\
    EVALUATEx q n_c = Val (VNodes (unnumbered [n_a; n_b; n_c; n_d; n_e])) /\
    EVALUATEx qc n_c = Val (VNum (of_Z 5)) /\
    SELECTx qr n_c = Val [n_e; n_d; n_c; n_b; n_a].
Proof.
  destruct ordered_hyps as (Ho & _ & T1 & T2 & T3).
  destruct (C12_ordered_end_to_end exD true hash_code lit_match lit_numsubexp lit_replace_all hx Api.lit_ok None
              p_all true (snd (steps_of p_all))) as (q & qc & qr & C & Cc & Cr & H).
  - apply path_syntax_b_ok. vm_compute. reflexivity.
  - vm_compute. reflexivity.
  - exact Ho.
  - vm_compute. reflexivity.
  - vm_compute. reflexivity.
  - vm_compute. reflexivity.
  - vm_compute. lia.
  - rewrite T1 in C. rewrite T2 in Cc. rewrite T3 in Cr.
    exists q, qc, qr. split; [exact C|]. split; [exact Cc|]. split; [exact Cr|].
    destruct (H n_c eq_refl) as (l & El & Hsort & _ & _ & Ev & Ecnt & Erev).
    assert (Hl : l = [n_a; n_b; n_c; n_d; n_e]).
    { vm_compute in C. inversion C; subst q. vm_compute in El. inversion El. reflexivity. }
    subst l. split; [exact El|]. split; [exact Hsort|]. split; [exact Ev|]. split; [exact Ecnt|exact Erev].
Qed.

(* OUTSIDE: two descendant steps ( //a//* ) are not ordered: see EndToEndPos.nested_descendants_repeat *)

End Examples.
