(* C13 — absolute paths ignore the start node; wrappers preserve the node set /
   truth value.  Property theorems only; proofs in Proofs/Absolute.v.
   [ctx_free q]: every leaf of q that is not inside a predicate is the root
   (QAbsolute) or a constant — what the builder produces for an absolute expression. *)
From Coq Require Import List.
From Coq Require Import ZArith.
From XP Require Import Base F64 Doc Ast Eval Api.
From XP.Proofs Require Import HashInj Absolute.

Theorem C13_absolute_ignores_start_node : forall D has_ns hcode rm rn rr q, ctx_free q ->
  forall c1 c2,
    sel D has_ns hcode rm rn rr q c1 = sel D has_ns hcode rm rn rr q c2 /\
    eval D has_ns hcode rm rn rr q c1 = eval D has_ns hcode rm rn rr q c2.
Proof. exact absolute_ignores_context. Qed.
Print Assumptions C13_absolute_ignores_start_node.

Theorem C13_select_ignores_start_node : forall rm rn rr hcode D has_ns q c1 c2, ctx_free q ->
  select rm rn rr hcode D has_ns q c1 = select rm rn rr hcode D has_ns q c2.
Proof. exact select_ignores_context. Qed.
Print Assumptions C13_select_ignores_start_node.

(* (P) has the nodes of P *)
Theorem C13_group_same_nodes : forall D has_ns hcode rm rn rr i c,
  omap nodes_of (sel D has_ns hcode rm rn rr (QGroup i) c) = omap nodes_of (sel D has_ns hcode rm rn rr i c).
Proof. exact group_same_nodes. Qed.
Print Assumptions C13_group_same_nodes.

(* P[true()] has the nodes of P *)
Theorem C13_true_predicate_same_nodes : forall D has_ns hcode rm rn rr np i c,
  omap nodes_of (sel D has_ns hcode rm rn rr (QFilter np i (QFn0 FTrue)) c) =
  omap nodes_of (sel D has_ns hcode rm rn rr i c).
Proof. exact filter_true_same_nodes. Qed.
Print Assumptions C13_true_predicate_same_nodes.

(* P | P: no duplicates, and (collision-free codes) exactly the node set of P *)
Theorem C13_union_self : forall D has_ns hcode rm rn rr i c l,
  sel D has_ns hcode rm rn rr i c = Val l ->
  exists u, sel D has_ns hcode rm rn rr (QUnion i i) c = Val u /\ NoDup (nodes_of u) /\
    (forall x, In x (nodes_of u) -> In x (nodes_of l)) /\
    (hash_ok hcode (nodes_of l) ->
       (forall x, In x (nodes_of u) <-> In x (nodes_of l)) /\
       nodes_of u = dedup_first (nodes_of l) /\ (NoDup (nodes_of l) -> nodes_of u = nodes_of l)).
Proof. exact union_self. Qed.
Print Assumptions C13_union_self.

(* not(not(P)) = boolean(P) for node-set and boolean P *)
Theorem C13_not_not : forall D has_ns hcode rm rn rr i c,
  (exists l, eval D has_ns hcode rm rn rr i c = Val (VNodes l)) \/
  (exists b, eval D has_ns hcode rm rn rr i c = Val (VBool b)) ->
  eval D has_ns hcode rm rn rr (QFn1 FNot (QFn1 FNot i)) c = eval D has_ns hcode rm rn rr (QFn1 FBoolean i) c.
Proof. exact not_not_boolean. Qed.
Print Assumptions C13_not_not.

(* ---- relative paths compose with the context (Proofs/Compose.v) ----
   [addr_query n] is the absolute path /child::node()[i0+1]/child::node()[i1+1]/...
   that addresses the element / text / comment node n; [indices_exact] holds for
   all child indices below 2^53 (doubles represent them exactly). *)
From XP.Spec Require Import Paths.
From XP.Proofs Require Import PathSem Compose.

Theorem C13_address_selects_the_node : forall D has_ns hcode rm rn rr n,
  Doc.valid D n = true -> nattr n = None ->
  (forall i, In i (npath n) -> (Z.of_nat i < 2 ^ 53)%Z) ->
  qden D has_ns hcode rm rn rr (addr_query n) (fun _ m => m = n).
Proof. exact addr_selects_node_small. Qed.
Print Assumptions C13_address_selects_the_node.

(* a predicate-free relative path at n  =  addr(n)/path from anywhere: same sequence *)
Theorem C13_compose_same_sequence : forall D has_ns hcode rm rn rr n c steps,
  Doc.valid D n = true -> nattr n = None -> indices_exact (npath n) ->
  sel D has_ns hcode rm rn rr (chain (addr_query n) steps) c =
  sel D has_ns hcode rm rn rr (chain QContext steps) n.
Proof. exact compose_same_sequence. Qed.
Print Assumptions C13_compose_same_sequence.

(* any query built over the context leaf (arbitrary predicates, unions, filters,
   function calls): substituting the address for the context leaf and starting
   anywhere = evaluating at n *)
Theorem C13_compose_general : forall rm rn rr hcode D has_ns n c q,
  Doc.valid D n = true -> nattr n = None -> indices_exact (npath n) -> via_dot q ->
  select rm rn rr hcode D has_ns (subst_base q (addr_query n)) c = select rm rn rr hcode D has_ns q n.
Proof. exact select_compose. Qed.
Print Assumptions C13_compose_general.

(* ------------------------------------------------------------------ *)
(* END TO END, from the TEXT: an absolute predicate-free path compiles to a query whose Select
   and Evaluate do not depend on the start node (any document, any identity code, any two start
   nodes) and select exactly the path's denotation from the root; a relative concatenation P/Q
   selects exactly the nodes Q selects from the nodes P selects. *)
From XP Require Import Scan Parse Build.
From XP.Spec Require Import Axes.
From XP.Proofs Require Import DocOrder RoundTripPaths EndToEndPaths EndToEndPos EndToEndAbs.

Theorem C13_end_to_end_absolute : forall re_ok ns p steps,
  path_syntax p -> steps_of p = (true, steps) -> xok p ->
  List.length steps < max_build_depth ->
  exists q, compile re_ok (print_min p) ns = Ok q /\ ctx_free q /\
    (forall rm rn rr hc D has_ns c1 c2,
       select rm rn rr hc D has_ns q c1 = select rm rn rr hc D has_ns q c2 /\
       evaluate rm rn rr hc D has_ns q c1 = evaluate rm rn rr hc D has_ns q c2) /\
    (forall rm rn rr hc D has_ns c, hash_ok (hc D) (all_nodes D) ->
       exists l, select rm rn rr hc D has_ns q c = Val l /\
                 forall n, In n l <-> path_den D has_ns steps root_node n).
Proof. exact C13_absolute_end_to_end. Qed.
Print Assumptions C13_end_to_end_absolute.

Theorem C13_end_to_end_compose : forall D has_ns hc rm rn rr re_ok ns p1 p2 abs s1 s2,
  path_syntax p1 -> steps_of p1 = (abs, s1) ->
  path_syntax p2 -> steps_of p2 = (false, s2) ->
  xok p1 -> xok p2 -> xok (path_cat p1 p2) ->
  List.length (s1 ++ s2) < max_build_depth -> hash_ok (hc D) (all_nodes D) ->
  exists q q1 q2,
    compile re_ok (print_min (path_cat p1 p2)) ns = Ok q /\
    compile re_ok (print_min p1) ns = Ok q1 /\
    compile re_ok (print_min p2) ns = Ok q2 /\
    forall c, valid D c = true ->
    exists l l1,
      select rm rn rr hc D has_ns q c = Val l /\
      select rm rn rr hc D has_ns q1 c = Val l1 /\
      (forall n, In n l <->
         exists m l2, In m l1 /\ select rm rn rr hc D has_ns q2 m = Val l2 /\ In n l2) /\
      (Forall flat_step (s1 ++ s2) -> sorted_doc l /\ sorted_doc l1).
Proof. exact C13_compose_end_to_end. Qed.
Print Assumptions C13_end_to_end_compose.

(* ------------------------------------------------------------------ *)
(* END TO END, absolute paths WITH predicates: any absolute path text of the round-trip grammar
   (predicates of any form and number on any step: existence, comparisons, and/or/not, positional,
   nested paths) that compiles, compiles to a context-free query: Select and Evaluate agree for any
   two start nodes of any document — in every white-space layout. *)
From XP.Proofs Require Import RoundTripWs EndToEndAbsPred.

Theorem C13_end_to_end_absolute_with_predicates : forall re_ok ns s r q,
  is_abs_start s -> xwf (XPath s r) -> xok (XPath s r) -> xdepth (XPath s r) < max_depth ->
  compile re_ok (print_min (XPath s r)) ns = Ok q ->
  ctx_free q /\
  forall rm rn rr (hc : tree -> node -> N) D has_ns c1 c2,
    select rm rn rr hc D has_ns q c1 = select rm rn rr hc D has_ns q c2 /\
    evaluate rm rn rr hc D has_ns q c1 = evaluate rm rn rr hc D has_ns q c2.
Proof. exact C13_abs_pred_end_to_end. Qed.
Print Assumptions C13_end_to_end_absolute_with_predicates.
