(* Proofs/ApiConc3.v — C05 at cursor level, stated against the list-level API: any number of goroutines
   each make one API call (Expr.Select / Expr.Evaluate, then MoveNext a number of times) on the SAME
   compiled expression; their steps are interleaved arbitrarily.  Every goroutine observes what
   Api.select / Api.evaluate say (ApiRefine3.expected), and the shared tree is left as it was.

   The steps of one call (each atomic; memory model of ConcRefine3: the clone is seen with the
   aliased closure objects as they are in shared memory -- inject3 -- and they are left there as
   the step left them -- absorb3):
     Select:    expr.q.Clone()  |  MoveNext  |  MoveNext | ...                       (n times)
     Evaluate:  expr.q.Clone()  |  Evaluate on the clone  |  (query result:) expr.q.Clone() again
                |  MoveNext | ...                                                    (n times)

   grun_independent         a generic scheduler theorem (any thread type whose step keeps the shared state)
   astep_frame              a step of an API call never changes the shared tree
   asolo_select / asolo_evaluate   a call running alone ends in ApiRefine3.api_select3 / api_evaluate3
   api_calls_any_schedule3  MAIN: k calls, any schedule in which call i gets at least steps_needed
                            turns, any initial state of the shared tree: call i has observed
                            expected (op_i), the list-level answer; the tree is unchanged *)
From XP Require Import Base F64 Doc Ast Hash Eval Api.
From XP.Model1 Require Import Iter Iter2 Iter3 Clone3.
From XP.Proofs Require Import AxesSound IterRefine IterRefine2 Filter IterRefine3 IterRefine4 IterProtocol3
     Absolute CloneRefine3 Purity ApiRefine3 FrameRefine3 ConcRefine3 ConcRefineN.
Open Scope nat_scope.
Open Scope list_scope.

(* ================================================================== *)
(** * 1. A generic scheduler *)
Section Sched.
Context {Sh T : Type}.
Variable step : Sh -> T -> Sh * T.
Variable s0 : Sh.
Variable Inv : T -> Prop.
Hypothesis step_frame : forall t, Inv t -> fst (step s0 t) = s0 /\ Inv (snd (step s0 t)).

Fixpoint gsolo (n : nat) (t : T) : T := match n with 0 => t | S m => gsolo m (snd (step s0 t)) end.

Fixpoint grun (sched : list nat) (shared : Sh) (pool : list T) : Sh * list T :=
  match sched with
  | [] => (shared, pool)
  | i :: r =>
    match nth_error pool i with
    | None => grun r shared pool
    | Some t => let '(sh', t') := step shared t in grun r sh' (upd i t' pool)
    end
  end.

Lemma gsolo_inv : forall n t, Inv t -> Inv (gsolo n t).
Proof. induction n as [|n IH]; intros t Hi; [exact Hi|]. cbn [gsolo]. apply IH, (step_frame t Hi). Qed.

Theorem grun_independent : forall (sched : list nat) (pool : list T),
  Forall Inv pool ->
  fst (grun sched s0 pool) = s0 /\
  List.length (snd (grun sched s0 pool)) = List.length pool /\
  forall i t, nth_error pool i = Some t ->
    nth_error (snd (grun sched s0 pool)) i = Some (gsolo (turnsN i sched) t).
Proof.
  induction sched as [|j r IH]; intros pool Hp.
  - cbn [grun fst snd]. repeat split; auto.
  - cbn [grun]. destruct (nth_error pool j) as [tj|] eqn:Ej.
    + assert (Hj : Inv tj) by (rewrite Forall_forall in Hp; apply Hp; eapply nth_error_In; eauto).
      destruct (step s0 tj) as [sh' tj'] eqn:Et.
      destruct (step_frame tj Hj) as [Hs Hi]. rewrite Et in Hs, Hi. cbn [fst snd] in Hs, Hi. subst sh'.
      destruct (IH (upd j tj' pool) (Forall_upd _ _ _ _ Hp Hi)) as (A & B & C).
      split; [exact A|]. split; [rewrite B; apply upd_length|].
      intros i t Hit. destruct (Nat.eq_dec i j) as [->|Hne].
      * rewrite Ej in Hit. inversion Hit; subst t.
        rewrite (C j tj' (nth_error_upd_same _ _ _ _ Ej)), turnsN_same. cbn [gsolo]. rewrite Et. reflexivity.
      * rewrite (C i t ltac:(rewrite nth_error_upd_other by exact Hne; exact Hit)), (turnsN_other i j r Hne).
        reflexivity.
    + destruct (IH pool Hp) as (A & B & C). split; [exact A|]. split; [exact B|].
      intros i t Hit. assert (Hne : i <> j) by (intros ->; rewrite Ej in Hit; discriminate).
      rewrite (C i t Hit), (turnsN_other i j r Hne). reflexivity.
Qed.
End Sched.

(* ================================================================== *)
(** * 2. The steps of an API call *)
Section ApiConc.
Variable rm : string -> string -> option bool.
Variable rn : string -> nat.
Variable rr : string -> string -> string -> string.
Variable hcode : tree -> node -> N.
Variable D : tree.
Variable has_ns : bool.
Variable F : nat.
Variable q : query.
Hypothesis wf : frame_wf q = true.
Notation hc := (hcode D).
Notation cq := (clone_cfg3 q).
Notation S3 := (sel3 D has_ns hc rm rn rr).
Notation E3 := (ev3 D has_ns hc rm rn rr).

(* one call: Expr.Select(c) / Expr.Evaluate(c), then n times MoveNext on the iterator *)
Inductive aop := ASel (c : node) (n : nat) | AEv (c : node) (n : nat).
Definition op_of (o : aop) : op3 q :=
  match o with ASel c n => OpSelect3 q D has_ns c n | AEv c n => OpEvaluate3 q D has_ns c n end.

Inductive athread :=
| APending (o : aop)                                              (* nothing done yet *)
| AEvalReady (k : state3 cq) (c : node) (n : nat)                 (* Evaluate: the first clone is made *)
| ASecondClone (c : node) (n : nat)                               (* Evaluate returned a query *)
| AIter (k : state3 cq) (cur : node) (left : nat) (acc : list node)   (* NodeIterator{query: k, node: cur} *)
| ADone (ob : obs3).

Definition astep (shared : state3 q) (t : athread) : state3 q * athread :=
  match t with
  | APending (ASel c n) => (shared, AIter (clone_state3 q shared) c n [])
  | APending (AEv c n) => (shared, AEvalReady (clone_state3 q shared) c n)
  | AEvalReady k c n =>
    match E3 F cq (inject3 q shared k) c with
    | Stuck3 => (shared, ADone Obs3Stuck)
    | Panic3 m => (shared, ADone (Obs3Panic m))
    | OK3 (CVS x) k' _ => (absorb3 q k' shared, ADone (Obs3Value x))
    | OK3 (CVQuery _) k' _ => (absorb3 q k' shared, ASecondClone c n)
    end
  | ASecondClone c n => (shared, AIter (clone_state3 q shared) c n [])
  | AIter k cur 0 acc => (shared, ADone (Obs3Nodes acc E_more))
  | AIter k cur (S m) acc =>                                       (* MoveNext *)
    match S3 F cq (inject3 q shared k) cur with
    | Stuck => (shared, ADone (Obs3Nodes acc E_stuck))
    | R None k' _ => (absorb3 q k' shared, ADone (Obs3Nodes acc E_nil))
    | R (Some x) k' _ => (absorb3 q k' shared, AIter k' x m (acc ++ [x]))
    end
  | ADone ob => (shared, ADone ob)
  end.

Definition AInv (s0 : state3 q) (t : athread) : Prop :=
  match t with
  | AEvalReady k _ _ | AIter k _ _ _ => FI cq (clone_state3 q s0) k
  | _ => True
  end.

Lemma cwf' : frame_wf cq = true.
Proof. rewrite clone_cfg3_frame_wf. exact wf. Qed.

Lemma astep_frame : forall s0 t, AInv s0 t -> fst (astep s0 t) = s0 /\ AInv s0 (snd (astep s0 t)).
Proof.
  intros s0 [[c n|c n]|k c n|c n|k cur [|m] acc|ob] Hi; cbn [astep AInv fst snd] in *;
    try (split; [reflexivity|]; first [exact I|apply FI_refl_clone]).
  - rewrite (inject3_id q s0 k Hi). destruct (E3 F cq k c) as [[x|h] k' c'| |] eqn:Ee; cbn [fst snd AInv]; auto;
      pose proof (frame_evaluate3 D has_ns hc rm rn rr F cq cwf' _ _ _ _ _ _ Hi Ee) as H1;
      (split; [apply absorb3_id, H1|exact I]).
  - rewrite (inject3_id q s0 k Hi). destruct (S3 F cq k cur) as [[x|] k' c'|] eqn:Es; cbn [fst snd AInv]; auto;
      pose proof (frame_select3 D has_ns hc rm rn rr F cq cwf' _ _ _ _ _ _ Hi Es) as H1;
      (split; [apply absorb3_id, H1|first [exact H1|exact I]]).
Qed.

Notation asolo s0 := (gsolo astep s0).

Lemma asolo_done : forall s0 n ob, asolo s0 n (ADone ob) = ADone ob.
Proof. intros s0. induction n as [|n IH]; intros ob; [reflexivity|]. cbn [gsolo astep snd]. apply IH. Qed.

(* the NodeIterator of a call running alone: what IterProtocol3.run_iter3 says *)
Lemma asolo_iter : forall s0 m k cur acc N,
  FI cq (clone_state3 q s0) k -> S m <= N ->
  asolo s0 N (AIter k cur m acc) =
  ADone (let '(l, e, _, _) := run_iter3 D has_ns hc rm rn rr F m (existT _ cq k) cur in
         Obs3Nodes (acc ++ map snd l) e).
Proof.
  intros s0. induction m as [|m IH]; intros k cur acc N Hi HN; (destruct N as [|N]; [lia|]).
  - cbn [gsolo astep snd run_iter3 map]. rewrite asolo_done, app_nil_r. reflexivity.
  - cbn [gsolo]. cbn [astep]. rewrite (inject3_id q s0 k Hi). cbn [run_iter3].
    unfold move_next_it3, select3. cbn [projT1 projT2].
    destruct (S3 F cq k cur) as [[x|] k' c'|] eqn:Es; cbn [snd].
    + pose proof (frame_select3 D has_ns hc rm rn rr F cq cwf' _ _ _ _ _ _ Hi Es) as H1.
      rewrite (IH k' x (acc ++ [x]) N H1 ltac:(lia)).
      destruct (run_iter3 D has_ns hc rm rn rr F m (existT _ cq k') x) as [[[l e] st2] cur2].
      cbn [map snd]. rewrite <- app_assoc. reflexivity.
    + rewrite asolo_done. cbn [map]. rewrite app_nil_r. reflexivity.
    + rewrite asolo_done. cbn [map]. rewrite app_nil_r. reflexivity.
Qed.

(* how many turns a call needs to be sure to have finished *)
Definition steps_needed (o : aop) : nat := match o with ASel _ n => n + 2 | AEv _ n => n + 4 end.

Lemma asolo_select : forall s0 c n N, n + 2 <= N ->
  asolo s0 N (APending (ASel c n)) = ADone (api_select3 rm rn rr hcode D has_ns F (existT _ q s0) c n).
Proof.
  intros s0 c n N HN. destruct N as [|N]; [lia|]. cbn [gsolo astep snd].
  rewrite (asolo_iter s0 n _ c [] N (FI_refl_clone q s0) ltac:(lia)).
  unfold api_select3, iter_consume3, clone3. cbn [projT1 projT2].
  destruct (run_iter3 D has_ns hc rm rn rr F n (existT _ cq (clone_state3 q s0)) c) as [[[l e] st2] cur2].
  reflexivity.
Qed.

Lemma asolo_evaluate : forall s0 c n N, n + 4 <= N ->
  asolo s0 N (APending (AEv c n)) = ADone (api_evaluate3 rm rn rr hcode D has_ns F (existT _ q s0) c n).
Proof.
  intros s0 c n N HN. destruct N as [|[|[|N]]]; try lia. cbn [gsolo]. cbn [astep snd].
  rewrite (inject3_id q s0 _ (FI_refl_clone q s0)).
  unfold api_evaluate3, clone3. cbn [projT1 projT2].
  destruct (E3 F cq (clone_state3 q s0) c) as [[x|h] k' c'| |] eqn:Ee; cbn [snd].
  - destruct N; cbn [gsolo astep snd]; rewrite ?asolo_done; reflexivity.
  - pose proof (frame_evaluate3 D has_ns hc rm rn rr F cq cwf' _ _ _ _ _ _ (FI_refl_clone q s0) Ee) as H1.
    cbn [gsolo]. cbn [astep snd].
    rewrite (asolo_iter s0 n _ c [] N (FI_refl_clone q s0) ltac:(lia)).
    unfold iter_consume3. cbn [projT1 projT2].
    destruct (run_iter3 D has_ns hc rm rn rr F n (existT _ cq (clone_state3 q s0)) c) as [[[l e] st2] cur2].
    reflexivity.
  - destruct N; cbn [gsolo astep snd]; rewrite ?asolo_done; reflexivity.
  - destruct N; cbn [gsolo astep snd]; rewrite ?asolo_done; reflexivity.
Qed.

(* a call that has had enough turns has observed what ApiRefine3's sequential step observes *)
Lemma asolo_step3 : forall s0 o N, steps_needed o <= N ->
  asolo s0 N (APending o) = ADone (snd (step3 rm rn rr hcode q F s0 (op_of o))).
Proof.
  intros s0 [c n|c n] N HN; cbn [steps_needed op_of step3 snd] in *.
  - apply asolo_select, HN.
  - apply asolo_evaluate, HN.
Qed.

(* any schedule: the shared tree is unchanged, call i is its solo run *)
Theorem api_interleaving3 : forall sched s0 (pool : list athread), Forall (AInv s0) pool ->
  fst (grun astep sched s0 pool) = s0 /\
  forall i t, nth_error pool i = Some t ->
    nth_error (snd (grun astep sched s0 pool)) i = Some (asolo s0 (turnsN i sched) t).
Proof.
  intros sched s0 pool Hp.
  destruct (grun_independent astep s0 (AInv s0) (astep_frame s0) sched pool Hp) as (A & _ & C). auto.
Qed.

End ApiConc.

(* ================================================================== *)
(** * 3. Every goroutine gets the list-level answer *)
Section Main.
Variable rm : string -> string -> option bool.
Variable rn : string -> nat.
Variable rr : string -> string -> string -> string.
Variable hcode : tree -> node -> N.
Variable D : tree.
Variable has_ns : bool.
Variable q : query.
Hypothesis sup : m1_supported4 q = true.
Hypothesis wf : frame_wf q = true.

(* enough fuel for all the calls of the pool *)
Lemma pool_fuel : forall (ops : list aop),
  exists F0, forall F, F0 <= F -> forall o ob, In o ops ->
    expected rm rn rr hcode q (op_of D has_ns q o) = Some ob ->
    forall e, snd (step3 rm rn rr hcode q F e (op_of D has_ns q o)) = ob.
Proof.
  induction ops as [|o r [F1 IH]].
  - exists 0. intros F _ o ob [].
  - destruct (expected rm rn rr hcode q (op_of D has_ns q o)) as [x|] eqn:Ex.
    + destruct (step3_expected rm rn rr hcode q sup _ x Ex) as [F2 H2]. exists (Nat.max F1 F2).
      intros F HF o' ob [<-|Hin] Eo e.
      * rewrite Ex in Eo. inversion Eo; subst. apply H2. lia.
      * apply (IH F ltac:(lia) o' ob Hin Eo).
    + exists F1. intros F HF o' ob [<-|Hin] Eo e.
      * rewrite Ex in Eo. discriminate.
      * apply (IH F HF o' ob Hin Eo).
Qed.

(** ** MAIN: k concurrent API calls on one compiled expression *)
Theorem api_calls_any_schedule3 : forall (ops : list aop),
  exists F0, forall F, F0 <= F ->
  forall (sched : list nat) (s0 : state3 q),
    let res := grun (astep rm rn rr hcode D has_ns F q) sched s0 (map (APending q) ops) in
    fst res = s0 /\
    forall i o ob, nth_error ops i = Some o ->
      expected rm rn rr hcode q (op_of D has_ns q o) = Some ob ->
      steps_needed o <= turnsN i sched ->
      nth_error (snd res) i = Some (ADone q ob).
Proof.
  intros ops. destruct (pool_fuel ops) as [F0 H0]. exists F0. intros F HF sched s0 res.
  assert (Hp : Forall (AInv q s0) (map (APending q) ops)).
  { rewrite Forall_forall. intros t Hin. apply in_map_iff in Hin. destruct Hin as (o & <- & _). exact I. }
  destruct (api_interleaving3 rm rn rr hcode D has_ns F q wf sched s0 _ Hp) as (A & C).
  split; [exact A|]. intros i o ob Hi Ex Ht. unfold res.
  rewrite (C i (APending q o) ltac:(rewrite nth_error_map, Hi; reflexivity)).
  rewrite (asolo_step3 rm rn rr hcode D has_ns F q wf s0 o _ Ht).
  rewrite (H0 F HF o ob (nth_error_In _ _ Hi) Ex s0). reflexivity.
Qed.

End Main.

Print Assumptions grun_independent.
Print Assumptions api_interleaving3.
Print Assumptions api_calls_any_schedule3.

(* ================================================================== *)
(** * Example: three goroutines *)
Module ApiConcExamples.
Import AxesSound.Examples IterRefine3.M3Examples.
Open Scope string_scope.
Open Scope list_scope.

(* the final pool, and what the list-level API expects; the tree has been used before *)
Definition final (q : query) (used : nat) (sched : list nat) (ops : list aop) : list (athread q) :=
  let s0 := Nat.iter used (fun s => match sel3 exD false hc lit_match lit_numsubexp lit_replace_all 60 q s root_node with
                                    | R _ s' _ => s' | Stuck => s end) (init3 q) in
  snd (grun (astep lit_match lit_numsubexp lit_replace_all hash_code exD false 60 q) sched s0 (map (APending q) ops)).
Definition want (q : query) (ops : list aop) : list (option (athread q)) :=
  map (fun o => option_map (ADone q) (expected lit_match lit_numsubexp lit_replace_all hash_code q (op_of exD false q o))) ops.

Definition qc := comp "//*[count(*) > 1 or contains(name(), 'b')]".
Definition ops3 := [ASel root_node 1; AEv n_a 5; ASel n_c 3].
Definition sched1 := [0; 0; 0; 1; 1; 1; 1; 1; 1; 1; 1; 1; 2; 2; 2; 2; 2].
Definition sched2 := [2; 1; 0; 1; 2; 1; 0; 1; 2; 1; 1; 2; 0; 1; 2; 1; 1; 9].

Example ex_three_goroutines :
  final qc 2 sched1 ops3 =
    [ADone qc (Obs3Nodes [n_a] E_more); ADone qc (Obs3Nodes [n_a; n_b] E_nil); ADone qc (Obs3Nodes [n_a; n_b] E_nil)] /\
  map Some (final qc 2 sched1 ops3) = want qc ops3 /\
  final qc 0 sched2 ops3 = final qc 2 sched1 ops3.
Proof. vm_compute. repeat split; reflexivity. Qed.
End ApiConcExamples.
