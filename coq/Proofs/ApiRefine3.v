(* ApiRefine3.v — the API layer of xpath.go at cursor level, built on Clone (Model1/Clone3.v):

     func (expr *Expr) Select(root NodeNavigator) *NodeIterator {
         return &NodeIterator{query: expr.q.Clone(), node: root} }

     func (expr *Expr) Evaluate(root NodeNavigator) interface{} {
         val := expr.q.Clone().Evaluate(iteratorFunc(func() NodeNavigator { return root }))
         switch val.(type) {
         case query: return &NodeIterator{query: expr.q.Clone(), node: root}      // a SECOND clone
         }
         return val }

     func (t *NodeIterator) MoveNext() bool {
         n := t.query.Select(t); if n == nil { return false }
         if !t.node.MoveTo(n) { t.node = n.Copy() }; return true }                // IterProtocol3.move_next_it3

   The shared tree expr.q is a value of type [state3 q]: the configuration q that Compile built and
   whatever iteration state its objects are in.  The API never runs it; it runs clones (clone3).
   A history is a list of Select / Evaluate calls, each followed by a number of MoveNext calls on
   the iterator it returned (partial consumption), interleaved with OpDirty3 steps that put the
   shared tree into an ARBITRARY state (this covers direct use of expr.q by a test hook, and
   every conceivable effect on expr.q of running a clone: see CloneRefine3.clone_independent3
   for why there is in fact none).

   MAIN THEOREMS (for m1_supported4 queries; fuel existentially bounded as in IterRefine3/4)
     api_select_any_state3     Expr.Select on a tree in ANY state + n MoveNext = the first n nodes
                               of Api.select, Current() on each of them, E_more / E_nil
     api_evaluate_any_state3   Expr.Evaluate on a tree in ANY state = Api.evaluate (scalar), or the
                               iterator over the second clone delivering the first n nodes
     api_history_independent3  after ANY history, a new call observes what [expected] says:
                               the list-level result of Api.select / Api.evaluate, truncated
     api_trace3                every call INSIDE a history observes it too
     api_refines_purity3       the same, phrased against Proofs/Purity.v's list-level state machine:
                               its observation of the abstract operation is the cursor-level one
     api_state_only_dirty3     only OpDirty3 changes the shared tree                              *)
From XP Require Import Base F64 Doc Ast Hash Eval Api.
From XP.Model1 Require Import Iter Iter2 Iter3 Clone3.
From XP.Proofs Require Import AxesSound IterRefine IterRefine2 Filter IterRefine3 IterRefine4 IterProtocol3
     Absolute CloneRefine3 Purity.
Open Scope nat_scope.
Open Scope list_scope.

(* how a run of n MoveNext ends when the full result has len nodes *)
Definition ending_after (n len : nat) : ending := if n <=? len then E_more else E_nil.

(* ================================================================== *)
(** * 1. Partial consumption of a NodeIterator *)
Section Prefix.
Variable D : tree.
Variable has_ns : bool.
Variable hc : node -> N.
Variable rm : string -> string -> option bool.
Variable rn : string -> nat.
Variable rr : string -> string -> string -> string.
Notation S3 := (sel3 D has_ns hc rm rn rr).
Notation RUNIT := (run_iter3 D has_ns hc rm rn rr).

Lemma run_iter3_Rep_prefix : forall q F c n l b s cur,
  Rep (S3 F q) (position_of3 q) (depth_of3 q) c b s l -> OK c b cur ->
  exists s' cur', RUNIT F n (existT _ q s) cur =
             (map (fun it => (it, it_node it)) (firstn n l), ending_after n (List.length l), existT _ q s', cur').
Proof.
  intros q F c. induction n as [|n IH]; intros l b s cur HR Hok.
  - exists s, cur. reflexivity.
  - destruct l as [|it r].
    + destruct (Rep_nil_step _ _ _ _ _ _ _ HR Hok) as (s' & E & HR').
      exists s', cur. cbn [run_iter3]. unfold move_next_it3, select3. cbn [projT1 projT2]. rewrite E. reflexivity.
    + cbn [Rep] in HR. destruct (HR cur Hok) as (s1 & E & Hp & Hl & HR1).
      destruct (IH r false s1 (it_node it) HR1 (OK_false c _)) as (s' & cur' & Erun).
      exists s', cur'. cbn [run_iter3]. unfold move_next_it3, select3. cbn [projT1 projT2]. rewrite E, Erun.
      unfold position3, depth3. cbn [projT1 projT2]. rewrite Hp, Hl.
      destruct it as [x p lv]. reflexivity.
Qed.
End Prefix.

(* ================================================================== *)
(** * 2. The API over clones *)
Section Api3.
Variable rm : string -> string -> option bool.
Variable rn : string -> nat.
Variable rr : string -> string -> string -> string.
Variable hcode : tree -> node -> N.

Notation ASELECT := (Api.select rm rn rr hcode).
Notation AEVALUATE := (Api.evaluate rm rn rr hcode).

(* what a caller sees *)
Inductive obs3 :=
| Obs3Nodes (l : list node) (e : ending)   (* t.Current() after each successful MoveNext, and how the loop ended *)
| Obs3Value (v : sval)                      (* Evaluate: bool / float64 / string / ... *)
| Obs3Stuck | Obs3Panic (msg : string)
| Obs3None.

(* &NodeIterator{query: it, node: root}, then n times MoveNext *)
Definition iter_consume3 (D : tree) (has_ns : bool) (F n : nat) (it : qstate3) (root : node) : obs3 :=
  let '(l, e, _, _) := run_iter3 D has_ns (hcode D) rm rn rr F n it root in Obs3Nodes (map snd l) e.

(* Expr.Select(root) + n MoveNext *)
Definition api_select3 (D : tree) (has_ns : bool) (F : nat) (e : qstate3) (root : node) (n : nat) : obs3 :=
  iter_consume3 D has_ns F n (clone3 e) root.

(* Expr.Evaluate(root) (+ n MoveNext when the result is an iterator) *)
Definition api_evaluate3 (D : tree) (has_ns : bool) (F : nat) (e : qstate3) (root : node) (n : nat) : obs3 :=
  let k := clone3 e in
  match ev3 D has_ns (hcode D) rm rn rr F (projT1 k) (projT2 k) root with
  | Stuck3 => Obs3Stuck
  | Panic3 m => Obs3Panic m
  | OK3 (CVS x) _ _ => Obs3Value x
  | OK3 (CVQuery _) _ _ => iter_consume3 D has_ns F n (clone3 e) root
  end.

(* the list-level value as the caller sees it *)
Definition obs_of_value (n : nat) (V : value) : obs3 :=
  match V with
  | VBool b => Obs3Value (SBool b) | VNum f => Obs3Value (SNum f) | VStr s => Obs3Value (SStr s)
  | VInt z => Obs3Value (SInt z) | VNil => Obs3Value SNil
  | VNodes l => Obs3Nodes (firstn n (nodes_of l)) (ending_after n (List.length l))
  end.

Lemma nodes_of_unnumbered : forall l, nodes_of (unnumbered l) = l.
Proof. intros l. unfold nodes_of, unnumbered. rewrite map_map. cbn [it_node]. apply map_id. Qed.

(** ** Expr.Select from a tree in any state *)
Theorem api_select_any_state3 : forall D has_ns q (wf : m1_supported4 q = true) c l,
  ASELECT D has_ns q c = Val l ->
  exists F0, forall F, F0 <= F -> forall n (s : state3 q),
    api_select3 D has_ns F (existT _ q s) c n = Obs3Nodes (firstn n l) (ending_after n (List.length l)).
Proof.
  intros D has_ns q wf c l E. unfold Api.select in E.
  destruct (sel D has_ns (hcode D) rm rn rr q c) as [li| |] eqn:Es; cbn [obind] in E; try discriminate.
  inversion E; subst l. clear E.
  assert (wf' : m1_supported4 (clone_cfg3 q) = true) by (rewrite clone_cfg3_supported4; exact wf).
  destruct (m1_main4 D has_ns (hcode D) rm rn rr (clone_cfg3 q) wf') as [HS _].
  assert (E' : sel D has_ns (hcode D) rm rn rr (clone_cfg3 q) c = Val li)
    by (rewrite (proj1 (clone_cfg3_sem D has_ns (hcode D) rm rn rr q)); exact Es).
  destruct (HS c li E') as [F0 H0]. exists F0. intros F HF n s.
  destruct (run_iter3_Rep_prefix D has_ns (hcode D) rm rn rr (clone_cfg3 q) F c n li true (clone_state3 q s) c
              (H0 F HF _ (ResetOK3_clone q s)) (OK_c c true)) as (s' & cur' & Er).
  unfold api_select3, iter_consume3, clone3. cbn [projT1 projT2]. rewrite Er.
  rewrite map_map. cbn [snd]. unfold nodes_of. rewrite firstn_map, map_length. reflexivity.
Qed.

(** ** Expr.Evaluate from a tree in any state *)
Theorem api_evaluate_any_state3 : forall D has_ns q (wf : m1_supported4 q = true) c V,
  AEVALUATE D has_ns q c = Val V ->
  exists F0, forall F, F0 <= F -> forall n (s : state3 q),
    api_evaluate3 D has_ns F (existT _ q s) c n = obs_of_value n V.
Proof.
  intros D has_ns q wf c V E. unfold Api.evaluate in E.
  destruct (eval D has_ns (hcode D) rm rn rr q c) as [V0| |] eqn:Ee; try discriminate.
  destruct (clone_forgets_eval3 D has_ns (hcode D) rm rn rr q wf c V0 Ee) as [F1 H1].
  assert (Hcase : (exists l0, V0 = VNodes l0) \/ (V0 = V /\ forall l0, V0 <> VNodes l0)).
  { destruct V0; try (right; split; [inversion E; reflexivity|intros; discriminate]). left. eauto. }
  destruct Hcase as [[l0 ->]|[-> Hn]].
  - (* a query: the iterator over a second clone *)
    destruct (ASELECT D has_ns q c) as [l| |] eqn:Esel; cbn [obind] in E; try discriminate.
    inversion E; subst V. clear E.
    destruct (api_select_any_state3 D has_ns q wf c l Esel) as [F2 H2].
    exists (Nat.max F1 F2). intros F HF n s.
    destruct (H1 F ltac:(lia) s) as (v & s' & Ev & HV).
    unfold api_evaluate3, clone3. cbn [projT1 projT2]. rewrite Ev.
    destruct v as [x|h]; [destruct x; cbn in HV; contradiction|].
    specialize (H2 F ltac:(lia) n s). unfold api_select3, clone3 in H2. cbn [projT1 projT2] in H2.
    rewrite H2. cbn [obs_of_value]. rewrite nodes_of_unnumbered. unfold unnumbered. rewrite map_length. reflexivity.
  - exists F1. intros F HF n s.
    destruct (H1 F HF s) as (v & s' & Ev & HV).
    unfold api_evaluate3, clone3. cbn [projT1 projT2]. rewrite Ev.
    destruct v as [[b|f|s0|z|]|h]; destruct V; cbn in HV; try contradiction; subst; try reflexivity.
    exfalso. eapply Hn. reflexivity.
Qed.

(* ================================================================== *)
(** * 3. Histories *)
Section Histories.
Variable q : query.                           (* what Compile built: expr.q's configuration *)
Hypothesis wf : m1_supported4 q = true.

Inductive op3 :=
| OpSelect3 (D : tree) (has_ns : bool) (c : node) (consume : nat)
| OpEvaluate3 (D : tree) (has_ns : bool) (c : node) (consume : nat)
| OpDirty3 (s : state3 q).                    (* the shared tree is put into an arbitrary state *)

Definition step3 (F : nat) (e : state3 q) (o : op3) : state3 q * obs3 :=
  match o with
  | OpSelect3 D has_ns c n => (e, api_select3 D has_ns F (existT _ q e) c n)
  | OpEvaluate3 D has_ns c n => (e, api_evaluate3 D has_ns F (existT _ q e) c n)
  | OpDirty3 s => (s, Obs3None)
  end.

Definition run_api3 (F : nat) (h : list op3) (e : state3 q) : state3 q :=
  fold_left (fun e o => fst (step3 F e o)) h e.

Fixpoint trace3 (F : nat) (h : list op3) (e : state3 q) : list obs3 :=
  match h with
  | [] => []
  | o :: r => snd (step3 F e o) :: trace3 F r (fst (step3 F e o))
  end.

(* what the list-level API says the caller must see (None: the list-level run is an error or
   out of fuel; nothing is claimed then) *)
Definition expected (o : op3) : option obs3 :=
  match o with
  | OpSelect3 D has_ns c n =>
    match ASELECT D has_ns q c with
    | Val l => Some (Obs3Nodes (firstn n l) (ending_after n (List.length l)))
    | _ => None
    end
  | OpEvaluate3 D has_ns c n =>
    match AEVALUATE D has_ns q c with
    | Val V => Some (obs_of_value n V)
    | _ => None
    end
  | OpDirty3 _ => Some Obs3None
  end.

(* one call, whatever state the shared tree is in *)
Lemma step3_expected : forall o ob, expected o = Some ob ->
  exists F0, forall F, F0 <= F -> forall e, snd (step3 F e o) = ob.
Proof.
  intros [D has_ns c n|D has_ns c n|s] ob E; cbn [expected] in E.
  - destruct (ASELECT D has_ns q c) as [l| |] eqn:Es; try discriminate. inversion E; subst ob.
    destruct (api_select_any_state3 D has_ns q wf c l Es) as [F0 H0]. exists F0. intros F HF e. apply (H0 F HF).
  - destruct (AEVALUATE D has_ns q c) as [V| |] eqn:Es; try discriminate. inversion E; subst ob.
    destruct (api_evaluate_any_state3 D has_ns q wf c V Es) as [F0 H0]. exists F0. intros F HF e. apply (H0 F HF).
  - inversion E. exists 0. reflexivity.
Qed.

(** ** C04 at cursor level: after any history, from any initial state, a new call returns the
    list-level result *)
Theorem api_history_independent3 : forall o ob, expected o = Some ob ->
  exists F0, forall F, F0 <= F -> forall (h : list op3) (e0 : state3 q),
    snd (step3 F (run_api3 F h e0) o) = ob.
Proof.
  intros o ob E. destruct (step3_expected o ob E) as [F0 H0]. exists F0. intros F HF h e0. apply (H0 F HF).
Qed.

(* ... and so does every call inside the history *)
Theorem api_trace3 : forall (h : list op3),
  exists F0, forall F, F0 <= F -> forall e0,
    Forall2 (fun o ob => forall x, expected o = Some x -> ob = x) h (trace3 F h e0).
Proof.
  induction h as [|o r [F1 IH]].
  - exists 0. intros. constructor.
  - destruct (expected o) as [x|] eqn:Ex.
    + destruct (step3_expected o x Ex) as [F2 H2]. exists (Nat.max F1 F2). intros F HF e0. cbn [trace3].
      constructor; [|apply IH; lia]. intros y Hy. rewrite Ex in Hy. inversion Hy; subst. apply H2. lia.
    + exists F1. intros F HF e0. cbn [trace3]. constructor; [|apply IH; lia]. intros y Hy. rewrite Ex in Hy. discriminate.
Qed.

(* two histories, same answer *)
Corollary api_histories_agree3 : forall o ob, expected o = Some ob ->
  exists F0, forall F, F0 <= F -> forall h1 h2 e1 e2,
    snd (step3 F (run_api3 F h1 e1) o) = snd (step3 F (run_api3 F h2 e2) o).
Proof.
  intros o ob E. destruct (api_history_independent3 o ob E) as [F0 H0]. exists F0. intros F HF h1 h2 e1 e2.
  rewrite (H0 F HF h1 e1), (H0 F HF h2 e2). reflexivity.
Qed.

(* Select and Evaluate leave the shared tree as it is *)
Lemma api_state_only_dirty3 : forall F e o,
  match o with OpDirty3 s => fst (step3 F e o) = s | _ => fst (step3 F e o) = e end.
Proof. intros F e [D has_ns c n|D has_ns c n|s]; reflexivity. Qed.

(** ** against Proofs/Purity.v: the list-level state machine observes the same *)
Definition abs_op (o : op3) : Purity.op :=
  match o with
  | OpSelect3 D has_ns c n => OpSelect D has_ns c n
  | OpEvaluate3 D has_ns c n => OpEvaluate D has_ns c n
  | OpDirty3 _ => OpDirty []
  end.

Definition obs_rel (p : Purity.observation) (ob : obs3) : Prop :=
  match p with
  | ObsNodes (Val l) => exists e, ob = Obs3Nodes l e
  | ObsValue (Val (VNodes l)) => exists e, ob = Obs3Nodes (nodes_of l) e
  | ObsValue (Val V) => ob = obs_of_value 0 V
  | ObsNone => ob = Obs3None
  | _ => True
  end.

Theorem api_refines_purity3 : forall o,
  exists F0, forall F, F0 <= F -> forall (h : list op3) (e0 : state3 q) (habs : list Purity.op),
    obs_rel (snd (Purity.step rm rn rr hcode (Purity.run rm rn rr hcode habs (mkExpr q [])) (abs_op o)))
            (snd (step3 F (run_api3 F h e0) o)).
Proof.
  intros o.
  assert (H : exists F0, forall F, F0 <= F -> forall (h : list op3) (e0 : state3 q),
             obs_rel (snd (Purity.step rm rn rr hcode (mkExpr q []) (abs_op o))) (snd (step3 F (run_api3 F h e0) o))).
  { destruct o as [D has_ns c n|D has_ns c n|s].
    - cbn [abs_op Purity.step snd Purity.clone cfg].
      destruct (ASELECT D has_ns q c) as [l| |] eqn:Es; cbn [obind obs_rel]; try (exists 0; intros; exact I).
      destruct (api_history_independent3 (OpSelect3 D has_ns c n) _ ltac:(cbn [expected]; rewrite Es; reflexivity))
        as [F0 H0].
      exists F0. intros F HF h e0. rewrite (H0 F HF h e0). eauto.
    - cbn [abs_op Purity.step snd Purity.clone cfg].
      destruct (AEVALUATE D has_ns q c) as [V| |] eqn:Es; cbn [obind obs_rel]; try (exists 0; intros; exact I).
      destruct (api_history_independent3 (OpEvaluate3 D has_ns c n) _ ltac:(cbn [expected]; rewrite Es; reflexivity))
        as [F0 H0].
      exists F0. intros F HF h e0. rewrite (H0 F HF h e0).
      destruct V; cbn [truncate_value obs_of_value]; try reflexivity.
      unfold nodes_of. rewrite firstn_map. eauto.
    - exists 0. intros. reflexivity. }
  destruct H as [F0 H0]. exists F0. intros F HF h e0 habs.
  rewrite (Purity.history_independent rm rn rr hcode q habs (abs_op o)). apply (H0 F HF).
Qed.

End Histories.
End Api3.

Print Assumptions run_iter3_Rep_prefix.
Print Assumptions api_select_any_state3.
Print Assumptions api_evaluate_any_state3.
Print Assumptions api_history_independent3.
Print Assumptions api_trace3.
Print Assumptions api_refines_purity3.

(* ================================================================== *)
(** * 4. Examples *)
Module ApiExamples.
Import AxesSound.Examples IterRefine3.M3Examples.
Open Scope string_scope.
Open Scope list_scope.

Definition qx := comp "//*[not(@z)]".
Definition STEPx := step3 lit_match lit_numsubexp lit_replace_all hash_code qx 60.
Definition TRACEx := trace3 lit_match lit_numsubexp lit_replace_all hash_code qx 60.
Definition EXPx := expected lit_match lit_numsubexp lit_replace_all hash_code qx.
(* the shared tree after k Selects run directly on it *)
Definition sel_state (q : query) (s : state3 q) : state3 q :=
  match sel3 exD false hc lit_match lit_numsubexp lit_replace_all 60 q s root_node with
  | R _ s' _ => s' | Stuck => s end.
Definition dirty (k : nat) : state3 qx := Nat.iter k (sel_state qx) (init3 qx).

Definition history : list (op3 qx) :=
  [OpSelect3 qx exD false root_node 2; OpDirty3 qx (dirty 3); OpSelect3 qx exD false root_node 10;
   OpEvaluate3 qx exD false root_node 1; OpDirty3 qx (dirty 5); OpSelect3 qx exD false n_c 3;
   OpEvaluate3 qx exD false root_node 0].

Example ex_api_trace :
  TRACEx history (init3 qx) =
  [Obs3Nodes [n_a; n_b] E_more; Obs3None; Obs3Nodes [n_a; n_b; n_e; n_d] E_nil;
   Obs3Nodes [n_a] E_more; Obs3None; Obs3Nodes [n_a; n_b; n_e] E_more; Obs3Nodes [] E_more] /\
  map Some (TRACEx history (init3 qx)) = map EXPx history.
Proof. vm_compute. split; reflexivity. Qed.

(* the same from an already dirty tree *)
Example ex_api_trace_dirty : TRACEx history (dirty 4) = TRACEx history (init3 qx).
Proof. vm_compute. reflexivity. Qed.

(* Evaluate: a scalar, and an iterator over a second clone *)
Definition qs := comp "concat(name(), '-', string(count(//*[@x])), b)".
Example ex_api_evaluate_scalar :
  api_evaluate3 lit_match lit_numsubexp lit_replace_all hash_code exD false 60 (fresh3 qs) n_a 5 = Obs3Value (SStr "a-1t") /\
  Api.evaluate lit_match lit_numsubexp lit_replace_all hash_code exD false qs n_a = Val (VStr "a-1t").
Proof. vm_compute. split; reflexivity. Qed.
End ApiExamples.
