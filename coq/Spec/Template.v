(* Spec/Template.v — replacement templates of fn:replace.  DEFINITIONS ONLY.

   The engine implements  replace(s, pattern, replacement)  as
       regexp.ReplaceAllString(s, rewritten replacement)
   (func.go, replaceFunc).  Two template languages meet here:

   * Go (package regexp, Regexp.Expand / expand / extract):
       $name  or  ${name},  name = non-empty run of letters, digits, '_',
       taken AS LONG AS POSSIBLE in the $name form; a purely numeric name
       is a submatch index, any other name a named group; out-of-range,
       unmatched or unknown references expand to ""; "$$" is a literal $;
       if no valid form follows a '$' (extract fails), the '$' is copied
       literally and scanning resumes right after it.

   * XPath 2.0 (F&O 7.6.3):  $N with N a decimal number.

   This file models both ([go_expand], [xpath_expand], and the literal F&O
   rule [fo_expand]) and states the classes of templates used by the
   theorems of Proofs/Rewrite.v.  All three are instances of one generic
   left-to-right scanner [scan]; termination is structural (a "characters
   still to skip" counter), no fuel is needed. *)
From XP Require Import Base.
Open Scope string_scope.
Open Scope nat_scope.

(* ------------------------------------------------------------------ *)
(** * Generic left-to-right scanner *)

(* [step c rest] looks at the current byte [c] and at everything after it;
   it returns the text to emit and how many bytes of [rest] are consumed in
   addition to [c].   scan step 0 (c :: rest) = out ++ scan step 0 (drop k rest) *)
Section Scanner.
  Variable step : ascii -> string -> string * nat.

  Fixpoint scan (skip : nat) (s : string) : string :=
    match s with
    | EmptyString => EmptyString
    | String c r =>
      match skip with
      | S k => scan k r
      | 0 => let (out, k) := step c r in out ++ scan k r
      end
    end.
End Scanner.

(* ------------------------------------------------------------------ *)
(** * Bytes, digit strings *)

Definition is_dollar (c : ascii) : bool := Ascii.eqb c "$".

(* the ASCII part of  unicode.IsLetter || unicode.IsDigit || '_' *)
Definition is_name_char (c : ascii) : bool :=
  let n := byte_of c in
  orb (orb (andb (Nat.leb 65 n) (Nat.leb n 90)) (andb (Nat.leb 97 n) (Nat.leb n 122)))
      (orb (is_digit_ascii c) (Nat.eqb n 95)).

(* Go decodes UTF-8 and accepts every Unicode letter / digit in a name.  In
   this byte model a byte >= 0x80 MAY therefore continue a name (if it is
   part of the encoding of a letter).  [go_expand] below stops a name at
   such a byte; the classes of templates for which agreement is PROVED
   exclude, conservatively, every position where that could matter. *)
Definition may_extend_name (c : ascii) : bool :=
  orb (is_name_char c) (Nat.leb 128 (byte_of c)).

Fixpoint take_while (p : ascii -> bool) (s : string) : string :=
  match s with
  | EmptyString => EmptyString
  | String c r => if p c then String c (take_while p r) else EmptyString
  end.

Fixpoint str_all (p : ascii -> bool) (s : string) : bool :=
  match s with
  | EmptyString => true
  | String c r => andb (p c) (str_all p r)
  end.

Definition digit_val (c : ascii) : nat := byte_of c - 48.

Fixpoint dec_acc (acc : nat) (s : string) : nat :=
  match s with
  | EmptyString => acc
  | String c r => dec_acc (10 * acc + digit_val c) r
  end.
(* value of a string of decimal digits *)
Definition dec_val (s : string) : nat := dec_acc 0 s.

Definition head_is (p : ascii -> bool) (s : string) : bool :=
  match s with
  | EmptyString => false
  | String c _ => p c
  end.

(* ------------------------------------------------------------------ *)
(** * Go: Regexp.Expand *)

(* extract(): "Parse number" and "Disallow leading zeros".
   The loop  for i < len(name) { if name[i] < '0' || '9' < name[i] || num >= 1e8
   { num = -1; break }; num = num*10 + ... }  rejects exactly the names with a
   non-digit, and — among names without a leading zero — those of 10 or more
   digits (before the 10th digit num >= 10^8).  Then
   if name[0] == '0' && len(name) > 1 { num = -1 }. *)
Definition leading_zero (name : string) : bool :=
  match name with
  | String c (String _ _) => Ascii.eqb c "0"
  | _ => false
  end.

Definition go_name_num (name : string) : option nat :=
  if andb (andb (str_all is_digit_ascii name) (negb (leading_zero name)))
          (Nat.leb (String.length name) 9)
  then Some (dec_val name) else None.

(* [group n], n <= nsub, is the text of submatch n ("" if it did not
   participate in the match); group 0 is the whole match.  There are no
   named groups in this model (the pattern language of the model has none),
   so a non-numeric name expands to "". *)
Definition go_ref_value (nsub : nat) (group : nat -> string) (name : string) : string :=
  match go_name_num name with
  | Some n => if Nat.leb n nsub then group n else ""
  | None => ""
  end.

Definition go_step (nsub : nat) (group : nat -> string) (c : ascii) (rest : string)
  : string * nat :=
  if negb (is_dollar c) then (String c "", 0) else
  if head_is is_dollar rest then ("$", 1)                 (* "$$" *)
  else if head_is (fun d => Ascii.eqb d "{") rest then    (* "${name}" *)
    let r1 := skipn_s 1 rest in
    let name := take_while is_name_char r1 in
    match name with
    | EmptyString => ("$", 0)                              (* empty name: raw '$' *)
    | _ =>
      if head_is (fun d => Ascii.eqb d "}") (skipn_s (String.length name) r1)
      then (go_ref_value nsub group name, 2 + String.length name)
      else ("$", 0)                                        (* missing '}': raw '$' *)
    end
  else                                                     (* "$name", longest name *)
    let name := take_while is_name_char rest in
    match name with
    | EmptyString => ("$", 0)                              (* malformed: raw '$' *)
    | _ => (go_ref_value nsub group name, String.length name)
    end.

Definition go_expand (nsub : nat) (group : nat -> string) (tmpl : string) : string :=
  scan (go_step nsub group) 0 tmpl.

(* ------------------------------------------------------------------ *)
(** * XPath: "$n read as group n" *)

(* The reference made by '$' followed by the maximal run of digits [ds]:
   the LONGEST prefix of [ds] whose value is a group number 1..nsub; the
   digits after it are literal text.  [xp_pick nsub ds len] tries the prefixes
   of length len, len-1, .., 1 and returns the length of the first hit. *)
Fixpoint xp_pick (nsub : nat) (ds : string) (len : nat) : option nat :=
  match len with
  | 0 => None
  | S l =>
    let n := dec_val (firstn_s len ds) in
    if andb (Nat.leb 1 n) (Nat.leb n nsub) then Some len else xp_pick nsub ds l
  end.

Definition xpath_step (nsub : nat) (group : nat -> string) (c : ascii) (rest : string)
  : string * nat :=
  if negb (is_dollar c) then (String c "", 0) else
  let ds := take_while is_digit_ascii rest in
  match ds with
  | EmptyString => ("$", 0)        (* "$$", "${", "$x", final "$": outside the fragment *)
  | _ =>
    match xp_pick nsub ds (String.length ds) with
    | Some l => (group (dec_val (firstn_s l ds)), l)
    | None =>
      (* no prefix names a group: all the digits form the number; it is 0
         (the whole match) or out of range (empty) *)
      ((if Nat.eqb (dec_val ds) 0 then group 0 else ""), String.length ds)
    end
  end.

Definition xpath_expand (nsub : nat) (group : nat -> string) (repl : string) : string :=
  scan (xpath_step nsub group) 0 repl.

(* ------------------------------------------------------------------ *)
(** * XPath, F&O 7.6.3 to the letter *)

(* "S is the number of parenthesized sub-expressions, N the decimal number
    formed by taking all the digits that consecutively follow the $:
    1. N = 0: the substring matched by the regular expression as a whole.
    2. 1 <= N <= S: the substring captured by the Nth sub-expression.
    3. S < N <= 9: the zero-length string.
    4. Otherwise (N > S and N > 9) the last digit of N is taken to be a
       literal character, and the rules are reapplied using the number N
       formed by stripping off this last digit."
   Result: (number of digits consumed, group referenced if any). *)
Fixpoint fo_pick (nsub : nat) (ds : string) (len : nat) : nat * option nat :=
  match len with
  | 0 => (0, None)
  | S l =>
    let n := dec_val (firstn_s len ds) in
    if Nat.leb n nsub then (len, Some n)
    else if Nat.leb n 9 then (len, None)
    else fo_pick nsub ds l
  end.

Definition fo_step (nsub : nat) (group : nat -> string) (c : ascii) (rest : string)
  : string * nat :=
  if negb (is_dollar c) then (String c "", 0) else
  let ds := take_while is_digit_ascii rest in
  match ds with
  | EmptyString => ("$", 0)
  | _ =>
    match fo_pick nsub ds (String.length ds) with
    | (l, Some n) => (group n, l)
    | (l, None) => ("", l)
    end
  end.

Definition fo_expand (nsub : nat) (group : nat -> string) (repl : string) : string :=
  scan (fo_step nsub group) 0 repl.

(* ------------------------------------------------------------------ *)
(** * Classes of replacement strings *)

(* every '$' is followed by at least one digit *)
Fixpoint dollar_digit (r : string) : bool :=
  match r with
  | EmptyString => true
  | String c r' =>
    andb (if is_dollar c then head_is is_digit_ascii r' else true) (dollar_digit r')
  end.

(* the fragment of the property: every '$' is followed by at least one
   digit, and there is no '{' *)
Definition simple_template (r : string) : bool :=
  andb (dollar_digit r) (str_all (fun c => negb (Ascii.eqb c "{")) r).

(* The condition on ONE reference: [rest] is what follows a '$'.
   ds = the maximal run of digits, after = what follows the digits.
   - ds starts with '0':  ds must be exactly "0" and must not be followed by
     a byte that Go would take into the name;
   - otherwise: either some prefix of ds is a group number (then the engine
     braces it), or ds must not be followed by a byte that Go would take
     into the name. *)
Definition ref_ok (nsub : nat) (rest : string) : bool :=
  let ds := take_while is_digit_ascii rest in
  let after := skipn_s (String.length ds) rest in
  if head_is (fun c => Ascii.eqb c "0") ds
  then andb (Nat.eqb (String.length ds) 1) (negb (head_is may_extend_name after))
  else match xp_pick nsub ds (String.length ds) with
       | Some _ => true
       | None => negb (head_is may_extend_name after)
       end.

Fixpoint refs_ok (nsub : nat) (r : string) : bool :=
  match r with
  | EmptyString => true
  | String c r' => andb (if is_dollar c then ref_ok nsub r' else true) (refs_ok nsub r')
  end.

(* A sufficient condition that does not mention nsub: the digits after a '$'
   have no leading zero (or are exactly "0") and are not followed by a byte
   that Go would take into the name. *)
Definition ref_plain (rest : string) : bool :=
  let ds := take_while is_digit_ascii rest in
  let after := skipn_s (String.length ds) rest in
  andb (orb (negb (head_is (fun c => Ascii.eqb c "0") ds)) (Nat.eqb (String.length ds) 1))
       (negb (head_is may_extend_name after)).

Fixpoint refs_plain (r : string) : bool :=
  match r with
  | EmptyString => true
  | String c r' => andb (if is_dollar c then ref_plain r' else true) (refs_plain r')
  end.

(* F&O to the letter additionally needs: a reference none of whose prefixes
   is a group number consists of a single digit (otherwise rule 4 makes the
   trailing digits literal, while Go reads them into the number). *)
Definition ref_fo_ok (nsub : nat) (rest : string) : bool :=
  let ds := take_while is_digit_ascii rest in
  match xp_pick nsub ds (String.length ds) with
  | Some _ => true
  | None => Nat.eqb (String.length ds) 1
  end.

Fixpoint refs_fo_ok (nsub : nat) (r : string) : bool :=
  match r with
  | EmptyString => true
  | String c r' => andb (if is_dollar c then ref_fo_ok nsub r' else true) (refs_fo_ok nsub r')
  end.
