
val xorb : bool -> bool -> bool

val negb : bool -> bool

type nat =
| O
| S of nat

val option_map : ('a1 -> 'a2) -> 'a1 option -> 'a2 option

val fst : ('a1 * 'a2) -> 'a1

val snd : ('a1 * 'a2) -> 'a2

val length : 'a1 list -> nat

val app : 'a1 list -> 'a1 list -> 'a1 list

type comparison =
| Eq
| Lt
| Gt

val compOpp : comparison -> comparison

val add : nat -> nat -> nat

val mul : nat -> nat -> nat

val sub : nat -> nat -> nat

val eqb : bool -> bool -> bool

type positive =
| XI of positive
| XO of positive
| XH

type n =
| N0
| Npos of positive

type z =
| Z0
| Zpos of positive
| Zneg of positive

module Nat :
 sig
  val sub : nat -> nat -> nat

  val eqb : nat -> nat -> bool

  val leb : nat -> nat -> bool

  val ltb : nat -> nat -> bool

  val compare : nat -> nat -> comparison

  val divmod : nat -> nat -> nat -> nat -> nat * nat

  val div : nat -> nat -> nat

  val modulo : nat -> nat -> nat
 end

module Pos :
 sig
  type mask =
  | IsNul
  | IsPos of positive
  | IsNeg
 end

module Coq_Pos :
 sig
  val succ : positive -> positive

  val add : positive -> positive -> positive

  val add_carry : positive -> positive -> positive

  val pred_double : positive -> positive

  type mask = Pos.mask =
  | IsNul
  | IsPos of positive
  | IsNeg

  val succ_double_mask : mask -> mask

  val double_mask : mask -> mask

  val double_pred_mask : positive -> mask

  val sub_mask : positive -> positive -> mask

  val sub_mask_carry : positive -> positive -> mask

  val mul : positive -> positive -> positive

  val iter : ('a1 -> 'a1) -> 'a1 -> positive -> 'a1

  val div2 : positive -> positive

  val div2_up : positive -> positive

  val size : positive -> positive

  val compare_cont : comparison -> positive -> positive -> comparison

  val compare : positive -> positive -> comparison

  val eqb : positive -> positive -> bool

  val coq_Nsucc_double : n -> n

  val coq_Ndouble : n -> n

  val coq_lxor : positive -> positive -> n

  val shiftl_nat : positive -> nat -> positive

  val iter_op : ('a1 -> 'a1 -> 'a1) -> positive -> 'a1 -> 'a1

  val to_nat : positive -> nat

  val of_succ_nat : nat -> positive
 end

module N :
 sig
  val succ_double : n -> n

  val double : n -> n

  val add : n -> n -> n

  val sub : n -> n -> n

  val mul : n -> n -> n

  val compare : n -> n -> comparison

  val eqb : n -> n -> bool

  val leb : n -> n -> bool

  val ltb : n -> n -> bool

  val pos_div_eucl : positive -> n -> n * n

  val div_eucl : n -> n -> n * n

  val div : n -> n -> n

  val modulo : n -> n -> n

  val coq_lxor : n -> n -> n

  val to_nat : n -> nat

  val of_nat : nat -> n
 end

val zero : char

val one : char

val shift : bool -> char -> char

val ascii_of_pos : positive -> char

val ascii_of_N : n -> char

val ascii_of_nat : nat -> char

val n_of_digits : bool list -> n

val n_of_ascii : char -> n

val nat_of_ascii : char -> nat

val nth_error : 'a1 list -> nat -> 'a1 option

val removelast : 'a1 list -> 'a1 list

val rev : 'a1 list -> 'a1 list

val map : ('a1 -> 'a2) -> 'a1 list -> 'a2 list

val flat_map : ('a1 -> 'a2 list) -> 'a1 list -> 'a2 list

val fold_left : ('a1 -> 'a2 -> 'a1) -> 'a2 list -> 'a1 -> 'a1

val existsb : ('a1 -> bool) -> 'a1 list -> bool

val filter : ('a1 -> bool) -> 'a1 list -> 'a1 list

val firstn : nat -> 'a1 list -> 'a1 list

val skipn : nat -> 'a1 list -> 'a1 list

val seq : nat -> nat -> nat list

module Z :
 sig
  val double : z -> z

  val succ_double : z -> z

  val pred_double : z -> z

  val pos_sub : positive -> positive -> z

  val add : z -> z -> z

  val opp : z -> z

  val sub : z -> z -> z

  val mul : z -> z -> z

  val pow_pos : z -> positive -> z

  val pow : z -> z -> z

  val compare : z -> z -> comparison

  val leb : z -> z -> bool

  val ltb : z -> z -> bool

  val eqb : z -> z -> bool

  val max : z -> z -> z

  val min : z -> z -> z

  val to_nat : z -> nat

  val to_N : z -> n

  val of_nat : nat -> z

  val of_N : n -> z

  val pos_div_eucl : positive -> z -> z * z

  val div_eucl : z -> z -> z * z

  val div : z -> z -> z

  val modulo : z -> z -> z

  val even : z -> bool

  val odd : z -> bool

  val div2 : z -> z

  val log2 : z -> z

  val shiftl : z -> z -> z

  val shiftr : z -> z -> z
 end

val zeq_bool : z -> z -> bool

val eqb0 : char list -> char list -> bool

val append : char list -> char list -> char list

val length0 : char list -> nat

val get : nat -> char list -> char option

val prefix : char list -> char list -> bool

val string_of_list_ascii : char list -> char list

val list_ascii_of_string : char list -> char list

val shift_pos : positive -> positive -> positive

type 'a outcome =
| Val of 'a
| Complaint of char list
| Crash of char list

val obind : 'a1 outcome -> ('a1 -> 'a2 outcome) -> 'a2 outcome

val index_of : char list -> char list -> nat option

val contains : char list -> char list -> bool

val skipn_s : nat -> char list -> char list

val firstn_s : nat -> char list -> char list

val has_suffix : char list -> char list -> bool

val string_rev_acc : char list -> char list -> char list

val string_rev : char list -> char list

val byte_of : char -> nat

val is_upper : char -> bool

val lower_ascii : char -> char

val to_lower : char list -> char list

val is_space_ascii : char -> bool

val trim_left : char list -> char list

val trim_space : char list -> char list

val collapse_spaces : char list -> char list

val normalize_space : char list -> char list

val translate_lookup :
  char -> char list -> nat -> char list -> char option option

val translate : char list -> char list -> char list -> char list

val join : char list -> char list list -> char list

val str_compare : char list -> char list -> comparison

val digit_char : nat -> char

val itoa_fuel : nat -> nat -> char list -> char list

val itoa : nat -> char list

val is_digit_ascii : char -> bool

val string_of_list : char list -> char list

val list_of_string : char list -> char list

val opt_default : 'a1 -> 'a1 option -> 'a1

type spec_float =
| S754_zero of bool
| S754_infinity of bool
| S754_nan
| S754_finite of bool * positive * z

val emin : z -> z -> z

val fexp : z -> z -> z -> z

val digits2_pos : positive -> positive

val zdigits2 : z -> z

val iter_pos : ('a1 -> 'a1) -> positive -> 'a1 -> 'a1

type location =
| Loc_Exact
| Loc_Inexact of comparison

type shr_record = { shr_m : z; shr_r : bool; shr_s : bool }

val shr_1 : shr_record -> shr_record

val loc_of_shr_record : shr_record -> location

val shr_record_of_loc : z -> location -> shr_record

val shr : shr_record -> z -> z -> shr_record * z

val shr_fexp : z -> z -> z -> z -> location -> shr_record * z

val round_nearest_even : z -> location -> z

val binary_round_aux : z -> z -> bool -> z -> z -> location -> spec_float

val shl_align : positive -> z -> z -> positive * z

val binary_round : z -> z -> bool -> positive -> z -> spec_float

val binary_normalize : z -> z -> z -> z -> bool -> spec_float

val sFcompare : spec_float -> spec_float -> comparison option

val sFeqb : spec_float -> spec_float -> bool

val sFltb : spec_float -> spec_float -> bool

val sFleb : spec_float -> spec_float -> bool

val sFmul : z -> z -> spec_float -> spec_float -> spec_float

val cond_Zopp : bool -> z -> z

val sFadd : z -> z -> spec_float -> spec_float -> spec_float

val sFsub : z -> z -> spec_float -> spec_float -> spec_float

val new_location_even : z -> z -> location

val new_location_odd : z -> z -> location

val new_location : z -> z -> location

val sFdiv_core_binary : z -> z -> z -> z -> z -> z -> (z * z) * location

val sFdiv : z -> z -> spec_float -> spec_float -> spec_float

val prec : z

val emax : z

type f64 = spec_float

val fadd : f64 -> f64 -> f64

val fsub : f64 -> f64 -> f64

val fmul : f64 -> f64 -> f64

val fdiv : f64 -> f64 -> f64

val fnan : f64

val fzero : f64

val of_Z : z -> f64

val fone : f64

val fminus_one : f64

val fhalf : f64

val is_nan : f64 -> bool

val is_zero : f64 -> bool

val feq : f64 -> f64 -> bool

val flt : f64 -> f64 -> bool

val fle : f64 -> f64 -> bool

val fgt : f64 -> f64 -> bool

val fge : f64 -> f64 -> bool

val fne : f64 -> f64 -> bool

val floor_pos : z -> z -> z

val is_integral : positive -> z -> bool

val trunc_Z : f64 -> z

val floor_Z : f64 -> z

val ceil_Z : f64 -> z

val of_Z_signed : z -> bool -> f64

val ffloor : f64 -> f64

val fceil : f64 -> f64

val fround_away : f64 -> f64

val min_int64 : z

val go_int : f64 -> z

val fmod : f64 -> f64 -> f64

val of_ratio : bool -> z -> z -> f64

val digits_val : char list -> z -> z

val of_decimal : bool -> char list -> char list -> f64

val pos_digits_fuel : nat -> z -> char list -> char list

val z_digits : z -> char list

val zeros : nat -> char list

val plain : z -> z -> char list

val adjust_up : nat -> z -> z -> z -> z

val adjust_down : nat -> z -> z -> z -> z

val cmp_dec : z -> z -> z -> z -> comparison

val in_interval : bool -> z -> z -> z -> z -> z -> bool

val try_digits : bool -> z -> z -> z -> z -> z -> z -> (z * z) option

val shortest_search : nat -> bool -> z -> z -> z -> z -> z -> z -> z * z

val shortest : positive -> z -> z * z

val strip_zeros : nat -> z -> z -> z * z

val format_f : f64 -> char list

val bits_of : f64 -> z

val of_bits : z -> f64

type kind =
| KRoot
| KElem
| KText
| KComment

type attr = { a_prefix : char list; a_local : char list; a_ns : char list;
              a_value : char list }

type tree =
| T of kind * char list * char list * char list * char list * attr list
   * tree list

val t_kind : tree -> kind

val t_prefix : tree -> char list

val t_local : tree -> char list

val t_ns : tree -> char list

val t_data : tree -> char list

val t_attrs : tree -> attr list

val t_kids : tree -> tree list

type node = { npath : nat list; nattr : nat option }

val root_node : node

val elem_at : nat list -> node

val subtree : tree -> nat list -> tree option

type ntype =
| NTRoot
| NTElem
| NTAttr
| NTText
| NTComment
| NTAll

val ntype_eqb : ntype -> ntype -> bool

val kind_ntype : kind -> ntype

val node_tree : tree -> node -> tree option

val node_attr : tree -> node -> attr option

val node_type : tree -> node -> ntype

val local_name : tree -> node -> char list

val node_prefix : tree -> node -> char list

val node_ns : tree -> node -> char list

val text_of : tree -> char list

val tree_value : tree -> char list

val node_value : tree -> node -> char list

val last_index : nat list -> nat option

val parent_path : nat list -> nat list

val move_parent : node -> node option

val n_attrs : tree -> node -> nat

val n_kids : tree -> node -> nat

val move_next_attr : tree -> node -> node option

val move_child : tree -> node -> node option

val move_next : tree -> node -> node option

val move_prev : node -> node option

val move_first : node -> node option

val children : tree -> node -> node list

val attributes_after : tree -> node -> node list

val below : tree -> nat list list

val descendants : tree -> node -> node list

val desc_or_self : tree -> node -> node list

val prefixes_desc : nat list -> nat -> nat list list

val ancestors : node -> node list

val following_siblings : tree -> node -> node list

val preceding_siblings : node -> node list

val all_nodes : tree -> node list

type itype =
| IComma
| ISlash
| IAt
| IDot
| ILParens
| IRParens
| ILBracket
| IRBracket
| IStar
| IPlus
| IMinus
| IEq
| ILt
| IGt
| IBang
| IDollar
| IApos
| IQuote
| IUnion
| INe
| ILe
| IGe
| IAnd
| IOr
| IDotDot
| ISlashSlash
| IName
| IString
| INumber
| IAxe
| IEOF

val itype_eqb : itype -> itype -> bool

type anode =
| ARoot of char list
| AAxis of char list * ntype * char list * char list * char list * bool
   * char list * anode option
| AFilter of anode * anode
| AFunc of char list * char list * anode list
| AOp of char list * anode * anode
| ANum of f64
| AStr of char list
| AVar of char list * char list
| AGroup of anode

type ntest = { nt_type : ntype; nt_pre : char list; nt_loc : char list;
               nt_hasns : bool; nt_ns : char list }

type cmpop =
| CEq
| CNe
| CLt
| CLe
| CGt
| CGe

type arith =
| OAdd
| OSub
| OMul
| ODiv
| OMod

type fn0 =
| FTrue
| FFalse

type fn1 =
| FCount
| FSum
| FCeiling
| FFloor
| FRound
| FBoolean
| FNumber
| FString
| FNot
| FNormalizeSpace
| FStringLength
| FLowerCase
| FName
| FLocalName
| FNamespaceURI

type fn2 =
| FStartsWith
| FEndsWith
| FContains
| FMatches
| FSubstringBefore
| FSubstringAfter
| FStringJoin

type fn3 =
| FSubstring
| FTranslate
| FReplace

type query =
| QNil
| QNop
| QContext
| QAbsolute
| QAncestor of bool * ntest * query
| QAttribute of ntest * query
| QChild of ntest * query
| QCachedChild of ntest * query
| QDescendant of bool * ntest * query
| QFollowing of bool * ntest * query
| QPreceding of bool * ntest * query
| QParent of ntest * query
| QSelf of ntest * query
| QFilter of bool * query * query
| QFn0 of fn0
| QFn1 of fn1 * query
| QFn2 of fn2 * query * query
| QFn3 of fn3 * query * query * query
| QConcat of query
| QArg of query * query
| QPosition of query
| QLast of query
| QReverse of query
| QNum of f64
| QStr of char list
| QGroup of query
| QLogical of cmpop * query * query
| QNumeric of arith * query * query
| QBoolean of bool * query * query
| QUnion of query * query
| QLastFunc of query
| QDoD of bool * ntest * query
| QMerge of query * query

type item = { it_node : node; it_pos : nat; it_lvl : nat }

type value =
| VBool of bool
| VNum of f64
| VStr of char list
| VNodes of item list
| VInt of z
| VNil

type 'a cres =
| Ok of 'a
| Err of char list
| OutOfFuel

val cbind : 'a1 cres -> ('a1 -> 'a2 cres) -> 'a2 cres

val tbl_first : ((n * n) * n) list

val tbl_second : ((n * n) * n) list

val tbl_digit : ((n * n) * n) list

val tbl_space : ((n * n) * n) list

val in_range : n -> ((n * n) * n) -> bool

val in_table : ((n * n) * n) list -> n -> bool

val bN : char -> n

val cont : char -> bool

val btw : n -> n -> char -> bool

val rune_error : n

val decode : char list -> n * nat

val cur : char list -> n

val cur_size : char list -> nat

val advance : char list -> char list

val is_name_rune : n -> bool

val is_digit_rune : n -> bool

val is_space_rune : n -> bool

type sstate = { s_rest : char list; s_typ : itype; s_name : char list;
                s_prefix : char list; s_strval : char list; s_numval : 
                f64; s_canfunc : bool }

val skip_space : nat -> char list -> char list

val skipsp : char list -> char list

val scan_name_loop : nat -> char list -> char list -> char list * char list

val scan_name : char list -> char list * char list

val scan_string_loop :
  nat -> n -> char list -> char list -> (char list * char list) option

val scan_string : char list -> (char list * char list) option

val scan_digits :
  nat -> char list -> char list -> bool -> (char list * bool) * char list

val finish_number : char list -> char list -> bool -> f64 cres

val scan_number : char list -> (f64 * char list) cres

val scan_fraction : char list -> (f64 * char list) cres

val next_item : sstate -> sstate cres

val init_scanner : char list -> sstate

type pst = { p_s : sstate; p_d : nat }

type 'a pR = ('a * pst) cres

type nsmap = (char list * char list) list option

val ns_lookup : (char list * char list) list -> char list -> char list option

val typ : pst -> itype

val is_typ : pst -> itype -> bool

val pnext : pst -> pst cres

val check_item : pst -> itype -> unit cres

val skip_item : pst -> itype -> pst cres

val test_op : pst -> char list -> bool

val is_node_type : pst -> bool

val is_primary_expr : pst -> bool

val is_step : itype -> bool

val dos_node : anode option -> anode

val bin_loop :
  nat -> (pst -> char list option) -> (pst -> anode pR) -> anode -> pst ->
  anode pR

val bin_level :
  nat -> (pst -> char list option) -> (pst -> anode pR) -> pst -> anode pR

val op_or : pst -> char list option

val op_and : pst -> char list option

val op_eq : pst -> char list option

val op_rel : pst -> char list option

val op_add : pst -> char list option

val op_mul : pst -> char list option

val op_union : pst -> char list option

val minus_loop : nat -> bool -> pst -> (bool * pst) cres

val parse_node_test :
  nsmap -> anode option -> char list -> ntype -> pst -> anode pR

type entry =
| EExpr
| EStep

val pred_loop :
  nat -> (anode option -> pst -> anode pR) -> anode -> pst -> anode pR

val relpath_loop :
  nat -> (anode option -> pst -> anode pR) -> anode option -> pst -> anode pR

val seq_loop :
  nat -> (anode option -> pst -> anode pR) -> anode option -> anode -> pst ->
  anode pR

val args_loop :
  nat -> (anode option -> pst -> anode pR) -> anode list -> pst -> anode list
  pR

val is_operand : anode -> bool

val max_depth : nat

val pgo : nsmap -> nat -> entry -> anode option -> pst -> anode pR

val parse_fuel : nat -> char list -> nsmap -> anode cres

val default_fuel : char list -> nat

val parse : char list -> nsmap -> anode cres

type flags = { f_smart : bool; f_pos : bool; f_filter : bool }

val fl_none : flags

val fl_smart : flags

type props = { pr_posfilter : bool; pr_haspos : bool; pr_haslast : bool;
               pr_nonflat : bool }

val pr_none : props

val pr_or : props -> props -> props

val set_nonflat : props -> props

val set_posfilter : props -> bool -> props

val set_haspos : props -> props

val set_haslast : props -> props

type first = { fi_q : query option; fi_self : bool }

val fi_nil : first

val q_merge : query -> bool

type rtype =
| RBoolean
| RNumber
| RString
| RNodeSet
| RAny

val value_type : query -> rtype

val can_be_number : query -> bool

val axis_test : ntype -> char list -> char list -> bool -> char list -> ntest

val is_context : query -> bool

val reroot : query -> (query * query) option

val is_filter_node : anode -> bool

val max_build_depth : nat

type bR = ((query * props) * first) cres

val self_node_query : query

val list_of_args : query list -> query

val mk_axis :
  char list -> ntest -> flags -> query -> props -> (query * props) cres

val cmp_of : char list -> cmpop option

val arith_of : char list -> arith option

val index_panic : char list

val process : (char list -> bool) -> nat -> anode -> flags -> first -> bR

val build_fuel :
  (char list -> bool) -> nat -> char list -> nsmap -> query cres

val type_byte : ntype -> char

val lp : char list -> char list

val index_suffix : nat list -> char list

val path_suffix : nat list -> char list

val hash_key : tree -> node -> char list

val fnv_offset : n

val fnv_prime : n

val two64 : n

val fnv64a : char list -> n -> n

val hash_code : tree -> node -> n

val match_test : tree -> bool -> ntest -> node -> bool

val number_from : nat -> nat -> node list -> item list

val numbered : node list -> item list

val unnumbered : node list -> item list

val step_child : tree -> bool -> ntest -> node -> item list

val step_attribute : tree -> bool -> ntest -> node -> item list

val number_desc : nat -> nat -> node list -> item list

val step_descendant : tree -> bool -> bool -> ntest -> node -> item list

val step_ancestor_raw : tree -> bool -> bool -> ntest -> node -> node list

val step_parent : tree -> bool -> ntest -> node -> item list

val step_self : tree -> bool -> ntest -> node -> item list

val step_following_sibling : tree -> bool -> ntest -> node -> item list

val step_preceding_sibling : tree -> bool -> ntest -> node -> item list

val self_and_ancestors : node -> node list

val step_following : tree -> bool -> ntest -> node -> item list

val step_preceding : tree -> bool -> ntest -> node -> item list

val top_below : tree -> bool -> ntest -> tree -> nat list -> node list

val step_dod : tree -> bool -> bool -> ntest -> node -> item list

val dedup_hash : tree -> n list -> node list -> node list * n list

val ancestors_all :
  tree -> bool -> bool -> ntest -> n list -> node list -> node list

val xpath_number_string : f64 -> char list

val is_xml_space : char -> bool

val trim_left_xml : char list -> char list

val trim_xml : char list -> char list

val split_number :
  char list -> bool -> char list -> char list -> (char list * char list)
  option

val string_to_number : char list -> f64

val first_value : tree -> item list -> char list option

val as_bool : value -> bool outcome

val as_string : tree -> value -> char list outcome

val as_number : tree -> value -> f64

val cmp_num : cmpop -> f64 -> f64 -> bool

val cmp_str : cmpop -> char list -> char list -> bool

val values_of : tree -> item list -> char list list

val bool_num : tree -> value -> f64 outcome

val cmp_boolean_any : tree -> cmpop -> value -> value -> bool outcome

val compare_values : tree -> cmpop -> value -> value -> value outcome

val arith_op : arith -> f64 -> f64 -> f64

val str_or_first : tree -> value -> char list

val xround : f64 -> f64

val substring_go : char list -> f64 -> f64 option -> char list

val replace_all_fuel : nat -> char list -> char list -> char list -> char list

val replace_all : char list -> char list -> char list -> char list

val rewrite_refs : nat -> char list -> char list

val query_test : tree -> bool -> query -> node -> bool

val position_of : (node -> bool) -> node -> f64

val last_of : tree -> (node -> bool) -> node -> f64

val pm_get : (nat * nat) list -> nat -> nat

val pm_set : (nat * nat) list -> nat -> nat -> (nat * nat) list

val oflat_map : ('a1 -> 'a2 list outcome) -> 'a1 list -> 'a2 list outcome

val nodes_of : item list -> node list

val truth_of_filter : value -> nat -> bool

val regroup : nat -> item list -> item list

val sel_body :
  tree -> bool -> (query -> node -> item list outcome) -> (query -> node ->
  value outcome) -> query -> node -> item list outcome

val sel :
  tree -> bool -> (char list -> char list -> bool option) -> (char list ->
  nat) -> (char list -> char list -> char list -> char list) -> query -> node
  -> item list outcome

val eval :
  tree -> bool -> (char list -> char list -> bool option) -> (char list ->
  nat) -> (char list -> char list -> char list -> char list) -> query -> node
  -> value outcome

val compile_fuel :
  (char list -> bool) -> nat -> char list -> nsmap -> query cres

val compile : (char list -> bool) -> char list -> nsmap -> query cres

val select :
  (char list -> char list -> bool option) -> (char list -> nat) -> (char list
  -> char list -> char list -> char list) -> tree -> bool -> query -> node ->
  node list outcome

val evaluate :
  (char list -> char list -> bool option) -> (char list -> nat) -> (char list
  -> char list -> char list -> char list) -> tree -> bool -> query -> node ->
  value outcome

val lit_char : char -> bool

val all_lit : char list -> bool

val lit_ok : char list -> bool

val lit_match : char list -> char list -> bool option

val lit_numsubexp : char list -> nat

val lit_replace_all : char list -> char list -> char list -> char list

val hex_digit : n -> char

val hex_digit_up : n -> char

val hex_fixed : nat -> n -> char list -> char list

val is_plain : char -> bool

val esc : char list -> char list

val path_str : nat list -> char list

val addr : node -> char list

val addrs : node list -> char list

val z_str : z -> char list

val f64_str : f64 -> char list

val render_value : value -> char list

val render_outcome : ('a1 -> char list) -> 'a1 outcome -> char list

val ntype_num : ntype -> char list

val bstr : bool -> char list

val b01 : bool -> char list

val dump_ast : anode -> char list

val cmp_name : cmpop -> char list

val dump_query : query -> char list

val render_cres : ('a1 -> char list) -> 'a1 cres -> char list

val no_dollar : char list -> bool

val regex_outside : anode -> bool

val with_query : char list -> nsmap -> (query -> char list) -> char list

val run_sel : tree -> bool -> char list -> nsmap -> node -> char list

val run_eval : tree -> bool -> char list -> nsmap -> node -> char list

val run_compile : char list -> nsmap -> char list

val run_parse : char list -> nsmap -> char list

val run_qdump : char list -> nsmap -> char list

val run_hash : tree -> node -> char list

val opt_addr : node option -> char list

val run_nav : tree -> char list -> node -> char list

val run_num : char list -> char list -> char list

val run_fmt : n -> char list
