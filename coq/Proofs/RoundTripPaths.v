(* RoundTripPaths.v — C10, stage 3: location paths, predicates, function calls,
   and the abbreviations.

   Part A: judgements for steps ([StepP]), predicate lists ([PredsP]), relative
           paths ([RelP]), argument lists ([ArgsP]) and their rules.
   Part B: the full expression datatype (mutual), printer, intended tree,
           round trip.
   Part C: each abbreviation means its expansion. *)
From XP Require Import Base F64 Doc Ast Scan Parse.
From XP.Proofs Require Import ParseTerm ParseAssoc ParseReject ScanTokens RoundTripOps.
Require Import Lia.
Open Scope nat_scope.
Open Scope string_scope.
Open Scope list_scope.

(* ------------------------------------------------------------------ *)
(** * A. Steps, predicates, paths, calls                                *)
(* ------------------------------------------------------------------ *)

Definition node_type_name (nm : string) : bool :=
  orb (orb (String.eqb nm "node") (String.eqb nm "text"))
      (orb (String.eqb nm "processing-instruction") (String.eqb nm "comment")).

Lemma is_node_type_At : forall st d w nm L',
  AtL st d ((w, TName nm) :: L') -> is_node_type st = node_type_name nm.
Proof.
  intros st d w nm L' [HS _]. pose proof (st_fld _ _ _ HS) as [Hn [Hp _]].
  unfold is_node_type, node_type_name. rewrite Hn, Hp.
  destruct (orb _ _); reflexivity.
Qed.

Lemma canfunc_At : forall st d w nm L',
  AtL st d ((w, TName nm) :: L') -> s_canfunc (p_s st) = next_lparen L'.
Proof. intros st d w nm L' [HS _]. pose proof (st_fld _ _ _ HS) as [_ [_ Hc]]. exact Hc. Qed.

Lemma name_At : forall st d w nm L',
  AtL st d ((w, TName nm) :: L') -> s_name (p_s st) = nm /\ s_prefix (p_s st) = "".
Proof. intros st d w nm L' [HS _]. pose proof (st_fld _ _ _ HS) as [Hn [Hp _]]. auto. Qed.

Lemma star_AtL : forall st d L, AtL st d L -> s_name (p_s st) <> "*".
Proof. intros st d [|[w t] r] H; [contradiction|]. destruct H as [HS _]. apply (st_star _ _ _ HS). Qed.

(* the first token of L is not of type x *)
Definition hd_typ_not (x : itype) (L : layout) : Prop :=
  match L with [] => False | (_, t) :: _ => ttyp t <> x end.

Lemma is_typ_hd_not : forall st d L x, AtL st d L -> hd_typ_not x L -> is_typ st x = false.
Proof.
  intros st d [|[w t] r] x HA H; [contradiction|]. cbn [hd_typ_not] in H.
  rewrite (is_typ_At _ _ _ _ _ x HA).
  destruct (itype_eqb (ttyp t) x) eqn:E; [|reflexivity]. apply itype_eqb_eq in E. congruence.
Qed.

Lemma hd_typ_not_ne : forall x L, hd_typ_not x L -> L <> [].
Proof. intros x L H ->. exact H. Qed.

Lemma next_lparen_hd : forall L, hd_typ_not ILParens L -> next_lparen L = false.
Proof.
  intros [|[w t] r] H; [reflexivity|]. cbn [hd_typ_not next_lparen] in *.
  destruct t as [| | | |p|]; try reflexivity. destruct p; try reflexivity. cbn in H. congruence.
Qed.

Lemma follow1_hd : forall k L, follow1 k L ->
  hd_typ_not ILBracket L /\ hd_typ_not ISlash L /\ hd_typ_not ISlashSlash L /\ hd_typ_not ILParens L.
Proof.
  intros k [|[w t] r] H; [contradiction|]. cbn [follow1 hd_typ_not] in *.
  destruct (follow_ok_typ _ _ H) as [H1 [H2 H3]]. repeat split; try assumption.
  unfold follow_ok in H. destruct t as [| | | |p|]; cbn [ttyp]; try discriminate.
  destruct p; discriminate.
Qed.

Section Paths.
Variable ns : nsmap.

(* ---- predicate lists ---- *)
Definition PredsP (dn : nat) (ts : list token) (h : anode -> anode) : Prop :=
  forall f g acc d st lts L1,
    List.length ts <= f -> List.length ts + 1 <= g -> d + dn <= max_depth ->
    map snd lts = ts -> AtL st d (lts ++ L1) -> hd_typ_not ILBracket L1 ->
    exists st', pred_loop g (pgo ns f EExpr) acc st = Ok (h acc, st') /\ AtL st' d L1.

Lemma PredsP_depth : forall dn dn' ts h, dn <= dn' -> PredsP dn ts h -> PredsP dn' ts h.
Proof. intros dn dn' ts h Hd H f g acc d st lts L1 Hf Hg Hdd. apply H; [exact Hf|exact Hg|lia]. Qed.

Lemma Preds_nil : PredsP 0 [] (fun a => a).
Proof.
  intros f g acc d st lts L1 Hf Hg Hd Hm HA Hb.
  destruct lts; [|discriminate]. cbn [app] in HA.
  destruct g as [|g]; [cbn in Hg; lia|]. cbn [pred_loop].
  rewrite (is_typ_hd_not _ _ _ _ HA Hb). exists st. auto.
Qed.

Lemma Preds_cons : forall dn ets c ts h,
  ParsesE ns dn ets c -> PredsP (S dn) ts h ->
  PredsP (S dn) (TP ILBracket :: ets ++ TP IRBracket :: ts) (fun a => h (AFilter a c)).
Proof.
  intros dn ets c ts h HE HP f g acc d st lts L1 Hf Hg Hd Hm HA Hb.
  cbn [List.length] in Hf, Hg. rewrite app_length in Hf, Hg. cbn [List.length] in Hf, Hg.
  destruct lts as [|[w0 t0] lts]; [discriminate|]. cbn [map snd] in Hm.
  inversion Hm as [[Ht0 Hm']]. subst t0.
  destruct (map_snd_app_inv lts _ _ Hm') as [l2 [l3 [E [H2 H3]]]]. subst lts.
  destruct l3 as [|[w3 t3] l3]; [discriminate|]. cbn [map snd] in H3.
  inversion H3 as [[Ht3 H3']]. subst t3.
  cbn [app] in HA. rewrite <- app_assoc in HA. cbn [app] in HA.
  destruct g as [|g]; [lia|]. cbn [pred_loop].
  rewrite (is_typ_At _ _ _ _ _ ILBracket HA). cbn [ttyp itype_eqb].
  assert (Hne : l2 ++ (w3, TP IRBracket) :: l3 ++ L1 <> []) by (destruct l2; discriminate).
  destruct (skip_item_At _ _ _ _ _ HA Hne) as [st1 [Hs1 HA1]]. cbn [ttyp] in Hs1.
  rewrite Hs1. cbn [cbind].
  destruct (HE f (Some acc) d st1 l2 ((w3, TP IRBracket) :: l3 ++ L1)) as [st2 [Hp HA2]];
    [lia|lia|exact H2|exact HA1|reflexivity|].
  rewrite Hp. cbn [cbind].
  assert (Hne3 : l3 ++ L1 <> []).
  { pose proof (hd_typ_not_ne _ _ Hb). destruct l3; [assumption|discriminate]. }
  destruct (skip_item_At _ _ _ _ _ HA2 Hne3) as [st3 [Hs3 HA3]]. cbn [ttyp] in Hs3.
  rewrite Hs3. cbn [cbind].
  apply (HP f g (AFilter acc c) d st3 l3 L1); [lia|lia|exact Hd|exact H3'|exact HA3|exact Hb].
Qed.

(* ---- step heads: everything of parseStep before the predicate loop ---- *)
Definition HeadP (ts : list token) (g : option anode -> anode) : Prop :=
  forall f pe ps n d st lts L1,
    1 <= f -> map snd lts = ts -> AtL st d (lts ++ L1) -> hd_typ_not ILParens L1 ->
    exists st', AtL st' d L1 /\ step_b ns f pe ps n st = pred_loop f pe (g n) st'.

Definition axis_node (axis : string) (tt : ntype) (loc prop : string) (n : option anode) : anode :=
  AAxis axis tt "" loc prop false "" n.

Lemma pred_loop_if : forall f pe o st1, 1 <= f ->
  (if is_typ st1 ILBracket then pred_loop f pe o st1 else Ok (o, st1)) = pred_loop f pe o st1.
Proof.
  intros f pe o st1 Hf. destruct f as [|f]; [lia|].
  destruct (is_typ st1 ILBracket) eqn:E; [reflexivity|]. cbn [pred_loop]. rewrite E. reflexivity.
Qed.

Lemma Head_dot : HeadP [TP IDot] (axis_node "self" NTAll "" "").
Proof.
  intros f pe ps n d st lts L1 Hf Hm HA Hl.
  destruct lts as [|[w t] [|x lts]]; try discriminate. inversion Hm as [Ht]. subst t.
  cbn [app] in HA.
  destruct (pnext_At _ _ _ _ _ HA (hd_typ_not_ne _ _ Hl)) as [st1 [Hn HA1]].
  exists st1. split; [exact HA1|].
  unfold step_b. rewrite !(is_typ_At _ _ _ _ _ _ HA). cbn [ttyp itype_eqb orb].
  cbv zeta. rewrite Hn. cbn [cbind]. apply pred_loop_if. exact Hf.
Qed.

Lemma Head_dotdot : HeadP [TP IDotDot] (axis_node "parent" NTAll "" "").
Proof.
  intros f pe ps n d st lts L1 Hf Hm HA Hl.
  destruct lts as [|[w t] [|x lts]]; try discriminate. inversion Hm as [Ht]. subst t.
  cbn [app] in HA.
  destruct (pnext_At _ _ _ _ _ HA (hd_typ_not_ne _ _ Hl)) as [st1 [Hn HA1]].
  exists st1. split; [exact HA1|].
  unfold step_b. rewrite !(is_typ_At _ _ _ _ _ _ HA). cbn [ttyp itype_eqb orb].
  cbv zeta. rewrite Hn. cbn [cbind]. apply pred_loop_if. exact Hf.
Qed.

(* node tests *)
Inductive ntst :=
| NName (nm : string)        (* a *)
| NStar                      (* * *)
| NType (nm : string).       (* node() text() comment() processing-instruction() *)

Definition ntoks (t : ntst) : list token :=
  match t with
  | NName nm => [TName nm]
  | NStar => [TP IStar]
  | NType nm => [TName nm; TP ILParens; TP IRParens]
  end.

Definition nt_ok (t : ntst) : bool :=
  match t with NType nm => node_type_name nm | _ => true end.

(* the axisNode that parseNodeTest builds *)
Definition nt_node (axis : string) (t : ntst) (n : option anode) : anode :=
  let mt := if String.eqb axis "attribute" then NTAttr else NTElem in
  match t with
  | NName nm => axis_node axis mt nm "" n
  | NStar => axis_node axis mt "" "" n
  | NType nm =>
    axis_node axis (if String.eqb nm "comment" then NTComment
                    else if String.eqb nm "text" then NTText
                    else if String.eqb nm "processing-instruction" then mt
                    else NTAll) "" nm n
  end.

Lemma node_test_At : forall t axis mt n d st lts L1,
  nt_ok t = true -> mt = (if String.eqb axis "attribute" then NTAttr else NTElem) ->
  map snd lts = ntoks t -> AtL st d (lts ++ L1) -> hd_typ_not ILParens L1 ->
  exists st', parse_node_test ns n axis mt st = Ok (nt_node axis t n, st') /\ AtL st' d L1.
Proof.
  intros t axis mt n d st lts L1 Hok Hmt Hm HA Hl.
  pose proof (hd_typ_not_ne _ _ Hl) as HneL.
  destruct t as [nm| |nm]; cbn [ntoks] in Hm.
  - destruct lts as [|[w t] [|x lts]]; try discriminate. inversion Hm as [Ht]. subst t.
    cbn [app] in HA.
    destruct (pnext_At _ _ _ _ _ HA HneL) as [st1 [Hn HA1]].
    exists st1. split; [|exact HA1].
    unfold parse_node_test. rewrite (typ_At _ _ _ _ _ HA). cbn [ttyp].
    rewrite (canfunc_At _ _ _ _ _ HA). rewrite (next_lparen_hd _ Hl). cbn [andb].
    destruct (name_At _ _ _ _ _ HA) as [Hnm Hpre]. rewrite Hnm, Hpre. rewrite Hn. cbn [cbind].
    cbv zeta.
    replace (String.eqb (s_name (p_s st1)) "*") with false
      by (symmetry; apply String.eqb_neq; apply (star_AtL _ _ _ HA1)).
    cbn [String.eqb negb andb]. unfold nt_node, axis_node. rewrite <- Hmt. reflexivity.
  - destruct lts as [|[w t] [|x lts]]; try discriminate. inversion Hm as [Ht]. subst t.
    cbn [app] in HA.
    destruct (pnext_At _ _ _ _ _ HA HneL) as [st1 [Hn HA1]].
    exists st1. split; [|exact HA1].
    unfold parse_node_test. rewrite (typ_At _ _ _ _ _ HA). cbn [ttyp].
    rewrite Hn. cbn [cbind]. unfold nt_node, axis_node. rewrite <- Hmt. reflexivity.
  - destruct lts as [|[w t] [|[w2 t2] [|[w3 t3] [|x lts]]]]; try discriminate.
    inversion Hm as [[Ht Ht2 Ht3]]. subst t t2 t3. cbn [app] in HA.
    destruct (pnext_At _ _ _ _ _ HA ltac:(discriminate)) as [st1 [Hn HA1]].
    destruct (skip_item_At _ _ _ _ _ HA1 ltac:(discriminate)) as [st2 [Hs2 HA2]].
    destruct (skip_item_At _ _ _ _ _ HA2 HneL) as [st3 [Hs3 HA3]].
    cbn [ttyp] in Hs2, Hs3.
    exists st3. split; [|exact HA3].
    unfold parse_node_test. rewrite (typ_At _ _ _ _ _ HA). cbn [ttyp].
    rewrite (canfunc_At _ _ _ _ _ HA). cbn [next_lparen].
    rewrite (is_node_type_At _ _ _ _ _ HA). cbn [nt_ok] in Hok. rewrite Hok. cbn [andb].
    destruct (name_At _ _ _ _ _ HA) as [Hnm _]. rewrite Hnm.
    rewrite Hn. cbn [cbind]. rewrite Hs2. cbn [cbind].
    rewrite (is_typ_At _ _ _ _ _ IRParens HA2). cbn [ttyp itype_eqb negb].
    rewrite Bool.andb_false_r. cbn [cbind]. rewrite Hs3. cbn [cbind].
    unfold nt_node, axis_node. rewrite <- Hmt. reflexivity.
Qed.

(* axis specifiers *)
Inductive axsp :=
| AxChild                               (* nothing: child *)
| AxAt                                  (* @ *)
| AxName (ax : string) (w : list ascii).  (* ax :: *)

Definition axtoks (a : axsp) : list token :=
  match a with AxChild => [] | AxAt => [TP IAt] | AxName ax w => [TAxe ax w] end.
Definition axname (a : axsp) : string :=
  match a with AxChild => "child" | AxAt => "attribute" | AxName ax _ => ax end.

Lemma nt_first_not_special : forall t ts, ntoks t ++ ts <> [] /\
  match ntoks t ++ ts with
  | x :: _ => ttyp x = IName \/ ttyp x = IStar
  | [] => False
  end.
Proof. intros [nm| |nm] ts; cbn; split; try discriminate; auto. Qed.

Lemma Head_axis : forall a t, nt_ok t = true ->
  HeadP (axtoks a ++ ntoks t) (nt_node (axname a) t).
Proof.
  intros a t Hok f pe ps n d st lts L1 Hf Hm HA Hl.
  destruct (map_snd_app_inv lts _ _ Hm) as [l1 [l2 [E [H1 H2]]]]. subst lts.
  rewrite <- app_assoc in HA.
  assert (Hl2 : l2 <> []) by (intros ->; destruct t; discriminate).
  destruct a as [| |ax aw]; cbn [axtoks axname] in *.
  - destruct l1; [|discriminate]. cbn [app] in HA.
    destruct (node_test_At t "child" NTElem n d st l2 L1 Hok eq_refl H2 HA Hl) as [st' [Hp HA']].
    exists st'. split; [exact HA'|].
    assert (Hty : typ st = IName \/ typ st = IStar).
    { destruct l2 as [|[w0 t0] l2]; [congruence|]. cbn [app] in HA.
      rewrite (typ_At _ _ _ _ _ HA). destruct t; inversion H2; subst; cbn; auto. }
    unfold step_b, is_typ.
    destruct Hty as [Hty|Hty]; rewrite Hty; cbn [itype_eqb orb cbind];
      cbv zeta; cbn [String.eqb Ascii.eqb Bool.eqb]; rewrite Hp; reflexivity.
  - destruct l1 as [|[w0 t0] [|x l1]]; try discriminate. inversion H1 as [Ht0]. subst t0.
    cbn [app] in HA.
    assert (Hne : l2 ++ L1 <> []) by (destruct l2; [congruence|discriminate]).
    destruct (pnext_At _ _ _ _ _ HA Hne) as [st1 [Hn HA1]].
    destruct (node_test_At t "attribute" NTAttr n d st1 l2 L1 Hok eq_refl H2 HA1 Hl) as [st' [Hp HA']].
    exists st'. split; [exact HA'|].
    unfold step_b, is_typ. rewrite (typ_At _ _ _ _ _ HA). cbn [ttyp itype_eqb orb].
    rewrite Hn. cbn [cbind]. cbv zeta. cbn [String.eqb Ascii.eqb Bool.eqb]. rewrite Hp. reflexivity.
  - destruct l1 as [|[w0 t0] [|x l1]]; try discriminate. inversion H1 as [Ht0]. subst t0.
    cbn [app] in HA.
    assert (Hne : l2 ++ L1 <> []) by (destruct l2; [congruence|discriminate]).
    destruct (pnext_At _ _ _ _ _ HA Hne) as [st1 [Hn HA1]].
    destruct (node_test_At t ax _ n d st1 l2 L1 Hok eq_refl H2 HA1 Hl) as [st' [Hp HA']].
    exists st'. split; [exact HA'|].
    unfold step_b, is_typ. rewrite (typ_At _ _ _ _ _ HA). cbn [ttyp itype_eqb orb].
    destruct HA as [HS _]. pose proof (st_fld _ _ _ HS) as Hax. cbn beta iota in Hax.
    cbv zeta. rewrite Hax. rewrite Hn. cbn [cbind]. rewrite Hp. reflexivity.
Qed.


(* ---- steps ---- *)
Definition StepP (dn : nat) (ts : list token) (g : option anode -> anode) : Prop :=
  forall f n d st lts L1,
    List.length ts + 1 <= f -> d + dn <= max_depth ->
    map snd lts = ts -> AtL st d (lts ++ L1) ->
    hd_typ_not ILBracket L1 -> hd_typ_not ILParens L1 ->
    exists st', pgo ns f EStep n st = Ok (g n, st') /\ AtL st' d L1.

Definition preds_start (ts : list token) : Prop :=
  match ts with [] => True | t :: _ => t = TP ILBracket end.

Theorem Step_mk : forall dn hts g pts h,
  hts <> [] -> HeadP hts g -> PredsP dn pts h -> preds_start pts ->
  StepP dn (hts ++ pts) (fun n => h (g n)).
Proof.
  intros dn hts g pts h Hne HH HP Hps f n d st lts L1 Hf Hd Hm HA Hb Hl.
  rewrite app_length in Hf.
  assert (Hh : 1 <= List.length hts) by (destruct hts; [congruence|cbn; lia]).
  destruct (map_snd_app_inv lts _ _ Hm) as [l1 [l2 [E [H1 H2]]]]. subst lts.
  rewrite <- app_assoc in HA.
  destruct f as [|f]; [lia|].
  destruct (HH f (pgo ns f EExpr) (pgo ns f EStep) n d st l1 (l2 ++ L1)) as [st1 [HA1 Heq]];
    [lia|exact H1|exact HA| |].
  { destruct l2 as [|[w2 t2] l2]; [exact Hl|]. cbn [app hd_typ_not].
    rewrite <- H2 in Hps. cbn in Hps. rewrite Hps. discriminate. }
  destruct (HP f f (g n) d st1 l2 L1) as [st2 [Hp HA2]];
    [lia|lia|exact Hd|exact H2|exact HA1|exact Hb|].
  exists st2. split; [|exact HA2].
  rewrite pgo_S_step. rewrite Heq. exact Hp.
Qed.

(* ---- relative location paths ---- *)
Definition RelP (dn : nat) (ts : list token) (g : option anode -> anode) : Prop :=
  forall f k n d st lts L1,
    List.length ts + 1 <= f -> List.length ts + 1 <= k -> d + dn <= max_depth ->
    map snd lts = ts -> AtL st d (lts ++ L1) ->
    hd_typ_not ILBracket L1 -> hd_typ_not ILParens L1 ->
    hd_typ_not ISlash L1 -> hd_typ_not ISlashSlash L1 ->
    exists st', relpath_loop k (pgo ns f EStep) n st = Ok (g n, st') /\ AtL st' d L1.

Lemma typ_hd_not : forall st d L x, AtL st d L -> hd_typ_not x L -> typ st <> x.
Proof.
  intros st d [|[w t] r] x HA H; [contradiction|]. rewrite (typ_At _ _ _ _ _ HA). exact H.
Qed.

Theorem Rel_one : forall dn ts g, StepP dn ts g -> RelP dn ts g.
Proof.
  intros dn ts g HS f k n d st lts L1 Hf Hk Hd Hm HA Hb Hl Hs Hss.
  destruct (HS f n d st lts L1 Hf Hd Hm HA Hb Hl) as [st1 [Hp HA1]].
  exists st1. split; [|exact HA1].
  destruct k as [|k]; [lia|]. cbn [relpath_loop]. rewrite Hp. cbn [cbind].
  pose proof (typ_hd_not _ _ _ _ HA1 Hs). pose proof (typ_hd_not _ _ _ _ HA1 Hss).
  destruct (typ st1); try reflexivity; congruence.
Qed.

Theorem Rel_slash : forall dn ts1 g1 ts2 g2,
  ts1 <> [] -> ts2 <> [] -> StepP dn ts1 g1 -> RelP dn ts2 g2 ->
  RelP dn (ts1 ++ TP ISlash :: ts2) (fun n => g2 (Some (g1 n))).
Proof.
  intros dn ts1 g1 ts2 g2 Hne1 Hne2 HS HR f k n d st lts L1 Hf Hk Hd Hm HA Hb Hl Hs Hss.
  rewrite app_length in Hf, Hk. cbn [List.length] in Hf, Hk.
  destruct (map_snd_app_inv lts _ _ Hm) as [l1 [l2 [E [H1 H2]]]]. subst lts.
  destruct l2 as [|[ws ts] l2]; [discriminate|]. cbn [map snd] in H2.
  inversion H2 as [[Hts H2']]. subst ts.
  rewrite <- app_assoc in HA. cbn [app] in HA.
  destruct (HS f n d st l1 ((ws, TP ISlash) :: l2 ++ L1)) as [st1 [Hp HA1]];
    [lia|exact Hd|exact H1|exact HA|cbn; discriminate|cbn; discriminate|].
  assert (Hne : l2 ++ L1 <> []) by (destruct l2; [subst ts2; cbn in Hne2; congruence|discriminate]).
  destruct (pnext_At _ _ _ _ _ HA1 Hne) as [st2 [Hn HA2]].
  destruct k as [|k]; [lia|].
  destruct (HR f k (Some (g1 n)) d st2 l2 L1) as [st3 [Hp3 HA3]]; try assumption; try lia.
  exists st3. split; [|exact HA3].
  cbn [relpath_loop]. rewrite Hp. cbn [cbind]. rewrite (typ_At _ _ _ _ _ HA1). cbn [ttyp].
  rewrite Hn. cbn [cbind]. exact Hp3.
Qed.

Theorem Rel_slashslash : forall dn ts1 g1 ts2 g2,
  ts1 <> [] -> ts2 <> [] -> StepP dn ts1 g1 -> RelP dn ts2 g2 ->
  RelP dn (ts1 ++ TP ISlashSlash :: ts2) (fun n => g2 (Some (dos_node (Some (g1 n))))).
Proof.
  intros dn ts1 g1 ts2 g2 Hne1 Hne2 HS HR f k n d st lts L1 Hf Hk Hd Hm HA Hb Hl Hs Hss.
  rewrite app_length in Hf, Hk. cbn [List.length] in Hf, Hk.
  destruct (map_snd_app_inv lts _ _ Hm) as [l1 [l2 [E [H1 H2]]]]. subst lts.
  destruct l2 as [|[ws ts] l2]; [discriminate|]. cbn [map snd] in H2.
  inversion H2 as [[Hts H2']]. subst ts.
  rewrite <- app_assoc in HA. cbn [app] in HA.
  destruct (HS f n d st l1 ((ws, TP ISlashSlash) :: l2 ++ L1)) as [st1 [Hp HA1]];
    [lia|exact Hd|exact H1|exact HA|cbn; discriminate|cbn; discriminate|].
  assert (Hne : l2 ++ L1 <> []) by (destruct l2; [subst ts2; cbn in Hne2; congruence|discriminate]).
  destruct (pnext_At _ _ _ _ _ HA1 Hne) as [st2 [Hn HA2]].
  destruct k as [|k]; [lia|].
  destruct (HR f k (Some (dos_node (Some (g1 n)))) d st2 l2 L1) as [st3 [Hp3 HA3]];
    try assumption; try lia.
  exists st3. split; [|exact HA3].
  cbn [relpath_loop]. rewrite Hp. cbn [cbind]. rewrite (typ_At _ _ _ _ _ HA1). cbn [ttyp].
  rewrite Hn. cbn [cbind]. exact Hp3.
Qed.

(* ---- location paths at the path level ---- *)

(* the first tokens of a relative path: a step, and not a function call *)
Definition rel_start (ts : list token) : bool :=
  match ts with
  | TName nm :: TP ILParens :: _ => node_type_name nm
  | TName _ :: _ => true
  | TAxe _ _ :: _ => true
  | TP IAt :: _ | TP IDot :: _ | TP IDotDot :: _ | TP IStar :: _ => true
  | _ => false
  end.

Lemma rel_start_At : forall st d lts L1,
  rel_start (map snd lts) = true -> AtL st d (lts ++ L1) -> hd_typ_not ILParens L1 ->
  is_primary_expr st = false /\ is_step (typ st) = true /\
  typ st <> ISlash /\ typ st <> ISlashSlash.
Proof.
  intros st d lts L1 Hr HA Hl.
  destruct lts as [|[w t] lts]; [discriminate|]. cbn [map snd] in Hr. cbn [app] in HA.
  pose proof (typ_At _ _ _ _ _ HA) as Ty. unfold is_primary_expr. rewrite Ty.
  destruct t as [| |nm|ax aw|p|]; try discriminate Hr; cbn [ttyp is_step].
  - repeat split; try discriminate.
    rewrite (canfunc_At _ _ _ _ _ HA), (is_node_type_At _ _ _ _ _ HA).
    destruct lts as [|[w2 t2] lts].
    + cbn [app]. rewrite (next_lparen_hd _ Hl). reflexivity.
    + cbn [app next_lparen]. cbn [map snd rel_start] in Hr.
      destruct t2 as [| | | |p2|]; try reflexivity.
      destruct p2; try reflexivity. rewrite Hr. reflexivity.
  - repeat split; discriminate.
  - cbn [rel_start] in Hr. destruct p; try discriminate Hr; repeat split; discriminate.
Qed.

Theorem Path_rel : forall dn ts g,
  rel_start ts = true -> RelP dn ts g -> Parses ns 8 dn ts (g None).
Proof.
  intros dn ts g Hr HR f n d st lts L1 Hf Hd Hm HA Hfo.
  destruct (follow1_hd _ _ Hfo) as [Hb [Hs [Hss Hl]]].
  rewrite <- Hm in Hr.
  destruct (rel_start_At _ _ _ _ Hr HA Hl) as [Hprim [_ [Hn1 Hn2]]].
  destruct (HR f f None d st lts L1) as [st1 [Hp HA1]]; try assumption.
  exists st1. split; [|exact HA1].
  cbn [lev]. unfold path_expr_b. rewrite Hprim. unfold location_path_b.
  destruct (typ st); try exact Hp; congruence.
Qed.

Theorem Path_abs : forall dn ts g,
  rel_start ts = true -> RelP dn ts g ->
  Parses ns 8 dn (TP ISlash :: ts) (g (Some (ARoot "/"))).
Proof.
  intros dn ts g Hr HR f n d st lts L1 Hf Hd Hm HA Hfo.
  destruct (follow1_hd _ _ Hfo) as [Hb [Hs [Hss Hl]]].
  cbn [List.length] in Hf.
  destruct lts as [|[w0 t0] lts]; [discriminate|]. cbn [map snd] in Hm.
  inversion Hm as [[Ht0 Hm']]. subst t0. cbn [app] in HA.
  assert (Hne : lts ++ L1 <> []).
  { destruct lts; [subst ts; discriminate|discriminate]. }
  destruct (pnext_At _ _ _ _ _ HA Hne) as [st1 [Hn HA1]].
  rewrite <- Hm' in Hr.
  destruct (rel_start_At _ _ _ _ Hr HA1 Hl) as [_ [Hstep _]].
  destruct (HR f f (Some (ARoot "/")) d st1 lts L1) as [st2 [Hp HA2]]; try assumption; try lia.
  exists st2. split; [|exact HA2].
  cbn [lev]. unfold path_expr_b, is_primary_expr. rewrite (typ_At _ _ _ _ _ HA). cbn [ttyp].
  unfold location_path_b. rewrite (typ_At _ _ _ _ _ HA). cbn [ttyp].
  rewrite Hn. cbn [cbind]. rewrite Hstep. exact Hp.
Qed.

Theorem Path_abs2 : forall dn ts g,
  ts <> [] -> RelP dn ts g ->
  Parses ns 8 dn (TP ISlashSlash :: ts) (g (Some (dos_node (Some (ARoot "//"))))).
Proof.
  intros dn ts g Hne0 HR f n d st lts L1 Hf Hd Hm HA Hfo.
  destruct (follow1_hd _ _ Hfo) as [Hb [Hs [Hss Hl]]].
  cbn [List.length] in Hf.
  destruct lts as [|[w0 t0] lts]; [discriminate|]. cbn [map snd] in Hm.
  inversion Hm as [[Ht0 Hm']]. subst t0. cbn [app] in HA.
  assert (Hne : lts ++ L1 <> []).
  { destruct lts; [exfalso; apply Hne0; rewrite <- Hm'; reflexivity|discriminate]. }
  destruct (pnext_At _ _ _ _ _ HA Hne) as [st1 [Hn HA1]].
  destruct (HR f f (Some (dos_node (Some (ARoot "//")))) d st1 lts L1) as [st2 [Hp HA2]];
    try assumption; try lia.
  exists st2. split; [|exact HA2].
  cbn [lev]. unfold path_expr_b, is_primary_expr. rewrite (typ_At _ _ _ _ _ HA). cbn [ttyp].
  unfold location_path_b. rewrite (typ_At _ _ _ _ _ HA). cbn [ttyp].
  rewrite Hn. cbn [cbind]. exact Hp.
Qed.

(* ---- function calls ---- *)
Definition ArgsP (dn : nat) (ts : list token) (l : list anode) : Prop :=
  forall f k acc d st lts L1,
    List.length ts + 2 <= f -> List.length ts + 1 <= k -> d + 1 + dn <= max_depth ->
    map snd lts = ts -> AtL st d (lts ++ L1) ->
    (match L1 with (_, TP IRParens) :: _ => True | _ => False end) ->
    exists st', args_loop k (pgo ns f EExpr) acc st = Ok (acc ++ l, st') /\ AtL st' d L1.

Theorem Args_one : forall dn ts a, ParsesE ns dn ts a -> ArgsP dn ts [a].
Proof.
  intros dn ts a HE f k acc d st lts L1 Hf Hk Hd Hm HA HL.
  destruct L1 as [|[w1 [| | | |p|]] r1]; try contradiction. destruct p; try contradiction.
  destruct (HE f None d st lts ((w1, TP IRParens) :: r1)) as [st1 [Hp HA1]];
    [lia|lia|exact Hm|exact HA|reflexivity|].
  exists st1. split; [|exact HA1].
  destruct k as [|k]; [lia|]. cbn [args_loop]. rewrite Hp. cbn [cbind].
  rewrite (is_typ_At _ _ _ _ _ IRParens HA1). reflexivity.
Qed.

Theorem Args_cons : forall dn ts a ts2 l,
  ParsesE ns dn ts a -> ts2 <> [] -> ArgsP dn ts2 l ->
  ArgsP dn (ts ++ TP IComma :: ts2) (a :: l).
Proof.
  intros dn ts a ts2 l HE Hne2 HA2 f k acc d st lts L1 Hf Hk Hd Hm HA HL.
  rewrite app_length in Hf, Hk. cbn [List.length] in Hf, Hk.
  destruct (map_snd_app_inv lts _ _ Hm) as [l1 [l2 [E [H1 H2]]]]. subst lts.
  destruct l2 as [|[wc tc] l2]; [discriminate|]. cbn [map snd] in H2.
  inversion H2 as [[Htc H2']]. subst tc.
  rewrite <- app_assoc in HA. cbn [app] in HA.
  destruct (HE f None d st l1 ((wc, TP IComma) :: l2 ++ L1)) as [st1 [Hp HA1]];
    [lia|lia|exact H1|exact HA|reflexivity|].
  assert (Hne : l2 ++ L1 <> []) by (destruct l2; [subst ts2; cbn in Hne2; congruence|discriminate]).
  destruct (skip_item_At _ _ _ _ _ HA1 Hne) as [st2 [Hs2 HAs2]]. cbn [ttyp] in Hs2.
  destruct k as [|k]; [lia|].
  destruct (HA2 f k (acc ++ [a]) d st2 l2 L1) as [st3 [Hp3 HA3]]; try assumption; try lia.
  exists st3. split; [|exact HA3].
  cbn [args_loop]. rewrite Hp. cbn [cbind].
  rewrite (is_typ_At _ _ _ _ _ IRParens HA1). cbn [ttyp itype_eqb].
  rewrite Hs2. cbn [cbind]. rewrite Hp3. rewrite <- app_assoc. reflexivity.
Qed.


(* ---- primary expressions, filter expressions ---- *)
Definition PrimP (dn : nat) (ts : list token) (a : anode) : Prop :=
  forall f n d st lts L1,
    List.length ts + 1 <= f -> d + dn <= max_depth ->
    map snd lts = ts -> AtL st d (lts ++ L1) -> L1 <> [] ->
    exists st', is_primary_expr st = true /\
                primary_b f (pgo ns f EExpr) n st = Ok (a, st') /\ AtL st' d L1.

Definition FiltP (dn : nat) (ts : list token) (a : anode) : Prop :=
  forall f n d st lts L1,
    List.length ts + 1 <= f -> d + dn <= max_depth ->
    map snd lts = ts -> AtL st d (lts ++ L1) -> hd_typ_not ILBracket L1 ->
    exists st', is_primary_expr st = true /\
                filter_expr_b f (pgo ns f EExpr) n st = Ok (a, st') /\ AtL st' d L1.

Lemma PrimP_depth : forall dn dn' ts a, dn <= dn' -> PrimP dn ts a -> PrimP dn' ts a.
Proof. intros dn dn' ts a Hd H f n d st lts L1 Hf Hdd. apply H; [exact Hf|lia]. Qed.
Lemma FiltP_depth : forall dn dn' ts a, dn <= dn' -> FiltP dn ts a -> FiltP dn' ts a.
Proof. intros dn dn' ts a Hd H f n d st lts L1 Hf Hdd. apply H; [exact Hf|lia]. Qed.
Lemma RelP_depth : forall dn dn' ts g, dn <= dn' -> RelP dn ts g -> RelP dn' ts g.
Proof. intros dn dn' ts g Hd H f k n d st lts L1 Hf Hk Hdd. apply H; [exact Hf|exact Hk|lia]. Qed.

Theorem Prim_num : forall ds, PrimP 0 [TNum ds] (ANum (of_decimal false ds [])).
Proof.
  intros ds f n d st lts L1 Hf Hd Hm HA Hne.
  destruct lts as [|[w t] [|x lts]]; try discriminate. inversion Hm as [Ht]. subst t.
  cbn [app] in HA.
  destruct (pnext_At _ _ _ _ _ HA Hne) as [st1 [Hn HA1]].
  pose proof (typ_At _ _ _ _ _ HA) as Ty. cbn [ttyp] in Ty.
  exists st1. split; [|split; [|exact HA1]].
  - unfold is_primary_expr. rewrite Ty. reflexivity.
  - unfold primary_b. rewrite Ty. cbv zeta. rewrite Hn. cbn [cbind].
    destruct HA as [HS _]. pose proof (st_fld _ _ _ HS) as Hv. cbn beta iota in Hv. rewrite Hv.
    reflexivity.
Qed.

Theorem Prim_str : forall b, PrimP 0 [TStr b] (AStr b).
Proof.
  intros b f n d st lts L1 Hf Hd Hm HA Hne.
  destruct lts as [|[w t] [|x lts]]; try discriminate. inversion Hm as [Ht]. subst t.
  cbn [app] in HA.
  destruct (pnext_At _ _ _ _ _ HA Hne) as [st1 [Hn HA1]].
  pose proof (typ_At _ _ _ _ _ HA) as Ty. cbn [ttyp] in Ty.
  exists st1. split; [|split; [|exact HA1]].
  - unfold is_primary_expr. rewrite Ty. reflexivity.
  - unfold primary_b. rewrite Ty. cbv zeta. rewrite Hn. cbn [cbind].
    destruct HA as [HS _]. pose proof (st_fld _ _ _ HS) as Hv. cbn beta iota in Hv. rewrite Hv.
    reflexivity.
Qed.

(* $name *)
Theorem Prim_var : forall nm, PrimP 0 [TP IDollar; TName nm] (AVar "" nm).
Proof.
  intros nm f n d st lts L1 Hf Hd Hm HA Hne.
  destruct lts as [|[w t] [|[w2 t2] [|x lts]]]; try discriminate.
  inversion Hm as [[Ht Ht2]]. subst t t2. cbn [app] in HA.
  destruct (pnext_At _ _ _ _ _ HA ltac:(discriminate)) as [st1 [Hn HA1]].
  destruct (pnext_At _ _ _ _ _ HA1 Hne) as [st2 [Hn2 HA2]].
  pose proof (typ_At _ _ _ _ _ HA) as Ty. cbn [ttyp] in Ty.
  exists st2. split; [|split; [|exact HA2]].
  - unfold is_primary_expr. rewrite Ty. reflexivity.
  - unfold primary_b. rewrite Ty. rewrite Hn. cbn [cbind].
    unfold check_item. rewrite (is_typ_At _ _ _ _ _ IName HA1). cbn [ttyp itype_eqb cbind].
    cbv zeta. destruct (name_At _ _ _ _ _ HA1) as [H1 H2]. rewrite H1, H2.
    rewrite Hn2. reflexivity.
Qed.

Theorem Prim_paren : forall dn ts a,
  ParsesE ns dn ts a ->
  PrimP (S dn) (TP ILParens :: ts ++ [TP IRParens]) (if is_operand a then a else AGroup a).
Proof.
  intros dn ts a HE f n d st lts L1 Hf Hd Hm HA Hne1.
  cbn [List.length] in Hf. rewrite app_length in Hf. cbn [List.length] in Hf.
  destruct lts as [|[w t] lts]; [discriminate|]. cbn [map snd] in Hm.
  inversion Hm as [[Ht Hm']]. subst t.
  destruct (map_snd_app_inv lts _ _ Hm') as [l2 [l3 [E [H2 H3]]]]. subst lts.
  destruct l3 as [|[w3 t3] [|x l3]]; try discriminate. cbn [map snd] in H3.
  inversion H3 as [Ht3]. subst t3.
  cbn [app] in HA. rewrite <- app_assoc in HA. cbn [app] in HA.
  assert (Hne : l2 ++ (w3, TP IRParens) :: L1 <> []) by (destruct l2; discriminate).
  destruct (pnext_At _ _ _ _ _ HA Hne) as [st1 [Hn HA1]].
  destruct (HE f n d st1 l2 ((w3, TP IRParens) :: L1)) as [st2 [Hp HA2]];
    [lia|lia|exact H2|exact HA1|reflexivity|].
  destruct (skip_item_At _ _ _ _ _ HA2 Hne1) as [st3 [Hsk HA3]]. cbn [ttyp] in Hsk.
  pose proof (typ_At _ _ _ _ _ HA) as Ty. cbn [ttyp] in Ty.
  exists st3. split; [|split; [|exact HA3]].
  - unfold is_primary_expr. rewrite Ty. reflexivity.
  - unfold primary_b. rewrite Ty. rewrite Hn. cbn [cbind].
    rewrite Hp. cbn [cbind]. cbv zeta. rewrite Hsk. reflexivity.
Qed.

Theorem Prim_call : forall dn fn ats l,
  node_type_name fn = false -> ats <> [] -> ArgsP dn ats l ->
  PrimP (S dn) (TName fn :: TP ILParens :: ats ++ [TP IRParens]) (AFunc "" fn l).
Proof.
  intros dn fn ats l Hnt Hne0 HAr f n d st lts L1 Hf Hd Hm HA Hne1.
  cbn [List.length] in Hf. rewrite app_length in Hf. cbn [List.length] in Hf.
  destruct lts as [|[w0 t0] [|[w1 t1] lts]]; try discriminate. cbn [map snd] in Hm.
  inversion Hm as [[Ht0 Ht1 Hm']]. subst t0 t1.
  destruct (map_snd_app_inv lts _ _ Hm') as [l2 [l3 [E [H2 H3]]]]. subst lts.
  destruct l3 as [|[w3 t3] [|x l3]]; try discriminate. inversion H3 as [Ht3]. subst t3.
  cbn [app] in HA. rewrite <- app_assoc in HA. cbn [app] in HA.
  pose proof (typ_At _ _ _ _ _ HA) as Ty. cbn [ttyp] in Ty.
  destruct (name_At _ _ _ _ _ HA) as [Hnm Hpre].
  destruct (skip_item_At _ _ _ _ _ HA ltac:(discriminate)) as [st1 [Hs1 HA1]]. cbn [ttyp] in Hs1.
  assert (Hne : l2 ++ (w3, TP IRParens) :: L1 <> []) by (destruct l2; discriminate).
  destruct (skip_item_At _ _ _ _ _ HA1 Hne) as [st2 [Hs2 HA2]]. cbn [ttyp] in Hs2.
  assert (Hnr : is_typ st2 IRParens = false).
  { destruct l2 as [|[wa ta] l2]; [exfalso; apply Hne0; rewrite <- H2; reflexivity|]. cbn [app] in HA2.
    rewrite (is_typ_At _ _ _ _ _ IRParens HA2).
    (* the first token of an argument is not ')': otherwise the argument could not parse *)
    destruct (itype_eqb (ttyp ta) IRParens) eqn:E; [|reflexivity].
    exfalso. apply itype_eqb_eq in E.
    destruct (HAr f (S (List.length ats)) [] d st2 ((wa, ta) :: l2) ((w3, TP IRParens) :: L1))
      as [st3 [Hp3 _]]; [lia|lia|unfold max_depth in *; lia|exact H2|exact HA2|exact I|].
    cbn [args_loop] in Hp3.
    destruct (pgo_expr_bad_start ns f None st2) as [msg Hm2].
    - lia.
    - rewrite (typ_At _ _ _ _ _ HA2), E. reflexivity.
    - rewrite Hm2 in Hp3. discriminate. }
  destruct (HAr f f [] d st2 l2 ((w3, TP IRParens) :: L1)) as [st3 [Hp3 HA3]];
    [lia|lia|unfold max_depth in *; lia|exact H2|exact HA2|exact I|].
  destruct (skip_item_At _ _ _ _ _ HA3 Hne1) as [st4 [Hs4 HA4]]. cbn [ttyp] in Hs4.
  exists st4. split; [|split; [|exact HA4]].
  - unfold is_primary_expr. rewrite Ty.
    rewrite (canfunc_At _ _ _ _ _ HA). cbn [next_lparen].
    rewrite (is_node_type_At _ _ _ _ _ HA), Hnt. reflexivity.
  - unfold primary_b. rewrite Ty. unfold method_b. cbv zeta.
    rewrite Hnm, Hpre. rewrite Hs1. cbn [cbind]. rewrite Hs2. cbn [cbind].
    rewrite Hnr. rewrite Hp3. cbn [app cbind]. rewrite Hs4. reflexivity.
Qed.

(* zero-argument call  f() *)
Theorem Prim_call0 : forall fn,
  node_type_name fn = false ->
  PrimP 0 [TName fn; TP ILParens; TP IRParens] (AFunc "" fn []).
Proof.
  intros fn Hnt f n d st lts L1 Hf Hd Hm HA Hne1.
  destruct lts as [|[w0 t0] [|[w1 t1] [|[w2 t2] [|x lts]]]]; try discriminate.
  inversion Hm as [[Ht0 Ht1 Ht2]]. subst t0 t1 t2. cbn [app] in HA.
  pose proof (typ_At _ _ _ _ _ HA) as Ty. cbn [ttyp] in Ty.
  destruct (name_At _ _ _ _ _ HA) as [Hnm Hpre].
  destruct (skip_item_At _ _ _ _ _ HA ltac:(discriminate)) as [st1 [Hs1 HA1]]. cbn [ttyp] in Hs1.
  destruct (skip_item_At _ _ _ _ _ HA1 ltac:(discriminate)) as [st2 [Hs2 HA2]]. cbn [ttyp] in Hs2.
  destruct (skip_item_At _ _ _ _ _ HA2 Hne1) as [st4 [Hs4 HA4]]. cbn [ttyp] in Hs4.
  exists st4. split; [|split; [|exact HA4]].
  - unfold is_primary_expr. rewrite Ty.
    rewrite (canfunc_At _ _ _ _ _ HA). cbn [next_lparen].
    rewrite (is_node_type_At _ _ _ _ _ HA), Hnt. reflexivity.
  - unfold primary_b. rewrite Ty. unfold method_b. cbv zeta.
    rewrite Hnm, Hpre. rewrite Hs1. cbn [cbind]. rewrite Hs2. cbn [cbind].
    rewrite (is_typ_At _ _ _ _ _ IRParens HA2). cbn [ttyp itype_eqb cbind].
    rewrite Hs4. reflexivity.
Qed.

(* FilterExpr ::= PrimaryExpr Predicate*  *)
Theorem Filt_mk : forall dn ts a pts h,
  PrimP dn ts a -> PredsP dn pts h -> preds_start pts ->
  FiltP dn (ts ++ pts) (h a).
Proof.
  intros dn ts a pts h HP HPs Hst f n d st lts L1 Hf Hd Hm HA Hb.
  rewrite app_length in Hf.
  destruct (map_snd_app_inv lts _ _ Hm) as [l1 [l2 [E [H1 H2]]]]. subst lts.
  rewrite <- app_assoc in HA.
  assert (Hne : l2 ++ L1 <> []).
  { pose proof (hd_typ_not_ne _ _ Hb). destruct l2; [assumption|discriminate]. }
  destruct (HP f n d st l1 (l2 ++ L1)) as [st1 [Hi [Hp HA1]]];
    [lia|exact Hd|exact H1|exact HA|exact Hne|].
  destruct (HPs f f a d st1 l2 L1) as [st2 [Hp2 HA2]];
    [lia|lia|exact Hd|exact H2|exact HA1|exact Hb|].
  exists st2. split; [exact Hi|]. split; [|exact HA2].
  unfold filter_expr_b. rewrite Hp. cbn [cbind]. exact Hp2.
Qed.

Theorem Filt_prim : forall dn ts a, PrimP dn ts a -> FiltP dn ts a.
Proof.
  intros dn ts a HP. rewrite <- (app_nil_r ts).
  apply (Filt_mk dn ts a [] (fun x => x)); [exact HP| |exact I].
  eapply PredsP_depth; [|apply Preds_nil]. lia.
Qed.

(* one predicate, spelled out:  prim[e] *)
Theorem Filt_pred : forall dn ts a dn' ets c,
  PrimP dn ts a -> ParsesE ns dn' ets c -> dn' < dn ->
  FiltP dn (ts ++ TP ILBracket :: ets ++ [TP IRBracket]) (AFilter a c).
Proof.
  intros dn ts a dn' ets c HP HE Hdn.
  apply (Filt_mk dn ts a (TP ILBracket :: ets ++ [TP IRBracket]) (fun x => AFilter x c));
    [exact HP| |reflexivity].
  destruct dn as [|dn]; [lia|].
  apply (Preds_cons dn ets c [] (fun x => x)).
  - eapply ParsesE_depth; [|exact HE]. lia.
  - eapply PredsP_depth; [|apply Preds_nil]. lia.
Qed.

(* PathExpr ::= FilterExpr | FilterExpr '/' RelativeLocationPath | FilterExpr '//' RelativeLocationPath *)
Theorem Path_filt : forall dn ts a, FiltP dn ts a -> Parses ns 8 dn ts a.
Proof.
  intros dn ts a HF f n d st lts L1 Hf Hd Hm HA Hfo.
  destruct (follow1_hd _ _ Hfo) as [Hb [Hs [Hss Hl]]].
  destruct (HF f n d st lts L1 Hf Hd Hm HA Hb) as [st1 [Hi [Hp HA1]]].
  exists st1. split; [|exact HA1].
  destruct (path_tail_stop ns f st1 d L1 a ltac:(lia) HA1 Hfo) as [_ T2].
  cbn [lev]. unfold path_expr_b. rewrite Hi. rewrite Hp. cbn [cbind]. exact T2.
Qed.

Definition slash_tok (dbl : bool) : token := TP (if dbl then ISlashSlash else ISlash).

Theorem Path_filt_rel : forall dn ts a dbl rts g,
  rts <> [] -> FiltP dn ts a -> RelP dn rts g ->
  Parses ns 8 dn (ts ++ slash_tok dbl :: rts)
         (g (Some (if dbl then dos_node (Some a) else a))).
Proof.
  intros dn ts a dbl rts g Hne0 HF HR f n d st lts L1 Hf Hd Hm HA Hfo.
  destruct (follow1_hd _ _ Hfo) as [Hb [Hs [Hss Hl]]].
  rewrite app_length in Hf. cbn [List.length] in Hf.
  destruct (map_snd_app_inv lts _ _ Hm) as [l1 [l2 [E [H1 H2]]]]. subst lts.
  destruct l2 as [|[ws tsl] l2]; [discriminate|]. cbn [map snd] in H2.
  inversion H2 as [[Hts H2']]. subst tsl.
  rewrite <- app_assoc in HA. cbn [app] in HA.
  destruct (HF f n d st l1 ((ws, slash_tok dbl) :: l2 ++ L1)) as [st1 [Hi [Hp HA1]]];
    [lia|exact Hd|exact H1|exact HA|destruct dbl; cbn; discriminate|].
  assert (Hne : l2 ++ L1 <> []).
  { destruct l2; [exfalso; apply Hne0; rewrite <- H2'; reflexivity|discriminate]. }
  destruct (pnext_At _ _ _ _ _ HA1 Hne) as [st2 [Hn HA2]].
  destruct (HR f f (Some (if dbl then dos_node (Some a) else a)) d st2 l2 L1) as [st3 [Hp3 HA3]];
    try assumption; try lia.
  exists st3. split; [|exact HA3].
  cbn [lev]. unfold path_expr_b. rewrite Hi. rewrite Hp. cbn [cbind].
  rewrite (typ_At _ _ _ _ _ HA1).
  destruct dbl; cbn [slash_tok ttyp]; rewrite Hn; cbn [cbind]; exact Hp3.
Qed.

End Paths.

(* ------------------------------------------------------------------ *)
(** * B. The expression datatype                                        *)
(* ------------------------------------------------------------------ *)

Inductive pstart := PRel | PAbs | PAbs2.     (* a/b   /a/b   //a/b *)

Inductive px :=
| XNum (ds : list ascii)
| XStr (b : string)
| XParen (e : px)
| XBin (op : binop) (l r : px)
| XNeg (m : nat) (e : px)
| XPath (s : pstart) (p : rpath)
| XCall (fn : string) (a : xargs)
| XCall0 (fn : string)
| XVar (nm : string)                              (* $nm *)
| XFilter (p : px) (ps : xpreds)                  (* p[e1]...[ek], p a primary expression *)
| XFPath (p : px) (dbl : bool) (r : rpath)        (* p/r or p//r, p a filter expression *)
with rpath :=
| ROne (s : xstep)
| RCons (s : xstep) (dbl : bool) (r : rpath)      (* s/r  or  s//r *)
with xstep :=
| SAbbr (dd : bool) (ps : xpreds)                 (* .  or  .. *)
| SAxis (a : axsp) (t : ntst) (ps : xpreds)       (* [axis] nodetest predicates *)
with xpreds :=
| PNil
| PCons (e : px) (ps : xpreds)                    (* [e] ... *)
with xargs :=
| AOne (e : px)
| ACons (e : px) (a : xargs).

Scheme px_mind := Induction for px Sort Prop
  with rpath_mind := Induction for rpath Sort Prop
  with xstep_mind := Induction for xstep Sort Prop
  with xpreds_mind := Induction for xpreds Sort Prop
  with xargs_mind := Induction for xargs Sort Prop.
Combined Scheme px_mutind from px_mind, rpath_mind, xstep_mind, xpreds_mind, xargs_mind.

Definition xlvl (e : px) : nat :=
  match e with XBin op _ _ => level op | XNeg _ _ => 6 | _ => 8 end.

Definition is_prim (e : px) : bool :=
  match e with XNum _ | XStr _ | XParen _ | XCall _ _ | XCall0 _ | XVar _ => true | _ => false end.
Definition is_filt (e : px) : bool :=
  match e with XFilter _ _ => true | _ => is_prim e end.

Lemma is_prim_lvl : forall e, is_prim e = true -> xlvl e = 8.
Proof. destruct e; try discriminate; reflexivity. Qed.
Lemma is_filt_lvl : forall e, is_filt e = true -> xlvl e = 8.
Proof. destruct e; try discriminate; reflexivity. Qed.

Definition start_toks (s : pstart) : list token :=
  match s with PRel => [] | PAbs => [TP ISlash] | PAbs2 => [TP ISlashSlash] end.
Definition start_node (s : pstart) : option anode :=
  match s with
  | PRel => None
  | PAbs => Some (ARoot "/")
  | PAbs2 => Some (dos_node (Some (ARoot "//")))
  end.

Definition head_toks_abbr (dd : bool) : list token := [TP (if dd then IDotDot else IDot)].
Definition head_node_abbr (dd : bool) : option anode -> anode :=
  if dd then axis_node "parent" NTAll "" "" else axis_node "self" NTAll "" "".

Fixpoint xtoks (e : px) : list token :=
  match e with
  | XNum ds => [TNum ds]
  | XStr b => [TStr b]
  | XParen e => TP ILParens :: xtoks e ++ [TP IRParens]
  | XBin op l r => xtoks l ++ optok op :: xtoks r
  | XNeg m e => repeat (TP IMinus) m ++ xtoks e
  | XPath s p => start_toks s ++ rtoks p
  | XCall fn a => TName fn :: TP ILParens :: atoks a ++ [TP IRParens]
  | XCall0 fn => [TName fn; TP ILParens; TP IRParens]
  | XVar nm => [TP IDollar; TName nm]
  | XFilter p ps => xtoks p ++ ptoks ps
  | XFPath p dbl r => xtoks p ++ slash_tok dbl :: rtoks r
  end
with rtoks (p : rpath) : list token :=
  match p with
  | ROne s => stoks s
  | RCons s dbl r => stoks s ++ TP (if dbl then ISlashSlash else ISlash) :: rtoks r
  end
with stoks (s : xstep) : list token :=
  match s with
  | SAbbr dd ps => head_toks_abbr dd ++ ptoks ps
  | SAxis a t ps => (axtoks a ++ ntoks t) ++ ptoks ps
  end
with ptoks (ps : xpreds) : list token :=
  match ps with
  | PNil => []
  | PCons e ps => TP ILBracket :: xtoks e ++ TP IRBracket :: ptoks ps
  end
with atoks (a : xargs) : list token :=
  match a with
  | AOne e => xtoks e
  | ACons e a => xtoks e ++ TP IComma :: atoks a
  end.

(* the intended tree *)
Fixpoint xast (e : px) : anode :=
  match e with
  | XNum ds => ANum (of_decimal false ds [])
  | XStr b => AStr b
  | XParen e => let a := xast e in if is_operand a then a else AGroup a
  | XBin op l r => AOp (opname op) (xast l) (xast r)
  | XNeg m e => if flips m false then AOp "*" (xast e) (ANum fminus_one) else xast e
  | XPath s p => rast p (start_node s)
  | XCall fn a => AFunc "" fn (aast a)
  | XCall0 fn => AFunc "" fn []
  | XVar nm => AVar "" nm
  | XFilter p ps => past ps (xast p)
  | XFPath p dbl r => rast r (Some (if dbl then dos_node (Some (xast p)) else xast p))
  end
with rast (p : rpath) (n : option anode) : anode :=
  match p with
  | ROne s => sast s n
  | RCons s dbl r =>
    rast r (Some (if dbl then dos_node (Some (sast s n)) else sast s n))
  end
with sast (s : xstep) (n : option anode) : anode :=
  match s with
  | SAbbr dd ps => past ps (head_node_abbr dd n)
  | SAxis a t ps => past ps (nt_node (axname a) t n)
  end
with past (ps : xpreds) (acc : anode) : anode :=
  match ps with
  | PNil => acc
  | PCons e ps => past ps (AFilter acc (xast e))
  end
with aast (a : xargs) : list anode :=
  match a with
  | AOne e => [xast e]
  | ACons e a => xast e :: aast a
  end.

Fixpoint xwf (e : px) : Prop :=
  match e with
  | XNum _ | XStr _ => True
  | XParen e => xwf e
  | XBin op l r => level op <= xlvl l /\ level op < xlvl r /\ xwf l /\ xwf r
  | XNeg m e => 1 <= m /\ 7 <= xlvl e /\ xwf e
  | XPath s p => rwf p
  | XCall fn a => node_type_name fn = false /\ awf a
  | XCall0 fn => node_type_name fn = false
  | XVar _ => True
  | XFilter p ps => is_prim p = true /\ xwf p /\ pwf ps
  | XFPath p _ r => is_filt p = true /\ xwf p /\ rwf r
  end
with rwf (p : rpath) : Prop :=
  match p with
  | ROne s => swf s
  | RCons s _ r => swf s /\ rwf r
  end
with swf (s : xstep) : Prop :=
  match s with
  | SAbbr _ ps => pwf ps
  | SAxis _ t ps => nt_ok t = true /\ pwf ps
  end
with pwf (ps : xpreds) : Prop :=
  match ps with
  | PNil => True
  | PCons e ps => xwf e /\ pwf ps
  end
with awf (a : xargs) : Prop :=
  match a with
  | AOne e => xwf e
  | ACons e a => xwf e /\ awf a
  end.

(* nesting of parseExpression calls *)
Fixpoint xdepth (e : px) : nat :=
  match e with
  | XNum _ | XStr _ | XCall0 _ | XVar _ => 0
  | XFilter p ps => Nat.max (xdepth p) (pdepth_ps ps)
  | XFPath p _ r => Nat.max (xdepth p) (rdepth r)
  | XParen e => S (xdepth e)
  | XBin _ l r => Nat.max (xdepth l) (xdepth r)
  | XNeg _ e => xdepth e
  | XPath _ p => rdepth p
  | XCall _ a => S (adepth a)
  end
with rdepth (p : rpath) : nat :=
  match p with
  | ROne s => sdepth s
  | RCons s _ r => Nat.max (sdepth s) (rdepth r)
  end
with sdepth (s : xstep) : nat :=
  match s with SAbbr _ ps => pdepth_ps ps | SAxis _ _ ps => pdepth_ps ps end
with pdepth_ps (ps : xpreds) : nat :=
  match ps with
  | PNil => 0
  | PCons e ps => Nat.max (S (xdepth e)) (pdepth_ps ps)
  end
with adepth (a : xargs) : nat :=
  match a with
  | AOne e => xdepth e
  | ACons e a => Nat.max (xdepth e) (adepth a)
  end.

Lemma stoks_ne : forall s, stoks s <> [].
Proof. intros [dd ps|a t ps]; cbn; [discriminate|]. destruct a; destruct t; discriminate. Qed.
Lemma rtoks_ne : forall p, rtoks p <> [].
Proof.
  intros [s|s dbl r]; cbn [rtoks]; [apply stoks_ne|].
  pose proof (stoks_ne s). destruct (stoks s); [congruence|discriminate].
Qed.
Lemma xtoks_ne : forall e, xtoks e <> [].
Proof.
  induction e as [ds|b|e IH|op l IHl r IHr|m e IH|s p|fn a|fn|nm|p IHp ps|p IHp dbl r];
    cbn [xtoks]; try discriminate.
  - destruct (xtoks l); discriminate.
  - destruct m; cbn [repeat app]; [exact IH|discriminate].
  - pose proof (rtoks_ne p). destruct s; cbn; try discriminate. exact H.
  - destruct (xtoks p); [congruence|discriminate].
  - destruct (xtoks p); discriminate.
Qed.
Lemma atoks_ne : forall a, atoks a <> [].
Proof.
  intros [e|e a]; cbn [atoks]; [apply xtoks_ne|].
  pose proof (xtoks_ne e). destruct (xtoks e); [congruence|discriminate].
Qed.

Lemma stoks_hd : forall s ts, hd_not_minus (stoks s ++ ts) = true.
Proof. intros [dd ps|a t ps] ts; [destruct dd; reflexivity|]. destruct a; destruct t; reflexivity. Qed.

Lemma rtoks_hd : forall p ts, hd_not_minus (rtoks p ++ ts) = true.
Proof.
  intros [s|s dbl r] ts; cbn [rtoks]; [apply stoks_hd|]. rewrite <- app_assoc. apply stoks_hd.
Qed.

Lemma xtoks_hd : forall e, xwf e -> 7 <= xlvl e -> hd_not_minus (xtoks e) = true.
Proof.
  induction e as [ds|b|e IH|op l IHl r IHr|m e IH|s p|fn a|fn|nm|p IHp ps|p IHp dbl r];
    intros Hw Hl; cbn [xtoks]; try reflexivity.
  - cbn [xwf xlvl] in *. destruct Hw as [H1 [H2 [H3 H4]]].
    apply hd_not_minus_app. apply IHl; [exact H3|lia].
  - cbn [xlvl] in Hl. lia.
  - destruct s; cbn [start_toks app]; try reflexivity.
    rewrite <- (app_nil_r (rtoks p)). apply rtoks_hd.
  - cbn [xwf] in Hw. destruct Hw as [H1 [H2 H3]].
    apply hd_not_minus_app. apply IHp; [exact H2|rewrite (is_prim_lvl _ H1); lia].
  - cbn [xwf] in Hw. destruct Hw as [H1 [H2 H3]].
    apply hd_not_minus_app. apply IHp; [exact H2|rewrite (is_filt_lvl _ H1); lia].
Qed.

Lemma xlvl_le_8 : forall e, xlvl e <= 8.
Proof. destruct e as [| | |op ? ?| | | | | | |]; cbn; try lia. destruct op; cbn; lia. Qed.

(* the first tokens of a relative path never look like a function call *)
Lemma ptoks_start : forall ps, preds_start (ptoks ps).
Proof. intros [|e ps]; cbn; auto. Qed.

Lemma rel_start_stoks : forall s ts,
  swf s -> (match ts with TP ILParens :: _ => False | _ => True end) ->
  rel_start (stoks s ++ ts) = true.
Proof.
  intros [dd ps|a t ps] ts Hw Hts.
  - destruct dd; reflexivity.
  - cbn [swf] in Hw. destruct Hw as [Hok _]. cbn [stoks].
    destruct a; cbn [axtoks app]; try reflexivity.
    destruct t as [nm| |nm]; cbn [ntoks app]; try reflexivity.
    + destruct ps as [|e ps]; cbn [ptoks app]; [|reflexivity].
      destruct ts as [|[| | | |p|] ts]; try reflexivity. destruct p; try reflexivity. contradiction.
    + cbn [rel_start]. exact Hok.
Qed.

Lemma rel_start_rtoks : forall p, rwf p -> rel_start (rtoks p) = true.
Proof.
  intros [s|s dbl r] Hw; cbn [rtoks rwf] in *.
  - rewrite <- (app_nil_r (stoks s)). apply rel_start_stoks; [exact Hw|exact I].
  - apply rel_start_stoks; [tauto|]. destruct dbl; exact I.
Qed.

Section RTX.
Variable ns : nsmap.

Definition PX (e : px) : Prop := xwf e ->
  Parses ns (xlvl e) (xdepth e) (xtoks e) (xast e) /\
  (forall k, bin_lvl k = true -> k <= xlvl e -> Runs ns k (xdepth e) (xtoks e) (xast e)) /\
  (is_prim e = true -> PrimP ns (xdepth e) (xtoks e) (xast e)) /\
  (is_filt e = true -> FiltP ns (xdepth e) (xtoks e) (xast e)).

Lemma PX_full : forall e, xwf e -> PX e -> ParsesE ns (xdepth e) (xtoks e) (xast e).
Proof.
  intros e Hw HP. destruct (HP Hw) as [H _]. apply ParsesE_of.
  eapply Parses_down; [apply xtoks_ne| |apply xlvl_le_8|exact H|lia].
  intros H7. apply xtoks_hd; assumption.
Qed.

(* an atom at level 8 gives all the Runs below *)
Lemma PX_atom : forall e, xlvl e = 8 -> xwf e ->
  Parses ns 8 (xdepth e) (xtoks e) (xast e) ->
  (is_prim e = true -> PrimP ns (xdepth e) (xtoks e) (xast e)) ->
  (is_filt e = true -> FiltP ns (xdepth e) (xtoks e) (xast e)) ->
  PX e.
Proof.
  intros e H8 Hw HP Hpr Hfi _. rewrite H8. split; [exact HP|]. split; [|auto]. intros k Hb Hk.
  apply Runs_below with (j := 8); try exact HP; try exact Hb; try lia.
  - apply xtoks_ne.
  - intros _. apply xtoks_hd; [exact Hw|lia].
  - destruct k as [|[|[|[|[|[|[|[|k]]]]]]]]; try discriminate Hb; lia.
Qed.

Lemma PX_prim : forall e, is_prim e = true -> xwf e ->
  PrimP ns (xdepth e) (xtoks e) (xast e) -> PX e.
Proof.
  intros e Hp Hw HP.
  assert (HF : FiltP ns (xdepth e) (xtoks e) (xast e)) by (apply Filt_prim; exact HP).
  apply PX_atom; [apply is_prim_lvl; exact Hp|exact Hw|apply Path_filt; exact HF|auto|auto].
Qed.

Theorem px_parses_all :
  (forall e, PX e) /\
  (forall p, rwf p -> RelP ns (rdepth p) (rtoks p) (rast p)) /\
  (forall s, swf s -> StepP ns (sdepth s) (stoks s) (sast s)) /\
  (forall ps, pwf ps -> PredsP ns (pdepth_ps ps) (ptoks ps) (past ps)) /\
  (forall a, awf a -> ArgsP ns (adepth a) (atoks a) (aast a)).
Proof.
  apply px_mutind.
  - (* XNum *) intros ds. apply PX_prim; [reflexivity|exact I|apply Prim_num].
  - (* XStr *) intros b. apply PX_prim; [reflexivity|exact I|apply Prim_str].
  - (* XParen *)
    intros e IH. intros Hw. apply PX_prim; [reflexivity|exact Hw| |exact Hw].
    cbn [xwf] in Hw. cbn [xdepth xtoks xast]. apply Prim_paren. apply PX_full; assumption.
  - (* XBin *)
    intros op l IHl r IHr Hw. cbn [xwf] in Hw. destruct Hw as [H1 [H2 [Hwl Hwr]]].
    destruct (IHl Hwl) as [_ [HRl _]]. destruct (IHr Hwr) as [HPr _].
    pose proof (xlvl_le_8 r) as Hler.
    assert (HR : Runs ns (level op) (xdepth (XBin op l r)) (xtoks (XBin op l r)) (xast (XBin op l r))).
    { cbn [xdepth xtoks xast]. rewrite <- optok_name.
      apply Runs_step; [apply level_bin|apply optok_level| |].
      - eapply Runs_depth; [apply Nat.le_max_l|]. apply HRl; [apply level_bin|exact H1].
      - eapply Parses_depth; [apply Nat.le_max_r|].
        eapply Parses_down; [apply xtoks_ne| |exact Hler|exact HPr|lia].
        intros H7. apply xtoks_hd; assumption. }
    assert (HP : Parses ns (level op) (xdepth (XBin op l r)) (xtoks (XBin op l r)) (xast (XBin op l r))).
    { apply Parses_of_Runs; [apply level_bin|exact HR]. }
    split; [exact HP|]. split; [|split; discriminate]. intros k Hb Hk. cbn [xlvl] in Hk.
    destruct (Nat.eq_dec k (level op)) as [->|Hne]; [exact HR|].
    apply Runs_below with (j := level op); try exact HP; try exact Hb; try lia.
    + apply xtoks_ne.
    + intros H7. apply xtoks_hd; [cbn [xwf]; auto|exact H7].
  - (* XNeg *)
    intros m e IH Hw. cbn [xwf] in Hw. destruct Hw as [Hm [H7 Hwe]].
    destruct (IH Hwe) as [HPe _]. pose proof (xlvl_le_8 e) as Hle.
    assert (HP : Parses ns 6 (xdepth (XNeg m e)) (xtoks (XNeg m e)) (xast (XNeg m e))).
    { cbn [xdepth xtoks xast]. apply Parses_neg; [apply xtoks_hd; assumption|].
      eapply Parses_down; [apply xtoks_ne| |exact Hle|exact HPe|exact H7].
      intros _. apply xtoks_hd; assumption. }
    split; [exact HP|]. split; [|split; discriminate]. intros k Hb Hk. cbn [xlvl] in Hk.
    apply Runs_below with (j := 6); try exact HP; try exact Hb; try lia.
    + apply xtoks_ne.
    + destruct k as [|[|[|[|[|[|[|[|k]]]]]]]]; try discriminate Hb; lia.
  - (* XPath *)
    intros s p IH Hw. apply PX_atom; [reflexivity|exact Hw| |discriminate|discriminate|exact Hw].
    cbn [xwf] in Hw. cbn [xdepth xtoks xast]. specialize (IH Hw).
    destruct s; cbn [start_toks start_node app].
    + apply Path_rel; [apply rel_start_rtoks; exact Hw|exact IH].
    + apply Path_abs; [apply rel_start_rtoks; exact Hw|exact IH].
    + apply Path_abs2; [apply rtoks_ne|exact IH].
  - (* XCall *)
    intros fn a IH Hw. apply PX_prim; [reflexivity|exact Hw| |exact Hw].
    cbn [xwf] in Hw. destruct Hw as [Hnt Hwa]. cbn [xdepth xtoks xast].
    apply Prim_call; [exact Hnt|apply atoks_ne|apply IH; exact Hwa].
  - (* XCall0 *)
    intros fn Hw. apply PX_prim; [reflexivity|exact Hw| |exact Hw].
    cbn [xwf] in Hw. cbn [xdepth xtoks xast]. apply Prim_call0. exact Hw.
  - (* XVar *)
    intros nm Hw. apply PX_prim; [reflexivity|exact Hw|apply Prim_var|exact Hw].
  - (* XFilter *)
    intros p IHp ps IHps Hw.
    pose proof Hw as Hw0. cbn [xwf] in Hw. destruct Hw as [Hpr [Hwp Hwps]].
    destruct (IHp Hwp) as [_ [_ [HPp _]]].
    assert (HF : FiltP ns (xdepth (XFilter p ps)) (xtoks (XFilter p ps)) (xast (XFilter p ps))).
    { cbn [xdepth xtoks xast].
      apply (Filt_mk ns _ (xtoks p) (xast p) (ptoks ps) (past ps)); [| |apply ptoks_start].
      - eapply PrimP_depth; [|apply HPp; exact Hpr]. lia.
      - eapply PredsP_depth; [|apply IHps; exact Hwps]. lia. }
    apply PX_atom; [reflexivity|exact Hw0|apply Path_filt; exact HF|discriminate|auto|exact Hw0].
  - (* XFPath *)
    intros p IHp dbl r IHr Hw.
    pose proof Hw as Hw0. cbn [xwf] in Hw. destruct Hw as [Hfi [Hwp Hwr]].
    destruct (IHp Hwp) as [_ [_ [_ HFp]]].
    apply PX_atom; [reflexivity|exact Hw0| |discriminate|discriminate|exact Hw0].
    cbn [xdepth xtoks xast].
    apply Path_filt_rel; [apply rtoks_ne| |].
    + eapply FiltP_depth; [|apply HFp; exact Hfi]. lia.
    + eapply RelP_depth; [|apply IHr; exact Hwr]. lia.
  - (* ROne *)
    intros s IH Hw. cbn [rwf rdepth rtoks] in *.
    assert (E : rast (ROne s) = sast s) by reflexivity. rewrite E.
    apply Rel_one. apply IH. exact Hw.
  - (* RCons *)
    intros s IHs dbl r IHr Hw. cbn [rwf] in Hw. destruct Hw as [Hws Hwr].
    cbn [rdepth rtoks].
    destruct dbl.
    + change (rast (RCons s true r)) with (fun n => rast r (Some (dos_node (Some (sast s n))))).
      apply Rel_slashslash; [apply stoks_ne|apply rtoks_ne| |].
      * eapply (fun H => H). intros f n d st lts L1 Hf Hd. apply IHs; [exact Hws|exact Hf|lia].
      * intros f k n d st lts L1 Hf Hk Hd. apply IHr; [exact Hwr|exact Hf|exact Hk|lia].
    + change (rast (RCons s false r)) with (fun n => rast r (Some (sast s n))).
      apply Rel_slash; [apply stoks_ne|apply rtoks_ne| |].
      * intros f n d st lts L1 Hf Hd. apply IHs; [exact Hws|exact Hf|lia].
      * intros f k n d st lts L1 Hf Hk Hd. apply IHr; [exact Hwr|exact Hf|exact Hk|lia].
  - (* SAbbr *)
    intros dd ps IH Hw. cbn [swf sdepth stoks] in *.
    change (sast (SAbbr dd ps)) with (fun n => past ps (head_node_abbr dd n)).
    apply Step_mk; [discriminate| |apply IH; exact Hw|apply ptoks_start].
    destruct dd; [apply Head_dotdot|apply Head_dot].
  - (* SAxis *)
    intros a t ps IH Hw. cbn [swf sdepth stoks] in *. destruct Hw as [Hok Hwp].
    change (sast (SAxis a t ps)) with (fun n => past ps (nt_node (axname a) t n)).
    apply Step_mk; [destruct a; destruct t; discriminate| |apply IH; exact Hwp|apply ptoks_start].
    apply Head_axis. exact Hok.
  - (* PNil *) intros _. apply Preds_nil.
  - (* PCons *)
    intros e IHe ps IHps Hw. cbn [pwf] in Hw. destruct Hw as [Hwe Hwp].
    cbn [pdepth_ps ptoks].
    change (past (PCons e ps)) with (fun acc => past ps (AFilter acc (xast e))).
    eapply PredsP_depth with (dn := S (Nat.max (xdepth e) (pdepth_ps ps - 1))); [lia|].
    apply Preds_cons.
    + eapply ParsesE_depth; [|apply PX_full; [exact Hwe|apply IHe]]. lia.
    + eapply PredsP_depth; [|apply IHps; exact Hwp]. lia.
  - (* AOne *)
    intros e IH Hw. cbn [awf adepth atoks aast] in *. apply Args_one. apply PX_full; assumption.
  - (* ACons *)
    intros e IHe a IHa Hw. cbn [awf] in Hw. destruct Hw as [Hwe Hwa].
    cbn [adepth atoks aast]. apply Args_cons; [|apply atoks_ne|].
    + eapply ParsesE_depth; [apply Nat.le_max_l|]. apply PX_full; assumption.
    + intros f k acc d st lts L1 Hf Hk Hd. apply IHa; [exact Hwa|exact Hf|exact Hk|lia].
Qed.

(* THE ROUND TRIP for every admissible layout *)
Theorem roundtrip_paths_layout : forall e L,
  xwf e -> xdepth e < max_depth ->
  lay_ok L = true -> map snd L = xtoks e ++ [TEOF] ->
  parse (string_of_list (render L)) ns = Ok (xast e).
Proof.
  intros e L Hw Hd Hl Hm.
  eapply parse_of_ParsesE; [|apply xtoks_ne|exact Hd|exact Hl|exact Hm].
  apply PX_full; [exact Hw|]. apply px_parses_all.
Qed.

End RTX.
Print Assumptions roundtrip_paths_layout.

(* ------------------------------------------------------------------ *)
(** * C. Printers                                                       *)
(* ------------------------------------------------------------------ *)

(* make any layout admissible: put a space where two tokens would fuse *)
Fixpoint fix_lay (L : layout) : layout :=
  match L with
  | [] => []
  | (w, t) :: r =>
    let r' := fix_lay r in
    (w, t) :: (if sep_ok t (hd_error (render r')) then r' else set_ws sp r')
  end.

Definition tok_ok' (t : token) : bool := andb (tok_ok t) (negb (is_eof t)).

Lemma map_snd_fix_lay : forall L, map snd (fix_lay L) = map snd L.
Proof.
  induction L as [|[w t] r IH]; [reflexivity|]. cbn [fix_lay map snd].
  destruct (sep_ok t _); [|rewrite map_snd_set_ws]; rewrite IH; reflexivity.
Qed.

Lemma sep_ok_sp : forall t, sep_ok t (Some " "%char) = true.
Proof. intros t. apply (sep_ok_safe t [" "%char]). left. reflexivity. Qed.

Lemma fix_lay_ok : forall L we,
  forallb (fun p => forallb ws_char (fst p)) L = true ->
  forallb tok_ok' (map snd L) = true -> forallb ws_char we = true ->
  lay_ok (fix_lay (L ++ [(we, TEOF)])) = true.
Proof.
  induction L as [|[w t] r IH]; intros we Hws Hts Hwe.
  - cbn. rewrite Hwe. reflexivity.
  - cbn [forallb fst map snd] in Hws, Hts.
    apply andb_prop in Hws. destruct Hws as [Hw Hws].
    apply andb_prop in Hts. destruct Hts as [Ht Hts].
    unfold tok_ok' in Ht. apply andb_prop in Ht. destruct Ht as [Ht Hne].
    apply Bool.negb_true_iff in Hne.
    specialize (IH we Hws Hts Hwe).
    cbn [app fix_lay]. set (r' := fix_lay (r ++ [(we, TEOF)])) in *.
    destruct (sep_ok t (hd_error (render r'))) eqn:Es.
    + cbn [lay_ok]. rewrite Hw, Ht, Es, Hne, IH. reflexivity.
    + destruct r' as [|[w0 t0] r0] eqn:Er; [cbn in Es; discriminate|].
      cbn [set_ws lay_ok]. rewrite Hw, Ht, Hne.
      change (render ((sp, t0) :: r0)) with (" "%char :: ttext t0 ++ render r0).
      cbn [hd_error]. rewrite sep_ok_sp. cbn [andb].
      cbn [lay_ok] in IH. apply andb_prop in IH. destruct IH as [_ IH]. rewrite IH. reflexivity.
Qed.

Definition lay0 (ts : list token) : layout := map (fun t => ([], t)) ts.
Definition lay_sp (ts : list token) : layout :=
  match ts with [] => [] | t :: r => ([], t) :: map (fun t => (sp, t)) r end.

Lemma map_snd_lay0 : forall ts, map snd (lay0 ts) = ts.
Proof. induction ts; cbn; [reflexivity|]. f_equal. assumption. Qed.
Lemma map_snd_lay_sp : forall ts, map snd (lay_sp ts) = ts.
Proof. intros [|t r]; cbn; [reflexivity|]. f_equal. induction r; cbn; [reflexivity|]. f_equal. assumption. Qed.
Lemma ws_lay0 : forall ts, forallb (fun p => forallb ws_char (fst p)) (lay0 ts) = true.
Proof. induction ts; cbn; auto. Qed.
Lemma ws_lay_sp : forall ts, forallb (fun p => forallb ws_char (fst p)) (lay_sp ts) = true.
Proof. intros [|t r]; cbn; [reflexivity|]. induction r; cbn; auto. Qed.

(* print with as little white space as the scanner needs *)
Definition print_min (e : px) : string :=
  string_of_list (render (fix_lay (lay0 (xtoks e) ++ [([], TEOF)]))).
(* print with one space between any two tokens *)
Definition print_sp (e : px) : string :=
  string_of_list (render (fix_lay (lay_sp (xtoks e) ++ [([], TEOF)]))).

(* the literals and names are ones the scanner accepts *)
Definition xok (e : px) : Prop := forallb tok_ok' (xtoks e) = true.

Theorem roundtrip_print_min : forall ns e,
  xwf e -> xok e -> xdepth e < max_depth -> parse (print_min e) ns = Ok (xast e).
Proof.
  intros ns e Hw Hok Hd. unfold print_min. apply roundtrip_paths_layout; [exact Hw|exact Hd| |].
  - apply fix_lay_ok; [apply ws_lay0|rewrite map_snd_lay0; exact Hok|reflexivity].
  - rewrite map_snd_fix_lay, map_app, map_snd_lay0. reflexivity.
Qed.

Theorem roundtrip_print_sp : forall ns e,
  xwf e -> xok e -> xdepth e < max_depth -> parse (print_sp e) ns = Ok (xast e).
Proof.
  intros ns e Hw Hok Hd. unfold print_sp. apply roundtrip_paths_layout; [exact Hw|exact Hd| |].
  - apply fix_lay_ok; [apply ws_lay_sp|rewrite map_snd_lay_sp; exact Hok|reflexivity].
  - rewrite map_snd_fix_lay, map_app, map_snd_lay_sp. reflexivity.
Qed.
Print Assumptions roundtrip_print_min.

(* WHITE SPACE at expression level: any admissible layout of the tokens of e
   parses like the printed form *)
Theorem ws_irrelevant_paths : forall ns e L,
  xwf e -> xok e -> xdepth e < max_depth ->
  lay_ok L = true -> map snd L = xtoks e ++ [TEOF] ->
  parse (string_of_list (render L)) ns = parse (print_min e) ns.
Proof.
  intros ns e L Hw Hok Hd HL Hm. rewrite roundtrip_print_min by assumption.
  apply roundtrip_paths_layout; assumption.
Qed.

(* ---- examples ---- *)
Definition nm_step (s : string) : xstep := SAxis AxChild (NName s) PNil.
Definition xnum (s : string) : px := XNum (list_of_string s).

(* a/b[1] | c + 2 * 3 *)
Definition ex1 : px :=
  XBin BAdd
    (XBin BUnion
       (XPath PRel (RCons (nm_step "a") false
                     (ROne (SAxis AxChild (NName "b") (PCons (xnum "1") PNil)))))
       (XPath PRel (ROne (nm_step "c"))))
    (XBin BMul (xnum "2") (xnum "3")).
Example ex1_min : print_min ex1 = "a/b[1]|c+2*3".
Proof. vm_compute. reflexivity. Qed.
Example ex1_sp : print_sp ex1 = "a / b [ 1 ] | c + 2 * 3".
Proof. vm_compute. reflexivity. Qed.

Ltac xrt e :=
  let H := fresh in
  assert (H : parse (print_min e) None = Ok (xast e))
    by (apply roundtrip_print_min;
        [cbn; repeat split; (lia || reflexivity) | vm_compute; reflexivity | cbn; unfold max_depth; lia]);
  exact H.

Example ex1_parse : parse "a/b[1]|c+2*3" None = Ok (xast ex1).
Proof. xrt ex1. Qed.

(* count(//a[@id = 'x']) > -1 div 2 *)
Definition ex2 : px :=
  XBin BGt
    (XCall "count"
       (AOne (XPath PAbs2
          (ROne (SAxis AxChild (NName "a")
             (PCons (XBin BEq (XPath PRel (ROne (SAxis AxAt (NName "id") PNil))) (XStr "x")) PNil))))))
    (XBin BDiv (XNeg 1 (xnum "1")) (xnum "2")).
Example ex2_min : print_min ex2 = "count(//a[@id='x'])>-1div 2".
Proof. vm_compute. reflexivity. Qed.
Example ex2_parse : parse "count(//a[@id='x'])>-1div 2" None = Ok (xast ex2).
Proof. xrt ex2. Qed.

(* the chain of stage 2 with names for the union operands *)
Definition chain_x : px :=
  XBin BOr (xnum "1")
    (XBin BAnd (xnum "2")
      (XBin BEq (xnum "3")
        (XBin BLt (xnum "4")
          (XBin BAdd (xnum "5")
            (XBin BMul (xnum "6")
              (XNeg 1 (XBin BUnion (XPath PRel (ROne (nm_step "a")))
                                   (XPath PRel (ROne (nm_step "b")))))))))).
Example chain_x_text : print_sp chain_x = "1 or 2 and 3 = 4 < 5 + 6 * - a | b".
Proof. vm_compute. reflexivity. Qed.
Example chain_x_parse : parse "1 or 2 and 3 = 4 < 5 + 6 * - a | b" None = Ok (xast chain_x).
Proof.
  assert (H : parse (print_sp chain_x) None = Ok (xast chain_x))
    by (apply roundtrip_print_sp;
        [cbn; repeat split; (lia || reflexivity) | vm_compute; reflexivity | cbn; unfold max_depth; lia]).
  exact H.
Qed.

(* ------------------------------------------------------------------ *)
(** * D. Abbreviations                                                  *)
(* ------------------------------------------------------------------ *)

(* forget the fields that only record the spelling: the [prop] of an axis
   node ("node" for an explicit node(), "" for . and .. and //) and the
   string of the root node ("/" or "//") *)
Fixpoint erase (a : anode) : anode :=
  match a with
  | ARoot _ => ARoot "/"
  | AAxis ax ty pre loc prop h u i =>
    AAxis ax ty pre loc "" h u (match i with Some x => Some (erase x) | None => None end)
  | AFilter i c => AFilter (erase i) (erase c)
  | AFunc p n args => AFunc p n (map erase args)
  | AOp o l r => AOp o (erase l) (erase r)
  | AGroup i => AGroup (erase i)
  | ANum v => ANum v
  | AStr s => AStr s
  | AVar p n => AVar p n
  end.

Definition eo (n : option anode) : option anode :=
  match n with Some x => Some (erase x) | None => None end.

Definition ax_full (a : string) : axsp := AxName a [].
Definition dos_step : xstep := SAxis (ax_full "descendant-or-self") (NType "node") PNil.

(* every abbreviation replaced by its expansion *)
Fixpoint expand (e : px) : px :=
  match e with
  | XNum ds => XNum ds
  | XStr b => XStr b
  | XParen e => XParen (expand e)
  | XBin op l r => XBin op (expand l) (expand r)
  | XNeg m e => XNeg m (expand e)
  | XPath PAbs2 p => XPath PAbs (RCons dos_step false (expand_r p))   (* //p = /descendant-or-self::node()/p *)
  | XPath s p => XPath s (expand_r p)
  | XCall fn a => XCall fn (expand_a a)
  | XCall0 fn => XCall0 fn
  | XVar nm => XVar nm
  | XFilter p ps => XFilter (expand p) (expand_ps ps)
  | XFPath p true r => XFPath (expand p) false (RCons dos_step false (expand_r r))   (* p//r *)
  | XFPath p false r => XFPath (expand p) false (expand_r r)
  end
with expand_r (p : rpath) : rpath :=
  match p with
  | ROne s => ROne (expand_s s)
  | RCons s true r => RCons (expand_s s) false (RCons dos_step false (expand_r r))   (* s//r *)
  | RCons s false r => RCons (expand_s s) false (expand_r r)
  end
with expand_s (s : xstep) : xstep :=
  match s with
  | SAbbr false ps => SAxis (ax_full "self") (NType "node") (expand_ps ps)      (* .  *)
  | SAbbr true ps => SAxis (ax_full "parent") (NType "node") (expand_ps ps)     (* .. *)
  | SAxis AxChild t ps => SAxis (ax_full "child") t (expand_ps ps)              (* a = child::a *)
  | SAxis AxAt t ps => SAxis (ax_full "attribute") t (expand_ps ps)             (* @a = attribute::a *)
  | SAxis a t ps => SAxis a t (expand_ps ps)
  end
with expand_ps (ps : xpreds) : xpreds :=
  match ps with
  | PNil => PNil
  | PCons e ps => PCons (expand e) (expand_ps ps)
  end
with expand_a (a : xargs) : xargs :=
  match a with
  | AOne e => AOne (expand e)
  | ACons e a => ACons (expand e) (expand_a a)
  end.

Lemma is_operand_erase : forall a, is_operand (erase a) = is_operand a.
Proof. destruct a; reflexivity. Qed.

Lemma erase_eq_operand : forall a b, erase a = erase b -> is_operand a = is_operand b.
Proof. intros a b H. rewrite <- (is_operand_erase a), <- (is_operand_erase b), H. reflexivity. Qed.

Theorem expand_erase_all :
  (forall e, erase (xast (expand e)) = erase (xast e)) /\
  (forall p n n', eo n = eo n' -> erase (rast (expand_r p) n) = erase (rast p n')) /\
  (forall s n n', eo n = eo n' -> erase (sast (expand_s s) n) = erase (sast s n')) /\
  (forall ps a a', erase a = erase a' -> erase (past (expand_ps ps) a) = erase (past ps a')) /\
  (forall a, map erase (aast (expand_a a)) = map erase (aast a)).
Proof.
  apply px_mutind.
  - reflexivity.
  - reflexivity.
  - intros e IH. cbn [expand xast]. cbv zeta.
    rewrite (erase_eq_operand _ _ IH). destruct (is_operand (xast e)); [exact IH|].
    cbn [erase]. rewrite IH. reflexivity.
  - intros op l IHl r IHr. cbn [expand xast erase]. rewrite IHl, IHr. reflexivity.
  - intros m e IH. cbn [expand xast]. destruct (flips m false); [|exact IH].
    cbn [erase]. rewrite IH. reflexivity.
  - intros s p IH. destruct s; cbn [expand xast start_node].
    + apply IH. reflexivity.
    + apply IH. reflexivity.
    + cbn [rast sast dos_step past]. apply IH. reflexivity.
  - intros fn a IH. cbn [expand xast erase]. rewrite IH. reflexivity.
  - reflexivity.
  - reflexivity.
  - intros p IHp ps IHps. cbn [expand xast]. apply IHps. exact IHp.
  - intros p IHp dbl r IHr. destruct dbl; cbn [expand xast].
    + cbn [rast sast dos_step past]. apply IHr.
      unfold nt_node, axis_node, dos_node. cbn [erase eo]. rewrite IHp. reflexivity.
    + apply IHr. cbn [eo]. rewrite IHp. reflexivity.
  - intros s IH n n' Hn. cbn [expand_r rast]. apply IH. exact Hn.
  - intros s IHs dbl r IHr n n' Hn. destruct dbl; cbn [expand_r rast].
    + apply IHr. cbn [sast dos_step past eo]. unfold nt_node, axis_node, dos_node. cbn [erase eo].
      rewrite (IHs n n' Hn). reflexivity.
    + apply IHr. cbn [eo]. rewrite (IHs n n' Hn). reflexivity.
  - intros dd ps IH n n' Hn. destruct dd; cbn [expand_s sast]; apply IH;
      unfold nt_node, axis_node, head_node_abbr; cbn [erase];
      change (match n with Some x => Some (erase x) | None => None end) with (eo n);
      change (match n' with Some x => Some (erase x) | None => None end) with (eo n');
      rewrite Hn; reflexivity.
  - intros a t ps IH n n' Hn.
    assert (Hnt : forall ax, erase (nt_node ax t n) = erase (nt_node ax t n')).
    { intros ax. destruct t; unfold nt_node, axis_node; cbn [erase];
      change (match n with Some x => Some (erase x) | None => None end) with (eo n);
      change (match n' with Some x => Some (erase x) | None => None end) with (eo n');
      rewrite Hn; reflexivity. }
    destruct a; cbn [expand_s sast axname ax_full]; apply IH; apply Hnt.
  - intros a a' H. exact H.
  - intros e IHe ps IHps a a' H. cbn [expand_ps past]. apply IHps. cbn [erase].
    rewrite IHe, H. reflexivity.
  - intros e IH. cbn [expand_a aast map]. rewrite IH. reflexivity.
  - intros e IHe a IHa. cbn [expand_a aast map]. rewrite IHe, IHa. reflexivity.
Qed.

(* expansion preserves well-formedness, depth, token validity *)
Lemma xlvl_expand : forall e, xlvl (expand e) = xlvl e.
Proof.
  destruct e as [| | | | |s p| | | | |p dbl r]; try reflexivity.
  - destruct s; reflexivity.
  - destruct dbl; reflexivity.
Qed.

Lemma is_prim_expand : forall e, is_prim (expand e) = is_prim e.
Proof.
  destruct e as [| | | | |s p| | | | |p dbl r]; try reflexivity.
  - destruct s; reflexivity.
  - destruct dbl; reflexivity.
Qed.
Lemma is_filt_expand : forall e, is_filt (expand e) = is_filt e.
Proof.
  destruct e as [| | | | |s p| | | | |p dbl r]; try reflexivity.
  - destruct s; reflexivity.
  - destruct dbl; reflexivity.
Qed.

Lemma forallb_app_true : forall A (f : A -> bool) l1 l2,
  forallb f (l1 ++ l2) = true <-> forallb f l1 = true /\ forallb f l2 = true.
Proof. intros. rewrite forallb_app. apply Bool.andb_true_iff. Qed.

Theorem expand_wf_all :
  (forall e, xwf e -> xwf (expand e)) /\
  (forall p, rwf p -> rwf (expand_r p)) /\
  (forall s, swf s -> swf (expand_s s)) /\
  (forall ps, pwf ps -> pwf (expand_ps ps)) /\
  (forall a, awf a -> awf (expand_a a)).
Proof.
  apply px_mutind; try (intros; exact I).
  - intros e IH H. exact (IH H).
  - intros op l IHl r IHr [H1 [H2 [H3 H4]]]. cbn [expand xwf]. rewrite !xlvl_expand. auto.
  - intros m e IH [H1 [H2 H3]]. cbn [expand xwf]. rewrite xlvl_expand. auto.
  - intros s p IH H. destruct s; cbn [expand xwf rwf] in *; auto.
    split; [|auto]. cbn. auto.
  - intros fn a IH [H1 H2]. cbn [expand xwf]. auto.
  - intros fn H. exact H.
  - intros p IHp ps IHps [H1 [H2 H3]]. cbn [expand xwf]. rewrite is_prim_expand. auto.
  - intros p IHp dbl r IHr [H1 [H2 H3]].
    destruct dbl; cbn [expand xwf rwf]; rewrite is_filt_expand; auto.
    split; [auto|]. split; [auto|]. split; [cbn; auto|auto].
  - intros s IH H. exact (IH H).
  - intros s IHs dbl r IHr [H1 H2]. destruct dbl; cbn [expand_r rwf]; auto.
    split; [auto|]. split; [cbn; auto|auto].
  - intros dd ps IH H. destruct dd; cbn [expand_s swf]; auto.
  - intros a t ps IH [H1 H2]. destruct a; cbn [expand_s swf]; auto.
  - intros e IHe ps IHps [H1 H2]. cbn [expand_ps pwf]. auto.
  - intros e IH H. exact (IH H).
  - intros e IHe a IHa [H1 H2]. cbn [expand_a awf]. auto.
Qed.

Theorem expand_depth_all :
  (forall e, xdepth (expand e) = xdepth e) /\
  (forall p, rdepth (expand_r p) = rdepth p) /\
  (forall s, sdepth (expand_s s) = sdepth s) /\
  (forall ps, pdepth_ps (expand_ps ps) = pdepth_ps ps) /\
  (forall a, adepth (expand_a a) = adepth a).
Proof.
  apply px_mutind; try reflexivity.
  - intros e IH. cbn [expand xdepth]. rewrite IH. reflexivity.
  - intros op l IHl r IHr. cbn [expand xdepth]. rewrite IHl, IHr. reflexivity.
  - intros m e IH. exact IH.
  - intros s p IH. destruct s; cbn [expand xdepth rdepth]; rewrite IH; reflexivity.
  - intros fn a IH. cbn [expand xdepth]. rewrite IH. reflexivity.
  - intros p IHp ps IHps. cbn [expand xdepth]. rewrite IHp, IHps. reflexivity.
  - intros p IHp dbl r IHr. destruct dbl; cbn [expand xdepth rdepth]; rewrite IHp, IHr; reflexivity.
  - intros s IH. exact IH.
  - intros s IHs dbl r IHr. destruct dbl; cbn [expand_r rdepth]; rewrite IHs, IHr; reflexivity.
  - intros dd ps IH. destruct dd; exact IH.
  - intros a t ps IH. destruct a; exact IH.
  - intros e IHe ps IHps. cbn [expand_ps pdepth_ps]. rewrite IHe, IHps. reflexivity.
  - intros e IH. exact IH.
  - intros e IHe a IHa. cbn [expand_a adepth]. rewrite IHe, IHa. reflexivity.
Qed.

Definition tsok (ts : list token) : Prop := forallb tok_ok' ts = true.

Theorem expand_ok_all :
  (forall e, tsok (xtoks e) -> tsok (xtoks (expand e))) /\
  (forall p, tsok (rtoks p) -> tsok (rtoks (expand_r p))) /\
  (forall s, tsok (stoks s) -> tsok (stoks (expand_s s))) /\
  (forall ps, tsok (ptoks ps) -> tsok (ptoks (expand_ps ps))) /\
  (forall a, tsok (atoks a) -> tsok (atoks (expand_a a))).
Proof.
  unfold tsok. apply px_mutind; try (intros; assumption).
  - intros e IH H. cbn [expand xtoks forallb] in *.
    apply andb_prop in H. destruct H as [H0 H]. apply forallb_app_true in H. destruct H as [H1 H2].
    rewrite H0. apply forallb_app_true. auto.
  - intros op l IHl r IHr H. cbn [expand xtoks] in *.
    apply forallb_app_true in H. destruct H as [H1 H2]. cbn [forallb] in H2.
    apply andb_prop in H2. destruct H2 as [H2 H3].
    apply forallb_app_true. split; [auto|]. cbn [forallb]. rewrite H2. auto.
  - intros m e IH H. cbn [expand xtoks] in *.
    apply forallb_app_true in H. destruct H as [H1 H2]. apply forallb_app_true. auto.
  - intros s p IH H. destruct s; cbn [expand xtoks start_toks app forallb] in *.
    + auto.
    + apply andb_prop in H. destruct H as [H0 H]. rewrite H0. auto.
    + apply andb_prop in H. destruct H as [H0 H]. cbn. apply IH. exact H.
  - intros fn a IH H. cbn [expand xtoks forallb] in *.
    apply andb_prop in H. destruct H as [H0 H]. apply andb_prop in H. destruct H as [H1 H].
    apply forallb_app_true in H. destruct H as [H2 H3].
    rewrite H0, H1. apply forallb_app_true. auto.
  - intros p IHp ps IHps H. cbn [expand xtoks] in *.
    apply forallb_app_true in H. destruct H as [H1 H2].
    apply forallb_app_true. auto.
  - intros p IHp dbl r IHr H. cbn [xtoks] in H.
    apply forallb_app_true in H. destruct H as [H1 H2]. cbn [forallb] in H2.
    apply andb_prop in H2. destruct H2 as [_ H2].
    destruct dbl; cbn [expand xtoks]; apply forallb_app_true; (split; [auto|]).
    + cbn [forallb slash_tok rtoks stoks dos_step ax_full axtoks ntoks ptoks app].
      repeat (apply Bool.andb_true_iff; split; [reflexivity|]). apply IHr. exact H2.
    + cbn [forallb]. apply Bool.andb_true_iff. split; [reflexivity|]. apply IHr. exact H2.
  - intros s IH H. exact (IH H).
  - intros s IHs dbl r IHr H. cbn [rtoks] in H.
    apply forallb_app_true in H. destruct H as [H1 H2]. cbn [forallb] in H2.
    apply andb_prop in H2. destruct H2 as [_ H2].
    destruct dbl; cbn [expand_r rtoks]; apply forallb_app_true; (split; [auto|]).
    + cbn [forallb stoks dos_step ax_full axtoks ntoks ptoks app].
      repeat (apply Bool.andb_true_iff; split; [reflexivity|]). apply IHr. exact H2.
    + cbn [forallb]. apply Bool.andb_true_iff. split; [reflexivity|]. apply IHr. exact H2.
  - intros dd ps IH H. cbn [stoks] in H. apply forallb_app_true in H. destruct H as [_ H].
    destruct dd; cbn [expand_s stoks]; apply forallb_app_true; (split; [reflexivity|auto]).
  - intros a t ps IH H. cbn [stoks] in H. apply forallb_app_true in H. destruct H as [H0 H].
    apply forallb_app_true in H0. destruct H0 as [Ha Ht].
    destruct a; cbn [expand_s stoks]; apply forallb_app_true; (split; [|auto]);
      apply forallb_app_true; (split; [try reflexivity; exact Ha|exact Ht]).
  - intros e IHe ps IHps H. cbn [expand_ps ptoks forallb] in *.
    apply andb_prop in H. destruct H as [H0 H]. apply forallb_app_true in H. destruct H as [H1 H2].
    cbn [forallb] in H2. apply andb_prop in H2. destruct H2 as [H2 H3].
    rewrite H0. apply forallb_app_true. split; [auto|]. cbn [forallb]. rewrite H2. auto.
  - intros e IH H. exact (IH H).
  - intros e IHe a IHa H. cbn [expand_a atoks] in *.
    apply forallb_app_true in H. destruct H as [H1 H2]. cbn [forallb] in H2.
    apply andb_prop in H2. destruct H2 as [H2 H3].
    apply forallb_app_true. split; [auto|]. cbn [forallb]. rewrite H2. auto.
Qed.

(* THE ABBREVIATION THEOREM: the abbreviated and the expanded spelling parse to
   the same tree up to the spelling-only fields *)
Theorem C10_abbreviations : forall ns e,
  xwf e -> xok e -> xdepth e < max_depth ->
  exists a a',
    parse (print_min e) ns = Ok a /\
    parse (print_min (expand e)) ns = Ok a' /\
    erase a = erase a'.
Proof.
  intros ns e Hw Hok Hd.
  exists (xast e), (xast (expand e)). split; [|split].
  - apply roundtrip_print_min; assumption.
  - apply roundtrip_print_min.
    + apply expand_wf_all. exact Hw.
    + apply expand_ok_all. exact Hok.
    + destruct expand_depth_all as [H _]. rewrite H. exact Hd.
  - symmetry. apply expand_erase_all.
Qed.
Print Assumptions C10_abbreviations.

(* the five abbreviations, one by one, by the theorem *)
Definition abbr_all : px :=
  XPath PAbs2 (RCons (nm_step "a") true
     (RCons (SAxis AxAt (NName "b") PNil) false
        (RCons (SAbbr true PNil) false (ROne (SAbbr false PNil))))).
Example abbr_all_text : print_min abbr_all = "//a//@b/../.".
Proof. vm_compute. reflexivity. Qed.
Example abbr_all_expanded :
  print_min (expand abbr_all) =
  "/descendant-or-self::node()/child::a/descendant-or-self::node()/attribute::b/parent::node()/self::node()".
Proof. vm_compute. reflexivity. Qed.

Example abbr_all_parse : exists a a',
  parse "//a//@b/../." None = Ok a /\
  parse "/descendant-or-self::node()/child::a/descendant-or-self::node()/attribute::b/parent::node()/self::node()" None = Ok a' /\
  erase a = erase a'.
Proof.
  apply (C10_abbreviations None abbr_all);
    [cbn; repeat split; reflexivity | vm_compute; reflexivity | cbn; unfold max_depth; lia].
Qed.

(* a = child::a and @a = attribute::a even give IDENTICAL trees *)
Example abbr_child : forall ns, parse "a" ns = parse "child::a" ns.
Proof.
  intros ns.
  pose (e := XPath PRel (ROne (nm_step "a"))).
  assert (H1 : parse (print_min e) ns = Ok (xast e))
    by (apply roundtrip_print_min; [cbn; auto|vm_compute; reflexivity|cbn; unfold max_depth; lia]).
  assert (H2 : parse (print_min (expand e)) ns = Ok (xast (expand e)))
    by (apply roundtrip_print_min; [cbn; auto|vm_compute; reflexivity|cbn; unfold max_depth; lia]).
  change (print_min e) with "a" in H1. change (print_min (expand e)) with "child::a" in H2.
  rewrite H1, H2. reflexivity.
Qed.

Example abbr_attr : forall ns, parse "@a" ns = parse "attribute::a" ns.
Proof.
  intros ns.
  pose (e := XPath PRel (ROne (SAxis AxAt (NName "a") PNil))).
  assert (H1 : parse (print_min e) ns = Ok (xast e))
    by (apply roundtrip_print_min; [cbn; auto|vm_compute; reflexivity|cbn; unfold max_depth; lia]).
  assert (H2 : parse (print_min (expand e)) ns = Ok (xast (expand e)))
    by (apply roundtrip_print_min; [cbn; auto|vm_compute; reflexivity|cbn; unfold max_depth; lia]).
  change (print_min e) with "@a" in H1. change (print_min (expand e)) with "attribute::a" in H2.
  rewrite H1, H2. reflexivity.
Qed.

(* filter expressions, variables:  (a|b)[1]/c   and   f($x)[2]//@d *)
Definition ex3 : px :=
  XFPath (XFilter (XParen (XBin BUnion (XPath PRel (ROne (nm_step "a"))) (XPath PRel (ROne (nm_step "b")))))
                  (PCons (xnum "1") PNil))
         false (ROne (nm_step "c")).
Example ex3_text : print_min ex3 = "(a|b)[1]/c".
Proof. vm_compute. reflexivity. Qed.
Example ex3_parse : parse "(a|b)[1]/c" None = Ok (xast ex3).
Proof. xrt ex3. Qed.

Definition ex4 : px :=
  XFPath (XFilter (XCall "f" (AOne (XVar "x"))) (PCons (xnum "2") PNil)) true
         (ROne (SAxis AxAt (NName "d") PNil)).
Example ex4_text : print_min ex4 = "f($x)[2]//@d".
Proof. vm_compute. reflexivity. Qed.
Example ex4_parse : parse "f($x)[2]//@d" None = Ok (xast ex4).
Proof. xrt ex4. Qed.
Example ex4_abbrev : exists a a',
  parse "f($x)[2]//@d" None = Ok a /\
  parse "f($x)[2]/descendant-or-self::node()/attribute::d" None = Ok a' /\ erase a = erase a'.
Proof.
  apply (C10_abbreviations None ex4);
    [cbn; repeat split; reflexivity | vm_compute; reflexivity | cbn; unfold max_depth; lia].
Qed.

(* FilterExpr ::= PrimaryExpr Predicate* : any number of predicates after a
   primary expression ("(a)[1][2]" used to be rejected by parseFilterExpr, which
   accepted at most one; repaired in the engine and in the model) *)
Definition ex5 : px :=
  XFilter (XParen (XPath PRel (ROne (nm_step "a")))) (PCons (xnum "1") (PCons (xnum "2") PNil)).
Example ex5_text : print_min ex5 = "(a)[1][2]".
Proof. vm_compute. reflexivity. Qed.
Example filter_two_predicates :
  parse "(a)[1][2]" None =
  Ok (AFilter (AFilter (AGroup (AAxis "child" NTElem "" "a" "" false "" None))
                       (ANum (of_decimal false ["1"%char] [])))
              (ANum (of_decimal false ["2"%char] []))).
Proof. xrt ex5. Qed.

(* f(x)[1][2]/b *)
Definition ex6 : px :=
  XFPath (XFilter (XCall "f" (AOne (XPath PRel (ROne (nm_step "x")))))
                  (PCons (xnum "1") (PCons (xnum "2") PNil)))
         false (ROne (nm_step "b")).
Example ex6_text : print_min ex6 = "f(x)[1][2]/b".
Proof. vm_compute. reflexivity. Qed.
Example ex6_parse : parse "f(x)[1][2]/b" None = Ok (xast ex6).
Proof. xrt ex6. Qed.
Example ex6_abbrev : exists a a',
  parse "f(x)[1][2]/b" None = Ok a /\
  parse "f(child::x)[1][2]/child::b" None = Ok a' /\ erase a = erase a'.
Proof.
  apply (C10_abbreviations None ex6);
    [cbn; repeat split; reflexivity | vm_compute; reflexivity | cbn; unfold max_depth; lia].
Qed.
