(* Dispatch.v — the vocabulary of the dispatch tables that go/cmd/gendispatch reads from
   /repo/build.go on every run (Generated/Dispatch.v), and the model-side functions they are
   compared with in Proofs/DispatchProofs.v.  Definitions only. *)
From XP Require Import Base F64 Doc Ast Scan Parse Build.
Open Scope string_scope.
Open Scope nat_scope.
Open Scope list_scope.

(* one function name of processFunction's switch: its argument-count guards
   (`if len(root.Args) OP N { return nil, err }`), the number of arguments it indexes
   unconditionally, and the query it installs (type[:Func][+field...]) *)
Record frow := mkFrow { fr_name : string; fr_guards : list (string * nat); fr_need : nat;
                        fr_impl : list string }.
(* one axis name of processAxis: the query types it can build, NonFlat raised?, error? *)
Record arow := mkArow { ar_name : string; ar_impl : list string; ar_nonflat : bool; ar_error : bool }.
(* one operator of processOperator *)
Record orow := mkOrow { or_name : string; or_impl : list string; or_nonflat : bool }.

Definition guard_hits (g : string * nat) (n : nat) : bool :=
  let (op, k) := g in
  if String.eqb op "<" then Nat.ltb n k
  else if String.eqb op "<=" then Nat.leb n k
  else if String.eqb op ">" then Nat.ltb k n
  else if String.eqb op ">=" then Nat.leb k n
  else if String.eqb op "==" then Nat.eqb n k
  else if String.eqb op "!=" then negb (Nat.eqb n k)
  else true.

(* Go rejects a call with n arguments: a guard returns an error, or an argument that is
   indexed unconditionally is missing (index out of range, recovered by build()) *)
Definition go_rejects (r : frow) (n : nat) : bool :=
  orb (existsb (fun g => guard_hits g n) (fr_guards r)) (Nat.ltb n (fr_need r)).

Definition guards_small (r : frow) : bool :=
  andb (forallb (fun g => Nat.leb (snd g) 5) (fr_guards r)) (Nat.leb (fr_need r) 5).

(* the Go spelling of what a model query stands for *)
Definition qtag (q : query) : string :=
  match q with
  | QAncestor false _ _ => "ancestorQuery"
  | QAncestor true _ _ => "ancestorQuery+Self"
  | QAttribute _ _ => "attributeQuery"
  | QChild _ _ => "childQuery"
  | QCachedChild _ _ => "cachedChildQuery"
  | QDescendant false _ _ => "descendantQuery"
  | QDescendant true _ _ => "descendantQuery+Self"
  | QDoD false _ _ => "descendantOverDescendantQuery"
  | QDoD true _ _ => "descendantOverDescendantQuery+MatchSelf"
  | QFollowing false _ _ => "followingQuery"
  | QFollowing true _ _ => "followingQuery+Sibling"
  | QPreceding false _ _ => "precedingQuery"
  | QPreceding true _ _ => "precedingQuery+Sibling"
  | QParent _ _ => "parentQuery"
  | QSelf _ _ => "selfQuery"
  | QFn0 _ => "functionQuery:<lit>"
  | QFn1 f _ =>
    match f with
    | FCount => "functionQuery:countFunc" | FSum => "functionQuery:sumFunc"
    | FCeiling => "functionQuery:ceilingFunc" | FFloor => "functionQuery:floorFunc"
    | FRound => "functionQuery:roundFunc" | FBoolean => "functionQuery:booleanFunc"
    | FNumber => "functionQuery:numberFunc" | FString => "functionQuery:stringFunc"
    | FNot => "functionQuery:notFunc" | FNormalizeSpace => "functionQuery:normalizespaceFunc"
    | FStringLength => "functionQuery:stringLengthFunc" | FLowerCase => "functionQuery:lowerCaseFunc"
    | FName => "functionQuery:nameFunc" | FLocalName => "functionQuery:localNameFunc"
    | FNamespaceURI => "functionQuery:namespaceFunc"
    end
  | QFn2 f _ _ =>
    match f with
    | FStartsWith => "functionQuery:startwithFunc" | FEndsWith => "functionQuery:endwithFunc"
    | FContains => "functionQuery:containsFunc" | FMatches => "functionQuery:matchesFunc"
    | FSubstringBefore | FSubstringAfter => "functionQuery:substringIndFunc"
    | FStringJoin => "functionQuery:stringJoinFunc"
    end
  | QFn3 f _ _ _ =>
    match f with
    | FSubstring => "functionQuery:substringFunc" | FTranslate => "functionQuery:translateFunc"
    | FReplace => "functionQuery:replaceFunc"
    end
  | QConcat _ => "functionQuery:concatFunc"
  | QPosition _ => "functionQuery:positionFunc+firstInput"
  | QLast _ => "functionQuery:lastFunc+firstInput"
  | QReverse _ => "transformFunctionQuery:reverseFunc"
  | QNumeric o _ _ =>
    match o with
    | OAdd => "numericQuery:plusFunc" | OSub => "numericQuery:minusFunc" | OMul => "numericQuery:mulFunc"
    | ODiv => "numericQuery:divFunc" | OMod => "numericQuery:modFunc"
    end
  | QLogical o _ _ =>
    match o with
    | CEq => "logicalQuery:eqFunc" | CNe => "logicalQuery:neFunc" | CLt => "logicalQuery:ltFunc"
    | CLe => "logicalQuery:leFunc" | CGt => "logicalQuery:gtFunc" | CGe => "logicalQuery:geFunc"
    end
  | QBoolean true _ _ => "booleanQuery+IsOr"
  | QBoolean false _ _ => "booleanQuery"
  | QUnion _ _ => "unionQuery"
  | QNil => "<nil>"
  | _ => "?"
  end.

Definition str_in (s : string) (l : list string) : bool := existsb (String.eqb s) l.
Definition str_subset (a b : list string) : bool := forallb (fun s => str_in s b) a.
Definition str_seteq (a b : list string) : bool := andb (str_subset a b) (str_subset b a).

(* ---- model side ---- *)
Definition re_any : string -> bool := fun _ => true.
(* an argument that builds under every flag and is neither a string nor a number constant *)
Definition dummy_arg : anode := AFunc "" "true" [].

Definition model_fn (name : string) (n : nat) : option string :=
  match process re_any 0 (AFunc "" name (repeat dummy_arg n)) fl_none fi_nil with
  | Ok (q, _, _) => Some (qtag q)
  | _ => None
  end.

Definition counts : list nat := [0; 1; 2; 3; 4; 5; 6].

(* row r agrees with the model for 0..6 arguments: rejected alike, and when accepted the
   query built is the one the Go case installs *)
Definition frow_ok (r : frow) : bool :=
  forallb (fun n =>
    match model_fn (fr_name r) n with
    | None => go_rejects r n
    | Some t => andb (negb (go_rejects r n)) (str_in t (fr_impl r))
    end) counts.

Definition dummy_test : ntest := mkTest NTAll "" "" false "".
Definition pr_nf : props := set_nonflat pr_none.

Definition model_axis (axis : string) : list (option (string * bool)) :=
  map (fun c : flags * props =>
         match mk_axis axis dummy_test (fst c) QContext (snd c) with
         | Ok (q, pr) => Some (qtag q, pr_nonflat pr)
         | _ => None
         end)
      [(fl_none, pr_none); (fl_smart, pr_none); (fl_none, pr_nf); (fl_smart, pr_nf)].

Fixpoint somes {A} (l : list (option A)) : list A :=
  match l with [] => [] | Some x :: r => x :: somes r | None :: r => somes r end.

(* an axis row agrees with mk_axis: an error alike; otherwise the same set of query types over
   the four (SmartDesc, NonFlat-so-far) situations, and NonFlat raised alike from a flat input *)
Definition arow_ok (r : arow) : bool :=
  let m := model_axis (ar_name r) in
  if ar_error r then forallb (fun x => match x with None => true | Some _ => false end) m
  else andb (Nat.eqb (List.length (somes m)) 4)
       (andb (str_seteq (map fst (somes m)) (ar_impl r))
             (match m with Some (_, nf) :: _ => Bool.eqb nf (ar_nonflat r) | _ => false end)).

Definition model_op (op : string) : option (string * bool) :=
  match process re_any 0 (AOp op dummy_arg dummy_arg) fl_none fi_nil with
  | Ok (q, pr, _) => Some (qtag q, pr_nonflat pr)
  | _ => None
  end.

Definition orow_ok (r : orow) : bool :=
  match model_op (or_name r) with
  | Some (t, nf) => andb (str_in t (or_impl r)) (Bool.eqb nf (or_nonflat r))
  | None => false
  end.
