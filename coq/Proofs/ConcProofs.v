(* Proofs for C05: under the ownership discipline of Conc.v every interleaving is race
   free, and what a thread observes does not depend on the other threads. *)
From Coq Require Import List Bool Arith Lia.
Import ListNotations.
From XP Require Import Conc.

Section Proofs.
  Variable own : loc -> owner.
  Variable lockres : loc -> value.

  Notation step := (step lockres).
  Notation run := (run lockres).
  Notation respects := (respects own).
  Notation ok_action := (ok_action own).

  Lemma upd_same : forall A (f : nat -> A) k v, upd f k v k = v.
  Proof. intros. unfold upd. rewrite Nat.eqb_refl. reflexivity. Qed.

  Lemma upd_other : forall A (f : nat -> A) k v x, x <> k -> upd f k v x = f x.
  Proof. intros A f k v x H. unfold upd. apply Nat.eqb_neq in H. rewrite H. reflexivity. Qed.

  (* ---------------- invariants of one step ---------------- *)

  Definition all_respect (s : state) : Prop := forall u, respects u (fst (thr s u)).

  Lemma step_respects : forall s u, all_respect s -> all_respect (step s u).
  Proof.
    intros s u H v. unfold Conc.step.
    destruct (thr s u) as [[|a p] h] eqn:E; [apply H|].
    assert (Hp : respects u p).
    { specialize (H u). rewrite E in H. cbn in H. inversion H. assumption. }
    destruct a; cbn; unfold upd; destruct (Nat.eqb v u) eqn:EE;
      try (apply Nat.eqb_eq in EE; subst v; exact Hp); apply H.
  Qed.

  Definition trace_ok (s : state) : Prop :=
    forall e, In e (trace s) -> ok_action (fst e) (snd e).

  Lemma step_trace_ok : forall s u, all_respect s -> trace_ok s -> trace_ok (step s u).
  Proof.
    intros s u H T e. unfold Conc.step.
    destruct (thr s u) as [[|a p] h] eqn:E; [apply T|].
    assert (Ha : ok_action u a).
    { specialize (H u). rewrite E in H. cbn in H. inversion H. assumption. }
    destruct a; cbn; (intros [<-|Hin]; [exact Ha | apply T; exact Hin]).
  Qed.

  Lemma run_invariants : forall sched s,
    all_respect s -> trace_ok s ->
    all_respect (fold_left step sched s) /\ trace_ok (fold_left step sched s).
  Proof.
    induction sched as [|u sched IH]; intros s H T; [split; assumption|].
    cbn. apply IH; [apply step_respects | apply step_trace_ok]; assumption.
  Qed.

  (* ---------------- no race ---------------- *)

  Lemma ok_actions_do_not_conflict : forall e1 e2,
    ok_action (fst e1) (snd e1) -> ok_action (fst e2) (snd e2) -> ~ conflict e1 e2.
  Proof.
    intros [t1 a1] [t2 a2] H1 H2 (Hne & Hloc & Hw & Hl). cbn in *.
    destruct a1 as [l1|l1 f1|l1], a2 as [l2|l2 f2|l2]; cbn in *; subst l2;
      repeat match goal with
             | H : _ \/ _ |- _ => destruct H
             end;
      try discriminate; try congruence.
  Qed.

  Theorem race_free : forall (progs : tid -> prog) (st0 : loc -> value),
    (forall t, respects t (progs t)) ->
    forall sched, ~ race (trace (run progs st0 sched)).
  Proof.
    intros progs st0 H sched (e1 & e2 & I1 & I2 & C).
    destruct (run_invariants sched (init progs st0)) as [_ T].
    - intro u. apply H.
    - intros e [].
    - exact (ok_actions_do_not_conflict e1 e2 (T e1 I1) (T e2 I2) C).
  Qed.

  (* ---------------- non-interference ---------------- *)

  (* s (all threads running) and s' (t alone) look the same to thread t *)
  Definition same_view (t : tid) (s s' : state) : Prop :=
    thr s t = thr s' t /\
    forall l, own l = Shared \/ own l = Owned t -> store s l = store s' l.

  Lemma step_other : forall t u s s',
    u <> t -> all_respect s -> same_view t s s' -> same_view t (step s u) s'.
  Proof.
    intros t u s s' Hne H [Ht Hs]. unfold Conc.step.
    destruct (thr s u) as [[|a p] h] eqn:E; [split; assumption|].
    assert (Ha : ok_action u a).
    { specialize (H u). rewrite E in H. cbn in H. inversion H. assumption. }
    assert (Hthr : forall x, upd (thr s) u x t = thr s' t).
    { intro x. rewrite upd_other by congruence. exact Ht. }
    destruct a as [l|l f|l]; cbn [Conc.ok_action] in Ha; unfold same_view; cbn [Conc.store Conc.thr];
      split; try apply Hthr; try exact Hs;
      intros l' Hl'; cbn [Conc.store]; (destruct (Nat.eq_dec l' l) as [->|Hd];
        [ destruct Hl' as [Hl'|Hl']; rewrite Ha in Hl'; try discriminate;
          injection Hl' as Hl'; congruence
        | rewrite upd_other by exact Hd; apply Hs; exact Hl' ]).
  Qed.

  Lemma step_same : forall t s s',
    all_respect s -> same_view t s s' -> same_view t (step s t) (step s' t).
  Proof.
    intros t s s' H [Ht Hs]. unfold Conc.step. rewrite <- Ht.
    destruct (thr s t) as [[|a p] h] eqn:E; [split; [rewrite E|]; assumption|].
    assert (Ha : ok_action t a).
    { specialize (H t). rewrite E in H. cbn in H. inversion H. assumption. }
    destruct a as [l|l f|l]; cbn [Conc.ok_action] in Ha; unfold same_view; cbn [Conc.store Conc.thr].
    - rewrite (Hs l Ha). split; [rewrite !upd_same; reflexivity | exact Hs].
    - split; [rewrite !upd_same; reflexivity|].
      intros l' Hl'. unfold upd. destruct (Nat.eqb l' l); [reflexivity | apply Hs; exact Hl'].
    - split; [rewrite !upd_same; reflexivity|].
      intros l' Hl'. destruct (Nat.eq_dec l' l) as [->|Hd].
      + destruct Hl' as [Hl'|Hl']; rewrite Ha in Hl'; discriminate.
      + rewrite !upd_other by exact Hd. apply Hs; exact Hl'.
  Qed.

  Lemma same_view_run : forall t sched s s',
    all_respect s -> same_view t s s' ->
    same_view t (fold_left step sched s) (fold_left step (alone t sched) s').
  Proof.
    intros t. induction sched as [|u sched IH]; intros s s' H V; [exact V|].
    cbn. destruct (Nat.eqb t u) eqn:E.
    - apply Nat.eqb_eq in E. subst u. cbn. apply IH; [apply step_respects; exact H|].
      apply step_same; assumption.
    - apply Nat.eqb_neq in E. apply IH; [apply step_respects; exact H|].
      apply step_other; [congruence | exact H | exact V].
  Qed.

  Lemma same_view_refl : forall t s, same_view t s s.
  Proof. intros; split; reflexivity. Qed.

  (* the whole local state of t (what is left to run and everything observed), and the
     content of every location t may read, are the same as when t runs alone *)
  Theorem noninterference : forall (progs : tid -> prog) (st0 : loc -> value),
    (forall t, respects t (progs t)) ->
    forall sched t, same_view t (run progs st0 sched) (run progs st0 (alone t sched)).
  Proof.
    intros progs st0 H sched t. apply same_view_run; [intro u; apply H | apply same_view_refl].
  Qed.

  Theorem sequential_results : forall (progs : tid -> prog) (st0 : loc -> value),
    (forall t, respects t (progs t)) ->
    forall sched t,
      observed (run progs st0 sched) t = observed (run progs st0 (alone t sched)) t.
  Proof.
    intros progs st0 H sched t. destruct (noninterference progs st0 H sched t) as [E _].
    unfold observed. rewrite E. reflexivity.
  Qed.

  (* ---------------- a finished call returned what the call alone returns ---------------- *)

  Lemma alone_is_repeat : forall t sched, alone t sched = repeat t (length (alone t sched)).
  Proof.
    intros t. induction sched as [|u sched IH]; [reflexivity|].
    unfold alone in *. cbn. destruct (Nat.eqb t u) eqn:E; [|exact IH].
    apply Nat.eqb_eq in E. subst u. cbn. f_equal. exact IH.
  Qed.

  Lemma step_left : forall s t,
    length (fst (thr (step s t) t)) = length (fst (thr s t)) - 1.
  Proof.
    intros s t. unfold Conc.step. destruct (thr s t) as [[|a p] h] eqn:E.
    - rewrite E. reflexivity.
    - destruct a; cbn; rewrite upd_same; cbn; lia.
  Qed.

  Lemma solo_left : forall t k s,
    length (fst (thr (fold_left step (repeat t k) s) t)) = length (fst (thr s t)) - k.
  Proof.
    intros t. induction k as [|k IH]; intros s; cbn; [lia|].
    rewrite IH, step_left. lia.
  Qed.

  Lemma step_finished : forall s t, finished s t -> step s t = s.
  Proof.
    intros s t F. unfold finished in F. unfold Conc.step.
    destruct (thr s t) as [[|a p] h]; [reflexivity | discriminate].
  Qed.

  Lemma solo_finished : forall t k s, finished s t -> fold_left step (repeat t k) s = s.
  Proof.
    intros t. induction k as [|k IH]; intros s F; cbn; [reflexivity|].
    rewrite step_finished by exact F. apply IH; exact F.
  Qed.

  (* the complete run of t alone: as many steps as its program has actions *)
  Definition solo (progs : tid -> prog) (t : tid) : list tid := repeat t (length (progs t)).

  Theorem finished_results : forall (progs : tid -> prog) (st0 : loc -> value),
    (forall t, respects t (progs t)) ->
    forall sched t,
      finished (run progs st0 sched) t ->
      finished (run progs st0 (solo progs t)) t /\
      observed (run progs st0 sched) t = observed (run progs st0 (solo progs t)) t.
  Proof.
    intros progs st0 H sched t F.
    assert (Fs : finished (run progs st0 (solo progs t)) t).
    { unfold finished, solo, Conc.run. apply length_zero_iff_nil. rewrite solo_left. cbn. lia. }
    split; [exact Fs|].
    rewrite (sequential_results progs st0 H sched t).
    destruct (noninterference progs st0 H sched t) as [E _].
    unfold finished in F. rewrite E in F.
    set (k := length (alone t sched)) in *.
    assert (Hk : length (progs t) <= k).
    { pose proof (solo_left t k (init progs st0)) as L.
      unfold k in L. rewrite <- alone_is_repeat in L. fold (run progs st0 (alone t sched)) in L.
      rewrite F in L. cbn in L. lia. }
    rewrite (alone_is_repeat t sched). fold k.
    replace k with (length (progs t) + (k - length (progs t))) by lia.
    rewrite repeat_app. unfold Conc.run. rewrite fold_left_app.
    fold (solo progs t). fold (run progs st0 (solo progs t)).
    rewrite solo_finished by exact Fs. reflexivity.
  Qed.
End Proofs.

(* ---------------- non-vacuity: a concrete instance ---------------- *)
(* locations: 0 shared (the compiled tree), 1 owned by thread 0, 2 owned by thread 1,
   3 the locked cache.  Both threads read the tree, consult the cache and write a value
   computed from what they saw into their own cell, then read it back. *)
Definition ex_own (l : loc) : owner :=
  match l with 0 => Shared | 1 => Owned 0 | 2 => Owned 1 | _ => Locked end.
Definition ex_lockres (l : loc) : value := 40 + l.
Definition ex_prog (cell : loc) : prog :=
  [Read 0; LockedAccess 3; Write cell (fun h => list_sum h); Read cell].
Definition ex_progs (t : tid) : prog :=
  match t with 0 => ex_prog 1 | 1 => ex_prog 2 | _ => [] end.
Definition ex_st0 (l : loc) : value := match l with 0 => 7 | _ => 0 end.

Example ex_respects : forall t, respects ex_own t (ex_progs t).
Proof.
  intros [|[|t]]; unfold respects, ex_progs, ex_prog;
    repeat (apply Forall_cons || apply Forall_nil); cbn; auto.
Qed.

Example ex_interleaved :
  observed (run ex_lockres ex_progs ex_st0 [0; 1; 1; 0; 1; 0; 0; 1]) 0 = [50; 43; 7]
  /\ observed (run ex_lockres ex_progs ex_st0 (solo ex_progs 0)) 0 = [50; 43; 7]
  /\ store (run ex_lockres ex_progs ex_st0 [0; 1; 1; 0; 1; 0; 0; 1]) 3 = 2
  /\ store (run ex_lockres ex_progs ex_st0 (solo ex_progs 0)) 3 = 1.
Proof. vm_compute. repeat split; reflexivity. Qed.

(* the discipline is needed: a thread that reads a cell the other thread writes sees
   schedule-dependent values, and that run has a race *)
Definition bad_progs (t : tid) : prog :=
  match t with 0 => [Write 1 (fun _ => 9)] | 1 => [Read 1] | _ => [] end.
Example ex_bad :
  observed (run ex_lockres bad_progs ex_st0 [0; 1]) 1 = [9]
  /\ observed (run ex_lockres bad_progs ex_st0 [1; 0]) 1 = [0].
Proof. vm_compute. split; reflexivity. Qed.
Example ex_bad_race : race (trace (run ex_lockres bad_progs ex_st0 [0; 1])).
Proof.
  exists (0, Write 1 (fun _ => 9)), (1, Read 1). cbn.
  split; [right; left; reflexivity|]. split; [left; reflexivity|].
  unfold conflict; cbn. repeat split; auto.
Qed.
