package main

// gen4.go — families for what small regular inputs do not reach (added after the adversarial
// round of seeded changes): unusual but valid names, sizes past internal thresholds (wide, deep,
// many results), numbers at the edge of the double format, unusual spellings, a navigator whose
// MoveTo refuses.

import (
	"fmt"
	"strings"

	"github.com/antchfx/xpath"
	"verif/internal/doc"
)

// names a generator alphabet of a, b, c, p never contains: hyphen-digit, dots, underscores,
// digits, the operator / node-type keywords, non-ASCII letters
var rareElemNames = []string{"Item", "ITEM", "iTem", "DIV", "item-2", "col-10", "cfg.item", "a_b", "x1", "div", "and", "or", "mod", "text", "node", "comment", "éa", "αβ", "a-b", "a.b.c", "h1", "item", "col", "_u", "a-1b", "v1.2"}
var rareAttrNames = []string{"ID", "id", "Id", "X", "id-1", "v1.2", "build.id", "a_b", "div", "mod", "x", "ü"}

func rareDoc(o *cw, hasNS bool) *dref {
	return o.doc(doc.Parse(`r(item-2(@id-1=1,@x=2,"t"),col-10(cfg.item(@v1.2=x,@build.id=7)),a_b(x1(@a_b=1)),div(@div=1,and(or),mod("3"),@mod=2),text(node(comment("c"))),item-2(@id-1=2),`+
		"éa(@ü=1,αβ),"+`a-b(a.b.c),h1,item(@x=1),col,_u,a-1b,v1.2("9"),item("2"),Item(@ID=1,@id=2),ITEM(@Id=3),iTem,DIV(@X=1))`), hasNS)
}

// rarePaths: location paths over the rare names, every name in several positions
func rarePaths() []string {
	var out []string
	for _, n := range rareElemNames {
		out = append(out, "//"+n, "/r/"+n, "//"+n+"/..", "//*/"+n, "descendant::"+n, n, "*/"+n, "//"+n+"/*", "//"+n+" | //item", "/r/"+n+"/@*", "//"+n+"/following-sibling::*", "preceding::"+n)
	}
	for _, a := range rareAttrNames {
		out = append(out, "//@"+a, "/r/*/@"+a, "//*/attribute::"+a, "//@"+a+"/..")
	}
	out = append(out, "/r/div/and/or", "div/and", "//div/mod", "//text/node/comment", "//mod/text()", "/r/item-2/@id-1", "//col-10/cfg.item/@v1.2", "//a-b/a.b.c", "/r/a-1b", "//v1.2/text()")
	return out
}

// rarePreds: the rare names inside predicates and expressions (keywords next to operators)
func rarePreds() []string {
	return []string{"//*[mod]", "//div[and]", "//div[and/or]", "//*[mod = 3]", "//div[@div = 1 and mod]", "//div[mod div 3 = 1]", "//div[@mod mod 2 = 0]", "//*[@id-1 = 1]", "//*[@id-1 - 1 = 0]",
		"//item-2[@id-1]", "//*[item-2]", "/r[item-2 and col-10]", "//*[@v1.2 = 'x']", "count(//item-2) - 1", "count(//item-2) -1", "count(//item) - count(//item-2)", "//item - 2", "//item -2",
		"sum(//mod) div count(//div)", "//div/mod mod 2", "//*[text]", "//text[node]", "//*[comment]", "//node/comment/text()", "name(//div/*[1])", "local-name(//*[@v1.2])", "//*[name() = 'cfg.item']",
		"//*[local-name() = 'item-2'][2]", "/r/*[self::item-2 or self::col-10]", "//v1.2 + 1", "//v1.2 * 2", "/r/div/and | /r/div/mod", "//or/ancestor::div", "//éa/αβ", "//*[@ü]"}
}

// wideDoc: one parent with n children named a (every third one also carries @e), plus n/3 named b;
// values are the indices
func wideDoc(o *cw, n int) *dref {
	var sb strings.Builder
	sb.WriteString("r(s(")
	for i := 0; i < n; i++ {
		if i > 0 {
			sb.WriteString(",")
		}
		nm := "a"
		if i%4 == 3 {
			nm = "b"
		}
		if i%3 == 0 {
			fmt.Fprintf(&sb, "%s(@id=%d,@e=1)", nm, i)
		} else {
			fmt.Fprintf(&sb, "%s(@id=%d)", nm, i)
		}
	}
	sb.WriteString("))")
	return o.doc(doc.Parse(sb.String()), false)
}

// deepDoc: a chain x(x(x(...y))) of the given depth
func deepDoc(o *cw, depth int, leaf string) *dref {
	return o.doc(doc.Parse(strings.Repeat("x(", depth)+leaf+strings.Repeat(")", depth)), false)
}

// sizeCases: expressions whose results pass internal thresholds (65, 256, 1024 ...), from the root only
func sizeCases(o *cw, tag string, exprs []string, ds ...*dref) {
	for _, d := range ds {
		for _, e := range exprs {
			kind := "sel"
			if strings.HasPrefix(e, "count(") || strings.HasPrefix(e, "sum(") || strings.HasPrefix(e, "string(") || strings.HasPrefix(e, "boolean(") {
				kind = "eval"
			}
			o.c(kind, d, "/", "-", e, "", tag)
		}
	}
}

var wideExprs = []string{"/r/s/a", "/r/s/*", "//a", "//a | //b", "//a | //a", "/r/s/a | /r/s/a[@e]", "//s/(a, *)", "//s/(b, a)", "/r/s/* | /r/s/a", "//a[@e] | //a", "//* | //@*", "//a/@id | //b/@id",
	"count(//a | //b)", "count(/r/s/a | /r/s/a)", "count(//s/(a, *))", "/r/s/a[300]", "/r/s/a[last()]", "/r/s/a[position() > 255]", "/r/s/*[257]", "(//a)[256]", "(//a)[257]", "count(/r/s/a[position() <= 256])",
	"//a[last()]/preceding-sibling::a | //a[last()]/preceding-sibling::a", "/r/s/a[@id = 299]", "//a[@id > 255]", "sum(/r/s/*/@id)", "/r/s/a/following-sibling::b[1]", "//b[64]", "//b[65]", "//a[65] | //a", "reverse(//a)"}

var deepExprs = []string{"//x", "//y", "descendant::y", "count(//x)", "count(//*)", "//x[y]", "//x[not(x)]", "//y/ancestor::x", "count(//y/ancestor::*)", "descendant::x[true()]", "descendant::*[1]", "descendant-or-self::x[y]",
	"count(descendant::x[position() = 1])", "//x[last()]", "/descendant::x[y]/y", "//y/ancestor-or-self::*[1]", "string(//y)", "boolean(//x/x/x/x/x/x/x/x/x/x/x/x/x/x/x/x/x/y)"}

// refusingNav: a navigator whose MoveTo always answers false (the NodeNavigator contract allows
// it): NodeIterator.MoveNext must then fall back to a copy of the node
type refusingNav struct{ xpath.NodeNavigator }

func (r refusingNav) MoveTo(xpath.NodeNavigator) bool { return false }
func (r refusingNav) Copy() xpath.NodeNavigator       { return refusingNav{r.NodeNavigator.Copy()} }

// edgeDoc: values at the edges of the number formats
func edgeDoc(o *cw) *dref {
	huge := "1" + strings.Repeat("0", 309)
	return o.doc(doc.Parse(`r(v("NaN"),v("Infinity"),v("-Infinity"),v("1"),v("1.0"),v("01"),v(" 1 "),v("-0"),v("7."),v("0"),v("1e3"),`+
		`n(@n=`+huge+`),n(@n=-`+huge+`),n(@n=5),n(@n=1.0),n(@n=01),n(@n=" 1 "),n(@n=-0),n(@n=7.),n,`+
		`i(@id=1000000000000001),i(@id=1000000000000002),i(@id=1000000000000003),i(@id=9007199254740993),i(@id=52.520006599999997),i(@id=0.14159265358979323846),`+
		`b(@v=" "),b(@v="  "),b(@v=""),b(@v=x),b(@v="y z"),v("café"),v("日本"),v(@n=é,"é"),`+
		`d(@dir=C:\tmp\,@t=$1\,"x\"),t(@f=.,@t=/-),t(@f=./,@t=-),t(@f=a/b,@t=c),t(@f=a,@t=b/c,"a/b.c"),`+"t(@f=a\x00b,@t=c,\"a\x00b\"),t(@f=a,@t=b\x00c,\"a\x00b.c\"),t(@f=a|b,@t=c),t(@f=a,@t=b|c,\"a|b\"))"), false)
}

var edgeNums = []string{"(0 div 0)", "(1 div 0)", "(-1 div 0)", "number(//zz)", "1", "1000000000000002", "9007199254740993", "9007199254740992", "10000000000000000", "12345678901234567890",
	"0.3", "(0.1 + 0.2)", "52.520006599999997", ".14159265358979323846", "0.14159265358979323846", ".1234567890123456789", "0.1234567890123456789", "-3000000000", "(2 - 4294967296)", "4294967296", "2147483648", "-2147483649"}

// rareC07: node-set / string / number comparisons over the edge values
func rareC07(o *cw) {
	d := edgeDoc(o)
	for _, op := range cmpOps {
		for _, n := range edgeNums[:12] {
			for _, l := range []string{"//v", "//n/@n", "//i/@id", "string(//v[1])", "string(//n[4]/@n)", "string(//v[5])", "string(//n[7]/@n)", "concat(//v[8], '')", "normalize-space(//v[7])"} {
				o.c("eval", d, "/", "-", l+" "+op+" "+n, "", "edge-compare")
				o.c("eval", d, "/", "-", n+" "+op+" "+l, "", "edge-compare")
			}
			o.c("sel", d, "/", "-", "//*[. "+op+" "+n+"]", "", "edge-compare-pred")
			o.c("sel", d, "/", "-", "//*[@* "+op+" "+n+"]", "", "edge-compare-pred")
			o.c("sel", d, "/", "-", "//*[string(@n) "+op+" "+n+"]", "", "edge-compare-pred")
			o.c("sel", d, "/", "-", "//*[not(@n "+op+" "+n+")]", "", "edge-compare-pred")
		}
		for _, a := range edgeNums {
			for _, b := range []string{"1000000000000001", "1000000000000002", "0.3", "(0.1 + 0.2)", "9007199254740992", ".14159265358979323846", "0.14159265358979323846"} {
				o.c("eval", d, "/", "-", a+" "+op+" "+b, "", "edge-num-num")
			}
		}
	}
}

// rareC07b: more than 64 nodes on the right of a node-set comparison; non-ASCII strings on the left
func rareC07b(o *cw) {
	hd := hundredDoc(o)
	for _, op := range cmpOps {
		for _, l := range []string{"/r/l[2]/i[1]/@n", "/r/l[2]/i[10]/@n", "/r/l[2]/i/@n", "//zz", "/r/l[1]/i[1]", "/r/l[1]/i[65]", "/r/l[1]/i[66]", "/r/l[1]/i[100]", "/r/l[2]/i[3]/@n | /r/l[2]/i[9]/@n"} {
			for _, r := range []string{"/r/l[1]/i", "/r/l[1]/i[position() <= 65]", "/r/l[1]/i[position() <= 64]", "/r/l[1]/i[position() > 64]", "//i/@n", "/r/l[1]/i[position() <= 66]"} {
				o.c("eval", hd, "/", "-", l+" "+op+" "+r, "", "set-set-wide")
				o.c("eval", hd, "/", "-", r+" "+op+" "+l, "", "set-set-wide")
			}
		}
	}
	ed := edgeDoc(o)
	for _, op := range []string{"=", "!="} {
		for _, w := range []string{"café", "日本", "é", "cafe", "caf", "日"} {
			for _, ns := range []string{"//v", "//v/@n", "//v | //b/@v", "//zz"} {
				o.c("eval", ed, "/", "-", "'"+w+"' "+op+" "+ns, "", "non-ascii-compare")
				o.c("eval", ed, "/", "-", ns+" "+op+" '"+w+"'", "", "non-ascii-compare")
				o.c("sel", ed, "/", "-", "//*['"+w+"' "+op+" .]", "", "non-ascii-compare")
			}
		}
	}
}

// rareC08: arithmetic and number() over the edge values
func rareC08(o *cw) {
	d := edgeDoc(o)
	for _, op := range []string{"+", "-", "*", "div", "mod"} {
		for _, a := range edgeNums {
			for _, b := range []string{"3", "9", "97", "2", "0.5", "7", "1000000007", "(0 div 0)"} {
				o.c("eval", d, "/", "-", a+" "+op+" "+b, "", "edge-arith")
			}
		}
		o.c("eval", d, "/", "-", "sum(//i/@id) "+op+" 97", "", "edge-arith")
		o.c("eval", d, "/", "-", "//i[4]/@id "+op+" 3", "", "edge-arith")
	}
	rareNumFns(o, hundredDoc(o))
	for _, s := range []string{"52.520006599999997", "0.14159265358979323846", "1234567890.1234567", "123456789012345.67", "1234567890123456.7", "0.1234567890123456789", "9007199254740993", "9007199254740992.5",
		"1" + strings.Repeat("0", 309), "-1" + strings.Repeat("0", 309), "0." + strings.Repeat("0", 330) + "1", strings.Repeat("9", 400), "4.9e-324", "17976931348623157" + strings.Repeat("0", 292) + ".5"} {
		o.c("eval", d, "/", "-", "number('"+s+"')", "", "edge-number")
		o.c("eval", d, "/", "-", "number('"+s+"') = "+s, "", "edge-number")
		o.c("eval", d, "/", "-", "'"+s+"' + 0", "", "edge-number")
		o.c("eval", d, "/", "-", "floor('"+s+"' * 1)", "", "edge-number")
	}
	for _, e := range []string{"number(//i[5]/@id)", "number(//i[6]/@id)", "sum(//i/@id)", "number(//n[1]/@n)", "number(//n[2]/@n)", "//n[1]/@n > 5", "//n[2]/@n < 0", "number(//n[1]/@n) = (1 div 0)", "floor(//i[5]/@id * 1000000000000)"} {
		o.c("eval", d, "/", "-", e, "", "edge-number")
	}
}

// rareC09: substring far left, translate pairs whose concatenations coincide under a separator
func rareC09(o *cw) {
	d := edgeDoc(o)
	for _, st := range []string{"-3000000000", "(2 - 4294967296)", "-2147483648", "-2147483649", "-2147483647", "-4294967295", "-9007199254740993", "(-1 div 0)", "-1e0"} {
		if strings.Contains(st, "e") {
			continue
		}
		for _, s := range []string{"'12345'", "//t[5]", "'abcdefghij'"} {
			o.c("eval", d, "/", "-", "substring("+s+", "+st+")", "", "substring-far-left")
			o.c("eval", d, "/", "-", "substring("+s+", "+st+", 3000000005)", "", "substring-far-left")
			o.c("eval", d, "/", "-", "string-length(substring("+s+", "+st+"))", "", "substring-far-left")
		}
	}
	// two translate() calls in ONE expression (so in one process, in this order): (a+sep+b, c) / (a, b+sep+c)
	for _, sep := range []string{"/", "|", ":", ",", " ", "-", "\x00", "\t", "=", ";", "."} {
		p1 := [2]string{"a" + sep + "b", "c"}
		p2 := [2]string{"a", "b" + sep + "c"}
		for _, s := range []string{"a" + sep + "b.c", "abcabc" + sep, sep + "a"} {
			q := func(x string) string { return "'" + x + "'" }
			if strings.Contains(s+sep, "'") {
				continue
			}
			e1 := "translate(" + q(s) + ", " + q(p1[0]) + ", " + q(p1[1]) + ")"
			e2 := "translate(" + q(s) + ", " + q(p2[0]) + ", " + q(p2[1]) + ")"
			o.c("eval", d, "/", "-", "concat("+e1+", '#', "+e2+")", "", "translate-pairs")
			o.c("eval", d, "/", "-", "concat("+e2+", '#', "+e1+")", "", "translate-pairs")
			o.c("eval", d, "/", "-", "concat(translate("+q(s)+", "+q(sep)+", "+q("/-")+"), '#', translate("+q(s)+", "+q(sep+"/")+", "+q("-")+"))", "", "translate-pairs")
		}
	}
	// per-node (from, to) pairs through ONE compiled expression
	o.c("evalall", d, "/", "-", "translate(., @f, @t)", "", "translate-pairs-doc")
	o.c("sel", d, "/", "-", "//t[translate(., @f, @t) != .]", "", "translate-pairs-doc")
	o.c("eval", d, "/", "-", "string-join(//t/@f, '|')", "", "translate-pairs-doc")
	rareStrFns(o, hundredDoc(o))
	// a result above 4 KB followed by small results of the functions that share a builder pool
	long := strings.Repeat("abcdefghij", 520)
	for _, e := range []string{"concat(string-length(concat('" + long + "', 'x')), '|', concat('a', 'b'), '|', normalize-space('  p   q '))",
		"concat(string-length(normalize-space('" + long + "  z')), '|', concat('a', 'b'), '|', concat('c', 'd'))",
		"concat(substring(concat('" + long + "', '" + long + "'), 1, 2), concat('x', 'y'), normalize-space(' m  n '))"} {
		for k := 0; k < 3; k++ {
			o.c("eval", d, "/", "-", e, "", "pooled-builder")
			o.c("evalall", d, "/", "-", e, "", "pooled-builder")
		}
	}
	// a non-ASCII lower-case() call (its value is outside C09) must not disturb later ASCII results
	for _, w := range lowerCaseNonASCII {
		if strings.Contains(w, "'") {
			continue
		}
		o.c("eval", d, "/", "-", "concat(string(string-length(lower-case('ab"+w+"')) >= 0), '|', concat('x', 'y'), '|', normalize-space('  p   q '), '|', lower-case('ABC'))", "", "after-non-ascii-lower-case")
	}
	// the zero-argument forms, from every kind of start node
	od := oddDocs(o)
	for _, e := range []string{"string()", "string-length()", "normalize-space()", "number()", "boolean()", "concat(string(), '|', string-length())", "string() = string(.)", "number() = number(.)"} {
		for _, dd := range append(od, d) {
			o.c("evalall", dd, "/", "-", e, "", "zero-argument-forms")
		}
	}
	for _, e := range []string{"//text()[string() = 't1']", "//@*[string() != '']", "//comment()[string-length() > 0]", "//node()[string() = string(.)]", "count(//text()[string()='u'])", "//@*[number() > 0]", "//text()[boolean()]"} {
		for _, dd := range od {
			o.c("sel", dd, "/", "-", e, "", "zero-argument-forms")
		}
	}
}

// rareC03: parenthesised position()/last(), literal on the left of a relational operator
func rareC03(o *cw, ds []*dref) {
	forms := []string{"(position() = 2)", "(position()) = 2", "(last())", "(last() - 1)", "position() = (last())", "((position()) < (last()))", "(position() mod 2) = 1", "(2)", "(last()) - 1", "(position() > 1) and true()"}
	for _, op := range cmpOps {
		for _, k := range []string{"1", "2", "3"} {
			forms = append(forms, k+" "+op+" position()", k+" "+op+" last()", "last() "+op+" "+k)
		}
		forms = append(forms, "last() - 1 "+op+" position()", "(last() - 1) "+op+" position()")
	}
	for _, f := range forms {
		for _, t := range []string{"a", "*", "b"} {
			for _, pre := range []string{"/*/", "//", "/*/*/", ""} {
				e := pre + t + "[" + f + "]"
				for _, d := range ds[:6] {
					o.c("selall", d, "/", "-", e, "", "positional-spellings")
				}
				o.c("selall", ds[1], "/", "-", pre+t+"["+f+"][@x]", "", "positional-spellings")
			}
		}
	}
}

// rareSpellings: unusual but valid spellings of ordinary expressions (and a few invalid ones: the
// verdict is compared with the model's)
var rareSpellings = []string{"6div 2", "7mod 4", "1and 0", "0or 1", ".5div 2", "5.mod 2", "a[. > 4and . < 6]", "2*3div 2", "1.+2", "a[2.]", "10. div 4.", "child :: a", "child::a", "a [ 1 ]", "a[1]", "- - 1", "--1", "a--1", "a - -1", "a -b", "a - b", "a-b", "..//.", "//.", "/..", "*[*]", "@*[.=1]", "@*[. = 1]", "((a))", "(((a)))[1]",
	"processing-instruction('x')", "processing-instruction()", "a/processing-instruction('x')", "1 or 2 and 3 = 4 != 5 < 6 <= 7 > 8 >= 9 + 10 - 11 * 12 div 13 mod 14 | a", "a|b|c|d|e", "- a | b", "-(a|b)",
	"a div b", "a div div", "div div div", "div div 2", "mod mod mod", "and and and", "or or or", "text", "text()", "node", "node()", "comment", "comment()", "text/text()", "node/node()", "* * *", "* div *", "@* * 2",
	"a[b][c][d]", "a [ b ] [ c ]", "a/ b / c", "a // b", "/ a", "// a", ". / a", ".. / a", "a/.", "a/..", "a/./b", "a/../b", ".5", "5.", "0.5", "00.50", ".5 + 5.", "1.", "1.e", ". 5", "5 .", "a.5", "a .5",
	"'a''b'", "\"a'b\"", "'a\"b'", "concat ( 'a' , 'b' )", "concat('a','b' )", "count (a)", "count( a )", "true ( )", "position ()", "last ( ) - 1", "a[last ()]", "a [position ( ) = 1]",
	"child::*", "child::node()", "child::text()", "attribute::*", "attribute :: x", "@ x", "@x", "self::node()", "self :: *", "parent :: node ( )", "ancestor-or-self :: a", "descendant-or-self::node()/a",
	"p:a", "p :a", "p: a", "p:*", "p: *", "*:a", "p:a:b", "p:child::a", "x:descendant-or-self::*", "p:text()", "child-or-self::a", "parent-or-self::a", "following-sibling-or-self::*", "attribute-or-self::id", "children::a", "ancestor-or-selfs::a"}

// byteRuns: long runs of one byte (UTF-8 continuation bytes, lead bytes without continuation, NUL)
func byteRuns() []string {
	var out []string
	for _, b := range []byte{0x80, 0xA0, 0xBF, 0xC0, 0xC3, 0xE0, 0xF0, 0xFF, 0x00, 'a', '('} {
		for _, n := range []int{1, 2, 63, 64, 65, 66, 127, 128, 129, 255, 256, 257, 1024} {
			r := strings.Repeat(string([]byte{b}), n)
			out = append(out, r, r+"(", r+"/a[", "a"+r, "'"+r, r+"'", "//"+r+"/")
		}
	}
	return out
}

// ---- second adversarial round: rarely used functions and argument positions, odd documents,
// ---- long chains, two- and three-digit positions

// oddDoc: text between elements, empty and adjacent text nodes, comments first, several top-level nodes
func oddDocs(o *cw) []*dref {
	srcs := []string{
		`#first,a("t1",b,"t2","t3",#c,b(""),"",c("x","y"),"t4"),#between,d(@x=1,"u"),"top-text"`,
		`r(#c1,"a",#c2,"b",e("1"),"c",e("2"),"",e(""),#c3)`,
		`a(count(@position=1,@last=2,@name=x),child(@self=1,parent("p")),text("t"),node,@count=3,@child=4)`,
		`r(l(i("1"),i("2"),i("3"),i("4"),i("5"),i("6"),i("7"),i("8"),i("9"),i("10")),l(i("1")),l)`,
	}
	var ds []*dref
	for _, s := range srcs {
		ds = append(ds, o.doc(doc.Parse(s), false))
	}
	return ds
}

func hundredDoc(o *cw) *dref {
	var sb strings.Builder
	sb.WriteString("r(l(")
	for i := 1; i <= 100; i++ {
		if i > 1 {
			sb.WriteString(",")
		}
		fmt.Fprintf(&sb, `i(@n=%d,"%d")`, i, i)
	}
	sb.WriteString("),l(i(@n=1),i(@n=2),i(@n=3),i(@n=4),i(@n=5),i(@n=6),i(@n=7),i(@n=8),i(@n=9),i(@n=10)))")
	return o.doc(doc.Parse(sb.String()), false)
}

var oddPaths = []string{"//text()", "//comment()", "//node()", "/node()", "/*", "/comment()", "/text()", "//a/text()", "//a/node()", "//b/text()", "//text()/..", "//comment()/following-sibling::node()",
	"//text()/preceding-sibling::node()", "//text()/following::node()", "//c/text()[2]", "//a/text()[last()]", "//e/text()", "//e[text()]", "//e[not(text())]", "//e[. = '']", "//text()[. = '']", "/d/@x/following::node()",
	"/d/@x/preceding::node()", "//@*/ancestor::node()", "//text()/ancestor-or-self::node()", "//node()[self::text()]", "//node()[self::comment()]", "string(/)", "string(//a)", "count(//text())", "count(/node())",
	"//count", "//child/parent", "//@position", "//@last | //@name", "//count[@position = 1]", "//*[@count]", "//a/child", "//a/text", "//a/node", "//@child", "count(//count)", "name(//child/*)",
	"//child[@self]/parent/text()", "//*[count]", "//*[child/parent = 'p']"}

var posForms = []string{"[9]", "[10]", "[11]", "[99]", "[100]", "[101]", "[last()]", "[last() - 1]", "[last() - 9]", "[last() - 10]", "[position() = 10]", "[position() > 9]", "[position() >= 10]", "[position() < 11]",
	"[position() = last()]", "[position() = 100]", "[position() > 99]", "[position() mod 10 = 0]", "[last() = 10]", "[last() = 100]", "[last() > 9]", "[10][@n]", "[@n][10]", "[100][@n = 100]", "[position() = last() - 90]"}

// numeric function corner values
var numFnArgs = []string{"0.5", "-0.5", "1.5", "-1.5", "2.5", "-2.5", "0.49999999999999994", "-0.49999999999999994", "4503599627370495.5", "4503599627370496", "4503599627370497", "9007199254740991", "9007199254740992",
	"-9007199254740992", "0", "-0", "(0 div 0)", "(1 div 0)", "(-1 div 0)", "0.000001", "-0.000001", "1e0", "123456789012", "0.1", "-0.1", "99.999", "1000000", "1234567.891", "0.00001", "0.0000001", "100000000000000000000",
	"123456789012345680000", "0.000000123", "-123.456", "1 div 3", "2 div 3", "10 div 4", "-10 div 4"}

func rareNumFns(o *cw, d *dref) {
	for _, a := range numFnArgs {
		if strings.Contains(a, "e0") {
			continue
		}
		for _, f := range []string{"floor", "ceiling", "number", "string", "boolean", "not", "string-length"} {
			o.c("eval", d, "/", "-", f+"("+a+")", "", "num-fn-corners")
		}
		o.c("eval", d, "/", "-", "string(floor("+a+"))", "", "num-fn-corners")
		o.c("eval", d, "/", "-", "string(ceiling("+a+"))", "", "num-fn-corners")
		o.c("eval", d, "/", "-", "floor("+a+") = ceiling("+a+")", "", "num-fn-corners")
		o.c("eval", d, "/", "-", "string(-("+a+"))", "", "num-fn-corners")
		o.c("eval", d, "/", "-", "string("+a+" * 1)", "", "num-fn-corners")
		o.c("eval", d, "/", "-", "concat("+a+", '')", "", "num-fn-corners")
		o.c("eval", d, "/", "-", "1 div "+a, "", "num-fn-corners")
		o.c("eval", d, "/", "-", "string(1 div "+a+")", "", "num-fn-corners")
	}
	for _, e := range []string{"sum(//i)", "sum(//i/@n)", "sum(//l[2]/i/@n)", "sum(//l)", "sum(//zz)", "sum(//i | //i/@n)", "sum(//i[. > 50]) div count(//i[. > 50])", "count(//i) * 2 - sum(//l[2]/i/@n)",
		"string(sum(//i) div 3)", "string(sum(//i) * 1000000000000)", "floor(sum(//i) div 7)", "sum(//i) mod 7", "-sum(//i)", "string(-sum(//zz))"} {
		o.c("eval", d, "/", "-", e, "", "num-fn-corners")
	}
}

// string function corner cases: empty and longer needles, many arguments, separators, non-ASCII
func rareStrFns(o *cw, d *dref) {
	strs := []string{"''", "'a'", "'ab'", "'abc'", "'abcabc'", "' '", "'  a  b  '", "'A'", "'aBc'", "'bc'", "//i[1]", "//i[10]", "//zz", "//l[2]/i[3]/@n", "'\t\n'"}
	for _, a := range strs {
		for _, b := range strs {
			for _, f := range []string{"starts-with", "ends-with", "contains", "substring-before", "substring-after"} {
				if strings.HasPrefix(b, "//") && (f == "starts-with" || f == "ends-with" || f == "contains") {
					continue // a node-set as second argument is a documented complaint
				}
				o.c("eval", d, "/", "-", f+"("+a+", "+b+")", "", "str-fn-corners")
			}
		}
		o.c("eval", d, "/", "-", "lower-case("+a+")", "", "str-fn-corners")
		o.c("eval", d, "/", "-", "normalize-space("+a+")", "", "str-fn-corners")
		o.c("eval", d, "/", "-", "string-length("+a+")", "", "str-fn-corners")
		o.c("eval", d, "/", "-", "concat("+a+", "+a+", 'x', "+a+", 'y', "+a+", 'z', "+a+", '1', "+a+", '2', "+a+")", "", "str-fn-corners")
		o.c("eval", d, "/", "-", "translate("+a+", 'abcd ', 'AB')", "", "str-fn-corners")
	}
	for _, sep := range []string{"''", "','", "', '", "'--'", "' '", "'\n'"} {
		for _, p := range []string{"//i", "//l[2]/i", "//l[2]/i/@n", "//zz", "//i[1]", "//l/i[1] | //l/i[2]", "reverse(//l[2]/i)"} {
			o.c("eval", d, "/", "-", "string-join("+p+", "+sep+")", "", "str-fn-corners")
		}
	}
	// (reverse(P)[n] is outside every property: the position of a transform query is always 1)
	for _, e := range []string{"concat(lower-case('STRASSE 12'), '|', concat('x', 'y'), '|', normalize-space('  p   q '))", "//i[count(reverse(preceding-sibling::i)) = 2]", "string(reverse(//l[2]/i))", "count(reverse(//i))"} {
		o.c("selall", d, "/", "-", e, "", "str-fn-corners")
		o.c("evalall", d, "/", "-", e, "", "str-fn-corners")
	}
}

// long chains: 10+ union operands, predicates, steps; predicates nested 5 deep; a very long ordinary text
func longForms() []string {
	var out []string
	j := func(n int, unit, sep string) string {
		var xs []string
		for i := 0; i < n; i++ {
			xs = append(xs, strings.ReplaceAll(unit, "#", fmt.Sprint(i+1)))
		}
		return strings.Join(xs, sep)
	}
	for _, n := range []int{10, 12, 30} {
		out = append(out, j(n, "//i[#]", " | "), "//i"+j(n, "[. > 0]", ""), j(n, "*", "/"), "//i["+j(n, "@n > #", " and ")+"]", "//i["+j(n, ". = #", " or ")+"]", j(n, "#", " + "), j(n, "#", " * ")+" div 7",
			"concat("+j(n, "'s#'", ", ")+")", "//l[1]"+j(n, "/../l[1]", ""), j(n, "count(//i[#])", " + "))
	}
	out = append(out, "//r[l[i[@n[. > 0][. < 200]][. != '']][i[last()]]]", "//l[i[@n[.=1]]][i[@n[.=10]]][not(i[@n[.=11]])]", "//*[*[*[1][self::i][@n=1]]]",
		"("+j(40, "//i[@n = #]", " | ")+")[last()]", "count("+j(50, "//l[1]/i[#]", " | ")+")", "//i["+j(60, "@n = #", " or ")+"][1]")
	return out
}

// lower-case() on non-ASCII text is outside C09 (ASCII); C15 still requires that it never crashes:
// the code points whose lower-case form is LONGER in UTF-8 (U+023A, U+023E), title-case digraphs, final sigma ...
var lowerCaseNonASCII = []string{"ÀÉÎÕÜ", "ΑΒΓ", "ДЖЗ", "İI", "ẞ", "ǅ", "Ⱥ", "xȾy", "ȺȾȺȾȺȾȺȾ", "Straße 12", "ΣΑΣ", "K", "ǄǇǊ", "\u1e9e\u0130\u023a", "A\u030a", "\ufb00", "\U00010400"}
