(* C17 — truncated or ill-formed expressions are rejected by Compile.
   Property theorems only; proofs in Proofs/BuildFacts.v and Proofs/ParseTerm.v.
   Proved — unknown function names, wrong argument counts, unknown axis
   names (incl. the namespace axis), variable references are build errors for
   ALL parse trees; a successful parse consumed the whole input (so anything
   left over after a complete expression is an error).  Not proved: that each
   truncation class (cut after an operator, slash, bracket, quote, comma; deleted
   closer; malformed qualified name) makes the PARSER fail — those are decided by
   the correspondence check (every damage class at every position, implementation
   must reject and the model must agree). *)
From Coq Require Import List String.
From XP Require Import Base F64 Doc Ast Scan Parse Build Api.
From XP.Proofs Require Import ParseTerm BuildFacts.

Theorem C17_unknown_function_rejected : forall re_ok d pre name args fl fi,
  known_function name = false -> is_err (process re_ok d (AFunc pre name args) fl fi).
Proof. exact process_unknown_function_err. Qed.
Print Assumptions C17_unknown_function_rejected.

Theorem C17_bad_arity_rejected : forall re_ok d pre name args fl fi,
  bad_arity name (List.length args) = true -> is_err (process re_ok d (AFunc pre name args) fl fi).
Proof. exact process_bad_arity. Qed.
Print Assumptions C17_bad_arity_rejected.

Theorem C17_unknown_axis_rejected : forall re_ok d axis nty pre loc prop hasns ns input fl fi,
  supported_axis axis = false -> is_err (process re_ok d (AAxis axis nty pre loc prop hasns ns input) fl fi).
Proof. exact process_unsupported_axis. Qed.
Print Assumptions C17_unknown_axis_rejected.

Theorem C17_variable_rejected : forall re_ok d p n fl fi, is_err (process re_ok d (AVar p n) fl fi).
Proof. exact process_variable_err. Qed.
Print Assumptions C17_variable_rejected.

(* a successful parse ended on the end-of-input token: nothing is ignored *)
Theorem C17_whole_input_consumed : forall text ns a, parse text ns = Ok a ->
  exists s1 st, next_item (init_scanner text) = Ok s1 /\
    pgo ns (default_fuel text) EExpr None (mkP s1 0) = Ok (a, st) /\ s_typ (p_s st) = IEOF.
Proof. exact parse_ok_eof. Qed.
Print Assumptions C17_whole_input_consumed.

(* the end-of-input token is only produced at the end of the input (or on a NUL) *)
Theorem C17_eof_only_at_end : forall s s', next_item s = Ok s' -> s_typ s' = IEOF ->
  skipsp (s_rest s) = nil \/ cur (skipsp (s_rest s)) = 0%N.
Proof. exact next_item_eof. Qed.
Print Assumptions C17_eof_only_at_end.

(* ---- the parser rejects truncated input (Proofs/ParseReject.v) ----
   [cannot_start t]: no expression starts with token t (end of input, a closing
   bracket or parenthesis, a comma, an operator ...); the set is exact.  The
   theorems are stated at the parser state of the damaged construct, after any
   number of complete rounds of the enclosing loop. *)
From XP.Proofs Require Import ParseAssoc ParseReject.

(* wherever an operand is required and the next token cannot start one — in
   particular at the end of the input — the parser fails *)
Theorem C17_operand_required : forall ns f what n st,
  2 <= f -> cannot_start (typ st) = true -> exists msg, pgo ns f what n st = Err msg.
Proof. exact pgo_bad_start_is_error. Qed.
Print Assumptions C17_operand_required.

(* cut after a binary operator, at any of the seven operator levels, after any number of complete operands *)
Theorem C17_cut_after_operator : forall ns g l n st a0 st' ops stm op st1,
  let st0 := mkP (p_s st) (S (p_d st)) in
  (l = LUnion -> typ st <> IMinus) ->
  level_sub ns g l n st0 = Ok (a0, st') ->
  bin_pre (level_op l) (level_sub ns g l n) st' ops stm ->
  level_op l stm = Some op -> pnext stm = Ok st1 -> cannot_start (typ st1) = true ->
  List.length ops <= g -> is_err (pgo ns (S (S g)) EExpr n st).
Proof. exact pgo_expr_trunc_after_operator. Qed.
Print Assumptions C17_cut_after_operator.

(* cut after '/' or '//' after any number of complete steps *)
Theorem C17_cut_after_slash : forall ns f n st n' st' k fuel,
  rel_run (pgo ns (S f) EStep) n st n' st' k -> k < fuel -> cannot_start_step (typ st') = true ->
  is_err (relpath_loop fuel (pgo ns (S f) EStep) n st).
Proof. exact pgo_relpath_trunc. Qed.
Print Assumptions C17_cut_after_slash.

(* cut after '[' ; a predicate whose ']' is missing *)
Theorem C17_cut_after_bracket : forall ns f n st o st2 st3,
  is_nodetest_start (typ st) = true -> parse_node_test ns n "child" NTElem st = Ok (o, st2) ->
  typ st2 = ILBracket -> pnext st2 = Ok st3 -> cannot_start (typ st3) = true ->
  is_err (pgo ns (S (S (S f))) EStep n st).
Proof. exact pgo_step_after_bracket. Qed.
Print Assumptions C17_cut_after_bracket.
Theorem C17_missing_closing_bracket : forall ns f n st o st2 st3 c st4,
  is_nodetest_start (typ st) = true -> parse_node_test ns n "child" NTElem st = Ok (o, st2) ->
  typ st2 = ILBracket -> pnext st2 = Ok st3 -> pgo ns (S f) EExpr (Some o) st3 = Ok (c, st4) ->
  typ st4 <> IRBracket -> pgo ns (S (S f)) EStep n st = Err "has an invalid token".
Proof. exact pgo_step_missing_rbracket. Qed.
Print Assumptions C17_missing_closing_bracket.

(* cut after '@' or after an axis name '::' *)
Theorem C17_cut_after_at_or_axis : forall ns f n st st1,
  typ st = IAt \/ typ st = IAxe -> pnext st = Ok st1 -> is_nodetest_start (typ st1) = false ->
  pgo ns (S f) EStep n st = Err "expression must evaluate to a node-set".
Proof. exact pgo_step_after_at. Qed.
Print Assumptions C17_cut_after_at_or_axis.

(* an unclosed string literal is a scanner error *)
Theorem C17_unclosed_literal : forall s q,
  let l := skipsp (s_rest s) in
  q = 34%N \/ q = 39%N -> cur l = q -> ~ In (Ascii.ascii_of_N q) (advance l) ->
  next_item s = Err "xpath: scanString got unclosed string".
Proof. exact next_item_unclosed_bytes. Qed.
Print Assumptions C17_unclosed_literal.

(* anything left over after a complete expression is an error; parse succeeds iff
   the expression parser ends exactly on the end-of-input token *)
Theorem C17_trailing_garbage : forall text ns s1 a st,
  next_item (init_scanner text) = Ok s1 ->
  pgo ns (default_fuel text) EExpr None (mkP s1 0) = Ok (a, st) -> typ st <> IEOF ->
  parse text ns = Err "has an invalid token".
Proof. exact parse_trailing_garbage. Qed.
Print Assumptions C17_trailing_garbage.

(* ------------------------------------------------------------------ *)
(* WHOLE-STRING statements: the TEXT of a damaged expression is rejected by Compile.
   [rejected_all re_ok ns ts]: Compile returns an error on EVERY admissible white-space layout of
   the token list ts (followed by the end of the text).  The intact parts are arbitrary
   round-trip expressions (any size); the damage classes are the ones of the property. *)
From XP.Proofs Require Import ScanTokens RoundTripOps RoundTripPaths RoundTripWs EndToEndPaths EndToEndReject.
From XP Require Import Dispatch.
From XP.Generated Require Import DispatchTable.
Open Scope list_scope.

(* E1 op  — cut right after any of the 14 binary operators *)
Theorem C17_text_cut_after_operator : forall re_ok ns op l,
  xwf l -> level op <= xlvl l -> xdepth l < max_depth ->
  rejected_all re_ok ns (xtoks l ++ [optok op]).
Proof. exact C17_text_cut_after_operator_all. Qed.
Print Assumptions C17_text_cut_after_operator.

(* ( E   — the closing parenthesis is missing *)
Theorem C17_text_missing_closing_paren : forall re_ok ns e,
  xwf e -> S (xdepth e) < max_depth -> rejected_all re_ok ns (TP ILParens :: xtoks e).
Proof. exact C17_text_missing_rparen. Qed.
Print Assumptions C17_text_missing_closing_paren.

(* P [ E   — the closing bracket is missing *)
Theorem C17_text_missing_closing_bracket : forall re_ok ns p e,
  path_syntax p -> xwf e -> S (xdepth e) < max_depth ->
  rejected_all re_ok ns (xtoks p ++ TP ILBracket :: xtoks e).
Proof. exact C17_text_missing_rbracket. Qed.
Print Assumptions C17_text_missing_closing_bracket.

(* E )  and  E ]  — an unbalanced closer *)
Theorem C17_text_unbalanced_closer : forall re_ok ns e (rb : bool),
  xwf e -> xdepth e < max_depth ->
  rejected_all re_ok ns (xtoks e ++ [TP (if rb then IRBracket else IRParens)]).
Proof.
  intros re_ok ns e rb Hw Hd L HL Hm.
  apply (C17_text_extra_closer re_ok ns e rb Hw Hd L HL).
  rewrite Hm, <- app_assoc. reflexivity.
Qed.
Print Assumptions C17_text_unbalanced_closer.

(* P /  and  P //  — cut after a slash (the bare "/" is a valid expression) *)
Theorem C17_text_cut_after_slash_ : forall re_ok ns s r (dbl : bool),
  rwf r -> rdepth r < max_depth ->
  rejected_all re_ok ns (xtoks (XPath s r) ++ [slash_tok dbl]).
Proof. exact C17_text_cut_after_slash. Qed.
Print Assumptions C17_text_cut_after_slash_.

(* P [ *)
Theorem C17_text_cut_after_open_bracket : forall re_ok ns p,
  path_syntax p -> rejected_all re_ok ns (xtoks p ++ [TP ILBracket]).
Proof. exact C17_text_cut_after_lbracket. Qed.
Print Assumptions C17_text_cut_after_open_bracket.

(* f(   f(e1,..,ek,   f(e1,..,ek *)
Theorem C17_text_cut_inside_call : forall re_ok ns fn,
  node_type_name fn = false ->
  rejected_all re_ok ns [TName fn; TP ILParens] /\
  forall a, awf a -> S (adepth a) < max_depth ->
    rejected_all re_ok ns (TName fn :: TP ILParens :: atoks a ++ [TP IComma]) /\
    rejected_all re_ok ns (TName fn :: TP ILParens :: atoks a).
Proof.
  intros re_ok ns fn Hf. split; [exact (C17_text_cut_after_call_lparen re_ok ns fn Hf)|].
  intros a Ha Hd. split.
  - exact (C17_text_cut_after_comma re_ok ns fn a Hf Ha Hd).
  - exact (C17_text_call_not_closed re_ok ns fn a Hf Ha Hd).
Qed.
Print Assumptions C17_text_cut_inside_call.

(* a call the Go switch of build.go (as regenerated on this run) rejects by argument count, and a
   name it does not list, are rejected as texts *)
Theorem C17_text_rejected_call : forall re_ok ns r oa,
  In r go_functions -> go_rejects r (List.length (call_args oa)) = true ->
  xwf (call_px (fr_name r) oa) -> xok (call_px (fr_name r) oa) ->
  xdepth (call_px (fr_name r) oa) < max_depth ->
  exists msg, compile re_ok (print_min (call_px (fr_name r) oa)) ns = Err msg.
Proof. exact C17_text_go_rejected_call. Qed.
Print Assumptions C17_text_rejected_call.

Theorem C17_text_unlisted_function : forall re_ok ns fn oa,
  str_in fn (map fr_name go_functions) = false ->
  xwf (call_px fn oa) -> xok (call_px fn oa) -> xdepth (call_px fn oa) < max_depth ->
  exists msg, compile re_ok (print_min (call_px fn oa)) ns = Err msg.
Proof. exact C17_text_go_unlisted_name. Qed.
Print Assumptions C17_text_unlisted_function.

(* further classes (Proofs/EndToEndRejectTokens.v): a damaged SECOND predicate, an outer bracket
   missing around a nested predicate, an unknown axis (also the namespace axis), a variable
   reference, an unclosed string literal as the first token *)
From XP.Proofs Require Import EndToEndName EndToEndRejectTokens.
Open Scope string_scope.

Theorem C17_text_second_predicate_damaged : forall re_ok ns p e1 e2,
  path_syntax p -> xwf e1 -> xwf e2 -> S (Nat.max (xdepth e1) (xdepth e2)) < max_depth ->
  rejected_all re_ok ns (xtoks p ++ TP ILBracket :: xtoks e1 ++ TP IRBracket :: TP ILBracket :: xtoks e2) /\
  rejected_all re_ok ns (xtoks p ++ TP ILBracket :: xtoks e1 ++ [TP IRBracket; TP ILBracket]).
Proof.
  intros re_ok ns p e1 e2 Hp H1 H2 Hd. split.
  - exact (C17_text_second_predicate_not_closed re_ok ns p e1 e2 Hp H1 H2 Hd).
  - apply (C17_text_cut_after_second_lbracket re_ok ns p e1 Hp H1).
    eapply Nat.le_lt_trans; [|exact Hd]. apply le_n_S. apply Nat.le_max_l.
Qed.
Print Assumptions C17_text_second_predicate_damaged.

Theorem C17_text_outer_bracket_missing_ : forall re_ok ns p e1 e2,
  path_syntax p -> path_syntax e1 -> xwf e2 -> S (S (xdepth e2)) < max_depth ->
  rejected_all re_ok ns (xtoks p ++ TP ILBracket :: (xtoks e1 ++ TP ILBracket :: xtoks e2 ++ [TP IRBracket])).
Proof. exact C17_text_outer_bracket_missing. Qed.
Print Assumptions C17_text_outer_bracket_missing_.

Theorem C17_text_unknown_axis : forall re_ok ns ax nm,
  name_ok ax = true -> name_ok nm = true -> supported_axis ax = false ->
  compile re_ok (ax ++ "::" ++ nm) ns =
  Err (if String.eqb ax "namespace" then "xpath: the namespace axis is not supported" else "unknown axe type").
Proof. exact C17_text_unsupported_axis. Qed.
Print Assumptions C17_text_unknown_axis.

Theorem C17_text_variable_reference : forall re_ok ns nm,
  xok (XVar nm) ->
  compile re_ok (print_min (XVar nm)) ns = Err "xpath: variable is not supported" /\
  forall b e, xwf (XBin b (XVar nm) e) -> xok (XBin b (XVar nm) e) -> xdepth (XBin b (XVar nm) e) < max_depth ->
    compile re_ok (print_min (XBin b (XVar nm) e)) ns = Err "xpath: variable is not supported".
Proof.
  intros re_ok ns nm H. split.
  - exact (C17_text_variable re_ok ns nm H).
  - intros b e. exact (C17_text_variable_operand re_ok ns b nm e).
Qed.
Print Assumptions C17_text_variable_reference.
