(* BigTree.v - the complete binary tree used by the implementation-only cases of C01 / C11
   (go/internal/gen/trees.go: RegularTree 2 d "x"): the numbers the generator attaches as
   `expectres=` literals are theorems about the document model, for every depth.

     elements        = |descendants of the root|            = 2^(d+1) - 1
     with a child    = |{ n below the root | n has a child }| = 2^d - 1
     leaves                                                   = 2^d                          *)
From XP Require Import Base Doc.
From Coq Require Import Lia Arith String List.
Import List ListNotations.
Open Scope nat_scope.

Definition xelem (ks : list tree) : tree := T KElem "" "x" "" "" [] ks.

Fixpoint reg (d : nat) : tree :=
  match d with
  | 0 => xelem []
  | S d' => xelem [reg d'; reg d']
  end.

Definition regdoc (d : nat) : tree := T KRoot "" "" "" "" [] [reg d].

Definition has_kids (t : tree) (p : list nat) : bool :=
  match subtree t p with
  | Some (T _ _ _ _ _ _ (_ :: _)) => true
  | _ => false
  end.

Definition inner_paths (t : tree) : list (list nat) := filter (has_kids t) (below t).
Definition leaf_paths (t : tree) : list (list nat) := filter (fun p => negb (has_kids t p)) (below t).

Lemma below_two k p l n d a c1 c2 :
  below (T k p l n d a [c1; c2]) = ([0] :: map (cons 0) (below c1)) ++ ([1] :: map (cons 1) (below c2)).
Proof. cbn [below]. rewrite app_nil_r. reflexivity. Qed.

Lemma below_one k p l n d a c :
  below (T k p l n d a [c]) = [0] :: map (cons 0) (below c).
Proof. cbn [below]. rewrite app_nil_r. reflexivity. Qed.

Lemma pow2_pos d : 1 <= 2 ^ d.
Proof. induction d as [|d IH]; cbn [Nat.pow]; lia. Qed.

Lemma below_reg_length d : length (below (reg d)) = 2 ^ (S d) - 2.
Proof.
  induction d as [|d IH].
  - reflexivity.
  - cbn [reg]. unfold xelem. rewrite below_two.
    rewrite app_length. cbn [length]. rewrite !map_length, IH.
    pose proof (pow2_pos d) as Hp. cbn [Nat.pow] in *. lia.
Qed.

Theorem regdoc_elements d : length (below (regdoc d)) = 2 ^ (S d) - 1.
Proof.
  unfold regdoc. rewrite below_one. cbn [length]. rewrite map_length, below_reg_length.
  pose proof (pow2_pos d) as Hp. cbn [Nat.pow] in *. lia.
Qed.

(* has_kids through one level *)
Lemma has_kids_cons k p l n d a ks i q c :
  nth_error ks i = Some c ->
  has_kids (T k p l n d a ks) (i :: q) = has_kids c q.
Proof. intros H. unfold has_kids. cbn [subtree t_kids]. rewrite H. reflexivity. Qed.

Lemma filter_map_cons (t c : tree) i :
  (forall q, has_kids t (i :: q) = has_kids c q) ->
  forall l, filter (has_kids t) (map (cons i) l) = map (cons i) (filter (has_kids c) l).
Proof.
  intros H l. induction l as [|q l IH]; cbn [map filter]; [reflexivity|].
  rewrite H. destruct (has_kids c q); cbn [map]; rewrite IH; reflexivity.
Qed.

Definition inner_self (t : tree) : nat :=
  match t with T _ _ _ _ _ _ (_ :: _) => 1 | _ => 0 end.

Lemma has_kids_nil c : has_kids c [] = Nat.eqb (inner_self c) 1.
Proof. destruct c as [? ? ? ? ? ? [|? ?]]; reflexivity. Qed.

Lemma inner_self_le c : inner_self c = 0 \/ inner_self c = 1.
Proof. destruct c as [? ? ? ? ? ? [|? ?]]; cbn; auto. Qed.

Lemma inner_two k p l n d a c1 c2 :
  length (inner_paths (T k p l n d a [c1; c2]))
  = (inner_self c1 + length (inner_paths c1)) + (inner_self c2 + length (inner_paths c2)).
Proof.
  unfold inner_paths. rewrite below_two, filter_app, app_length.
  set (t := T k p l n d a [c1; c2]).
  assert (H0 : forall q, has_kids t (0 :: q) = has_kids c1 q)
    by (intros q; apply has_kids_cons; reflexivity).
  assert (H1 : forall q, has_kids t (1 :: q) = has_kids c2 q)
    by (intros q; apply has_kids_cons; reflexivity).
  cbn [filter]. rewrite (H0 []), (H1 []).
  rewrite (filter_map_cons t c1 0 H0), (filter_map_cons t c2 1 H1).
  rewrite !has_kids_nil.
  destruct (inner_self_le c1) as [E1|E1], (inner_self_le c2) as [E2|E2]; rewrite E1, E2;
    cbn [Nat.eqb length]; rewrite ?app_length; cbn [length]; rewrite ?map_length; lia.
Qed.

Lemma inner_one k p l n d a c :
  length (inner_paths (T k p l n d a [c])) = inner_self c + length (inner_paths c).
Proof.
  unfold inner_paths. rewrite below_one.
  set (t := T k p l n d a [c]).
  assert (H0 : forall q, has_kids t (0 :: q) = has_kids c q)
    by (intros q; apply has_kids_cons; reflexivity).
  cbn [filter]. rewrite (H0 []), (filter_map_cons t c 0 H0).
  rewrite has_kids_nil.
  destruct (inner_self_le c) as [E1|E1]; rewrite E1; cbn [Nat.eqb length]; rewrite ?map_length; lia.
Qed.

Lemma inner_reg d : inner_self (reg d) + length (inner_paths (reg d)) = 2 ^ d - 1.
Proof.
  induction d as [|d IH].
  - reflexivity.
  - cbn [reg]. unfold xelem. rewrite inner_two. fold (xelem [reg d; reg d]).
    rewrite IH. cbn [inner_self xelem].
    pose proof (pow2_pos d) as Hp. cbn [Nat.pow]. lia.
Qed.

(* the elements of the document that have a child: what //x/ancestor::*, //x/parent::x and //x[x]
   must select, as a set *)
Theorem regdoc_inner d : length (inner_paths (regdoc d)) = 2 ^ d - 1.
Proof. unfold regdoc. rewrite inner_one. apply inner_reg. Qed.

Lemma filter_split {A} (f : A -> bool) (l : list A) :
  length l = length (filter f l) + length (filter (fun x => negb (f x)) l).
Proof. induction l as [|x l IH]; cbn [filter length]; [reflexivity|]. destruct (f x); cbn [negb length]; lia. Qed.

Theorem regdoc_leaves d : length (leaf_paths (regdoc d)) = 2 ^ d.
Proof.
  pose proof (filter_split (has_kids (regdoc d)) (below (regdoc d))) as H.
  fold (inner_paths (regdoc d)) in H. fold (leaf_paths (regdoc d)) in H.
  rewrite regdoc_elements, regdoc_inner in H.
  pose proof (pow2_pos d) as Hp. cbn [Nat.pow] in H. lia.
Qed.

(* in terms of the model's descendant enumeration (Doc.descendants = what /descendant::node() visits) *)
Theorem regdoc_descendants d : length (descendants (regdoc d) root_node) = 2 ^ (S d) - 1.
Proof.
  unfold descendants, node_tree, root_node. cbn [nattr npath subtree]. rewrite map_length.
  apply regdoc_elements.
Qed.

(* the literals of go/cmd/xh/gen.go (emitBigAxes, emitBigUnions): depth 18 *)
Theorem regdoc18_elements : N.of_nat (length (below (regdoc 18))) = 524287%N.
Proof. rewrite regdoc_elements. vm_compute. reflexivity. Qed.
Theorem regdoc18_inner : N.of_nat (length (inner_paths (regdoc 18))) = 262143%N.
Proof. rewrite regdoc_inner. vm_compute. reflexivity. Qed.

Print Assumptions regdoc_descendants.
Print Assumptions regdoc_elements.
Print Assumptions regdoc_inner.
Print Assumptions regdoc_leaves.
