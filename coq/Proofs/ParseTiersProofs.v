(* Proofs/ParseTiersProofs.v — the operator-precedence tiers of /repo/parse.go, as read by
   go/cmd/genparse on every run (Generated/ParseTiers.v), are the tiers of the model's parser:
   the same chain  Expression > Or > And > Equality > Relational > Additive > Multiplicative >
   Unary > Union > Path,  every binary tier a LOOP (left associativity) whose right operand comes
   from the SAME next tier as its first operand, with the accumulated operand on the left, and
   with exactly the model's operator spellings.

   [parse_tiers_ok] is re-proved by computation against the regenerated table; the link between
   the model's table and the model's parser functions ([tiers_describe_model]) is proved once. *)
From XP Require Import Base F64 Doc Ast Scan Parse.
From XP.Generated Require Import ParseTiers.
From XP.Proofs Require Import ParseReject.
Open Scope string_scope.
Open Scope list_scope.

Definition trow := (string * string * string * list string * bool * bool)%type.

Definition level_name (l : level) : string :=
  match l with
  | LOr => "parseOrExpr" | LAnd => "parseAndExpr" | LEq => "parseEqualityExpr"
  | LRel => "parseRelationalExpr" | LAdd => "parseAdditiveExpr" | LMul => "parseMultiplicativeExpr"
  | LUnion => "parseUnionExpr"
  end.

(* the tier that supplies both operands of level l *)
Definition level_next_name (l : level) : string :=
  match l with
  | LOr => "parseAndExpr" | LAnd => "parseEqualityExpr" | LEq => "parseRelationalExpr"
  | LRel => "parseAdditiveExpr" | LAdd => "parseMultiplicativeExpr" | LMul => "parseUnaryExpr"
  | LUnion => "parsePathExpr"
  end.

Definition level_ops (l : level) : list string :=
  match l with
  | LOr => ["or"] | LAnd => ["and"] | LEq => ["!="; "="] | LRel => ["<"; "<="; ">"; ">="]
  | LAdd => ["+"; "-"] | LMul => ["*"; "div"; "mod"] | LUnion => ["|"]
  end.

Definition level_row (l : level) : trow :=
  (level_name l, level_next_name l, level_next_name l, level_ops l, true, true).

Definition model_tiers : list trow :=
  [ ("parseExpression", "parseOrExpr", "", [], false, false);
    level_row LOr; level_row LAnd; level_row LEq; level_row LRel; level_row LAdd; level_row LMul;
    (* '-'* UnionExpr, an odd number of '-' becoming  operand * -1  *)
    ("parseUnaryExpr", "parseUnionExpr", "", ["*"], false, true);
    level_row LUnion ].

Definition str_in (s : string) (l : list string) : bool := existsb (String.eqb s) l.
Definition str_seteq (a b : list string) : bool :=
  andb (forallb (fun s => str_in s b) a) (forallb (fun s => str_in s a) b).

Definition trow_eqb (a b : trow) : bool :=
  match a, b with
  | (n1, s1, r1, o1, l1, a1), (n2, s2, r2, o2, l2, a2) =>
    andb (String.eqb n1 n2) (andb (String.eqb s1 s2) (andb (String.eqb r1 r2)
      (andb (str_seteq o1 o2) (andb (Bool.eqb l1 l2) (Bool.eqb a1 a2)))))
  end.

Fixpoint tiers_eqb (a b : list trow) : bool :=
  match a, b with
  | [], [] => true
  | x :: a', y :: b' => andb (trow_eqb x y) (tiers_eqb a' b')
  | _, _ => false
  end.

(* the regenerated table is the model's table *)
Theorem parse_tiers_ok : tiers_eqb go_tiers model_tiers = true.
Proof. vm_compute. reflexivity. Qed.
Print Assumptions parse_tiers_ok.

(* ---- what the model's table says about the model's parser ---- *)
Section Model.
Variable ns : nsmap.
Variable g : nat.

Lemma level_op_in_ops : forall l st op, level_op l st = Some op -> In op (level_ops l).
Proof.
  intros l st op H. destruct l; cbn [level_op level_ops] in *.
  - unfold op_or in H. destruct (test_op st "or"); inversion H; cbn; tauto.
  - unfold op_and in H. destruct (test_op st "and"); inversion H; cbn; tauto.
  - unfold op_eq in H. destruct (typ st); inversion H; cbn; tauto.
  - unfold op_rel in H. destruct (typ st); inversion H; cbn; tauto.
  - unfold op_add in H. destruct (typ st); inversion H; cbn; tauto.
  - unfold op_mul in H. destruct (is_typ st IStar); [inversion H; cbn; tauto|].
    destruct (test_op st "div") eqn:Ed.
    + cbn [orb] in H. inversion H. unfold test_op in Ed.
      repeat match type of Ed with andb _ _ = true => apply Bool.andb_true_iff in Ed; destruct Ed as [? Ed] end.
      apply String.eqb_eq in Ed. rewrite Ed. cbn; tauto.
    + cbn [orb] in H. destruct (test_op st "mod") eqn:Em; [|discriminate].
      inversion H. unfold test_op in Em.
      repeat match type of Em with andb _ _ = true => apply Bool.andb_true_iff in Em; destruct Em as [? Em] end.
      apply String.eqb_eq in Em. rewrite Em. cbn; tauto.
  - unfold op_union in H. destruct (is_typ st IUnion); inversion H; cbn; tauto.
Qed.

(* every binary level of the model is the row of the table: a left-associative loop over the
   next tier with the operators of the row *)
Theorem tiers_describe_model : forall l n,
  In (level_row l) model_tiers /\
  level_fun ns g l n = bin_level (S g) (level_op l) (level_sub ns g l n) /\
  (forall st op, level_op l st = Some op -> In op (level_ops l)) /\
  (* the operand tier of level l is the function of the next level *)
  match l with
  | LOr => level_sub ns g LOr n = level_fun ns g LAnd n
  | LAnd => level_sub ns g LAnd n = level_fun ns g LEq n
  | LEq => level_sub ns g LEq n = level_fun ns g LRel n
  | LRel => level_sub ns g LRel n = level_fun ns g LAdd n
  | LAdd => level_sub ns g LAdd n = level_fun ns g LMul n
  | LMul | LUnion => True
  end.
Proof.
  intros l n. split; [|split; [apply level_fun_eq|split; [apply level_op_in_ops|]]].
  - unfold model_tiers. destruct l; cbn [In]; tauto.
  - destruct l; try exact I; reflexivity.
Qed.
End Model.
Print Assumptions tiers_describe_model.

(* through the regenerated table: the Go function of every binary level parses its right operand
   with the same method as its first operand, in a loop, accumulating on the left *)
Theorem go_tiers_left_assoc : forall l,
  exists ops, In (level_name l, level_next_name l, level_next_name l, ops, true, true) go_tiers
              /\ str_seteq ops (level_ops l) = true.
Proof.
  intro l. destruct l; eexists; (split; [unfold go_tiers; cbn [In level_name level_next_name]; tauto|vm_compute; reflexivity]).
Qed.
Print Assumptions go_tiers_left_assoc.
