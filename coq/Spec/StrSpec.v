(* Spec/StrSpec.v — declarative specifications of the XPath 1.0 string
   functions (XPath 1.0, section 4.2) on byte strings.  No proofs here: the
   theorems "model function = specification" are in Proofs/StrFuncs.v.

   Strings are Coq [string]s (lists of bytes); [++] is [String.append],
   [length] is [String.length], [get] is [String.get] (0-based). *)
From XP Require Import Base.
Open Scope string_scope.
Open Scope nat_scope.

(* ------------------------------------------------------------------ *)
(** * 1. contains / starts-with / ends-with *)

Definition is_substring (w s : string) : Prop := exists a b, s = a ++ w ++ b.
Definition is_prefix (w s : string) : Prop := exists b, s = w ++ b.
Definition is_suffix (w s : string) : Prop := exists a, s = a ++ w.

(** * 2. position of the FIRST occurrence of [w] in [s] *)

Definition occurs_at (w s : string) (i : nat) : Prop :=
  exists a b, s = a ++ w ++ b /\ length a = i.

Definition first_occurrence (w s : string) (i : nat) : Prop :=
  occurs_at w s i /\ (forall a' b', s = a' ++ w ++ b' -> i <= length a').

(** * 3. substring-before / substring-after
   [r] is substring-before(s, w): the part of [s] before the first occurrence
   of [w], or "" when [w] does not occur in [s]. *)
Definition is_substring_before (s w r : string) : Prop :=
  (exists b, s = r ++ w ++ b /\ first_occurrence w s (length r))
  \/ (~ is_substring w s /\ r = "").

(* [r] is substring-after(s, w): the part of [s] after the first occurrence *)
Definition is_substring_after (s w r : string) : Prop :=
  (exists a, s = a ++ w ++ r /\ first_occurrence w s (length a))
  \/ (~ is_substring w s /\ r = "").

(** * 4. concat *)
Definition concat_all (l : list string) : string := fold_right append "" l.

(** * 6. translate
   per byte: the first position of [c] in [src] decides. *)

(* first position of the byte [c] in [s]; characterised in the proofs file by
   [get i s = Some c /\ forall j < i, get j s <> Some c] *)
Fixpoint index_of_char (c : ascii) (s : string) : option nat :=
  match s with
  | EmptyString => None
  | String a s' => if Ascii.eqb a c then Some 0 else option_map S (index_of_char c s')
  end.

Definition translate_char (src dst : string) (c : ascii) : string :=
  match index_of_char c src with
  | None => String c ""                        (* not in src: kept *)
  | Some i =>
    match get i dst with
    | Some d => String d ""                    (* replaced by dst[i] *)
    | None => ""                               (* beyond the end of dst: deleted *)
    end
  end.

Fixpoint concat_map (f : ascii -> string) (s : string) : string :=
  match s with
  | EmptyString => ""
  | String c s' => f c ++ concat_map f s'
  end.

Definition translate_spec (s src dst : string) : string :=
  concat_map (translate_char src dst) s.

(** * 7. normalize-space *)

Definition starts_nonspace (s : string) : bool :=
  match s with String c _ => negb (is_space_ascii c) | EmptyString => false end.

(* a non-space byte [c] in front of the words of the rest of the string: it
   extends the first of them when the rest begins with a non-space byte, and
   is a word of its own otherwise *)
Definition cons_word (c : ascii) (glue : bool) (l : list string) : list string :=
  match glue, l with
  | true, w :: r => String c w :: r
  | _, _ => String c "" :: l
  end.

(* the maximal runs of non-white-space bytes of [s], in order *)
Fixpoint words (s : string) : list string :=
  match s with
  | EmptyString => []
  | String c s' =>
    if is_space_ascii c then words s'
    else cons_word c (starts_nonspace s') (words s')
  end.

(* independent, relational description of the same splitting:
   s = sp0 w1 sp1 w2 ... wn spn  with w_i non-empty and space-free, sp_i
   made of white space, and sp_1 .. sp_(n-1) non-empty *)
Fixpoint all_chars (p : ascii -> bool) (s : string) : bool :=
  match s with EmptyString => true | String c s' => andb (p c) (all_chars p s') end.

Definition is_word (w : string) : Prop :=
  w <> "" /\ all_chars (fun c => negb (is_space_ascii c)) w = true.
Definition is_blank (b : string) : Prop := all_chars is_space_ascii b = true.

Inductive splits : string -> list string -> Prop :=
| splits_nil b : is_blank b -> splits b []
| splits_last b w b' : is_blank b -> is_word w -> is_blank b' -> splits (b ++ w ++ b') [w]
| splits_cons b w sp rest l :
    is_blank b -> is_word w -> is_blank sp -> sp <> "" ->
    starts_nonspace rest = true -> splits rest l ->
    splits (b ++ w ++ sp ++ rest) (w :: l).

Definition normalize_space_spec (s : string) : string := join " " (words s).

(* shape of a normalised string *)
Record normalized (s : string) : Prop := {
  norm_no_leading  : forall c, get 0 s = Some c -> is_space_ascii c = false;
  norm_no_trailing : forall c, get (length s - 1) s = Some c -> is_space_ascii c = false;
  norm_no_double   : forall i c1 c2, get i s = Some c1 -> get (S i) s = Some c2 ->
                                     is_space_ascii c1 = true -> is_space_ascii c2 = false;
  norm_only_sp     : forall i c, get i s = Some c -> is_space_ascii c = true -> c = " "%char
}.

(** * 8. lower-case *)
Definition lower_byte (n : nat) : nat := if andb (Nat.leb 65 n) (Nat.leb n 90) then n + 32 else n.

(** * 9. string-join *)
Fixpoint intersperse (sep : string) (l : list string) : list string :=
  match l with
  | [] => []
  | [x] => [x]
  | x :: r => x :: sep :: intersperse sep r
  end.

(** * 10. substring: the bytes of [m] at the 1-based positions [p] with
   [a <= p < e] *)
Fixpoint filter_pos (keep : Z -> bool) (i : Z) (s : string) : string :=
  (* [i] is the position of the first byte of [s] *)
  match s with
  | EmptyString => ""
  | String c s' => if keep i then String c (filter_pos keep (i + 1) s') else filter_pos keep (i + 1) s'
  end.

Definition substring_pos (m : string) (a e : Z) : string :=
  filter_pos (fun p => andb (Z.leb a p) (Z.ltb p e)) 1%Z m.
