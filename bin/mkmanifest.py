#!/usr/bin/env python3
"""Regenerates MANIFEST.json from the table below (kept in one place so that it stays valid)."""
import json, os
ROOT = os.path.dirname(os.path.dirname(os.path.abspath(__file__)))

T = {
 'C01': ('machine-checked proof in Coq (axes of the engine model = XPath axis relations, all 12, sound and complete; path composition) + correspondence check model vs /repo',
         'Theorems: every step function of the model (12 axes, both -or-self variants, descendant-over-descendant) selects exactly the nodes of the XPath axis relation that pass the node test, for all documents and all context nodes; the //a//b optimisation preserves the node set. The model is tied to /repo by running both on every 1-/2-step path, axis triples and random 3-5-step paths over small-scope and random documents from every context node (set of result nodes).',
         'hash collision freedom of FNV-64a on the document (ancestor de-duplication) is a hypothesis; parser/builder are tied by the correspondence (AST and query dumps), the builder-shape theorem is partial; navigators other than the harness navigator are outside'),
 'C02': ('machine-checked proof in Coq (filter keeps exactly the candidates whose predicate value is true, verdict independent of the candidate order; the builder compiles boolean predicates to such filters) + correspondence check',
         'Theorems about the model\'s filter query for predicates of any nesting; correspondence over generated predicate expressions (all axes, depth <= 2/3) on documents where candidates share ancestors/siblings.',
         'the fi_self=false branch of the merge rewrite (positional predicate on a primary expression that is not the first input) is excluded from the builder theorem; see DESIGN 9.3'),
 'C03': ('machine-checked proof in Coq (child-step position counters = proximity positions; (P)[n] = n-th node; the merge rewrite of the builder preserves the node sequence) + correspondence check',
         'Theorems: items of a child step carry their 1-based index among the matching children of the same parent; position()/last() by sibling counting equal index/size; numeric predicate selects that index; group filter selects the n-th node of the sequence. Correspondence exhaustive over the predicate forms x n <= 4 on fan-out documents.',
         'positional predicates on the ancestor axis are excluded from the builder theorem (outside C03)'),
 'C04': ('machine-checked proof in Coq (history independence of the API state machine that evaluates clones; at cursor level Clone forgets and Evaluate rewinds any state) + regenerated effect table + correspondence check over histories with a state-dirtying hook',
         'Theorem: for any history of Select/Evaluate/Dirty operations the result equals the fresh result. Correspondence: one *Expr, 1-8 prior calls with partial consumption and VerifDirty, then compared with a fresh Compile and with the model.',
         'that every Go Clone method drops state and deep-copies is proved for the cursor-level model of 8 query types (Model1), for the others it is the effect-table translator plus histories'),
 'C05': ('machine-checked proof in Coq (ownership discipline => race freedom and sequential results, for all schedules) + regenerated effect table (go/ast translator) + race-detector runs',
         'PARTIAL by nature: the theorem is about the discipline; the translator that extracts the effect table from the sources is syntactic; the Go memory model, scheduler and detector completeness are outside the model. 8 goroutines x corpus (every query type and function) under -race, results compared with sequential ones.',
         'translator (name-based), Go race detector, Go memory model'),
 'C06': ('machine-checked proof in Coq (parser termination: the fuel linear in the input length suffices; builder errors; call-graph pigeonhole bound) + regenerated call graph + correspondence on valid/damaged/soup/byte inputs + sub-process deep nesting',
         'Compile verdict (ok/error) of implementation vs model on grammar-generated, damaged, token-soup, raw-byte and non-ASCII inputs and namespace maps; every recursive construct nested up to 10^6 (10^7 thorough) deep in a sub-process (exit status).',
         'stack bytes per frame are not modelled; recover() semantics are modelled'),
 'C07': ('machine-checked proof in Coq (comparison dispatch = XPath 1.0 section 3.4 for all operand values; never aborts; and/or short-circuit) + correspondence check',
         'Theorems for all strings, doubles, node lists; correspondence exhaustive over type pairs x 6 operators x operand classes, at top level and inside predicates.',
         'string->number conversion (decimal to binary64) is shared by spec and model and validated against strconv, not proved correctly rounded'),
 'C08': ('machine-checked proof in Coq (NaN/infinity propagation, plain-decimal number rendering, number() of non-numeric strings) + correspondence check incl. decimal<->binary64 against strconv',
         'Arithmetic trees depth <= 4 (6) compared bit-for-bit; 1500+1500 (x20) conversions compared with strconv through the engine.',
         'correct rounding of the decimal conversion and of SpecFloat operations is validated/assumed (SpecFloat = definition of IEEE 754 binary64)'),
 'C09': ('machine-checked proof in Coq (string functions of the model = declarative specifications for all byte strings; substring = positions round(start) <= p < round(start)+round(length) for finite doubles) + correspondence check',
         'Theorems: contains/starts-with/ends-with/index/substring-before/after/translate/normalize-space/lower-case/join/substring slice; correspondence: nested calls depth <= 4 and an exhaustive substring sweep.',
         'substring positions proved for canonical finite doubles below 2^51; round() is floor(x+0.5) in double arithmetic (differs from exact rounding at 0.49999999999999994)'),
 'C10': ('machine-checked proof in Coq (print/parse round trip through the real scanner and parser for the grammar written as a datatype: precedence, left associativity, any white space, abbreviations = expansions; parser termination) + correspondence check on parse trees (hook), whitespace variants and abbreviations',
         'Theorems: parse (print e) = the grammar\'s parse tree for expressions of any size (operators of all nine tiers, paths with all axes and node tests, predicates, function calls, variables, parentheses, filter expressions), for every admissible white-space layout; abbreviated and expanded spellings parse to the same tree up to the unused prop field. Correspondence: parse trees of implementation vs model for all operator chains of length <= 3 (4) over all operator tuples incl. prefixed names; whitespace placements; abbreviated vs expanded forms (sequence equality).',
         'not covered by the round-trip syntax (correspondence only): qualified names p:a, decimals, double-quoted strings, a bare / operand, the step form (a, b), non-ASCII text'),
 'C11': ('machine-checked proof in Coq (identity key injective; union = set union, NoDup) + correspondence check (result multisets, 64-bit codes through the hook)',
         'Theorems for all well-formed documents and arbitrary node-set operands; correspondence on adversarial-name documents, all nodes\' codes compared exactly.',
         'FNV-64a collision freedom on the document is an explicit hypothesis; documents with duplicate attribute names on one element are outside (XML well-formedness)'),
 'C12': ('machine-checked proof in Coq (flat paths and single descendant steps strictly sorted in document order; count = length, reverse, Evaluate = Select; cursor-level iterator machines refine the list model: exhaustion stable, Evaluate rewinds, context preserved) + correspondence check on exact sequences and the iterator protocol',
         'Theorems for all documents/contexts/flat paths of any length; correspondence: exact sequence, Evaluate = Select, count, reverse, 3 extra MoveNext calls after exhaustion.',
         'cursor-level refinement (Model1/Iter, Iter2, Iter3) covers every query type, the function layer and the operator layer except lastFuncQuery (refinement false: cached count, outside the fragment) and descendantOverDescendantQuery (not yet proved); end-to-end from the text for ordered paths'),
 'C13': ('machine-checked proof in Coq (context-free queries ignore the start node; addr(n)/p from anywhere = p at n; wrappers preserve the node set / truth value) + correspondence check incl. metamorphic groups on the implementation',
         'Theorems at query level; correspondence: every node as start node, addr(n)/p composition, P[true()], (P), P|P, not(not(P)).',
         'builder-level facts (what the wrappers compile to) are tied by correspondence; composition needs child indices < 2^53'),
 'C14': ('machine-checked proof in Coq (name-test decision table; unbound prefix is an error; name functions) + correspondence check over namespace maps and both navigator variants',
         'Theorems for all nodes/tests/maps; correspondence over maps x navigators x 12 axes.',
         ''),
 'C15': ('machine-checked proof in Coq (the model never yields a runtime-error outcome; result types, with the round() refutation) + correspondence check on token-level expressions',
         'Theorem: sel/eval never Crash for ALL queries; documented result types proved except round() (refuted: known finding). Correspondence: every function x arity 0..4 x argument kinds, token soup; outcome classes; crash/budget/undocumented type on the implementation is a violation.',
         'stated from the text too (every text that compiles, every document and start node); the model\'s Crash-freedom transfers to the code only through the correspondence (outcome classes compared on every generated case)'),
 'C16': ('machine-checked proof in Coq (cache invariants under arbitrary interleavings: exact, bounded, failed loads not stored, get = load; $N rewriting of replace() = XPath reading under a model of Go template expansion) + correspondence check (sequential histories through the hook), race-detector runs, regexp oracles',
         'Theorems for any key/value type, load function, capacity, thread count and schedule; sequential histories exhaustive for capacities 0..3 x keys x length <= 4 (6) and random for 0..5; matches/replace compared with Go regexp directly.',
         'Go regexp is a parameter of the model (Go-side oracle: direct regexp calls and an independent implementation of the XPath replacement reading); locks are modelled as atomic sections; Go template expansion is modelled from its documentation'),
 'C17': ('machine-checked proof in Coq (the parser fails wherever an operand/closer is required and missing: after operators, slashes, brackets, parentheses, commas, @, axis::, unclosed literals, trailing input; unknown functions/axes, bad arity, variables are build errors; function names, arity guards and axis names regenerated from build.go on every run and proved equal to those of the model for every argument count) + correspondence check over damage classes x positions and every function x 0..6 arguments',
         'Every damaged variant must be rejected by the implementation and the model must agree.',
         'whole-string rejection theorems (every white-space layout, intact parts of any size) for cuts after operators, slashes, brackets, call parentheses and commas, missing and unbalanced closers, unknown functions and bad arity; cuts inside string/number tokens and damaged predicates on paths that already carry predicates are decided by the correspondence'),
}

checks = []
for pid in sorted(T):
    tech, text, note = T[pid]
    checks.append({
        'property_id': pid,
        'quick_cmd': './bin/check %s' % pid,
        'thorough_cmd': './bin/check %s --tier thorough' % pid,
        'evidence_file': 'evidence/%s.json' % pid,
        'replay_cmd_template': './bin/check %s --replay {path}' % pid,
        'engine': 'coq-model+correspondence',
        'level_claimed': {'category': 'proof', 'text': text, 'design_ref': 'DESIGN.md section 5 (%s) and section 9' % pid},
        'level_note': ('Trusted: Coq 8.16.1 kernel, extraction (ExtrOcamlBasic, ExtrOcamlString), OCaml driver, Go harness and generators, translators; '
                       'model tied to /repo by sampling on the generators\' domains. ' + note).strip(),
        'technique': tech,
    })

m = {
 'version': 1,
 'setup_cmd': './bin/setup.sh',
 'hooks': {'guard': 'verif', 'enable': 'go build -tags verif (add-only file /repo/verif_hooks.go)',
           'baseline_off_cmd': 'cd /repo && GOFLAGS=-mod=mod GOPROXY=off GOSUMDB=off GOTOOLCHAIN=local go test -json -vet=off -count=1 -timeout 25m ./...',
           'source_commits': ['c276c2f'], 'add_only': True},
 'engines': [{'name': 'coq-model+correspondence', 'path': 'coq/ ocaml/ go/ bin/check', 'serves_properties': sorted(T),
              'kind_free_text': 'hand-written Gallina model with machine-checked theorems (Props/Cnn.v), extracted to OCaml and run against the Go implementation on generated cases; go/ast translators regenerate fact tables'}],
 'checks': checks,
 'not_applicable': [],
 'notes': 'see DESIGN.md; known findings in known_findings.txt',
}
json.dump(m, open(os.path.join(ROOT, 'MANIFEST.json'), 'w'), indent=1)
print('MANIFEST.json written:', len(checks), 'checks')
