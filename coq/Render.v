(* Render.v — canonical text renderings used to compare the model with the
   implementation: values, node addresses, parse-tree and query-tree dumps in
   the format of the hooks VerifParseDump / VerifQueryDump.  Definitions only. *)
From XP Require Import Base F64 Doc Ast Scan Parse Build Hash Eval.
Open Scope nat_scope.
Open Scope string_scope.

Definition hex_digit (n : N) : ascii :=
  ascii_of_N (if N.ltb n 10 then 48 + n else 87 + n)%N.
Definition hex_digit_up (n : N) : ascii :=
  ascii_of_N (if N.ltb n 10 then 48 + n else 55 + n)%N.

Fixpoint hex_fixed (digits : nat) (n : N) (acc : string) : string :=
  match digits with
  | 0 => acc
  | S d => hex_fixed d (n / 16)%N (String (hex_digit (n mod 16)%N) acc)
  end.

Definition is_plain (c : ascii) : bool :=
  let n := byte_of c in
  orb (orb (andb (Nat.leb 97 n) (Nat.leb n 122)) (andb (Nat.leb 65 n) (Nat.leb n 90)))
      (orb (andb (Nat.leb 48 n) (Nat.leb n 57)) (orb (Nat.eqb n 95) (orb (Nat.eqb n 46) (Nat.eqb n 45)))).

Fixpoint esc (s : string) : string :=
  match s with
  | EmptyString => EmptyString
  | String c r =>
    if is_plain c then String c (esc r)
    else let n := N_of_ascii c in
         String "%"%char (String (hex_digit_up (n / 16)%N) (String (hex_digit_up (n mod 16)%N) (esc r)))
  end.

Fixpoint path_str (p : list nat) : string :=
  match p with
  | [] => ""
  | [i] => itoa i
  | i :: r => itoa i ++ "." ++ path_str r
  end.
Definition addr (n : node) : string :=
  "/" ++ path_str (npath n) ++ match nattr n with Some i => "@" ++ itoa i | None => "" end.

Definition addrs (l : list node) : string := join "," (map addr l).

Definition Z_str (z : Z) : string :=
  match z with
  | Z0 => "0"
  | Zpos _ => Z_digits z
  | Zneg p => "-" ++ Z_digits (Zpos p)
  end.

Definition f64_str (f : f64) : string :=
  if is_nan f then "nan" else hex_fixed 16 (Z.to_N (bits_of f)) "".

Definition render_value (v : value) : string :=
  match v with
  | VBool true => "B:true"
  | VBool false => "B:false"
  | VNum f => "F:" ++ f64_str f
  | VStr s => "S:" ++ esc s
  | VNodes l => "N:" ++ addrs (nodes_of l)
  | VInt z => "I:" ++ Z_str z
  | VNil => "Z:nil"
  end.

Definition render_outcome {A} (r : A -> string) (o : outcome A) : string :=
  match o with
  | Val a => r a
  | Complaint m => "E:complaint:" ++ esc m
  | Crash k => "E:crash:" ++ esc k
  end.

Definition ntype_num (t : ntype) : string :=
  match t with NTRoot => "0" | NTElem => "1" | NTAttr => "2" | NTText => "3" | NTComment => "4" | NTAll => "5" end.

Definition bstr (b : bool) : string := if b then "true" else "false".
Definition b01 (b : bool) : string := if b then "1" else "0".

Fixpoint dump_ast (a : anode) : string :=
  match a with
  | ARoot s => "R(" ++ esc s ++ ")"
  | AAxis ax ty pre loc prop hasns ns input =>
    "A(" ++ esc ax ++ "," ++ ntype_num ty ++ "," ++ esc pre ++ "," ++ esc loc ++ "," ++ esc prop ++ ","
         ++ bstr hasns ++ "," ++ esc ns ++ ","
         ++ match input with Some i => dump_ast i | None => "_" end ++ ")"
  | AFilter i c => "F(" ++ dump_ast i ++ "," ++ dump_ast c ++ ")"
  | AFunc pre name args =>
    "C(" ++ esc pre ++ "," ++ esc name
         ++ (fix go (l : list anode) : string :=
               match l with [] => "" | x :: r => "," ++ dump_ast x ++ go r end) args ++ ")"
  | AOp op l r => "O(" ++ esc op ++ "," ++ dump_ast l ++ "," ++ dump_ast r ++ ")"
  | ANum v => "N(" ++ hex_fixed 16 (Z.to_N (bits_of v)) "" ++ ")"
  | AStr s => "S(" ++ esc s ++ ")"
  | AVar pre name => "V(" ++ esc pre ++ "," ++ esc name ++ ")"
  | AGroup i => "G(" ++ dump_ast i ++ ")"
  end.

Definition cmp_name (o : cmpop) : string :=
  match o with CEq => "eqFunc" | CNe => "neFunc" | CLt => "ltFunc" | CLe => "leFunc" | CGt => "gtFunc" | CGe => "geFunc" end.
Definition arith_name (o : arith) : string :=
  match o with OAdd => "glob..func2" | OSub => "glob..func3" | OMul => "glob..func4" | ODiv => "glob..func5" | OMod => "glob..func6" end.

(* structure only: node tests and function arguments live in Go closures *)
Fixpoint dump_query (q : query) : string :=
  match q with
  | QNil => "_"
  | QNop => "nop"
  | QContext => "ctx"
  | QAbsolute => "abs"
  | QAncestor s _ i => "anc(" ++ b01 s ++ "," ++ dump_query i ++ ")"
  | QAttribute _ i => "attr(" ++ dump_query i ++ ")"
  | QChild _ i => "child(" ++ dump_query i ++ ")"
  | QCachedChild _ i => "cchild(" ++ dump_query i ++ ")"
  | QDescendant s _ i => "desc(" ++ b01 s ++ "," ++ dump_query i ++ ")"
  | QFollowing s _ i => "foll(" ++ b01 s ++ "," ++ dump_query i ++ ")"
  | QPreceding s _ i => "prec(" ++ b01 s ++ "," ++ dump_query i ++ ")"
  | QParent _ i => "parent(" ++ dump_query i ++ ")"
  | QSelf _ i => "self(" ++ dump_query i ++ ")"
  | QFilter np i p => "filter(" ++ b01 np ++ "," ++ dump_query i ++ "," ++ dump_query p ++ ")"
  | QFn0 _ | QFn1 _ _ | QFn2 _ _ _ | QFn3 _ _ _ _ | QConcat _ | QArg _ _ => "fn"
  | QPosition i => "fnpos(" ++ dump_query i ++ ")"
  | QLast i => "fnlast(" ++ dump_query i ++ ")"
  | QReverse i => "tfn(" ++ dump_query i ++ ")"
  | QNum v => "num(" ++ hex_fixed 16 (Z.to_N (bits_of v)) "" ++ ")"
  | QStr s => "str(" ++ esc s ++ ")"
  | QGroup i => "group(" ++ dump_query i ++ ")"
  | QLogical o l r => "cmp(" ++ cmp_name o ++ "," ++ dump_query l ++ "," ++ dump_query r ++ ")"
  | QNumeric o l r => "arith(" ++ dump_query l ++ "," ++ dump_query r ++ ")"
  | QBoolean o l r => "bool(" ++ b01 o ++ "," ++ dump_query l ++ "," ++ dump_query r ++ ")"
  | QUnion l r => "union(" ++ dump_query l ++ "," ++ dump_query r ++ ")"
  | QLastFunc i => "lastq(" ++ dump_query i ++ ")"
  | QDoD m _ i => "dod(" ++ b01 m ++ "," ++ dump_query i ++ ")"
  | QMerge i ch => "merge(" ++ dump_query i ++ "," ++ dump_query ch ++ ")"
  end.

Definition render_cres {A} (r : A -> string) (c : cres A) : string :=
  match c with
  | Ok a => r a
  | Err m => "E:compile:" ++ esc m
  | OutOfFuel => "E:outoffuel"
  end.
