(* Spec/Paths.v — XPath 1.0 denotation of a predicate-free location path
   over the twelve axes.  No proofs here; see Proofs/PathSem.v. *)
From XP Require Import Base Doc Ast Eval.
From XP.Spec Require Import Axes.
Open Scope list_scope.

(* one location step  axis::test  *)
Record sstep := mkStep { s_axis : axis; s_test : ntest }.

(* [m] is selected by the step [s] from the context node [n]
   ([match_test] is the node test, Eval.v's axisPredicate) *)
Definition step_rel (D : tree) (has_ns : bool) (s : sstep) (n m : node) : Prop :=
  axis_rel D (s_axis s) n m /\ match_test D has_ns (s_test s) m = true.

(* [n] is selected by  step1/step2/.../stepk  from [start]: there is a chain
   start = n0, n1, ..., nk = n  with  n(i-1) --step i--> ni *)
Fixpoint path_den (D : tree) (has_ns : bool) (steps : list sstep) (start n : node) : Prop :=
  match steps with
  | [] => n = start
  | s :: rest => exists k, step_rel D has_ns s start k /\ path_den D has_ns rest k n
  end.

(* an absolute path starts at the root node, whatever the context node *)
Definition abs_path_den (D : tree) (has_ns : bool) (steps : list sstep) (n : node) : Prop :=
  path_den D has_ns steps root_node n.
