(* Hash.v — query.go: getHashCode.  The identity key of a node and its
   FNV-64a code.  Definitions only. *)
From XP Require Import Base Doc.
Open Scope nat_scope.

Section WithDoc.
Variable D : tree.

Definition type_byte (t : ntype) : ascii :=
  ascii_of_nat (97 + match t with NTRoot => 0 | NTElem => 1 | NTAttr => 2 | NTText => 3 | NTComment => 4 | NTAll => 5 end).

(* strconv.Itoa(len(s)) ':' s *)
Definition lp (s : string) : string := (itoa (String.length s) ++ ":" ++ s)%string.

(* "-d" for the node itself and then for every ancestor below the root's
   parent: d = 1 + number of preceding siblings.  For an attribute
   MoveToPrevious fails, so its own d is 1 and the walk continues with the
   owner element. *)
Fixpoint index_suffix (p : list nat) : string :=
  match p with
  | [] => ""
  | i :: q => (index_suffix q ++ "-" ++ itoa (S i))%string
  end.

(* the node's own position entry comes first, then its ancestors', outermost
   last: for path [i0; i1; ...; ik] the suffix is -(ik+1) ... -(i0+1) -1 where
   the final -1 is the root (no previous sibling). *)
Definition path_suffix (p : list nat) : string :=
  (index_suffix p ++ "-1")%string.

Definition hash_key (n : node) : string :=
  match node_type D n with
  | NTRoot | NTAll => ""
  | t =>
    (String (type_byte t) (lp (node_prefix D n) ++ lp (local_name D n))
     ++ (match t with NTElem => "" | _ => lp (node_value D n) end)
     ++ (match nattr n with Some _ => "-1" | None => "" end)
     ++ path_suffix (npath n))%string
  end.

End WithDoc.

(* FNV-64a *)
Definition fnv_offset : N := 14695981039346656037%N.
Definition fnv_prime : N := 1099511628211%N.
Definition two64 : N := 18446744073709551616%N.

(* reduction modulo 2^64, computed as a mask (N.land_ones: x mod 2^64 = N.land x (2^64 - 1)) *)
Definition mask64 : N := 18446744073709551615%N.
Definition wrap64 (x : N) : N := N.land x mask64.

Fixpoint fnv64a (s : string) (h : N) : N :=
  match s with
  | EmptyString => h
  | String c r => fnv64a r (wrap64 ((N.lxor h (N_of_ascii c)) * fnv_prime)%N)
  end.

Definition hash_code (D : tree) (n : node) : N := fnv64a (hash_key D n) fnv_offset.
