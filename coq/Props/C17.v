(* C17 — truncated or ill-formed expressions are rejected by Compile.
   Property theorems only; proofs in Proofs/BuildFacts.v and Proofs/ParseTerm.v.
   PARTIAL: proved — unknown function names, wrong argument counts, unknown axis
   names (incl. the namespace axis), variable references are build errors for
   ALL parse trees; a successful parse consumed the whole input (so anything
   left over after a complete expression is an error).  Not proved: that each
   truncation class (cut after an operator, slash, bracket, quote, comma; deleted
   closer; malformed qualified name) makes the PARSER fail — those are decided by
   the correspondence check (every damage class at every position, implementation
   must reject and the model must agree). *)
From Coq Require Import List String.
From XP Require Import Base F64 Doc Ast Scan Parse Build Api.
From XP.Proofs Require Import ParseTerm BuildFacts.

Theorem C17_unknown_function_rejected : forall re_ok d pre name args fl fi,
  known_function name = false -> is_err (process re_ok d (AFunc pre name args) fl fi).
Proof. exact process_unknown_function_err. Qed.
Print Assumptions C17_unknown_function_rejected.

Theorem C17_bad_arity_rejected : forall re_ok d pre name args fl fi,
  bad_arity name (List.length args) = true -> is_err (process re_ok d (AFunc pre name args) fl fi).
Proof. exact process_bad_arity. Qed.
Print Assumptions C17_bad_arity_rejected.

Theorem C17_unknown_axis_rejected : forall re_ok d axis nty pre loc prop hasns ns input fl fi,
  supported_axis axis = false -> is_err (process re_ok d (AAxis axis nty pre loc prop hasns ns input) fl fi).
Proof. exact process_unsupported_axis. Qed.
Print Assumptions C17_unknown_axis_rejected.

Theorem C17_variable_rejected : forall re_ok d p n fl fi, is_err (process re_ok d (AVar p n) fl fi).
Proof. exact process_variable_err. Qed.
Print Assumptions C17_variable_rejected.

(* a successful parse ended on the end-of-input token: nothing is ignored *)
Theorem C17_whole_input_consumed : forall text ns a, parse text ns = Ok a ->
  exists s1 st, next_item (init_scanner text) = Ok s1 /\
    pgo ns (default_fuel text) EExpr None (mkP s1 0) = Ok (a, st) /\ s_typ (p_s st) = IEOF.
Proof. exact parse_ok_eof. Qed.
Print Assumptions C17_whole_input_consumed.

(* the end-of-input token is only produced at the end of the input (or on a NUL) *)
Theorem C17_eof_only_at_end : forall s s', next_item s = Ok s' -> s_typ s' = IEOF ->
  skipsp (s_rest s) = nil \/ cur (skipsp (s_rest s)) = 0%N.
Proof. exact next_item_eof. Qed.
Print Assumptions C17_eof_only_at_end.
