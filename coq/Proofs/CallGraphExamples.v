(* Proofs/CallGraphExamples.v — non-vacuity of Props/C06_stack.v: concrete call paths of the
   regenerated call graph meet the hypotheses of C06_stack_bounded.  Kept apart from the property
   theorems because the paths name functions of the current sources. *)
From Coq Require Import List String Arith NArith Lia.
Import ListNotations.
From XP Require Import CallGraph.
From XP.Generated Require Import CallGraph CallGraph_ok.
From XP.Proofs Require Import CallGraphProofs.

(* the hypotheses are satisfiable on the generated graph: the stack of the
   historical bug's input a/((b)) down to the innermost step, and a descent of
   filterQuery.Properties through two structural entries *)
Example C06_stack_example :
  let p : list frame :=
    [ ("build", false); ("parse", false);
      ("parser.parseExpression", false); ("parser.parseOrExpr", false);
      ("parser.parseAndExpr", false); ("parser.parseEqualityExpr", false);
      ("parser.parseRelationalExpr", false); ("parser.parseAdditiveExpr", false);
      ("parser.parseMultiplicativeExpr", false); ("parser.parseUnaryExpr", false);
      ("parser.parseUnionExpr", false); ("parser.parsePathExpr", false);
      ("parser.parseLocationPath", false); ("parser.parseRelativeLocationPath", false);
      ("parser.parseStep", false); ("parser.parseSequence", false);
      ("parser.parseStep", false); ("parser.parseSequence", false);
      ("parser.parseStep", false); ("parser.parseNodeTest", false) ]%string in
  call_path cg_nodes cg_edges p /\ respects_guards cg_guards p /\ count_struct p <= 0.
Proof.
  cbv zeta. split; [|split].
  - apply call_pathb_sound. vm_compute. reflexivity.
  - apply respects_guardsb_sound. vm_compute. reflexivity.
  - vm_compute. lia.
Qed.

Example C06_stack_example_structural :
  let p : list frame :=
    [ ("build", false); ("builder.processNode", false);
      ("builder.processFilter", false); ("filterQuery.Properties", false);
      ("filterQuery.Properties", true); ("filterQuery.Properties", true) ]%string in
  call_path cg_nodes cg_edges p /\ respects_guards cg_guards p /\ count_struct p <= 2.
Proof.
  cbv zeta. split; [|split].
  - apply call_pathb_sound. vm_compute. reflexivity.
  - apply respects_guardsb_sound. vm_compute. reflexivity.
  - vm_compute. lia.
Qed.
