#!/bin/bash
# extraction + OCaml driver; rebuilt only when a .vo is newer than the binary
set -e
cd "$(dirname "$0")/../ocaml"
if [ -x model ] && [ -z "$(find ../coq -name '*.vo' -newer model | head -1)" ] && [ main.ml -ot model ]; then exit 0; fi
rm -f model.ml model.mli
timeout 600 coqc -Q ../coq XP ../coq/Extract.v >/dev/null
rm -f ../coq/Extract.vo ../coq/Extract.glob ../coq/Extract.vok ../coq/Extract.vos ../coq/.Extract.aux
ocamlfind ocamlopt -O2 -w -a model.mli model.ml main.ml -o model 2>/dev/null || ocamlfind ocamlopt -w -a model.mli model.ml main.ml -o model
