(* CacheProofs.v — invariants of the loading cache under arbitrary interleavings. *)
From Coq Require Import List Arith Lia Bool.
Import ListNotations.
From XP Require Import Cache.

Section P.
Variable K V : Type.
Variable keq : forall a b : K, {a = b} + {a <> b}.
Variable load : K -> option V.
Variable cap : nat.

Notation cmap := (cmap K V).
Notation find := (find K V keq).
Notation upd := (upd K V keq).
Notation step := (step K V keq load cap).
Notation step1 := (step1 K V keq load cap).
Notation st := (st K V).
Notation init := (init K V).

Definition exact (mm : cmap) := forall k v, find k mm = Some v -> load k = Some v.
Definition bounded (mm : cmap) := 0 < cap -> length mm <= cap.
Definition pc_ok (p : pc K V) :=
  match p with Loaded k v => load k = Some v | Ret k r => r = load k | _ => True end.
Definition Inv (s : st) := exact (m K V s) /\ bounded (m K V s) /\ Forall pc_ok (thr K V s).

Lemma find_upd k v k' mm : find k' (upd k v mm) = if keq k' k then Some v else find k' mm.
Proof.
  induction mm as [|[k0 v0] r IH]; cbn.
  - destruct (keq k' k); reflexivity.
  - destruct (keq k k0) as [->|N]; cbn.
    + destruct (keq k' k0); reflexivity.
    + destruct (keq k' k0) as [->|N']; [destruct (keq k0 k); congruence|exact IH].
Qed.

Lemma len_upd k v mm :
  length (upd k v mm) = match find k mm with Some _ => length mm | None => S (length mm) end.
Proof.
  induction mm as [|[k0 v0] r IH]; cbn; [reflexivity|].
  destruct (keq k k0); cbn; [reflexivity|]. rewrite IH. destruct (find k r); reflexivity.
Qed.

Lemma Forall_set_nth {A} (P : A -> Prop) i x l : Forall P l -> P x -> Forall P (set_nth i x l).
Proof.
  revert i; induction l as [|y r IH]; intros [|i] HF Hx; cbn; auto; inversion HF; subst; constructor; auto.
Qed.

Lemma step_inv s i : Inv s -> Inv (step s i).
Proof.
  intros (He & Hb & Ht). unfold Cache.step.
  destruct (nth_error (thr K V s) i) as [p|] eqn:Hn; [|repeat split; auto].
  assert (Hp : pc_ok p) by (eapply Forall_forall; [exact Ht|eapply nth_error_In; exact Hn]).
  destruct p as [k|k|k v|k r]; cbn [Cache.step1].
  - destruct (find k (m K V s)) as [v|] eqn:Hf; cbn; repeat split; auto; apply Forall_set_nth; auto; cbn.
    symmetry. apply He. exact Hf.
  - destruct (load k) as [v|] eqn:Hl; cbn; repeat split; auto; apply Forall_set_nth; auto; cbn; auto.
  - cbn in Hp. destruct ((0 <? cap) && (cap <=? length (m K V s))) eqn:Hc; cbn.
    + apply andb_true_iff in Hc. destruct Hc as [Hc1 Hc2]. apply Nat.ltb_lt in Hc1.
      repeat split.
      * intros k' v'. cbn. destruct (keq k' k) as [->|]; [intros [= <-]; exact Hp|discriminate].
      * intros _. cbn. lia.
      * apply Forall_set_nth; auto. cbn. auto.
    + repeat split.
      * intros k' v'. cbn. rewrite find_upd. destruct (keq k' k) as [->|]; [intros [= <-]; exact Hp|apply He].
      * intros Hcap. cbn. rewrite len_upd. apply andb_false_iff in Hc. destruct Hc as [Hc|Hc].
        -- apply Nat.ltb_ge in Hc. lia.
        -- apply Nat.leb_gt in Hc. specialize (Hb Hcap). destruct (find k (m K V s)); lia.
      * apply Forall_set_nth; auto. cbn. auto.
  - cbn. repeat split; auto. apply Forall_set_nth; auto.
Qed.

Lemma init_inv ks : Inv (init ks).
Proof.
  split; [intros k v; cbn; discriminate|]. split; [unfold bounded; cbn; lia|].
  cbn. induction ks; cbn; constructor; cbn; auto.
Qed.

(* every reachable state: any number of concurrent gets, any key sequence, any schedule *)
Theorem cache_inv (ks : list K) (sched : list nat) : Inv (fold_left step sched (init ks)).
Proof.
  generalize (init_inv ks). generalize (init ks).
  induction sched as [|i r IH]; intros s Hs; cbn; [exact Hs|]. apply IH, step_inv, Hs.
Qed.

(* whatever a finished get returns is what load returns; a failed load is reported, never stored *)
Corollary get_returns_load ks sched i k r :
  nth_error (thr K V (fold_left step sched (init ks))) i = Some (Ret k r) -> r = load k.
Proof.
  intros H. destruct (cache_inv ks sched) as (_ & _ & Ht).
  assert (pc_ok (Ret k r)) by (eapply Forall_forall; [exact Ht|eapply nth_error_In; exact H]). assumption.
Qed.

Corollary entries_exact ks sched k v :
  find k (m K V (fold_left step sched (init ks))) = Some v -> load k = Some v.
Proof. intros H. destruct (cache_inv ks sched) as (He & _ & _). exact (He k v H). Qed.

Corollary size_bounded ks sched :
  0 < cap -> length (m K V (fold_left step sched (init ks))) <= cap.
Proof. intros H. destruct (cache_inv ks sched) as (_ & Hb & _). exact (Hb H). Qed.

(* a failed load leaves the map untouched: the next get of the same key loads again *)
Lemma failed_load_not_stored s i k :
  nth_error (thr K V s) i = Some (Missed k) -> load k = None ->
  m K V (step s i) = m K V s /\ nth_error (thr K V (step s i)) i = Some (Ret k None).
Proof.
  intros Hn Hl. unfold Cache.step. rewrite Hn. cbn [Cache.step1]. rewrite Hl. cbn. split; [reflexivity|].
  revert i Hn. generalize (thr K V s). induction l as [|y r IH]; intros [|i] Hn; cbn in *; try discriminate; auto.
Qed.

(* the sequential get is the three steps run back to back by one thread *)
Lemma set_nth_0 {A} (x y : A) : set_nth 0 x [y] = [x].
Proof. reflexivity. Qed.

Theorem get_seq_refines mm rs k :
  let s0 := mkSt K V mm rs [Start k] in
  let s3 := step (step (step s0 0) 0) 0 in
  let '(mm', rs', res) := get_seq K V keq load cap mm rs k in
  m K V s3 = mm' /\ resets K V s3 = rs' /\ thr K V s3 = [Ret k res].
Proof.
  cbn zeta. unfold get_seq, Cache.step. cbn [thr nth_error step1 m resets].
  destruct (find k mm) as [v|] eqn:Hf; cbn [thr nth_error Cache.step1 m resets set_nth].
  - auto.
  - destruct (load k) as [v|] eqn:Hl; cbn [thr nth_error Cache.step1 m resets set_nth].
    + destruct ((0 <? cap) && (cap <=? length mm)); cbn; auto.
    + auto.
Qed.

(* sequential histories: every reported result is load k, sizes stay bounded *)
Theorem run_seq_exact ks : forall mm rs,
  exact mm -> bounded mm ->
  Forall2 (fun k '(res, len, _) => res = load k /\ (0 < cap -> len <= cap)) ks (run_seq K V keq load cap mm rs ks).
Proof.
  induction ks as [|k r IH]; intros mm rs He Hb; cbn [run_seq]; [constructor|].
  unfold get_seq.
  destruct (find k mm) as [v|] eqn:Hf.
  - constructor; [split; [symmetry; apply He; exact Hf|exact Hb]|apply IH; assumption].
  - destruct (load k) as [v|] eqn:Hl.
    + destruct ((0 <? cap) && (cap <=? length mm)) eqn:Hc.
      * apply andb_true_iff in Hc. destruct Hc as [Hc1 Hc2]. apply Nat.ltb_lt in Hc1.
        constructor; [split; [symmetry; exact Hl|cbn; lia]|].
        apply IH.
        -- intros k' v'. cbn. destruct (keq k' k) as [->|]; [intros [= <-]; exact Hl|discriminate].
        -- intros _. cbn. lia.
      * assert (Hb' : bounded (upd k v mm)).
        { intros Hcap. rewrite len_upd, Hf. apply andb_false_iff in Hc. destruct Hc as [Hc|Hc].
          - apply Nat.ltb_ge in Hc. lia.
          - apply Nat.leb_gt in Hc. lia. }
        constructor; [split; [symmetry; exact Hl|exact Hb']|].
        apply IH; [|exact Hb'].
        intros k' v'. rewrite find_upd. destruct (keq k' k) as [->|]; [intros [= <-]; exact Hl|apply He].
    + constructor; [split; [symmetry; exact Hl|exact Hb]|apply IH; assumption].
Qed.
End P.
