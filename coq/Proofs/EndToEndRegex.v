(* Proofs/EndToEndRegex.v — property C16, end to end at the level of TEXTS.

   The regexp engine is a parameter of the model: [re_ok p] (the pattern
   compiles), [rm p s] (MatchString; None = the pattern does not compile),
   [rn p] (NumSubexp), [rr p s t] (ReplaceAllString).  E is a string literal
   or a predicate-free location path (EndToEndValues.is_operand_px, not a
   number); its string value is the string, or the string-value of the first
   node of the path ("" when there is none).

     matches(E,'pat')          (a) re_ok pat = false : Compile is an error
                               (b) otherwise Compile succeeds and Evaluate is
                                   VBool (rm pat (string value of E)), or the
                                   documented complaint when rm says the pattern
                                   is invalid
     replace(E,'pat','tmpl')   (c) Evaluate is  rr pat s tmpl'  where tmpl' is
                                   the engine's rewriting of tmpl; and Go's
                                   template expansion of tmpl' is the XPath F&O
                                   reading of tmpl: "$N" is group N
                                   (RewriteFixed.rewrite_max9_fo). *)
From XP Require Import Base F64 Doc Ast Scan Parse Build Hash Eval Api.
From XP.Spec Require Import Axes Paths Values StrSpec Template.
From XP.Proofs Require Import ParseTerm ScanTokens RoundTripOps RoundTripPaths
                              HashInj AxesSound PathSem BuildPath BuildFacts StrFuncs Rewrite RewriteFixed
                              BuildOps EndToEndPaths EndToEndPred EndToEndPos EndToEndAbs EndToEndValues.
Require Import Lia.
Open Scope string_scope.
Open Scope nat_scope.
Open Scope list_scope.

(* ------------------------------------------------------------------ *)
(** * 1. The builder on matches() and replace()                         *)
(* ------------------------------------------------------------------ *)

Section Build.
Variable re_ok : string -> bool.

Lemma process_matches_shape : forall d pre a0 a1 fl fi q0 pr0 fi0 p pr1 fi1,
  d < max_build_depth ->
  process re_ok (S d) a0 fl_none fi = Ok (q0, pr0, fi0) ->
  process re_ok (S d) a1 fl_none fi0 = Ok (QStr p, pr1, fi1) ->
  process re_ok d (AFunc pre "matches" [a0; a1]) fl fi =
  if re_ok p then Ok (QFn2 FMatches q0 (QStr p), pr1, mkFi (fi_q fi1) false)
  else Err "matches() got error.".
Proof.
  intros d pre a0 a1 fl fi q0 pr0 fi0 p pr1 fi1 Hd H0 H1.
  cbn [process]. rewrite (depth_ok d Hd).
  cbn [String.eqb Ascii.eqb Bool.eqb andb orb negb List.length Nat.eqb].
  rewrite H0. cbn [cbind]. rewrite H1. cbn [cbind]. destruct (re_ok p); reflexivity.
Qed.

Lemma process_replace_shape : forall d pre a0 a1 a2 fl fi q0 pr0 fi0 q1 pr1 fi1 q2 pr2 fi2,
  d < max_build_depth ->
  process re_ok (S d) a0 fl_none fi = Ok (q0, pr0, fi0) ->
  process re_ok (S d) a1 fl_none fi0 = Ok (q1, pr1, fi1) ->
  process re_ok (S d) a2 fl_none fi1 = Ok (q2, pr2, fi2) ->
  process re_ok d (AFunc pre "replace" [a0; a1; a2]) fl fi
    = Ok (QFn3 FReplace q0 q1 q2, pr2, mkFi (fi_q fi2) false).
Proof.
  intros d pre a0 a1 a2 fl fi q0 pr0 fi0 q1 pr1 fi1 q2 pr2 fi2 Hd H0 H1 H2.
  cbn [process]. rewrite (depth_ok d Hd).
  cbn [String.eqb Ascii.eqb Bool.eqb andb orb negb List.length Nat.eqb].
  rewrite H0. cbn [cbind]. rewrite H1. cbn [cbind]. rewrite H2. reflexivity.
Qed.

Lemma process_str : forall d s fl fi, d < max_build_depth ->
  process re_ok d (AStr s) fl fi = Ok (QStr s, pr_none, mkFi (fi_q fi) false).
Proof. intros d s fl fi Hd. cbn [process]. rewrite (depth_ok d Hd). reflexivity. Qed.

End Build.

(* ------------------------------------------------------------------ *)
(** * 2. matches                                                        *)
(* ------------------------------------------------------------------ *)

Definition matches_px (e : px) (pat : string) : px := XCall "matches" (args2 e (XStr pat)).
Definition replace_px (e : px) (pat tmpl : string) : px := XCall "replace" (args3 e (XStr pat) (XStr tmpl)).

Section Texts.
Variable re_ok : string -> bool.
Variable ns : nsmap.

(* the first operand builds, whatever the document: Compile does not look at one *)
Lemma operand_builds_nodoc : forall o d fi,
  is_operand_px o -> d + osize o <= max_build_depth ->
  exists q pr fi', process re_ok d (xast o) fl_none fi = Ok (q, pr, fi').
Proof.
  intros o d fi Ho Hd.
  destruct (operand_builds tree0 false (fun _ => 0%N) (fun _ _ => None) (fun _ => 0) (fun _ s _ => s)
              (hash_ok_tree0 _) re_ok o d fi Ho Hd) as (q & pr & fi' & E & _).
  eauto.
Qed.

Lemma matches_parse : forall e pat,
  is_operand_px e -> xok (matches_px e pat) ->
  parse (print_min (matches_px e pat)) ns = Ok (AFunc "" "matches" [xast e; AStr pat]).
Proof.
  intros e pat He Hok. destruct (operand_depth e He) as (We & De).
  apply (roundtrip_print_min ns (matches_px e pat)); [cbn; auto|exact Hok|].
  unfold matches_px, args2. cbn [xdepth RoundTripPaths.adepth]. rewrite De. unfold max_depth. cbn. lia.
Qed.

Lemma compile_process_Err : forall text a msg,
  parse text ns = Ok a -> process re_ok 0 a fl_none fi_nil = Err msg ->
  compile re_ok text ns = Err msg.
Proof.
  intros text a msg P E.
  assert (Hne : text <> "") by (intros Ee; rewrite Ee in P; exact (EndToEndPaths.parse_empty _ _ P)).
  unfold compile, compile_fuel, build_fuel.
  apply String.eqb_neq in Hne. rewrite Hne. unfold parse in P. rewrite P. cbn [cbind]. rewrite E. reflexivity.
Qed.

(** (a) a constant pattern that does not compile is rejected by Compile *)
Theorem C16_text_matches_bad_pattern : forall e pat,
  is_operand_px e -> xok (matches_px e pat) -> 1 + osize e <= max_build_depth ->
  re_ok pat = false ->
  compile re_ok (print_min (matches_px e pat)) ns = Err "matches() got error.".
Proof.
  intros e pat He Hok Hs Hbad.
  pose proof (matches_parse e pat He Hok) as P.
  destruct (operand_builds_nodoc e 1 fi_nil He Hs) as (q0 & pr0 & fi0 & E0).
  assert (Hd0 : 0 < max_build_depth) by (unfold max_build_depth; lia).
  assert (Hd1 : 1 < max_build_depth) by (unfold max_build_depth; lia).
  pose proof (process_matches_shape re_ok 0 "" (xast e) (AStr pat) fl_none fi_nil q0 pr0 fi0 pat pr_none _
                Hd0 E0 (process_str re_ok 1 pat fl_none fi0 Hd1)) as E.
  rewrite Hbad in E.
  exact (compile_process_Err _ _ _ P E).
Qed.

End Texts.

Section Values.
Variable D : tree.
Variable has_ns : bool.
Variable hc : tree -> node -> N.
Variable rm : string -> string -> option bool.
Variable rn : string -> nat.
Variable rr : string -> string -> string -> string.
Hypothesis Hhash : hash_ok (hc D) (all_nodes D).
Variable re_ok : string -> bool.
Variable ns : nsmap.

Notation EVALUATE := (evaluate rm rn rr hc D has_ns).
Notation EVAL := (eval D has_ns (hc D) rm rn rr).
Notation OPVAL := (EndToEndValues.opval D has_ns).
Notation sof := (str_or_first D).

Lemma evaluate_outcome : forall q c (o : outcome value),
  EVAL q c = o -> (forall l, o <> Val (VNodes l)) -> EVALUATE q c = o.
Proof.
  intros q c o H Hn. unfold evaluate. rewrite H. destruct o as [v|m|k]; try reflexivity.
  destruct v; try reflexivity. exfalso. apply (Hn l). reflexivity.
Qed.

(** (b) matches(E,'pat') with a pattern that compiles *)
Theorem C16_text_matches : forall e pat,
  is_operand_px e -> xok (matches_px e pat) -> 1 + osize e <= max_build_depth ->
  re_ok pat = true ->
  exists q,
    compile re_ok (print_min (matches_px e pat)) ns = Ok q /\
    forall c, Doc.valid D c = true ->
    exists m, OPVAL e c m /\
      EVALUATE q c =
      match rm pat (sof m) with
      | Some b => Val (VBool b)
      | None => Complaint "matches() function second argument is not a valid regexp pattern"
      end.
Proof.
  intros e pat He Hok Hs Hgood.
  pose proof (matches_parse ns e pat He Hok) as P.
  destruct (operand_builds D has_ns (hc D) rm rn rr Hhash re_ok e 1 fi_nil He Hs) as (q0 & pr0 & fi0 & E0 & V0).
  assert (Hd0 : 0 < max_build_depth) by (unfold max_build_depth; lia).
  assert (Hd1 : 1 < max_build_depth) by (unfold max_build_depth; lia).
  pose proof (process_matches_shape re_ok 0 "" (xast e) (AStr pat) fl_none fi_nil q0 pr0 fi0 pat pr_none _
                Hd0 E0 (process_str re_ok 1 pat fl_none fi0 Hd1)) as E.
  rewrite Hgood in E.
  exists (QFn2 FMatches q0 (QStr pat)). split.
  - apply (compile_of_parse re_ok _ ns _ _ _ _ P E). discriminate.
  - intros c Hc. destruct (V0 c Hc) as (m & Em & Hm). exists m. split; [exact Hm|].
    apply evaluate_outcome.
    + change (EVAL (QFn2 FMatches q0 (QStr pat)) c) with
        (do va <- EVAL q0 c;
         do vb <- EVAL (QStr pat) c;
         match vb with
         | VStr p => match rm p (sof va) with
                     | Some r => Val (VBool r)
                     | None => Complaint "matches() function second argument is not a valid regexp pattern"
                     end
         | _ => Complaint "matches() function second argument type must be string"
         end).
      rewrite Em. reflexivity.
    + intros l. destruct (rm pat (sof m)); discriminate.
Qed.

(* ------------------------------------------------------------------ *)
(** * 3. replace                                                        *)
(* ------------------------------------------------------------------ *)

(** (c) replace(E,'pat','tmpl') *)
Theorem C16_text_replace : forall e pat tmpl,
  is_operand_px e -> not_number e -> xok (replace_px e pat tmpl) -> 1 + osize e <= max_build_depth ->
  exists q,
    compile re_ok (print_min (replace_px e pat tmpl)) ns = Ok q /\
    (forall c, Doc.valid D c = true ->
     exists m, OPVAL e c m /\
       EVALUATE q c =
       match rm pat "" with
       | None => Complaint "replace() function second argument is not a valid regexp pattern"
       | Some _ => Val (VStr (rr pat (sof m) (rewrite_refs (rn pat) tmpl)))
       end) /\
    (* what ReplaceAllString makes of the rewritten template, match by match
       ([group i] = the text of group i): every $N is group N, as XPath F&O reads tmpl *)
    (String.length (itoa (rn pat)) <= 9 -> dollar_digit tmpl = true ->
     forall group, go_expand (rn pat) group (rewrite_refs (rn pat) tmpl) = fo_expand (rn pat) group tmpl).
Proof.
  intros e pat tmpl He Hnn Hok Hs.
  destruct (operand_depth e He) as (We & De).
  destruct (operand_builds D has_ns (hc D) rm rn rr Hhash re_ok e 1 fi_nil He Hs) as (q0 & pr0 & fi0 & E0 & V0).
  assert (Hd0 : 0 < max_build_depth) by (unfold max_build_depth; lia).
  assert (Hd1 : 1 < max_build_depth) by (unfold max_build_depth; lia).
  pose proof (process_replace_shape re_ok 0 "" (xast e) (AStr pat) (AStr tmpl) fl_none fi_nil
                _ _ _ _ _ _ _ _ _ Hd0 E0 (process_str re_ok 1 pat fl_none fi0 Hd1)
                (process_str re_ok 1 tmpl fl_none _ Hd1)) as E.
  assert (P : parse (print_min (replace_px e pat tmpl)) ns = Ok (AFunc "" "replace" [xast e; AStr pat; AStr tmpl])).
  { apply (roundtrip_print_min ns (replace_px e pat tmpl)); [cbn; auto|exact Hok|].
    unfold replace_px, args3. cbn [xdepth RoundTripPaths.adepth]. rewrite De. unfold max_depth. cbn. lia. }
  exists (QFn3 FReplace q0 (QStr pat) (QStr tmpl)). split; [|split].
  - apply (compile_of_parse re_ok _ ns _ _ _ _ P E). discriminate.
  - intros c Hc. destruct (V0 c Hc) as (m & Em & Hm). exists m. split; [exact Hm|].
    pose proof (opval_strlike' D has_ns e c m Hnn Hm) as Sm.
    apply evaluate_outcome.
    + change (EVAL (QFn3 FReplace q0 (QStr pat) (QStr tmpl)) c) with
        (do va <- EVAL q0 c; do s <- as_string D va;
         do vb <- EVAL (QStr pat) c; do src <- as_string D vb;
         do vx <- EVAL (QStr tmpl) c; do dst <- as_string D vx;
         match rm src "" with
         | None => Complaint "replace() function second argument is not a valid regexp pattern"
         | Some _ => Val (VStr (rr src s (rewrite_refs (rn src) dst)))
         end).
      rewrite Em. cbn [obind]. rewrite (as_string_strlike D m Sm). reflexivity.
    + intros l. destruct (rm pat ""); discriminate.
  - intros H9 Hdd group. unfold rewrite_refs. apply rewrite_max9_fo; assumption.
Qed.

End Values.

Print Assumptions C16_text_matches_bad_pattern.
Print Assumptions C16_text_matches.
Print Assumptions C16_text_replace.

(* ------------------------------------------------------------------ *)
(** * 4. Examples (the literal-pattern instance of the regexp parameters) *)
(* ------------------------------------------------------------------ *)
Module Examples.
Import AxesSound.Examples EndToEndPaths.Examples.

(*   <a x="1" y="2"> <b>t</b> <c z="3"><d/><!--k--></c> <e/> </a>   *)
Notation EVx := (evaluate lit_match lit_numsubexp lit_replace_all hash_code exD true).
Definition hx := EndToEndPred.Examples.hash_ok_exD.
Definition p_ab : px := XPath PRel (RCons (st_child "a") false (ROne (st_child "b"))).

Example texts :
  print_min (matches_px p_ab "t") = "matches(a/b,'t')" /\
  print_min (matches_px p_ab "(") = "matches(a/b,'(')" /\
  print_min (replace_px p_ab "t" "u$1") = "replace(a/b,'t','u$1')".
Proof. repeat split; vm_compute; reflexivity. Qed.

Lemma p_ab_operand : is_operand_px p_ab.
Proof. apply (path_syntax_b_ok p_ab). vm_compute. reflexivity. Qed.

(* "(" is not a pattern of the literal instance: Compile rejects the text *)
Example bad_pattern : compile Api.lit_ok "matches(a/b,'(')" None = Err "matches() got error.".
Proof.
  destruct texts as (_ & T & _). rewrite <- T.
  apply (C16_text_matches_bad_pattern Api.lit_ok None p_ab "(" p_ab_operand);
    [vm_compute; reflexivity|vm_compute; lia|reflexivity].
Qed.

Example matches_value :
  exists q, compile Api.lit_ok "matches(a/b,'t')" None = Ok q /\ EVx q root_node = Val (VBool true).
Proof.
  destruct (C16_text_matches exD true hash_code lit_match lit_numsubexp lit_replace_all hx Api.lit_ok None
              p_ab "t" p_ab_operand ltac:(vm_compute; reflexivity) ltac:(vm_compute; lia) eq_refl)
    as (q & C & HV).
  destruct texts as (T & _). rewrite T in C. exists q. split; [exact C|].
  vm_compute in C. inversion C; subst q. vm_compute. reflexivity.
Qed.

Example replace_value :
  exists q, compile Api.lit_ok "replace(a/b,'t','u$1')" None = Ok q /\
            EVx q root_node = Val (VStr (lit_replace_all "t" "t" (rewrite_refs 0 "u$1"))) /\
            rewrite_refs 0 "u$1" = "u${1}".
Proof.
  destruct (C16_text_replace exD true hash_code lit_match lit_numsubexp lit_replace_all hx Api.lit_ok None
              p_ab "t" "u$1" p_ab_operand I ltac:(vm_compute; reflexivity) ltac:(vm_compute; lia))
    as (q & C & HV & _).
  destruct texts as (_ & _ & T). rewrite T in C. exists q. split; [exact C|].
  split; [|vm_compute; reflexivity].
  vm_compute in C. inversion C; subst q. vm_compute. reflexivity.
Qed.

End Examples.
