(* Cache.v — cache.go: loadingCache.get as three atomic steps (read under the
   read lock; load with no lock held; store under the write lock with
   reset-on-full), any number of concurrent gets, any schedule.
   Definitions only; the invariants are in Proofs/CacheProofs.v. *)
From Coq Require Import List Arith Bool.
Import ListNotations.

Section Cache.
Variable K V : Type.
Variable keq : forall a b : K, {a = b} + {a <> b}.
Variable load : K -> option V.      (* the load function: None = error; deterministic *)
Variable cap : nat.

Definition cmap := list (K * V).
Fixpoint find (k : K) (m : cmap) : option V :=
  match m with [] => None | (k', v) :: r => if keq k k' then Some v else find k r end.
Fixpoint upd (k : K) (v : V) (m : cmap) : cmap :=
  match m with
  | [] => [(k, v)]
  | (k', v') :: r => if keq k k' then (k, v) :: r else (k', v') :: upd k v r
  end.

(* program counter of one get(k) *)
Inductive pc := Start (k : K) | Missed (k : K) | Loaded (k : K) (v : V) | Ret (k : K) (r : option V).

Record st := mkSt { m : cmap; resets : nat; thr : list pc }.

(* one atomic step of one get *)
Definition step1 (s : st) (p : pc) : st * pc :=
  match p with
  | Start k => match find k (m s) with Some v => (s, Ret k (Some v)) | None => (s, Missed k) end
  | Missed k => match load k with Some v => (s, Loaded k v) | None => (s, Ret k None) end
  | Loaded k v =>
    if (0 <? cap) && (cap <=? length (m s))
    then (mkSt [(k, v)] (S (resets s)) (thr s), Ret k (Some v))
    else (mkSt (upd k v (m s)) (resets s) (thr s), Ret k (Some v))
  | Ret k r => (s, Ret k r)
  end.

Fixpoint set_nth {A} (i : nat) (x : A) (l : list A) : list A :=
  match l, i with
  | [], _ => []
  | _ :: r, 0 => x :: r
  | y :: r, S j => y :: set_nth j x r
  end.

(* the scheduler picks thread i *)
Definition step (s : st) (i : nat) : st :=
  match nth_error (thr s) i with
  | None => s
  | Some p => let '(s', p') := step1 s p in mkSt (m s') (resets s') (set_nth i p' (thr s))
  end.

Definition init (ks : list K) : st := mkSt [] 0 (map Start ks).

(* a get that runs alone: its three steps back to back on the shared map *)
Definition get_seq (mm : cmap) (rs : nat) (k : K) : cmap * nat * option V :=
  match find k mm with
  | Some v => (mm, rs, Some v)
  | None =>
    match load k with
    | None => (mm, rs, None)
    | Some v =>
      if (0 <? cap) && (cap <=? length mm) then ([(k, v)], S rs, Some v)
      else (upd k v mm, rs, Some v)
    end
  end.

(* a sequential history: after every get, (result, len(m), reset) *)
Fixpoint run_seq (mm : cmap) (rs : nat) (ks : list K) : list (option V * nat * nat) :=
  match ks with
  | [] => []
  | k :: r => let '(mm', rs', res) := get_seq mm rs k in (res, length mm', rs') :: run_seq mm' rs' r
  end.
End Cache.

Arguments Start {K V}. Arguments Missed {K V}. Arguments Loaded {K V}. Arguments Ret {K V}.

(* the instance that is run against the implementation: keys are numbers, a
   key k with k mod 5 = 4 fails to load, any other loads to 7k+1 *)
Definition demo_load (k : nat) : option nat :=
  if Nat.eqb (k mod 5) 4 then None else Some (7 * k + 1).
Definition run_cache (cap : nat) (ks : list nat) : list (option nat * nat * nat) :=
  run_seq nat nat Nat.eq_dec demo_load cap [] 0 ks.
