// genparse regenerates coq/Generated/ParseTiers.v from /repo/parse.go: the
// operator-precedence tiers of the recursive-descent parser, read with go/parser.
// For each of parseExpression, parseOrExpr ... parseUnionExpr it records
//
//	(name, sub, rhs, ops, loop, leftacc)
//
// sub     the parse method whose result initialises the operand (`opnd := p.SUB(n)`);
// rhs     the parse method that supplies the right operand of newOperatorNode
//         ("" when the function builds no binary node from a parsed right operand);
// ops     the operator spellings the function can put into a node: string literals
//         assigned to the operator variable, testOp(..., "lit") literals, and a literal
//         first argument of newOperatorNode;
// loop    newOperatorNode(op, acc, rhs) sits inside a `for` statement (iteration = left
//         associativity) rather than behind a recursive call;
// leftacc the accumulated operand is the LEFT argument of newOperatorNode.
//
// Proofs/ParseTiersProofs.v proves the table equal to the model's tiers.  The translator
// fails (exit 2) when a function no longer has a shape it understands.
package main

import (
	"fmt"
	"go/ast"
	"go/parser"
	"go/token"
	"os"
	"path/filepath"
	"sort"
	"strconv"
	"strings"
)

func die(format string, a ...interface{}) {
	fmt.Fprintf(os.Stderr, "genparse: "+format+"\n", a...)
	os.Exit(2)
}

var tierFuncs = []string{"parseExpression", "parseOrExpr", "parseAndExpr", "parseEqualityExpr", "parseRelationalExpr",
	"parseAdditiveExpr", "parseMultiplicativeExpr", "parseUnaryExpr", "parseUnionExpr"}

func strLit(e ast.Expr) (string, bool) {
	bl, ok := e.(*ast.BasicLit)
	if !ok || bl.Kind != token.STRING {
		return "", false
	}
	s, err := strconv.Unquote(bl.Value)
	return s, err == nil
}

// parseCall: <recv>.parseXxx(...) -> "parseXxx"
func parseCall(e ast.Expr, recv string) string {
	c, ok := e.(*ast.CallExpr)
	if !ok {
		return ""
	}
	s, ok := c.Fun.(*ast.SelectorExpr)
	if !ok || !strings.HasPrefix(s.Sel.Name, "parse") {
		return ""
	}
	id, ok := s.X.(*ast.Ident)
	if !ok || id.Name != recv {
		return ""
	}
	return s.Sel.Name
}

func isCallTo(e ast.Expr, name string) *ast.CallExpr {
	c, ok := e.(*ast.CallExpr)
	if !ok {
		return nil
	}
	id, ok := c.Fun.(*ast.Ident)
	if !ok || id.Name != name {
		return nil
	}
	return c
}

type row struct {
	name, sub, rhs string
	ops            []string
	loop, leftacc  bool
}

func analyse(fd *ast.FuncDecl) row {
	r := row{name: fd.Name.Name}
	recv := ""
	if rs := fd.Recv.List; len(rs) > 0 && len(rs[0].Names) > 0 {
		recv = rs[0].Names[0].Name
	}
	if recv == "" {
		die("%s: no receiver name", r.name)
	}
	// the variable returned at the end = the accumulated operand
	acc := ""
	if n := len(fd.Body.List); n > 0 {
		if rs, ok := fd.Body.List[n-1].(*ast.ReturnStmt); ok && len(rs.Results) == 1 {
			if id, ok := rs.Results[0].(*ast.Ident); ok {
				acc = id.Name
			}
		}
	}
	if acc == "" {
		// `return p.parseX(n)`: a pass-through tier (parseExpression written without a local)
		if n := len(fd.Body.List); n > 0 {
			if rs, ok := fd.Body.List[n-1].(*ast.ReturnStmt); ok && len(rs.Results) == 1 {
				if pc := parseCall(rs.Results[0], recv); pc != "" {
					hasNode := false
					ast.Inspect(fd.Body, func(m ast.Node) bool {
						if c, ok := m.(*ast.CallExpr); ok && isCallTo(c, "newOperatorNode") != nil {
							hasNode = true
						}
						return true
					})
					if !hasNode {
						r.sub = pc
						return r
					}
				}
			}
		}
		die("%s: does not end in `return <variable>` or `return <parse call>`", r.name)
	}
	// what each local was last assigned from a parse call (for `opnd2 := p.parseX(n)`)
	fromCall := map[string]string{}
	ops := map[string]bool{}
	nodes := 0
	var walk func(n ast.Node, inLoop bool)
	walk = func(n ast.Node, inLoop bool) {
		if n == nil {
			return
		}
		switch x := n.(type) {
		case *ast.ForStmt:
			if x.Init != nil {
				walk(x.Init, inLoop)
			}
			if x.Cond != nil {
				walk(x.Cond, true)
			}
			if x.Post != nil {
				walk(x.Post, true)
			}
			walk(x.Body, true)
			return
		case *ast.AssignStmt:
			if len(x.Lhs) == 1 && len(x.Rhs) == 1 {
				if id, ok := x.Lhs[0].(*ast.Ident); ok {
					if pc := parseCall(x.Rhs[0], recv); pc != "" {
						fromCall[id.Name] = pc
						if id.Name == acc && r.sub == "" && !inLoop {
							r.sub = pc
						}
					}
					if s, ok := strLit(x.Rhs[0]); ok && id.Name != acc {
						ops[s] = true
					}
				}
			}
		case *ast.CallExpr:
			if c := isCallTo(x, "testOp"); c != nil && len(c.Args) == 2 {
				if s, ok := strLit(c.Args[1]); ok {
					ops[s] = true
				}
			}
			if c := isCallTo(x, "newOperatorNode"); c != nil && len(c.Args) == 3 {
				nodes++
				if s, ok := strLit(c.Args[0]); ok {
					ops[s] = true
				}
				left, _ := c.Args[1].(*ast.Ident)
				r.leftacc = left != nil && left.Name == acc
				rhs := parseCall(c.Args[2], recv)
				if rhs == "" {
					if id, ok := c.Args[2].(*ast.Ident); ok {
						rhs = fromCall[id.Name]
					}
				}
				if rhs != "" {
					r.rhs = rhs
					r.loop = inLoop
				}
			}
		}
		ast.Inspect(n, func(m ast.Node) bool {
			if m == n || m == nil {
				return true
			}
			walk(m, inLoop)
			return false
		})
	}
	// the first statement may be `x = p.parseOrExpr(n)` on a parameter (parseExpression)
	for _, st := range fd.Body.List {
		walk(st, false)
	}
	if r.sub == "" {
		// parseExpression assigns the parameter and returns it
		for v, pc := range fromCall {
			if v == acc {
				r.sub = pc
			}
		}
	}
	if r.sub == "" {
		die("%s: cannot find the parse method that initialises the operand", r.name)
	}
	if nodes > 1 {
		die("%s: more than one newOperatorNode call", r.name)
	}
	for s := range ops {
		r.ops = append(r.ops, s)
	}
	sort.Strings(r.ops)
	return r
}

func coqStr(s string) string { return `"` + strings.ReplaceAll(s, `"`, `""`) + `"` }
func coqBool(b bool) string {
	if b {
		return "true"
	}
	return "false"
}

func main() {
	if len(os.Args) != 3 {
		die("usage: genparse <repo dir> <out.v>")
	}
	fset := token.NewFileSet()
	f, err := parser.ParseFile(fset, filepath.Join(os.Args[1], "parse.go"), nil, 0)
	if err != nil {
		die("%v", err)
	}
	decl := map[string]*ast.FuncDecl{}
	for _, d := range f.Decls {
		if fd, ok := d.(*ast.FuncDecl); ok && fd.Recv != nil && fd.Body != nil {
			decl[fd.Name.Name] = fd
		}
	}
	var b strings.Builder
	b.WriteString("(* GENERATED by go/cmd/genparse from /repo/parse.go on every run - do not edit. *)\n")
	b.WriteString("From Coq Require Import String List.\nImport ListNotations.\nOpen Scope string_scope.\n\n")
	b.WriteString("(* (name, sub, rhs, ops, loop, leftacc) *)\n")
	b.WriteString("Definition go_tiers : list (string * string * string * list string * bool * bool) := [\n")
	for i, name := range tierFuncs {
		fd := decl[name]
		if fd == nil {
			die("method %s not found", name)
		}
		r := analyse(fd)
		var q []string
		for _, o := range r.ops {
			q = append(q, coqStr(o))
		}
		sep := ";"
		if i == len(tierFuncs)-1 {
			sep = ""
		}
		fmt.Fprintf(&b, "  (%s, %s, %s, [%s], %s, %s)%s\n", coqStr(r.name), coqStr(r.sub), coqStr(r.rhs), strings.Join(q, "; "), coqBool(r.loop), coqBool(r.leftacc), sep)
	}
	b.WriteString("].\n")
	if err := os.WriteFile(os.Args[2], []byte(b.String()), 0o644); err != nil {
		die("%v", err)
	}
}
