(* Proofs/AxesSound.v — the engine-order axis steps of Eval.v are sound and
   complete for the declarative axes of Spec/Axes.v. *)
From XP Require Import Base Doc Ast Eval.
From XP.Spec Require Import Axes.
Open Scope nat_scope.
Open Scope list_scope.

(* ------------------------------------------------------------------ *)
(* generic list facts *)

Lemma node_eq : forall n m, npath n = npath m -> nattr n = nattr m -> n = m.
Proof. intros [p a] [q b]; simpl; intros; subst; reflexivity. Qed.

Lemma nodes_of_number_from : forall l k lvl, nodes_of (number_from k lvl l) = l.
Proof. induction l as [|x l IH]; intros; simpl; [reflexivity|]. f_equal. apply IH. Qed.

Lemma nodes_of_numbered : forall l, nodes_of (numbered l) = l.
Proof. intros; apply nodes_of_number_from. Qed.

Lemma nodes_of_unnumbered : forall l, nodes_of (unnumbered l) = l.
Proof. induction l as [|x l IH]; simpl; [reflexivity|]. f_equal. apply IH. Qed.

Lemma nodes_of_number_desc : forall l k b, nodes_of (number_desc k b l) = l.
Proof. induction l as [|x l IH]; intros; simpl; [reflexivity|]. f_equal. apply IH. Qed.

Lemma nodes_of_app : forall a b, nodes_of (a ++ b) = nodes_of a ++ nodes_of b.
Proof. intros; apply map_app. Qed.

Lemma nodes_of_flat_map : forall {A} (f : A -> list item) l,
  nodes_of (flat_map f l) = flat_map (fun x => nodes_of (f x)) l.
Proof.
  induction l as [|x l IH]; simpl; [reflexivity|].
  rewrite nodes_of_app, IH. reflexivity.
Qed.

Lemma filter_flat_map : forall {A B} (p : B -> bool) (f : A -> list B) l,
  filter p (flat_map f l) = flat_map (fun x => filter p (f x)) l.
Proof.
  induction l as [|x l IH]; simpl; [reflexivity|].
  rewrite filter_app, IH. reflexivity.
Qed.

Lemma flat_map_ext' : forall {A B} (f g : A -> list B) l,
  (forall x, f x = g x) -> flat_map f l = flat_map g l.
Proof. intros A B f g l H. induction l as [|x l IH]; simpl; [reflexivity|]. rewrite H, IH. reflexivity. Qed.

Lemma app_snoc_inv : forall {A} (p q : list A) i j, p ++ [i] = q ++ [j] -> p = q /\ i = j.
Proof. intros. apply app_inj_tail. assumption. Qed.

Lemma snoc_cases : forall {A} (l : list A), l = [] \/ exists q i, l = q ++ [i].
Proof.
  intros A l. induction l as [|x l IH] using rev_ind; [left; reflexivity|].
  right. eauto.
Qed.

Lemma last_index_snoc : forall p i, last_index (p ++ [i]) = Some i.
Proof. intros. unfold last_index. rewrite rev_app_distr. reflexivity. Qed.

Lemma last_index_nil : last_index [] = None.
Proof. reflexivity. Qed.

Lemma parent_path_snoc : forall p i, parent_path (p ++ [i]) = p.
Proof. intros. unfold parent_path. apply removelast_last. Qed.

(* ------------------------------------------------------------------ *)
(* subtrees and validity *)

Lemma subtree_app : forall p q D,
  subtree D (p ++ q) = match subtree D p with Some s => subtree s q | None => None end.
Proof.
  induction p as [|i p IH]; intros q D; simpl; [reflexivity|].
  destruct (nth_error (t_kids D) i); [apply IH|reflexivity].
Qed.

Lemma subtree_prefix : forall D p q, subtree D (p ++ q) <> None -> subtree D p <> None.
Proof. intros D p q H. rewrite subtree_app in H. destruct (subtree D p); congruence. Qed.

Lemma subtree_single : forall s i, subtree s [i] = nth_error (t_kids s) i.
Proof. intros. simpl. destruct (nth_error (t_kids s) i); reflexivity. Qed.

Lemma valid_elem : forall D p, valid D (mkNode p None) = true <-> subtree D p <> None.
Proof.
  intros. unfold valid; simpl. destruct (subtree D p); split; congruence.
Qed.

Lemma valid_elem' : forall D m, nattr m = None -> (valid D m = true <-> subtree D (npath m) <> None).
Proof. intros D [p a] H; simpl in H; subst. apply valid_elem. Qed.

Lemma valid_subtree : forall D n, valid D n = true -> subtree D (npath n) <> None.
Proof. intros D n H. unfold valid in H. destruct (subtree D (npath n)); congruence. Qed.

Lemma valid_prefix : forall D p q a, valid D (mkNode (p ++ q) a) = true -> valid D (mkNode p None) = true.
Proof.
  intros D p q a H. apply valid_elem. apply valid_subtree in H. simpl in H.
  eapply subtree_prefix; eassumption.
Qed.

Lemma valid_child_iff : forall D p i, subtree D p <> None ->
  (valid D (mkNode (p ++ [i]) None) = true <-> i < n_kids D (mkNode p None)).
Proof.
  intros D p i Hp. rewrite valid_elem, subtree_app. unfold n_kids, node_tree.
  cbn [npath]. destruct (subtree D p) as [s|]; [|congruence].
  rewrite subtree_single. apply nth_error_Some.
Qed.

(* ------------------------------------------------------------------ *)
(* child *)

Lemma in_children : forall D n m, valid D n = true ->
  (In m (children D n) <-> axis_child D n m).
Proof.
  intros D n m Hn. unfold children, axis_child.
  destruct n as [p a]; simpl. destruct a as [k|].
  - split; [intros []|]. intros (_ & H & _); discriminate.
  - rewrite in_map_iff. apply valid_subtree in Hn; simpl in Hn. split.
    + intros (i & <- & Hi). apply in_seq in Hi. simpl.
      repeat split; eauto. apply valid_child_iff; [assumption|lia].
    + intros (Hv & _ & Ha & i & Hp). exists i.
      destruct m as [q b]; simpl in *; subst. split; [reflexivity|].
      apply in_seq. apply valid_child_iff in Hv; [lia|assumption].
Qed.

Theorem step_child_spec : forall D has_ns t n m, valid D n = true ->
  (In m (nodes_of (step_child D has_ns t n)) <->
   axis_child D n m /\ match_test D has_ns t m = true).
Proof.
  intros. unfold step_child. rewrite nodes_of_numbered, filter_In, in_children by assumption.
  reflexivity.
Qed.
Print Assumptions step_child_spec.

(* ------------------------------------------------------------------ *)
(* attribute *)

Lemma in_attributes_after_elem : forall D n m, valid D n = true -> nattr n = None ->
  (In m (attributes_after D n) <->
   valid D m = true /\ npath m = npath n /\ exists i, nattr m = Some i).
Proof.
  intros D [p a] m Hn Ha; simpl in Ha; subst a.
  unfold attributes_after; simpl. rewrite in_map_iff.
  apply valid_subtree in Hn; simpl in Hn.
  unfold n_attrs, node_tree; simpl. split.
  - intros (j & <- & Hj). apply in_seq in Hj. simpl. repeat split; eauto.
    unfold valid; simpl. destruct (subtree D p); [|congruence]. apply Nat.ltb_lt. lia.
  - intros (Hv & Hp & i & Hi). destruct m as [q b]; simpl in *; subst.
    exists i. split; [reflexivity|]. apply in_seq.
    unfold valid in Hv; simpl in Hv. destruct (subtree D p); [|congruence].
    apply Nat.ltb_lt in Hv. lia.
Qed.

Theorem step_attribute_spec : forall D has_ns t n m, valid D n = true ->
  (In m (nodes_of (step_attribute D has_ns t n)) <->
   axis_attribute D n m /\ match_test D has_ns t m = true).
Proof.
  intros D has_ns t n m Hn. unfold step_attribute, axis_attribute.
  destruct (node_type D n) eqn:Ety;
    try (split; [intros []|intros ((_ & _ & _ & _ & H) & _); discriminate]).
  assert (Ha : nattr n = None).
  { unfold node_type in Ety. destruct (nattr n); [discriminate|reflexivity]. }
  rewrite nodes_of_unnumbered, filter_In, in_attributes_after_elem by assumption.
  tauto.
Qed.
Print Assumptions step_attribute_spec.

(* ------------------------------------------------------------------ *)
(* self *)

Theorem step_self_spec : forall D has_ns t n m, valid D n = true ->
  (In m (nodes_of (step_self D has_ns t n)) <->
   axis_self D n m /\ match_test D has_ns t m = true).
Proof.
  intros D has_ns t n m Hn. unfold step_self, axis_self.
  destruct (match_test D has_ns t n) eqn:E; simpl.
  - split.
    + intros [<-|[]]. auto.
    + intros ((_ & ->) & _). auto.
  - split; [intros []|]. intros ((_ & ->) & H). congruence.
Qed.
Print Assumptions step_self_spec.

(* ------------------------------------------------------------------ *)
(* parent *)

Lemma move_parent_spec : forall D n m, valid D n = true ->
  (move_parent n = Some m <-> axis_parent D n m).
Proof.
  intros D [p a] m Hn. unfold move_parent, axis_parent; simpl.
  destruct a as [k|].
  - split.
    + intros E; inversion E; subst; simpl. repeat split.
      * apply (valid_prefix D p [] (Some k)). rewrite app_nil_r. assumption.
      * left. eauto.
    + intros (Hv & Ha & [(i & _ & Hp)|(H & _)]); [|discriminate].
      f_equal. apply node_eq; simpl; congruence.
  - destruct (snoc_cases p) as [->|(q & i & ->)].
    + split; [discriminate|].
      intros (_ & _ & [(i & H & _)|(_ & i & H)]); [discriminate|].
      destruct (npath m); discriminate.
    + replace (match q ++ [i] with [] => None | _ :: _ => Some (mkNode (parent_path (q ++ [i])) None) end)
        with (Some (mkNode q None)).
      2:{ rewrite parent_path_snoc. destruct q; reflexivity. }
      split.
      * intros E; inversion E; subst; simpl. repeat split.
        -- eapply valid_prefix; eassumption.
        -- right. eauto.
      * intros (Hv & Ha & [(j & H & _)|(_ & j & H)]); [discriminate|].
        apply app_snoc_inv in H. destruct H as [H _].
        f_equal. apply node_eq; simpl; congruence.
Qed.

Theorem step_parent_spec : forall D has_ns t n m, valid D n = true ->
  (In m (nodes_of (step_parent D has_ns t n)) <->
   axis_parent D n m /\ match_test D has_ns t m = true).
Proof.
  intros D has_ns t n m Hn. unfold step_parent.
  rewrite <- (move_parent_spec D n m Hn).
  destruct (move_parent n) as [p|].
  - destruct (match_test D has_ns t p) eqn:E; simpl.
    + split.
      * intros [<-|[]]. auto.
      * intros (H & _). inversion H. auto.
    + split; [intros []|]. intros (H & H'). inversion H; subst. congruence.
  - simpl. split; [intros []|]. intros (H & _); discriminate.
Qed.
Print Assumptions step_parent_spec.

(* ------------------------------------------------------------------ *)
(* following-sibling / preceding-sibling *)

Lemma in_following_siblings : forall D n m, valid D n = true ->
  (In m (following_siblings D n) <-> axis_following_sibling D n m).
Proof.
  intros D [p a] m Hn. unfold following_siblings, axis_following_sibling; simpl.
  destruct a as [k|].
  { split; [intros []|]. intros (_ & H & _); discriminate. }
  destruct (snoc_cases p) as [->|(q & i & ->)].
  { simpl. split; [intros []|]. intros (_ & _ & _ & q & i & j & H & _). destruct q; discriminate. }
  rewrite last_index_snoc, parent_path_snoc, in_map_iff.
  assert (Hq : subtree D q <> None).
  { apply valid_subtree in Hn; simpl in Hn. eapply subtree_prefix; eassumption. }
  split.
  - intros (j & <- & Hj). apply in_seq in Hj. simpl. repeat split.
    + apply valid_child_iff; [assumption|lia].
    + exists q, i, j. repeat split. lia.
  - intros (Hv & _ & Ha & q' & i' & j & H1 & H2 & Hlt).
    apply app_snoc_inv in H1. destruct H1 as [<- <-].
    destruct m as [mp ma]; simpl in *; subst. exists j. split; [reflexivity|].
    apply valid_child_iff in Hv; [|assumption]. apply in_seq. lia.
Qed.

Theorem step_following_sibling_spec : forall D has_ns t n m, valid D n = true ->
  (In m (nodes_of (step_following_sibling D has_ns t n)) <->
   axis_following_sibling D n m /\ match_test D has_ns t m = true).
Proof.
  intros. unfold step_following_sibling.
  rewrite nodes_of_numbered, filter_In, in_following_siblings by assumption. reflexivity.
Qed.
Print Assumptions step_following_sibling_spec.

Lemma in_preceding_siblings : forall D n m, valid D n = true ->
  (In m (preceding_siblings n) <-> axis_preceding_sibling D n m).
Proof.
  intros D [p a] m Hn. unfold preceding_siblings, axis_preceding_sibling; simpl.
  destruct a as [k|].
  { split; [intros []|]. intros (_ & H & _); discriminate. }
  destruct (snoc_cases p) as [->|(q & i & ->)].
  { simpl. split; [intros []|]. intros (_ & _ & _ & q & i & j & H & _). destruct q; discriminate. }
  rewrite last_index_snoc, parent_path_snoc, in_map_iff.
  assert (Hq : subtree D q <> None).
  { apply valid_subtree in Hn; simpl in Hn. eapply subtree_prefix; eassumption. }
  assert (Hi : i < n_kids D (mkNode q None)).
  { apply valid_child_iff; assumption. }
  split.
  - intros (j & <- & Hj). apply in_rev, in_seq in Hj. simpl. repeat split.
    + apply valid_child_iff; [assumption|lia].
    + exists q, i, j. repeat split. lia.
  - intros (Hv & _ & Ha & q' & i' & j & H1 & H2 & Hlt).
    apply app_snoc_inv in H1. destruct H1 as [<- <-].
    destruct m as [mp ma]; simpl in *; subst. exists j. split; [reflexivity|].
    apply -> in_rev. apply in_seq. lia.
Qed.

Theorem step_preceding_sibling_spec : forall D has_ns t n m, valid D n = true ->
  (In m (nodes_of (step_preceding_sibling D has_ns t n)) <->
   axis_preceding_sibling D n m /\ match_test D has_ns t m = true).
Proof.
  intros. unfold step_preceding_sibling.
  rewrite nodes_of_numbered, filter_In, (in_preceding_siblings D) by assumption. reflexivity.
Qed.
Print Assumptions step_preceding_sibling_spec.
(* ------------------------------------------------------------------ *)
(* induction on rose trees *)

Section TreeInd.
Variable P : tree -> Prop.
Hypothesis HT : forall k pre loc ns data attrs kids,
  Forall P kids -> P (T k pre loc ns data attrs kids).
Fixpoint tree_ind' (t : tree) : P t :=
  match t with
  | T k a b c d e ks =>
    HT k a b c d e ks
       ((fix go (l : list tree) : Forall P l :=
           match l with
           | [] => Forall_nil P
           | c :: r => Forall_cons c (tree_ind' c) (go r)
           end) ks)
  end.
End TreeInd.

Lemma Forall_nth_error : forall {A} (P : A -> Prop) l j c,
  Forall P l -> nth_error l j = Some c -> P c.
Proof. intros A P l j c HF E. eapply Forall_forall; [eassumption|]. eapply nth_error_In; eassumption. Qed.

(* ------------------------------------------------------------------ *)
(* descendant / descendant-or-self *)

Fixpoint below_go (l : list tree) (i : nat) : list (list nat) :=
  match l with
  | [] => []
  | c :: r => ([i] :: map (cons i) (below c)) ++ below_go r (S i)
  end.

Lemma below_eq : forall s, below s = below_go (t_kids s) 0.
Proof. intros [k a b c d e ks]. reflexivity. Qed.

Lemma in_below_go : forall l i r,
  In r (below_go l i) <->
  exists j c, nth_error l j = Some c /\
              (r = [i + j] \/ exists r', In r' (below c) /\ r = (i + j) :: r').
Proof.
  induction l as [|c l IH]; intros i r.
  - simpl. split; [intros []|]. intros (j & c & E & _). destruct j; discriminate.
  - cbn [below_go]. rewrite in_app_iff, IH. cbn [In]. rewrite in_map_iff. split.
    + intros [[H|(r' & H & Hin)]|(j & c' & E & H)].
      * exists 0, c. split; [reflexivity|]. left. rewrite Nat.add_0_r. auto.
      * exists 0, c. split; [reflexivity|]. right. rewrite Nat.add_0_r. eauto.
      * exists (S j), c'. split; [assumption|].
        replace (i + S j) with (S i + j) by lia. assumption.
    + intros (j & c' & E & H). destruct j as [|j].
      * simpl in E. inversion E; subst c'. rewrite Nat.add_0_r in H. left.
        destruct H as [H|(r' & Hin & H)]; [left; auto|right; eauto].
      * right. exists j, c'. split; [assumption|].
        replace (S i + j) with (i + S j) by lia. assumption.
Qed.

Lemma in_below : forall s r, In r (below s) <-> r <> [] /\ subtree s r <> None.
Proof.
  intros s. induction s as [k a b c d e ks IH] using tree_ind'. intros r.
  rewrite below_eq, in_below_go. cbn [t_kids]. split.
  - intros (j & c' & E & [->|(r' & Hin & ->)]); cbn [Nat.add].
    + split; [discriminate|]. rewrite subtree_single. cbn [t_kids]. congruence.
    + split; [discriminate|]. cbn [subtree t_kids]. rewrite E.
      apply (Forall_nth_error _ _ _ _ IH E). assumption.
  - intros (Hne & Hs). destruct r as [|j r']; [congruence|].
    cbn [subtree t_kids] in Hs. destruct (nth_error ks j) as [c'|] eqn:E; [|congruence].
    exists j, c'. split; [assumption|]. cbn [Nat.add].
    destruct r' as [|x r'']; [left; reflexivity|]. right.
    exists (x :: r''). split; [|reflexivity].
    apply (Forall_nth_error _ _ _ _ IH E). split; [discriminate|assumption].
Qed.

Lemma in_descendants : forall D n m, valid D n = true ->
  (In m (descendants D n) <-> axis_descendant D n m).
Proof.
  intros D [p a] m Hn. unfold descendants, axis_descendant, node_tree. cbn [npath nattr].
  destruct a as [k|].
  { split; [intros []|]. intros (_ & H & _); discriminate. }
  apply valid_subtree in Hn. cbn [npath] in Hn.
  destruct (subtree D p) as [s|] eqn:Es; [|congruence].
  rewrite in_map_iff. split.
  - intros (r & <- & Hin). apply in_below in Hin. destruct Hin as (Hne & Hs).
    cbn [npath nattr]. repeat split; eauto.
    apply valid_elem. rewrite subtree_app, Es. assumption.
  - intros (Hv & _ & Ha & r & Hne & Hp). exists r. split.
    + apply node_eq; cbn [npath nattr]; congruence.
    + apply in_below. split; [assumption|].
      apply valid_subtree in Hv. rewrite Hp, subtree_app, Es in Hv. assumption.
Qed.

Theorem step_descendant_spec : forall D has_ns t n m, valid D n = true ->
  (In m (nodes_of (step_descendant D has_ns false t n)) <->
   axis_descendant D n m /\ match_test D has_ns t m = true).
Proof.
  intros. unfold step_descendant. cbn [app].
  rewrite nodes_of_number_desc, filter_In, in_descendants by assumption. reflexivity.
Qed.
Print Assumptions step_descendant_spec.

Theorem step_descendant_or_self_spec : forall D has_ns t n m, valid D n = true ->
  (In m (nodes_of (step_descendant D has_ns true t n)) <->
   axis_descendant_or_self D n m /\ match_test D has_ns t m = true).
Proof.
  intros D has_ns t n m Hn. unfold step_descendant, axis_descendant_or_self. cbn [app].
  rewrite nodes_of_number_desc, filter_In. cbn [In]. rewrite in_descendants by assumption.
  split.
  - intros ([<-|H] & Hm); (split; [|assumption]).
    + split; [assumption|left; reflexivity].
    + split; [apply H|right; assumption].
  - intros ((Hv & [->|H]) & Hm); (split; [|assumption]); [left; reflexivity|right; assumption].
Qed.
Print Assumptions step_descendant_or_self_spec.

(* ------------------------------------------------------------------ *)
(* ancestor / ancestor-or-self *)

Lemma in_prefixes_desc : forall f (p q : list nat), List.length p <= f ->
  (In q (prefixes_desc p f) <-> exists r, r <> [] /\ p = q ++ r).
Proof.
  induction f as [|f IH]; intros p q Hlen.
  - destruct p; [|simpl in Hlen; lia]. simpl. split; [intros []|].
    intros (r & Hne & E). destruct q; destruct r; try discriminate. congruence.
  - destruct (snoc_cases p) as [->|(p' & i & ->)].
    + simpl. split; [intros []|].
      intros (r & Hne & E). destruct q; destruct r; try discriminate. congruence.
    + replace (prefixes_desc (p' ++ [i]) (S f)) with (p' :: prefixes_desc p' f).
      2:{ cbn [prefixes_desc]. rewrite parent_path_snoc. destruct p'; reflexivity. }
      cbn [In]. rewrite IH by (rewrite app_length in Hlen; simpl in Hlen; lia).
      split.
      * intros [->|(r & Hne & ->)].
        -- exists [i]. split; [discriminate|reflexivity].
        -- exists (r ++ [i]). split; [destruct r; discriminate|]. rewrite app_assoc. reflexivity.
      * intros (r & Hne & E). destruct (snoc_cases r) as [->|(r' & x & ->)]; [congruence|].
        rewrite app_assoc in E. apply app_snoc_inv in E. destruct E as [E _].
        destruct r' as [|y r'']; [left; rewrite app_nil_r in E; auto|].
        right. exists (y :: r''). split; [discriminate|assumption].
Qed.

Lemma in_ancestors : forall D n m, valid D n = true ->
  (In m (ancestors n) <-> axis_ancestor D n m).
Proof.
  intros D [p a] m Hn. unfold ancestors, axis_ancestor. cbn [npath nattr].
  destruct a as [k|].
  - cbn [map In]. rewrite in_map_iff. split.
    + intros [<-|(q & <- & Hin)]; cbn [elem_at npath nattr].
      * repeat split.
        -- apply (valid_prefix D p [] (Some k)). rewrite app_nil_r. assumption.
        -- exists []. rewrite app_nil_r. split; [reflexivity|right; discriminate].
      * apply in_prefixes_desc in Hin; [|lia]. destruct Hin as (r & Hne & ->).
        repeat split; [eapply valid_prefix; eassumption|]. exists r. auto.
    + intros (Hv & Ha & r & E & _). destruct r as [|x r'].
      * left. rewrite app_nil_r in E. apply node_eq; cbn; congruence.
      * right. exists (npath m). split; [apply node_eq; cbn; congruence|].
        apply in_prefixes_desc; [lia|]. exists (x :: r'). split; [discriminate|assumption].
  - rewrite in_map_iff. split.
    + intros (q & <- & Hin). cbn [elem_at npath nattr].
      apply in_prefixes_desc in Hin; [|lia]. destruct Hin as (r & Hne & ->).
      repeat split; [eapply valid_prefix; eassumption|]. exists r. auto.
    + intros (Hv & Ha & r & E & [Hne|Hne]); [|congruence].
      exists (npath m). split; [apply node_eq; cbn; congruence|].
      apply in_prefixes_desc; [lia|]. exists r. auto.
Qed.

Theorem step_ancestor_raw_spec : forall D has_ns t n m, valid D n = true ->
  (In m (step_ancestor_raw D has_ns false t n) <->
   axis_ancestor D n m /\ match_test D has_ns t m = true).
Proof.
  intros. unfold step_ancestor_raw. cbn [app].
  rewrite filter_In, (in_ancestors D) by assumption. reflexivity.
Qed.
Print Assumptions step_ancestor_raw_spec.

Theorem step_ancestor_or_self_raw_spec : forall D has_ns t n m, valid D n = true ->
  (In m (step_ancestor_raw D has_ns true t n) <->
   axis_ancestor_or_self D n m /\ match_test D has_ns t m = true).
Proof.
  intros D has_ns t n m Hn. unfold step_ancestor_raw, axis_ancestor_or_self. cbn [app].
  rewrite filter_In. cbn [In]. rewrite (in_ancestors D) by assumption.
  split.
  - intros ([<-|H] & Hm); (split; [|assumption]).
    + split; [assumption|left; reflexivity].
    + split; [apply H|right; assumption].
  - intros ((Hv & [->|H]) & Hm); (split; [|assumption]); [left; reflexivity|right; assumption].
Qed.
Print Assumptions step_ancestor_or_self_raw_spec.
(* ------------------------------------------------------------------ *)
(* document order on paths *)

(* [a] and [b] diverge at a common prefix [p], [a] taking the earlier branch *)
Definition split_lt (a b : list nat) : Prop :=
  exists p i j ra rb, a = p ++ i :: ra /\ b = p ++ j :: rb /\ i < j.

Definition pprefix (a b : list nat) : Prop := exists r, r <> [] /\ b = a ++ r.

Lemma pprefix_cons : forall x y a b, pprefix (x :: a) (y :: b) <-> x = y /\ pprefix a b.
Proof.
  intros. unfold pprefix. split.
  - intros (r & Hne & E). simpl in E. inversion E; subst. eauto.
  - intros (-> & r & Hne & ->). exists r. auto.
Qed.

Lemma split_lt_cons : forall x y a b,
  split_lt (x :: a) (y :: b) <-> x < y \/ (x = y /\ split_lt a b).
Proof.
  intros. unfold split_lt. split.
  - intros (p & i & j & ra & rb & Ea & Eb & Hlt). destruct p as [|z p].
    + simpl in Ea, Eb. inversion Ea; inversion Eb; subst. left; assumption.
    + simpl in Ea, Eb. inversion Ea; inversion Eb; subst. right. split; [reflexivity|].
      exists p, i, j, ra, rb. auto.
  - intros [Hlt|(-> & p & i & j & ra & rb & -> & -> & Hlt)].
    + exists [], x, y, a, b. auto.
    + exists (y :: p), i, j, ra, rb. auto.
Qed.

Lemma split_lt_nil_l : forall b, ~ split_lt [] b.
Proof. intros b (p & i & j & ra & rb & E & _). destruct p; discriminate. Qed.
Lemma split_lt_nil_r : forall a, ~ split_lt a [].
Proof. intros a (p & i & j & ra & rb & _ & E & _). destruct p; discriminate. Qed.

Lemma path_compare_refl : forall a, path_compare a a = Eq.
Proof. induction a as [|x a IH]; simpl; [reflexivity|]. rewrite Nat.compare_refl. assumption. Qed.

(* the key fact on the lexicographic order of paths *)
Lemma path_compare_Lt : forall a b,
  path_compare a b = Lt <-> pprefix a b \/ split_lt a b.
Proof.
  induction a as [|x a IH]; intros [|y b]; cbn [path_compare].
  - split; [discriminate|]. intros [(r & Hne & E)|H].
    + simpl in E. congruence.
    + destruct (split_lt_nil_l _ H).
  - split; [|reflexivity]. intros _. left. exists (y :: b). split; [discriminate|reflexivity].
  - split; [discriminate|]. intros [(r & Hne & E)|H].
    + discriminate.
    + destruct (split_lt_nil_r _ H).
  - rewrite pprefix_cons, split_lt_cons.
    destruct (Nat.compare_spec x y) as [->|Hlt|Hgt].
    + rewrite IH. split.
      * intros [H|H]; [left|right; right]; auto.
      * intros [(_ & H)|[H|(_ & H)]]; [left; assumption|lia|right; assumption].
    + split; [|reflexivity]. intros _. right. left. assumption.
    + split; [discriminate|]. intros [(-> & _)|[H|(-> & _)]]; lia.
Qed.

Lemma is_prefix_iff : forall a b, is_prefix a b = true <-> exists r, b = a ++ r.
Proof.
  induction a as [|x a IH]; intros [|y b]; cbn [is_prefix].
  - split; [exists []; reflexivity|reflexivity].
  - split; [exists (y :: b); reflexivity|reflexivity].
  - split; [discriminate|]. intros (r & E). discriminate.
  - rewrite andb_true_iff, Nat.eqb_eq, IH. split.
    + intros (-> & r & ->). exists r. reflexivity.
    + intros (r & E). simpl in E. inversion E; subst. eauto.
Qed.

Lemma split_lt_not_prefix_l : forall a b r, split_lt a b -> b <> a ++ r.
Proof.
  intros a b r (p & i & j & ra & rb & -> & -> & Hlt) E.
  rewrite <- app_assoc in E. apply app_inv_head in E. simpl in E. inversion E. lia.
Qed.

Lemma split_lt_not_prefix_r : forall a b r, split_lt a b -> a <> b ++ r.
Proof.
  intros a b r (p & i & j & ra & rb & -> & -> & Hlt) E.
  rewrite <- app_assoc in E. apply app_inv_head in E. simpl in E. inversion E. lia.
Qed.

Lemma split_lt_neq : forall a b, split_lt a b -> a <> b.
Proof. intros a b H E. apply (split_lt_not_prefix_r a b [] H). rewrite app_nil_r. assumption. Qed.

Lemma split_lt_not_pprefix : forall a b, split_lt a b -> ~ pprefix a b.
Proof. intros a b H (r & _ & E). exact (split_lt_not_prefix_l a b r H E). Qed.

Lemma split_lt_unique : forall p p' i i' j j' ra ra' rb rb',
  p ++ i :: ra = p' ++ i' :: ra' -> p ++ j :: rb = p' ++ j' :: rb' ->
  i < j -> i' < j' -> p = p' /\ i = i' /\ j = j'.
Proof.
  induction p as [|z p IH]; intros [|z' p'] i i' j j' ra ra' rb rb' Ea Eb Hlt Hlt'; simpl in Ea, Eb.
  - inversion Ea; inversion Eb; subst. auto.
  - inversion Ea; inversion Eb; subst. lia.
  - inversion Ea; inversion Eb; subst. lia.
  - inversion Ea; inversion Eb; subst.
    destruct (IH p' i i' j j' ra ra' rb rb') as (-> & -> & ->); auto.
Qed.

(* ------------------------------------------------------------------ *)
(* following / preceding: the unfiltered enumerations *)

Definition following_enum (D : tree) (n : node) : list node :=
  (match nattr n with
   | Some _ => descendants D (mkNode (npath n) None)
   | None => []
   end)
  ++ flat_map (fun a => flat_map (desc_or_self D) (following_siblings D a))
              (self_and_ancestors n).

Definition preceding_enum (D : tree) (n : node) : list node :=
  flat_map (fun a => flat_map (desc_or_self D) (preceding_siblings a))
           (self_and_ancestors n).

Lemma nodes_of_step_descendant : forall D has_ns self t n,
  nodes_of (step_descendant D has_ns self t n) =
  filter (match_test D has_ns t) ((if self then [n] else []) ++ descendants D n).
Proof. intros. unfold step_descendant. apply nodes_of_number_desc. Qed.

(* levels are not nodes *)
Lemma nodes_of_zero_lvl : forall l, nodes_of (zero_lvl l) = nodes_of l.
Proof. intros l. unfold nodes_of, zero_lvl. rewrite map_map. reflexivity. Qed.

Lemma nodes_of_step_following : forall D has_ns t n,
  nodes_of (step_following D has_ns t n) = filter (match_test D has_ns t) (following_enum D n).
Proof.
  intros. unfold step_following, step_following_raw, following_enum. rewrite nodes_of_zero_lvl.
  rewrite nodes_of_app, filter_app. f_equal.
  - destruct (nattr n); [|reflexivity]. apply nodes_of_step_descendant.
  - rewrite nodes_of_flat_map, filter_flat_map. apply flat_map_ext'. intros a.
    rewrite nodes_of_flat_map, filter_flat_map. apply flat_map_ext'. intros s.
    apply nodes_of_step_descendant.
Qed.

Lemma nodes_of_step_preceding : forall D has_ns t n,
  nodes_of (step_preceding D has_ns t n) = filter (match_test D has_ns t) (preceding_enum D n).
Proof.
  intros. unfold step_preceding, preceding_enum.
  rewrite nodes_of_flat_map, filter_flat_map. apply flat_map_ext'. intros a.
  rewrite nodes_of_numbered, filter_flat_map. reflexivity.
Qed.

Lemma in_self_and_ancestors : forall D n a, valid D n = true ->
  (In a (self_and_ancestors n) <->
   valid D a = true /\ nattr a = None /\ exists r, npath n = npath a ++ r).
Proof.
  intros D n a Hn. unfold self_and_ancestors. destruct (nattr n) as [k|] eqn:En.
  - rewrite (in_ancestors D) by assumption. unfold axis_ancestor. split.
    + intros (Hv & Ha & r & E & _). eauto.
    + intros (Hv & Ha & r & E). repeat split; auto. exists r. split; [assumption|].
      right. congruence.
  - cbn [In]. rewrite (in_ancestors D) by assumption. unfold axis_ancestor. split.
    + intros [<-|(Hv & Ha & r & E & _)]; [|eauto].
      repeat split; auto. exists []. rewrite app_nil_r. reflexivity.
    + intros (Hv & Ha & r & E). destruct r as [|x r].
      * left. rewrite app_nil_r in E. apply node_eq; congruence.
      * right. repeat split; auto. exists (x :: r). split; [assumption|left; discriminate].
Qed.

Lemma in_desc_or_self : forall D s m, valid D s = true ->
  (In m (desc_or_self D s) <-> m = s \/ axis_descendant D s m).
Proof.
  intros D s m Hs. unfold desc_or_self. cbn [In]. rewrite in_descendants by assumption.
  split; (intros [H|H]; [left; congruence|right; assumption]).
Qed.

Lemma in_following_blocks : forall D n m, valid D n = true ->
  (In m (flat_map (fun a => flat_map (desc_or_self D) (following_siblings D a))
                  (self_and_ancestors n)) <->
   valid D m = true /\ nattr m = None /\ split_lt (npath n) (npath m)).
Proof.
  intros D n m Hn. rewrite in_flat_map. split.
  - intros (a & Ha & Hm). apply in_flat_map in Hm. destruct Hm as (s & Hs & Hm).
    apply (in_self_and_ancestors D) in Ha; [|assumption].
    destruct Ha as (Hva & Haa & r & En).
    apply in_following_siblings in Hs; [|assumption].
    destruct Hs as (Hvs & _ & Hsa & p & i & j & Ea & Es & Hlt).
    apply in_desc_or_self in Hm; [|assumption].
    assert (En' : npath n = p ++ i :: r).
    { rewrite En, Ea, <- app_assoc. reflexivity. }
    destruct Hm as [->|(Hvm & _ & Hma & r' & _ & Em)].
    + repeat split; auto. exists p, i, j, r, []. auto.
    + repeat split; auto. exists p, i, j, r, r'. repeat split; auto.
      rewrite Em, Es, <- app_assoc. reflexivity.
  - intros (Hvm & Hma & p & i & j & ra & rb & En & Em & Hlt).
    assert (Hva : valid D (mkNode (p ++ [i]) None) = true).
    { destruct n as [np na]. cbn [npath] in En. subst np.
      apply (valid_prefix D (p ++ [i]) ra na). rewrite <- app_assoc. assumption. }
    assert (Hvs : valid D (mkNode (p ++ [j]) None) = true).
    { destruct m as [mp ma]. cbn [npath] in Em. subst mp.
      apply (valid_prefix D (p ++ [j]) rb ma). rewrite <- app_assoc. assumption. }
    exists (mkNode (p ++ [i]) None). split.
    + apply (in_self_and_ancestors D); [assumption|]. repeat split; auto.
      exists ra. cbn [npath]. rewrite En, <- app_assoc. reflexivity.
    + apply in_flat_map. exists (mkNode (p ++ [j]) None). split.
      * apply in_following_siblings; [assumption|]. repeat split; auto.
        exists p, i, j. auto.
      * apply in_desc_or_self; [assumption|]. destruct rb as [|x rb].
        -- left. apply node_eq; auto.
        -- right. repeat split; auto. exists (x :: rb). split; [discriminate|].
           cbn [npath]. rewrite Em, <- app_assoc. reflexivity.
Qed.

Lemma in_preceding_enum' : forall D n m, valid D n = true ->
  (In m (preceding_enum D n) <->
   valid D m = true /\ nattr m = None /\ split_lt (npath m) (npath n)).
Proof.
  intros D n m Hn. unfold preceding_enum. rewrite in_flat_map. split.
  - intros (a & Ha & Hm). apply in_flat_map in Hm. destruct Hm as (s & Hs & Hm).
    apply (in_self_and_ancestors D) in Ha; [|assumption].
    destruct Ha as (Hva & Haa & r & En).
    apply (in_preceding_siblings D) in Hs; [|assumption].
    destruct Hs as (Hvs & _ & Hsa & p & i & j & Ea & Es & Hlt).
    apply in_desc_or_self in Hm; [|assumption].
    assert (En' : npath n = p ++ i :: r).
    { rewrite En, Ea, <- app_assoc. reflexivity. }
    destruct Hm as [->|(Hvm & _ & Hma & r' & _ & Em)].
    + repeat split; auto. exists p, j, i, [], r. auto.
    + repeat split; auto. exists p, j, i, r', r. repeat split; auto.
      rewrite Em, Es, <- app_assoc. reflexivity.
  - intros (Hvm & Hma & p & j & i & rb & ra & Em & En & Hlt).
    assert (Hva : valid D (mkNode (p ++ [i]) None) = true).
    { destruct n as [np na]. cbn [npath] in En. subst np.
      apply (valid_prefix D (p ++ [i]) ra na). rewrite <- app_assoc. assumption. }
    assert (Hvs : valid D (mkNode (p ++ [j]) None) = true).
    { destruct m as [mp ma]. cbn [npath] in Em. subst mp.
      apply (valid_prefix D (p ++ [j]) rb ma). rewrite <- app_assoc. assumption. }
    exists (mkNode (p ++ [i]) None). split.
    + apply (in_self_and_ancestors D); [assumption|]. repeat split; auto.
      exists ra. cbn [npath]. rewrite En, <- app_assoc. reflexivity.
    + apply in_flat_map. exists (mkNode (p ++ [j]) None). split.
      * apply (in_preceding_siblings D); [assumption|]. repeat split; auto.
        exists p, i, j. auto.
      * apply in_desc_or_self; [assumption|]. destruct rb as [|x rb].
        -- left. apply node_eq; auto.
        -- right. repeat split; auto. exists (x :: rb). split; [discriminate|].
           cbn [npath]. rewrite Em, <- app_assoc. reflexivity.
Qed.

Lemma in_following_enum : forall D n m, valid D n = true ->
  (In m (following_enum D n) <-> axis_following D n m).
Proof.
  intros D [a na] [b mb] Hn. unfold following_enum, axis_following.
  rewrite in_app_iff, in_following_blocks by assumption. cbn [npath nattr].
  destruct na as [k|].
  - assert (Ho : valid D (mkNode a None) = true).
    { apply (valid_prefix D a [] (Some k)). rewrite app_nil_r. assumption. }
    rewrite in_descendants by assumption. unfold axis_descendant, doc_compare. cbn [npath nattr].
    split.
    + intros [(Hv & _ & -> & r & Hne & ->)|(Hv & -> & Hs)].
      * repeat split; auto.
        -- destruct (list_eq_dec Nat.eq_dec a (a ++ r)) as [E|_].
           { rewrite <- (app_nil_r a) in E at 1. apply app_inv_head in E. congruence. }
           replace (is_prefix a (a ++ r)) with true; [reflexivity|].
           symmetry. apply is_prefix_iff. eauto.
        -- intros (_ & H & _). discriminate.
      * repeat split; auto.
        -- destruct (list_eq_dec Nat.eq_dec a b) as [E|_].
           { destruct (split_lt_neq _ _ Hs E). }
           destruct (is_prefix a b) eqn:Ep.
           { reflexivity. }
           apply path_compare_Lt. right. assumption.
        -- intros (_ & H & _). discriminate.
    + intros (Hv & -> & Hc & _).
      destruct (list_eq_dec Nat.eq_dec a b) as [E|Hne]; [discriminate|].
      destruct (is_prefix a b) eqn:Ep.
      * left. apply is_prefix_iff in Ep. destruct Ep as (r & ->).
        repeat split; auto. exists r. split; [|reflexivity].
        intros ->. rewrite app_nil_r in Hne. congruence.
      * apply path_compare_Lt in Hc. destruct Hc as [(r & _ & ->)|Hs].
        -- assert (is_prefix a (a ++ r) = true) by (apply is_prefix_iff; eauto). congruence.
        -- right. auto.
  - unfold axis_descendant, doc_compare. cbn [npath nattr In]. split.
    + intros [[]|(Hv & -> & Hs)]. repeat split; auto.
      * destruct (list_eq_dec Nat.eq_dec a b) as [E|_].
        { destruct (split_lt_neq _ _ Hs E). }
        apply path_compare_Lt. right. assumption.
      * intros (_ & _ & _ & r & _ & E). exact (split_lt_not_prefix_l _ _ r Hs E).
    + intros (Hv & -> & Hc & Hnd). right. repeat split; auto.
      destruct (list_eq_dec Nat.eq_dec a b) as [E|Hne]; [discriminate|].
      apply path_compare_Lt in Hc. destruct Hc as [(r & Hr & ->)|Hs]; [|assumption].
      exfalso. apply Hnd. repeat split; auto. exists r. auto.
Qed.

Theorem step_following_spec : forall D has_ns t n m, valid D n = true ->
  (In m (nodes_of (step_following D has_ns t n)) <->
   axis_following D n m /\ match_test D has_ns t m = true).
Proof.
  intros. rewrite nodes_of_step_following, filter_In, in_following_enum by assumption.
  reflexivity.
Qed.
Print Assumptions step_following_spec.

Lemma in_preceding_enum : forall D n m, valid D n = true ->
  (In m (preceding_enum D n) <-> axis_preceding D n m).
Proof.
  intros D [a na] [b mb] Hn. rewrite in_preceding_enum' by assumption.
  unfold axis_preceding, axis_ancestor, doc_compare. cbn [npath nattr].
  split.
  - intros (Hv & -> & Hs). repeat split; auto.
    + destruct (list_eq_dec Nat.eq_dec b a) as [E|_].
      { destruct (split_lt_neq _ _ Hs E). }
      assert (Hc : path_compare b a = Lt) by (apply path_compare_Lt; right; assumption).
      destruct na as [k|]; [|assumption].
      destruct (is_prefix a b) eqn:Ep; [|assumption].
      apply is_prefix_iff in Ep. destruct Ep as (r & E).
      destruct (split_lt_not_prefix_r _ _ r Hs E).
    + intros (_ & _ & r & E & _). exact (split_lt_not_prefix_l _ _ r Hs E).
  - intros (Hv & -> & Hc & Hna). repeat split; auto.
    destruct (list_eq_dec Nat.eq_dec b a) as [E|Hne].
    + subst b. destruct na as [k|]; [|discriminate].
      exfalso. apply Hna. repeat split; auto. exists []. rewrite app_nil_r.
      split; [reflexivity|right; discriminate].
    + assert (Hc' : path_compare b a = Lt).
      { destruct na as [k|]; [|assumption]. destruct (is_prefix a b); [discriminate|assumption]. }
      apply path_compare_Lt in Hc'. destruct Hc' as [(r & Hr & ->)|Hs]; [|assumption].
      exfalso. apply Hna. repeat split; auto. exists r. auto.
Qed.

Theorem step_preceding_spec : forall D has_ns t n m, valid D n = true ->
  (In m (nodes_of (step_preceding D has_ns t n)) <->
   axis_preceding D n m /\ match_test D has_ns t m = true).
Proof.
  intros. rewrite nodes_of_step_preceding, filter_In, in_preceding_enum by assumption.
  reflexivity.
Qed.
Print Assumptions step_preceding_spec.
(* ------------------------------------------------------------------ *)
(* no node is returned twice *)

Lemma NoDup_map_inj : forall {A B} (f : A -> B) l,
  (forall x y, In x l -> In y l -> f x = f y -> x = y) -> NoDup l -> NoDup (map f l).
Proof.
  intros A B f l Hinj Hnd. induction Hnd as [|x l Hx Hnd IH]; simpl; constructor.
  - intros Hin. apply in_map_iff in Hin. destruct Hin as (y & E & Hy).
    apply Hx. rewrite (Hinj x y); auto; [left; reflexivity|right; assumption].
  - apply IH. intros; apply Hinj; auto; right; assumption.
Qed.

Lemma NoDup_app_intro : forall {A} (a b : list A),
  NoDup a -> NoDup b -> (forall x, In x a -> In x b -> False) -> NoDup (a ++ b).
Proof.
  intros A a b Ha Hb Hd. induction Ha as [|x a Hx Ha IH]; simpl; [assumption|].
  constructor.
  - rewrite in_app_iff. intros [H|H]; [auto|]. apply (Hd x); [left; reflexivity|assumption].
  - apply IH. intros y Hy. apply Hd. right; assumption.
Qed.

Lemma NoDup_flat_map : forall {A B} (f : A -> list B) l,
  NoDup l -> (forall x, In x l -> NoDup (f x)) ->
  (forall x y z, In x l -> In y l -> In z (f x) -> In z (f y) -> x = y) ->
  NoDup (flat_map f l).
Proof.
  intros A B f l Hnd. induction Hnd as [|x l Hx Hnd IH]; intros Hf Hd; simpl; [constructor|].
  apply NoDup_app_intro.
  - apply Hf. left; reflexivity.
  - apply IH.
    + intros; apply Hf; right; assumption.
    + intros y y' z Hy Hy'. apply Hd; right; assumption.
  - intros z Hz Hz'. apply in_flat_map in Hz'. destruct Hz' as (y & Hy & Hzy).
    apply Hx. rewrite (Hd x y z); auto; [left; reflexivity|right; assumption].
Qed.

Lemma NoDup_children : forall D n, NoDup (children D n).
Proof.
  intros. unfold children. destruct (nattr n); [constructor|].
  apply NoDup_map_inj; [|apply seq_NoDup].
  intros x y _ _ E. inversion E as [E']. apply app_inv_head in E'. congruence.
Qed.

Lemma NoDup_attributes_after : forall D n, NoDup (attributes_after D n).
Proof.
  intros. unfold attributes_after.
  apply NoDup_map_inj; [|apply seq_NoDup].
  intros x y _ _ E. congruence.
Qed.

Lemma NoDup_following_siblings : forall D n, NoDup (following_siblings D n).
Proof.
  intros. unfold following_siblings. destruct (nattr n); [constructor|].
  destruct (last_index (npath n)); [|constructor].
  apply NoDup_map_inj; [|apply seq_NoDup].
  intros x y _ _ E. inversion E as [E']. apply app_inv_head in E'. congruence.
Qed.

Lemma NoDup_preceding_siblings : forall n, NoDup (preceding_siblings n).
Proof.
  intros. unfold preceding_siblings. destruct (nattr n); [constructor|].
  destruct (last_index (npath n)); [|constructor].
  apply NoDup_map_inj; [|apply NoDup_rev, seq_NoDup].
  intros x y _ _ E. inversion E as [E']. apply app_inv_head in E'. congruence.
Qed.

Lemma NoDup_below_go : forall l i,
  Forall (fun c => NoDup (below c)) l -> NoDup (below_go l i).
Proof.
  induction l as [|c l IH]; intros i HF; cbn [below_go]; [constructor|].
  inversion HF as [|c' l' Hc Hl]; subst.
  apply NoDup_app_intro.
  - constructor.
    + intros Hin. apply in_map_iff in Hin. destruct Hin as (r & E & Hr).
      inversion E; subst. apply in_below in Hr. destruct Hr as [Hne _]. congruence.
    + apply NoDup_map_inj; [|assumption]. intros x y _ _ E. congruence.
  - apply IH. assumption.
  - intros r Hr Hr'. apply in_below_go in Hr'.
    destruct Hr' as (j & c' & _ & Hr').
    assert (Hhd : exists r', r = i :: r').
    { destruct Hr as [<-|Hr]; [eauto|]. apply in_map_iff in Hr. destruct Hr as (r' & <- & _). eauto. }
    destruct Hhd as (r' & ->).
    destruct Hr' as [E|(r'' & _ & E)]; inversion E; lia.
Qed.

Lemma NoDup_below : forall s, NoDup (below s).
Proof.
  intros s. induction s as [k a b c d e ks IH] using tree_ind'.
  rewrite below_eq. apply NoDup_below_go. assumption.
Qed.

Lemma NoDup_descendants : forall D n, NoDup (descendants D n).
Proof.
  intros. unfold descendants. destruct (nattr n); [constructor|].
  destruct (node_tree D n); [|constructor].
  apply NoDup_map_inj; [|apply NoDup_below].
  intros x y _ _ E. inversion E as [E']. apply app_inv_head in E'. assumption.
Qed.

Lemma not_in_descendants_self : forall D n, ~ In n (descendants D n).
Proof.
  intros D n. unfold descendants. destruct (nattr n); [intros []|].
  destruct (node_tree D n) as [s|]; [|intros []].
  intros Hin. apply in_map_iff in Hin. destruct Hin as (r & E & Hr).
  apply in_below in Hr. destruct Hr as [Hne _].
  apply (f_equal npath) in E. cbn [npath] in E.
  rewrite <- (app_nil_r (npath n)) in E at 2. apply app_inv_head in E. congruence.
Qed.

Lemma NoDup_desc_or_self : forall D n, NoDup (desc_or_self D n).
Proof.
  intros. unfold desc_or_self. constructor; [apply not_in_descendants_self|apply NoDup_descendants].
Qed.

Lemma NoDup_prefixes_desc : forall f (p : list nat), List.length p <= f -> NoDup (prefixes_desc p f).
Proof.
  induction f as [|f IH]; intros p Hlen; [constructor|].
  destruct (snoc_cases p) as [->|(p' & i & ->)]; [constructor|].
  replace (prefixes_desc (p' ++ [i]) (S f)) with (p' :: prefixes_desc p' f).
  2:{ cbn [prefixes_desc]. rewrite parent_path_snoc. destruct p'; reflexivity. }
  assert (Hlen' : List.length p' <= f) by (rewrite app_length in Hlen; simpl in Hlen; lia).
  constructor; [|apply IH; assumption].
  intros Hin. apply in_prefixes_desc in Hin; [|assumption].
  destruct Hin as (r & Hne & E). rewrite <- (app_nil_r p') in E at 1.
  apply app_inv_head in E. congruence.
Qed.

Lemma NoDup_self_and_ancestors : forall n, NoDup (self_and_ancestors n).
Proof.
  intros [p a]. unfold self_and_ancestors, ancestors. cbn [npath nattr].
  assert (Hinj : forall l, NoDup l -> NoDup (map elem_at l)).
  { intros l. apply NoDup_map_inj. intros x y _ _ E. inversion E; reflexivity. }
  assert (Hp : NoDup (p :: prefixes_desc p (List.length p))).
  { constructor; [|apply NoDup_prefixes_desc; lia].
    intros Hin. apply in_prefixes_desc in Hin; [|lia].
    destruct Hin as (r & Hne & E). rewrite <- (app_nil_r p) in E at 1.
    apply app_inv_head in E. congruence. }
  destruct a as [k|].
  - apply Hinj. assumption.
  - apply (Hinj _ Hp).
Qed.

(* paths that diverge below a common prefix *)
Lemma diverge_unique : forall (p p' : list nat) i i' j j' ra ra' rb rb',
  p ++ i :: ra = p' ++ i' :: ra' -> p ++ j :: rb = p' ++ j' :: rb' ->
  i <> j -> i' <> j' -> p = p' /\ i = i' /\ j = j'.
Proof.
  induction p as [|z p IH]; intros [|z' p'] i i' j j' ra ra' rb rb' Ea Eb Hlt Hlt'; simpl in Ea, Eb.
  - inversion Ea; inversion Eb; subst. auto.
  - inversion Ea; inversion Eb; subst. congruence.
  - inversion Ea; inversion Eb; subst. congruence.
  - inversion Ea; inversion Eb; subst.
    destruct (IH p' i i' j j' ra ra' rb rb') as (-> & -> & ->); auto.
Qed.

Lemma in_desc_or_self_path : forall D s z, valid D s = true -> nattr s = None ->
  In z (desc_or_self D s) -> nattr z = None /\ exists r, npath z = npath s ++ r.
Proof.
  intros D s z Hs Ha Hin. apply in_desc_or_self in Hin; [|assumption].
  destruct Hin as [->|(_ & _ & Hz & r & _ & E)].
  - split; [assumption|]. exists []. rewrite app_nil_r. reflexivity.
  - split; [assumption|]. eauto.
Qed.

Section Blocks.
Variable D : tree.
Variable sib : node -> list node.
Hypothesis sib_spec : forall a s, valid D a = true -> In s (sib a) ->
  valid D s = true /\ nattr a = None /\ nattr s = None /\
  exists p i j, npath a = p ++ [i] /\ npath s = p ++ [j] /\ i <> j.
Hypothesis sib_nodup : forall a, NoDup (sib a).

Lemma in_sib_block : forall a z, valid D a = true ->
  In z (flat_map (desc_or_self D) (sib a)) ->
  exists p i j rb, npath a = p ++ [i] /\ npath z = p ++ j :: rb /\ i <> j.
Proof.
  intros a z Ha Hin. apply in_flat_map in Hin. destruct Hin as (s & Hs & Hz).
  destruct (sib_spec a s Ha Hs) as (Hvs & _ & Hsa & p & i & j & Ea & Es & Hne).
  apply in_desc_or_self_path in Hz; [|assumption|assumption].
  destruct Hz as (_ & r & Ez). exists p, i, j, r. repeat split; auto.
  rewrite Ez, Es, <- app_assoc. reflexivity.
Qed.

Lemma NoDup_blocks : forall n, valid D n = true ->
  NoDup (flat_map (fun a => flat_map (desc_or_self D) (sib a)) (self_and_ancestors n)).
Proof.
  intros n Hn. apply NoDup_flat_map.
  - apply NoDup_self_and_ancestors.
  - intros a Ha. apply (in_self_and_ancestors D) in Ha; [|assumption].
    destruct Ha as (Hva & Haa & _).
    apply NoDup_flat_map.
    + apply sib_nodup.
    + intros; apply NoDup_desc_or_self.
    + intros s s' z Hs Hs' Hz Hz'.
      destruct (sib_spec a s Hva Hs) as (Hvs & _ & Hsa & p & i & j & Ea & Es & Hne).
      destruct (sib_spec a s' Hva Hs') as (Hvs' & _ & Hsa' & p' & i' & j' & Ea' & Es' & Hne').
      rewrite Ea in Ea'. apply app_snoc_inv in Ea'. destruct Ea' as [<- <-].
      apply in_desc_or_self_path in Hz; [|assumption|assumption].
      apply in_desc_or_self_path in Hz'; [|assumption|assumption].
      destruct Hz as (_ & r & Ez). destruct Hz' as (_ & r' & Ez').
      rewrite Ez, Es, Es', <- !app_assoc in Ez'. apply app_inv_head in Ez'.
      simpl in Ez'. inversion Ez'. apply node_eq; congruence.
  - intros a a' z Ha Ha' Hz Hz'.
    apply (in_self_and_ancestors D) in Ha; [|assumption].
    apply (in_self_and_ancestors D) in Ha'; [|assumption].
    destruct Ha as (Hva & Haa & r & En). destruct Ha' as (Hva' & Haa' & r' & En').
    apply in_sib_block in Hz; [|assumption]. apply in_sib_block in Hz'; [|assumption].
    destruct Hz as (p & i & j & rb & Ea & Ez & Hne).
    destruct Hz' as (p' & i' & j' & rb' & Ea' & Ez' & Hne').
    rewrite Ea, <- app_assoc in En. rewrite Ea', <- app_assoc in En'. simpl in En, En'.
    rewrite En in En'. rewrite Ez in Ez'.
    destruct (diverge_unique _ _ _ _ _ _ _ _ _ _ En' Ez' Hne Hne') as (-> & -> & _).
    apply node_eq; congruence.
Qed.
End Blocks.

Lemma NoDup_following_enum : forall D n, valid D n = true -> NoDup (following_enum D n).
Proof.
  intros D n Hn. unfold following_enum. apply NoDup_app_intro.
  - destruct (nattr n); [apply NoDup_descendants|constructor].
  - apply NoDup_blocks; [|intros; apply NoDup_following_siblings|assumption].
    intros a s Ha Hs. apply in_following_siblings in Hs; [|assumption].
    destruct Hs as (Hvs & Haa & Hsa & p & i & j & Ea & Es & Hlt).
    repeat split; auto. exists p, i, j. repeat split; auto. lia.
  - intros z Hz Hz'. destruct (nattr n) as [k|] eqn:En; [|destruct Hz].
    apply in_following_blocks in Hz'; [|assumption]. destruct Hz' as (_ & _ & Hs).
    assert (Ho : valid D (mkNode (npath n) None) = true).
    { destruct n as [p a]. apply (valid_prefix D p [] a). rewrite app_nil_r. assumption. }
    apply in_descendants in Hz; [|assumption].
    destruct Hz as (_ & _ & _ & r & _ & E). cbn [npath] in E.
    exact (split_lt_not_prefix_l _ _ r Hs E).
Qed.

Lemma NoDup_preceding_enum : forall D n, valid D n = true -> NoDup (preceding_enum D n).
Proof.
  intros D n Hn. unfold preceding_enum.
  apply NoDup_blocks; [|intros; apply NoDup_preceding_siblings|assumption].
  intros a s Ha Hs. apply (in_preceding_siblings D) in Hs; [|assumption].
  destruct Hs as (Hvs & Haa & Hsa & p & i & j & Ea & Es & Hlt).
  repeat split; auto. exists p, i, j. repeat split; auto. lia.
Qed.

Theorem step_child_NoDup : forall D has_ns t n, valid D n = true ->
  NoDup (nodes_of (step_child D has_ns t n)).
Proof. intros. unfold step_child. rewrite nodes_of_numbered. apply NoDup_filter, NoDup_children. Qed.

Theorem step_attribute_NoDup : forall D has_ns t n, valid D n = true ->
  NoDup (nodes_of (step_attribute D has_ns t n)).
Proof.
  intros. unfold step_attribute. destruct (node_type D n); try constructor.
  rewrite nodes_of_unnumbered. apply NoDup_filter, NoDup_attributes_after.
Qed.

Theorem step_descendant_NoDup : forall D has_ns self t n, valid D n = true ->
  NoDup (nodes_of (step_descendant D has_ns self t n)).
Proof.
  intros. rewrite nodes_of_step_descendant. apply NoDup_filter.
  destruct self; [apply NoDup_desc_or_self|apply NoDup_descendants].
Qed.

Theorem step_following_sibling_NoDup : forall D has_ns t n, valid D n = true ->
  NoDup (nodes_of (step_following_sibling D has_ns t n)).
Proof.
  intros. unfold step_following_sibling. rewrite nodes_of_numbered.
  apply NoDup_filter, NoDup_following_siblings.
Qed.

Theorem step_preceding_sibling_NoDup : forall D has_ns t n, valid D n = true ->
  NoDup (nodes_of (step_preceding_sibling D has_ns t n)).
Proof.
  intros. unfold step_preceding_sibling. rewrite nodes_of_numbered.
  apply NoDup_filter, NoDup_preceding_siblings.
Qed.

Theorem step_following_NoDup : forall D has_ns t n, valid D n = true ->
  NoDup (nodes_of (step_following D has_ns t n)).
Proof.
  intros. rewrite nodes_of_step_following. apply NoDup_filter, NoDup_following_enum. assumption.
Qed.

Theorem step_preceding_NoDup : forall D has_ns t n, valid D n = true ->
  NoDup (nodes_of (step_preceding D has_ns t n)).
Proof.
  intros. rewrite nodes_of_step_preceding. apply NoDup_filter, NoDup_preceding_enum. assumption.
Qed.

Theorem step_parent_NoDup : forall D has_ns t n, valid D n = true ->
  NoDup (nodes_of (step_parent D has_ns t n)).
Proof.
  intros. unfold step_parent. destruct (move_parent n) as [p|]; [|constructor].
  destruct (match_test D has_ns t p); simpl; repeat constructor. intros [].
Qed.

Theorem step_self_NoDup : forall D has_ns t n, valid D n = true ->
  NoDup (nodes_of (step_self D has_ns t n)).
Proof.
  intros. unfold step_self.
  destruct (match_test D has_ns t n); simpl; repeat constructor. intros [].
Qed.

(* also: one input node never yields an ancestor twice *)
Theorem step_ancestor_raw_NoDup : forall D has_ns self t n, valid D n = true ->
  NoDup (step_ancestor_raw D has_ns self t n).
Proof.
  intros D has_ns self t n Hn. unfold step_ancestor_raw. apply NoDup_filter.
  destruct self; cbn [app].
  - pose proof (NoDup_self_and_ancestors n) as H. unfold self_and_ancestors in H.
    destruct (nattr n) as [k|] eqn:En; [|assumption].
    constructor; [|assumption].
    intros Hin. apply (in_ancestors D) in Hin; [|assumption].
    destruct Hin as (_ & Ha & _). congruence.
  - pose proof (NoDup_self_and_ancestors n) as H. unfold self_and_ancestors in H.
    destruct (nattr n) as [k|] eqn:En; [assumption|]. inversion H; assumption.
Qed.

Print Assumptions step_following_NoDup.
Print Assumptions step_preceding_NoDup.
Print Assumptions step_descendant_NoDup.
(* ------------------------------------------------------------------ *)
(* all twelve axes at once *)

Definition step_of (D : tree) (has_ns : bool) (a : axis) (t : ntest) (n : node) : list node :=
  match a with
  | Child => nodes_of (step_child D has_ns t n)
  | Descendant => nodes_of (step_descendant D has_ns false t n)
  | DescendantOrSelf => nodes_of (step_descendant D has_ns true t n)
  | Parent => nodes_of (step_parent D has_ns t n)
  | Ancestor => step_ancestor_raw D has_ns false t n
  | AncestorOrSelf => step_ancestor_raw D has_ns true t n
  | FollowingSibling => nodes_of (step_following_sibling D has_ns t n)
  | PrecedingSibling => nodes_of (step_preceding_sibling D has_ns t n)
  | Attribute => nodes_of (step_attribute D has_ns t n)
  | Self => nodes_of (step_self D has_ns t n)
  | Following => nodes_of (step_following D has_ns t n)
  | Preceding => nodes_of (step_preceding D has_ns t n)
  end.

Theorem step_of_spec : forall D has_ns a t n m, valid D n = true ->
  (In m (step_of D has_ns a t n) <-> axis_rel D a n m /\ match_test D has_ns t m = true).
Proof.
  intros D has_ns a t n m Hn. destruct a; cbn [step_of axis_rel].
  - apply step_child_spec; assumption.
  - apply step_descendant_spec; assumption.
  - apply step_descendant_or_self_spec; assumption.
  - apply step_parent_spec; assumption.
  - apply step_ancestor_raw_spec; assumption.
  - apply step_ancestor_or_self_raw_spec; assumption.
  - apply step_following_sibling_spec; assumption.
  - apply step_preceding_sibling_spec; assumption.
  - apply step_attribute_spec; assumption.
  - apply step_self_spec; assumption.
  - apply step_following_spec; assumption.
  - apply step_preceding_spec; assumption.
Qed.
Print Assumptions step_of_spec.

Theorem step_of_NoDup : forall D has_ns a t n, valid D n = true ->
  NoDup (step_of D has_ns a t n).
Proof.
  intros D has_ns a t n Hn. destruct a; cbn [step_of].
  - apply step_child_NoDup; assumption.
  - apply step_descendant_NoDup; assumption.
  - apply step_descendant_NoDup; assumption.
  - apply step_parent_NoDup; assumption.
  - apply step_ancestor_raw_NoDup; assumption.
  - apply step_ancestor_raw_NoDup; assumption.
  - apply step_following_sibling_NoDup; assumption.
  - apply step_preceding_sibling_NoDup; assumption.
  - apply step_attribute_NoDup; assumption.
  - apply step_self_NoDup; assumption.
  - apply step_following_NoDup; assumption.
  - apply step_preceding_NoDup; assumption.
Qed.
Print Assumptions step_of_NoDup.

(* ------------------------------------------------------------------ *)
(* descendant-over-descendant *)

Definition top_go (D : tree) (has_ns : bool) (t : ntest) (p : list nat)
  : list tree -> nat -> list node :=
  fix go (l : list tree) (i : nat) : list node :=
  match l with
  | [] => []
  | c :: r =>
    (if match_test D has_ns t (mkNode (p ++ [i]) None) then [mkNode (p ++ [i]) None]
     else top_below D has_ns t c (p ++ [i])) ++ go r (S i)
  end.

Lemma top_go_cons : forall D has_ns t p c r i,
  top_go D has_ns t p (c :: r) i =
  (if match_test D has_ns t (mkNode (p ++ [i]) None) then [mkNode (p ++ [i]) None]
   else top_below D has_ns t c (p ++ [i])) ++ top_go D has_ns t p r (S i).
Proof. reflexivity. Qed.

Lemma top_below_eq : forall D has_ns t s p,
  top_below D has_ns t s p = top_go D has_ns t p (t_kids s) 0.
Proof. intros D has_ns t [k a b c d e ks] p. reflexivity. Qed.

Lemma in_top_go : forall D has_ns t l p i m,
  In m (top_go D has_ns t p l i) <->
  exists j c, nth_error l j = Some c /\
    (if match_test D has_ns t (mkNode (p ++ [i + j]) None)
     then m = mkNode (p ++ [i + j]) None
     else In m (top_below D has_ns t c (p ++ [i + j]))).
Proof.
  intros D has_ns t. induction l as [|c l IH]; intros p i m.
  - simpl. split; [intros []|]. intros (j & c & E & _). destruct j; discriminate.
  - rewrite top_go_cons, in_app_iff, IH. split.
    + intros [H|(j & c' & E & H)].
      * exists 0, c. split; [reflexivity|]. rewrite Nat.add_0_r.
        destruct (match_test D has_ns t (mkNode (p ++ [i]) None)); [|assumption].
        destruct H as [H|[]]. auto.
      * exists (S j), c'. split; [assumption|].
        replace (i + S j) with (S i + j) by lia. assumption.
    + intros (j & c' & E & H). destruct j as [|j].
      * simpl in E. inversion E; subst c'. rewrite Nat.add_0_r in H. left.
        destruct (match_test D has_ns t (mkNode (p ++ [i]) None)); [|assumption].
        left. auto.
      * right. exists j, c'. split; [assumption|].
        replace (S i + j) with (i + S j) by lia. assumption.
Qed.

Lemma in_top_below : forall D has_ns t s p m,
  In m (top_below D has_ns t s p) <->
  exists r, r <> [] /\ m = mkNode (p ++ r) None /\ subtree s r <> None /\
            match_test D has_ns t m = true /\
            (forall r1 r2, r = r1 ++ r2 -> r1 <> [] -> r2 <> [] ->
                           match_test D has_ns t (mkNode (p ++ r1) None) = false).
Proof.
  intros D has_ns t s. induction s as [k a b c d e ks IH] using tree_ind'. intros p m.
  rewrite top_below_eq, in_top_go. cbn [t_kids Nat.add]. split.
  - intros (j & c' & E & H).
    destruct (match_test D has_ns t (mkNode (p ++ [j]) None)) eqn:Em.
    + subst m. exists [j]. repeat split; auto; [discriminate| |].
      * rewrite subtree_single. cbn [t_kids]. congruence.
      * intros r1 r2 E12 H1 H2. destruct r1 as [|x r1]; [congruence|].
        destruct r1; destruct r2; try discriminate; congruence.
    + apply (Forall_nth_error _ _ _ _ IH E) in H.
      destruct H as (r' & Hne & -> & Hs & Hm & Hsplit).
      exists (j :: r'). repeat split.
      * discriminate.
      * rewrite <- app_assoc. reflexivity.
      * cbn [subtree t_kids]. rewrite E. assumption.
      * assumption.
      * intros r1 r2 E12 H1 H2. destruct r1 as [|x r1]; [congruence|].
        simpl in E12. inversion E12; subst x. destruct r1 as [|y r1]; [assumption|].
        replace (p ++ j :: y :: r1) with ((p ++ [j]) ++ y :: r1) by (rewrite <- app_assoc; reflexivity).
        apply (Hsplit (y :: r1) r2); auto. discriminate.
  - intros (r & Hne & -> & Hs & Hm & Hsplit). destruct r as [|j r']; [congruence|].
    cbn [subtree t_kids] in Hs. destruct (nth_error ks j) as [c'|] eqn:E; [|congruence].
    exists j, c'. split; [assumption|]. destruct r' as [|x r''].
    + rewrite Hm. reflexivity.
    + rewrite (Hsplit [j] (x :: r'')); [|reflexivity|discriminate|discriminate].
      apply (Forall_nth_error _ _ _ _ IH E). exists (x :: r''). repeat split.
      * discriminate.
      * rewrite <- app_assoc. reflexivity.
      * assumption.
      * assumption.
      * intros r1 r2 E12 H1 H2. rewrite <- app_assoc. apply (Hsplit (j :: r1) r2); auto.
        -- simpl. rewrite E12. reflexivity.
        -- discriminate.
Qed.

(* the matching descendants that have no matching ancestor below [n] *)
Definition top_match (D : tree) (has_ns : bool) (t : ntest) (n m : node) : Prop :=
  axis_descendant D n m /\ match_test D has_ns t m = true /\
  forall k, axis_descendant D n k -> axis_descendant D k m -> match_test D has_ns t k = false.

Theorem step_dod_spec : forall D has_ns t n m, valid D n = true ->
  (In m (nodes_of (step_dod D has_ns false t n)) <-> top_match D has_ns t n m).
Proof.
  intros D has_ns t [p a] m Hn. unfold step_dod, top_match, node_tree. cbn [andb nattr npath].
  destruct a as [k|].
  { split; [intros []|]. intros ((_ & H & _) & _). discriminate. }
  apply valid_subtree in Hn. cbn [npath] in Hn.
  destruct (subtree D p) as [s|] eqn:Es; [|congruence].
  rewrite nodes_of_numbered, in_top_below. unfold axis_descendant. cbn [npath nattr]. split.
  - intros (r & Hne & -> & Hs & Hm & Hsplit). cbn [npath nattr]. repeat split; eauto.
    + apply valid_elem. rewrite subtree_app, Es. assumption.
    + intros k0 (Hvk & _ & Hka & r1 & Hr1 & Ek) (_ & _ & _ & r2 & Hr2 & Em).
      rewrite Ek, <- app_assoc in Em. apply app_inv_head in Em.
      replace k0 with (mkNode (p ++ r1) None) by (apply node_eq; cbn; congruence).
      apply (Hsplit r1 r2); assumption.
  - intros ((Hv & _ & Hma & r & Hne & Em) & Hm & Htop). exists r.
    assert (Emm : m = mkNode (p ++ r) None) by (apply node_eq; cbn; congruence).
    repeat split; auto.
    + apply valid_subtree in Hv. rewrite Em, subtree_app, Es in Hv. assumption.
    + intros r1 r2 E12 H1 H2. apply Htop; cbn [npath nattr].
      * repeat split; eauto. subst r. rewrite app_assoc in Emm. subst m.
        eapply valid_prefix; eassumption.
      * repeat split; eauto. exists r2. split; [assumption|]. rewrite Em, E12, app_assoc. reflexivity.
Qed.
Print Assumptions step_dod_spec.

Lemma axis_descendant_trans : forall D a b c,
  axis_descendant D a b -> axis_descendant D b c -> axis_descendant D a c.
Proof.
  intros D a b c (_ & Ha & _ & r1 & H1 & E1) (Hv & _ & Hc & r2 & H2 & E2).
  repeat split; auto. exists (r1 ++ r2). split.
  - destruct r1; [congruence|discriminate].
  - rewrite E2, E1, app_assoc. reflexivity.
Qed.

(* the shortest non-empty prefix satisfying a predicate *)
Lemma shortest_prefix : forall (r : list nat) (P : list nat -> bool),
  r <> [] -> P r = true ->
  exists r0 r', r = r0 ++ r' /\ r0 <> [] /\ P r0 = true /\
    forall r1 r2, r0 = r1 ++ r2 -> r1 <> [] -> r2 <> [] -> P r1 = false.
Proof.
  induction r as [|i q IH]; intros P Hne HP; [congruence|].
  destruct (P [i]) eqn:Ei.
  - exists [i], q. repeat split; auto; [discriminate|].
    intros r1 r2 E H1 H2. destruct r1 as [|x r1]; [congruence|].
    destruct r1; destruct r2; try discriminate; congruence.
  - destruct q as [|y q']; [congruence|].
    destruct (IH (fun x => P (i :: x))) as (q0 & q1 & E & Hq0 & HPq0 & Hmin); [discriminate|assumption|].
    exists (i :: q0), q1. repeat split.
    + simpl. rewrite E. reflexivity.
    + discriminate.
    + assumption.
    + intros r1 r2 E12 H1 H2. destruct r1 as [|x r1]; [congruence|].
      simpl in E12. inversion E12; subst x. destruct r1 as [|z r1]; [assumption|].
      apply (Hmin (z :: r1) r2); auto. discriminate.
Qed.

(* every matching descendant lies at or below a top-most match *)
Lemma top_match_exists : forall D has_ns t n m,
  axis_descendant D n m -> match_test D has_ns t m = true ->
  exists m0, top_match D has_ns t n m0 /\ (m = m0 \/ axis_descendant D m0 m).
Proof.
  intros D has_ns t n m (Hv & Hna & Hma & r & Hne & Em) Hm.
  assert (Emm : m = mkNode (npath n ++ r) None) by (apply node_eq; cbn; congruence).
  destruct (shortest_prefix r (fun x => match_test D has_ns t (mkNode (npath n ++ x) None)))
    as (r0 & r' & E & Hr0 & HP & Hmin); [assumption|rewrite <- Emm; assumption|].
  cbv beta in HP, Hmin.
  assert (Hv0 : valid D (mkNode (npath n ++ r0) None) = true).
  { rewrite Emm, E, app_assoc in Hv. eapply valid_prefix; eassumption. }
  exists (mkNode (npath n ++ r0) None). split.
  - repeat split; cbn [npath nattr]; eauto.
    intros k (_ & _ & Hka & r1 & Hr1 & Ek) (_ & _ & _ & r2 & Hr2 & E2). cbn [npath] in E2.
    rewrite Ek, <- app_assoc in E2. apply app_inv_head in E2.
    replace k with (mkNode (npath n ++ r1) None) by (apply node_eq; cbn; congruence).
    apply (Hmin r1 r2); assumption.
  - destruct r' as [|x r''].
    + left. rewrite Emm, E, app_nil_r. reflexivity.
    + right. repeat split; cbn [npath nattr]; auto.
      exists (x :: r''). split; [discriminate|]. rewrite Em, E, app_assoc. reflexivity.
Qed.

(* The lemma behind the engine's rewriting of  //a//b : taking the
   descendants (or descendants-or-self) of the top-most matches only selects
   the same SET of nodes as taking them from all matching descendants. *)
Theorem dod_same_set : forall D has_ns t t2 self n x, valid D n = true ->
  ((exists m, In m (nodes_of (step_dod D has_ns false t n)) /\
              In x (nodes_of (step_descendant D has_ns self t2 m)))
   <->
   (exists m, In m (nodes_of (step_descendant D has_ns false t n)) /\
              In x (nodes_of (step_descendant D has_ns self t2 m)))).
Proof.
  intros D has_ns t t2 self n x Hn. split.
  - intros (m & Hm & Hx). exists m. split; [|assumption].
    apply step_dod_spec in Hm; [|assumption]. destruct Hm as (Hd & Hmt & _).
    apply step_descendant_spec; auto.
  - intros (m & Hm & Hx). apply step_descendant_spec in Hm; [|assumption].
    destruct Hm as (Hd & Hmt).
    destruct (top_match_exists D has_ns t n m Hd Hmt) as (m0 & Htop & Hrel).
    exists m0. split; [apply step_dod_spec; assumption|].
    assert (Hvm : valid D m = true) by apply Hd.
    assert (Hvm0 : valid D m0 = true) by apply Htop.
    destruct self.
    + apply step_descendant_or_self_spec in Hx; [|assumption].
      apply step_descendant_or_self_spec; [assumption|].
      destruct Hx as ((Hvx & Hx) & Hxt). split; [|assumption]. split; [assumption|].
      destruct Hrel as [->|Hrel]; [assumption|]. right.
      destruct Hx as [->|Hx]; [assumption|]. eapply axis_descendant_trans; eassumption.
    + apply step_descendant_spec in Hx; [|assumption].
      apply step_descendant_spec; [assumption|].
      destruct Hx as (Hx & Hxt). split; [|assumption].
      destruct Hrel as [->|Hrel]; [assumption|]. eapply axis_descendant_trans; eassumption.
Qed.
Print Assumptions dod_same_set.

(* the same, declaratively *)
Corollary dod_descendants_spec : forall D has_ns t t2 self n x, valid D n = true ->
  ((exists m, In m (nodes_of (step_dod D has_ns false t n)) /\
              In x (nodes_of (step_descendant D has_ns self t2 m)))
   <->
   (exists m, axis_descendant D n m /\ match_test D has_ns t m = true /\
              axis_rel D (if self then DescendantOrSelf else Descendant) m x) /\
   match_test D has_ns t2 x = true).
Proof.
  intros D has_ns t t2 self n x Hn. rewrite dod_same_set by assumption. split.
  - intros (m & Hm & Hx). apply step_descendant_spec in Hm; [|assumption].
    destruct Hm as (Hd & Hmt). assert (Hvm : valid D m = true) by apply Hd.
    destruct self; cbn [axis_rel].
    + apply step_descendant_or_self_spec in Hx; [|assumption]. destruct Hx as (Hx & Hxt). eauto.
    + apply step_descendant_spec in Hx; [|assumption]. destruct Hx as (Hx & Hxt). eauto.
  - intros ((m & Hd & Hmt & Hx) & Hxt). exists m.
    assert (Hvm : valid D m = true) by apply Hd.
    split; [apply step_descendant_spec; auto|].
    destruct self; cbn [axis_rel] in Hx.
    + apply step_descendant_or_self_spec; auto.
    + apply step_descendant_spec; auto.
Qed.
Print Assumptions dod_descendants_spec.

Lemma top_go_head : forall D has_ns t p l i m,
  In m (top_go D has_ns t p l i) -> exists j r', npath m = p ++ (i + j) :: r'.
Proof.
  intros D has_ns t p l i m Hin. apply in_top_go in Hin. destruct Hin as (j & c & _ & H).
  exists j. destruct (match_test D has_ns t (mkNode (p ++ [i + j]) None)).
  - subst m. exists []. reflexivity.
  - apply in_top_below in H. destruct H as (r & _ & -> & _). exists r.
    cbn [npath]. rewrite <- app_assoc. reflexivity.
Qed.

Lemma NoDup_top_go : forall D has_ns t p l i,
  Forall (fun c => forall q, NoDup (top_below D has_ns t c q)) l ->
  NoDup (top_go D has_ns t p l i).
Proof.
  intros D has_ns t p. induction l as [|c l IH]; intros i HF; [constructor|].
  inversion HF as [|c' l' Hc Hl]; subst. rewrite top_go_cons.
  apply NoDup_app_intro.
  - destruct (match_test D has_ns t (mkNode (p ++ [i]) None)); [|apply Hc].
    constructor; [intros []|constructor].
  - apply IH. assumption.
  - intros m Hm Hm'. apply top_go_head in Hm'. destruct Hm' as (j & r' & E').
    assert (E : exists r, npath m = p ++ i :: r).
    { destruct (match_test D has_ns t (mkNode (p ++ [i]) None)).
      - destruct Hm as [<-|[]]. exists []. reflexivity.
      - apply in_top_below in Hm. destruct Hm as (r & _ & -> & _). exists r.
        cbn [npath]. rewrite <- app_assoc. reflexivity. }
    destruct E as (r & E). rewrite E in E'. apply app_inv_head in E'. inversion E'. lia.
Qed.

Lemma NoDup_top_below : forall D has_ns t s p, NoDup (top_below D has_ns t s p).
Proof.
  intros D has_ns t s. induction s as [k a b c d e ks IH] using tree_ind'. intros p.
  rewrite top_below_eq. apply NoDup_top_go. assumption.
Qed.

Theorem step_dod_NoDup : forall D has_ns matchself t n, valid D n = true ->
  NoDup (nodes_of (step_dod D has_ns matchself t n)).
Proof.
  intros. unfold step_dod.
  destruct (matchself && match_test D has_ns t n).
  - simpl. constructor; [intros []|constructor].
  - destruct (nattr n); [constructor|]. destruct (node_tree D n); [|constructor].
    rewrite nodes_of_numbered. apply NoDup_top_below.
Qed.
Print Assumptions step_dod_NoDup.

(* with matchself = true a matching context node is the only result *)
Theorem step_dod_matchself_spec : forall D has_ns t n m, valid D n = true ->
  (In m (nodes_of (step_dod D has_ns true t n)) <->
   if match_test D has_ns t n then m = n else top_match D has_ns t n m).
Proof.
  intros D has_ns t n m Hn.
  destruct (match_test D has_ns t n) eqn:E.
  - unfold step_dod. rewrite E. simpl. split; [intros [H|[]]; auto|intros ->; auto].
  - rewrite <- step_dod_spec by assumption. unfold step_dod. rewrite E. reflexivity.
Qed.
Print Assumptions step_dod_matchself_spec.
(* ------------------------------------------------------------------ *)
(* Examples: the hypotheses are satisfiable and the theorems say something
   on a concrete document

     <a x="1" y="2"><b>t</b><c z="3"><d/><!--k--></c><e/></a>            *)

Module Examples.
Open Scope string_scope.

Definition el (name : string) (attrs : list attr) (kids : list tree) : tree :=
  T KElem "" name "" "" attrs kids.
Definition at_ (name v : string) : attr := mkAttr "" name "" v.

Definition exD : tree :=
  T KRoot "" "" "" "" []
    [ el "a" [at_ "x" "1"; at_ "y" "2"]
         [ el "b" [] [T KText "" "" "" "t" [] []];
           el "c" [at_ "z" "3"] [el "d" [] []; T KComment "" "" "" "k" [] []];
           el "e" [] [] ] ].

Definition n_a := elem_at [0].
Definition n_b := elem_at [0;0].
Definition n_t := elem_at [0;0;0].
Definition n_c := elem_at [0;1].
Definition n_d := elem_at [0;1;0].
Definition n_k := elem_at [0;1;1].
Definition n_e := elem_at [0;2].
Definition n_cz := mkNode [0;1] (Some 0).
Definition n_ax := mkNode [0] (Some 0).
Definition n_ay := mkNode [0] (Some 1).

Definition any_t : ntest := mkTest NTAll "" "" false "".
Definition elem_t : ntest := mkTest NTElem "" "" false "".
Definition name_t (s : string) : ntest := mkTest NTElem "" s false "".

Example ex_valid_c : valid exD n_c = true.            Proof. reflexivity. Qed.
Example ex_valid_cz : valid exD n_cz = true.          Proof. reflexivity. Qed.
Example ex_valid_d : valid exD n_d = true.            Proof. reflexivity. Qed.
Example ex_invalid : valid exD (elem_at [0;3]) = false. Proof. reflexivity. Qed.

Example ex_child : step_of exD true Child any_t n_c = [n_d; n_k].
Proof. vm_compute. reflexivity. Qed.
Example ex_child_elem : step_of exD true Child elem_t n_a = [n_b; n_c; n_e].
Proof. vm_compute. reflexivity. Qed.
Example ex_attribute : step_of exD true Attribute any_t n_a = [n_ax; n_ay].
Proof. vm_compute. reflexivity. Qed.
Example ex_attribute_of_attr : step_of exD true Attribute any_t n_ax = [].
Proof. vm_compute. reflexivity. Qed.
Example ex_self : step_of exD true Self (name_t "c") n_c = [n_c].
Proof. vm_compute. reflexivity. Qed.
Example ex_parent_attr : step_of exD true Parent any_t n_cz = [n_c].
Proof. vm_compute. reflexivity. Qed.
Example ex_parent : step_of exD true Parent any_t n_d = [n_c].
Proof. vm_compute. reflexivity. Qed.
Example ex_descendant : step_of exD true Descendant any_t n_a = [n_b; n_t; n_c; n_d; n_k; n_e].
Proof. vm_compute. reflexivity. Qed.
Example ex_descendant_or_self : step_of exD true DescendantOrSelf elem_t n_c = [n_c; n_d].
Proof. vm_compute. reflexivity. Qed.
Example ex_ancestor : step_of exD true Ancestor any_t n_cz = [n_c; n_a; root_node].
Proof. vm_compute. reflexivity. Qed.
Example ex_ancestor_or_self : step_of exD true AncestorOrSelf elem_t n_d = [n_d; n_c; n_a].
Proof. vm_compute. reflexivity. Qed.
Example ex_following_sibling : step_of exD true FollowingSibling any_t n_b = [n_c; n_e].
Proof. vm_compute. reflexivity. Qed.
Example ex_preceding_sibling : step_of exD true PrecedingSibling any_t n_e = [n_c; n_b].
Proof. vm_compute. reflexivity. Qed.
Example ex_following : step_of exD true Following any_t n_b = [n_c; n_d; n_k; n_e].
Proof. vm_compute. reflexivity. Qed.
(* from an attribute: the content of its element comes first *)
Example ex_following_attr : step_of exD true Following any_t n_cz = [n_d; n_k; n_e].
Proof. vm_compute. reflexivity. Qed.
Example ex_preceding : step_of exD true Preceding any_t n_d = [n_b; n_t].
Proof. vm_compute. reflexivity. Qed.
Example ex_preceding_attr : step_of exD true Preceding any_t n_cz = [n_b; n_t].
Proof. vm_compute. reflexivity. Qed.

(* the specification theorems applied to the instance *)
Example ex_following_rel : axis_following exD n_cz n_e.
Proof.
  apply (step_following_spec exD true any_t n_cz n_e ex_valid_cz).
  vm_compute. auto.
Qed.

Example ex_not_preceding : ~ axis_preceding exD n_d n_c.
Proof.
  intros H.
  assert (Hin : In n_c (nodes_of (step_preceding exD true any_t n_d))).
  { apply step_preceding_spec; [reflexivity|]. split; [assumption|reflexivity]. }
  vm_compute in Hin. intuition discriminate.
Qed.

(*   <a><a><b/></a><b/></a>   and   //a//b   *)
Definition exD2 : tree :=
  T KRoot "" "" "" "" []
    [ el "a" [] [ el "a" [] [el "b" [] []]; el "b" [] [] ] ].

Example ex_valid_root2 : valid exD2 root_node = true. Proof. reflexivity. Qed.

Example ex_dod : nodes_of (step_dod exD2 true false (name_t "a") root_node) = [elem_at [0]].
Proof. vm_compute. reflexivity. Qed.

Example ex_dod_then_desc :
  flat_map (fun m => nodes_of (step_descendant exD2 true false (name_t "b") m))
           (nodes_of (step_dod exD2 true false (name_t "a") root_node))
  = [elem_at [0;0;0]; elem_at [0;1]].
Proof. vm_compute. reflexivity. Qed.

(* the naive evaluation reaches [0;0;0] twice: same set, different list *)
Example ex_desc_then_desc :
  flat_map (fun m => nodes_of (step_descendant exD2 true false (name_t "b") m))
           (nodes_of (step_descendant exD2 true false (name_t "a") root_node))
  = [elem_at [0;0;0]; elem_at [0;1]; elem_at [0;0;0]].
Proof. vm_compute. reflexivity. Qed.

Example ex_top_match : top_match exD2 true (name_t "a") root_node (elem_at [0]).
Proof. apply step_dod_spec; [reflexivity|]. vm_compute. auto. Qed.

End Examples.
