(* Api.v — xpath.go: Compile / CompileWithNS / MustCompile, Select, Evaluate,
   and a literal-only instance of the regexp parameter used when the model is
   run (extracted).  Definitions only. *)
From XP Require Import Base F64 Doc Ast Scan Parse Build Hash Eval.
Open Scope nat_scope.
Open Scope list_scope.

Section Api.
Variable re_ok : string -> bool.
Variable re_match : string -> string -> option bool.
Variable re_numsubexp : string -> nat.
Variable re_replace_all : string -> string -> string -> string.
Variable hcode : tree -> node -> N.

Definition compile_fuel (fuel : nat) (text : string) (ns : nsmap) : cres query :=
  if String.eqb text "" then Err "expr expression is nil"
  else
    let* q := build_fuel re_ok fuel text ns in
    match q with
    | QNil => Err "undeclared variable in XPath expression"
    | _ => Ok q
    end.

Definition compile (text : string) (ns : nsmap) : cres query :=
  compile_fuel (default_fuel text) text ns.

(* MustCompile never fails: an invalid expression gives the nop query *)
Definition must_compile (text : string) : query :=
  match compile text None with Ok q => q | _ => QNop end.

(* Expr.Select + draining the iterator *)
Definition select (D : tree) (has_ns : bool) (q : query) (c : node) : outcome (list node) :=
  do l <- sel D has_ns (hcode D) re_match re_numsubexp re_replace_all q c; Val (nodes_of l).

(* Expr.Evaluate (a node-set result is the drained iterator) *)
Definition evaluate (D : tree) (has_ns : bool) (q : query) (c : node) : outcome value :=
  match eval D has_ns (hcode D) re_match re_numsubexp re_replace_all q c with
  | Val (VNodes _) => do l <- select D has_ns q c; Val (VNodes (unnumbered l))
  | r => r
  end.
End Api.

(* ---- literal-only regular expressions: a pattern made of letters, digits
   and spaces only, at least one character; it matches where it occurs.
   Every other pattern is outside this instance (None = "does not compile"
   must not be relied on: the harness only sends such patterns to the model). *)
Definition lit_char (c : ascii) : bool :=
  let n := byte_of c in
  orb (orb (andb (Nat.leb 48 n) (Nat.leb n 57)) (andb (Nat.leb 65 n) (Nat.leb n 90)))
      (orb (andb (Nat.leb 97 n) (Nat.leb n 122)) (Nat.eqb n 32)).
Fixpoint all_lit (s : string) : bool :=
  match s with EmptyString => true | String c r => andb (lit_char c) (all_lit r) end.
Definition lit_ok (p : string) : bool := andb (negb (String.eqb p "")) (all_lit p).
Definition lit_match (p s : string) : option bool := if lit_ok p then Some (contains s p) else None.
Definition lit_numsubexp (p : string) : nat := 0.
Definition lit_replace_all (p s t : string) : string := replace_all s p t.
