(* Proofs/Position.v — positional predicates on child steps.

   Property: "[n], position() op n, last() on a child-axis step use the
   1-based position among the step's candidates for the same parent".

   Main results
     step_child_positions     the k-th candidate (0-based) of a child step carries counter k+1, level 0
     child_positional_filter  general form: child::t[p] when the verdict of p is a function of
                              (parent, counter)
     child_index_filter       child::t[n]   = per parent, the n-th matching child
     position_of_child        position() (counting preceding siblings) = 1 + index among the
                              matching children of the parent
     last_of_child            last() = number of matching children of the parent
     position_is_counter      on a child step, position() = the step's counter
     child_position_filter    child::t[position() op n]
     child_last_filter        child::t[last()]
     child_position_last_filter  child::t[position() = last()]
     merge_child_positional_filter / merge_child_index   the same for the builder's form
                              QMerge parent (QFilter (QChild t QContext) p)
     group_index              (P)[n] = the n-th node of P's sequence
     group_index_doc_order    ... = the n-th node in document order for a flat path P
*)
From XP Require Import Base F64 Doc Ast Hash Eval.
From XP.Proofs Require Import DocOrder HashInj Filter.
Open Scope string_scope.
Open Scope nat_scope.
Open Scope list_scope.

(* ------------------------------------------------------------------ *)
(** * Selecting by 1-based position *)

(* the nodes of l whose position (counting from k) satisfies f *)
Fixpoint select_pos (f : nat -> bool) (k : nat) (l : list node) : list node :=
  match l with
  | [] => []
  | x :: r => if f k then x :: select_pos f (S k) r else select_pos f (S k) r
  end.

(* the z-th node (1-based) of l, as a list of length 0 or 1 *)
Definition pick_nth (z : Z) (l : list node) : list node :=
  if (1 <=? z)%Z then
    match nth_error l (Z.to_nat (z - 1)) with Some x => [x] | None => [] end
  else [].

Lemma select_pos_eq : forall z l k,
  select_pos (fun pos => Z.eqb z (Z.of_nat pos)) k l =
  if (Z.of_nat k <=? z)%Z then
    match nth_error l (Z.to_nat (z - Z.of_nat k)) with Some x => [x] | None => [] end
  else [].
Proof.
  intros z. induction l as [|x r IH]; intros k.
  - cbn [select_pos]. destruct (Z.of_nat k <=? z)%Z; [|reflexivity].
    destruct (Z.to_nat (z - Z.of_nat k)); reflexivity.
  - cbn [select_pos]. rewrite IH. destruct (Z.eqb z (Z.of_nat k)) eqn:E.
    + apply Z.eqb_eq in E. subst z.
      replace (Z.of_nat (S k) <=? Z.of_nat k)%Z with false by (symmetry; apply Z.leb_gt; lia).
      rewrite Z.leb_refl, Z.sub_diag. reflexivity.
    + apply Z.eqb_neq in E.
      destruct (Z.of_nat k <=? z)%Z eqn:L.
      * apply Z.leb_le in L.
        replace (Z.of_nat (S k) <=? z)%Z with true by (symmetry; apply Z.leb_le; lia).
        replace (Z.to_nat (z - Z.of_nat k)) with (S (Z.to_nat (z - Z.of_nat (S k)))) by lia.
        reflexivity.
      * apply Z.leb_gt in L.
        replace (Z.of_nat (S k) <=? z)%Z with false by (symmetry; apply Z.leb_gt; lia).
        reflexivity.
Qed.

Corollary select_pos_pick : forall z l,
  select_pos (fun pos => Z.eqb z (Z.of_nat pos)) 1 l = pick_nth z l.
Proof. intros z l. rewrite select_pos_eq. reflexivity. Qed.

Lemma select_pos_ext : forall f g l k,
  (forall pos, k <= pos -> f pos = g pos) -> select_pos f k l = select_pos g k l.
Proof.
  intros f g. induction l as [|x r IH]; intros k H; [reflexivity|].
  cbn [select_pos]. rewrite (H k) by lia. rewrite (IH (S k)); [reflexivity|].
  intros pos Hp. apply H. lia.
Qed.

Lemma select_pos_In : forall f l k x, In x (select_pos f k l) -> In x l.
Proof.
  intros f. induction l as [|y r IH]; intros k x H; [exact H|].
  cbn [select_pos] in H. destruct (f k).
  - destruct H as [H|H]; [now left|right; eapply IH; exact H].
  - right. eapply IH. exact H.
Qed.

Lemma pick_nth_In : forall z l x, In x (pick_nth z l) -> In x l.
Proof. intros z l x. rewrite <- select_pos_pick. apply select_pos_In. Qed.

Lemma pick_nth_spec : forall z l x,
  pick_nth z l = [x] <-> (1 <= z)%Z /\ nth_error l (Z.to_nat (z - 1)) = Some x.
Proof.
  intros z l x. unfold pick_nth. destruct (1 <=? z)%Z eqn:L.
  - apply Z.leb_le in L. destruct (nth_error l (Z.to_nat (z - 1))) as [y|].
    + split; [intros H; inversion H; auto|intros [_ H]; inversion H; reflexivity].
    + split; [discriminate|intros [_ H]; discriminate].
  - apply Z.leb_gt in L. split; [discriminate|intros [H _]; lia].
Qed.

(* ------------------------------------------------------------------ *)
(** * Numbered lists *)

Lemma number_from_nth : forall l k lvl j it,
  nth_error (number_from k lvl l) j = Some it ->
  it_pos it = k + j /\ it_lvl it = lvl /\ nth_error l j = Some (it_node it).
Proof.
  induction l as [|n l IH]; intros k lvl j it H.
  - destruct j; discriminate H.
  - destruct j as [|j]; cbn [number_from nth_error] in H.
    + inversion H. subst it. cbn [it_pos it_lvl it_node nth_error]. split; [lia|auto].
    + apply IH in H. destruct H as (A & B & C). cbn [nth_error]. split; [lia|auto].
Qed.

Lemma number_from_length : forall l k lvl, List.length (number_from k lvl l) = List.length l.
Proof. induction l as [|n l IH]; intros k lvl; cbn [number_from List.length]; [reflexivity|now rewrite IH]. Qed.

Lemma number_from_nth_inv : forall l k lvl j n,
  nth_error l j = Some n -> nth_error (number_from k lvl l) j = Some (mkItem n (k + j) lvl).
Proof.
  induction l as [|x l IH]; intros k lvl j n H.
  - destruct j; discriminate H.
  - destruct j as [|j]; cbn [number_from nth_error] in *.
    + inversion H. subst. now rewrite Nat.add_0_r.
    + rewrite (IH (S k) lvl j n H). f_equal. f_equal. lia.
Qed.

Lemma number_from_lvl : forall l k lvl, Forall (fun it => it_lvl it = lvl) (number_from k lvl l).
Proof. induction l as [|n l IH]; intros k lvl; cbn [number_from]; constructor; [reflexivity|apply IH]. Qed.

(* filtering a numbered list by a verdict that is a function of the counter *)
Lemma filter_number_from : forall (kp : item -> bool) (f : nat -> bool) l k lvl,
  (forall it, In it (number_from k lvl l) -> kp it = f (it_pos it)) ->
  nodes_of (filter kp (number_from k lvl l)) = select_pos f k l.
Proof.
  intros kp f. induction l as [|n l IH]; intros k lvl H; [reflexivity|].
  cbn [number_from filter select_pos].
  rewrite (H (mkItem n k lvl)) by (cbn [number_from]; now left). cbn [it_pos].
  assert (H' : forall it, In it (number_from (S k) lvl l) -> kp it = f (it_pos it)).
  { intros it Hin. apply H. cbn [number_from]. now right. }
  destruct (f k); cbn [nodes_of map it_node]; [f_equal|]; apply (IH _ _ H').
Qed.

Lemma nodes_of_app : forall a b, nodes_of (a ++ b) = nodes_of a ++ nodes_of b.
Proof. intros a b. unfold nodes_of. apply map_app. Qed.

Lemma filter_length_rev : forall (f : node -> bool) l,
  List.length (filter f (rev l)) = List.length (filter f l).
Proof.
  intros f. induction l as [|x l IH]; [reflexivity|].
  cbn [rev filter]. rewrite filter_app, app_length, IH. cbn [filter].
  destruct (f x); cbn [List.length]; lia.
Qed.

(* ------------------------------------------------------------------ *)
(** * Children and siblings in the address model *)

Section Nav.
Variable D : tree.

Definition kid (n : node) (k : nat) : node := mkNode (npath n ++ [k]) None.

Lemma children_kids : forall n, nattr n = None -> children D n = map (kid n) (seq 0 (n_kids D n)).
Proof. intros n H. unfold children. rewrite H. reflexivity. Qed.

Lemma children_inv : forall n m,
  In m (children D n) -> nattr n = None /\ exists k, k < n_kids D n /\ m = kid n k.
Proof.
  intros n m H. unfold children in H. destruct (nattr n) eqn:E; [destruct H|].
  split; [reflexivity|]. apply in_map_iff in H. destruct H as (k & Ek & Hk).
  apply in_seq in Hk. exists k. split; [lia|]. symmetry. exact Ek.
Qed.

Lemma children_split : forall n k,
  nattr n = None -> k < n_kids D n ->
  children D n = map (kid n) (seq 0 k) ++ kid n k :: map (kid n) (seq (S k) (n_kids D n - S k)).
Proof.
  intros n k Hn Hk. rewrite (children_kids n Hn).
  replace (n_kids D n) with (k + S (n_kids D n - S k)) at 1 by lia.
  rewrite seq_app, map_app. cbn [seq map plus]. reflexivity.
Qed.

Lemma last_index_kid : forall p k, last_index (p ++ [k]) = Some k.
Proof. intros p k. unfold last_index. rewrite rev_app_distr. reflexivity. Qed.

Lemma parent_path_kid : forall p k, parent_path (p ++ [k]) = p.
Proof. intros p k. unfold parent_path. apply removelast_last. Qed.

Lemma preceding_siblings_kid : forall n k,
  preceding_siblings (kid n k) = rev (map (kid n) (seq 0 k)).
Proof.
  intros n k. unfold preceding_siblings, kid. cbn [nattr npath].
  rewrite last_index_kid, parent_path_kid. now rewrite map_rev.
Qed.

Lemma n_kids_elem : forall n, n_kids D (mkNode (npath n) None) = n_kids D n.
Proof. intros n. reflexivity. Qed.

Lemma following_siblings_kid : forall n k,
  following_siblings D (kid n k) = map (kid n) (seq (S k) (n_kids D n - S k)).
Proof.
  intros n k. unfold following_siblings, kid. cbn [nattr npath].
  rewrite last_index_kid, parent_path_kid. reflexivity.
Qed.

Lemma move_first_kid : forall n k,
  match move_first (kid n k) with Some f => f | None => kid n k end = kid n 0.
Proof.
  intros n k. unfold move_first, kid. cbn [nattr npath].
  rewrite last_index_kid, parent_path_kid. destruct k; reflexivity.
Qed.

Lemma children_NoDup : forall n, NoDup (children D n).
Proof. intros n. apply sorted_doc_NoDup. apply children_sorted. Qed.

(* position(): counting the preceding siblings that pass the test gives the
   index among the parent's children that pass the test *)
Theorem position_of_child : forall (test : node -> bool) n m j,
  nth_error (filter test (children D n)) j = Some m ->
  position_of test m = of_Z (Z.of_nat (S j)).
Proof.
  intros test n m j H.
  pose proof (nth_error_In _ _ H) as Hin. apply filter_In in Hin. destruct Hin as [Hin Ht].
  destruct (children_inv n m Hin) as (Hn & k & Hk & ->).
  unfold position_of. rewrite preceding_siblings_kid, filter_length_rev.
  assert (J : j = List.length (filter test (map (kid n) (seq 0 k)))).
  { pose proof (NoDup_filter test (children_NoDup n)) as ND.
    rewrite NoDup_nth_error in ND. apply ND.
    - apply nth_error_Some. rewrite H. discriminate.
    - rewrite H. rewrite (children_split n k Hn Hk), filter_app. cbn [filter]. rewrite Ht.
      rewrite nth_error_app2 by lia. rewrite Nat.sub_diag. reflexivity. }
  now rewrite J.
Qed.

(* the index exists *)
Lemma child_has_index : forall (test : node -> bool) n m,
  In m (children D n) -> test m = true ->
  exists j, nth_error (filter test (children D n)) j = Some m.
Proof.
  intros test n m Hin Ht. apply In_nth_error. apply filter_In. auto.
Qed.

(* last(): MoveToFirst, then counting self and the following siblings that
   pass the test, gives the number of the parent's children that pass *)
Theorem last_of_child : forall (test : node -> bool) n m,
  In m (children D n) ->
  last_of D test m = of_Z (Z.of_nat (List.length (filter test (children D n)))).
Proof.
  intros test n m Hin. destruct (children_inv n m Hin) as (Hn & k & Hk & ->).
  unfold last_of. rewrite move_first_kid, following_siblings_kid.
  rewrite (children_split n 0 Hn) by lia. reflexivity.
Qed.

End Nav.

(* ------------------------------------------------------------------ *)
(** * Child steps and filters *)

Section Position.
Variable D : tree.
Variable has_ns : bool.
Variable hc : node -> N.
Variable rm : string -> string -> option bool.
Variable rn : string -> nat.
Variable rr : string -> string -> string -> string.

Notation SEL := (sel D has_ns hc rm rn rr).
Notation EVAL := (eval D has_ns hc rm rn rr).
Notation TEST := (match_test D has_ns).
Notation KEEP := (keep D has_ns hc rm rn rr).

(* the matching children of n, in document order: the candidates of child::t from n *)
Definition cands (t : ntest) (n : node) : list node := filter (TEST t) (children D n).

Theorem step_child_nodes : forall t n, nodes_of (step_child D has_ns t n) = cands t n.
Proof. intros t n. apply nodes_of_step_child. Qed.

(* MAIN: the counters of a child step are 1, 2, 3, ... per input node *)
Theorem step_child_positions : forall t n k it,
  nth_error (step_child D has_ns t n) k = Some it ->
  it_pos it = S k /\ it_lvl it = 0 /\ nth_error (cands t n) k = Some (it_node it).
Proof.
  intros t n k it H. unfold step_child, numbered in H. apply number_from_nth in H.
  destruct H as (A & B & C). auto.
Qed.

Theorem step_child_nth : forall t n k m,
  nth_error (cands t n) k = Some m ->
  nth_error (step_child D has_ns t n) k = Some (mkItem m (S k) 0).
Proof.
  intros t n k m H. unfold step_child, numbered. now apply (number_from_nth_inv _ 1 0 k m).
Qed.

Theorem step_child_length : forall t n,
  List.length (step_child D has_ns t n) = List.length (cands t n).
Proof. intros t n. apply number_from_length. Qed.

Lemma step_child_lvl : forall t n, Forall (fun it => it_lvl it = 0) (step_child D has_ns t n).
Proof. intros t n. apply number_from_lvl. Qed.

Lemma flat_map_step_child_lvl : forall t (parents : list item),
  Forall (fun it => it_lvl it = 0) (flat_map (fun it => step_child D has_ns t (it_node it)) parents).
Proof.
  intros t parents. induction parents as [|p ps IH]; cbn [flat_map]; [constructor|].
  apply Forall_app. split; [apply step_child_lvl|exact IH].
Qed.

(* MAIN (general form): a predicate whose verdict on the candidates of a
   child step is a function f of the parent and of the 1-based position among
   the matching children of that parent *)
Theorem child_positional_filter : forall np t i p c parents (f : node -> nat -> bool),
  SEL i c = Val parents ->
  (forall par it, In par (nodes_of parents) -> In it (step_child D has_ns t par) ->
     exists v, EVAL p (it_node it) = Val v /\ truth_of_filter v (it_pos it) = f par (it_pos it)) ->
  SEL (QFilter np (QChild t i) p) c =
  Val (numbered (flat_map (fun par => select_pos (f (it_node par)) 1 (cands t (it_node par))) parents)).
Proof.
  intros np t i p c parents f Hp Hv.
  rewrite sel_filter, sel_child, Hp. cbn [obind].
  set (l := flat_map (fun it => step_child D has_ns t (it_node it)) parents).
  assert (Hev : Forall (fun it => evaluates D has_ns hc rm rn rr p (it_node it)) l).
  { apply Forall_forall. intros it Hin. unfold l in Hin. apply in_flat_map in Hin.
    destruct Hin as (par & Hpar & Hit).
    destruct (Hv (it_node par) it) as (v & Ev & _); [now apply in_map|exact Hit|].
    exists v. exact Ev. }
  destruct (filter_go_total D has_ns hc rm rn rr p l [] Hev) as [r Hr]. rewrite Hr.
  rewrite (filter_go_positions D has_ns hc rm rn rr p 0 l [] r (flat_map_step_child_lvl t parents) Hr).
  cbn [pm_get]. unfold numbered. f_equal. f_equal.
  unfold l. clear l Hev Hr r Hp.
  induction parents as [|par ps IH]; [reflexivity|].
  cbn [flat_map]. rewrite filter_app, nodes_of_app. f_equal.
  - unfold step_child, numbered. apply filter_number_from.
    intros it Hin. destruct (Hv (it_node par) it) as (v & Ev & Tv); [cbn; now left|exact Hin|].
    unfold keep, verdict. rewrite Ev. cbn [obind]. exact Tv.
  - apply IH. intros par' it Hpar Hit. apply Hv; [cbn; now right|exact Hit].
Qed.

(* ---- [n] ---- *)

Lemma eval_num : forall v c, EVAL (QNum v) c = Val (VNum v).
Proof. reflexivity. Qed.

(* MAIN: child::t[n] = for each input node, in order, its n-th matching child *)
Theorem child_index_filter : forall np t i v c parents,
  SEL i c = Val parents ->
  SEL (QFilter np (QChild t i) (QNum v)) c =
  Val (numbered (flat_map (fun par => pick_nth (go_int v) (cands t (it_node par))) parents)).
Proof.
  intros np t i v c parents Hp.
  rewrite (child_positional_filter np t i (QNum v) c parents
             (fun _ pos => Z.eqb (go_int v) (Z.of_nat pos)) Hp).
  - f_equal. f_equal. apply flat_map_ext. intros par. apply select_pos_pick.
  - intros par it _ _. exists (VNum v). split; [apply eval_num|reflexivity].
Qed.

Corollary child_index_filter_nodes : forall np t i v c parents r,
  SEL i c = Val parents ->
  SEL (QFilter np (QChild t i) (QNum v)) c = Val r ->
  nodes_of r = flat_map (fun par => pick_nth (go_int v) (cands t (it_node par))) parents.
Proof.
  intros np t i v c parents r Hp Hr. rewrite (child_index_filter np t i v c parents Hp) in Hr.
  inversion Hr. apply nodes_of_numbered.
Qed.

(* ---- position() and last() ---- *)

Lemma eval_position : forall i c,
  EVAL (QPosition i) c = Val (VNum (position_of (query_test D has_ns i) c)).
Proof. reflexivity. Qed.

Lemma eval_last : forall i c,
  EVAL (QLast i) c = Val (VNum (last_of D (query_test D has_ns i) c)).
Proof. reflexivity. Qed.

Lemma query_test_child : forall t i, query_test D has_ns (QChild t i) = TEST t.
Proof. reflexivity. Qed.

(* MAIN: on the candidates of a child step, position() -- which the engine
   computes by walking the preceding siblings -- is the step's counter *)
Theorem position_is_counter : forall t i' n it,
  In it (step_child D has_ns t n) ->
  EVAL (QPosition (QChild t i')) (it_node it) = Val (VNum (of_Z (Z.of_nat (it_pos it)))).
Proof.
  intros t i' n it Hin. apply In_nth_error in Hin. destruct Hin as [k Hk].
  apply step_child_positions in Hk. destruct Hk as (Hpos & _ & Hn).
  rewrite eval_position, query_test_child, Hpos.
  now rewrite (position_of_child D (TEST t) n (it_node it) k Hn).
Qed.

Theorem last_is_count : forall t i' n it,
  In it (step_child D has_ns t n) ->
  EVAL (QLast (QChild t i')) (it_node it) = Val (VNum (of_Z (Z.of_nat (List.length (cands t n))))).
Proof.
  intros t i' n it Hin.
  assert (Hc : In (it_node it) (children D n)).
  { apply (in_map it_node) in Hin. fold (nodes_of (step_child D has_ns t n)) in Hin.
    rewrite step_child_nodes in Hin. unfold cands in Hin. now apply filter_In in Hin. }
  rewrite eval_last, query_test_child. now rewrite (last_of_child D (TEST t) n (it_node it) Hc).
Qed.

Lemma eval_logical_num : forall op a b c x y,
  EVAL a c = Val (VNum x) -> EVAL b c = Val (VNum y) ->
  EVAL (QLogical op a b) c = Val (VBool (cmp_num op x y)).
Proof.
  intros op a b c x y Ha Hb.
  rewrite (eval_logical D has_ns hc rm rn rr op a b c), Ha, Hb. reflexivity.
Qed.

(* MAIN: child::t[position() op n] keeps, per parent, the matching children
   whose 1-based index k satisfies  k op n  (as float64 comparison) *)
Theorem child_position_filter : forall np t i i' op v c parents,
  SEL i c = Val parents ->
  SEL (QFilter np (QChild t i) (QLogical op (QPosition (QChild t i')) (QNum v))) c =
  Val (numbered (flat_map (fun par =>
         select_pos (fun pos => cmp_num op (of_Z (Z.of_nat pos)) v) 1 (cands t (it_node par))) parents)).
Proof.
  intros np t i i' op v c parents Hp.
  apply (child_positional_filter np t i _ c parents
           (fun _ pos => cmp_num op (of_Z (Z.of_nat pos)) v) Hp).
  intros par it _ Hin. eexists. split.
  - apply eval_logical_num; [apply (position_is_counter t i' par it Hin)|apply eval_num].
  - reflexivity.
Qed.

(* the same with the operands swapped: n op position() *)
Theorem child_position_filter_swapped : forall np t i i' op v c parents,
  SEL i c = Val parents ->
  SEL (QFilter np (QChild t i) (QLogical op (QNum v) (QPosition (QChild t i')))) c =
  Val (numbered (flat_map (fun par =>
         select_pos (fun pos => cmp_num op v (of_Z (Z.of_nat pos))) 1 (cands t (it_node par))) parents)).
Proof.
  intros np t i i' op v c parents Hp.
  apply (child_positional_filter np t i _ c parents
           (fun _ pos => cmp_num op v (of_Z (Z.of_nat pos))) Hp).
  intros par it _ Hin. eexists. split.
  - apply eval_logical_num; [apply eval_num|apply (position_is_counter t i' par it Hin)].
  - reflexivity.
Qed.

(* MAIN: child::t[last()] = per parent, the child at index int(float64(count)) *)
Theorem child_last_filter : forall np t i i' c parents,
  SEL i c = Val parents ->
  SEL (QFilter np (QChild t i) (QLast (QChild t i'))) c =
  Val (numbered (flat_map (fun par =>
         pick_nth (go_int (of_Z (Z.of_nat (List.length (cands t (it_node par))))))
                  (cands t (it_node par))) parents)).
Proof.
  intros np t i i' c parents Hp.
  rewrite (child_positional_filter np t i _ c parents
             (fun par pos => Z.eqb (go_int (of_Z (Z.of_nat (List.length (cands t par))))) (Z.of_nat pos)) Hp).
  - f_equal. f_equal. apply flat_map_ext. intros par. apply select_pos_pick.
  - intros par it _ Hin. eexists. split; [apply (last_is_count t i' par it Hin)|reflexivity].
Qed.

(* child::t[position() = last()] *)
Theorem child_position_last_filter : forall np t i i1 i2 op c parents,
  SEL i c = Val parents ->
  SEL (QFilter np (QChild t i) (QLogical op (QPosition (QChild t i1)) (QLast (QChild t i2)))) c =
  Val (numbered (flat_map (fun par =>
         select_pos (fun pos => cmp_num op (of_Z (Z.of_nat pos))
                                          (of_Z (Z.of_nat (List.length (cands t (it_node par))))))
                    1 (cands t (it_node par))) parents)).
Proof.
  intros np t i i1 i2 op c parents Hp.
  apply (child_positional_filter np t i _ c parents
           (fun par pos => cmp_num op (of_Z (Z.of_nat pos))
                                   (of_Z (Z.of_nat (List.length (cands t par))))) Hp).
  intros par it _ Hin. eexists. split.
  - apply eval_logical_num;
      [apply (position_is_counter t i1 par it Hin)|apply (last_is_count t i2 par it Hin)].
  - reflexivity.
Qed.

(* ---- the form the builder produces for a positional predicate on a step
        of a longer path:  parent/child::t[p]  becomes
        QMerge parent (QFilter (QChild t QContext) p): the filtered child step
        is restarted at every node of the parent path ---- *)

Lemma sel_merge : forall i ch c,
  SEL (QMerge i ch) c =
  do roots <- SEL i c;
  do l <- oflat_map (fun it => SEL ch (it_node it)) roots;
  Val (unnumbered (nodes_of l)).
Proof. intros i ch c. rewrite sel_unfold. reflexivity. Qed.

Lemma oflat_map_val : forall (g : item -> outcome (list item)) (h : item -> list item) roots,
  (forall it, In it roots -> g it = Val (h it)) ->
  oflat_map g roots = Val (flat_map h roots).
Proof.
  intros g h. induction roots as [|it r IH]; intros H; [reflexivity|].
  cbn [oflat_map flat_map]. rewrite (H it) by now left. cbn [obind].
  rewrite IH by (intros x Hx; apply H; now right). reflexivity.
Qed.

Theorem merge_child_positional_filter : forall np t parent p c ps (f : node -> nat -> bool),
  SEL parent c = Val ps ->
  (forall par it, In par (nodes_of ps) -> In it (step_child D has_ns t par) ->
     exists v, EVAL p (it_node it) = Val v /\ truth_of_filter v (it_pos it) = f par (it_pos it)) ->
  SEL (QMerge parent (QFilter np (QChild t QContext) p)) c =
  Val (unnumbered (flat_map (fun par => select_pos (f par) 1 (cands t par)) (nodes_of ps))).
Proof.
  intros np t parent p c ps f Hp Hv. rewrite sel_merge, Hp. cbn [obind].
  rewrite (oflat_map_val _ (fun it => numbered (select_pos (f (it_node it)) 1 (cands t (it_node it))))).
  - cbn [obind]. f_equal. f_equal.
    rewrite (nodes_of_flat_map (fun n => numbered (select_pos (f n) 1 (cands t n)))).
    apply flat_map_ext. intros n. apply nodes_of_numbered.
  - intros it Hin.
    rewrite (child_positional_filter np t QContext p (it_node it) [mkItem (it_node it) 1 0] f).
    + cbn [flat_map it_node]. now rewrite app_nil_r.
    + apply sel_context.
    + intros par x Hpar Hx. cbn in Hpar. destruct Hpar as [<-|[]].
      apply Hv; [now apply in_map|exact Hx].
Qed.

(* parent/child::t[n] as built: per parent, the n-th matching child *)
Theorem merge_child_index : forall np t parent v c ps,
  SEL parent c = Val ps ->
  SEL (QMerge parent (QFilter np (QChild t QContext) (QNum v))) c =
  Val (unnumbered (flat_map (fun par => pick_nth (go_int v) (cands t par)) (nodes_of ps))).
Proof.
  intros np t parent v c ps Hp.
  rewrite (merge_child_positional_filter np t parent (QNum v) c ps
             (fun _ pos => Z.eqb (go_int v) (Z.of_nat pos)) Hp).
  - f_equal. f_equal. apply flat_map_ext. intros par. apply select_pos_pick.
  - intros par it _ _. exists (VNum v). split; [apply eval_num|reflexivity].
Qed.

(* the merged and the plain form select the same nodes in the same order *)
Corollary merge_child_index_same_nodes : forall np1 np2 t parent v c ps,
  SEL parent c = Val ps ->
  omap nodes_of (SEL (QMerge parent (QFilter np1 (QChild t QContext) (QNum v))) c) =
  omap nodes_of (SEL (QFilter np2 (QChild t parent) (QNum v)) c).
Proof.
  intros np1 np2 t parent v c ps Hp.
  rewrite (merge_child_index np1 t parent v c ps Hp), (child_index_filter np2 t parent v c ps Hp).
  unfold omap. cbn [obind]. rewrite nodes_of_unnumbered, nodes_of_numbered.
  f_equal. unfold nodes_of. now rewrite flat_map_concat_map, map_map, <- flat_map_concat_map.
Qed.

(* ---- (P)[n] ---- *)

Lemma sel_group : forall i c, SEL (QGroup i) c = do l <- SEL i c; Val (regroup 1 l).
Proof. intros i c. rewrite sel_unfold. reflexivity. Qed.

Lemma regroup_number_from : forall l k, regroup k l = number_from k 0 (nodes_of l).
Proof.
  induction l as [|it l IH]; intros k; [reflexivity|].
  cbn [regroup nodes_of map number_from]. f_equal. apply IH.
Qed.

(* a group renumbers its input 1, 2, 3, ... *)
Theorem group_positions : forall i c l,
  SEL i c = Val l -> SEL (QGroup i) c = Val (numbered (nodes_of l)).
Proof. intros i c l H. rewrite sel_group, H. cbn [obind]. now rewrite regroup_number_from. Qed.

(* general form for a group: verdict a function of the position in P's sequence *)
Theorem group_positional_filter : forall np i p c l (f : nat -> bool),
  SEL i c = Val l ->
  (forall it, In it (numbered (nodes_of l)) ->
     exists v, EVAL p (it_node it) = Val v /\ truth_of_filter v (it_pos it) = f (it_pos it)) ->
  SEL (QFilter np (QGroup i) p) c = Val (numbered (select_pos f 1 (nodes_of l))).
Proof.
  intros np i p c l f Hl Hv. rewrite sel_filter, (group_positions i c l Hl). cbn [obind].
  set (g := numbered (nodes_of l)) in *.
  assert (Hev : Forall (fun it => evaluates D has_ns hc rm rn rr p (it_node it)) g).
  { apply Forall_forall. intros it Hin. destruct (Hv it Hin) as (v & Ev & _). now exists v. }
  destruct (filter_go_total D has_ns hc rm rn rr p g [] Hev) as [r Hr]. rewrite Hr.
  rewrite (filter_go_positions D has_ns hc rm rn rr p 0 g [] r (number_from_lvl _ 1 0) Hr).
  cbn [pm_get]. unfold numbered. f_equal. f_equal. unfold g, numbered.
  apply filter_number_from. intros it Hin. destruct (Hv it Hin) as (v & Ev & Tv).
  unfold keep, verdict. rewrite Ev. cbn [obind]. exact Tv.
Qed.

(* MAIN: (P)[n] is the n-th node of P's sequence *)
Theorem group_index : forall np i v c l,
  SEL i c = Val l ->
  SEL (QFilter np (QGroup i) (QNum v)) c = Val (numbered (pick_nth (go_int v) (nodes_of l))).
Proof.
  intros np i v c l Hl.
  rewrite (group_positional_filter np i (QNum v) c l (fun pos => Z.eqb (go_int v) (Z.of_nat pos)) Hl).
  - now rewrite select_pos_pick.
  - intros it _. exists (VNum v). split; [apply eval_num|reflexivity].
Qed.

(* for a flat path P (child/attribute/self steps from . or /): P's sequence is
   in document order without duplicates, so (P)[n] is the n-th node of the
   node-set of P in document order *)
Corollary group_index_doc_order : forall np i v c l,
  flat_query i -> SEL i c = Val l ->
  sorted_doc (nodes_of l) /\
  SEL (QFilter np (QGroup i) (QNum v)) c = Val (numbered (pick_nth (go_int v) (nodes_of l))) /\
  (forall s, sorted_doc s -> (forall x, In x s <-> In x (nodes_of l)) ->
             SEL (QFilter np (QGroup i) (QNum v)) c = Val (numbered (pick_nth (go_int v) s))).
Proof.
  intros np i v c l Hf Hl.
  pose proof (flat_sorted_any D has_ns hc rm rn rr i c l Hf Hl) as Hs.
  split; [exact Hs|]. split; [now apply group_index|].
  intros s Ss Hiff. rewrite (sorted_doc_unique s (nodes_of l) Ss Hs Hiff). now apply group_index.
Qed.

(* without the group, the index is per parent (child_index_filter); the two
   coincide when there is a single parent *)
Corollary child_index_single_parent : forall np1 np2 t i v c par,
  SEL i c = Val [par] ->
  SEL (QFilter np1 (QChild t i) (QNum v)) c = SEL (QFilter np2 (QGroup (QChild t i)) (QNum v)) c.
Proof.
  intros np1 np2 t i v c par Hp.
  rewrite (child_index_filter np1 t i v c [par] Hp).
  assert (Hc : SEL (QChild t i) c = Val (step_child D has_ns t (it_node par))).
  { rewrite sel_child, Hp. cbn [obind flat_map]. now rewrite app_nil_r. }
  rewrite (group_index np2 (QChild t i) v c _ Hc). cbn [flat_map]. rewrite app_nil_r.
  now rewrite step_child_nodes.
Qed.

End Position.

Print Assumptions step_child_positions.
Print Assumptions child_positional_filter.
Print Assumptions child_index_filter.
Print Assumptions position_of_child.
Print Assumptions last_of_child.
Print Assumptions position_is_counter.
Print Assumptions child_position_filter.
Print Assumptions child_last_filter.
Print Assumptions group_index.
Print Assumptions merge_child_positional_filter.
Print Assumptions merge_child_index.
Print Assumptions group_index_doc_order.

(* ================================================================== *)
(** * Examples *)

Module PositionExamples.
Import DocOrder.Examples.

(* a document with two parents:
   <r><p><x/><y/><x/></p><p><x/><x/><x/></p></r> *)
Definition d2 : tree :=
  T KRoot "" "" "" "" []
    [ el "r" []
         [ el "p" [] [el "x" [] []; el "y" [] []; el "x" [] []];
           el "p" [] [el "x" [] []; el "x" [] []; el "x" [] []] ] ].

Notation SEL2 := (sel d2 false (fun _ => 0%N) (fun _ _ => None) (fun _ => 0) (fun _ s _ => s)).
Notation EVAL2 := (eval d2 false (fun _ => 0%N) (fun _ _ => None) (fun _ => 0) (fun _ s _ => s)).
Definition run2 (q : query) (c : node) : outcome (list node) := omap nodes_of (SEL2 q c).

(* /r/p *)
Definition ps : query := QChild (named "p") (QChild (named "r") QAbsolute).
(* /r/p/x *)
Definition xs : query := QChild (named "x") ps.

Example ex_step_child :
  step_child d2 false (named "x") (e [0;0]) = [mkItem (e [0;0;0]) 1 0; mkItem (e [0;0;2]) 2 0].
Proof. vm_compute. reflexivity. Qed.

(* /r/p/x[2] : the second x of each p *)
Example ex_index : run2 (QFilter false xs (QNum (of_Z 2))) root_node = Val [e [0;0;2]; e [0;1;1]].
Proof. vm_compute. reflexivity. Qed.

(* the builder's form of /r/p/x[2] *)
Example ex_merge_index :
  run2 (QMerge ps (QFilter false (QChild (named "x") QContext) (QNum (of_Z 2)))) root_node
  = Val [e [0;0;2]; e [0;1;1]].
Proof. vm_compute. reflexivity. Qed.

(* (/r/p/x)[2] : the second x overall *)
Example ex_group_index :
  run2 (QFilter false (QGroup xs) (QNum (of_Z 2))) root_node = Val [e [0;0;2]].
Proof. vm_compute. reflexivity. Qed.
Example ex_group_flat : flat_query xs.
Proof. repeat constructor. Qed.

(* /r/p/x[position() < 3] *)
Example ex_position_lt :
  run2 (QFilter false xs (QLogical CLt (QPosition xs) (QNum (of_Z 3)))) root_node
  = Val [e [0;0;0]; e [0;0;2]; e [0;1;0]; e [0;1;1]].
Proof. vm_compute. reflexivity. Qed.

(* /r/p/x[last()] *)
Example ex_last :
  run2 (QFilter false xs (QLast xs)) root_node = Val [e [0;0;2]; e [0;1;2]].
Proof. vm_compute. reflexivity. Qed.

(* position() and last() at the third child of the first p (the second x) *)
Example ex_position_value :
  EVAL2 (QPosition xs) (e [0;0;2]) = Val (VNum (of_Z 2)) /\
  EVAL2 (QLast xs) (e [0;0;2]) = Val (VNum (of_Z 2)) /\
  go_int (of_Z 2) = 2%Z.
Proof. repeat split; vm_compute; reflexivity. Qed.

(* [0], [-1] and an index past the end select nothing *)
Example ex_out_of_range :
  run2 (QFilter false xs (QNum (of_Z 0))) root_node = Val [] /\
  run2 (QFilter false xs (QNum (of_Z (-1)))) root_node = Val [] /\
  run2 (QFilter false xs (QNum (of_Z 4))) root_node = Val [].
Proof. repeat split; vm_compute; reflexivity. Qed.

(* a fractional index is truncated by the engine: [2.5] behaves as [2] *)
Example ex_fraction :
  run2 (QFilter false xs (QNum (fadd (of_Z 2) fhalf))) root_node = Val [e [0;0;2]; e [0;1;1]].
Proof. vm_compute. reflexivity. Qed.

End PositionExamples.
