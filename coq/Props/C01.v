(* C01 — predicate-free location paths select exactly the XPath 1.0 node-set.
   Property theorems only.  Specification: Spec/Axes.v (the twelve axes as
   relations on node addresses) and Spec/Paths.v ([path_den]: the denotation of
   a list of (axis, node test) steps as a chain of axis relations).  Proofs:
   Proofs/AxesSound.v, Proofs/PathSem.v, Proofs/BuildPath.v.
   Residual hypotheses: [hash_ok hcode (all_nodes D)] (the 64-bit identity codes of
   the document's nodes are pairwise different; used only by ancestor steps; see
   Props/C11.v) and that the parse tree of the path text has the path shape
   ([rpath_ast]; parser vs grammar is C10's correspondence). *)
From Coq Require Import List String.
From XP Require Import Base F64 Doc Ast Eval Parse Build Api.
From XP.Spec Require Import Axes Paths.
From XP.Proofs Require Import HashInj AxesSound PathSem BuildPath.

(* one step over any of the twelve axes, any node test, any document, any valid
   context node (element, attribute, text, comment, root) *)
Theorem C01_step_sound_complete : forall D has_ns a t n m, valid D n = true ->
  (In m (step_of D has_ns a t n) <-> axis_rel D a n m /\ match_test D has_ns t m = true).
Proof. exact step_of_spec. Qed.
Print Assumptions C01_step_sound_complete.

(* a chain of axis queries of ANY length from the context node: never fails,
   and selects exactly the denotation (no node missing, none outside) *)
Theorem C01_relative_path : forall D has_ns hcode rm rn rr steps c,
  hash_ok hcode (all_nodes D) -> valid D c = true ->
  exists l, sel D has_ns hcode rm rn rr (chain QContext steps) c = Val l /\
    (forall n, In n (nodes_of l) -> valid D n = true) /\
    (forall n, In n (nodes_of l) <-> path_den D has_ns steps c n).
Proof. exact chain_den. Qed.
Print Assumptions C01_relative_path.

Theorem C01_absolute_path : forall D has_ns hcode rm rn rr steps c,
  hash_ok hcode (all_nodes D) -> valid D c = true ->
  exists l, sel D has_ns hcode rm rn rr (chain QAbsolute steps) c = Val l /\
    (forall n, In n (nodes_of l) -> valid D n = true) /\
    (forall n, In n (nodes_of l) <-> abs_path_den D has_ns steps n).
Proof. exact chain_den_abs. Qed.
Print Assumptions C01_absolute_path.

(* the BUILDER: the query it produces for the parse tree of a predicate-free
   path — with the //name shortcut, descendant-over-descendant (SmartDesc) and
   cached-child rewrites — selects exactly the denotation, from every context node *)
Theorem C01_built_query : forall D has_ns hcode rm rn rr re_ok abs steps a,
  hash_ok hcode (all_nodes D) -> List.length steps < max_build_depth ->
  to_ast abs steps = Some a ->
  exists q pr fi, process re_ok 0 a fl_none fi_nil = Ok (q, pr, fi) /\ q <> QNil /\
    selects_path D has_ns hcode rm rn rr q abs steps.
Proof. exact build_path_den. Qed.
Print Assumptions C01_built_query.

(* Compile: if the text parses to a path-shaped tree, Compile succeeds and the
   compiled query selects exactly the denotation *)
Theorem C01_compiled_path : forall D has_ns hcode rm rn rr re_ok fuel text ns abs steps a,
  hash_ok hcode (all_nodes D) -> List.length steps < max_build_depth -> text <> ""%string ->
  parse_fuel fuel text ns = Ok a -> rpath_ast abs (rev steps) (Some a) ->
  exists q, compile_fuel re_ok fuel text ns = Ok q /\ selects_path D has_ns hcode rm rn rr q abs steps.
Proof. exact compile_path_den. Qed.
Print Assumptions C01_compiled_path.

(* the //a//b optimisation (descendant-over-descendant yields top-most matches
   only): the node set after the next descendant step is unchanged *)
Theorem C01_descendant_over_descendant_same_set : forall D has_ns t t2 self n x, valid D n = true ->
  ((exists m, In m (nodes_of (step_dod D has_ns false t n)) /\ In x (nodes_of (step_descendant D has_ns self t2 m))) <->
   (exists m, In m (nodes_of (step_descendant D has_ns false t n)) /\ In x (nodes_of (step_descendant D has_ns self t2 m)))).
Proof. exact dod_same_set. Qed.
Print Assumptions C01_descendant_over_descendant_same_set.

(* ---- END TO END (Proofs/EndToEndPaths.v): from the TEXT of a predicate-free location
   path to the selected node set, through the real scanner, parser, builder and
   evaluator.  [path_syntax p]: p is a relative or absolute location path without
   predicates over the twelve axes (explicit or abbreviated: a, @a, ., .., //) and the
   node tests name, *, node(), text(), comment(); [steps_of p] its list of
   (axis, node test) steps; [print_ws w p] the text of p with the white space [w i]
   before token i.  For every such path, every white-space layout, every namespace map,
   every document and every valid context node: Compile succeeds and Select returns
   exactly the XPath denotation. ---- *)
From XP.Proofs Require Import RoundTripPaths RoundTripWs EndToEndPaths.

Theorem C01_end_to_end : forall D has_ns hcode rm rn rr re_ok ns w p abs steps,
  ws_fun w -> path_syntax p -> steps_of p = (abs, steps) -> xok p ->
  List.length steps < max_build_depth -> hash_ok hcode (all_nodes D) ->
  exists q, compile re_ok (print_ws w p) ns = Ok q /\ selects_path D has_ns hcode rm rn rr q abs steps.
Proof. exact C01_end_to_end_ws. Qed.
Print Assumptions C01_end_to_end.

(* ---- the implementation-only cases on the complete binary tree of 2^19-1 elements (generator
   families big-axes / big-union; go/internal/gen/trees.go RegularTree 2 d "x" = [regdoc d]): the
   numbers attached to those cases as expectres= literals are what the document model dictates, for
   every depth: the root has 2^(d+1)-1 descendants (all of them elements x), 2^d-1 of them have a
   child (the set //x/ancestor::*, //x/parent::x, //x[x] must denote) and 2^d have none. ---- *)
From XP.Proofs Require Import BigTree.

Theorem C01_big_tree_descendants : forall d,
  List.length (descendants (regdoc d) root_node) = 2 ^ (S d) - 1.
Proof. exact regdoc_descendants. Qed.
Print Assumptions C01_big_tree_descendants.

Theorem C01_big_tree_inner : forall d, List.length (inner_paths (regdoc d)) = 2 ^ d - 1.
Proof. exact regdoc_inner. Qed.
Print Assumptions C01_big_tree_inner.

Theorem C01_big_tree_leaves : forall d, List.length (leaf_paths (regdoc d)) = 2 ^ d.
Proof. exact regdoc_leaves. Qed.
Print Assumptions C01_big_tree_leaves.

Theorem C01_big_tree_literals :
  N.of_nat (List.length (below (regdoc 18))) = 524287%N /\ N.of_nat (List.length (inner_paths (regdoc 18))) = 262143%N.
Proof. exact (conj regdoc18_elements regdoc18_inner). Qed.
Print Assumptions C01_big_tree_literals.
