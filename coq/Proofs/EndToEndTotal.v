(* Proofs/EndToEndTotal.v — properties C06 / C15 / C04 at the level of
   ARBITRARY TEXT: every byte string, every namespace map, every regexp
   validity oracle.  These are compositions of what exists (CompileTotal.v,
   BuildFacts.v, NoCrash.v, Purity.v); what is new is that the whole life of an
   expression is stated from the text.

     (a) Compile(text) is exactly one of  Ok q  /  Err msg  (never out of
         fuel); an Ok result is a usable query; MustCompile(text) is that query
         or the nop query, never nil.
     (b) Whatever Compile returned Ok for: Select and Evaluate, on every
         document, navigator variant and start node, return a value or one of
         the package's documented complaints, never a runtime error.
     (c) Purity: after any history of Select / Evaluate / dirtying operations
         on the compiled expression, every operation returns what it returns
         on a freshly compiled expression of the same text. *)
From XP Require Import Base F64 Doc Ast Scan Parse Build Hash Eval Api.
From XP.Proofs Require Import ParseTerm BuildFacts CompileTotal NoCrash Purity.
Open Scope string_scope.
Open Scope nat_scope.
Open Scope list_scope.

(* an outcome that is a value or a documented complaint *)
Definition value_or_documented {A} (o : outcome A) : Prop :=
  (exists v, o = Val v) \/ (exists m, o = Complaint m /\ In m documented_complaints).

Lemma value_or_documented_not_crash : forall A (o : outcome A) k,
  value_or_documented o -> o <> Crash k.
Proof. intros A o k [[v ->]|[m [-> _]]]; discriminate. Qed.

Section Total.
Variable re_ok : string -> bool.
Variable rm : string -> string -> option bool.
Variable rn : string -> nat.
Variable rr : string -> string -> string -> string.
Variable hcode : tree -> node -> N.

Notation SELECT := (select rm rn rr hcode).
Notation EVALUATE := (evaluate rm rn rr hcode).
Notation STEP := (step rm rn rr hcode).
Notation RUN := (run rm rn rr hcode).

(** (a) Compile is total on texts *)
Theorem C06_text_compile_total : forall text ns,
  (exists q, compile re_ok text ns = Ok q) \/ (exists msg, compile re_ok text ns = Err msg).
Proof.
  intros text ns. destruct (compile_one_of re_ok text ns) as [(q & H & _)|(m & H)]; eauto.
Qed.

Theorem C06_text_compile_not_out_of_fuel : forall text ns, compile re_ok text ns <> OutOfFuel.
Proof. exact (compile_terminates re_ok). Qed.

(* the two cases exclude each other, and an Ok result is usable *)
Theorem C06_text_compile_exactly_one : forall text ns,
  (exists q, compile re_ok text ns = Ok q /\ q <> QNil /\ qok q = true /\
             forall msg, compile re_ok text ns <> Err msg) \/
  (exists msg, compile re_ok text ns = Err msg /\ forall q, compile re_ok text ns <> Ok q).
Proof.
  intros text ns. destruct (compile_one_of re_ok text ns) as [(q & H & Hn & Hq)|(m & H)].
  - left. exists q. repeat split; try assumption. intros msg. rewrite H. discriminate.
  - right. exists m. split; [exact H|]. intros q. rewrite H. discriminate.
Qed.

(* MustCompile: the compiled query, or the nop query; never nil *)
Theorem C06_text_must_compile : forall text,
  ((exists q, compile re_ok text None = Ok q /\ must_compile re_ok text = q) \/
   (exists msg, compile re_ok text None = Err msg /\ must_compile re_ok text = QNop)) /\
  must_compile re_ok text <> QNil.
Proof.
  intros text. split; [|apply must_compile_not_nil].
  unfold must_compile. destruct (compile re_ok text None) as [q|m|] eqn:E.
  - left. exists q. auto.
  - right. exists m. auto.
  - exfalso. exact (compile_terminates re_ok text None E).
Qed.

(** (b) no runtime error, only documented complaints *)
Theorem C15_text_no_runtime_error : forall text ns q,
  compile re_ok text ns = Ok q ->
  forall D has_ns c,
    value_or_documented (SELECT D has_ns q c) /\ value_or_documented (EVALUATE D has_ns q c) /\
    (forall k, SELECT D has_ns q c <> Crash k) /\ (forall k, EVALUATE D has_ns q c <> Crash k).
Proof.
  intros text ns q _ D has_ns c.
  assert (Hs : value_or_documented (SELECT D has_ns q c)).
  { destruct (select_val_or_complaint rm rn rr hcode D has_ns q c) as [[l H]|[m H]].
    - left. eauto.
    - right. exists m. split; [exact H|]. apply (select_complaints_documented rm rn rr hcode D has_ns q c m H). }
  assert (He : value_or_documented (EVALUATE D has_ns q c)).
  { destruct (evaluate_val_or_complaint rm rn rr hcode D has_ns q c) as [[l H]|[m H]].
    - left. eauto.
    - right. exists m. split; [exact H|]. apply (evaluate_complaints_documented rm rn rr hcode D has_ns q c m H). }
  split; [exact Hs|]. split; [exact He|].
  split; intros k; apply value_or_documented_not_crash; assumption.
Qed.

(* the same for what MustCompile returns, whatever the text *)
Theorem C15_text_must_compile_no_runtime_error : forall text D has_ns c,
  value_or_documented (SELECT D has_ns (must_compile re_ok text) c) /\
  value_or_documented (EVALUATE D has_ns (must_compile re_ok text) c).
Proof.
  intros text D has_ns c. set (q := must_compile re_ok text). split.
  - destruct (select_val_or_complaint rm rn rr hcode D has_ns q c) as [[l H]|[m H]].
    + left. eauto.
    + right. exists m. split; [exact H|]. apply (select_complaints_documented rm rn rr hcode D has_ns q c m H).
  - destruct (evaluate_val_or_complaint rm rn rr hcode D has_ns q c) as [[l H]|[m H]].
    + left. eauto.
    + right. exists m. split; [exact H|]. apply (evaluate_complaints_documented rm rn rr hcode D has_ns q c m H).
Qed.

(** (c) purity, from the text *)
Theorem C04_text_history_independent : forall text ns q q',
  compile re_ok text ns = Ok q ->
  compile re_ok text ns = Ok q' ->          (* a second, fresh compilation of the same text *)
  forall (h : list op) (o : op),
    snd (STEP (RUN h (mkExpr q [])) o) = snd (STEP (mkExpr q' []) o).
Proof.
  intros text ns q q' H H' h o. rewrite H in H'. inversion H'; subst q'.
  apply history_independent.
Qed.

(* two users of the same compiled expression never disturb each other *)
Corollary C04_text_histories_agree : forall text ns q,
  compile re_ok text ns = Ok q ->
  forall (h1 h2 : list op) (o : op),
    snd (STEP (RUN h1 (mkExpr q [])) o) = snd (STEP (RUN h2 (mkExpr q [])) o).
Proof. intros text ns q _ h1 h2 o. apply histories_agree. Qed.

(** the whole life of an expression, from its text *)
Theorem text_lifecycle : forall text ns,
  (exists msg, compile re_ok text ns = Err msg) \/
  (exists q, compile re_ok text ns = Ok q /\ q <> QNil /\ qok q = true /\
     (forall D has_ns c,
        value_or_documented (SELECT D has_ns q c) /\ value_or_documented (EVALUATE D has_ns q c)) /\
     (forall h o, snd (STEP (RUN h (mkExpr q [])) o) = snd (STEP (mkExpr q []) o))).
Proof.
  intros text ns. destruct (compile_one_of re_ok text ns) as [(q & H & Hn & Hq)|(m & H)].
  - right. exists q. split; [exact H|]. split; [exact Hn|]. split; [exact Hq|]. split.
    + intros D has_ns c. destruct (C15_text_no_runtime_error text ns q H D has_ns c) as (A & B & _). auto.
    + intros h o. apply history_independent.
  - left. eauto.
Qed.

End Total.

Print Assumptions C06_text_compile_total.
Print Assumptions C06_text_compile_exactly_one.
Print Assumptions C06_text_must_compile.
Print Assumptions C15_text_no_runtime_error.
Print Assumptions C15_text_must_compile_no_runtime_error.
Print Assumptions C04_text_history_independent.
Print Assumptions text_lifecycle.

(* ------------------------------------------------------------------ *)
(** * Examples                                                          *)
(* ------------------------------------------------------------------ *)
Module Examples.

(* garbage, a truncated expression, an expression that complains at run time *)
Example totals :
  (exists m, compile lit_ok "]]][[[" None = Err m) /\
  (exists m, compile lit_ok "a/b[" None = Err m) /\
  (exists q, compile lit_ok "sum('x')" None = Ok q /\
     evaluate lit_match lit_numsubexp lit_replace_all hash_code pdoc false q root_node
       = Complaint "sum() function argument type must be a node-set or number" /\
     In "sum() function argument type must be a node-set or number" documented_complaints).
Proof.
  split; [eexists; vm_compute; reflexivity|]. split; [eexists; vm_compute; reflexivity|].
  destruct (text_lifecycle lit_ok lit_match lit_numsubexp lit_replace_all hash_code "sum('x')" None)
    as [(m & H)|(q & H & _ & _ & Hv & _)].
  - vm_compute in H. discriminate.
  - exists q. split; [exact H|].
    assert (E : evaluate lit_match lit_numsubexp lit_replace_all hash_code pdoc false q root_node
                = Complaint "sum() function argument type must be a node-set or number").
    { vm_compute in H. inversion H; subst q. vm_compute. reflexivity. }
    split; [exact E|].
    destruct (Hv pdoc false root_node) as [_ [[v Ev]|[m [Em Hin]]]].
    + rewrite E in Ev. discriminate.
    + rewrite E in Em. inversion Em. subst m. exact Hin.
Qed.

(* MustCompile of garbage is the nop query, which selects nothing and is harmless *)
Example must_compile_garbage :
  must_compile lit_ok "]]][[[" = QNop /\
  select lit_match lit_numsubexp lit_replace_all hash_code pdoc false (must_compile lit_ok "]]][[[") root_node = Val [].
Proof. split; vm_compute; reflexivity. Qed.

End Examples.
