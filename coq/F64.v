(* F64.v — IEEE 754 binary64 on Coq's proof-free SpecFloat: the arithmetic the
   Go code gets from the hardware, strconv.ParseFloat on plain decimal
   strings, strconv.FormatFloat(v,'f',-1,64), math.Floor/Ceil/Mod/Round,
   and float->int conversion. Definitions only. *)
From Coq Require Import ZArith NArith Bool List String Ascii Lia.
From Coq Require Export Floats.SpecFloat.
From XP Require Import Base.
Open Scope Z_scope.

Definition prec : Z := 53.
Definition emax : Z := 1024.

Definition f64 := spec_float.

Definition fadd : f64 -> f64 -> f64 := SFadd prec emax.
Definition fsub : f64 -> f64 -> f64 := SFsub prec emax.
Definition fmul : f64 -> f64 -> f64 := SFmul prec emax.
Definition fdiv : f64 -> f64 -> f64 := SFdiv prec emax.
Definition fneg : f64 -> f64 := SFopp.

Definition fnan : f64 := S754_nan.
Definition fzero : f64 := S754_zero false.
Definition of_Z (z : Z) : f64 := binary_normalize prec emax z 0 false.
Definition fone : f64 := of_Z 1.
Definition fminus_one : f64 := of_Z (-1).
Definition fhalf : f64 := binary_normalize prec emax 1 (-1) false.

Definition is_nan (x : f64) : bool := match x with S754_nan => true | _ => false end.
Definition is_finite (x : f64) : bool :=
  match x with S754_zero _ | S754_finite _ _ _ => true | _ => false end.
Definition is_zero (x : f64) : bool := match x with S754_zero _ => true | _ => false end.

(* Go comparison operators on float64 *)
Definition feq (a b : f64) : bool := SFeqb a b.
Definition flt (a b : f64) : bool := SFltb a b.
Definition fle (a b : f64) : bool := SFleb a b.
Definition fgt (a b : f64) : bool := SFltb b a.
Definition fge (a b : f64) : bool := SFleb b a.
Definition fne (a b : f64) : bool := negb (SFeqb a b).

(* ------------------------------------------------------------------ *)
(* exact value of a finite float as integer * 2^e; floor / ceil / trunc *)

(* floor of m * 2^e for m >= 0 *)
Definition floor_pos (m : Z) (e : Z) : Z :=
  if Z.leb 0 e then Z.shiftl m e else Z.shiftr m (- e).

Definition is_integral (m : positive) (e : Z) : bool :=
  if Z.leb 0 e then true else Z.eqb (Z.shiftl (Z.shiftr (Zpos m) (- e)) (- e)) (Zpos m).

(* math.Trunc as an exact integer, for finite values *)
Definition trunc_Z (x : f64) : Z :=
  match x with
  | S754_finite s m e => let t := floor_pos (Zpos m) e in if s then - t else t
  | _ => 0
  end.

Definition floor_Z (x : f64) : Z :=
  match x with
  | S754_finite s m e =>
    let t := floor_pos (Zpos m) e in
    if s then (if is_integral m e then - t else - t - 1) else t
  | _ => 0
  end.

Definition ceil_Z (x : f64) : Z :=
  match x with
  | S754_finite s m e =>
    let t := floor_pos (Zpos m) e in
    if s then - t else (if is_integral m e then t else t + 1)
  | _ => 0
  end.

(* an integer result keeps the sign of the argument when it is zero
   (math.Floor(-0) = -0, math.Ceil(-0.5) = -0) *)
Definition of_Z_signed (z : Z) (neg : bool) : f64 := binary_normalize prec emax z 0 neg.

Definition ffloor (x : f64) : f64 :=
  match x with
  | S754_finite s _ _ => of_Z_signed (floor_Z x) s
  | _ => x
  end.

Definition fceil (x : f64) : f64 :=
  match x with
  | S754_finite s _ _ => of_Z_signed (ceil_Z x) s
  | _ => x
  end.

(* math.Round: half away from zero *)
Definition fround_away (x : f64) : f64 :=
  match x with
  | S754_finite s m e =>
    let t := floor_pos (Zpos m) e in
    let twice := floor_pos (Zpos m) (e + 1) in (* floor(2|x|) *)
    let r := if Z.odd twice then t + 1 else t in
    of_Z_signed (if s then - r else r) s
  | _ => x
  end.

(* Go's conversion int(f) on amd64: truncation; NaN and values outside the
   int64 range give the "integer indefinite" value -2^63. *)
Definition min_int64 : Z := - 2 ^ 63.
Definition go_int (x : f64) : Z :=
  match x with
  | S754_zero _ => 0
  | S754_finite _ _ _ =>
    let t := trunc_Z x in
    if andb (Z.leb min_int64 t) (Z.ltb t (2 ^ 63)) then t else min_int64
  | _ => min_int64
  end.

(* math.Mod(x, y): exact truncating remainder, sign of x *)
Definition fmod (x y : f64) : f64 :=
  match x, y with
  | S754_nan, _ | _, S754_nan => S754_nan
  | S754_infinity _, _ => S754_nan
  | _, S754_zero _ => S754_nan
  | S754_zero _, _ => x
  | _, S754_infinity _ => x
  | S754_finite sx mx ex, S754_finite _ my ey =>
    let e := Z.min ex ey in
    let X := Z.shiftl (Zpos mx) (ex - e) in
    let Y := Z.shiftl (Zpos my) (ey - e) in
    let R := Z.modulo X Y in
    binary_normalize prec emax (if sx then - R else R) e sx
  end.

(* ------------------------------------------------------------------ *)
(* decimal -> binary64, correctly rounded (strconv.ParseFloat on
   digits [. digits]) : value = n / 10^k *)

Definition of_ratio (neg : bool) (n : Z) (d : Z) : f64 :=
  match n with
  | Z0 => S754_zero neg
  | Zneg _ => S754_nan
  | Zpos _ =>
    let '(q, e, l) := SFdiv_core_binary prec emax n 0 d 0 in
    binary_round_aux prec emax neg q e l
  end.

Fixpoint digits_val (l : list ascii) (acc : Z) : Z :=
  match l with
  | nil => acc
  | c :: r => digits_val r (acc * 10 + (Z.of_nat (byte_of c) - 48))
  end.

Definition of_decimal (neg : bool) (ip fp : list ascii) : f64 :=
  let n := digits_val fp (digits_val ip 0) in
  let k := Z.of_nat (List.length fp) in
  if Z.eqb k 0 then (match n with Z0 => S754_zero neg | _ => binary_normalize prec emax (if neg then - n else n) 0 neg end)
  else of_ratio neg n (10 ^ k).

(* ------------------------------------------------------------------ *)
(* binary64 -> shortest decimal digits that round-trip, then plain notation
   (strconv.FormatFloat(v, 'f', -1, 64)) *)

Fixpoint pos_digits_fuel (fuel : nat) (n : Z) (acc : string) : string :=
  match fuel with
  | O => acc
  | S f =>
    let acc' := String (ascii_of_nat (48 + Z.to_nat (n mod 10))) acc in
    if Z.ltb n 10 then acc' else pos_digits_fuel f (n / 10) acc'
  end.
Definition Z_digits (n : Z) : string := pos_digits_fuel (S (Z.to_nat (Z.log2 n))) n EmptyString.

Fixpoint zeros (n : nat) : string :=
  match n with O => EmptyString | S k => String "0"%char (zeros k) end.

(* F * 10^p in plain notation, F > 0 *)
Definition plain (F : Z) (p : Z) : string :=
  let ds := Z_digits F in
  if Z.leb 0 p then (ds ++ zeros (Z.to_nat p))%string
  else
    let nd := Z.of_nat (String.length ds) in
    let fr := - p in
    if Z.ltb fr nd then
      (firstn_s (Z.to_nat (nd - fr)) ds ++ "." ++ skipn_s (Z.to_nat (nd - fr)) ds)%string
    else ("0." ++ zeros (Z.to_nat (fr - nd)) ++ ds)%string.

(* x = xn/dn > 0.  smallest k with x < 10^k, searched around an estimate *)
Fixpoint adjust_up (fuel : nat) (xn dn k : Z) : Z :=
  match fuel with
  | O => k
  | S f =>
    (* x >= 10^k ? *)
    let ge := if Z.leb 0 k then Z.leb (dn * 10 ^ k) xn else Z.leb dn (xn * 10 ^ (- k)) in
    if ge then adjust_up f xn dn (k + 1) else k
  end.
Fixpoint adjust_down (fuel : nat) (xn dn k : Z) : Z :=
  match fuel with
  | O => k
  | S f =>
    (* x < 10^(k-1) ? *)
    let k1 := k - 1 in
    let lt := if Z.leb 0 k1 then Z.ltb xn (dn * 10 ^ k1) else Z.ltb (xn * 10 ^ (- k1)) dn in
    if lt then adjust_down f xn dn k1 else k
  end.

(* compare F * 10^p with bn/dn *)
Definition cmp_dec (F p bn dn : Z) : comparison :=
  if Z.leb 0 p then Z.compare (F * 10 ^ p * dn) bn
  else Z.compare (F * dn) (bn * 10 ^ (- p)).

Definition in_interval (incl : bool) (F p lo hi dn : Z) : bool :=
  let cl := cmp_dec F p lo dn in
  let ch := cmp_dec F p hi dn in
  andb (match cl with Gt => true | Eq => incl | Lt => false end)
       (match ch with Lt => true | Eq => incl | Gt => false end).

(* try n significant digits: Some (F, p) *)
Definition try_digits (incl : bool) (xn lo hi dn k : Z) (n : Z) : option (Z * Z) :=
  let p := k - n in
  let f := if Z.leb 0 p then xn / (dn * 10 ^ p) else (xn * 10 ^ (- p)) / dn in
  let c := f + 1 in
  let exact := match cmp_dec f p xn dn with Eq => true | _ => false end in
  let okf := in_interval incl f p lo hi dn in
  let okc := in_interval incl c p lo hi dn in
  if exact then Some (f, p)
  else if andb okf okc then
    (* nearest to x: compare 2x with f+c (in units of 10^p) *)
    let s := f + c in
    match cmp_dec s p (2 * xn) dn with
    | Gt => Some (f, p)       (* midpoint above x: f is nearer *)
    | Lt => Some (c, p)
    | Eq => Some (if Z.even f then f else c, p)
    end
  else if okf then (if Z.eqb f 0 then None else Some (f, p))
  else if okc then Some (c, p)
  else None.

Fixpoint shortest_search (fuel : nat) (incl : bool) (xn lo hi dn k n : Z) : Z * Z :=
  match fuel with
  | O => (0, 0)
  | S fu =>
    match try_digits incl xn lo hi dn k n with
    | Some r => r
    | None => shortest_search fu incl xn lo hi dn k (n + 1)
    end
  end.

Definition shortest (m : positive) (e : Z) : Z * Z :=
  (* x = 4m * 2^(e-2); neighbours' midpoints 4m-2 (or 4m-1 at a binade boundary), 4m+2 *)
  let boundary := andb (Pos.eqb m (Pos.shiftl_nat 1 52)) (Z.ltb (3 - emax - prec) e) in
  let x4 := 4 * Zpos m in
  let lo4 := if boundary then x4 - 1 else x4 - 2 in
  let hi4 := x4 + 2 in
  let e2 := e - 2 in
  let sc := if Z.leb 0 e2 then 2 ^ e2 else 1 in
  let dn := if Z.leb 0 e2 then 1 else 2 ^ (- e2) in
  let xn := x4 * sc in
  let lo := lo4 * sc in
  let hi := hi4 * sc in
  let est := ((Z.log2 (Zpos m) + 1 + e) * 78913) / 262144 in
  let k := adjust_down 4 xn dn (adjust_up 4 xn dn est) in
  shortest_search 20 (Z.even (Zpos m)) xn lo hi dn k 1.

Fixpoint strip_zeros (fuel : nat) (F p : Z) : Z * Z :=
  match fuel with
  | O => (F, p)
  | S fu => if andb (Z.ltb p 0) (Z.eqb (F mod 10) 0) then strip_zeros fu (F / 10) (p + 1) else (F, p)
  end.

Definition format_f (x : f64) : string :=
  match x with
  | S754_nan => "NaN"
  | S754_infinity false => "+Inf"
  | S754_infinity true => "-Inf"
  | S754_zero false => "0"
  | S754_zero true => "-0"
  | S754_finite s m e =>
    let '(F0, p0) := shortest m e in
    let '(F, p) := strip_zeros 25 F0 p0 in
    ((if s then "-" else "") ++ plain F p)%string
  end.

(* ------------------------------------------------------------------ *)
(* IEEE bit pattern (for exchanging values with the implementation) *)
Definition bits_of (x : f64) : Z :=
  match x with
  | S754_zero s => if s then 2 ^ 63 else 0
  | S754_infinity s => (if s then 2 ^ 63 else 0) + 2047 * 2 ^ 52
  | S754_nan => 2047 * 2 ^ 52 + 2 ^ 51
  | S754_finite s m e =>
    let sg := if s then 2 ^ 63 else 0 in
    if Z.ltb (Zpos m) (2 ^ 52) then sg + Zpos m   (* subnormal: e = -1074 *)
    else sg + (e + 1075) * 2 ^ 52 + (Zpos m - 2 ^ 52)
  end.

Definition of_bits (b : Z) : f64 :=
  let s := Z.leb (2 ^ 63) b in
  let r := b mod 2 ^ 63 in
  let ex := r / 2 ^ 52 in
  let mt := r mod 2 ^ 52 in
  if Z.eqb ex 2047 then (if Z.eqb mt 0 then S754_infinity s else S754_nan)
  else if Z.eqb ex 0 then
    match mt with Zpos p => S754_finite s p (-1074) | _ => S754_zero s end
  else match mt + 2 ^ 52 with Zpos p => S754_finite s p (ex - 1075) | _ => S754_nan end.
